//go:build verif

// C16 harness: anti-entropy between the agent's local state and the catalog.
//
// A real agent/local.State is driven with the calls agent/agent.go makes
// (AddServiceWithChecks, AddCheck, RemoveServiceWithChecks, RemoveCheck, UpdateCheck) and
// synchronised with SyncFull / SyncChanges against a Delegate whose RPCs are served by the
// real server-side code: the pre-apply part of Catalog.Register / Catalog.Deregister
// (agent/consul, through an export shim) followed by the real FSM + state store, and
// state.NodeServiceList / state.NodeChecks for the reads. The delegate injects one outcome
// per call (ok / refused by ACLs / failed / applied-but-reply-lost) chosen by the generator,
// and an "external writer" changes the catalog behind the agent's back (drift).
//
// After every operation the harness prints the agent's complete local state (including
// entries marked Deleted and remote-only placeholders, with their flags) and the node's
// catalog content; the Lean model (CV.AE) must reproduce every line. Go map iteration order
// is not controllable, so each sync line carries the order in which the implementation was
// observed to issue its calls and the model replays that order.
//
// Monitors (independent of the Lean model) restate the property on the implementation:
//   converge  after a full sync in which every RPC succeeded (and not concurrent with local
//             changes) the catalog's services/checks of the node equal the live local
//             registrations and nothing is left out of sync / pending deletion
//   sound     a sync never newly marks in-sync an entry the catalog does not hold, unless that
//             entry's RPC was refused by ACLs
//   justify   an in-sync flag only ever turns on through an ok/refused RPC for that entry
//             (or, in a full sync, because the catalog already holds the same definition)
//   forgot    an entry pending deletion that the catalog still holds is still pending afterwards
//   retry     a full sync re-issues the RPC of every in-sync-marked entry the catalog lacks
package main

import (
	"context"
	"errors"
	"fmt"
	"reflect"
	"runtime"
	"sort"
	"strconv"
	"strings"
	"sync"
	"time"

	"github.com/hashicorp/go-hclog"
	"github.com/hashicorp/raft"

	"github.com/hashicorp/consul/acl"
	"github.com/hashicorp/consul/acl/resolver"
	"github.com/hashicorp/consul/agent/ae"
	"github.com/hashicorp/consul/agent/consul"
	"github.com/hashicorp/consul/agent/consul/fsm"
	"github.com/hashicorp/consul/agent/consul/state"
	"github.com/hashicorp/consul/agent/local"
	"github.com/hashicorp/consul/agent/structs"
	"github.com/hashicorp/consul/agent/token"
	"github.com/hashicorp/consul/internal/verifharness/hx"
	"github.com/hashicorp/consul/types"
)

const (
	nodeName = "node1"
	nodeID   = types.NodeID("11111111-2222-3333-4444-555555555555")
	nodeAddr = "10.0.0.1"
)

// ---------------------------------------------------------------- abstract definitions

type svcDef struct {
	name string
	tags []string
	eto  bool
	// port: Port = port % 10000; port / 10000 = the other fields NodeService.IsSame compares, as bits:
	// 1 Address, 2 Weights, 4 Meta, 8 Locality, 16 Connect.Native, 32 Kind=connect-proxy + Proxy
	port int
	ta   map[string]int
}

const portBits = 10000

type chkDef struct {
	sid    string
	status int
	sname  string
	stags  []string
	// rest: the remaining fields HealthCheck.IsSame compares, as bits: 1 Notes, 2 Name, 4 Definition
	rest int
}

type chkItem struct {
	id string
	d  chkDef
}

var statuses = []string{"passing", "warning", "critical"}

func encPlus(ts []string) string {
	if len(ts) == 0 {
		return "-"
	}
	return strings.Join(ts, "+")
}
func encTags(ts []string) string {
	e := make([]string, len(ts))
	for i, t := range ts {
		e[i] = hx.EncS(t)
	}
	return encPlus(e)
}
func (d svcDef) enc() string {
	keys := make([]string, 0, len(d.ta))
	for k := range d.ta {
		keys = append(keys, k)
	}
	sort.Strings(keys)
	ta := make([]string, len(keys))
	for i, k := range keys {
		ta[i] = hx.EncS(k) + "~" + strconv.Itoa(d.ta[k])
	}
	return strings.Join([]string{hx.EncS(d.name), encTags(d.tags), hx.EncBool(d.eto), strconv.Itoa(d.port), encPlus(ta)}, ";")
}
func (d chkDef) enc() string {
	return strings.Join([]string{hx.EncS(d.sid), strconv.Itoa(d.status), hx.EncS(d.sname), encTags(d.stags), strconv.Itoa(d.rest)}, ";")
}
func (d svcDef) equal(o svcDef) bool { return d.enc() == o.enc() }
func (d chkDef) equal(o chkDef) bool { return d.enc() == o.enc() }
func (d chkDef) coreEqual(o chkDef) bool {
	return d.sid == o.sid && d.status == o.status && d.rest == o.rest
}

func nilIfEmpty(ts []string) []string {
	if len(ts) == 0 {
		return nil
	}
	return append([]string(nil), ts...)
}

func mkService(id string, d svcDef) *structs.NodeService {
	ns := &structs.NodeService{
		ID:                id,
		Service:           d.name,
		Tags:              nilIfEmpty(d.tags),
		Port:              d.port % portBits,
		EnableTagOverride: d.eto,
		Weights:           &structs.Weights{Passing: 1, Warning: 1},
		EnterpriseMeta:    *structs.DefaultEnterpriseMetaInDefaultPartition(),
	}
	bits := d.port / portBits
	if bits&1 != 0 {
		ns.Address = "10.9.9.9"
	}
	if bits&2 != 0 {
		ns.Weights = &structs.Weights{Passing: 2, Warning: 1}
	}
	if bits&4 != 0 {
		ns.Meta = map[string]string{"m": "1"}
	}
	if bits&8 != 0 {
		ns.Locality = &structs.Locality{Region: "r1"}
	}
	if bits&16 != 0 {
		ns.Connect.Native = true
	}
	if bits&32 != 0 {
		ns.Kind = structs.ServiceKindConnectProxy
		ns.Proxy = structs.ConnectProxyConfig{DestinationServiceName: "db", Config: map[string]interface{}{"k": "v"}}
	}
	if len(d.ta) > 0 {
		ns.TaggedAddresses = map[string]structs.ServiceAddress{}
		for k, v := range d.ta {
			ns.TaggedAddresses[k] = structs.ServiceAddress{Address: "a", Port: v}
		}
	}
	return ns
}

func svcOf(ns *structs.NodeService) svcDef {
	d := svcDef{name: ns.Service, tags: append([]string(nil), ns.Tags...), eto: ns.EnableTagOverride, port: ns.Port}
	bits, odd := 0, false
	switch ns.Address {
	case "":
	case "10.9.9.9":
		bits |= 1
	default:
		odd = true
	}
	switch {
	case ns.Weights != nil && *ns.Weights == structs.Weights{Passing: 1, Warning: 1}:
	case ns.Weights != nil && *ns.Weights == structs.Weights{Passing: 2, Warning: 1}:
		bits |= 2
	default:
		odd = true
	}
	switch {
	case len(ns.Meta) == 0:
	case len(ns.Meta) == 1 && ns.Meta["m"] == "1":
		bits |= 4
	default:
		odd = true
	}
	switch {
	case ns.Locality == nil:
	case *ns.Locality == structs.Locality{Region: "r1"}:
		bits |= 8
	default:
		odd = true
	}
	if ns.Connect.Native {
		bits |= 16
	}
	switch {
	case ns.Kind == structs.ServiceKindTypical && ns.Proxy.DestinationServiceName == "" && len(ns.Proxy.Config) == 0:
	case ns.Kind == structs.ServiceKindConnectProxy && ns.Proxy.DestinationServiceName == "db" && len(ns.Proxy.Config) == 1 && fmt.Sprint(ns.Proxy.Config["k"]) == "v":
		bits |= 32
	default:
		odd = true
	}
	if odd || ns.Port >= portBits || ns.SocketPath != "" || len(ns.Ports) != 0 {
		bits = 99
	}
	d.port += portBits * bits
	if len(ns.TaggedAddresses) > 0 {
		d.ta = map[string]int{}
		for k, v := range ns.TaggedAddresses {
			d.ta[k] = v.Port
		}
	}
	return d
}

func mkCheck(id string, d chkDef) *structs.HealthCheck {
	hc := &structs.HealthCheck{
		Node:           nodeName,
		CheckID:        types.CheckID(id),
		Name:           "chk-" + id,
		Status:         statuses[d.status%3],
		Output:         "o" + strconv.Itoa(d.status/3),
		ServiceID:      d.sid,
		ServiceName:    d.sname,
		ServiceTags:    nilIfEmpty(d.stags),
		EnterpriseMeta: *structs.DefaultEnterpriseMetaInDefaultPartition(),
	}
	if d.rest&1 != 0 {
		hc.Notes = "n1"
	}
	if d.rest&2 != 0 {
		hc.Name = "alt-" + id
	}
	if d.rest&4 != 0 {
		hc.Definition.Interval = 10 * time.Second
	}
	return hc
}

func chkOf(hc *structs.HealthCheck) chkDef {
	st := 99
	for i, s := range statuses {
		if hc.Status == s {
			st = i
		}
	}
	if n, err := strconv.Atoi(strings.TrimPrefix(hc.Output, "o")); err == nil && st != 99 {
		st += 3 * n
	} else {
		st = 99
	}
	d := chkDef{sid: hc.ServiceID, status: st, sname: hc.ServiceName, stags: append([]string(nil), hc.ServiceTags...)}
	id := string(hc.CheckID)
	switch hc.Notes {
	case "":
	case "n1":
		d.rest |= 1
	default:
		d.rest |= 1000
	}
	switch hc.Name {
	case "chk-" + id:
	case "alt-" + id:
		d.rest |= 2
	default:
		d.rest |= 2000
	}
	switch {
	case reflect.DeepEqual(hc.Definition, structs.HealthCheckDefinition{}):
	case reflect.DeepEqual(hc.Definition, structs.HealthCheckDefinition{Interval: 10 * time.Second}):
		d.rest |= 4
	default:
		d.rest |= 4000
	}
	return d
}

// ---------------------------------------------------------------- node info
//
// The node-level information updateSyncState compares (ID, TaggedAddresses, Locality, Meta) is one
// abstract value v = m + 10*id + 20*ta + 40*loc:  m = node meta "v" (0..9), id 0 = the agent's node
// ID / 1 = no ID, ta 0 = {lan} / 1 = {lan, wan}, loc 0 = none / 1 = region r1. The node's Address is
// held constant (updateSyncState does not compare it).

func nodeTA(v int) map[string]string {
	if (v/20)%2 == 1 {
		return map[string]string{"lan": nodeAddr, "wan": "1.2.3.4"}
	}
	return map[string]string{"lan": nodeAddr}
}
func nodeIDOf(v int) types.NodeID {
	if (v/10)%2 == 1 {
		return ""
	}
	return nodeID
}
func nodeLoc(v int) *structs.Locality {
	if (v/40)%2 == 1 {
		return &structs.Locality{Region: "r1"}
	}
	return nil
}
func nodeMeta(v int) map[string]string { return map[string]string{"v": strconv.Itoa(v % 10)} }

func nodeValOf(n *structs.Node) int {
	v := 0
	m, err := strconv.Atoi(n.Meta["v"])
	if err != nil || len(n.Meta) != 1 || m < 0 || m > 9 {
		return 9999
	}
	v += m
	switch n.ID {
	case nodeID:
	case "":
		v += 10
	default:
		return 9999
	}
	switch {
	case reflect.DeepEqual(n.TaggedAddresses, nodeTA(0)):
	case reflect.DeepEqual(n.TaggedAddresses, nodeTA(20)):
		v += 20
	default:
		return 9999
	}
	switch {
	case n.Locality == nil:
	case *n.Locality == structs.Locality{Region: "r1"}:
		v += 40
	default:
		return 9999
	}
	if n.Address != nodeAddr {
		return 9999
	}
	return v
}

// localityWritable: does the state store write a node registration that differs from the stored
// node in its Locality only? As the code is it does not (ensureNodeTxn skips the write when
// Node.IsSame, which ignores Locality) and the Lean model says the same (CV.AE.nodeWrite): a side
// finding, not a C16 violation (the property speaks of services and checks). Should the store be
// repaired one day, the probe keeps the check quiet: locality drift and the scripted witness are
// compared with the model only while the store behaves as modelled.
var localityWritable bool

func probeLocality() bool {
	w := &world{f: newFSM(), idx: 10, faults: map[string]string{}}
	reg := func(v int) {
		err := w.serverRegister(&structs.RegisterRequest{Datacenter: "dc1", ID: nodeID, Node: nodeName, Address: nodeAddr,
			TaggedAddresses: nodeTA(v), NodeMeta: nodeMeta(v), Locality: nodeLoc(v), WriteRequest: structs.WriteRequest{Token: "drift"}})
		if err != nil {
			panic(err)
		}
	}
	reg(1)
	reg(41)
	_, n, err := w.store().GetNode(nodeName, nil, "")
	if err != nil || n == nil {
		panic("probeLocality")
	}
	return nodeValOf(n) == 41
}

// ---------------------------------------------------------------- snapshots of both sides

type lsvc struct {
	ghost                    bool
	d                        svcDef
	tok                      string
	isLocal, inSync, deleted bool
}
type lchk struct {
	ghost                    bool
	d                        chkDef
	tok                      string
	isLocal, inSync, deleted bool
	armed                    bool // deferred-output timer non-nil
}

func (e lsvc) live() bool { return !e.ghost && !e.deleted }
func (e lchk) live() bool { return !e.ghost && !e.deleted }

type snap struct {
	nodeInSync bool
	ls         map[string]lsvc
	lc         map[string]lchk
	cnode      string // "-" or the node info value
	cs         map[string]svcDef
	cc         map[string]chkDef
}

func sortedKeys[V any](m map[string]V) []string {
	ks := make([]string, 0, len(m))
	for k := range m {
		ks = append(ks, k)
	}
	sort.Strings(ks)
	return ks
}

func (s snap) dump() string {
	var ls, lc, cs, cc []string
	for _, id := range sortedKeys(s.ls) {
		e := s.ls[id]
		if e.ghost {
			ls = append(ls, strings.Join([]string{hx.EncS(id), "G", hx.EncBool(e.inSync)}, "!"))
		} else {
			ls = append(ls, strings.Join([]string{hx.EncS(id), "E", e.d.enc(), hx.EncS(e.tok), hx.EncBool(e.isLocal), hx.EncBool(e.inSync), hx.EncBool(e.deleted)}, "!"))
		}
	}
	for _, id := range sortedKeys(s.lc) {
		e := s.lc[id]
		if e.ghost {
			lc = append(lc, strings.Join([]string{hx.EncS(id), "G", hx.EncBool(e.inSync)}, "!"))
		} else {
			lc = append(lc, strings.Join([]string{hx.EncS(id), "E", e.d.enc(), hx.EncS(e.tok), hx.EncBool(e.isLocal), hx.EncBool(e.inSync), hx.EncBool(e.deleted), hx.EncBool(e.armed)}, "!"))
		}
	}
	for _, id := range sortedKeys(s.cs) {
		cs = append(cs, hx.EncS(id)+"!"+s.cs[id].enc())
	}
	for _, id := range sortedKeys(s.cc) {
		cc = append(cc, hx.EncS(id)+"!"+s.cc[id].enc())
	}
	return fmt.Sprintf("n=%s S=%s C=%s | N=%s s=%s c=%s", hx.EncBool(s.nodeInSync), hx.EncList(ls), hx.EncList(lc), s.cnode, hx.EncList(cs), hx.EncList(cc))
}

// localWF: every live check that is bound to a service is bound to a live local service
// (the agent checks this when a check is added and removes a service together with its checks).
func (s snap) localWF() bool {
	for _, e := range s.lc {
		if e.live() && e.d.sid != "" {
			if se, ok := s.ls[e.d.sid]; !ok || !se.live() {
				return false
			}
		}
	}
	return true
}

// ---------------------------------------------------------------- the world: agent + server

type call struct {
	kind    string // rs rc n sreg sdel creg cdel
	id      string
	outcome string // ok denied fail lost  (natural failure: fail)
	natural bool
	unknown bool
	injected string
	piggy   []string
	withSvc string
	tok     string // token of the request
	skip    bool   // RegisterRequest.SkipNodeUpdate
}

func (c call) enc() string {
	pg := make([]string, len(c.piggy))
	for i, k := range c.piggy {
		pg[i] = hx.EncS(k)
	}
	return strings.Join([]string{c.kind, hx.EncS(c.id), hx.EncS(c.tok), hx.EncBool(c.skip), encPlus(pg), hx.EncS(c.withSvc)}, "!")
}

type world struct {
	run     *hx.Run
	nodeVal int
	cfgTok  string
	userTok string
	st      *local.State
	f       *fsm.FSM
	idx     uint64
	faults  map[string]string
	calls   []call
	errN    int
	ops     []string
	// aclMode: the server vets every agent RPC with a real policy authorizer built from the
	// token of the request (drift writers stay unrestricted); refusals then arise naturally
	aclMode  bool
	agentTok string
	// silent: monitor-only history (ids that collide under case folding are outside the model's
	// assumptions, so its lines are not compared; the monitors still judge the implementation)
	silent bool
	tokens *token.Store
	// cui: CheckUpdateInterval > 0 (one hour: timers never expire by themselves, the harness makes
	// them fire with explicit `fire` operations)
	cui      bool
	interval time.Duration
}

func newFSM() *fsm.FSM {
	return fsm.NewFromDeps(fsm.Deps{
		Logger:         hclog.NewNullLogger(),
		NewStateStore:  func() *state.Store { return state.NewStateStore(nil) },
		StorageBackend: fsm.NullStorageBackend,
	})
}

func newWorld(run *hx.Run, nodeVal int, cfgTok, userTok string) *world {
	return newWorldACL(run, nodeVal, cfgTok, userTok, false, "agent-token")
}

func newWorldACL(run *hx.Run, nodeVal int, cfgTok, userTok string, aclMode bool, agentTok string) *world {
	return newWorldFull(run, nodeVal, cfgTok, userTok, aclMode, agentTok, 0)
}

func newWorldFull(run *hx.Run, nodeVal int, cfgTok, userTok string, aclMode bool, agentTok string, interval time.Duration) *world {
	w := &world{run: run, nodeVal: nodeVal, cfgTok: cfgTok, userTok: userTok, f: newFSM(), idx: 10, faults: map[string]string{},
		aclMode: aclMode, agentTok: agentTok, cui: interval > 0, interval: interval}
	tokens := new(token.Store)
	tokens.UpdateAgentToken(agentTok, token.TokenSourceConfig)
	tokens.UpdateUserToken(userTok, token.TokenSourceConfig)
	tokens.UpdateConfigFileRegistrationToken(cfgTok, token.TokenSourceConfig)
	w.st = local.NewState(local.Config{
		AdvertiseAddr:       nodeAddr,
		CheckUpdateInterval: interval,
		Datacenter:          "dc1",
		NodeID:              nodeID,
		NodeName:            nodeName,
		TaggedAddresses:     nodeTA(nodeVal),
	}, hclog.NewNullLogger(), tokens)
	w.tokens = tokens
	w.st.TriggerSyncChanges = func() {}
	w.st.Delegate = w
	if nodeVal%20 >= 10 || nodeVal >= 40 {
		panic("the agent's own node value has the real node ID and no locality")
	}
	if err := w.st.LoadMetadata(nodeMeta(nodeVal)); err != nil {
		panic(err)
	}
	w.line(fmt.Sprintf("reset %d %s %s %s %s", nodeVal, hx.EncS(cfgTok), hx.EncS(userTok), hx.EncBool(w.cui), hx.EncS(agentTok)), "ok")
	return w
}

func (w *world) line(op, out string) {
	w.ops = append(w.ops, op)
	if w.silent {
		return
	}
	w.run.Line(op, out)
}

func (w *world) store() *state.Store { return w.f.State() }

func (w *world) apply(t structs.MessageType, req any) error {
	buf, err := structs.Encode(t, req)
	if err != nil {
		panic(err)
	}
	w.idx++
	if e, ok := w.f.Apply(&raft.Log{Index: w.idx, Term: 1, Type: raft.LogCommand, Data: buf}).(error); ok && e != nil {
		return e
	}
	return nil
}

var authzAll = resolver.Result{Authorizer: acl.ManageAll()}

// token -> rules, for aclMode. Default is deny.
var tokenRules = map[string]string{
	"agent-token": `node_prefix "" { policy = "write" } service_prefix "" { policy = "read" }`,
	"weak-agent":  `service_prefix "" { policy = "write" }`, // an agent token without node:write
	"t1":          `service "web" { policy = "write" } service "api" { policy = "write" }`,
	"t2":          `service_prefix "" { policy = "write" }`,
	"usertok":     `service "db" { policy = "write" } node_prefix "" { policy = "write" }`,
	"cfgtok":      `service_prefix "" { policy = "write" } node_prefix "" { policy = "write" }`,
}
var authzCache = map[string]resolver.Result{}

func authzFor(tok string) resolver.Result {
	if a, ok := authzCache[tok]; ok {
		return a
	}
	var pols []*acl.Policy
	if rules, ok := tokenRules[tok]; ok {
		p, err := acl.NewPolicyFromSource(rules, nil, nil)
		if err != nil {
			panic(err)
		}
		pols = append(pols, p)
	}
	az, err := acl.NewPolicyAuthorizerWithDefaults(acl.DenyAll(), pols, nil)
	if err != nil {
		panic(err)
	}
	authzCache[tok] = resolver.Result{Authorizer: az}
	return authzCache[tok]
}

// serverRegister is Catalog.Register on the leader: pre-apply vetting, then the Raft command.
func (w *world) serverRegister(req *structs.RegisterRequest) error {
	az := authzAll
	if w.aclMode && req.Token != "drift" {
		az = authzFor(req.Token)
	}
	if err := consul.VerifCatalogRegisterPre(az, w.store(), req); err != nil {
		return err
	}
	return w.apply(structs.RegisterRequestType, req)
}

func (w *world) serverDeregister(req *structs.DeregisterRequest) error {
	az := authzAll
	if w.aclMode && req.Token != "drift" {
		az = authzFor(req.Token)
	}
	if err := consul.VerifCatalogDeregisterPre(az, w.store(), req); err != nil {
		return err
	}
	return w.apply(structs.DeregisterRequestType, req)
}

func (w *world) denyErr() error {
	w.errN++
	switch w.errN % 5 {
	case 0:
		return acl.ErrPermissionDenied
	case 1:
		return acl.PermissionDeniedError{Cause: "token lacks service:write"}
	case 2:
		return errors.New("rpc error making call: Permission denied")
	case 3:
		return acl.ErrNotFound
	default:
		return errors.New("rpc error making call: rpc error making call: ACL not found")
	}
}

func (w *world) failErr() error {
	w.errN++
	switch w.errN % 4 {
	case 0:
		return errors.New("rpc error making call: EOF")
	case 1:
		return structs.ErrNoLeader
	case 2:
		return errors.New("rpc error getting client: failed to get conn: dial tcp 10.0.0.9:8300: i/o timeout")
	default:
		return errors.New("raft: leadership lost while committing log")
	}
}

// caller tells which function of agent/local issued the RPC.
func caller() string {
	pcs := make([]uintptr, 24)
	n := runtime.Callers(2, pcs)
	frames := runtime.CallersFrames(pcs[:n])
	for {
		fr, more := frames.Next()
		if i := strings.LastIndex(fr.Function, "local.(*State)."); i >= 0 {
			return fr.Function[i+len("local.(*State)."):]
		}
		if !more {
			return ""
		}
	}
}

// RPC implements the Delegate of local.State.
func (w *world) RPC(_ context.Context, method string, args interface{}, reply interface{}) error {
	from := caller()
	switch method {
	case "Catalog.NodeServiceList":
		o := w.faults["rs"]
		if o == "" {
			o = "ok"
		}
		req := args.(*structs.NodeSpecificRequest)
		w.calls = append(w.calls, call{kind: "rs", outcome: o, tok: req.Token})
		if o == "fail" {
			return w.failErr()
		}
		if o == "nomethod" || o == "nomethod-fail" {
			return errors.New("rpc: can't find method Catalog.NodeServiceList")
		}
		_, nsl, err := w.store().NodeServiceList(nil, req.Node, &req.EnterpriseMeta, req.PeerName)
		if err != nil {
			return err
		}
		if nsl != nil {
			reply.(*structs.IndexedNodeServiceList).NodeServices = *nsl
		}
		return nil
	case "Catalog.NodeServices":
		req := args.(*structs.NodeSpecificRequest)
		if w.faults["rs"] == "nomethod-fail" {
			w.calls[len(w.calls)-1].outcome = "fail"
			return w.failErr()
		}
		_, ns, err := w.store().NodeServices(nil, req.Node, &req.EnterpriseMeta, req.PeerName)
		if err != nil {
			return err
		}
		reply.(*structs.IndexedNodeServices).NodeServices = ns
		return nil
	case "Health.NodeChecks":
		o := w.faults["rc"]
		if o == "" {
			o = "ok"
		}
		req := args.(*structs.NodeSpecificRequest)
		w.calls = append(w.calls, call{kind: "rc", outcome: o, tok: req.Token})
		if o == "fail" {
			return w.failErr()
		}
		_, hcs, err := w.store().NodeChecks(nil, req.Node, &req.EnterpriseMeta, req.PeerName)
		if err != nil {
			return err
		}
		reply.(*structs.IndexedHealthChecks).HealthChecks = hcs
		return nil
	case "Catalog.Register":
		req := args.(*structs.RegisterRequest)
		c := call{tok: req.Token, skip: req.SkipNodeUpdate}
		var key string
		switch from {
		case "syncNodeInfo":
			c.kind, key = "n", "n"
		case "syncService":
			c.kind, c.id = "sreg", req.Service.ID
			key = "s!" + c.id
			if req.Check != nil {
				c.piggy = append(c.piggy, string(req.Check.CheckID))
			}
			for _, ch := range req.Checks {
				c.piggy = append(c.piggy, string(ch.CheckID))
			}
			sort.Strings(c.piggy)
		case "syncCheck":
			c.kind, c.id = "creg", string(req.Check.CheckID)
			key = "c!" + c.id
			if req.Service != nil {
				c.withSvc = req.Service.ID
			}
		default:
			panic("Catalog.Register from unexpected caller " + from)
		}
		c.outcome = w.faults[key]
		if c.outcome == "" {
			c.outcome = "ok"
		}
		c.injected = c.outcome
		var err error
		switch c.outcome {
		case "denied":
			err = w.denyErr()
		case "fail":
			err = w.failErr()
		default:
			if err = w.serverRegister(req); err != nil {
				c.outcome, c.natural = "fail", true
				if acl.IsErrPermissionDenied(err) {
					c.outcome = "denied"
				}
			} else if c.outcome == "lost" {
				err = w.failErr()
			}
		}
		w.calls = append(w.calls, c)
		return err
	case "Catalog.Deregister":
		req := args.(*structs.DeregisterRequest)
		c := call{tok: req.Token}
		var key string
		switch from {
		case "deleteService":
			c.kind, c.id = "sdel", req.ServiceID
			key = "s!" + c.id
		case "deleteCheck":
			c.kind, c.id = "cdel", string(req.CheckID)
			key = "c!" + c.id
		default:
			panic("Catalog.Deregister from unexpected caller " + from)
		}
		c.outcome = w.faults[key]
		if c.outcome == "" {
			c.outcome = "ok"
		}
		c.injected = c.outcome
		var err error
		switch c.outcome {
		case "denied":
			err = w.denyErr()
		case "fail":
			err = w.failErr()
		default:
			if err = w.serverDeregister(req); err != nil {
				c.outcome, c.natural = "fail", true
				switch {
				case acl.IsErrPermissionDenied(err):
					c.outcome = "denied"
				case strings.Contains(err.Error(), "Unknown service") || strings.Contains(err.Error(), "Unknown check"):
					// the server (without node:write) reports an entry it does not hold: the agent treats this
					// as done; nothing was there to remove, so for the model this is an ok deregistration
					c.outcome, c.unknown = "ok", true
				}
			} else if c.outcome == "lost" {
				err = w.failErr()
			}
		}
		w.calls = append(w.calls, c)
		return err
	}
	panic("unexpected RPC " + method)
}

func (w *world) ResolveTokenAndDefaultMeta(string, *acl.EnterpriseMeta, *acl.AuthorizerContext) (resolver.Result, error) {
	return resolver.Result{}, nil
}

func (w *world) snapshot() snap {
	s := snap{ls: map[string]lsvc{}, lc: map[string]lchk{}, cs: map[string]svcDef{}, cc: map[string]chkDef{}, cnode: "-"}
	n, svcs, chks := w.st.VerifDump()
	s.nodeInSync = n
	for _, e := range svcs {
		if e.Svc == nil {
			s.ls[e.ID] = lsvc{ghost: true, inSync: e.InSync, deleted: e.Deleted}
			if !e.Deleted || e.Token != "" || e.IsLocal {
				panic("definition-less service record that is not a plain placeholder")
			}
		} else {
			s.ls[e.ID] = lsvc{d: svcOf(e.Svc), tok: e.Token, isLocal: e.IsLocal, inSync: e.InSync, deleted: e.Deleted}
		}
	}
	for _, e := range chks {
		if e.Defer && !w.cui {
			panic("defer timer with CheckUpdateInterval = 0")
		}
		if e.Chk == nil {
			s.lc[e.ID] = lchk{ghost: true, inSync: e.InSync, deleted: e.Deleted}
			if !e.Deleted || e.Token != "" || e.IsLocal {
				panic("definition-less check record that is not a plain placeholder")
			}
		} else {
			s.lc[e.ID] = lchk{d: chkOf(e.Chk), tok: e.Token, isLocal: e.IsLocal, inSync: e.InSync, deleted: e.Deleted, armed: e.Defer}
		}
	}
	_, node, err := w.store().GetNode(nodeName, nil, "")
	if err != nil {
		panic(err)
	}
	if node != nil {
		s.cnode = strconv.Itoa(nodeValOf(node))
	}
	_, nsl, err := w.store().NodeServiceList(nil, nodeName, structs.DefaultEnterpriseMetaInDefaultPartition(), "")
	if err != nil {
		panic(err)
	}
	if nsl != nil {
		for _, ns := range nsl.Services {
			s.cs[ns.ID] = svcOf(ns)
		}
	}
	_, hcs, err := w.store().NodeChecks(nil, nodeName, structs.DefaultEnterpriseMetaInDefaultPartition(), "")
	if err != nil {
		panic(err)
	}
	for _, hc := range hcs {
		s.cc[string(hc.CheckID)] = chkOf(hc)
	}
	return s
}

// ---------------------------------------------------------------- operations

type op struct {
	kind    string
	id      string
	sd      svcDef
	cd      chkDef
	tok     string
	isLocal bool
	chks    []chkItem
	ids     []string
	val     int
	faults  map[string]string
}

func guard(f func() error) (res string) {
	defer func() {
		if r := recover(); r != nil {
			res = "panic"
		}
	}()
	if err := f(); err != nil {
		return "err"
	}
	return "ok"
}

func encFaults(f map[string]string) string {
	var ts []string
	for _, k := range sortedKeys(f) {
		parts := strings.SplitN(k, "!", 2)
		id := "="
		if len(parts) == 2 {
			id = hx.EncS(parts[1])
		}
		ts = append(ts, parts[0]+"!"+id+"!"+f[k])
	}
	return hx.EncList(ts)
}

// panicCheck: the only panic the local state is known to raise is the nil dereference when a
// service/check is (re)registered over a remote-only placeholder (side finding, reproduced by the
// model as result "panic"); anything else is reported.
func (w *world) panicCheck(res string, pre snap, svcID string, chkIDs []string) {
	if res != "panic" {
		return
	}
	if e, ok := pre.ls[svcID]; ok && e.ghost {
		w.run.Tag("panic:placeholder-reregister")
		return
	}
	for _, k := range chkIDs {
		if e, ok := pre.lc[k]; ok && e.ghost {
			w.run.Tag("panic:placeholder-reregister")
			return
		}
	}
	w.violate("panic:unexpected-panic-in-local-state", "local registration panicked without a placeholder being involved")
}

func (w *world) exec(o op) {
	defer w.viewMonitor(o.kind)
	run := w.run
	switch o.kind {
	case "addsvc":
		pre := w.snapshot()
		eid := o.id // addServiceLocked: an omitted id defaults to the service name
		if eid == "" {
			eid = o.sd.name
			run.Tag("op:addsvc:id-omitted")
		}
		var ids []string
		for _, c := range o.chks {
			ids = append(ids, c.id)
		}
		var hcs []*structs.HealthCheck
		var cs []string
		for _, c := range o.chks {
			hcs = append(hcs, mkCheck(c.id, c.d))
			cs = append(cs, hx.EncS(c.id)+"!"+c.d.enc())
		}
		res := guard(func() error { return w.st.AddServiceWithChecks(mkService(o.id, o.sd), hcs, o.tok, o.isLocal) })
		run.Tag("op:addsvc:" + res)
		if e, ok := pre.ls[eid]; ok && e.live() && !e.inSync && !svcHeld(pre, eid, e.d) && e.d.equal(o.sd) && res == "ok" {
			run.Tag("identical-reregister-of-unsynced-service-marks-in-sync")
		}
		w.panicCheck(res, pre, eid, ids)
		w.line(fmt.Sprintf("addsvc %s %s %s %s %s", hx.EncS(o.id), o.sd.enc(), hx.EncS(o.tok), hx.EncBool(o.isLocal), hx.EncList(cs)), res+" "+w.snapshot().dump())
	case "addchk":
		pre := w.snapshot()
		res := guard(func() error { return w.st.AddCheck(mkCheck(o.id, o.cd), o.tok, o.isLocal) })
		run.Tag("op:addchk:" + res)
		w.panicCheck(res, pre, "", []string{o.id})
		w.line(fmt.Sprintf("addchk %s %s %s %s", hx.EncS(o.id), o.cd.enc(), hx.EncS(o.tok), hx.EncBool(o.isLocal)), res+" "+w.snapshot().dump())
	case "rmsvc":
		var cids []structs.CheckID
		for _, k := range o.ids {
			cids = append(cids, structs.NewCheckID(types.CheckID(k), nil))
		}
		res := guard(func() error {
			if len(cids) == 0 && len(o.id)%2 == 0 {
				return w.st.RemoveService(structs.NewServiceID(o.id, nil))
			}
			return w.st.RemoveServiceWithChecks(structs.NewServiceID(o.id, nil), cids)
		})
		run.Tag("op:rmsvc:" + res)
		w.line(fmt.Sprintf("rmsvc %s %s", hx.EncS(o.id), hx.EncSList(o.ids)), res+" "+w.snapshot().dump())
	case "rmchk":
		res := guard(func() error { return w.st.RemoveCheck(structs.NewCheckID(types.CheckID(o.id), nil)) })
		run.Tag("op:rmchk:" + res)
		w.line("rmchk "+hx.EncS(o.id), res+" "+w.snapshot().dump())
	case "updchk":
		res := guard(func() error {
			w.st.UpdateCheck(structs.NewCheckID(types.CheckID(o.id), nil), statuses[o.val%3], "o"+strconv.Itoa(o.val/3))
			return nil
		})
		run.Tag("op:updchk:" + res)
		w.line(fmt.Sprintf("updchk %s %d", hx.EncS(o.id), o.val), res+" "+w.snapshot().dump())
	case "dsvc":
		res := guard(func() error { return w.serverRegister(w.driftReq(mkService(o.id, o.sd), nil)) })
		run.Tag("op:dsvc:" + res)
		w.line(fmt.Sprintf("dsvc %s %s", hx.EncS(o.id), o.sd.enc()), res+" "+w.snapshot().dump())
	case "dchk":
		res := guard(func() error { return w.serverRegister(w.driftReq(nil, mkCheck(o.id, o.cd))) })
		run.Tag("op:dchk:" + res)
		w.line(fmt.Sprintf("dchk %s %s", hx.EncS(o.id), o.cd.enc()), res+" "+w.snapshot().dump())
	case "drmsvc":
		res := guard(func() error {
			return w.serverDeregister(&structs.DeregisterRequest{Datacenter: "dc1", Node: nodeName, ServiceID: o.id, WriteRequest: structs.WriteRequest{Token: "drift"}})
		})
		run.Tag("op:drmsvc:" + res)
		w.line("drmsvc "+hx.EncS(o.id), res+" "+w.snapshot().dump())
	case "drmchk":
		res := guard(func() error {
			return w.serverDeregister(&structs.DeregisterRequest{Datacenter: "dc1", Node: nodeName, CheckID: types.CheckID(o.id), WriteRequest: structs.WriteRequest{Token: "drift"}})
		})
		run.Tag("op:drmchk:" + res)
		w.line("drmchk "+hx.EncS(o.id), res+" "+w.snapshot().dump())
	case "dnode":
		res := guard(func() error {
			return w.serverRegister(&structs.RegisterRequest{Datacenter: "dc1", ID: nodeIDOf(o.val), Node: nodeName, Address: nodeAddr,
				TaggedAddresses: nodeTA(o.val), NodeMeta: nodeMeta(o.val), Locality: nodeLoc(o.val),
				WriteRequest: structs.WriteRequest{Token: "drift"}})
		})
		run.Tag("op:dnode:" + res)
		w.line(fmt.Sprintf("dnode %d", o.val), res+" "+w.snapshot().dump())
	case "drmnode":
		res := guard(func() error {
			return w.serverDeregister(&structs.DeregisterRequest{Datacenter: "dc1", Node: nodeName, WriteRequest: structs.WriteRequest{Token: "drift"}})
		})
		run.Tag("op:drmnode:" + res)
		w.line("drmnode", res+" "+w.snapshot().dump())
	case "fire":
		// the deferred-output timer of a check expires (the real AfterFunc body runs)
		cid := structs.NewCheckID(types.CheckID(o.id), nil)
		armed, running := w.st.VerifDeferFire(cid)
		if !armed {
			return
		}
		if !running {
			w.violate("defer:armed-timer-is-stopped-and-can-never-fire", fmt.Sprintf("check %q has a non-nil deferred-output timer that is not running: no output update will ever be pushed for it again", o.id))
			return
		}
		fired := false
		for i := 0; i < 20000 && !fired; i++ {
			if e, ok := w.snapshot().lc[o.id]; !ok || !e.armed {
				fired = true
			} else {
				time.Sleep(500 * time.Microsecond)
			}
		}
		if !fired {
			w.violate("defer:expired-timer-did-not-run", fmt.Sprintf("timer of check %q did not run within 10s of expiring", o.id))
			return
		}
		run.Tag("op:fire")
		w.line("fire "+hx.EncS(o.id), "ok "+w.snapshot().dump())
	case "agenttok":
		w.tokens.UpdateAgentToken(o.tok, token.TokenSourceAPI)
		w.agentTok = o.tok
		run.Tag("op:agent-token-changed")
		w.line("agenttok "+hx.EncS(o.tok), "ok")
	case "full", "partial":
		w.sync(o)
	default:
		panic("unknown op " + o.kind)
	}
}

// driftReq: an external writer registers an entry on the agent's node. It leaves the node info
// alone (SkipNodeUpdate) unless the node has to be created, then with foreign node meta "0".
func (w *world) driftReq(svc *structs.NodeService, chk *structs.HealthCheck) *structs.RegisterRequest {
	return &structs.RegisterRequest{Datacenter: "dc1", ID: nodeID, Node: nodeName, Address: nodeAddr,
		TaggedAddresses: map[string]string{"lan": nodeAddr}, NodeMeta: map[string]string{"v": "0"},
		SkipNodeUpdate: true, Service: svc, Check: chk, WriteRequest: structs.WriteRequest{Token: "drift"}}
}

func (w *world) sync(o op) {
	run := w.run
	pre := w.snapshot()
	w.faults = o.faults
	if w.faults == nil {
		w.faults = map[string]string{}
	}
	w.calls = nil
	var err error
	res := guard(func() error {
		if o.kind == "full" {
			err = w.st.SyncFull()
		} else {
			err = w.st.SyncChanges()
		}
		return err
	})
	calls := w.calls
	w.faults, w.calls = map[string]string{}, nil
	post := w.snapshot()
	var so, co []string
	clean := len(o.faults) == 0
	lineFaults := map[string]string{}
	for k, v := range o.faults {
		lineFaults[k] = v
	}
	for _, c := range calls {
		switch c.kind {
		case "sreg", "sdel":
			so = append(so, c.id)
		case "creg", "cdel":
			co = append(co, c.id)
		}
		// the outcome the model is told for this call: what was observed — except for a failure the
		// server code produced by itself, which the model has to predict from the injected outcome
		told := c.outcome
		if c.natural && c.outcome == "fail" {
			told = c.injected
		}
		var fkey string
		switch c.kind {
		case "n":
			fkey = "n"
		case "sreg", "sdel":
			fkey = "s!" + c.id
		case "creg", "cdel":
			fkey = "c!" + c.id
		}
		if fkey != "" {
			if told == "ok" {
				delete(lineFaults, fkey)
			} else {
				lineFaults[fkey] = told
			}
		}
		if c.natural && c.outcome == "denied" {
			run.Tag("acl:refused-by-real-policy:" + c.kind)
		}
		if c.unknown {
			run.Tag("acl:deregister-unknown-entry-treated-as-done:" + c.kind)
		}
		tag := "call:" + c.kind + ":" + c.outcome
		if c.natural {
			tag += "(server)"
		}
		run.Tag(tag)
		if c.kind == "sreg" {
			run.Tag(fmt.Sprintf("piggyback:%d", len(c.piggy)))
		}
		if c.kind == "creg" && c.withSvc != "" {
			run.Tag("creg:with-service")
		}
		if c.outcome != "ok" {
			clean = false
		}
	}
	for id, e := range post.ls {
		if _, was := pre.ls[id]; e.ghost && !was {
			run.Tag("placeholder:service")
		}
	}
	for id, e := range post.lc {
		if _, was := pre.lc[id]; e.ghost && !was {
			run.Tag("placeholder:check")
		}
	}
	for id, e := range post.ls {
		if pe, was := pre.ls[id]; was && pe.live() && e.live() && !pe.d.equal(e.d) {
			if strings.Join(pe.d.tags, ",") != strings.Join(e.d.tags, ",") {
				run.Tag("server-owned:tags-absorbed(EnableTagOverride)")
			} else {
				run.Tag("server-owned:tagged-addresses-merged")
			}
		}
	}
	if !pre.localWF() {
		run.Tag("sync:local-state-not-well-formed(raw ops)")
	}
	for _, c := range calls {
		if e, ok := pre.ls[c.id]; ok && c.kind == "sdel" && !e.live() && e.inSync {
			run.Tag("dereg:refused-service-deregistration-reattempted:" + o.kind)
		}
		if e, ok := pre.lc[c.id]; ok && c.kind == "cdel" && !e.live() && e.inSync {
			run.Tag("dereg:refused-check-deregistration-reattempted:" + o.kind)
		}
	}
	run.Tag(fmt.Sprintf("op:%s:%s:%s", o.kind, map[bool]string{true: "clean", false: "faulty"}[clean], res))
	if lineFaults["rs"] == "nomethod-fail" {
		lineFaults["rs"] = "fail"
	}
	var tr []string
	for _, c := range calls {
		tr = append(tr, c.enc())
	}
	w.line(fmt.Sprintf("%s %s %s %s", o.kind, encFaults(lineFaults), hx.EncSList(so), hx.EncSList(co)), res+" "+post.dump()+" T="+hx.EncList(tr))
	w.tokenMonitor(calls, pre)
	w.monitors(o.kind, pre, post, calls, clean, res)
	w.probeTimers(o.kind + " sync")
}

// ---------------------------------------------------------------- monitors

// probeTimers: every armed (non-nil) deferred-output timer must be a running one — otherwise the
// check is stuck: UpdateCheck starts no new timer while one is set, and a stopped one never fires.
func (w *world) probeTimers(after string) {
	if !w.cui {
		return
	}
	s := w.snapshot()
	for _, k := range sortedKeys(s.lc) {
		if !s.lc[k].armed {
			continue
		}
		armed, running := w.st.VerifDeferProbe(structs.NewCheckID(types.CheckID(k), nil), w.interval)
		if armed && !running {
			w.violate("defer:armed-timer-is-stopped-and-can-never-fire", fmt.Sprintf("after %s check %q has a non-nil deferred-output timer that is not running: no output update will ever be pushed for it again", after, k))
		} else if armed {
			w.run.Tag("monitor:defer:armed-timer-is-running")
		}
	}
}

func (w *world) violate(sig, desc string) {
	w.run.Violate(sig, desc, append([]string(nil), w.ops...))
}

const caseFoldSig = "case-fold:ids-differing-only-in-case-share-one-catalog-row"

// violateID reports a violation about entry `id`; when another id of the same kind that equals it
// ignoring case is in play (locally or in the catalog, before or after the sync) the cause is the
// catalog's lower-cased index keys and the known signature for that shape is used.
func (w *world) violateID(sig, desc, id string, svc bool, pre, post snap) {
	twin := func(k string) bool { return k != id && strings.EqualFold(k, id) }
	found := false
	if svc {
		for _, m := range []map[string]svcDef{pre.cs, post.cs} {
			for k := range m {
				found = found || twin(k)
			}
		}
		for _, m := range []map[string]lsvc{pre.ls, post.ls} {
			for k := range m {
				found = found || twin(k)
			}
		}
	} else {
		for _, m := range []map[string]chkDef{pre.cc, post.cc} {
			for k := range m {
				found = found || twin(k)
			}
		}
		for _, m := range []map[string]lchk{pre.lc, post.lc} {
			for k := range m {
				found = found || twin(k)
			}
		}
	}
	if found {
		sig = caseFoldSig
	}
	w.violate(sig, desc)
}

func svcHeld(s snap, id string, d svcDef) bool {
	r, ok := s.cs[id]
	return ok && r.equal(d)
}
func chkHeld(s snap, id string, d chkDef) bool {
	r, ok := s.cc[id]
	return ok && r.coreEqual(d)
}

func (w *world) monitors(kind string, pre, post snap, calls []call, clean bool, res string) {
	wf := pre.localWF()
	okOrDenied := func(o string) bool { return o == "ok" || o == "denied" }
	svcCall := map[string]call{}
	chkCall := map[string]call{}
	piggyBy := map[string]call{}
	aborted := false
	readsOK := kind == "partial"
	nReads := 0
	for _, c := range calls {
		switch c.kind {
		case "sreg", "sdel":
			svcCall[c.id] = c
			for _, k := range c.piggy {
				piggyBy[k] = c
			}
		case "creg", "cdel":
			chkCall[c.id] = c
		case "n":
			if c.outcome == "fail" || c.outcome == "lost" {
				aborted = true
			}
		case "rs", "rc":
			if c.outcome == "ok" || c.outcome == "nomethod" {
				nReads++
			}
		}
	}
	if kind == "full" && nReads == 2 {
		readsOK = true
	}

	anyArmed := false
	for _, e := range pre.lc {
		anyArmed = anyArmed || e.armed
	}
	if kind == "full" && clean && wf && anyArmed {
		w.run.Tag("monitor:converge:skipped(defer timer armed, output deliberately not compared)")
	}
	// converge
	if kind == "full" && clean && wf && !anyArmed {
		w.run.Tag("monitor:converge:checked")
		if res != "ok" {
			w.violate("converge:clean-full-sync-reports-error", "a full sync in which no RPC failed returned an error")
		}
		if want := strconv.Itoa(w.nodeVal); post.cnode != want {
			if pv, err := strconv.Atoi(pre.cnode); err == nil && pv%40 == w.nodeVal%40 && pv/40 != w.nodeVal/40 && post.cnode == pre.cnode {
				w.run.Tag("finding:node-info-locality-only-difference-is-never-written")
			} else {
				w.violate("converge:node-info-differs-after-clean-full-sync", fmt.Sprintf("after a clean full sync the catalog's node info is %s, the agent's %s (before the sync: %s; value = meta + 10*no-id + 20*tagged-addresses + 40*locality)", post.cnode, want, pre.cnode))
			}
		} else {
			w.run.Tag("monitor:converge:node-info-checked")
		}
		if !post.nodeInSync {
			w.violate("converge:node-info-left-out-of-sync", "node info is marked out of sync after a clean full sync")
		}
		for id, e := range post.ls {
			switch {
			case !e.live():
				w.violateID("converge:service-deletion-left-pending", fmt.Sprintf("service %q is still pending deletion after a clean full sync", id), id, true, pre, post)
			case !e.inSync:
				w.violateID("converge:service-left-out-of-sync", fmt.Sprintf("service %q is out of sync after a clean full sync", id), id, true, pre, post)
			case !svcHeld(post, id, e.d):
				sig := "converge:service-missing-or-different-in-catalog"
				if r, ok := post.cs[id]; ok && locOnly(r, e.d) {
					sig = svcLocalitySig
				}
				w.violateID(sig, fmt.Sprintf("service %q: catalog does not hold the local definition after a clean full sync", id), id, true, pre, post)
			}
		}
		for id := range post.cs {
			if e, ok := post.ls[id]; (!ok || !e.live()) && id != structs.ConsulServiceID {
				w.violateID("converge:foreign-service-left-in-catalog", fmt.Sprintf("service %q is in the catalog but not registered locally after a clean full sync", id), id, true, pre, post)
			}
		}
		for id, e := range post.lc {
			switch {
			case !e.live():
				w.violateID("converge:check-deletion-left-pending", fmt.Sprintf("check %q is still pending deletion after a clean full sync", id), id, false, pre, post)
			case !e.inSync:
				w.violateID("converge:check-left-out-of-sync", fmt.Sprintf("check %q is out of sync after a clean full sync", id), id, false, pre, post)
			case !chkHeld(post, id, e.d):
				w.violateID("converge:check-missing-or-different-in-catalog", fmt.Sprintf("check %q: catalog does not hold the local definition after a clean full sync", id), id, false, pre, post)
			}
		}
		for id, rc := range post.cc {
			if e, ok := post.lc[id]; (!ok || !e.live()) && id != string(structs.SerfCheckID) {
				sig := "converge:foreign-check-left-in-catalog"
				if pe, was := pre.lc[id]; was && !pe.ghost && pe.deleted && pe.d.sid != "" && pe.d.sid != rc.sid {
					if c, ok := svcCall[pe.d.sid]; ok && c.kind == "sdel" && c.outcome == "ok" {
						sig = "deleteService:prunes-pending-check-removal-of-check-bound-elsewhere-in-catalog"
					}
				}
				w.violateID(sig, fmt.Sprintf("check %q is in the catalog but not registered locally after a clean full sync", id), id, false, pre, post)
			}
		}
	}

	// sound: no new in-sync mark without the catalog holding the entry, unless refused
	if wf {
		for id, e := range post.ls {
			if e.live() && e.inSync && !svcHeld(post, id, e.d) {
				if pe, was := pre.ls[id]; was && pe.live() && pe.inSync && !svcHeld(pre, id, pe.d) {
					continue // already so before this sync
				}
				if c, ok := svcCall[id]; ok && c.outcome == "denied" {
					w.run.Tag("monitor:sound:refused-service-marked")
					continue
				}
				sig := "sound:service-marked-in-sync-but-not-in-catalog"
				if r, ok := post.cs[id]; ok && locOnly(r, e.d) {
					sig = svcLocalitySig
				}
				w.violateID(sig, fmt.Sprintf("%s sync marked service %q in sync although the catalog does not hold it and no ACL refusal happened", kind, id), id, true, pre, post)
			}
		}
		for id, e := range post.lc {
			if e.live() && e.inSync && !chkHeld(post, id, e.d) {
				if pe, was := pre.lc[id]; was && pe.live() && pe.inSync && !chkHeld(pre, id, pe.d) {
					continue
				}
				if pe, was := pre.lc[id]; e.armed || (was && pe.armed) {
					continue // output deliberately ignored while the defer timer is armed
				}
				if c, ok := chkCall[id]; ok && c.outcome == "denied" {
					w.run.Tag("monitor:sound:refused-check-marked")
					continue
				}
				if c, ok := piggyBy[id]; ok && c.outcome == "denied" {
					w.run.Tag("monitor:sound:refused-piggyback-marked")
					continue
				}
				w.violateID("sound:check-marked-in-sync-but-not-in-catalog", fmt.Sprintf("%s sync marked check %q in sync although the catalog does not hold it and no ACL refusal happened", kind, id), id, false, pre, post)
			}
		}
	}

	// justify: false -> true transitions of InSync
	for id, e := range post.ls {
		pe, was := pre.ls[id]
		if !was || pe.inSync || !e.inSync || pe.ghost != e.ghost {
			continue
		}
		if c, ok := svcCall[id]; ok && okOrDenied(c.outcome) {
			continue
		}
		if r, ok := pre.cs[id]; kind == "full" && readsOK && ok && e.live() && r.equal(e.d) {
			continue
		}
		w.violate("justify:service-in-sync-without-successful-or-refused-rpc", fmt.Sprintf("service %q turned in sync in a %s sync without an ok/refused RPC", id, kind))
	}
	for id, e := range post.lc {
		pe, was := pre.lc[id]
		if !was || pe.inSync || !e.inSync || pe.ghost != e.ghost {
			continue
		}
		if c, ok := chkCall[id]; ok && okOrDenied(c.outcome) {
			continue
		}
		if c, ok := piggyBy[id]; ok && okOrDenied(c.outcome) {
			continue
		}
		if r, ok := pre.cc[id]; kind == "full" && readsOK && ok && e.live() && r.equal(e.d) {
			continue
		}
		if r, ok := pre.cc[id]; kind == "full" && readsOK && ok && e.live() && pe.armed && r.sid == e.d.sid && r.status%3 == e.d.status%3 {
			continue // compared with the Output blanked while the defer timer is armed
		}
		w.violate("justify:check-in-sync-without-successful-or-refused-rpc", fmt.Sprintf("check %q turned in sync in a %s sync without an ok/refused RPC", id, kind))
	}

	// forgot: pending deletions the catalog still holds
	for id, pe := range pre.ls {
		if !pe.live() {
			if _, held := pre.cs[id]; !held {
				continue
			}
			e, still := post.ls[id]
			_, heldAfter := post.cs[id]
			if heldAfter && !(still && !e.live()) {
				w.violate("forgot:service-deregistration-dropped-while-catalog-holds-it", fmt.Sprintf("pending deregistration of service %q was dropped by a %s sync but the catalog still holds it", id, kind))
			}
		}
	}
	for id, pe := range pre.lc {
		if !pe.live() {
			if _, held := pre.cc[id]; !held {
				continue
			}
			e, still := post.lc[id]
			rc, heldAfter := post.cc[id]
			if heldAfter && !(still && !e.live()) {
				sig := "forgot:check-deregistration-dropped-while-catalog-holds-it"
				if !pe.ghost && pe.d.sid != "" && pe.d.sid != rc.sid {
					if c, ok := svcCall[pe.d.sid]; ok && c.kind == "sdel" && c.outcome == "ok" {
						sig = "deleteService:prunes-pending-check-removal-of-check-bound-elsewhere-in-catalog"
					}
				}
				w.violate(sig, fmt.Sprintf("pending deregistration of check %q was dropped by a %s sync but the catalog still holds it", id, kind))
			}
		}
	}

	// retry: a full sync re-issues the RPC for every in-sync-marked live entry the catalog lacks
	if kind == "full" && readsOK && !aborted && res != "panic" {
		for id, pe := range pre.ls {
			if _, held := pre.cs[id]; pe.live() && pe.inSync && !held {
				w.run.Tag("monitor:retry:stale-service-mark")
				if _, ok := svcCall[id]; !ok {
					w.violate("retry:full-sync-skips-service-absent-from-catalog", fmt.Sprintf("service %q is marked in sync, absent from the catalog, and the full sync issued no RPC for it", id))
				}
			}
		}
		// ... and the deregistration of every entry pending removal that the catalog still holds,
		// whatever its in-sync flag says (a refused Deregister leaves the entry Deleted AND InSync)
		for id, pe := range pre.ls {
			if _, held := pre.cs[id]; !pe.live() && held {
				if pe.inSync {
					w.run.Tag("monitor:retry:refused-service-deregistration-pending")
				}
				if c, ok := svcCall[id]; !ok || c.kind != "sdel" {
					w.violate("retry:full-sync-skips-pending-service-deregistration", fmt.Sprintf("service %q is pending deregistration (inSync=%v), the catalog holds it, and the full sync issued no Deregister for it", id, pe.inSync))
				}
			}
		}
		for id, pe := range pre.lc {
			if _, held := pre.cc[id]; !pe.live() && held {
				if pe.inSync {
					w.run.Tag("monitor:retry:refused-check-deregistration-pending")
				}
				if !pe.ghost && pe.d.sid != "" {
					if c, ok := svcCall[pe.d.sid]; ok && c.kind == "sdel" && c.outcome == "ok" {
						continue // dropped together with its service (server-side cascade; see the forgot monitor)
					}
				}
				if c, ok := chkCall[id]; !ok || c.kind != "cdel" {
					w.violate("retry:full-sync-skips-pending-check-deregistration", fmt.Sprintf("check %q is pending deregistration (inSync=%v), the catalog holds it, and the full sync issued no Deregister for it", id, pe.inSync))
				}
			}
		}
		for id, pe := range pre.lc {
			if _, held := pre.cc[id]; pe.live() && pe.inSync && !held {
				w.run.Tag("monitor:retry:stale-check-mark")
				_, ok1 := chkCall[id]
				_, ok2 := piggyBy[id]
				if !ok1 && !ok2 {
					w.violate("retry:full-sync-skips-check-absent-from-catalog", fmt.Sprintf("check %q is marked in sync, absent from the catalog, and the full sync issued no RPC for it", id))
				}
			}
		}
	}
}

// tokenMonitor restates the token rules on the requests of one sync: node info, the two reads and
// every deregistration carry the agent token; a registration carries the record's own token, else
// the config-file registration token for a record from a config file, else the user token; a check
// rides on a service registration only with the very same effective token.
func (w *world) tokenMonitor(calls []call, pre snap) {
	eff := func(tok string, isLocal bool) string {
		switch {
		case tok != "":
			return tok
		case isLocal && w.cfgTok != "":
			return w.cfgTok
		default:
			return w.userTok
		}
	}
	for _, c := range calls {
		switch c.kind {
		case "rs", "rc", "n", "sdel", "cdel":
			w.run.Tag("monitor:token:agent-token-call")
			if c.tok != w.agentTok {
				w.violate("token:"+c.kind+"-call-does-not-carry-the-agent-token", fmt.Sprintf("%s call for %q carried token %q, the agent token is %q", c.kind, c.id, c.tok, w.agentTok))
			}
		case "sreg":
			e, ok := pre.ls[c.id]
			if !ok || e.ghost {
				continue
			}
			w.run.Tag("monitor:token:service-registration")
			if want := eff(e.tok, e.isLocal); c.tok != want {
				w.violate("token:service-registered-with-another-token", fmt.Sprintf("service %q (token %q, from config file %v) was registered with token %q, expected %q", c.id, e.tok, e.isLocal, c.tok, want))
			}
			for _, k := range c.piggy {
				if ce, ok := pre.lc[k]; ok && !ce.ghost {
					w.run.Tag("monitor:token:piggy-backed-check")
					if eff(ce.tok, ce.isLocal) != c.tok {
						w.violate("token:check-rides-on-a-service-registration-with-another-token", fmt.Sprintf("check %q (effective token %q) was registered inside the request of service %q carrying token %q", k, eff(ce.tok, ce.isLocal), c.id, c.tok))
					}
				}
			}
		case "creg":
			e, ok := pre.lc[c.id]
			if !ok || e.ghost {
				continue
			}
			w.run.Tag("monitor:token:check-registration")
			if want := eff(e.tok, e.isLocal); c.tok != want {
				w.violate("token:check-registered-with-another-token", fmt.Sprintf("check %q (token %q, from config file %v) was registered with token %q, expected %q", c.id, e.tok, e.isLocal, c.tok, want))
			}
		}
	}
}

// viewMonitor: the public read accessors of local.State (what agent/agent.go and the HTTP API read)
// must show exactly the records that are registered and not pending removal, with the stored
// definitions, tokens and flags.
func (w *world) viewMonitor(after string) {
	s := w.snapshot()
	bad := func(acc, desc string) {
		w.violate("view:"+acc+"-disagrees-with-the-records", "after "+after+": "+desc)
	}
	wild := structs.WildcardEnterpriseMetaInDefaultPartition()
	all, scoped, states := w.st.AllServices(), w.st.Services(wild), w.st.ServiceStates(wild)
	nLive := 0
	for id, e := range s.ls {
		sid := structs.NewServiceID(id, nil)
		if !w.st.ServiceExists(sid) {
			bad("ServiceExists", fmt.Sprintf("record of service %q not reported", id))
		}
		if tok := w.st.ServiceToken(sid); tok != e.tok {
			bad("ServiceToken", fmt.Sprintf("service %q token %q, record has %q", id, tok, e.tok))
		}
		ns, st := w.st.Service(sid), w.st.ServiceState(sid)
		if !e.live() {
			if ns != nil || st != nil || all[sid] != nil || scoped[sid] != nil || states[sid] != nil {
				bad("Service", fmt.Sprintf("service %q is pending removal / a placeholder but still visible", id))
			}
			continue
		}
		nLive++
		if ns == nil || !svcOf(ns).equal(e.d) || all[sid] == nil || !svcOf(all[sid]).equal(e.d) || scoped[sid] == nil || !svcOf(scoped[sid]).equal(e.d) {
			bad("Service", fmt.Sprintf("service %q is registered but not (or differently) visible", id))
		}
		for _, x := range []*local.ServiceState{st, states[sid]} {
			if x == nil || x.InSync != e.inSync || x.Token != e.tok || x.IsLocallyDefined != e.isLocal || x.Deleted || !svcOf(x.Service).equal(e.d) {
				bad("ServiceState", fmt.Sprintf("service %q: state copy differs from the record", id))
			}
		}
		byName := false
		for _, x := range w.st.ServicesByName(structs.NewServiceName(e.d.name, nil)) {
			byName = byName || x.ID == id
		}
		if !byName {
			bad("ServicesByName", fmt.Sprintf("service %q not listed under its name %q", id, e.d.name))
		}
	}
	if len(all) != nLive || len(scoped) != nLive || len(states) != nLive {
		bad("AllServices", fmt.Sprintf("%d/%d/%d services listed, %d registered", len(all), len(scoped), len(states), nLive))
	}
	if w.st.Stats()["services"] != strconv.Itoa(nLive) {
		bad("Stats", "service count "+w.st.Stats()["services"])
	}
	allC, scopedC, statesC, allStates := w.st.AllChecks(), w.st.Checks(wild), w.st.CheckStates(wild), w.st.AllCheckStates()
	nLive = 0
	perSvc := map[string]int{}
	for id, e := range s.lc {
		cid := structs.NewCheckID(types.CheckID(id), nil)
		if tok := w.st.CheckToken(cid); tok != e.tok {
			bad("CheckToken", fmt.Sprintf("check %q token %q, record has %q", id, tok, e.tok))
		}
		hc, st := w.st.Check(cid), w.st.CheckState(cid)
		if !e.live() {
			if hc != nil || st != nil || allC[cid] != nil || scopedC[cid] != nil || statesC[cid] != nil || allStates[cid] != nil {
				bad("Check", fmt.Sprintf("check %q is pending removal / a placeholder but still visible", id))
			}
			continue
		}
		nLive++
		perSvc[e.d.sid]++
		if hc == nil || !chkOf(hc).equal(e.d) || allC[cid] == nil || !chkOf(allC[cid]).equal(e.d) || scopedC[cid] == nil || !chkOf(scopedC[cid]).equal(e.d) {
			bad("Check", fmt.Sprintf("check %q is registered but not (or differently) visible", id))
		}
		for _, x := range []*local.CheckState{st, statesC[cid], allStates[cid]} {
			if x == nil || x.InSync != e.inSync || x.Token != e.tok || x.IsLocallyDefined != e.isLocal || x.Deleted || !chkOf(x.Check).equal(e.d) || (x.DeferCheck != nil) != e.armed {
				bad("CheckState", fmt.Sprintf("check %q: state copy differs from the record", id))
			}
		}
	}
	if len(allC) != nLive || len(scopedC) != nLive || len(statesC) != nLive || len(allStates) != nLive {
		bad("AllChecks", fmt.Sprintf("%d/%d/%d/%d checks listed, %d registered", len(allC), len(scopedC), len(statesC), len(allStates), nLive))
	}
	if w.st.Stats()["checks"] != strconv.Itoa(nLive) {
		bad("Stats", "check count "+w.st.Stats()["checks"])
	}
	for id, e := range s.ls {
		if e.live() {
			if n := len(w.st.ChecksForService(structs.NewServiceID(id, nil), false)); n != perSvc[id] {
				bad("ChecksForService", fmt.Sprintf("%d checks listed for service %q, %d registered", n, id, perSvc[id]))
			}
			if n := len(w.st.ChecksForService(structs.NewServiceID(id, nil), true)); n != perSvc[id]+perSvc[""] {
				bad("ChecksForService", fmt.Sprintf("%d checks (node checks included) listed for service %q, %d registered", n, id, perSvc[id]+perSvc[""]))
			}
		}
	}
	if m := w.st.Metadata(); !reflect.DeepEqual(m, nodeMeta(w.nodeVal)) {
		bad("Metadata", fmt.Sprint(m))
	}
	w.run.Tag("monitor:view:checked")
}

// ---------------------------------------------------------------- generators

var (
	svcPool  = []string{"web", "api", "db", "Cache", "consul"}
	chkPool  = []string{"c1", "c2", "c3", "service:web", "serfHealth"}
	namePool = []string{"web", "api", "db"}
	tagPool  = [][]string{nil, {"a"}, {"b"}, {"a", "b"}}
	tokPool  = []string{"", "", "t1", "t2"}
	taPool   = []map[string]int{nil, nil, {"lan": 1}, {"lan": 2}, {"consul-vip": 7}, {"lan": 1, "consul-vip": 8}, {"wan": 3}}
)

func genSvcDef(r *hx.RNG) svcDef {
	d := svcDef{name: hx.Pick(r, namePool), tags: hx.Pick(r, tagPool), eto: r.Chance(30), port: 80 + r.Intn(2), ta: hx.Pick(r, taPool)}
	if r.Chance(25) {
		d.port += portBits * (1 << r.Intn(6))
		if r.Chance(30) {
			d.port = d.port%portBits + portBits*r.Intn(64)
		}
	}
	return validSvc(d)
}

// validSvc: a connect proxy cannot also be connect-native (servicePreApply would reject it)
func validSvc(d svcDef) svcDef {
	if bits := d.port / portBits; bits&32 != 0 && bits&16 != 0 {
		d.port -= portBits * 16
	}
	// the service Locality is varied in the compared stream only if the state store writes a
	// registration that differs from the stored service in its Locality only (see svcLocalityWitness)
	if bits := d.port / portBits; bits&8 != 0 && !svcLocalityWritable {
		d.port -= portBits * 8
	}
	return d
}

const svcLocalitySig = "store:service-locality-only-difference-is-never-written"

// locOnly: the two definitions differ in the service Locality and in nothing else
func locOnly(a, b svcDef) bool {
	if (a.port/portBits)&8 == (b.port/portBits)&8 {
		return false
	}
	a.port -= portBits * ((a.port / portBits) & 8)
	b.port -= portBits * ((b.port / portBits) & 8)
	return a.equal(b)
}

// svcLocalityWritable: does ensureServiceTxn write a service registration that differs from the
// stored one in its Locality only? It does since /repo commit d3de336 (ServiceNode.IsSameService
// compares ServiceLocality); on a tree without that repair the probe keeps the service Locality out
// of the compared stream (the model writes every registered definition).
var svcLocalityWritable bool

func probeSvcLocality() bool {
	w := &world{f: newFSM(), idx: 10, faults: map[string]string{}}
	for _, p := range []int{80, 80 + 8*portBits} {
		if err := w.serverRegister(w.driftReq(mkService("web", svcDef{name: "web", port: p}), nil)); err != nil {
			panic(err)
		}
	}
	_, nsl, err := w.store().NodeServiceList(nil, nodeName, structs.DefaultEnterpriseMetaInDefaultPartition(), "")
	if err != nil || nsl == nil || len(nsl.Services) != 1 {
		panic("probeSvcLocality")
	}
	return svcOf(nsl.Services[0]).port == 80+8*portBits
}

// svcLocalityWitness (regression scenario, monitor only): a service is re-registered locally with a
// Locality (nothing else changes). Before /repo commit d3de336 the agent saw the difference
// (NodeService.IsSame compares Locality), registered the service, Catalog.Register succeeded and the
// state store dropped the write because ServiceNode.IsSameService did not look at ServiceLocality
// (nor ServiceSocketPath): the catalog never converged and the service was marked in sync although
// the catalog did not hold it (signature svcLocalitySig). Since the repair the monitors stay silent.
func svcLocalityWitness(run *hx.Run) {
	w := newWorld(run, 1, "", "")
	w.silent = true
	w.exec(op{kind: "addsvc", id: "web", sd: svcDef{name: "web", port: 80}})
	w.exec(op{kind: "full"})
	w.exec(op{kind: "addsvc", id: "web", sd: svcDef{name: "web", port: 80 + 8*portBits}})
	w.exec(op{kind: "full"})
	w.exec(op{kind: "full"})
	run.Tag("scripted:service-locality-only-change(regression, monitor-only)")
	run.Case("service-locality-only-change", true)
}

// flipSvcField changes exactly one of the fields that `port` stands for
func flipSvcField(r *hx.RNG, d svcDef) svcDef {
	e0 := d
	if r.Chance(30) {
		d.port = d.port - d.port%2 + (1 - d.port%2)
		return d
	}
	bits := d.port / portBits
	bits ^= 1 << r.Intn(6)
	d.port = d.port%portBits + portBits*bits
	if v := validSvc(d); v.port != d.port { // flipped into an invalid combination: flip the port instead
		d.port = e0.port - e0.port%2 + (1 - e0.port%2)
	}
	return d
}

func genRest(r *hx.RNG) int {
	if r.Chance(75) {
		return 0
	}
	return r.Intn(8)
}

func pickLive[V interface{ live() bool }](r *hx.RNG, m map[string]V) (string, bool) {
	var ks []string
	for _, k := range sortedKeys(m) {
		if m[k].live() {
			ks = append(ks, k)
		}
	}
	if len(ks) == 0 {
		return "", false
	}
	return hx.Pick(r, ks), true
}

func genFaults(r *hx.RNG, s snap) map[string]string {
	f := map[string]string{}
	if r.Chance(45) {
		return f
	}
	p := 10 + r.Intn(50)
	outcome := func() string { return hx.Pick(r, []string{"denied", "denied", "fail", "fail", "lost"}) }
	if r.Chance(6) {
		f["rs"] = "fail"
	} else if r.Chance(6) {
		f["rs"] = "nomethod"
	} else if r.Chance(3) {
		f["rs"] = "nomethod-fail"
	}
	if r.Chance(6) {
		f["rc"] = "fail"
	}
	if r.Chance(p / 2) {
		f["n"] = outcome()
	}
	ids := map[string]bool{}
	for _, k := range svcPool {
		ids["s!"+k] = true
	}
	for k := range s.ls {
		ids["s!"+k] = true
	}
	for k := range s.cs {
		ids["s!"+k] = true
	}
	for _, k := range chkPool {
		ids["c!"+k] = true
	}
	for k := range s.lc {
		ids["c!"+k] = true
	}
	for k := range s.cc {
		ids["c!"+k] = true
	}
	for _, k := range sortedKeys(ids) {
		if r.Chance(p) {
			f[k] = outcome()
		}
	}
	return f
}

// genOp draws one operation given the current state (agent-like preconditions most of the time).
func (w *world) genOp(r *hx.RNG) op {
	s := w.snapshot()
	x := r.Intn(100)
	if w.cui && r.Chance(30) {
		var armed []string
		for _, k := range sortedKeys(s.lc) {
			if s.lc[k].armed {
				armed = append(armed, k)
			}
		}
		if len(armed) > 0 && r.Chance(40) {
			return op{kind: "fire", id: hx.Pick(r, armed)}
		}
		if k, ok := pickLive(r, s.lc); ok {
			cur := s.lc[k].d.status
			if cur < 0 || cur > 5 {
				cur = 0
			}
			if r.Chance(65) {
				return op{kind: "updchk", id: k, val: (cur + 3) % 6} // output only
			}
			return op{kind: "updchk", id: k, val: r.Intn(6)}
		}
	}
	switch {
	case x < 18: // register a service, possibly with checks, as agent.addServiceInternal does
		id := hx.Pick(r, svcPool)
		if r.Chance(8) {
			id = hx.Pick(r, namePool) + "-2"
		}
		for _, k := range sortedKeys(s.ls) { // now and then over a pending placeholder (known nil dereference)
			if s.ls[k].ghost && r.Chance(12) {
				id = k
			}
		}
		d := genSvcDef(r)
		if e, ok := s.ls[id]; ok && !e.ghost && r.Chance(35) {
			d = e.d // identical re-registration
			if r.Chance(50) {
				d = flipSvcField(r, d)
			}
		}
		o := op{kind: "addsvc", id: id, sd: d, tok: hx.Pick(r, tokPool), isLocal: r.Chance(25)}
		if r.Chance(4) {
			o.id, id = "", d.name // id omitted: registered under its name
		}
		for n := r.Intn(3); n > 0; n-- {
			k := hx.Pick(r, chkPool[:4])
			if r.Chance(40) {
				k = "service:" + id
			}
			cd := chkDef{sid: id, status: r.Intn(6), sname: d.name, stags: d.tags, rest: genRest(r)}
			if r.Chance(6) {
				cd.sid = hx.Pick(r, svcPool) // malformed: bound to another service
			}
			o.chks = append(o.chks, chkItem{k, cd})
		}
		return o
	case x < 30: // register a check, as agent.AddCheck does (service must be registered)
		k := hx.Pick(r, chkPool)
		cd := chkDef{status: r.Intn(6), rest: genRest(r)}
		if sid, ok := pickLive(r, s.ls); ok && r.Chance(65) {
			cd.sid, cd.sname, cd.stags = sid, s.ls[sid].d.name, s.ls[sid].d.tags
		}
		if r.Chance(8) { // raw: whatever service id, stale denormalised fields
			cd.sid, cd.sname, cd.stags = hx.Pick(r, svcPool), hx.Pick(r, namePool), hx.Pick(r, tagPool)
		}
		if e, ok := s.lc[k]; ok && !e.ghost && r.Chance(30) {
			cd = e.d
			if r.Chance(30) {
				cd.rest ^= 1 << r.Intn(3) // same check, other notes / name / definition
			}
		}
		return op{kind: "addchk", id: k, cd: cd, tok: hx.Pick(r, tokPool), isLocal: r.Chance(25)}
	case x < 40: // deregister a service with its checks, as agent.removeServiceLocked does
		id, ok := pickLive(r, s.ls)
		if !ok || r.Chance(15) {
			id = hx.Pick(r, svcPool)
		}
		o := op{kind: "rmsvc", id: id}
		for _, k := range sortedKeys(s.lc) {
			if e := s.lc[k]; e.live() && e.d.sid == id {
				o.ids = append(o.ids, k)
			}
		}
		if r.Chance(6) {
			o.ids = append(o.ids, hx.Pick(r, chkPool))
		}
		return o
	case x < 47:
		k, ok := pickLive(r, s.lc)
		if !ok || r.Chance(15) {
			k = hx.Pick(r, chkPool)
		}
		return op{kind: "rmchk", id: k}
	case x < 55:
		k, ok := pickLive(r, s.lc)
		if !ok || r.Chance(10) {
			k = hx.Pick(r, chkPool)
		}
		return op{kind: "updchk", id: k, val: r.Intn(6)}
	case x < 63: // drift: a service appears / is altered in the catalog
		id := hx.Pick(r, svcPool)
		d := genSvcDef(r)
		if e, ok := s.ls[id]; ok && !e.ghost && r.Chance(60) {
			d = e.d
			switch r.Intn(4) {
			case 0:
				d.tags = hx.Pick(r, tagPool)
			case 1:
				d = flipSvcField(r, d)
			case 2:
				d.ta = hx.Pick(r, taPool)
			default:
				d.name = hx.Pick(r, namePool)
			}
		}
		return op{kind: "dsvc", id: id, sd: d}
	case x < 71: // drift: a check appears / is altered / is bound to another service
		k := hx.Pick(r, chkPool)
		cd := chkDef{status: r.Intn(6)}
		if e, ok := s.lc[k]; ok && !e.ghost && r.Chance(50) {
			cd = e.d
			if r.Bool() {
				cd.status = (cd.status + 1) % 6
			} else if r.Chance(60) {
				cd.rest ^= 1 << r.Intn(3) // drift of notes / name / definition only
			}
		}
		if len(s.cs) > 0 && r.Chance(55) {
			cd.sid = hx.Pick(r, sortedKeys(s.cs))
		} else if r.Chance(50) {
			cd.sid = ""
		}
		if r.Chance(5) {
			cd.sid = hx.Pick(r, svcPool)
		}
		return op{kind: "dchk", id: k, cd: cd}
	case x < 75:
		id := hx.Pick(r, svcPool)
		if len(s.cs) > 0 && r.Chance(70) {
			id = hx.Pick(r, sortedKeys(s.cs))
		}
		return op{kind: "drmsvc", id: id}
	case x < 79:
		k := hx.Pick(r, chkPool)
		if len(s.cc) > 0 && r.Chance(70) {
			k = hx.Pick(r, sortedKeys(s.cc))
		}
		return op{kind: "drmchk", id: k}
	case x < 81:
		v := r.Intn(3)
		if r.Chance(15) {
			v += 10 // registered without a node ID
		}
		if r.Chance(30) {
			v += 20 // other tagged addresses
		}
		if r.Chance(25) && !localityWritable {
			v += 40 // a locality (the model describes the store as it is: see localityWritable)
		}
		return op{kind: "dnode", val: v}
	case x < 82:
		return op{kind: "drmnode"}
	case x < 90:
		return op{kind: "partial", faults: genFaults(r, s)}
	default:
		return op{kind: "full", faults: genFaults(r, s)}
	}
}

func (w *world) finishCase() {
	if w.cui {
		// every armed timer fires, then the clean full syncs must converge (output included)
		s := w.snapshot()
		for _, k := range sortedKeys(s.lc) {
			if s.lc[k].armed {
				w.exec(op{kind: "fire", id: k})
			}
		}
		defer w.st.VerifStopAllDefer()
	}
	// repair after failure: one sync with whatever faults came before, then clean full syncs
	w.exec(op{kind: "full"})
	w.exec(op{kind: "full"})
	key := strings.Join(w.ops, "\n")
	w.run.Case(key, len(w.ops) > 3)
}

func randomCase(run *hx.Run, r *hx.RNG, maxOps int) {
	var w *world
	if r.Chance(25) {
		w = newWorldFull(run, 1+r.Intn(2)+20*r.Intn(2), hx.Pick(r, []string{"", "cfgtok"}), hx.Pick(r, []string{"", "usertok", "t1"}), false, "agent-token", time.Hour)
		run.Tag("case:deferred-check-output(CheckUpdateInterval>0)")
	} else if r.Chance(35) {
		agentTok := "agent-token"
		if r.Chance(25) {
			agentTok = "weak-agent"
		}
		w = newWorldACL(run, 1+r.Intn(2)+20*r.Intn(2), hx.Pick(r, []string{"", "cfgtok"}), hx.Pick(r, []string{"", "usertok", "t1", "t2"}), true, agentTok)
		run.Tag("case:real-acl-policies:" + agentTok)
	} else {
		w = newWorld(run, 1+r.Intn(2)+20*r.Intn(2), hx.Pick(r, []string{"", "cfgtok"}), hx.Pick(r, []string{"", "usertok", "t1"}))
		run.Tag("case:injected-outcomes-only")
	}
	n := 2 + r.Intn(maxOps)
	for i := 0; i < n; i++ {
		o := w.genOp(r)
		if i < 2 && r.Chance(60) { // most histories start by registering something
			for o.kind != "addsvc" {
				o = w.genOp(r)
			}
		}
		w.exec(o)
	}
	if r.Chance(70) {
		s := w.snapshot()
		f := genFaults(r, s)
		w.exec(op{kind: "full", faults: f})
	}
	w.finishCase()
}

// scripted scenarios: shapes worth hitting on every run
func scripted(run *hx.Run) {
	web := svcDef{name: "web", tags: []string{"a"}, port: 80}
	api := svcDef{name: "api", port: 81}
	c1 := chkDef{sid: "web", status: 0, sname: "web", stags: []string{"a"}}
	// 1. plain registration, update, removal
	{
		w := newWorld(run, 1, "", "")
		w.exec(op{kind: "addsvc", id: "web", sd: web, chks: []chkItem{{"c1", c1}}})
		w.exec(op{kind: "partial"})
		w.exec(op{kind: "updchk", id: "c1", val: 2})
		w.exec(op{kind: "partial"})
		w.exec(op{kind: "rmsvc", id: "web", ids: []string{"c1"}})
		w.exec(op{kind: "partial"})
		w.finishCase()
	}
	// 2. a check pending removal is bound to another service in the catalog; its service is removed too
	{
		w := newWorld(run, 1, "", "")
		w.exec(op{kind: "addsvc", id: "web", sd: web, chks: []chkItem{{"c1", c1}}})
		w.exec(op{kind: "addsvc", id: "api", sd: api})
		w.exec(op{kind: "full"})
		w.exec(op{kind: "dchk", id: "c1", cd: chkDef{sid: "api", status: 0}})
		w.exec(op{kind: "rmsvc", id: "web", ids: []string{"c1"}})
		w.finishCase()
	}
	// 3. remote-only entry whose removal fails, then registered locally
	{
		w := newWorld(run, 1, "", "")
		w.exec(op{kind: "dsvc", id: "web", sd: web})
		w.exec(op{kind: "dchk", id: "c2", cd: chkDef{status: 1}})
		w.exec(op{kind: "full", faults: map[string]string{"s!web": "fail", "c!c2": "denied"}})
		w.exec(op{kind: "addsvc", id: "web", sd: web})
		w.exec(op{kind: "addchk", id: "c2", cd: chkDef{status: 1}})
		w.finishCase()
	}
	// 4. identical re-registration before the first sync
	{
		w := newWorld(run, 2, "cfgtok", "usertok")
		w.exec(op{kind: "addsvc", id: "web", sd: web, tok: "t1", chks: []chkItem{{"c1", c1}}})
		w.exec(op{kind: "addsvc", id: "web", sd: web, tok: "t1", chks: []chkItem{{"c1", c1}}})
		w.exec(op{kind: "partial"})
		w.finishCase()
	}
	// 5. tag override and server-owned tagged addresses
	{
		w := newWorld(run, 1, "", "")
		eto := svcDef{name: "web", tags: []string{"a"}, eto: true, port: 80, ta: map[string]int{"lan": 1}}
		w.exec(op{kind: "addsvc", id: "web", sd: eto, chks: []chkItem{{"c1", c1}}})
		w.exec(op{kind: "full"})
		drift := eto
		drift.tags = []string{"b"}
		drift.ta = map[string]int{"lan": 1, "consul-vip": 9}
		w.exec(op{kind: "dsvc", id: "web", sd: drift})
		w.exec(op{kind: "full"})
		w.exec(op{kind: "updchk", id: "c1", val: 1})
		w.finishCase()
	}
	// 6. ACL refusals are retried at the next full sync; node info failure aborts the sync
	{
		w := newWorld(run, 1, "", "")
		w.exec(op{kind: "addsvc", id: "web", sd: web, chks: []chkItem{{"c1", c1}}})
		w.exec(op{kind: "addchk", id: "c3", cd: chkDef{status: 0}, tok: "t2"})
		w.exec(op{kind: "full", faults: map[string]string{"s!web": "denied", "c!c3": "denied"}})
		w.exec(op{kind: "partial"})
		w.exec(op{kind: "drmnode"})
		w.exec(op{kind: "full", faults: map[string]string{"n": "fail"}})
		w.finishCase()
	}
	// 7. real ACL policies: t1 may write web/api but not db; the refusal is retried at every full sync;
	//    an agent token without node:write gets "Unknown service" for an entry the catalog lacks
	{
		w := newWorldACL(run, 1, "", "", true, "weak-agent")
		db := svcDef{name: "db", port: 5432}
		w.exec(op{kind: "addsvc", id: "web", sd: web, tok: "t1", chks: []chkItem{{"c1", c1}}})
		w.exec(op{kind: "addsvc", id: "db", sd: db, tok: "t1"})
		w.exec(op{kind: "full"})
		w.exec(op{kind: "partial"})
		w.exec(op{kind: "full"})
		w.exec(op{kind: "rmsvc", id: "db"})
		w.exec(op{kind: "addchk", id: "c2", cd: chkDef{status: 1}, tok: "t1"})
		w.exec(op{kind: "partial"})
		w.exec(op{kind: "dsvc", id: "api", sd: api})
		w.finishCase()
	}
	// 9. refused DEregistrations (service, its check, a node check; "Permission denied" and "ACL not
	//    found" forms) leave the entries Deleted+InSync; once the refusal is lifted the next full sync
	//    (9a) — or the next partial sync (9b) — must deregister them
	for _, variant := range []string{"full", "partial-then-full"} {
		w := newWorld(run, 1, "", "")
		w.exec(op{kind: "addsvc", id: "web", sd: web, chks: []chkItem{{"c1", c1}}})
		w.exec(op{kind: "addsvc", id: "api", sd: api})
		w.exec(op{kind: "addchk", id: "c2", cd: chkDef{status: 1}})
		w.exec(op{kind: "full"})
		w.exec(op{kind: "rmsvc", id: "web", ids: []string{"c1"}})
		w.exec(op{kind: "rmchk", id: "c2"})
		w.exec(op{kind: "full", faults: map[string]string{"s!web": "denied", "c!c1": "denied", "c!c2": "denied"}})
		w.exec(op{kind: "full", faults: map[string]string{"s!web": "denied", "c!c1": "denied", "c!c2": "denied"}})
		if variant == "partial-then-full" {
			w.exec(op{kind: "partial"})
		}
		w.exec(op{kind: "full"})
		w.finishCase()
		run.Tag("scripted:refused-deregistration-then-lifted:" + variant)
	}
	// 10. the same with real ACL policies: the agent token may write neither the node nor service db, so
	//     Catalog.Deregister(db) is refused by vetDeregisterWithACL; then the agent token is fixed
	{
		w := newWorldACL(run, 1, "", "", true, "t1")
		db := svcDef{name: "db", port: 5432}
		w.exec(op{kind: "addsvc", id: "db", sd: db, tok: "t2", chks: []chkItem{{"c3", chkDef{sid: "db", status: 0, sname: "db"}}}})
		w.exec(op{kind: "full"})
		w.exec(op{kind: "rmsvc", id: "db", ids: []string{"c3"}})
		w.exec(op{kind: "full"})
		w.exec(op{kind: "partial"})
		w.exec(op{kind: "agenttok", tok: "agent-token"})
		w.exec(op{kind: "full"})
		w.finishCase()
		run.Tag("scripted:refused-deregistration-real-acl-then-token-fixed")
	}
	// 11. deferred check output (CheckUpdateInterval > 0, timers fired explicitly): an output-only update
	//     arms the timer; a status flip inside the window is pushed (timer stopped and cleared); further
	//     output-only updates must arm a fresh timer, which fires, and the next full sync pushes the output
	{
		w := newWorldFull(run, 1, "", "", false, "agent-token", time.Hour)
		w.exec(op{kind: "addsvc", id: "web", sd: web, chks: []chkItem{{"c1", c1}}})
		w.exec(op{kind: "full"})
		w.exec(op{kind: "updchk", id: "c1", val: 3}) // output only
		w.exec(op{kind: "updchk", id: "c1", val: 4}) // status flip
		w.exec(op{kind: "partial"})
		w.exec(op{kind: "updchk", id: "c1", val: 1}) // output only again
		w.exec(op{kind: "updchk", id: "c1", val: 4})
		w.finishCase()
		// armed timer seen by a full sync (output ignored), then it fires
		w = newWorldFull(run, 1, "", "", false, "agent-token", time.Hour)
		w.exec(op{kind: "addsvc", id: "web", sd: web, chks: []chkItem{{"c1", c1}}})
		w.exec(op{kind: "full"})
		w.exec(op{kind: "updchk", id: "c1", val: 3})
		w.exec(op{kind: "full"})
		w.exec(op{kind: "dchk", id: "c1", cd: chkDef{sid: "web", status: 1}}) // drift while armed
		w.exec(op{kind: "full"})
		w.exec(op{kind: "updchk", id: "c1", val: 0})
		w.exec(op{kind: "rmchk", id: "c1"}) // removed while armed
		w.exec(op{kind: "full", faults: map[string]string{"c!c1": "fail"}})
		w.exec(op{kind: "addchk", id: "c1", cd: c1}) // re-registered over the pending removal: timer handed over
		w.finishCase()
		run.Tag("scripted:deferred-output")
	}
	// 12. (monitor only, real time) the same with a real 150 ms interval and no explicit firing: after
	//     waiting well past the interval no timer may be left armed, and one more full sync must
	//     bring the check's output into the catalog
	for i := 0; i < 2; i++ {
		realTimeDefer(run)
	}
	// 14. (monitor only) a service whose Locality alone changed
	svcLocalityWitness(run)
	// 13. (monitor only) the catalog's copy of the node differs from the agent's in its Locality only
	nodeLocalityWitness(run)
	// 8. (monitor only) ids that differ only in case: the catalog lower-cases ids in its index keys, the
	//    agent's maps do not. Known finding; outside the model's assumptions, so no lines are compared.
	{
		w := newWorld(run, 1, "", "")
		w.silent = true
		w.exec(op{kind: "addsvc", id: "Web", sd: svcDef{name: "web", port: 80}})
		w.exec(op{kind: "addsvc", id: "web", sd: svcDef{name: "web", port: 81}})
		w.exec(op{kind: "full"})
		w.exec(op{kind: "full"})
		run.Case("case-fold-two-local-ids", true)
		w = newWorld(run, 1, "", "")
		w.silent = true
		w.exec(op{kind: "addsvc", id: "Api", sd: svcDef{name: "api", port: 80}})
		w.exec(op{kind: "full"})
		w.exec(op{kind: "dsvc", id: "API", sd: svcDef{name: "api", port: 81}})
		w.exec(op{kind: "full"})
		w.exec(op{kind: "full"})
		run.Case("case-fold-foreign-variant", true)
		run.Tag("case-fold-scenario(monitor-only)")
	}
}

// nodeLocalityWitness: somebody registered the agent's node with a locality the agent does not have
// (the same happens the other way round, and when the agent's configured locality changes): every
// full sync finds node info out of sync and re-sends it, Catalog.Register succeeds, and the store
// drops the write because Node.IsSame does not look at Locality. Side finding (tagged, not a
// violation); the lines are compared with the model, which reproduces it.
func nodeLocalityWitness(run *hx.Run) {
	w := newWorld(run, 1, "", "")
	w.silent = localityWritable // compared with the model as long as the store behaves as modelled
	w.exec(op{kind: "addsvc", id: "web", sd: svcDef{name: "web", port: 80}})
	w.exec(op{kind: "full"})
	w.exec(op{kind: "dnode", val: 42}) // other meta and a locality ...
	w.exec(op{kind: "dnode", val: 41}) // ... meta put back: only the locality differs now
	w.exec(op{kind: "full"})
	w.exec(op{kind: "full"})
	run.Tag("scripted:node-locality-only-drift")
	run.Case("node-locality-only-drift", true)
}

func realTimeDefer(run *hx.Run) {
	web := svcDef{name: "web", tags: []string{"a"}, port: 80}
	w := newWorldFull(run, 1, "", "", false, "agent-token", 150*time.Millisecond)
	w.silent = true
	defer w.st.VerifStopAllDefer()
	w.exec(op{kind: "addsvc", id: "web", sd: web, chks: []chkItem{{"c1", chkDef{sid: "web", status: 0, sname: "web", stags: []string{"a"}}}}})
	w.exec(op{kind: "full"})
	w.st.UpdateCheck(structs.NewCheckID("c1", nil), statuses[0], "o1") // output only: arms the timer
	w.st.UpdateCheck(structs.NewCheckID("c1", nil), statuses[1], "o1") // status flip inside the window
	_ = w.st.SyncChanges()                                             // pushed
	w.st.UpdateCheck(structs.NewCheckID("c1", nil), statuses[1], "o0") // output only again
	deadline := time.Now().Add(5 * time.Second)
	for time.Now().Before(deadline) {
		if e := w.snapshot().lc["c1"]; !e.armed {
			break
		}
		time.Sleep(5 * time.Millisecond)
	}
	if e := w.snapshot().lc["c1"]; e.armed {
		w.violate("defer:timer-still-armed-long-after-the-interval", "check c1 still has a deferred-output timer 5s after an output-only update with CheckUpdateInterval=150ms")
	}
	w.calls, w.faults = nil, map[string]string{}
	if err := w.st.SyncFull(); err != nil {
		w.violate("converge:clean-full-sync-reports-error", "real-time defer scenario: full sync failed: "+err.Error())
	}
	s := w.snapshot()
	if l, c := s.lc["c1"], s.cc["c1"]; l.d.status != c.status {
		w.violate("defer:check-output-never-reaches-the-catalog", fmt.Sprintf("after the defer interval and a successful full sync the catalog holds status/output %d for check c1, the agent %d", c.status, l.d.status))
	}
	run.Tag("scripted:deferred-output-real-time(monitor-only)")
	run.Case("real-time-defer", true)
}

// fault vectors over a fixed small scenario with 7 RPCs: every vector of {ok,denied,fail}^7 in the
// thorough tier (a quarter of them in quick) plus a sample of vectors that also use "lost"
func faultScenario(run *hx.Run, f map[string]string, withPartial bool) {
	web := svcDef{name: "web", tags: []string{"a"}, port: 80}
	api := svcDef{name: "api", port: 81}
	w := newWorld(run, 1, "", "")
	// web+c1 registered and synced, then: api new with c2 (other token), db remote-only with c3, c1 changed, node gone
	w.exec(op{kind: "addsvc", id: "web", sd: web, chks: []chkItem{{"c1", chkDef{sid: "web", status: 0, sname: "web", stags: []string{"a"}}}}})
	w.exec(op{kind: "full"})
	w.exec(op{kind: "addsvc", id: "api", sd: api})
	w.exec(op{kind: "addchk", id: "c2", cd: chkDef{sid: "api", status: 1, sname: "api"}, tok: "t1"})
	w.exec(op{kind: "updchk", id: "c1", val: 4})
	w.exec(op{kind: "drmnode"})
	w.exec(op{kind: "dsvc", id: "db", sd: svcDef{name: "db", port: 5432}})
	w.exec(op{kind: "dchk", id: "c3", cd: chkDef{sid: "db", status: 2}})
	w.exec(op{kind: "full", faults: f})
	if withPartial { // otherwise the two clean full syncs of finishCase follow the faulty one directly
		w.exec(op{kind: "partial"})
	}
	w.finishCase()
	run.Tag("fault-vector-scenario")
}

func exhaustive(run *hx.Run) {
	keys := []string{"n", "s!web", "s!api", "s!db", "c!c1", "c!c2", "c!c3"}
	vec := func(v int, outs []string) map[string]string {
		f := map[string]string{}
		for _, k := range keys {
			if o := outs[v%len(outs)]; o != "ok" {
				f[k] = o
			}
			v /= len(outs)
		}
		return f
	}
	three := []string{"ok", "denied", "fail"}
	four := []string{"ok", "denied", "fail", "lost"}
	for v := 0; v < 2187; v++ {
		if !run.Thorough() && v%4 != int(run.Seed%4) {
			continue
		}
		faultScenario(run, vec(v, three), v%2 == 0)
	}
	r := run.RNG.Fork(0xfa17)
	for i := run.Scale(150, 500); i > 0; i-- {
		faultScenario(run, vec(r.Intn(16384), four), r.Bool())
	}
	run.Extra["exhaustive"] = map[string]any{"scenario": "7 RPCs (node, 3 services, 3 checks)", "alphabet": "ok,denied,fail", "complete": run.Thorough()}
}

// ---------------------------------------------------------------- ae state machine

type aeState struct {
	fullErr, changesErr error
	did                 string
}

func (s *aeState) SyncFull() error    { s.did = "full"; return s.fullErr }
func (s *aeState) SyncChanges() error { s.did = "partial"; return s.changesErr }

func aeCases(run *hx.Run) {
	for _, st := range []string{"fullSync", "partialSync", "retryFullSync", "done"} {
		for _, paused := range []bool{false, true} {
			for _, ev := range []string{"syncFullNotif", "syncFullTimer", "syncChangesNotif", "shutdown"} {
				for _, ok := range []bool{false, true} {
					as := &aeState{did: "none"}
					if !ok {
						as.fullErr, as.changesErr = errors.New("boom"), errors.New("boom")
					}
					out := func() (res string) {
						defer func() {
							if r := recover(); r != nil {
								res = "panic"
							}
						}()
						next := ae.VerifNextState(as, st, paused, ev)
						return as.did + " " + next
					}()
					if st == "done" {
						// Go's nextFSMState panics on an unknown state; "done" is never passed to it (runFSM returns)
						continue
					}
					run.Tag("ae:" + st)
					run.Line(fmt.Sprintf("ae %s %s %s %s", st, hx.EncBool(paused), ev, hx.EncBool(ok)), out)
					// monitor: after a failed full sync the next sync that runs is a full sync
					if st == "fullSync" && !paused && !ok && !strings.HasSuffix(out, "retryFullSync") {
						run.Violate("ae:failed-full-sync-not-retried-as-full", "failed full sync does not lead to retryFullSync", []string{st, ev})
					}
					if st == "retryFullSync" && strings.HasPrefix(out, "partial") {
						run.Violate("ae:partial-sync-while-full-sync-retry-pending", "partial sync ran in retryFullSync", []string{st, ev})
					}
				}
			}
		}
	}
	run.Case("ae-fsm", true)
}

// ---------------------------------------------------------------- ae: the real Run loop (monitor only)

// aeRec is a recording SyncState. Everything it records happens on the goroutine of the state
// machine, in order; the assertions are about that order (never about how fast anything happens —
// "eventually" waits use a deadline of two minutes and only fail when nothing happens at all).
type aeRec struct {
	mu       sync.Mutex
	seq      []string // "full:ok" "full:err" "partial"
	fullErr  error
	syncer   *ae.StateSyncer
	pauseAt  int  // pause (from inside the callback) when len(seq) reaches this value; 0 = never
	paused   bool // Pause() was called on the state-machine goroutine and Resume() not yet requested
	inPaused []string
}

func (a *aeRec) record(what string) {
	a.mu.Lock()
	defer a.mu.Unlock()
	if a.paused {
		a.inPaused = append(a.inPaused, what)
	}
	a.seq = append(a.seq, what)
	if a.pauseAt != 0 && len(a.seq) >= a.pauseAt && !a.paused {
		a.syncer.Pause()
		a.paused = true
		a.pauseAt = 0
	}
}
func (a *aeRec) SyncFull() error {
	a.mu.Lock()
	err := a.fullErr
	a.mu.Unlock()
	if err != nil {
		a.record("full:err")
	} else {
		a.record("full:ok")
	}
	return err
}
func (a *aeRec) SyncChanges() error { a.record("partial"); return nil }
func (a *aeRec) snapshot() []string {
	a.mu.Lock()
	defer a.mu.Unlock()
	return append([]string(nil), a.seq...)
}

func aeRunLoop(run *hx.Run) {
	const patience = 2 * time.Minute
	rec := &aeRec{fullErr: errors.New("boom")}
	shutdown := make(chan struct{})
	s := ae.VerifNewSyncer(rec, 20*time.Millisecond, shutdown)
	rec.syncer = s
	done := make(chan struct{})
	go func() { defer close(done); s.Run() }()
	viol := func(sig, desc string) { run.Violate("ae:"+sig, desc, rec.snapshot()) }
	eventually := func(cond func(seq []string) bool) bool {
		for dl := time.Now().Add(patience); time.Now().Before(dl); time.Sleep(time.Millisecond) {
			if cond(rec.snapshot()) {
				return true
			}
		}
		return false
	}
	count := func(seq []string, what string) (n int) {
		for _, x := range seq {
			if x == what {
				n++
			}
		}
		return
	}
	stop := func() {
		close(shutdown)
		select {
		case <-done:
		case <-time.After(patience):
			viol("run-does-not-stop-on-shutdown", "StateSyncer.Run did not return after ShutdownCh was closed")
		}
	}
	// 1. failing full syncs are retried as full syncs; change notifications meanwhile run no partial sync
	s.SyncChanges.Trigger()
	if !eventually(func(seq []string) bool { return count(seq, "full:err") >= 3 }) {
		viol("failed-full-sync-not-retried", "a failing full sync was not retried (fewer than three attempts)")
		stop()
		return
	}
	s.SyncChanges.Trigger()
	rec.mu.Lock()
	rec.fullErr = nil
	rec.mu.Unlock()
	if !eventually(func(seq []string) bool { return count(seq, "full:ok") >= 1 }) {
		viol("failed-full-sync-not-retried", "no full sync after the failures stopped")
		stop()
		return
	}
	// 2. once a full sync succeeded a change notification runs a partial sync; the interval timer keeps
	//    running full syncs
	s.SyncChanges.Trigger()
	if !eventually(func(seq []string) bool { return count(seq, "partial") >= 1 }) {
		viol("change-notification-runs-no-partial-sync", "SyncChanges.Trigger() after a successful full sync ran no partial sync")
	}
	n0 := count(rec.snapshot(), "full:ok")
	if !eventually(func(seq []string) bool { return count(seq, "full:ok") >= n0+2 }) {
		viol("no-periodic-full-sync", "the interval timer ran no further full syncs")
	}
	// 3. pause from inside a sync callback (so the pause is ordered before every later step of the state
	//    machine): no sync may run until Resume; Resume restarts syncing
	rec.mu.Lock()
	rec.pauseAt = len(rec.seq) + 1
	rec.mu.Unlock()
	s.SyncChanges.Trigger()
	if !eventually(func([]string) bool { rec.mu.Lock(); defer rec.mu.Unlock(); return rec.paused }) {
		viol("no-periodic-full-sync", "no sync ran at all while waiting to pause")
		stop()
		return
	}
	s.SyncChanges.Trigger()
	s.SyncFull.Trigger()
	time.Sleep(100 * time.Millisecond) // an opportunity for a wrong sync, nothing is asserted about time
	rec.mu.Lock()
	rec.paused = false
	ran := append([]string(nil), rec.inPaused...)
	n1 := len(rec.seq)
	rec.mu.Unlock()
	if len(ran) > 0 {
		viol("sync-ran-while-paused", fmt.Sprintf("syncs ran between Pause and Resume: %v", ran))
	}
	if !s.Resume() {
		viol("resume-does-not-report-restart", "Resume() of the only pause returned false")
	}
	if !eventually(func(seq []string) bool { return len(seq) > n1 }) {
		viol("resume-does-not-restart-syncing", "no sync ran after Resume")
	}
	// 3b. a second pause with no notification in between: Resume itself must ask for a partial sync
	//     (changes made while paused triggered nothing)
	rec.mu.Lock()
	rec.pauseAt = len(rec.seq) + 1
	rec.mu.Unlock()
	if !eventually(func([]string) bool { rec.mu.Lock(); defer rec.mu.Unlock(); return rec.paused }) {
		viol("no-periodic-full-sync", "no sync ran at all while waiting to pause again")
		stop()
		return
	}
	time.Sleep(50 * time.Millisecond)
	rec.mu.Lock()
	rec.paused = false
	ran = append([]string(nil), rec.inPaused...)
	rec.mu.Unlock()
	if len(ran) > 0 {
		viol("sync-ran-while-paused", fmt.Sprintf("syncs ran between Pause and Resume: %v", ran))
	}
	np := count(rec.snapshot(), "partial")
	s.Resume()
	if !eventually(func(seq []string) bool { return count(seq, "partial") > np }) {
		viol("resume-does-not-trigger-a-partial-sync", "no partial sync ran after Resume (changes made while paused are never pushed until the next full sync)")
	}
	// 4. a server joined: SyncFull.Trigger() runs a full sync
	n2 := count(rec.snapshot(), "full:ok")
	s.SyncFull.Trigger()
	if !eventually(func(seq []string) bool { return count(seq, "full:ok") > n2 }) {
		viol("full-sync-trigger-ignored", "SyncFull.Trigger() ran no full sync")
	}
	stop()
	// order: the call that follows a failed full sync is a full sync (never a partial one)
	seq := rec.snapshot()
	for i := 0; i+1 < len(seq); i++ {
		if seq[i] == "full:err" && seq[i+1] == "partial" {
			viol("partial-sync-while-full-sync-retry-pending", "a partial sync ran right after a failed full sync")
			break
		}
	}
	if len(seq) > 0 && seq[0] != "full:err" {
		viol("first-sync-is-not-a-full-sync", "Run started with "+seq[0])
	}
	run.Tag("ae:real-run-loop(monitor-only)")
	run.Case("ae-run-loop", true)
}

func main() {
	localityWritable = probeLocality()
	svcLocalityWritable = probeSvcLocality()
	run := hx.Start()
	run.Rule = "after every local change / drift / sync operation the agent's complete local state (flags included) and the node's catalog entries are printed; the Lean model CV.AE must print the same line"
	run.Tag(fmt.Sprintf("probe:store-writes-locality-only-node-changes:%v", localityWritable))
	run.Tag(fmt.Sprintf("probe:store-writes-locality-only-service-changes:%v", svcLocalityWritable))
	scripted(run)
	aeCases(run)
	aeRunLoop(run)
	exhaustive(run)
	n := run.Scale(700, 3000)
	for i := 0; i < n; i++ {
		randomCase(run, run.RNG.Fork(uint64(i)), 4+i%12)
	}
	run.Sample(map[string]any{"note": "see histogram for the op / outcome distribution"})
	run.Finish()
}
