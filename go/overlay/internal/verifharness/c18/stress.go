//go:build verif

package main

// Part 4 of the C18 harness: subscribe-while-writing stress. One writer extends a CAS chain on a single
// resource as fast as it can (commit n+1 always presents the version of commit n, so the commit order of
// the resource is known exactly: 1, 2, 3, …). Meanwhile fresh, UNCACHED watches are opened over and over
// (each opener closes its watch before opening the next one, and no two openers share a subject, so every
// WatchList builds a new snapshot while commits are landing), and each is consumed until it has caught up
// with what the writer had committed when its snapshot ended.
//
// Monitor (model independent): per watch, the listing shows the resource at some chain position L and the
// events after EndOfSnapshot must then be L+1, L+2, … without a gap; re-deliveries of positions ≤ L are the
// known finding watch:stale-event-after-snapshot and are tolerated (counted); and a watch must not stay
// behind while later commits exist.

import (
	"context"
	"errors"
	"fmt"
	"strconv"
	"sync"
	"sync/atomic"
	"time"

	"github.com/hashicorp/consul/internal/storage/inmem"
	"github.com/hashicorp/consul/internal/verifharness/hx"
	"github.com/hashicorp/consul/proto-public/pbresource"
)

func subscribeStress(run *hx.Run) {
	budget := time.Duration(run.Scale(15, 45)) * time.Second
	be, err := inmem.NewBackend()
	if err != nil {
		panic(err)
	}
	ctx, cancel := context.WithCancel(bg)
	defer cancel()
	go be.Run(ctx)

	typ := &pbresource.Type{Group: "demo", GroupVersion: "v1", Kind: "artist"}
	ten := &pbresource.Tenancy{Partition: "default", Namespace: "default"}
	seqOf := func(r *pbresource.Resource) int64 {
		n, _ := strconv.ParseInt(r.Generation, 10, 64)
		return n
	}
	cur, err := be.WriteCAS(bg, &pbresource.Resource{Id: &pbresource.ID{Type: typ, Tenancy: ten, Name: "chain", Uid: "u1"}, Generation: "1"})
	if err != nil {
		panic(err)
	}
	var (
		stop      atomic.Bool
		committed atomic.Int64 // chain position of the last commit that has returned
		wg        sync.WaitGroup
		mu        sync.Mutex
		viol      []string
		watches   atomic.Int64
		stale     atomic.Int64
		withEvent atomic.Int64
		stallCount atomic.Int64
		failed     atomic.Bool
	)
	committed.Store(1)
	report := func(sig, desc string) {
		mu.Lock()
		viol = append(viol, sig+"\x00"+desc)
		mu.Unlock()
		failed.Store(true)
		stop.Store(true)
	}
	wg.Add(1)
	go func() { // the writer
		defer wg.Done()
		for seq := int64(2); !stop.Load(); seq++ {
			res, err := be.WriteCAS(bg, &pbresource.Resource{Id: cur.Id, Version: cur.Version, Generation: strconv.FormatInt(seq, 10)})
			if err != nil {
				report("cas:spurious-failure", "the only writer of a resource got a CAS failure presenting the version it was just handed: "+err.Error())
				return
			}
			cur = res
			committed.Store(seq)
		}
	}()
	// openers: one per subject (tenancy subject; wildcard subject), so that no snapshot cache is shared
	queries := []query{
		{g: typ.Group, k: typ.Kind, part: "default", ns: "default"},
		{g: typ.Group, k: typ.Kind, part: "default", ns: "*"},
	}
	for _, q := range queries {
		q := q
		wg.Add(1)
		go func() {
			defer wg.Done()
			for !stop.Load() {
				w, err := be.WatchList(bg, q.typ(), q.ten(), "")
				if err != nil {
					report("watch:open-error", err.Error())
					return
				}
				watches.Add(1)
				listed, expect, target := int64(-1), int64(0), int64(0)
				eos := false
				var trail []int64
				stalls, stalledAt := 0, int64(-1)
				for {
					c, cancel := context.WithTimeout(bg, 5*time.Second)
					ev, err := w.Next(c)
					cancel()
					if errors.Is(err, context.DeadlineExceeded) {
						// Nothing for 5 s. If commits keep landing meanwhile (so the publisher is alive and events are
						// flowing) and this keeps happening, the watcher is stuck behind; a frozen process or a stalled
						// publisher (the writer then blocks on the full publish channel) is not a lost event.
						if stalledAt < 0 {
							stalledAt = committed.Load()
						}
						stalls++
						stallCount.Add(1)
						if eos && stalls >= 3 && (committed.Load() >= stalledAt+500 || stop.Load()) && committed.Load() >= expect {
							report("watch:event-lost-during-subscribe", fmt.Sprintf(
								"a fresh watch (%s) listed the resource at chain position %d, delivered %v, and then nothing for %d s although position %d has been committed: the watcher stays stale",
								q.enc(), listed, trail, 5*stalls, committed.Load()))
							break
						}
						if stalls >= 6 {
							break
						}
						continue
					}
					if err != nil {
						break
					}
					switch {
					case ev.GetEndOfSnapshot() != nil:
						eos = true
						if listed < 0 {
							report("watch:snapshot-incomplete", "the listing of a fresh watch does not contain the resource although it has existed since before the watch")
						}
						expect = listed + 1
						// catch up with what has certainly been committed by now (at least one more event)
						target = committed.Load()
						if target < expect {
							target = expect
						}
					case ev.GetUpsert() != nil && !eos:
						listed = seqOf(ev.GetUpsert().Resource)
					case ev.GetUpsert() != nil:
						got := seqOf(ev.GetUpsert().Resource)
						trail = append(trail, got)
						switch {
						case got <= listed:
							stale.Add(1) // known finding shape: older than the snapshot
						case got == expect:
							expect++
						case got > expect:
							report("watch:event-lost-during-subscribe", fmt.Sprintf(
								"a fresh watch (%s) listed the resource at chain position %d and then delivered %v: the event of position %d, committed after the listing, was never delivered",
								q.enc(), listed, trail, expect))
						default:
							report("watch:events-out-of-order", fmt.Sprintf("a fresh watch delivered chain position %d again after %d (listing %d, events %v)", got, expect-1, listed, trail))
						}
					default:
						report("watch:unknown-event-type", "a delete or unknown event for a resource nobody deletes")
					}
					if failed.Load() {
						break
					}
					if stop.Load() && eos && target > committed.Load() {
						target = committed.Load() // the writer has stopped: catch up with its last commit, no further
					}
					if eos && expect > target {
						if eos && expect > listed+1 {
							withEvent.Add(1)
						}
						break
					}
				}
				w.Close()
			}
		}()
	}
	deadline := time.After(budget)
	select {
	case <-deadline:
	case <-func() chan struct{} {
		ch := make(chan struct{})
		go func() {
			for !stop.Load() {
				time.Sleep(5 * time.Millisecond)
			}
			close(ch)
		}()
		return ch
	}():
	}
	stop.Store(true)
	if !waitOrStuck(&wg, 30*time.Second) {
		run.Violate("deadlock:unclassified", "the subscribe stress did not stop within 30 s", nil)
	}
	run.Extra["subscribe_stress_watches"] = watches.Load()
	run.Extra["subscribe_stress_commits"] = committed.Load()
	run.Extra["subscribe_stress_watches_caught_up_through_events"] = withEvent.Load()
	run.Extra["subscribe_stress_stale_redeliveries"] = stale.Load()
	run.Extra["subscribe_stress_5s_stalls"] = stallCount.Load()
	run.Tag("case:subscribe-stress")
	if stale.Load() > 0 {
		run.Tag("stress:stale-redelivery-seen")
	}
	seen := map[string]bool{}
	for _, v := range viol {
		var sig, desc string
		for i := 0; i < len(v); i++ {
			if v[i] == 0 {
				sig, desc = v[:i], v[i+1:]
				break
			}
		}
		if seen[sig] {
			continue
		}
		seen[sig] = true
		run.Violate(sig, desc, []string{
			"# subscribe stress: one CAS-chain writer on demo/artist default/default 'chain' (Generation = chain position),",
			"# two openers (tenancy subject, wildcard subject) each looping WatchList → consume until caught up → Close",
			fmt.Sprintf("# %d watches opened, %d commits", watches.Load(), committed.Load())})
	}
	run.Case(fmt.Sprintf("subscribe-stress-%d", run.Seed), true)
}
