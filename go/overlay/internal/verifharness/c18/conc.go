//go:build verif

package main

// Part 2 of the C18 harness: concurrent histories against the real inmem.Backend with the real
// EventPublisher goroutine running (the binary is built with -race). Every operation records a call and
// a return stamp from one atomic counter plus its result; the whole history goes to the Lean model, which
// must find a linearization for the sequential specification and check every watcher's stream against it.
// Writers are excluded from running concurrently with Restore (as the Raft FSM does); readers, listers
// and watchers are not.

import (
	"context"
	"errors"
	"fmt"
	"runtime"
	"sort"
	"strconv"
	"strings"
	"sync"
	"sync/atomic"
	"time"

	"google.golang.org/protobuf/proto"

	"github.com/hashicorp/consul/internal/storage"
	"github.com/hashicorp/consul/internal/storage/inmem"
	"github.com/hashicorp/consul/internal/verifharness/hx"
	"github.com/hashicorp/consul/proto-public/pbresource"
)

type hop struct {
	tid       int
	call, ret int64
	line      string // "<kind> <args…> <result…>"
	// for the monitors
	kind      string
	presented string
	key       string
	ok        bool
	epoch     int
	stored    *pbresource.Resource
	read      *pbresource.Resource
}

type sev struct {
	kind byte // 'u' upsert, 'x' delete, 'e' end of snapshot, 'c' closed
	res  *pbresource.Resource
	// read made right after the event was received (watcher threads only)
	readDone  bool
	readFound *pbresource.Resource
}

func (e sev) enc() string {
	switch e.kind {
	case 'u':
		return "u:" + encRes(e.res)
	case 'x':
		return "x:" + encRes(e.res)
	case 'e':
		return "e"
	}
	return "c"
}

type cwatch struct {
	q         query
	call, ret int64
	epoch0    int
	epoch1    int
	evs       []sev
	complete  bool
	closedBy  string
}

type chist struct {
	run    *hx.Run
	be     *inmem.Backend
	store  *inmem.Store
	clock  atomic.Int64
	uniq   atomic.Int64
	epoch  atomic.Int64
	gate   sync.RWMutex // writers RLock, restore Lock
	stop   atomic.Bool  // publisher is quiescent: watchers drain what is buffered and leave
	mu     sync.Mutex
	ops    []hop
	ws     []*cwatch
	obs    []sev // commit order as seen by the observer(s), duplicates removed
	obsMu  sync.Mutex
	obsSet map[string]bool
	obsGen int
	unreliable  atomic.Bool  // the observer could not keep up: the history is not evaluated
	inCommit    atomic.Bool  // a goroutine is inside Restoration.Commit
	inWatchList atomic.Int64 // goroutines inside Store.WatchList
	tagMu  sync.Mutex
	tags   []string
}

// tag may be called from any goroutine; flushed into the run by the main goroutine.
func (h *chist) tag(t string) {
	h.tagMu.Lock()
	h.tags = append(h.tags, t)
	h.tagMu.Unlock()
}

// observerMisses counts how often an observer never saw a marker write. It should be 0; when the
// implementation loses events it is not, and then there is no point in waiting 10 s every time.
var observerMisses atomic.Int64

func observerWait() time.Duration {
	if observerMisses.Load() >= 3 {
		return 1500 * time.Millisecond
	}
	return 10 * time.Second
}

var concType = &pbresource.Type{Group: "demo", GroupVersion: "v1", Kind: "artist"}

func (h *chist) now() int64 { return h.clock.Add(1) }

func (h *chist) add(o hop) {
	h.mu.Lock()
	h.ops = append(h.ops, o)
	h.mu.Unlock()
}

type keyInfo struct {
	uid, version string
	older        []string
}

type cthread struct {
	h    *chist
	tid  int
	r    *hx.RNG
	keys []*pbresource.ID // ids without uid
	seen map[string]*keyInfo
	nUid int
}

func (t *cthread) info(id *pbresource.ID) *keyInfo {
	k := resKey(id)
	if t.seen[k] == nil {
		t.seen[k] = &keyInfo{}
	}
	return t.seen[k]
}

func (t *cthread) learn(r *pbresource.Resource) {
	ki := t.info(r.Id)
	if ki.version != "" && ki.version != r.Version {
		ki.older = append(ki.older, ki.version)
	}
	ki.uid, ki.version = r.Id.Uid, r.Version
}

func (t *cthread) pickID() *pbresource.ID {
	id := clone(hx.Pick(t.r, t.keys))
	ki := t.info(id)
	switch {
	case ki.uid != "" && t.r.Chance(10):
		id.Uid = nearUid(t.r, ki.uid) // almost the uid it knows (another case, one character off, padded, empty)
		t.h.tag("conc:near-uid-presented")
	case ki.uid != "" && t.r.Chance(80):
		id.Uid = ki.uid
	case t.r.Chance(50):
		id.Uid = hx.Pick(t.r, []string{"u1", "u2"})
	default:
		t.nUid++
		id.Uid = fmt.Sprintf("t%dn%d", t.tid, t.nUid)
	}
	return id
}

func (t *cthread) pickVersion(ki *keyInfo) string {
	n := t.r.Intn(100)
	switch {
	case ki.version != "" && n < 65:
		return ki.version
	case n < 85:
		return ""
	case len(ki.older) > 0 && n < 93:
		return hx.Pick(t.r, ki.older)
	case ki.version != "":
		if v, err := strconv.Atoi(ki.version); err == nil {
			return strconv.Itoa(v + 1 + t.r.Intn(2))
		}
	}
	return hx.Pick(t.r, []string{"0", "x", "1"})
}

func (t *cthread) step() {
	h := t.h
	if t.r.Chance(25) {
		runtime.Gosched()
	}
	n := t.r.Intn(100)
	switch {
	case n < 38: // write
		id := t.pickID()
		ki := t.info(id)
		res := &pbresource.Resource{Id: id, Generation: strconv.FormatInt(h.uniq.Add(1), 10), Version: t.pickVersion(ki)}
		if t.r.Chance(25) {
			o := clone(t.keys[0])
			o.Uid = "u1"
			res.Owner = o
		}
		h.gate.RLock()
		ep := int(h.epoch.Load())
		c := h.now()
		stored, err := h.be.WriteCAS(bg, clone(res))
		r := h.now()
		h.gate.RUnlock()
		out := errEnum(err)
		logged := res
		if err == nil {
			logged = stored
			t.learn(stored)
		}
		h.add(hop{tid: t.tid, call: c, ret: r, kind: "w", presented: res.Version, key: resKey(id), ok: err == nil, epoch: ep, stored: stored,
			line: fmt.Sprintf("w %s %s %s", encRes(logged), hx.EncS(res.Version), out)})
		h.tag("conc:write-" + out)
	case n < 53: // delete
		id := t.pickID()
		ki := t.info(id)
		v := t.pickVersion(ki)
		h.gate.RLock()
		ep := int(h.epoch.Load())
		c := h.now()
		err := h.be.DeleteCAS(bg, clone(id), v)
		r := h.now()
		h.gate.RUnlock()
		out := errEnum(err)
		h.add(hop{tid: t.tid, call: c, ret: r, kind: "d", presented: v, key: resKey(id), ok: err == nil, epoch: ep,
			line: fmt.Sprintf("d %s %s %s", encID(id), hx.EncS(v), out)})
		h.tag("conc:delete-" + out)
	case n < 80: // read
		id := t.pickID()
		if t.r.Chance(50) {
			id.Uid = ""
		}
		if t.r.Chance(8) {
			id.Type.GroupVersion = "v2"
		}
		c := h.now()
		res, err := h.be.Read(bg, storage.EventualConsistency, clone(id))
		r := h.now()
		var mm storage.GroupVersionMismatchError
		var out string
		switch {
		case err == nil:
			out = "found " + encRes(res)
			t.learn(res)
		case errors.As(err, &mm):
			out = "gvmismatch " + encRes(mm.Stored)
			t.learn(mm.Stored)
			res = mm.Stored
		case errors.Is(err, storage.ErrNotFound):
			out = "notfound"
		default:
			out = "err"
		}
		h.add(hop{tid: t.tid, call: c, ret: r, kind: "r", key: resKey(id), read: res, line: fmt.Sprintf("r %s %s", encID(id), out)})
		h.tag("conc:read-" + strings.SplitN(out, " ", 2)[0])
	case n < 93: // list
		q := query{g: concType.Group, k: concType.Kind, part: hx.Pick(t.r, []string{"default", "p1", "*"}), ns: hx.Pick(t.r, []string{"default", "*"})}
		if t.r.Chance(30) {
			q.pfx = "a"
		}
		c := h.now()
		rs, err := h.be.List(bg, storage.EventualConsistency, q.typ(), q.ten(), q.pfx)
		r := h.now()
		out := encRows(rs)
		if err != nil {
			out = "err"
		}
		for _, x := range rs {
			t.learn(x)
		}
		h.add(hop{tid: t.tid, call: c, ret: r, kind: "l", line: fmt.Sprintf("l %s %s", q.enc(), out)})
		h.tag("conc:list")
	default: // list by owner
		o := clone(t.keys[0])
		o.Uid = hx.Pick(t.r, []string{"u1", "u2"})
		c := h.now()
		rs, err := h.be.ListByOwner(bg, o)
		r := h.now()
		out := encRows(rs)
		if err != nil {
			out = "err"
		}
		h.add(hop{tid: t.tid, call: c, ret: r, kind: "lo", line: fmt.Sprintf("lo %s %s", encID(o), out)})
		h.tag("conc:list-by-owner")
	}
}

// restore (exclusive with writers): snapshot the store, optionally drop a row, restore it with renumbered
// payloads, then re-open the observer so that the commit order keeps being recorded.
func (h *chist) restore(tid int, r *hx.RNG, snap []*pbresource.Resource) {
	h.gate.Lock()
	defer h.gate.Unlock()
	var rs []*pbresource.Resource
	for _, x := range snap {
		y := clone(x)
		y.Generation = strconv.FormatInt(h.uniq.Add(1), 10)
		rs = append(rs, y)
	}
	// let the observer catch up first (it is about to be force-closed and must not lose commits):
	// once it has seen this marker write it has seen every earlier commit
	mid := &pbresource.ID{Type: concType, Tenancy: &pbresource.Tenancy{Partition: "default", Namespace: "default"}, Name: "zy", Uid: "m"}
	mres := &pbresource.Resource{Id: mid, Generation: strconv.FormatInt(h.uniq.Add(1), 10)}
	if cur, err := h.store.Read(mid); err == nil {
		mres.Version = cur.Version
	}
	mc := h.now()
	mstored, err := h.be.WriteCAS(bg, mres)
	mr := h.now()
	if err != nil {
		panic(err)
	}
	h.add(hop{tid: tid, call: mc, ret: mr, kind: "w", presented: mres.Version, key: resKey(mid), ok: true, stored: mstored, epoch: int(h.epoch.Load()),
		line: fmt.Sprintf("w %s %s ok", encRes(mstored), hx.EncS(mres.Version))})
	for deadline := time.Now().Add(observerWait()); time.Now().Before(deadline) && !h.observed(evKey(mstored, false)); {
		time.Sleep(200 * time.Microsecond)
	}
	if !h.observed(evKey(mstored, false)) {
		observerMisses.Add(1)
		h.unreliable.Store(true) // the observer is lagging badly (overloaded machine): its commit order will have a hole
	}
	c := h.now()
	rst, err := h.store.Restore()
	if err != nil {
		panic(err)
	}
	for _, x := range rs {
		if err := rst.Apply(clone(x)); err != nil {
			panic(err)
		}
	}
	h.inCommit.Store(true)
	rst.Commit()
	h.inCommit.Store(false)
	rt := h.now()
	h.epoch.Add(1)
	h.add(hop{tid: tid, call: c, ret: rt, kind: "restore", line: "restore " + encRows(rs)})
	h.tag("conc:restore")
	h.startObserver()
}

func (h *chist) snapshot() []*pbresource.Resource {
	sn, err := h.store.Snapshot()
	if err != nil {
		panic(err)
	}
	var rs []*pbresource.Resource
	for x := sn.Next(); x != nil; x = sn.Next() {
		rs = append(rs, x)
	}
	return rs
}

// startObserver opens a wildcard watch and records every event after its snapshot, once.
func (h *chist) startObserver() {
	w, err := h.store.WatchList(storage.UnversionedTypeFrom(concType), &pbresource.Tenancy{Partition: "*", Namespace: "*"}, "")
	if err != nil {
		panic(err)
	}
	h.obsMu.Lock()
	h.obsGen++
	h.obsMu.Unlock()
	go func() {
		defer w.Close()
		eos := false
		for {
			if h.stop.Load() && w.VerifC18WouldBlock() {
				return
			}
			ctx, cancel := context.WithTimeout(bg, 20*time.Millisecond)
			ev, err := w.Next(ctx)
			cancel()
			if err != nil {
				if errors.Is(err, context.DeadlineExceeded) {
					continue
				}
				return // closed by a restore: the restoring thread starts a new observer
			}
			switch {
			case ev.GetEndOfSnapshot() != nil:
				eos = true
			case !eos:
			case ev.GetUpsert() != nil:
				h.observe(sev{kind: 'u', res: ev.GetUpsert().Resource})
			case ev.GetDelete() != nil:
				h.observe(sev{kind: 'x', res: ev.GetDelete().Resource})
			}
		}
	}()
}

func (h *chist) observe(e sev) {
	k := evKey(e.res, e.kind == 'x')
	h.obsMu.Lock()
	if !h.obsSet[k] {
		h.obsSet[k] = true
		h.obs = append(h.obs, e)
	}
	h.obsMu.Unlock()
}

func (h *chist) observed(k string) bool {
	h.obsMu.Lock()
	defer h.obsMu.Unlock()
	return h.obsSet[k]
}

// watcher thread: open after a while, receive, read after every event; maybe close early.
func (h *chist) watcher(tid int, r *hx.RNG, wg *sync.WaitGroup) {
	defer wg.Done()
	for i := r.Intn(200); i > 0; i-- {
		runtime.Gosched()
	}
	q := query{g: concType.Group, k: concType.Kind, part: hx.Pick(r, []string{"default", "p1", "*"}), ns: hx.Pick(r, []string{"default", "*"})}
	if r.Chance(25) {
		q.pfx = "a"
	}
	cw := &cwatch{q: q}
	cw.epoch0 = int(h.epoch.Load())
	cw.call = h.now()
	h.inWatchList.Add(1)
	w, err := h.store.WatchList(q.typ(), q.ten(), q.pfx)
	h.inWatchList.Add(-1)
	cw.ret = h.now()
	cw.epoch1 = int(h.epoch.Load())
	if err != nil {
		panic(err)
	}
	defer w.Close()
	h.mu.Lock()
	h.ws = append(h.ws, cw)
	h.mu.Unlock()
	limit := -1
	if r.Chance(20) {
		limit = 1 + r.Intn(6)
	}
	for {
		if limit == 0 {
			cw.closedBy = "limit"
			h.tag("conc:watch-closed-early")
			return
		}
		if h.stop.Load() && w.VerifC18WouldBlock() {
			cw.complete = true
			return
		}
		ctx, cancel := context.WithTimeout(bg, 20*time.Millisecond)
		ev, err := w.Next(ctx)
		cancel()
		switch {
		case err == nil:
		case errors.Is(err, context.DeadlineExceeded):
			continue
		case errors.Is(err, storage.ErrWatchClosed):
			cw.evs = append(cw.evs, sev{kind: 'c'})
			cw.closedBy = "restore"
			h.tag("conc:watch-force-closed")
			return
		default:
			panic(err)
		}
		limit--
		var e sev
		switch {
		case ev.GetEndOfSnapshot() != nil:
			e = sev{kind: 'e'}
		case ev.GetUpsert() != nil:
			e = sev{kind: 'u', res: ev.GetUpsert().Resource}
		case ev.GetDelete() != nil:
			e = sev{kind: 'x', res: ev.GetDelete().Resource}
		}
		if e.res != nil {
			id := clone(e.res.Id)
			id.Uid = ""
			got, err := h.store.Read(id)
			var mm storage.GroupVersionMismatchError
			switch {
			case err == nil:
				e.readFound = got
			case errors.As(err, &mm):
				e.readFound = mm.Stored
			}
			e.readDone = true
		}
		cw.evs = append(cw.evs, e)
	}
}

// waitOrStuck waits for the group; false if it is still not done after d.
func waitOrStuck(wg *sync.WaitGroup, d time.Duration) bool {
	done := make(chan struct{})
	go func() { wg.Wait(); close(done) }()
	select {
	case <-done:
		return true
	case <-time.After(d):
		return false
	}
}

// stuck reports a history whose goroutines do not come back (the store is abandoned, its goroutines leak).
func (h *chist) stuck(run *hx.Run) {
	h.mu.Lock()
	var lines []string
	for _, o := range h.ops {
		lines = append(lines, fmt.Sprintf("hop %d %d %d %s", o.tid, o.call, o.ret, o.line))
	}
	h.mu.Unlock()
	sig, desc := "deadlock:unclassified", "the goroutines of a concurrent history did not return within 20 s"
	if h.inCommit.Load() && h.inWatchList.Load() > 0 {
		sig = "deadlock:watchlist-vs-restore-commit"
		desc = "Store.WatchList (holds the publisher lock, wants Store.mu for the snapshot) and Restoration.Commit (holds Store.mu, wants the publisher lock in RefreshTopic) block each other forever"
	}
	h.stop.Store(true) // lets the observer goroutine of the abandoned history leave
	run.Tag("conc:" + sig)
	if sigCount[sig] < 3 {
		run.Violate(sig, desc, lines)
	} else {
		run.Tag("violation:" + sig)
	}
	sigCount[sig]++
}

// witnessDeadlock is a bounded stress aimed at known finding deadlock:watchlist-vs-restore-commit:
// one goroutine restores in a loop, another opens and closes a watch in a loop (the last subscriber
// leaving evicts the cached snapshot, so every WatchList takes a snapshot under the publisher lock).
func witnessDeadlock(run *hx.Run) {
	rounds := run.Scale(3, 10)
	for round := 0; round < rounds; round++ {
		st, err := inmem.NewStore()
		if err != nil {
			panic(err)
		}
		ctx, cancel := context.WithCancel(bg)
		go st.Run(ctx)
		var inCommit atomic.Bool
		var inWatch, progress atomic.Int64
		var stop atomic.Bool
		var wg sync.WaitGroup
		wg.Add(2)
		go func() {
			defer wg.Done()
			for !stop.Load() {
				r, err := st.Restore()
				if err != nil {
					panic(err)
				}
				inCommit.Store(true)
				r.Commit()
				inCommit.Store(false)
				progress.Add(1)
			}
		}()
		go func() {
			defer wg.Done()
			for !stop.Load() {
				inWatch.Add(1)
				w, err := st.WatchList(storage.UnversionedTypeFrom(concType), &pbresource.Tenancy{Partition: "default", Namespace: "default"}, "")
				inWatch.Add(-1)
				if err != nil {
					panic(err)
				}
				w.Close()
				progress.Add(1)
			}
		}()
		deadlocked := false
		last, lastChange := int64(-1), time.Now()
		for begin := time.Now(); time.Since(begin) < 1500*time.Millisecond || time.Since(lastChange) > 500*time.Millisecond; {
			time.Sleep(5 * time.Millisecond)
			if p := progress.Load(); p != last {
				last, lastChange = p, time.Now()
			} else if time.Since(lastChange) > 3*time.Second {
				deadlocked = inCommit.Load() && inWatch.Load() > 0
				break
			}
		}
		stop.Store(true)
		run.Extra[fmt.Sprintf("deadlock_stress_round_%d_iterations", round)] = progress.Load()
		if deadlocked {
			run.Tag("case:witness-deadlock-hit")
			sig := "deadlock:watchlist-vs-restore-commit"
			if sigCount[sig] < 3 {
				run.Violate(sig, "stress: Store.WatchList (publisher lock → Store.mu) and Restoration.Commit (Store.mu → publisher lock) block each other forever",
					[]string{"# stress witness: goroutine 1 loops Store.Restore()+Commit(), goroutine 2 loops Store.WatchList()+Close()"})
			}
			sigCount[sig]++
			cancel() // the two goroutines stay blocked; the store is abandoned
			run.Case("witness-deadlock", true)
			return
		}
		waitOrStuck(&wg, 5*time.Second)
		cancel()
	}
	run.Tag("case:witness-deadlock-not-hit")
	run.Case("witness-deadlock", true)
}

func concurrentHistory(run *hx.Run, r *hx.RNG, idx int) {
	be, err := inmem.NewBackend()
	if err != nil {
		panic(err)
	}
	ctx, cancel := context.WithCancel(bg)
	defer cancel()
	go be.Run(ctx)
	h := &chist{run: run, be: be, store: be.VerifC18Store(), obsSet: map[string]bool{}}
	h.startObserver()

	nThreads := 2 + r.Intn(5)
	total := 12 + r.Intn(28)
	nKeys := 1 + r.Intn(3)
	var keys []*pbresource.ID
	pool := []*pbresource.ID{
		{Type: concType, Tenancy: &pbresource.Tenancy{Partition: "default", Namespace: "default"}, Name: "a"},
		{Type: concType, Tenancy: &pbresource.Tenancy{Partition: "p1", Namespace: "default"}, Name: "ab"},
		{Type: concType, Tenancy: &pbresource.Tenancy{Partition: "default", Namespace: "default"}, Name: "b"},
	}
	keys = pool[:nKeys]
	withRestore := r.Chance(15)
	nWatchers := r.Intn(3)
	run.Tag(fmt.Sprintf("conc:threads=%d", nThreads))
	run.Tag(fmt.Sprintf("conc:keys=%d", nKeys))

	var wg, wwg sync.WaitGroup
	start := make(chan struct{})
	for t := 0; t < nThreads; t++ {
		th := &cthread{h: h, tid: t, r: r.Fork(uint64(t + 1)), keys: keys, seen: map[string]*keyInfo{}}
		n := total / nThreads
		doRestore := withRestore && t == 0
		wg.Add(1)
		go func() {
			defer wg.Done()
			<-start
			var snap []*pbresource.Resource
			for i := 0; i < n; i++ {
				th.step()
				if doRestore && i == n/3 {
					snap = h.snapshot()
				}
				if doRestore && i == (2*n)/3 {
					h.restore(th.tid, th.r, snap)
				}
			}
		}()
	}
	for k := 0; k < nWatchers; k++ {
		wwg.Add(1)
		go h.watcher(100+k, r.Fork(uint64(1000+k)), &wwg)
	}
	close(start)
	if !waitOrStuck(&wg, 20*time.Second) {
		h.stuck(run)
		return
	}

	// sentinel: once the observer has seen it, every earlier commit has been dispatched to every buffer
	sid := &pbresource.ID{Type: concType, Tenancy: &pbresource.Tenancy{Partition: "default", Namespace: "default"}, Name: "zz", Uid: "s"}
	sres := &pbresource.Resource{Id: sid, Generation: strconv.FormatInt(h.uniq.Add(1), 10)}
	c := h.now()
	stored, err := be.WriteCAS(bg, sres)
	rt := h.now()
	if err != nil {
		panic(err)
	}
	h.add(hop{tid: 99, call: c, ret: rt, kind: "w", key: resKey(sid), ok: true, stored: stored, epoch: int(h.epoch.Load()),
		line: fmt.Sprintf("w %s %s ok", encRes(stored), hx.EncS(""))})
	quiescent := false
	for deadline := time.Now().Add(observerWait()); time.Now().Before(deadline); {
		if h.observed(evKey(stored, false)) {
			quiescent = true
			break
		}
		time.Sleep(200 * time.Microsecond)
	}
	if !quiescent {
		observerMisses.Add(1)
		run.Tag("conc:publisher-not-quiescent")
	}
	h.stop.Store(true)
	if !waitOrStuck(&wwg, 20*time.Second) {
		h.stuck(run)
		return
	}
	if !quiescent || h.unreliable.Load() {
		// without a complete commit order neither the hint nor the monitors are meaningful; this happens
		// only when the machine is so overloaded that the publisher does not run for 10 s
		run.Tag("conc:abandoned-observer-incomplete")
		return
	}
	// final listing pins the final state
	fq := query{g: concType.Group, k: concType.Kind, part: "*", ns: "*"}
	c = h.now()
	rs, _ := be.List(bg, storage.EventualConsistency, fq.typ(), fq.ten(), "")
	rt = h.now()
	h.add(hop{tid: 99, call: c, ret: rt, kind: "l", line: fmt.Sprintf("l %s %s", fq.enc(), encRows(rs))})

	// ---- emit
	sort.Slice(h.ops, func(i, j int) bool { return h.ops[i].call < h.ops[j].call })
	var lines []string
	emit := func(op string) { lines = append(lines, op); run.Line(op, "ok") }
	emit("hbegin")
	for _, o := range h.ops {
		emit(fmt.Sprintf("hop %d %d %d %s", o.tid, o.call, o.ret, o.line))
	}
	h.obsMu.Lock()
	obs := append([]sev(nil), h.obs...)
	h.obsMu.Unlock()
	hint := make([]string, len(obs))
	for i, e := range obs {
		hint[i] = e.enc()
	}
	emit("hhint " + hx.EncList(hint))
	for _, cw := range h.ws {
		evs := make([]string, len(cw.evs))
		for i, e := range cw.evs {
			evs[i] = e.enc()
		}
		emit(fmt.Sprintf("hwatch %d %d %s %s %s", cw.call, cw.ret, hx.EncBool(cw.complete && quiescent), cw.q.enc(), hx.EncList(evs)))
	}
	lines = append(lines, "hcheck")
	run.Line("hcheck", fmt.Sprintf("lin=ok n=%d watches=ok", len(h.ops)))

	viol := func(sig, desc string) {
		if sigCount[sig] < 3 {
			run.Violate(sig, desc, lines)
		} else {
			run.Tag("violation:" + sig)
		}
		sigCount[sig]++
	}
	h.monitors(obs, viol)
	if len(h.ws) > 0 && len(lines) > 20 {
		run.Sample(map[string]any{"case": fmt.Sprintf("concurrent history: %d goroutines, %d operations, %d watchers, %d commits observed", nThreads, len(h.ops), len(h.ws), len(obs)),
			"first_lines": lines[:8], "verdict_expected": fmt.Sprintf("lin=ok n=%d watches=ok", len(h.ops))})
	}
	h.tagMu.Lock()
	for _, t := range h.tags {
		run.Tag(t)
	}
	h.tagMu.Unlock()
	run.Case(strings.Join(lines, "\n"), len(h.ops) > 8)
}

// monitors restate the property on the recorded history, using only the observer's commit order.
func (h *chist) monitors(obs []sev, viol func(sig, desc string)) {
	seq := map[string]int{}
	for i, e := range obs {
		seq[evKey(e.res, e.kind == 'x')] = i + 1
	}
	// payload -> epoch in which the resource version was created (write op or restore)
	payloadEpoch := map[string]int{}
	written := map[string]bool{}
	for _, o := range h.ops {
		if o.kind == "w" && o.ok {
			payloadEpoch[o.stored.Generation] = o.epoch
			written[evKey(o.stored, false)] = true
		}
	}
	ep := 0
	for _, o := range h.ops { // ops are sorted by call stamp; restores are exclusive with writers
		if o.kind == "restore" {
			ep++
			for _, tok := range strings.Split(strings.TrimPrefix(o.line, "restore "), ",") {
				f := strings.Split(tok, "|")
				if len(f) == 4 {
					payloadEpoch[f[3]] = ep
				}
			}
		}
	}
	// (1) at most one committed operation per (epoch, resource, presented version)
	count := map[string]int{}
	for _, o := range h.ops {
		if o.kind == "w" && o.ok && o.presented != "" {
			count[fmt.Sprintf("%d|%s|%s", o.epoch, o.key, o.presented)]++
		}
	}
	for _, e := range obs {
		if e.kind == 'x' {
			count[fmt.Sprintf("%d|%s|%s", payloadEpoch[e.res.Generation], resKey(e.res.Id), e.res.Version)]++
		}
	}
	for k, n := range count {
		if n > 1 {
			viol("cas:two-successes-same-version", "two committed operations presented the same version of one resource: "+strings.ReplaceAll(k, "\x00", "/"))
			break
		}
	}
	// every successful write must show up in the commit order exactly once; every delete event needs a deleter
	for _, o := range h.ops {
		if o.kind == "w" && o.ok && seq[evKey(o.stored, false)] == 0 {
			viol("watch:missing-event", "a successful write never reached the observer although the publisher is quiescent")
			break
		}
	}
	for _, e := range obs {
		if e.kind == 'u' && !written[evKey(e.res, false)] {
			viol("watch:event-never-committed", "the observer received an upsert that no successful write produced")
			break
		}
		if e.kind == 'x' {
			found := false
			for _, o := range h.ops {
				if o.kind == "d" && o.ok && o.key == resKey(e.res.Id) && o.presented == e.res.Version {
					found = true
					break
				}
			}
			if !found {
				viol("watch:event-never-committed", "the observer received a delete that no successful DeleteCAS with that version explains")
				break
			}
		}
	}
	// commit order per resource: every commit presents the version the previous commit on that resource
	// installed, so the observer's events of one resource must chain (histories with a restore are skipped:
	// a restore brings old versions back without an event)
	if ep == 0 {
		presentedOf := map[string]string{}
		for _, o := range h.ops {
			if o.kind == "w" && o.ok {
				presentedOf[evKey(o.stored, false)] = o.presented
			}
		}
		type last struct {
			del bool
			vsn string
		}
		prev := map[string]*last{}
		for _, e := range obs {
			k := resKey(e.res.Id)
			p := prev[k]
			if e.kind == 'x' {
				if p != nil && (p.del || p.vsn != e.res.Version) {
					viol("watch:events-out-of-order", "a delete event does not follow the event that installed the deleted version")
				}
				prev[k] = &last{del: true}
				continue
			}
			pres, known := presentedOf[evKey(e.res, false)]
			if known {
				switch {
				case pres == "" && p != nil && !p.del:
					viol("watch:events-out-of-order", "a creation event follows an upsert of the same resource without a delete event in between")
				case pres != "" && (p == nil || p.del || p.vsn != pres):
					viol("watch:events-out-of-order", "an update event does not follow the event that installed the version it presented")
				}
			}
			prev[k] = &last{vsn: e.res.Version}
		}
	}
	// (2) uid constant within a lifetime: consecutive upserts of one resource without a delete (or restore) in between
	lastUp := map[string]*pbresource.Resource{}
	for _, e := range obs {
		k := resKey(e.res.Id)
		if e.kind == 'x' {
			if p := lastUp[k]; p != nil && payloadEpoch[p.Generation] == payloadEpoch[e.res.Generation] && !proto.Equal(p, e.res) {
				viol("watch:delete-event-not-last-version", "a delete event does not carry the last committed version of the resource")
			}
			delete(lastUp, k)
			continue
		}
		if p := lastUp[k]; p != nil && payloadEpoch[p.Generation] == payloadEpoch[e.res.Generation] && p.Id.Uid != e.res.Id.Uid {
			viol("uid:changed-within-lifetime", "two successive versions of one resource carry different uids")
		}
		lastUp[k] = e.res
	}
	// (3) watcher streams
	for _, cw := range h.ws {
		eos := false
		last, lastIdx := 0, -1
		bound := 0 // newest commit the snapshot provably contains
		var delivered []int
		for i, e := range cw.evs {
			switch {
			case e.kind == 'e':
				eos = true
				continue
			case e.kind == 'c':
				continue
			}
			if !cw.q.matches(e.res) {
				viol("watch:event-outside-query", "a watcher received an event for a resource its query does not match")
			}
			s := seq[evKey(e.res, e.kind == 'x')]
			if !eos {
				if s > bound {
					bound = s
				}
				continue
			}
			if s == 0 {
				if _, restored := payloadEpoch[e.res.Generation]; !restored || e.kind == 'u' {
					viol("watch:event-never-committed", "a watcher received an event that corresponds to no committed operation")
				}
				continue
			}
			if s <= last {
				viol("watch:events-out-of-order", fmt.Sprintf("watcher events %d and %d are not in commit order", lastIdx, i))
			}
			switch {
			case cw.epoch0 == cw.epoch1 && payloadEpoch[e.res.Generation] < cw.epoch0:
				viol("watch:pre-restore-event-after-snapshot", "an event committed before a restore was delivered to a watcher opened after the restore")
				h.tag("conc:pre-restore-event")
			case s <= bound:
				viol("watch:stale-event-after-snapshot", "an event committed before the snapshot was taken was delivered after EndOfSnapshot (version regress)")
				h.tag("conc:stale-event")
			}
			last, lastIdx = s, i
			delivered = append(delivered, s)
			// (4) read after event
			if e.readDone {
				older := false
				if e.readFound != nil {
					rs := seq[evKey(e.readFound, false)]
					_, known := payloadEpoch[e.readFound.Generation]
					if rs != 0 && rs < s && resKey(e.readFound.Id) == resKey(e.res.Id) && payloadEpoch[e.readFound.Generation] >= payloadEpoch[e.res.Generation] {
						older = true
					}
					if !known {
						viol("read:never-written", "a read returned a resource version nobody wrote")
					}
				} else {
					// not found: fine iff a delete of this resource was committed after the event, or a restore happened
					later := false
					for _, o := range obs[s:] {
						if o.kind == 'x' && resKey(o.res.Id) == resKey(e.res.Id) {
							later = true
						}
					}
					if e.kind == 'x' || int(h.epoch.Load()) > payloadEpoch[e.res.Generation] {
						later = true
					}
					older = !later
				}
				if older {
					viol("watch:read-older-than-event", "a read made after receiving an event returned data older than the event")
				}
			}
		}
		// no gaps: between the first and the last delivered commit every matching commit was delivered
		if len(delivered) > 0 {
			want := 0
			for s := delivered[0]; s <= delivered[len(delivered)-1]; s++ {
				if cw.q.matches(obs[s-1].res) {
					want++
				}
			}
			if want != len(delivered) {
				viol("watch:missing-event", "a watcher skipped a matching commit between two events it received")
			}
			if cw.complete && cw.closedBy == "" {
				for s := delivered[len(delivered)-1] + 1; s <= len(obs); s++ {
					if cw.q.matches(obs[s-1].res) {
						viol("watch:missing-event", "an open watcher never received a matching commit although the publisher is quiescent")
						break
					}
				}
			}
		}
	}
}

func concurrentPart(run *hx.Run) {
	witnessDeadlock(run)
	n := run.Scale(400, 1700)
	procs := []int{1, 2, 4, 16}
	prev := runtime.GOMAXPROCS(0)
	var total, slowest time.Duration
	slow := 0
	for i := 0; i < n; i++ {
		if i%25 == 0 {
			p := procs[(i/25)%len(procs)]
			runtime.GOMAXPROCS(p)
			run.Tag(fmt.Sprintf("conc:gomaxprocs=%d", p))
		}
		t0 := time.Now()
		concurrentHistory(run, run.RNG.Fork(uint64(1_000_000+i)), i)
		d := time.Since(t0)
		total += d
		if d > slowest {
			slowest = d
		}
		if d > time.Second {
			slow++
		}
	}
	runtime.GOMAXPROCS(prev)
	run.Extra["concurrent_histories"] = n
	run.Extra["concurrent_total_ms"] = total.Milliseconds()
	run.Extra["concurrent_slowest_ms"] = slowest.Milliseconds()
	run.Extra["concurrent_histories_over_1s"] = slow
}
