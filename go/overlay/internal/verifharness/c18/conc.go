//go:build verif

package main

import "github.com/hashicorp/consul/internal/verifharness/hx"

func concurrentPart(run *hx.Run) {}
