//go:build verif

package main

// Part 4 of the C18 harness: the resource service layer (agent/grpc-external/services/resource: Write,
// WriteStatus, Delete, Read, List, ListByOwner) driven sequentially over the real inmem.Backend and compared
// line by line with the Lean model CV.ResSvc.
//
// A service call is a read-modify-write over the backend, so what matters is what other clients commit between
// its read and its mutations. The backend handed to the server is an interposing storage.Backend: for the k-th
// mutation (WriteCAS / DeleteCAS) a service call performs, a scheduled list of foreign backend operations is
// committed right before it. The schedule that was actually run is part of the protocol line, so every line is a
// complete, replayable interleaving (the model runs the same schedule at the same points), including the
// retry loop of non-CAS calls, the nested Write of a deferred delete and the tombstone-then-delete sequence.
//
// ulid.Make() values are canonicalised (U1, U2, … in order of first appearance) and passed to the model as the
// values the minting calls returned; the model side checks that every minted token is new. After every
// mutating call the whole store is dumped and compared, so an effect on any resource (or on a rejected call)
// is observed.

import (
	"context"
	"fmt"
	"sort"
	"strconv"
	"strings"
	"time"

	"github.com/hashicorp/go-hclog"
	"github.com/oklog/ulid/v2"
	"google.golang.org/grpc/codes"
	"google.golang.org/grpc/status"
	"google.golang.org/protobuf/proto"
	"google.golang.org/protobuf/types/known/anypb"

	svc "github.com/hashicorp/consul/agent/grpc-external/services/resource"
	"github.com/hashicorp/consul/internal/resource"
	"github.com/hashicorp/consul/internal/resource/demo"
	"github.com/hashicorp/consul/internal/storage"
	"github.com/hashicorp/consul/internal/storage/inmem"
	"github.com/hashicorp/consul/internal/verifharness/hx"
	"github.com/hashicorp/consul/proto-public/pbresource"
	pbdemov1 "github.com/hashicorp/consul/proto/private/pbdemo/v1"
	pbdemov2 "github.com/hashicorp/consul/proto/private/pbdemo/v2"
)

// ---------------------------------------------------------------- the interposing backend

type hookBackend struct {
	inner  *inmem.Backend
	before [][]func() string // foreign operations scheduled before the k-th mutation; each returns its encoding ("" = did nothing)
	mut    int
	done   [][]string
	reads  int
}

func (h *hookBackend) arm(s [][]func() string) { h.before, h.mut, h.done, h.reads = s, 0, nil, 0 }

func (h *hookBackend) interfere() {
	k := h.mut
	h.mut++
	if k >= len(h.before) {
		return
	}
	var l []string
	for _, f := range h.before[k] {
		if e := f(); e != "" {
			l = append(l, e)
		}
	}
	for len(h.done) < k {
		h.done = append(h.done, nil)
	}
	h.done = append(h.done, l)
}

func (h *hookBackend) sched() string {
	if len(h.done) == 0 {
		return "-"
	}
	parts := make([]string, len(h.done))
	for i, l := range h.done {
		if len(l) == 0 {
			parts[i] = "-"
		} else {
			parts[i] = strings.Join(l, "%")
		}
	}
	return strings.Join(parts, "&")
}

func (h *hookBackend) Read(ctx context.Context, c storage.ReadConsistency, id *pbresource.ID) (*pbresource.Resource, error) {
	h.reads++
	return h.inner.Read(ctx, c, id)
}
func (h *hookBackend) WriteCAS(ctx context.Context, res *pbresource.Resource) (*pbresource.Resource, error) {
	h.interfere()
	return h.inner.WriteCAS(ctx, res)
}
func (h *hookBackend) DeleteCAS(ctx context.Context, id *pbresource.ID, version string) error {
	h.interfere()
	return h.inner.DeleteCAS(ctx, id, version)
}
func (h *hookBackend) List(ctx context.Context, c storage.ReadConsistency, t storage.UnversionedType, ten *pbresource.Tenancy, p string) ([]*pbresource.Resource, error) {
	return h.inner.List(ctx, c, t, ten, p)
}
func (h *hookBackend) WatchList(ctx context.Context, t storage.UnversionedType, ten *pbresource.Tenancy, p string) (storage.Watch, error) {
	return h.inner.WatchList(ctx, t, ten, p)
}
func (h *hookBackend) ListByOwner(ctx context.Context, id *pbresource.ID) ([]*pbresource.Resource, error) {
	return h.inner.ListByOwner(ctx, id)
}

type tenancyFlag struct{ marked bool }

func (tenancyFlag) PartitionExists(string) (bool, error)                 { return true, nil }
func (tenancyFlag) IsPartitionMarkedForDeletion(string) (bool, error)    { return false, nil }
func (tenancyFlag) NamespaceExists(string, string) (bool, error)         { return true, nil }
func (t *tenancyFlag) IsNamespaceMarkedForDeletion(string, string) (bool, error) { return t.marked, nil }

// ---------------------------------------------------------------- canonical tokens

type canon struct {
	tok  map[string]string // real ULID -> U<n>
	n    int
	upd  map[string]string // UpdatedAt -> T<n>
	seen map[string]bool   // every generation / uid ever stored (monitor)
}

func newCanon() *canon { return &canon{tok: map[string]string{}, upd: map[string]string{}, seen: map[string]bool{}} }

func isULID(s string) bool {
	if len(s) != 26 || s == obsGenConst || s != strings.ToUpper(s) {
		return false
	}
	_, err := ulid.ParseStrict(s)
	return err == nil
}

const obsGenConst = "01HZX3NDEKTSV4RRFFQ69G5FAV" // a valid ULID used as status.observed_generation by made-up statuses

// c maps an id / generation string to its canonical spelling (registering new ULIDs).
func (c *canon) c(s string) string {
	if v, ok := c.tok[s]; ok {
		return v
	}
	if isULID(s) {
		c.n++
		c.tok[s] = "U" + strconv.Itoa(c.n)
		return c.tok[s]
	}
	for real, v := range c.tok { // a case variant of a known ULID (at most one key can match)
		if s == strings.ToLower(real) {
			return strings.ToLower(v)
		}
	}
	return s
}

func (c *canon) name(n string) string {
	if strings.HasPrefix(n, "tombstone-") {
		if i := strings.LastIndex(n, "-"); i > 0 {
			suf := n[i+1:]
			for real, v := range c.tok {
				if suf == strings.ToLower(real) {
					return n[:i+1] + strings.ToLower(v)
				}
			}
		}
	}
	return n
}

func (c *canon) id(id *pbresource.ID) string {
	t := id.Tenancy
	if t == nil {
		t = &pbresource.Tenancy{}
	}
	return strings.Join([]string{hx.EncS(id.Type.Group), hx.EncS(id.Type.GroupVersion), hx.EncS(id.Type.Kind),
		hx.EncS(t.Partition), hx.EncS(t.Namespace), hx.EncS(c.name(id.Name)), hx.EncS(c.c(id.Uid))}, ";")
}

func payloadOf(r *pbresource.Resource) int {
	if r.Data == nil {
		return 0
	}
	num := func(s string) int {
		if i := strings.LastIndex(s, " "); i >= 0 {
			n, _ := strconv.Atoi(s[i+1:])
			return n
		}
		return 0
	}
	switch {
	case r.Data.MessageIs(&pbdemov2.Artist{}):
		m := &pbdemov2.Artist{}
		_ = r.Data.UnmarshalTo(m)
		return 4 * num(m.Name)
	case r.Data.MessageIs(&pbdemov1.Artist{}):
		m := &pbdemov1.Artist{}
		_ = r.Data.UnmarshalTo(m)
		return 4*num(m.Name) + 1
	case r.Data.MessageIs(&pbdemov2.Album{}):
		m := &pbdemov2.Album{}
		_ = r.Data.UnmarshalTo(m)
		return 4*num(m.Title) + 2
	}
	return 0
}

func delTsCanon(v string) string {
	if _, err := time.Parse(time.RFC3339, v); err == nil {
		return "NOW"
	}
	return v
}

func (c *canon) updTok(st *pbresource.Status) string {
	if st.UpdatedAt == nil {
		return ""
	}
	k := fmt.Sprintf("%d.%d", st.UpdatedAt.Seconds, st.UpdatedAt.Nanos)
	if v, ok := c.upd[k]; ok {
		return v
	}
	c.upd[k] = "T" + strconv.Itoa(len(c.upd)+1)
	return c.upd[k]
}

func condOf(st *pbresource.Status) int {
	if len(st.Conditions) == 0 {
		return 0
	}
	n, _ := strconv.Atoi(st.Conditions[0].Message)
	return n
}

func (c *canon) sres(r *pbresource.Resource) string {
	o := "-"
	if r.Owner != nil {
		o = c.id(r.Owner)
	}
	res := strings.Join([]string{c.id(r.Id), o, hx.EncS(r.Version), strconv.Itoa(payloadOf(r))}, "|")
	st := "-"
	if len(r.Status) > 0 {
		keys := make([]string, 0, len(r.Status))
		for k := range r.Status {
			keys = append(keys, k)
		}
		sort.Strings(keys)
		parts := make([]string, len(keys))
		for i, k := range keys {
			s := r.Status[k]
			parts[i] = strings.Join([]string{hx.EncS(k), hx.EncS(c.c(s.ObservedGeneration)), strconv.Itoa(condOf(s)), hx.EncS(c.updTok(s))}, "~")
		}
		st = strings.Join(parts, "^")
	}
	dt, fi, other := "-", "-", 0
	if v, ok := r.Metadata[resource.DeletionTimestampKey]; ok {
		dt = hx.EncS(delTsCanon(v))
	}
	if v, ok := r.Metadata[resource.FinalizerKey]; ok {
		fi = hx.EncS(v)
	}
	if v, ok := r.Metadata["p"]; ok {
		other, _ = strconv.Atoi(v)
	}
	tb := "-"
	if resource.EqualType(r.Id.Type, resource.TypeV1Tombstone) && r.Data != nil {
		t := &pbresource.Tombstone{}
		if err := r.Data.UnmarshalTo(t); err == nil && t.Owner != nil {
			tb = c.id(t.Owner)
		}
	}
	return strings.Join([]string{res, hx.EncS(c.c(r.Generation)), st, dt, fi, strconv.Itoa(other), tb}, "!")
}

// ---------------------------------------------------------------- environment

type skey struct {
	typ  string // "artist" | "album"
	ns   string
	name string
}

func (k skey) pbType(gv string) *pbresource.Type {
	if k.typ == "album" {
		return demo.TypeV2Album
	}
	return artistType(gv)
}

type sseq struct {
	run    *hx.Run
	r      *hx.RNG
	hb     *hookBackend
	be     *inmem.Backend
	store  *inmem.Store
	srv    *svc.Server
	tf     *tenancyFlag
	cn     *canon
	cancel context.CancelFunc
	ops    []string
	uniq   int
	fn     int // foreign token counter
	held   map[skey][]*pbresource.Resource

	forced      bool // the next call uses forcedSched / forcedDel instead of random choices
	forcedSched [][]func() string
	forcedDel   *struct{ uid, vsn string }
}

func newSseq(run *hx.Run, r *hx.RNG) *sseq {
	be, err := inmem.NewBackend()
	if err != nil {
		panic(err)
	}
	ctx, cancel := context.WithCancel(bg)
	go be.Run(ctx)
	reg := resource.NewRegistry()
	demo.RegisterTypes(reg)
	hb := &hookBackend{inner: be}
	tf := &tenancyFlag{}
	e := &sseq{run: run, r: r, hb: hb, be: be, store: be.VerifC18Store(), tf: tf, cn: newCanon(), cancel: cancel,
		held: map[skey][]*pbresource.Resource{},
		srv:  svc.NewServer(svc.Config{Logger: hclog.NewNullLogger(), Registry: reg, Backend: hb, ACLResolver: aclAll{}, TenancyBridge: tf})}
	e.line("Snew", "ok")
	return e
}

func (e *sseq) line(op, out string) {
	e.ops = append(e.ops, op)
	e.run.Line(op, out)
}

func (e *sseq) viol(sig, desc string) {
	if sigCount[sig] < 3 {
		e.run.Violate(sig, desc, append([]string(nil), e.ops...))
	} else {
		e.run.Tag("violation:" + sig)
	}
	sigCount[sig]++
}

func (e *sseq) all() []*pbresource.Resource {
	snap, err := e.store.Snapshot()
	if err != nil {
		panic(err)
	}
	var out []*pbresource.Resource
	for r := snap.Next(); r != nil; r = snap.Next() {
		out = append(out, r)
	}
	return out
}

func (e *sseq) dumpOf(rs []*pbresource.Resource) string {
	if len(rs) == 0 {
		return "-"
	}
	// canonical order = byte order of the canonical storage key (tombstone names embed a ULID, so the
	// implementation's order among tombstones is not reproducible; the set is what is compared)
	type row struct{ key, enc string }
	t := make([]row, len(rs))
	for i, r := range rs {
		id := clone(r.Id)
		id.Name = e.cn.name(id.Name)
		t[i] = row{resKey(id), e.cn.sres(r)}
	}
	sort.SliceStable(t, func(i, j int) bool { return t[i].key < t[j].key })
	out := make([]string, len(t))
	for i := range t {
		out[i] = t[i].enc
	}
	return strings.Join(out, "+")
}

// cur reads the stored resource of a key whatever its uid / GroupVersion.
func (e *sseq) cur(k skey) *pbresource.Resource {
	id := &pbresource.ID{Type: k.pbType("v2"), Tenancy: &pbresource.Tenancy{Partition: "default", Namespace: k.ns}, Name: k.name}
	r, err := e.store.Read(id)
	var mm storage.GroupVersionMismatchError
	switch {
	case err == nil:
		return r
	case errorsAs(err, &mm):
		return mm.Stored
	}
	return nil
}

func errorsAs(err error, t *storage.GroupVersionMismatchError) bool {
	if m, ok := err.(storage.GroupVersionMismatchError); ok {
		*t = m
		return true
	}
	return false
}

var invalidReasons = []struct{ pfx, key string }{
	{"resource.status can only be set using the WriteStatus endpoint", "use-write-status"},
	{"tenancy marked for deletion", "tenancy-marked"},
	{"resource.metadata.deletionTimestamp can't be set on resource creation", "delts-on-create"},
	{"resource.owner does not exist", "owner-missing"},
	{"owner cannot be changed", "owner-changed"},
	{"cannot remove deletionTimestamp", "remove-delts"},
	{"cannot modify deletionTimestamp", "modify-delts"},
	{"cannot modify metadata", "modify-meta"},
	{"cannot modify data", "modify-data"},
	{"cannot no-op write resource marked for deletion", "noop-marked"},
	{"expected at least one finalizer to be removed", "finalizer-not-removed"},
	{"cannot write resource when tenancy marked for deletion", "tenancy-write-blocked"},
	{"resource.data is of wrong type", "data-type"},
	{"id.uid is required", "required"},
	{"owner uid is required", "required"},
	{"resource was requested with GroupVersion", "gv-mismatch"},
}

func svcErr(err error) string {
	if err == nil {
		return "ok"
	}
	s, _ := status.FromError(err)
	switch s.Code() {
	case codes.Aborted:
		return "aborted"
	case codes.FailedPrecondition:
		return "wronguid"
	case codes.NotFound:
		return "notfound"
	case codes.Internal:
		return "internal"
	case codes.InvalidArgument:
		for _, r := range invalidReasons {
			if strings.HasPrefix(s.Message(), r.pfx) {
				return "invalid:" + r.key
			}
		}
		return "invalid:?" + hx.EncS(s.Message())
	}
	return "code:" + s.Code().String()
}

// ---------------------------------------------------------------- building requests

func (e *sseq) data(k skey, gv string, p int) *anypb.Any {
	var m proto.Message
	switch {
	case k.typ == "album":
		m = &pbdemov2.Album{Title: "album " + strconv.Itoa(p)}
	case gv == "v1":
		m = &pbdemov1.Artist{Name: "artist " + strconv.Itoa(p), Genre: pbdemov1.Genre_GENRE_JAZZ}
	default:
		m = &pbdemov2.Artist{Name: "artist " + strconv.Itoa(p), Genre: pbdemov2.Genre_GENRE_JAZZ}
	}
	a, err := anypb.New(m)
	if err != nil {
		panic(err)
	}
	return a
}

func (e *sseq) fresh() int { e.uniq++; return e.uniq }

func (e *sseq) learn(k skey, r *pbresource.Resource) {
	if r != nil {
		e.held[k] = append(e.held[k], clone(r))
	}
}

func (e *sseq) known(k skey) *pbresource.Resource {
	h := e.held[k]
	if len(h) == 0 {
		return nil
	}
	if e.r.Chance(60) {
		return h[len(h)-1]
	}
	return hx.Pick(e.r, h)
}

func (e *sseq) tenancy(k skey) *pbresource.Tenancy {
	t := &pbresource.Tenancy{Partition: "default", Namespace: k.ns}
	if k.ns == "default" && e.r.Chance(12) {
		t.Namespace = "" // defaulted by the service
	}
	if e.r.Chance(8) {
		t.Partition = ""
	}
	return t
}

func (e *sseq) pickUid(k skey) string {
	kn, cur := e.known(k), e.cur(k)
	switch n := e.r.Intn(100); {
	case n < 45:
		return ""
	case n < 65 && cur != nil:
		return cur.Id.Uid
	case n < 88 && kn != nil:
		return kn.Id.Uid
	case n < 93 && cur != nil:
		return strings.ToLower(cur.Id.Uid)
	case n < 96:
		return "wrong-uid"
	}
	return ""
}

func (e *sseq) pickVersion(k skey) string {
	kn, cur := e.known(k), e.cur(k)
	switch n := e.r.Intn(100); {
	case n < 50:
		return ""
	case n < 80 && cur != nil:
		return cur.Version
	case n < 92 && kn != nil:
		return kn.Version
	case n < 96:
		return "999"
	}
	return ""
}

func madeUpStatus(cond int, obsGen string) *pbresource.Status {
	return &pbresource.Status{ObservedGeneration: obsGen,
		Conditions: []*pbresource.Condition{{Type: "c", State: pbresource.Condition_STATE_TRUE, Reason: "r", Message: strconv.Itoa(cond)}}}
}

var artistOwner = skey{"artist", "default", "a"}

func (e *sseq) ownerFor(k skey) *pbresource.ID {
	ok := artistOwner
	if e.r.Chance(12) {
		ok = skey{"artist", "default", "b"}
	}
	id := &pbresource.ID{Type: demo.TypeV2Artist, Tenancy: &pbresource.Tenancy{Partition: "default", Namespace: ok.ns}, Name: ok.name}
	cur, kn := e.cur(ok), e.known(ok)
	switch n := e.r.Intn(100); {
	case n < 45:
	case n < 75 && cur != nil:
		id.Uid = cur.Id.Uid
		id.Type = cur.Id.Type
	case n < 92 && kn != nil:
		id.Uid = kn.Id.Uid
	default:
		id.Uid = "wrong-uid"
	}
	if e.r.Chance(10) {
		id.Type = demo.TypeV1Artist
	}
	return id
}

// freshWrite builds a write from scratch.
func (e *sseq) freshWrite(k skey) *pbresource.Resource {
	gv := hx.Pick(e.r, []string{"v1", "v2", "v2"})
	p := e.fresh()
	res := &pbresource.Resource{
		Id:       &pbresource.ID{Type: k.pbType(gv), Tenancy: e.tenancy(k), Name: k.name, Uid: e.pickUid(k)},
		Version:  e.pickVersion(k),
		Data:     e.data(k, gv, p),
		Metadata: map[string]string{"p": strconv.Itoa(p)},
	}
	switch n := e.r.Intn(100); {
	case n < 55:
	case n < 75:
		res.Metadata[resource.FinalizerKey] = "f1"
	case n < 90:
		res.Metadata[resource.FinalizerKey] = "f1 f2"
	case n < 95:
		res.Metadata[resource.FinalizerKey] = ""
	default:
		res.Metadata[resource.DeletionTimestampKey] = "t1"
	}
	if e.r.Chance(5) {
		res.Status = map[string]*pbresource.Status{"k1": madeUpStatus(e.fresh(), obsGenConst)}
	}
	if k.typ == "album" || e.r.Chance(4) {
		res.Owner = e.ownerFor(k)
		if k.typ == "album" && e.r.Chance(6) {
			res.Owner = nil
		}
	}
	return res
}

// tweakWrite re-submits the stored resource with a few changes (how users and controllers usually write).
func (e *sseq) tweakWrite(k skey, cur *pbresource.Resource) *pbresource.Resource {
	res := clone(cur)
	if res.Metadata == nil {
		res.Metadata = map[string]string{}
	}
	res.Id.Tenancy = e.tenancy(k)
	switch n := e.r.Intn(100); {
	case n < 40:
		res.Id.Uid = ""
	case n < 50:
		res.Id.Uid = e.pickUid(k)
	}
	switch n := e.r.Intn(100); {
	case n < 50:
		res.Version = ""
	case n < 65:
		res.Version = e.pickVersion(k)
	}
	if e.r.Chance(60) {
		res.Status = nil
	} else if e.r.Chance(15) {
		res.Status = map[string]*pbresource.Status{"k1": madeUpStatus(e.fresh(), obsGenConst)}
	}
	res.Generation = ""
	nt := e.r.Intn(3)
	for i := 0; i < nt; i++ {
		c := e.r.Intn(10)
		if resource.IsMarkedForDeletion(cur) && e.r.Chance(50) {
			c = hx.Pick(e.r, []int{3, 3, 5, 7, 7, 0}) // what controllers do to a marked resource, and near misses
		}
		switch c {
		case 0, 1: // new payload (same GroupVersion as stored, or the other one)
			gv := cur.Id.Type.GroupVersion
			if k.typ == "artist" && e.r.Chance(25) {
				gv = map[string]string{"v1": "v2", "v2": "v1"}[gv]
				res.Id.Type = artistType(gv)
			}
			res.Data = e.data(k, gv, e.fresh())
		case 2: // other metadata
			res.Metadata["p"] = strconv.Itoa(e.fresh())
		case 3, 4: // remove one finalizer
			f := strings.Fields(res.Metadata[resource.FinalizerKey])
			if len(f) > 0 {
				i := e.r.Intn(len(f))
				f = append(f[:i], f[i+1:]...)
				if len(f) == 0 && e.r.Chance(60) {
					delete(res.Metadata, resource.FinalizerKey)
				} else {
					res.Metadata[resource.FinalizerKey] = strings.Join(f, " ")
				}
			}
		case 5: // add / replace finalizers
			res.Metadata[resource.FinalizerKey] = hx.Pick(e.r, []string{"f1", "f2", "f1 f2", "f2 f1", "f1 f2 f3", ""})
		case 6: // drop the finalizer key
			delete(res.Metadata, resource.FinalizerKey)
		case 7: // set / change the deletion timestamp
			res.Metadata[resource.DeletionTimestampKey] = hx.Pick(e.r, []string{"t1", "t2", ""})
		case 8: // drop the deletion timestamp
			delete(res.Metadata, resource.DeletionTimestampKey)
		case 9: // owner
			if e.r.Chance(50) {
				res.Owner = e.ownerFor(k)
			} else if res.Owner != nil {
				res.Owner.Uid = ""
			}
		}
	}
	return res
}

// ---------------------------------------------------------------- foreign operations (interference)

func (e *sseq) foreignTok(p string) string { e.fn++; return p + strconv.Itoa(e.fn) }

func (e *sseq) fWrite(res *pbresource.Resource) string {
	enc := "w$" + e.cn.sres(res)
	_, _ = e.be.WriteCAS(bg, res)
	return enc
}

// foreign returns a closure that, when run, commits something on key k through the backend directly.
func (e *sseq) foreign(k skey, kind int) func() string {
	return func() string {
		cur := e.cur(k)
		switch {
		case cur == nil: // create it under a foreign uid
			p := e.fresh()
			return e.fWrite(&pbresource.Resource{
				Id:         &pbresource.ID{Type: k.pbType("v2"), Tenancy: &pbresource.Tenancy{Partition: "default", Namespace: k.ns}, Name: k.name, Uid: e.foreignTok("F")},
				Generation: e.foreignTok("FG"), Data: e.data(k, "v2", p), Metadata: map[string]string{"p": strconv.Itoa(p)}})
		case kind == 0: // bump: same lifetime, new version (and other metadata)
			res := clone(cur)
			if res.Metadata == nil {
				res.Metadata = map[string]string{}
			}
			res.Metadata["p"] = strconv.Itoa(e.fresh())
			return e.fWrite(res)
		case kind == 1: // delete
			_ = e.be.DeleteCAS(bg, cur.Id, cur.Version)
			return "d$" + e.cn.id(cur.Id) + "$" + hx.EncS(cur.Version)
		case kind == 2: // give it a finalizer / mark it
			res := clone(cur)
			if res.Metadata == nil {
				res.Metadata = map[string]string{}
			}
			if _, ok := res.Metadata[resource.FinalizerKey]; !ok {
				res.Metadata[resource.FinalizerKey] = "f9"
			} else {
				res.Metadata[resource.DeletionTimestampKey] = "t2"
			}
			return e.fWrite(res)
		default: // status written by a controller meanwhile
			res := clone(cur)
			if res.Status == nil {
				res.Status = map[string]*pbresource.Status{}
			}
			res.Status["k2"] = madeUpStatus(e.fresh(), obsGenConst)
			return e.fWrite(res)
		}
	}
}

// schedule builds the interference of one service call on key k: mostly none.
func (e *sseq) schedule(k skey) [][]func() string {
	if e.forced {
		return e.forcedSched
	}
	if !e.r.Chance(22) {
		return nil
	}
	var s [][]func() string
	slots := 1 + e.r.Intn(2)
	for i := 0; i < slots; i++ {
		var l []func() string
		if e.r.Chance(75) {
			l = append(l, e.foreign(k, e.r.Intn(4)))
			if e.r.Chance(20) { // delete + re-create: another lifetime appears in the middle of the call
				l = append(l, e.foreign(k, e.r.Intn(4)))
			}
		}
		s = append(s, l)
	}
	return s
}

// ---------------------------------------------------------------- operations

type snapRow struct {
	uid, vsn, gen string
	res           *pbresource.Resource
}

func rowsByKey(rs []*pbresource.Resource) map[string]snapRow {
	m := map[string]snapRow{}
	for _, r := range rs {
		m[resKey(r.Id)] = snapRow{r.Id.Uid, r.Version, r.Generation, r}
	}
	return m
}

// hints collects what the minting calls of this operation returned, from what became visible.
func (e *sseq) hints(n0 int, result *pbresource.Resource, after []*pbresource.Resource, statusKey string) string {
	isNew := func(real string) bool {
		v, ok := e.cn.tok[real]
		if !ok {
			return false
		}
		i, _ := strconv.Atoi(v[1:])
		return i > n0
	}
	uid, gen, tuid, tgen, upd := "", "", "", "", ""
	visit := func(r *pbresource.Resource) {
		e.cn.c(r.Id.Uid)
		e.cn.c(r.Generation)
		if resource.EqualType(r.Id.Type, resource.TypeV1Tombstone) {
			if isNew(r.Id.Uid) {
				tuid, tgen = e.cn.c(r.Id.Uid), e.cn.c(r.Generation)
			}
			return
		}
		if isNew(r.Id.Uid) && uid == "" {
			uid = e.cn.c(r.Id.Uid)
		}
		if isNew(r.Generation) && gen == "" {
			gen = e.cn.c(r.Generation)
		}
	}
	if result != nil {
		visit(result)
		if gen == "" {
			gen = e.cn.c(result.Generation) // not new: the model side reports it (a Write must mint a generation)
		}
		if statusKey != "" && result.Status[statusKey] != nil {
			upd = e.cn.updTok(result.Status[statusKey])
		}
	}
	for _, r := range after {
		visit(r)
	}
	if statusKey != "" { // WriteStatus mints nothing
		uid, gen = "", ""
	}
	return strings.Join([]string{hx.EncS(uid), hx.EncS(gen), hx.EncS(tuid), hx.EncS(tgen), hx.EncS(upd), hx.EncS("NOW")}, ";")
}

func (e *sseq) checkMinted(what, tok string) {
	if tok == "" {
		return
	}
	if e.cn.seen[tok] {
		e.viol("svc:minted-token-reused:"+what, "a freshly minted "+what+" equals one stored before")
	}
	e.cn.seen[tok] = true
}

func (e *sseq) noteStored(rs []*pbresource.Resource) {
	for _, r := range rs {
		e.cn.seen[r.Id.Uid] = true
		e.cn.seen[r.Generation] = true
	}
}

func (e *sseq) opWrite(k skey, req *pbresource.Resource) {
	before := e.all()
	e.noteStored(before)
	n0 := e.cn.n
	sch := e.schedule(k)
	e.hb.arm(sch)
	reqEnc := e.cn.sres(req)
	rsp, err := e.srv.Write(bg, &pbresource.WriteRequest{Resource: clone(req)})
	after := e.all()
	var result *pbresource.Resource
	out := svcErr(err)
	if err == nil {
		result = rsp.Resource
	}
	h := e.hints(n0, result, after, "")
	if err == nil {
		out = "ok " + e.cn.sres(result)
	}
	e.line(fmt.Sprintf("Sw %s %s %s %s", reqEnc, h, hx.EncBool(e.tf.marked), e.hb.sched()), out+" ## "+e.dumpOf(after))
	e.run.Tag("svcseq:write-" + strings.SplitN(svcErr(err), "?", 2)[0])
	if e.hb.mut > 1 {
		e.run.Tag("svcseq:write-retried")
	}
	quiet := len(e.hb.done) == 0
	bk, ak := rowsByKey(before), rowsByKey(after)
	key := resKey(&pbresource.ID{Type: k.pbType("v2"), Tenancy: &pbresource.Tenancy{Partition: "default", Namespace: k.ns}, Name: k.name})
	b, hadB := bk[key]
	a, hasA := ak[key]
	if err == nil {
		e.learn(k, result)
		if e.cn.seen[result.Generation] {
			e.viol("svc:generation-not-bumped-by-write", "Write succeeded but the stored generation is one that was stored before")
		}
		e.cn.seen[result.Generation] = true
		if quiet {
			if !hasA || !proto.Equal(a.res, result) {
				e.viol("svc:write-ok-not-stored", "Write returned a resource that is not what the store holds afterwards")
			}
			if hadB {
				if b.uid != result.Id.Uid {
					e.viol("uid:changed-within-lifetime", "service layer (sequential): Write changed the uid of an existing resource")
				}
				if req.Version != "" && req.Version != b.vsn {
					e.viol("svc:cas-write-not-on-presented-version", "a CAS Write committed although the presented version was not the stored one")
				}
				if req.Id.Uid != "" && req.Id.Uid != b.uid {
					e.viol("uid:stale-writer-wrote", "service layer (sequential): a Write naming another uid than the stored one committed")
				}
				if !resource.EqualID(b.res.Owner, result.Owner) {
					e.viol("svc:owner-changed", "Write changed the owner of an existing resource")
				}
				if !resource.EqualStatusMap(b.res.Status, result.Status) {
					e.viol("svc:status-changed-by-write", "Write changed the status of an existing resource")
				}
			} else {
				e.checkMinted("uid", result.Id.Uid)
				if req.Version != "" {
					e.viol("cas:create-with-version", "service layer: a Write presenting a version created a resource")
				}
			}
		}
	} else if quiet && e.dumpOf(before) != e.dumpOf(after) {
		e.viol("svc:rejected-call-changed-state", "a rejected Write changed the store")
	}
	_, _ = hadB, hasA
}

func (e *sseq) opWriteStatus(k skey) {
	before := e.all()
	e.noteStored(before)
	n0 := e.cn.n
	cur := e.cur(k)
	id := &pbresource.ID{Type: k.pbType(hx.Pick(e.r, []string{"v1", "v2", "v2", "v2"})), Tenancy: e.tenancy(k), Name: k.name}
	if cur != nil && e.r.Chance(80) {
		id.Type = cur.Id.Type
	}
	switch n := e.r.Intn(100); {
	case n < 75 && cur != nil:
		id.Uid = cur.Id.Uid
	case n < 96:
		if id.Uid = e.pickUid(k); id.Uid == "" && cur != nil && e.r.Chance(85) {
			id.Uid = cur.Id.Uid
		}
	}
	vsn := ""
	if e.r.Chance(45) {
		vsn = e.pickVersion(k)
	}
	key := hx.Pick(e.r, []string{"k1", "k2"})
	obs := obsGenConst
	if cur != nil && isULID(cur.Generation) && e.r.Chance(70) {
		obs = cur.Generation
	}
	st := madeUpStatus(e.fresh(), obs)
	e.hb.arm(e.schedule(k))
	rsp, err := e.srv.WriteStatus(bg, &pbresource.WriteStatusRequest{Id: clone(id), Key: key, Status: clone(st), Version: vsn})
	after := e.all()
	var result *pbresource.Resource
	out := svcErr(err)
	if err == nil {
		result = rsp.Resource
	}
	h := e.hints(n0, result, after, key)
	if err == nil {
		out = "ok " + e.cn.sres(result)
	}
	e.line(fmt.Sprintf("Sws %s %s %s %d %s %s %s", e.cn.id(id), hx.EncS(key), hx.EncS(e.cn.c(obs)), condOf(st), hx.EncS(vsn), h, e.hb.sched()),
		out+" ## "+e.dumpOf(after))
	e.run.Tag("svcseq:writestatus-" + svcErr(err))
	quiet := len(e.hb.done) == 0
	if err == nil {
		e.learn(k, result)
		if quiet && cur != nil {
			// status-only: everything but Status[key] and Version is what it was
			x, y := clone(cur), clone(result)
			x.Version, y.Version = "", ""
			delete(x.Status, key)
			delete(y.Status, key)
			if len(x.Status) == 0 {
				x.Status = nil
			}
			if len(y.Status) == 0 {
				y.Status = nil
			}
			if !proto.Equal(x, y) {
				e.viol("svc:status-write-changed-more", "WriteStatus changed something else than the one status key and the version (uid / generation / data / owner / metadata / other status keys)")
			}
			if vsn != "" && vsn != cur.Version {
				e.viol("svc:cas-write-not-on-presented-version", "a CAS WriteStatus committed although the presented version was not the stored one")
			}
			if id.Uid != cur.Id.Uid {
				e.viol("uid:stale-writer-wrote", "service layer (sequential): a WriteStatus naming another uid than the stored one committed")
			}
		}
	} else if quiet && e.dumpOf(before) != e.dumpOf(after) {
		e.viol("svc:rejected-call-changed-state", "a rejected WriteStatus changed the store")
	}
}

func (e *sseq) opDelete(k skey) {
	before := e.all()
	e.noteStored(before)
	n0 := e.cn.n
	cur := e.cur(k)
	id := &pbresource.ID{Type: k.pbType(hx.Pick(e.r, []string{"v1", "v2", "v2"})), Tenancy: e.tenancy(k), Name: k.name, Uid: e.pickUid(k)}
	if cur != nil && e.r.Chance(75) {
		id.Type = cur.Id.Type
	}
	vsn := e.pickVersion(k)
	if e.forcedDel != nil {
		id.Uid, vsn, id.Tenancy = e.forcedDel.uid, e.forcedDel.vsn, &pbresource.Tenancy{Partition: "default", Namespace: k.ns}
		if cur != nil {
			id.Type = cur.Id.Type
		}
	}
	e.hb.arm(e.schedule(k))
	_, err := e.srv.Delete(bg, &pbresource.DeleteRequest{Id: clone(id), Version: vsn})
	after := e.all()
	h := e.hints(n0, nil, after, "")
	e.line(fmt.Sprintf("Sd %s %s %s %s %s", e.cn.id(id), hx.EncS(vsn), h, hx.EncBool(e.tf.marked), e.hb.sched()), svcErr(err)+" ## "+e.dumpOf(after))
	e.run.Tag("svcseq:delete-" + svcErr(err))
	quiet := len(e.hb.done) == 0
	if !quiet || cur == nil {
		return
	}
	now := e.cur(k)
	gone := now == nil
	switch {
	case gone:
		e.run.Tag("svcseq:delete-effective")
		if err != nil {
			e.viol("svc:failed-delete-removed", "Delete returned an error but removed the resource")
		}
		if id.Uid != "" && id.Uid != cur.Id.Uid {
			e.viol("uid:stale-deleter-deleted", "service layer (sequential): a Delete naming another uid than the stored one removed the resource")
		}
		if vsn != "" && vsn != cur.Version {
			if id.Uid == "" {
				e.viol("svc:delete-by-name-ignores-version", "Delete by name (empty uid) presenting version "+vsn+" removed version "+cur.Version+": delete.go replaces the presented version by the stored one whenever the uid is empty, so a stale CAS delete succeeds")
			} else {
				e.viol("cas:delete-wrong-version", "service layer: a CAS Delete removed another version than the presented one")
			}
		}
		if resource.HasFinalizers(cur) {
			e.viol("svc:deleted-despite-finalizers", "Delete removed a resource that still has finalizers")
		}
		// the tombstone that lets the reaper delete the owned resources
		if !resource.EqualType(cur.Id.Type, resource.TypeV1Tombstone) {
			found := false
			for _, r := range after {
				if resource.EqualType(r.Id.Type, resource.TypeV1Tombstone) && r.Data != nil {
					t := &pbresource.Tombstone{}
					if r.Data.UnmarshalTo(t) == nil && resource.EqualID(t.Owner, cur.Id) {
						found = true
					}
				}
			}
			if !found {
				e.viol("svc:delete-without-tombstone", "a resource was deleted but no tombstone names its id (with uid): its owned resources would never be reaped")
			}
		}
	case err == nil && resource.HasFinalizers(cur) && !resource.IsMarkedForDeletion(cur):
		e.run.Tag("svcseq:delete-deferred")
		if (id.Uid == "" || id.Uid == cur.Id.Uid) && !resource.IsMarkedForDeletion(now) {
			e.viol("svc:deferred-delete-not-marked", "Delete of a resource with finalizers returned OK but did not mark it for deletion")
		}
		if now.Id.Uid != cur.Id.Uid {
			e.viol("uid:changed-within-lifetime", "service layer (sequential): a deferred Delete changed the uid")
		}
	case err == nil && (id.Uid == "" || id.Uid == cur.Id.Uid) && (vsn == "" || vsn == cur.Version) && !resource.HasFinalizers(cur):
		e.viol("svc:delete-lost", "Delete naming the stored lifetime (and version) returned OK but the resource is still there")
	}
}

func (e *sseq) opRead(k skey) {
	id := &pbresource.ID{Type: k.pbType(hx.Pick(e.r, []string{"v1", "v2", "v2"})), Tenancy: e.tenancy(k), Name: k.name, Uid: e.pickUid(k)}
	rsp, err := e.srv.Read(bg, &pbresource.ReadRequest{Id: clone(id)})
	out := svcErr(err)
	if err == nil {
		out = "ok " + e.cn.sres(rsp.Resource)
		e.learn(k, rsp.Resource)
		if id.Uid != "" && rsp.Resource.Id.Uid != id.Uid {
			e.viol("uid:stale-reader-saw", "service layer (sequential): a uid-qualified Read returned another lifetime")
		}
	}
	e.line("Sr "+e.cn.id(id), out)
	e.run.Tag("svcseq:read-" + svcErr(err))
}

func (e *sseq) opList() {
	gv := hx.Pick(e.r, []string{"v1", "v2"})
	typ := artistType(gv)
	g, kd := typ.Group, typ.Kind
	if e.r.Chance(25) {
		typ = demo.TypeV2Album
		g, kd, gv = typ.Group, typ.Kind, typ.GroupVersion
	}
	q := query{g: g, k: kd, part: hx.Pick(e.r, []string{"default", "default", "", "*"}), ns: hx.Pick(e.r, []string{"default", "alt", "", "*"}),
		pfx: hx.Pick(e.r, []string{"", "", "a", "b"})}
	rsp, err := e.srv.List(bg, &pbresource.ListRequest{Type: typ, Tenancy: q.ten(), NamePrefix: q.pfx})
	out := svcErr(err)
	if err == nil {
		out = e.dumpOf(rsp.Resources)
	}
	e.line(fmt.Sprintf("Sl %s %s", hx.EncS(gv), q.enc()), out)
	e.run.Tag("svcseq:list")
}

func (e *sseq) opListByOwner() {
	ok := artistOwner
	id := &pbresource.ID{Type: demo.TypeV2Artist, Tenancy: e.tenancy(ok), Name: ok.name, Uid: e.pickUid(ok)}
	if cur := e.cur(ok); cur != nil && e.r.Chance(60) {
		id.Uid, id.Type = cur.Id.Uid, cur.Id.Type
	}
	rsp, err := e.srv.ListByOwner(bg, &pbresource.ListByOwnerRequest{Owner: clone(id)})
	out := svcErr(err)
	if err == nil {
		out = e.dumpOf(rsp.Resources)
		for _, r := range rsp.Resources {
			if r.Owner == nil || r.Owner.Uid != id.Uid {
				e.viol("svc:list-by-owner-other-lifetime", "ListByOwner returned a resource owned by another lifetime of the owner")
			}
		}
	}
	e.line("Slo "+e.cn.id(id), out)
	e.run.Tag("svcseq:listbyowner")
}

var sseqKeys = []skey{{"artist", "default", "a"}, {"artist", "default", "a"}, {"artist", "default", "b"}, {"artist", "alt", "a"}, {"album", "default", "x"}, {"album", "default", "x"}}

func (e *sseq) step() {
	k := hx.Pick(e.r, sseqKeys)
	e.tf.marked = e.r.Chance(7)
	cur := e.cur(k)
	if cur == nil && e.r.Chance(65) {
		req := e.freshWrite(k)
		if e.r.Chance(70) { // mostly a plain creation
			req.Id.Uid, req.Version = "", ""
			delete(req.Metadata, resource.DeletionTimestampKey)
			req.Status = nil
		}
		e.opWrite(k, req)
		return
	}
	switch n := e.r.Intn(100); {
	case n < 42:
		if cur != nil && e.r.Chance(70) {
			e.opWrite(k, e.tweakWrite(k, cur))
		} else {
			e.opWrite(k, e.freshWrite(k))
		}
	case n < 58:
		e.opWriteStatus(k)
	case n < 78:
		e.opDelete(k)
	case n < 88:
		e.opRead(k)
	case n < 94:
		e.opList()
	default:
		e.opListByOwner()
	}
}

func (e *sseq) finish(label string) {
	e.cancel()
	e.run.Case(label+"\n"+strings.Join(e.ops, "\n"), len(e.ops) > 3)
}

// svcRetryWitness: a non-CAS Write whose every attempt loses the race (five foreign bumps): the retry loop gives
// up after maxAttempts with Aborted and nothing of the write is stored; with four bumps the fifth attempt wins.
func svcRetryWitness(run *hx.Run, bumps int) {
	e := newSseq(run, run.RNG.Fork(uint64(3_100_000+bumps)))
	k := skey{"artist", "default", "a"}
	e.opWriteNoSched(k, e.plain(k, "", ""))
	var s [][]func() string
	for i := 0; i < bumps; i++ {
		s = append(s, []func() string{e.foreign(k, 0)})
	}
	e.opWriteSched(k, e.plain(k, "", ""), s)
	e.run.Tag(fmt.Sprintf("case:svc-retry-witness-%d-bumps", bumps))
	e.finish(fmt.Sprintf("svc retry witness %d", bumps))
}

func (e *sseq) plain(k skey, uid, vsn string) *pbresource.Resource {
	p := e.fresh()
	return &pbresource.Resource{Id: &pbresource.ID{Type: k.pbType("v2"), Tenancy: &pbresource.Tenancy{Partition: "default", Namespace: k.ns}, Name: k.name, Uid: uid},
		Version: vsn, Data: e.data(k, "v2", p), Metadata: map[string]string{"p": strconv.Itoa(p)}}
}

func (e *sseq) opWriteNoSched(k skey, req *pbresource.Resource) { e.opWriteSched(k, req, nil) }
func (e *sseq) opWriteSched(k skey, req *pbresource.Resource, s [][]func() string) {
	e.forcedSched, e.forced = s, true
	defer func() { e.forced = false }()
	e.opWrite(k, req)
}

// svcDeferredWitness walks the deferred-deletion protocol: finalizers, Delete marks, controllers remove their
// finalizers one by one, the last Delete removes the resource and leaves a tombstone; an owned album is listed
// by owner before, and the tombstone names the exact lifetime afterwards.
func svcDeferredWitness(run *hx.Run) {
	e := newSseq(run, run.RNG.Fork(3_200_000))
	a, x := skey{"artist", "default", "a"}, skey{"album", "default", "x"}
	req := e.plain(a, "", "")
	req.Metadata[resource.FinalizerKey] = "f1 f2"
	e.opWriteNoSched(a, req)
	al := e.plain(x, "", "")
	al.Owner = &pbresource.ID{Type: demo.TypeV2Artist, Tenancy: &pbresource.Tenancy{Partition: "default", Namespace: "default"}, Name: "a"}
	e.opWriteNoSched(x, al)
	e.forcedDelete(a, "", "")
	e.forcedDelete(a, "", "") // already marked: no-op
	for _, f := range []string{"f1", ""} {
		cur := clone(e.cur(a))
		cur.Status, cur.Generation, cur.Version = nil, "", ""
		if f == "" {
			delete(cur.Metadata, resource.FinalizerKey)
		} else {
			cur.Metadata[resource.FinalizerKey] = f
		}
		e.opWriteNoSched(a, cur)
	}
	e.forcedDelete(a, "", "")
	e.run.Tag("case:svc-deferred-delete-witness")
	e.finish("svc deferred delete witness")
}

func (e *sseq) forcedDelete(k skey, uid, vsn string) {
	e.forcedDel = &struct{ uid, vsn string }{uid, vsn}
	e.forcedSched, e.forced = nil, true
	defer func() { e.forcedDel, e.forced = nil, false }()
	e.opDelete(k)
}

// svcDeleteByNameWitness replays the fixed witness of known finding svc:delete-by-name-ignores-version on every
// run: Write a; Write a; Delete{a, uid "", version "1"} -> OK, the resource is gone although version "2" was stored.
// With the uid presented the same delete is refused (Aborted) and nothing is removed.
func svcDeleteByNameWitness(run *hx.Run) {
	e := newSseq(run, run.RNG.Fork(3_300_000))
	k := skey{"artist", "default", "a"}
	e.opWriteNoSched(k, e.plain(k, "", ""))
	e.opWriteNoSched(k, e.plain(k, "", ""))
	cur := e.cur(k)
	e.forcedDelete(k, cur.Id.Uid, "1") // uid presented: a real CAS
	if now := e.cur(k); now == nil || now.Version != cur.Version {
		e.viol("cas:delete-wrong-version", "service layer: a CAS Delete naming the uid and a stale version removed / changed the resource")
	}
	e.forcedDelete(k, "", "1") // by name: the presented version is ignored
	e.run.Tag("case:svc-delete-by-name-witness")
	e.finish("svc delete by name witness")
}

func svcSeqCase(run *hx.Run, r *hx.RNG, n int) {
	e := newSseq(run, r)
	for i := 0; i < n; i++ {
		e.step()
	}
	e.finish("svc sequence")
}

func svcSeqPart(run *hx.Run) {
	svcDeferredWitness(run)
	svcDeleteByNameWitness(run)
	svcRetryWitness(run, 1)
	if run.Thorough() {
		svcRetryWitness(run, 4)
	}
	svcRetryWitness(run, 5)
	n := run.Scale(70, 400)
	for i := 0; i < n; i++ {
		r := run.RNG.Fork(uint64(3_000_000 + i))
		svcSeqCase(run, r, 14+r.Intn(16))
	}
}
