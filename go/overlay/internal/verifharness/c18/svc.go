//go:build verif

package main

// Part 3 of the C18 harness: the resource service's Read, Write, WriteStatus and Delete endpoints
// (agent/grpc-external/services/resource/write.go, delete.go) on top of the real in-memory backend, under
// real concurrency. These endpoints are where "a resource's UID never changes between versions while a
// re-created resource is a distinct lifetime that stale writers and deleters cannot touch" is implemented
// (the service carries the stored Uid over on updates, mints a ULID on creation, resolves name-only
// deletes to the current lifetime) on top of the backend's CAS and of Backend.Read's uid / GroupVersion
// rules. The type under test is demo Artist, registered in two GroupVersions (v1, v2) that share one
// storage key; clients keep the ids (with uid) of every lifetime they have seen and come back with them
// later — with either GroupVersion, with and without a version; controllers write statuses (WriteStatus) on
// the lifetime they know. The Lean model of this layer (CV.ResSvc) is tied by the sequential stream in
// svcseq.go; here, under real concurrency, the monitors restate the property on the commit order seen by a
// storage-level observer watch, and every resource handed out is encoded when the call returns: a committed
// version is never modified in place (also what the race detector watches for).

import (
	"context"
	"fmt"
	"strings"
	"sync"
	"sync/atomic"
	"time"

	"github.com/hashicorp/go-hclog"
	"github.com/oklog/ulid/v2"
	"google.golang.org/grpc/codes"
	"google.golang.org/grpc/status"
	"google.golang.org/protobuf/proto"
	"google.golang.org/protobuf/types/known/anypb"

	"github.com/hashicorp/consul/acl"
	"github.com/hashicorp/consul/acl/resolver"
	svc "github.com/hashicorp/consul/agent/grpc-external/services/resource"
	"github.com/hashicorp/consul/internal/resource"
	"github.com/hashicorp/consul/internal/resource/demo"
	"github.com/hashicorp/consul/internal/storage"
	"github.com/hashicorp/consul/internal/storage/inmem"
	"github.com/hashicorp/consul/internal/verifharness/hx"
	"github.com/hashicorp/consul/proto-public/pbresource"
	pbdemov1 "github.com/hashicorp/consul/proto/private/pbdemo/v1"
	pbdemov2 "github.com/hashicorp/consul/proto/private/pbdemo/v2"
)

type aclAll struct{}

func (aclAll) ResolveTokenAndDefaultMeta(string, *acl.EnterpriseMeta, *acl.AuthorizerContext) (resolver.Result, error) {
	return resolver.Result{Authorizer: acl.ManageAll()}, nil
}

type tenancyOK struct{}

func (tenancyOK) PartitionExists(string) (bool, error)                      { return true, nil }
func (tenancyOK) IsPartitionMarkedForDeletion(string) (bool, error)         { return false, nil }
func (tenancyOK) NamespaceExists(string, string) (bool, error)              { return true, nil }
func (tenancyOK) IsNamespaceMarkedForDeletion(string, string) (bool, error) { return false, nil }

// sop is one service call and what came back.
type sop struct {
	tid       int
	kind      string // w (write), d (delete), r (read)
	name      string
	gv        string // GroupVersion the caller used
	uid       string // uid the caller put into the id ("" = by name)
	presented string // version the caller presented ("" = non-CAS)
	code      codes.Code
	res       *pbresource.Resource // write / read result
	// for name-only deletes: what the caller read right before and after
	before, after *pbresource.Resource
	digest        string // deterministic encoding of res taken when the call returned
}

func (o sop) line() string {
	r := "-"
	if o.res != nil {
		r = fmt.Sprintf("%s/%s/%s", o.res.Id.Type.GroupVersion, o.res.Id.Uid, o.res.Version)
	}
	return fmt.Sprintf("svc t%d %s %s gv=%s uid=%q vsn=%q -> %s %s", o.tid, o.kind, o.name, o.gv, o.uid, o.presented, o.code, r)
}

type svcEnv struct {
	run    *hx.Run
	srv    *svc.Server
	store  *inmem.Store
	cancel context.CancelFunc
	uniq   atomic.Int64
	mu     sync.Mutex
	ops    []sop
	obsMu  sync.Mutex
	obs    []sev
	stop   atomic.Bool
	owg    sync.WaitGroup
}

func artistType(gv string) *pbresource.Type {
	if gv == "v1" {
		return demo.TypeV1Artist
	}
	return demo.TypeV2Artist
}

func svcTenancy() *pbresource.Tenancy {
	return &pbresource.Tenancy{Partition: "default", Namespace: "default"}
}

func newSvcEnv(run *hx.Run) *svcEnv {
	be, err := inmem.NewBackend()
	if err != nil {
		panic(err)
	}
	ctx, cancel := context.WithCancel(bg)
	go be.Run(ctx)
	reg := resource.NewRegistry()
	demo.RegisterTypes(reg) // registers demo Artist as v1 and as v2 (one storage key), and more
	e := &svcEnv{run: run, cancel: cancel, store: be.VerifC18Store(),
		srv: svc.NewServer(svc.Config{Logger: hclog.NewNullLogger(), Registry: reg, Backend: be, ACLResolver: aclAll{}, TenancyBridge: tenancyOK{}})}
	ow, err := e.store.WatchList(storage.UnversionedTypeFrom(demo.TypeV2Artist), &pbresource.Tenancy{Partition: "*", Namespace: "*"}, "")
	if err != nil {
		panic(err)
	}
	e.owg.Add(1)
	go func() {
		defer e.owg.Done()
		defer ow.Close()
		for {
			if e.stop.Load() && ow.VerifC18WouldBlock() {
				return
			}
			c, cancel := context.WithTimeout(bg, 20*time.Millisecond)
			ev, err := ow.Next(c)
			cancel()
			if err != nil {
				continue
			}
			e.obsMu.Lock()
			switch {
			case ev.GetUpsert() != nil:
				e.obs = append(e.obs, sev{kind: 'u', res: ev.GetUpsert().Resource})
			case ev.GetDelete() != nil:
				e.obs = append(e.obs, sev{kind: 'x', res: ev.GetDelete().Resource})
			}
			e.obsMu.Unlock()
		}
	}()
	return e
}

func digestOf(r *pbresource.Resource) string {
	if r == nil {
		return ""
	}
	b, err := proto.MarshalOptions{Deterministic: true}.Marshal(r)
	if err != nil {
		return "marshal-error"
	}
	return string(b)
}

func (e *svcEnv) record(o sop) {
	o.digest = digestOf(o.res) // reads every field of the (possibly still stored) object: a committed version is immutable
	e.mu.Lock()
	e.ops = append(e.ops, o)
	e.mu.Unlock()
}

func (e *svcEnv) mkRes(name, gv, uid, vsn string) *pbresource.Resource {
	p := fmt.Sprint(e.uniq.Add(1))
	var data *anypb.Any
	var err error
	if gv == "v1" {
		data, err = anypb.New(&pbdemov1.Artist{Name: "artist " + p, Genre: pbdemov1.Genre_GENRE_JAZZ})
	} else {
		data, err = anypb.New(&pbdemov2.Artist{Name: "artist " + p, Genre: pbdemov2.Genre_GENRE_JAZZ})
	}
	if err != nil {
		panic(err)
	}
	return &pbresource.Resource{
		Id:       &pbresource.ID{Type: artistType(gv), Tenancy: svcTenancy(), Name: name, Uid: uid},
		Version:  vsn,
		Data:     data,
		Metadata: map[string]string{"p": p},
	}
}

func (e *svcEnv) write(tid int, name, gv, uid, vsn string) *pbresource.Resource {
	o := sop{tid: tid, kind: "w", name: name, gv: gv, uid: uid, presented: vsn}
	rsp, err := e.srv.Write(bg, &pbresource.WriteRequest{Resource: e.mkRes(name, gv, uid, vsn)})
	o.code = status.Code(err)
	if err == nil {
		o.res = rsp.Resource
	}
	e.record(o)
	return o.res
}

// rawRead does not record anything (used for the before/after of name-only deletes).
func (e *svcEnv) rawRead(name, gv, uid string) (*pbresource.Resource, codes.Code) {
	rsp, err := e.srv.Read(bg, &pbresource.ReadRequest{Id: &pbresource.ID{Type: artistType(gv), Tenancy: svcTenancy(), Name: name, Uid: uid}})
	if err != nil {
		return nil, status.Code(err)
	}
	return rsp.Resource, codes.OK
}

// writeStatus is what a controller does: it names the lifetime it reconciled (uid) and mostly no version.
func (e *svcEnv) writeStatus(tid int, name, gv, uid, vsn, gen string) *pbresource.Resource {
	o := sop{tid: tid, kind: "s", name: name, gv: gv, uid: uid, presented: vsn}
	if _, err := ulid.ParseStrict(gen); err != nil {
		gen = obsGenConst
	}
	rsp, err := e.srv.WriteStatus(bg, &pbresource.WriteStatusRequest{
		Id:  &pbresource.ID{Type: artistType(gv), Tenancy: svcTenancy(), Name: name, Uid: uid},
		Key: fmt.Sprintf("ctl%d", tid%2), Version: vsn,
		Status: &pbresource.Status{ObservedGeneration: gen, Conditions: []*pbresource.Condition{{Type: "c", State: pbresource.Condition_STATE_TRUE, Reason: "r", Message: fmt.Sprint(e.uniq.Add(1))}}}})
	o.code = status.Code(err)
	if err == nil {
		o.res = rsp.Resource
	}
	e.record(o)
	return o.res
}

func (e *svcEnv) read(tid int, name, gv, uid string) *pbresource.Resource {
	res, code := e.rawRead(name, gv, uid)
	e.record(sop{tid: tid, kind: "r", name: name, gv: gv, uid: uid, code: code, res: res})
	return res
}

func (e *svcEnv) del(tid int, name, gv, uid, vsn string) {
	o := sop{tid: tid, kind: "d", name: name, gv: gv, uid: uid, presented: vsn}
	if uid == "" && vsn == "" {
		// whatever GroupVersion is stored: try both for the bracketing reads
		if o.before, _ = e.rawRead(name, "v2", ""); o.before == nil {
			o.before, _ = e.rawRead(name, "v1", "")
		}
	}
	_, err := e.srv.Delete(bg, &pbresource.DeleteRequest{Id: &pbresource.ID{Type: artistType(gv), Tenancy: svcTenancy(), Name: name, Uid: uid}, Version: vsn})
	o.code = status.Code(err)
	if uid == "" && vsn == "" {
		if o.after, _ = e.rawRead(name, "v2", ""); o.after == nil {
			o.after, _ = e.rawRead(name, "v1", "")
		}
	}
	e.record(o)
}

// finish waits for the observer to have seen everything, then judges the history.
func (e *svcEnv) finish(label string) {
	defer e.cancel()
	run := e.run
	srsp, err := e.srv.Write(bg, &pbresource.WriteRequest{Resource: e.mkRes("zz", "v2", "", "")})
	if err != nil {
		panic(err)
	}
	seenIt := false
	for deadline := time.Now().Add(observerWait()); time.Now().Before(deadline) && !seenIt; {
		e.obsMu.Lock()
		n := len(e.obs)
		seenIt = n > 0 && e.obs[n-1].res.Id.Name == "zz" && e.obs[n-1].res.Version == srsp.Resource.Version
		e.obsMu.Unlock()
		if !seenIt {
			time.Sleep(200 * time.Microsecond)
		}
	}
	e.stop.Store(true)
	e.owg.Wait()
	if !seenIt {
		observerMisses.Add(1)
		run.Tag("svc:abandoned-observer-incomplete") // overloaded machine: no complete commit order, nothing to judge
		return
	}
	ops, obs := e.ops, e.obs

	lines := []string{"# " + label}
	for _, o := range ops {
		lines = append(lines, o.line())
		cas := "noncas"
		if o.presented != "" {
			cas = "cas"
		}
		by := "byname"
		if o.uid != "" {
			by = "byuid"
		}
		run.Tag(fmt.Sprintf("svc:%s-%s-%s-%s", o.kind, by, cas, o.code))
	}
	for _, ev := range obs {
		lines = append(lines, fmt.Sprintf("svc-commit %c %s %s/%s/%s", ev.kind, ev.res.Id.Name, ev.res.Id.Type.GroupVersion, ev.res.Id.Uid, ev.res.Version))
	}
	viol := func(sig, desc string) {
		if sigCount[sig] < 3 {
			run.Violate(sig, desc, lines)
		} else {
			run.Tag("violation:" + sig)
		}
		sigCount[sig]++
	}

	// ---- the commit order, per resource
	type cev struct {
		del               bool
		uid, vsn, gv, gen string
	}
	perKey := map[string][]cev{}
	committed := map[string]int{} // name|uid|version of an upsert -> position in perKey[name]
	for _, ev := range obs {
		n := ev.res.Id.Name
		if ev.kind == 'u' {
			committed[n+"|"+ev.res.Id.Uid+"|"+ev.res.Version] = len(perKey[n])
		}
		perKey[n] = append(perKey[n], cev{ev.kind == 'x', ev.res.Id.Uid, ev.res.Version, ev.res.Id.Type.GroupVersion, ev.res.Generation})
	}
	// live(i): the resource exists right before commit i, and with which uid
	prevLive := func(name string, i int) (bool, cev) {
		if i == 0 || perKey[name][i-1].del {
			return false, cev{}
		}
		return true, perKey[name][i-1]
	}
	uidsOf := map[string]map[string]bool{} // name -> every uid a lifetime ever had
	for name, evs := range perKey {
		uidsOf[name] = map[string]bool{}
		for i, c := range evs {
			live, p := prevLive(name, i)
			switch {
			case c.del:
				if !live || p.uid != c.uid || p.vsn != c.vsn {
					viol("svc:delete-event-not-last-version", "a delete event for "+name+" does not carry the last committed version")
				}
			case live:
				if p.uid != c.uid {
					viol("uid:changed-within-lifetime", "service layer: two successive versions of "+name+" carry different uids")
				}
			default: // a creation
				if c.uid == "" {
					viol("svc:created-without-uid", "a resource was created with an empty uid")
				}
				if uidsOf[name][c.uid] {
					viol("svc:uid-reused-across-lifetimes", "a re-created resource got the uid of an earlier lifetime")
				}
				uidsOf[name][c.uid] = true
			}
		}
	}

	// a committed version never changes: whatever was handed out for one (name, uid, version) is one value
	byVersion := map[string]string{}
	for _, o := range ops {
		if o.res == nil {
			continue
		}
		k := o.name + "|" + o.res.Id.Uid + "|" + o.res.Version
		if d, ok := byVersion[k]; ok && d != o.digest {
			viol("svc:committed-version-mutated", "two calls returned different contents for the same uid and version of "+o.name+": a stored resource was modified in place")
		}
		byVersion[k] = o.digest
	}
	for _, ev := range obs {
		k := ev.res.Id.Name + "|" + ev.res.Id.Uid + "|" + ev.res.Version
		if d, ok := byVersion[k]; ok && ev.kind == 'u' && d != digestOf(ev.res) {
			viol("svc:committed-version-mutated", "the committed event of a version of "+ev.res.Id.Name+" differs from what the calls returned for it: a stored resource was modified in place")
		}
	}

	nOK := 0
	casOK := map[string]int{}
	for _, o := range ops {
		switch o.kind {
		case "w", "s":
			if o.code != codes.OK {
				continue
			}
			nOK++
			i, ok := committed[o.name+"|"+o.res.Id.Uid+"|"+o.res.Version]
			if !ok {
				viol("svc:write-ok-not-committed", "Write returned a resource version that was never committed")
				continue
			}
			live, p := prevLive(o.name, i)
			// stale writers: a write that names the uid of one lifetime must never land on another lifetime
			if o.uid != "" && live && p.uid != o.uid {
				viol("uid:stale-writer-wrote", fmt.Sprintf(
					"service layer: a write carrying uid %s (GroupVersion %s, presented version %q) overwrote the resource of the lifetime with uid %s",
					o.uid, o.gv, o.presented, p.uid))
			}
			if o.uid != "" && o.res.Id.Uid != o.uid && uidsOf[o.name][o.uid] && live {
				// (same shape seen from the response: the caller asked for one lifetime and was answered with another)
				run.Tag("svc:write-answered-with-other-lifetime")
			}
			if o.presented != "" {
				casOK[o.name+"|"+o.presented]++
				if !live || p.vsn != o.presented {
					viol("svc:cas-write-not-on-presented-version", "a CAS write committed although the presented version was not the current one")
				}
			}
		case "r":
			if o.res == nil {
				continue
			}
			if _, ok := committed[o.name+"|"+o.res.Id.Uid+"|"+o.res.Version]; !ok {
				viol("svc:read-never-written", "Read returned a resource version that was never committed")
			}
			if o.uid != "" && o.res.Id.Uid != o.uid {
				viol("uid:stale-reader-saw", fmt.Sprintf("service layer: a read carrying uid %s (GroupVersion %s) returned the resource of the lifetime with uid %s", o.uid, o.gv, o.res.Id.Uid))
			}
		case "d":
			if o.code == codes.OK && o.uid == "" && o.presented == "" && o.before != nil && o.after != nil &&
				o.before.Id.Uid == o.after.Id.Uid && o.before.Version == o.after.Version {
				viol("svc:delete-lost", "Delete by name returned OK although the same version of the resource was there before and after the call")
			}
		}
	}
	// stale deleters: every delete event must be explained by a successful delete that named that lifetime
	// (or none: by name), with that version (or none)
	for name, evs := range perKey {
		for _, c := range evs {
			if !c.del {
				continue
			}
			explained := false
			for _, o := range ops {
				if o.kind == "d" && o.code == codes.OK && o.name == name && (o.uid == "" || o.uid == c.uid) && (o.presented == "" || o.presented == c.vsn) {
					explained = true
					break
				}
			}
			if !explained {
				viol("uid:stale-deleter-deleted", "service layer: "+name+" (uid "+c.uid+", version "+c.vsn+") was deleted although no successful delete named that lifetime and version")
			}
		}
	}
	nUp := 0
	for _, ev := range obs {
		if ev.kind == 'u' && ev.res.Id.Name != "zz" {
			nUp++
		}
	}
	if nUp != nOK {
		viol("svc:commit-without-successful-write", fmt.Sprintf("%d upsert commits but %d successful writes", nUp, nOK))
	}
	// at most one commit per presented version: one successful CAS write, and then no delete of that version
	for k, n := range casOK {
		name, vsn, _ := strings.Cut(k, "|")
		if n > 1 {
			viol("svc:two-successes-same-version", "two CAS writes presenting the same version of "+name+" succeeded")
		}
		for _, c := range perKey[name] {
			if c.del && c.vsn == vsn {
				viol("svc:two-successes-same-version", "a CAS write and a delete both committed on the same version of "+name)
			}
		}
	}
	run.Case(strings.Join(lines, "\n"), len(obs) > 2)
}

// serviceWitness is the deterministic shape "create, delete, re-create, then the holder of the first
// lifetime's id comes back" — with the other GroupVersion and with the same one, as non-CAS write, CAS
// write, read, delete. On a correct tree none of them touches or sees the second lifetime.
func serviceWitness(run *hx.Run) {
	for _, gvs := range [][2]string{{"v2", "v1"}, {"v1", "v2"}, {"v2", "v2"}} {
		stored, other := gvs[0], gvs[1]
		e := newSvcEnv(run)
		first := e.write(0, "a", stored, "", "")
		if first == nil {
			panic("service witness: creation failed")
		}
		e.del(0, "a", stored, first.Id.Uid, first.Version)
		second := e.write(0, "a", stored, "", "")
		if second == nil {
			panic("service witness: re-creation failed")
		}
		// the stale client (tid 1)
		e.read(1, "a", other, first.Id.Uid)
		e.write(1, "a", other, first.Id.Uid, "")             // non-CAS
		e.write(1, "a", other, first.Id.Uid, first.Version)   // CAS with its old version
		e.write(1, "a", other, first.Id.Uid, second.Version)  // CAS with a guessed current version
		e.del(1, "a", other, first.Id.Uid, first.Version)
		e.del(1, "a", other, first.Id.Uid, second.Version)
		e.read(0, "a", stored, second.Id.Uid)
		run.Tag("case:service-witness-stale-client-" + stored + "-vs-" + other)
		e.finish("service witness: stale client of a deleted lifetime, stored " + stored + ", client speaks " + other)
	}
}

func serviceHistory(run *hx.Run, r *hx.RNG) {
	e := newSvcEnv(run)
	names := []string{"a", "b"}[:1+r.Intn(2)]
	nThreads := 2 + r.Intn(3)
	perThread := 5 + r.Intn(6)
	run.Tag(fmt.Sprintf("svc:threads=%d", nThreads))

	var wg sync.WaitGroup
	start := make(chan struct{})
	for t := 0; t < nThreads; t++ {
		tr := r.Fork(uint64(t + 1))
		tid := t
		wg.Add(1)
		go func() {
			defer wg.Done()
			<-start
			// every id (with uid and version) this client has ever been handed, per name: it may come back
			// with any of them later, long after that lifetime is gone
			held := map[string][]*pbresource.Resource{}
			learn := func(res *pbresource.Resource) {
				if res != nil {
					held[res.Id.Name] = append(held[res.Id.Name], res)
				}
			}
			pick := func(name string) *pbresource.Resource {
				h := held[name]
				if len(h) == 0 {
					return nil
				}
				if tr.Chance(55) {
					return h[len(h)-1] // the latest it knows
				}
				return hx.Pick(tr, h) // possibly a lifetime that no longer exists
			}
			for i := 0; i < perThread; i++ {
				name := hx.Pick(tr, names)
				gv := hx.Pick(tr, []string{"v1", "v2"})
				known := pick(name)
				if known != nil && tr.Chance(60) {
					gv = known.Id.Type.GroupVersion // mostly speak the GroupVersion it was handed
				}
				uid, vsn := "", ""
				if known != nil {
					uid, vsn = known.Id.Uid, known.Version
					if tr.Chance(8) {
						uid = nearUid(tr, uid) // e.g. the lower-cased ULID
						if uid == "" || !isValidUTF8NoCtl(uid) {
							uid = strings.ToLower(known.Id.Uid)
						}
					}
				}
				if known != nil && tr.Chance(14) { // a controller reports on the lifetime it knows
					sv := ""
					if tr.Chance(30) {
						sv = vsn
					}
					learn(e.writeStatus(tid, name, gv, uid, sv, known.Generation))
					continue
				}
				switch n := tr.Intn(100); {
				case n < 22: // user write: by name, non-CAS
					learn(e.write(tid, name, gv, "", ""))
				case n < 36: // controller-style non-CAS write: by uid
					learn(e.write(tid, name, gv, uid, ""))
				case n < 48: // CAS write by uid
					learn(e.write(tid, name, gv, uid, vsn))
				case n < 54: // CAS write by name
					learn(e.write(tid, name, gv, "", vsn))
				case n < 64: // delete by name
					e.del(tid, name, gv, "", "")
				case n < 74: // CAS delete of the lifetime it knows
					e.del(tid, name, gv, uid, vsn)
				case n < 80: // non-CAS delete of the lifetime it knows
					e.del(tid, name, gv, uid, "")
				case n < 90: // read by name
					learn(e.read(tid, name, gv, ""))
				default: // read by uid
					learn(e.read(tid, name, gv, uid))
				}
			}
		}()
	}
	close(start)
	if !waitOrStuck(&wg, 60*time.Second) {
		run.Violate("deadlock:unclassified", "the goroutines of a service-level history did not return within 60 s", nil)
		e.stop.Store(true)
		e.cancel()
		return
	}
	e.finish("service history")
}

func isValidUTF8NoCtl(s string) bool {
	for _, c := range s {
		if c < 0x20 || c == 0xFFFD {
			return false
		}
	}
	return true
}

func servicePart(run *hx.Run) {
	serviceWitness(run)
	n := run.Scale(60, 300)
	for i := 0; i < n; i++ {
		serviceHistory(run, run.RNG.Fork(uint64(2_000_000+i)))
	}
}
