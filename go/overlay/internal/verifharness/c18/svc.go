//go:build verif

package main

// Part 3 of the C18 harness: the resource service's Write and Delete endpoints
// (agent/grpc-external/services/resource/write.go, delete.go) on top of the real in-memory backend, under
// real concurrency. These endpoints are where "a resource's UID never changes between versions while a
// re-created resource is a distinct lifetime" is implemented (the service carries the stored Uid over on
// updates, mints a ULID on creation, resolves name-only deletes to the current lifetime) on top of the
// backend's CAS. There is no Lean model of this layer: the monitors below restate the property on the
// commit order seen by a storage-level observer watch.

import (
	"context"
	"fmt"
	"strings"
	"sync"
	"sync/atomic"
	"time"

	"github.com/hashicorp/go-hclog"
	"google.golang.org/grpc/codes"
	"google.golang.org/grpc/status"

	"github.com/hashicorp/consul/acl"
	"github.com/hashicorp/consul/acl/resolver"
	svc "github.com/hashicorp/consul/agent/grpc-external/services/resource"
	"github.com/hashicorp/consul/internal/resource"
	"github.com/hashicorp/consul/internal/resource/demo"
	"github.com/hashicorp/consul/internal/storage"
	"github.com/hashicorp/consul/internal/storage/inmem"
	"github.com/hashicorp/consul/internal/verifharness/hx"
	"github.com/hashicorp/consul/proto-public/pbresource"
)

type aclAll struct{}

func (aclAll) ResolveTokenAndDefaultMeta(string, *acl.EnterpriseMeta, *acl.AuthorizerContext) (resolver.Result, error) {
	return resolver.Result{Authorizer: acl.ManageAll()}, nil
}

type tenancyOK struct{}

func (tenancyOK) PartitionExists(string) (bool, error)                    { return true, nil }
func (tenancyOK) IsPartitionMarkedForDeletion(string) (bool, error)       { return false, nil }
func (tenancyOK) NamespaceExists(string, string) (bool, error)            { return true, nil }
func (tenancyOK) IsNamespaceMarkedForDeletion(string, string) (bool, error) { return false, nil }

type sop struct {
	tid       int
	kind      string // uw (user write), cw (cas write), ud (user delete), cd (cas delete), r
	name      string
	presented string // explicit version (cw, cd)
	uid       string // explicit uid (cw, cd)
	code      codes.Code
	res       *pbresource.Resource // write result / read result
	// read–delete–read pattern (ud only)
	before, after *pbresource.Resource
}

func (o sop) line() string {
	r := "-"
	if o.res != nil {
		r = fmt.Sprintf("%s/%s", o.res.Id.Uid, o.res.Version)
	}
	return fmt.Sprintf("svc t%d %s %s uid=%q vsn=%q -> %s %s", o.tid, o.kind, o.name, o.uid, o.presented, o.code, r)
}

func serviceHistory(run *hx.Run, r *hx.RNG) {
	be, err := inmem.NewBackend()
	if err != nil {
		panic(err)
	}
	ctx, cancel := context.WithCancel(bg)
	defer cancel()
	go be.Run(ctx)
	reg := resource.NewRegistry()
	demo.RegisterTypes(reg)
	srv := svc.NewServer(svc.Config{Logger: hclog.NewNullLogger(), Registry: reg, Backend: be, ACLResolver: aclAll{}, TenancyBridge: tenancyOK{}})
	store := be.VerifC18Store()
	typ := demo.TypeV1Concept
	ten := func() *pbresource.Tenancy { return &pbresource.Tenancy{Partition: "default", Namespace: "default"} }

	// observer: commit order of the type under test
	var obsMu sync.Mutex
	var obs []sev
	var stop atomic.Bool
	ow, err := store.WatchList(storage.UnversionedTypeFrom(typ), &pbresource.Tenancy{Partition: "*", Namespace: "*"}, "")
	if err != nil {
		panic(err)
	}
	var owg sync.WaitGroup
	owg.Add(1)
	go func() {
		defer owg.Done()
		defer ow.Close()
		for {
			if stop.Load() && ow.VerifC18WouldBlock() {
				return
			}
			c, cancel := context.WithTimeout(bg, 20*time.Millisecond)
			ev, err := ow.Next(c)
			cancel()
			if err != nil {
				continue
			}
			obsMu.Lock()
			switch {
			case ev.GetUpsert() != nil:
				obs = append(obs, sev{kind: 'u', res: ev.GetUpsert().Resource})
			case ev.GetDelete() != nil:
				obs = append(obs, sev{kind: 'x', res: ev.GetDelete().Resource})
			}
			obsMu.Unlock()
		}
	}()

	var mu sync.Mutex
	var ops []sop
	var uniq atomic.Int64
	names := []string{"a", "b"}[:1+r.Intn(2)]
	nThreads := 2 + r.Intn(3)
	perThread := 4 + r.Intn(5)
	run.Tag(fmt.Sprintf("svc:threads=%d", nThreads))

	mkRes := func(name string) *pbresource.Resource {
		return &pbresource.Resource{
			Id:       &pbresource.ID{Type: typ, Tenancy: ten(), Name: name},
			Metadata: map[string]string{"p": fmt.Sprint(uniq.Add(1))},
		}
	}
	read := func(name string) *pbresource.Resource {
		rsp, err := srv.Read(bg, &pbresource.ReadRequest{Id: &pbresource.ID{Type: typ, Tenancy: ten(), Name: name}})
		if err != nil {
			return nil
		}
		return rsp.Resource
	}
	var wg sync.WaitGroup
	start := make(chan struct{})
	for t := 0; t < nThreads; t++ {
		tr := r.Fork(uint64(t + 1))
		tid := t
		wg.Add(1)
		go func() {
			defer wg.Done()
			<-start
			seen := map[string]*pbresource.Resource{}
			for i := 0; i < perThread; i++ {
				name := hx.Pick(tr, names)
				o := sop{tid: tid, name: name}
				switch n := tr.Intn(100); {
				case n < 30:
					o.kind = "uw"
					rsp, err := srv.Write(bg, &pbresource.WriteRequest{Resource: mkRes(name)})
					o.code = status.Code(err)
					if err == nil {
						o.res = rsp.Resource
						seen[name] = rsp.Resource
					}
				case n < 50:
					o.kind = "cw"
					res := mkRes(name)
					if s := seen[name]; s != nil {
						res.Version = s.Version
						if tr.Chance(60) {
							res.Id.Uid = s.Id.Uid
						}
					} else {
						res.Version = "1"
					}
					o.presented, o.uid = res.Version, res.Id.Uid
					rsp, err := srv.Write(bg, &pbresource.WriteRequest{Resource: res})
					o.code = status.Code(err)
					if err == nil {
						o.res = rsp.Resource
						seen[name] = rsp.Resource
					}
				case n < 65:
					o.kind = "ud"
					o.before = read(name)
					_, err := srv.Delete(bg, &pbresource.DeleteRequest{Id: &pbresource.ID{Type: typ, Tenancy: ten(), Name: name}})
					o.code = status.Code(err)
					o.after = read(name)
				case n < 78:
					o.kind = "cd"
					id := &pbresource.ID{Type: typ, Tenancy: ten(), Name: name}
					v := "1"
					if s := seen[name]; s != nil {
						id.Uid, v = s.Id.Uid, s.Version
					}
					o.presented, o.uid = v, id.Uid
					_, err := srv.Delete(bg, &pbresource.DeleteRequest{Id: id, Version: v})
					o.code = status.Code(err)
				default:
					o.kind = "r"
					o.res = read(name)
					if o.res != nil {
						seen[name] = o.res
					}
				}
				mu.Lock()
				ops = append(ops, o)
				mu.Unlock()
			}
		}()
	}
	close(start)
	if !waitOrStuck(&wg, 60*time.Second) {
		run.Violate("deadlock:unclassified", "the goroutines of a service-level history did not return within 60 s", nil)
		stop.Store(true)
		return
	}
	// sentinel through the service, then wait for the observer to see it
	srsp, err := srv.Write(bg, &pbresource.WriteRequest{Resource: mkRes("zz")})
	if err != nil {
		panic(err)
	}
	seenIt := false
	for deadline := time.Now().Add(10 * time.Second); time.Now().Before(deadline) && !seenIt; {
		obsMu.Lock()
		seenIt = len(obs) > 0 && obs[len(obs)-1].res.Id.Name == "zz" && obs[len(obs)-1].res.Version == srsp.Resource.Version
		obsMu.Unlock()
		if !seenIt {
			time.Sleep(200 * time.Microsecond)
		}
	}
	stop.Store(true)
	owg.Wait()
	if !seenIt {
		run.Tag("svc:abandoned-observer-incomplete") // overloaded machine: no complete commit order, nothing to judge
		return
	}

	var lines []string
	for _, o := range ops {
		lines = append(lines, o.line())
		run.Tag("svc:" + o.kind + "-" + o.code.String())
	}
	for _, e := range obs {
		lines = append(lines, fmt.Sprintf("svc-commit %c %s %s/%s", e.kind, e.res.Id.Name, e.res.Id.Uid, e.res.Version))
	}
	viol := func(sig, desc string) {
		if sigCount[sig] < 3 {
			run.Violate(sig, desc, lines)
		} else {
			run.Tag("violation:" + sig)
		}
		sigCount[sig]++
	}

	// ---- monitors on the commit order
	type ev struct {
		del      bool
		uid, vsn string
	}
	perKey := map[string][]ev{}
	committed := map[string]bool{} // name|uid|version of every upsert
	for _, e := range obs {
		perKey[e.res.Id.Name] = append(perKey[e.res.Id.Name], ev{e.kind == 'x', e.res.Id.Uid, e.res.Version})
		if e.kind == 'u' {
			committed[e.res.Id.Name+"|"+e.res.Id.Uid+"|"+e.res.Version] = true
		}
	}
	for name, evs := range perKey {
		usedUids := map[string]bool{}
		var prev *ev
		for i := range evs {
			e := evs[i]
			switch {
			case e.del:
				if prev == nil || prev.del || prev.uid != e.uid || prev.vsn != e.vsn {
					viol("svc:delete-event-not-last-version", "a delete event for "+name+" does not carry the last committed version")
				}
			case prev != nil && !prev.del:
				if prev.uid != e.uid {
					viol("svc:uid-changed-within-lifetime", "two successive versions of "+name+" carry different uids")
				}
			default: // a creation
				if e.uid == "" {
					viol("svc:created-without-uid", "a resource was created with an empty uid")
				}
				if usedUids[e.uid] {
					viol("svc:uid-reused-across-lifetimes", "a re-created resource got the uid of an earlier lifetime")
				}
				usedUids[e.uid] = true
			}
			prev = &evs[i]
		}
	}
	// every successful write is a commit; every commit comes from a successful write
	nOK := 0
	cas := map[string]int{}
	for _, o := range ops {
		if (o.kind == "uw" || o.kind == "cw") && o.code == codes.OK {
			nOK++
			if !committed[o.name+"|"+o.res.Id.Uid+"|"+o.res.Version] {
				viol("svc:write-ok-not-committed", "Write returned a resource version that was never committed")
			}
		}
		if o.kind == "cw" && o.code == codes.OK {
			cas[o.name+"|"+o.presented]++
			// the commit must sit right after the version it presented, in the same lifetime
			evs := perKey[o.name]
			for i, e := range evs {
				if !e.del && e.uid == o.res.Id.Uid && e.vsn == o.res.Version {
					if i == 0 || evs[i-1].del || evs[i-1].vsn != o.presented {
						viol("svc:cas-write-not-on-presented-version", "a CAS write committed although the presented version was not the current one")
					}
					if o.uid != "" && o.uid != e.uid {
						viol("svc:stale-uid-write-succeeded", "a write carrying the uid of another lifetime succeeded")
					}
				}
			}
		}
		if o.kind == "r" && o.res != nil && !committed[o.name+"|"+o.res.Id.Uid+"|"+o.res.Version] {
			viol("svc:read-never-written", "Read returned a resource version that was never committed")
		}
		if o.kind == "ud" && o.code == codes.OK && o.before != nil && o.after != nil &&
			o.before.Id.Uid == o.after.Id.Uid && o.before.Version == o.after.Version {
			viol("svc:delete-lost", "Delete by name returned OK although the same version of the resource was there before and after the call")
		}
	}
	nUp := 0
	for _, e := range obs {
		if e.kind == 'u' && e.res.Id.Name != "zz" {
			nUp++
		}
	}
	if nUp != nOK {
		viol("svc:commit-without-successful-write", fmt.Sprintf("%d upsert commits but %d successful writes", nUp, nOK))
	}
	// at most one commit per presented version: one successful CAS write, and then no delete of that version
	for k, n := range cas {
		name, vsn, _ := strings.Cut(k, "|")
		if n > 1 {
			viol("svc:two-successes-same-version", "two CAS writes presenting the same version of "+name+" succeeded")
		}
		for _, e := range perKey[name] {
			if e.del && e.vsn == vsn {
				viol("svc:two-successes-same-version", "a CAS write and a delete both committed on the same version of "+name)
			}
		}
	}
	run.Case(strings.Join(lines, "\n"), len(obs) > 2)
}

func servicePart(run *hx.Run) {
	n := run.Scale(40, 300)
	for i := 0; i < n; i++ {
		serviceHistory(run, run.RNG.Fork(uint64(2_000_000+i)))
	}
}
