//go:build verif

// C18 harness: the generic resource store (internal/storage/inmem, internal/storage/raft).
//
// Part 1 (this file, "controlled" cases): one goroutine drives the REAL inmem.Backend / inmem.Store
// (or raft.Backend through Apply, the path the FSM uses) with write-CAS, delete-CAS, read, list,
// list-by-owner, watch open/next/close, snapshot and restore. The EventPublisher goroutine is NOT
// started: the harness performs its iterations itself ("pump", through an export shim), so the lag
// between commit and dispatch — the only asynchronous part of the store — is an explicit, replayable
// operation. Every operation and the implementation's canonical answer are written as one protocol line
// for the Lean model (CV.Res) to reproduce.
//
// Part 4 (svcseq.go): the resource service layer driven sequentially over an interposing backend that commits
// scheduled foreign operations in front of every backend mutation of a service call; compared line by line with
// CV.ResSvc.
//
// Part 2 (conc.go, "concurrent" cases): 2–6 goroutines hammer the real store with the real publisher
// goroutine running, built with -race; the recorded history is checked for linearizability by the Lean
// model (CV.ResLin) and every watcher's stream is checked against the linearization.
//
// Monitors (model independent) restate the property on what the implementation returned: at most one
// committed write/delete per (resource, presented version); UID constant within a lifetime; stale
// uid-qualified writers / deleters / readers never touch or see a re-created resource; lists are exactly
// the committed resources; a watcher gets exactly the listing, EndOfSnapshot, then every later matching
// commit once and in commit order; a read after an event is not older than the event.
package main

import (
	"context"
	"errors"
	"fmt"
	"os"
	"sort"
	"strconv"
	"strings"
	"time"

	"github.com/hashicorp/go-hclog"
	"google.golang.org/grpc"
	"google.golang.org/protobuf/proto"

	"github.com/hashicorp/consul/agent/consul/stream"
	"github.com/hashicorp/consul/internal/storage"
	"github.com/hashicorp/consul/internal/storage/inmem"
	"github.com/hashicorp/consul/internal/storage/raft"
	"github.com/hashicorp/consul/internal/verifharness/hx"
	"github.com/hashicorp/consul/proto-public/pbresource"
	"github.com/hashicorp/consul/proto/private/pbstorage"
)

// ---------------------------------------------------------------- encoders

func encID(id *pbresource.ID) string {
	return strings.Join([]string{hx.EncS(id.Type.Group), hx.EncS(id.Type.GroupVersion), hx.EncS(id.Type.Kind),
		hx.EncS(id.Tenancy.Partition), hx.EncS(id.Tenancy.Namespace), hx.EncS(id.Name), hx.EncS(id.Uid)}, ";")
}

func dataOf(r *pbresource.Resource) int {
	n, err := strconv.Atoi(r.Generation)
	if err != nil || n < 0 {
		return 0
	}
	return n
}

func encRes(r *pbresource.Resource) string {
	o := "-"
	if r.Owner != nil {
		o = encID(r.Owner)
	}
	return strings.Join([]string{encID(r.Id), o, hx.EncS(r.Version), strconv.Itoa(dataOf(r))}, "|")
}

func encRows(rs []*pbresource.Resource) string {
	t := make([]string, len(rs))
	for i, r := range rs {
		t[i] = encRes(r)
	}
	return hx.EncList(t)
}

type query struct{ g, k, part, ns, pfx string }

func (q query) enc() string {
	return strings.Join([]string{hx.EncS(q.g), hx.EncS(q.k), hx.EncS(q.part), hx.EncS(q.ns), hx.EncS(q.pfx)}, ";")
}
func (q query) typ() storage.UnversionedType { return storage.UnversionedType{Group: q.g, Kind: q.k} }
func (q query) ten() *pbresource.Tenancy {
	return &pbresource.Tenancy{Partition: q.part, Namespace: q.ns}
}
func (q query) wild() bool { return q.part == storage.Wildcard || q.ns == storage.Wildcard }

// matches restates what a list / watch with this query is meant to return (independent of schema.go).
func (q query) matches(r *pbresource.Resource) bool {
	if r.Id.Type.Group != q.g || r.Id.Type.Kind != q.k {
		return false
	}
	if q.part != storage.Wildcard && r.Id.Tenancy.Partition != q.part {
		return false
	}
	if q.ns != storage.Wildcard && r.Id.Tenancy.Namespace != q.ns {
		return false
	}
	return strings.HasPrefix(r.Id.Name, q.pfx)
}

// subject the watch is served from (one snapshot cache / topic buffer per subject).
func (q query) subject() string {
	if q.wild() {
		return q.g + "\x00" + q.k + "\x00*"
	}
	return q.g + "\x00" + q.k + "\x00" + q.part + "\x00" + q.ns
}

// resKey is the identity of a resource at the storage layer (everything but Uid and GroupVersion).
func resKey(id *pbresource.ID) string {
	return id.Type.Group + "\x00" + id.Type.Kind + "\x00" + id.Tenancy.Partition + "\x00" + id.Tenancy.Namespace + "\x00" + id.Name + "\x00"
}

func evKey(r *pbresource.Resource, del bool) string {
	return resKey(r.Id) + "|" + r.Id.Uid + "|" + r.Version + "|" + r.Generation + "|" + strconv.FormatBool(del)
}

func errEnum(err error) string {
	switch {
	case err == nil:
		return "ok"
	case errors.Is(err, storage.ErrCASFailure):
		return "cas"
	case errors.Is(err, storage.ErrWrongUid):
		return "wronguid"
	case errors.Is(err, storage.ErrNotFound):
		return "notfound"
	case errors.Is(err, storage.ErrWatchClosed):
		return "closed"
	}
	return "err"
}

func clone[T proto.Message](v T) T { return proto.Clone(v).(T) }

// ---------------------------------------------------------------- the implementation under test

type subjRec struct {
	refs     int
	valid    bool // a cached snapshot exists
	snapSeq  int
	epoch    int
	snapList []*pbresource.Resource // listing for the subject (no name prefix) when the snapshot was made
}

type watchRec struct {
	w         *inmem.Watch
	q         query
	subj      string
	snapSeq   int
	snapEpoch int
	exp       []*pbresource.Resource // what the snapshot must deliver, in order
	expPos    int
	eos       bool
	lastSeq   int // newest in-order commit delivered
	lastStale int
	released  bool
	dead      bool // Next returned closed / unsub
}

type commit struct {
	seq   int
	res   *pbresource.Resource
	del   bool
	epoch int
}

type world struct {
	run   *hx.Run
	rng   *hx.RNG
	mode  string // "inmem" | "raft"
	be    *inmem.Backend
	rb    *raft.Backend
	lh    *leaderHandle
	store *inmem.Store
	pub   *stream.EventPublisher

	watches []*watchRec
	raftIdx uint64
	snaps   [][]*pbresource.Resource
	ops     []string
	queued  int
	freshN  int
	uniq    int // payload counter: every written / restored resource is distinguishable

	// monitor state (a map-based picture built only from what the implementation returned)
	seq       int
	epoch     int
	commits   []commit
	evSeqs    map[string][]int
	present   map[string]*pbresource.Resource
	cas       map[string]int
	subjs     map[string]*subjRec
	tags      map[string]bool
	violated  map[string]bool
	weird     bool // the case uses names containing NUL (storage keys may collide)
}

var bg = context.Background()

// leaderHandle is the raft.Handle of a single-node "cluster": Apply runs the FSM path (Backend.Apply) synchronously
// at the Raft index the harness chose, so raft.Backend's own WriteCAS / DeleteCAS / Read / List (raftApply,
// leaderRead, leaderList, ensureStrongConsistency) are on the path, not only Apply.
type leaderHandle struct {
	w            *world
	inconsistent bool
	applies      int
}

func (h *leaderHandle) Apply(msg []byte) (any, error) {
	h.applies++
	rsp := h.w.rb.Apply(msg, h.w.raftIdx)
	if err, ok := rsp.(error); ok {
		return nil, err
	}
	return rsp, nil
}
func (h *leaderHandle) IsLeader() bool { return true }
func (h *leaderHandle) EnsureStrongConsistency(context.Context) error {
	if h.inconsistent {
		return errors.New("verif: leadership not verified")
	}
	return nil
}
func (h *leaderHandle) DialLeader() (*grpc.ClientConn, error) {
	return nil, errors.New("verif: the leader does not dial itself")
}

func newWorld(run *hx.Run, rng *hx.RNG, mode string) *world {
	w := &world{run: run, rng: rng, mode: mode, evSeqs: map[string][]int{}, present: map[string]*pbresource.Resource{},
		cas: map[string]int{}, subjs: map[string]*subjRec{}, tags: map[string]bool{}, violated: map[string]bool{}}
	var err error
	if mode == "raft" {
		w.lh = &leaderHandle{w: w}
		w.rb, err = raft.NewBackend(w.lh, hclog.NewNullLogger())
		if err != nil {
			panic(err)
		}
		w.store = w.rb.VerifC18Store()
		w.raftIdx = 10
	} else {
		w.be, err = inmem.NewBackend()
		if err != nil {
			panic(err)
		}
		w.store = w.be.VerifC18Store()
	}
	w.pub = w.store.VerifC18Pub()
	w.line("new", "ok")
	return w
}

func (w *world) line(op, out string) {
	w.ops = append(w.ops, op)
	w.run.Line(op, out)
}

func (w *world) tag(t string) {
	w.tags[t] = true
	w.run.Tag(t)
}

func (w *world) violate(sig, desc string) {
	if w.violated[sig] {
		return
	}
	w.violated[sig] = true
	// hx keeps the first 50 violations of a run: keep room for every signature
	if sigCount[sig] < 3 {
		w.run.Violate(sig, desc, append([]string(nil), w.ops...))
	} else {
		w.run.Tag("violation:" + sig)
	}
	sigCount[sig]++
}

var sigCount = map[string]int{}

// peek reads the stored resource with this storage key regardless of uid / group version (not logged).
func (w *world) peek(id *pbresource.ID) *pbresource.Resource {
	i := clone(id)
	i.Uid = ""
	r, err := w.store.Read(i)
	var mm storage.GroupVersionMismatchError
	switch {
	case err == nil:
		return r
	case errors.As(err, &mm):
		return mm.Stored
	}
	return nil
}

func (w *world) recordCommit(r *pbresource.Resource, del bool) {
	w.seq++
	c := commit{seq: w.seq, res: clone(r), del: del, epoch: w.epoch}
	w.commits = append(w.commits, c)
	w.evSeqs[evKey(r, del)] = append(w.evSeqs[evKey(r, del)], w.seq)
	if del {
		delete(w.present, resKey(r.Id))
	} else {
		w.present[resKey(r.Id)] = c.res
	}
	w.queued++
}

// ---- writes

// monWrite restates CAS / UID rules for one write on before/after observations.
func (w *world) monWrite(res *pbresource.Resource, presented string, result string, stored *pbresource.Resource, before, after *pbresource.Resource) {
	k := resKey(res.Id)
	if result == "ok" {
		if before == nil && presented != "" {
			w.violate("cas:create-with-version", "a write presenting a version succeeded although the resource did not exist")
		}
		if before != nil && presented != before.Version {
			w.violate("cas:write-wrong-version", fmt.Sprintf("write presenting %q succeeded, stored version was %q", presented, before.Version))
		}
		if before != nil && before.Id.Uid != res.Id.Uid {
			w.violate("uid:stale-writer-succeeded", "a write with another uid than the stored one succeeded")
		}
		if after == nil || !proto.Equal(after, stored) {
			w.violate("cas:write-not-visible", "a successful write is not what a read returns afterwards")
		}
		if before != nil && after != nil && before.Id.Uid != after.Id.Uid {
			w.violate("uid:changed-by-write", "the uid of an existing resource changed across a write")
		}
		if presented != "" {
			ck := fmt.Sprintf("%d|%s|%s", w.epoch, k, presented)
			w.cas[ck]++
			if w.cas[ck] > 1 {
				w.violate("cas:two-successes-same-version", "two committed operations presented the same version of one resource")
			}
		}
		w.recordCommit(stored, false)
		if before == nil {
			w.tag("write:create-ok")
		} else {
			w.tag("write:update-ok")
		}
		return
	}
	if !proto.Equal(before, after) && !(before == nil && after == nil) {
		w.violate("cas:failed-write-changed-state", "a rejected write changed the stored resource")
	}
	switch {
	case result == "cas" && before == nil:
		w.tag("write:cas-absent")
	case result == "cas":
		w.tag("write:cas-mismatch")
	case result == "wronguid":
		w.tag("write:wronguid")
		if before == nil || before.Id.Uid == res.Id.Uid {
			w.violate("uid:wronguid-without-cause", "ErrWrongUid although the stored uid is the same / nothing is stored")
		}
	default:
		w.violate("write:unexpected-error", "unexpected error class from WriteCAS: "+result)
	}
	// a rejected write is fine iff there was a reason to reject it
	if result == "cas" && ((before == nil && presented == "") || (before != nil && before.Id.Uid == res.Id.Uid && before.Version == presented)) {
		w.violate("cas:spurious-failure", "CAS failure although the presented version is the stored one")
	}
}

func (w *world) opWrite(res *pbresource.Resource) {
	before := w.peek(res.Id)
	var stored *pbresource.Resource
	var err error
	var op string
	if w.mode == "raft" {
		w.raftIdx += uint64(1 + w.rng.Intn(3))
		op = fmt.Sprintf("rw %d %s", w.raftIdx, encRes(res))
		if w.rng.Chance(50) { // through raft.Backend.WriteCAS -> raftApply -> Handle.Apply -> Backend.Apply
			n0 := w.lh.applies
			stored, err = w.rb.WriteCAS(bg, clone(res))
			w.tag("raft:write-through-backend")
			if w.lh.applies != n0+1 {
				w.violate("raft:write-not-through-log", "raft.Backend.WriteCAS did not go through exactly one Raft apply")
			}
		} else {
			stored, err = w.raftApplyWrite(clone(res), w.raftIdx)
		}
		if isRetired(res.Id.Type) {
			w.tag("raft:retired-type-skipped")
			out := "ok " + encRes(stored)
			w.line(op, out)
			if after := w.peek(res.Id); !proto.Equal(before, after) && !(before == nil && after == nil) {
				w.violate("raft:retired-type-stored", "a write of a retired type changed the store")
			}
			return
		}
	} else {
		op = "w " + encRes(res)
		stored, err = w.be.WriteCAS(bg, clone(res))
	}
	result := errEnum(err)
	out := result
	if err == nil {
		out = "ok " + encRes(stored)
	}
	w.line(op, out)
	w.monWrite(res, res.Version, result, stored, before, w.peek(res.Id))
}

func (w *world) raftApplyWrite(res *pbresource.Resource, idx uint64) (*pbresource.Resource, error) {
	buf, err := (&pbstorage.Log{Type: pbstorage.LogType_LOG_TYPE_WRITE,
		Request: &pbstorage.Log_Write{Write: &pbstorage.WriteRequest{Resource: res}}}).MarshalBinary()
	if err != nil {
		panic(err)
	}
	switch t := w.rb.Apply(buf, idx).(type) {
	case error:
		return nil, t
	case *pbstorage.LogResponse:
		return t.GetWrite().GetResource(), nil
	default:
		panic(fmt.Sprintf("unexpected Apply response %T", t))
	}
}

func (w *world) raftApplyDelete(id *pbresource.ID, vsn string, idx uint64) error {
	buf, err := (&pbstorage.Log{Type: pbstorage.LogType_LOG_TYPE_DELETE,
		Request: &pbstorage.Log_Delete{Delete: &pbstorage.DeleteRequest{Id: id, Version: vsn}}}).MarshalBinary()
	if err != nil {
		panic(err)
	}
	switch t := w.rb.Apply(buf, idx).(type) {
	case error:
		return t
	case *pbstorage.LogResponse:
		return nil
	default:
		panic(fmt.Sprintf("unexpected Apply response %T", t))
	}
}

// opStoreWrite calls Store.WriteCAS directly: the caller chooses the version to store.
func (w *world) opStoreWrite(res *pbresource.Resource, presented string) {
	before := w.peek(res.Id)
	stored := clone(res)
	err := w.store.WriteCAS(stored, presented)
	result := errEnum(err)
	w.line("sw "+encRes(res)+" "+hx.EncS(presented), result)
	w.monWrite(res, presented, result, stored, before, w.peek(res.Id))
}

// ---- deletes

func (w *world) opDelete(id *pbresource.ID, vsn string) {
	before := w.peek(id)
	var err error
	var op string
	if w.mode == "raft" {
		w.raftIdx += uint64(1 + w.rng.Intn(3))
		op = fmt.Sprintf("rd %s %s", encID(id), hx.EncS(vsn))
		if w.rng.Chance(50) {
			n0 := w.lh.applies
			err = w.rb.DeleteCAS(bg, clone(id), vsn)
			w.tag("raft:delete-through-backend")
			if w.lh.applies != n0+1 {
				w.violate("raft:write-not-through-log", "raft.Backend.DeleteCAS did not go through exactly one Raft apply")
			}
		} else {
			err = w.raftApplyDelete(clone(id), vsn, w.raftIdx)
		}
		if isRetired(id.Type) {
			w.tag("raft:retired-type-skipped")
			w.line(op, "ok")
			return
		}
	} else {
		op = fmt.Sprintf("d %s %s", encID(id), hx.EncS(vsn))
		err = w.be.DeleteCAS(bg, clone(id), vsn)
	}
	result := errEnum(err)
	w.line(op, result)
	after := w.peek(id)
	effective := before != nil && after == nil
	if !effective && !proto.Equal(before, after) && !(before == nil && after == nil) {
		w.violate("delete:changed-not-removed", "DeleteCAS changed the stored resource without removing it")
	}
	switch {
	case result == "ok" && effective:
		w.tag("delete:ok-effective")
		if before.Id.Uid != id.Uid {
			w.violate("uid:stale-deleter-deleted", "a delete with another uid than the stored one removed the resource")
		}
		if before.Version != vsn {
			w.violate("cas:delete-wrong-version", fmt.Sprintf("delete presenting %q removed version %q", vsn, before.Version))
		}
		if vsn != "" {
			ck := fmt.Sprintf("%d|%s|%s", w.epoch, resKey(id), vsn)
			w.cas[ck]++
			if w.cas[ck] > 1 {
				w.violate("cas:two-successes-same-version", "two committed operations presented the same version of one resource")
			}
		}
		w.recordCommit(before, true)
	case result == "ok" && before == nil:
		w.tag("delete:noop-absent")
	case result == "ok":
		w.tag("delete:noop-other-uid")
		if before.Id.Uid == id.Uid && before.Version == vsn {
			w.violate("delete:lost", "DeleteCAS with the stored uid and version returned success but removed nothing")
		}
		if before.Id.Uid == id.Uid {
			w.violate("cas:delete-noop-wrong-version", "DeleteCAS with the stored uid and a wrong version reported success")
		}
	case result == "cas":
		w.tag("delete:cas")
		if effective {
			w.violate("cas:failed-delete-removed", "a rejected delete removed the resource")
		}
		if before == nil || before.Id.Uid != id.Uid || before.Version == vsn {
			w.violate("cas:spurious-failure", "CAS failure of a delete without a version mismatch on the same lifetime")
		}
	default:
		w.violate("delete:unexpected-error", "unexpected error class from DeleteCAS: "+result)
	}
}

// ---- reads

// raftConsistencyProbe: a strongly consistent read / list on a leader that cannot verify its leadership, and a
// read with an unknown consistency value, must fail with ErrInconsistent instead of serving local data.
func (w *world) raftConsistencyProbe(id *pbresource.ID, q query) {
	w.lh.inconsistent = true
	_, err := w.rb.Read(bg, storage.StrongConsistency, clone(id))
	_, lerr := w.rb.List(bg, storage.StrongConsistency, q.typ(), q.ten(), q.pfx)
	w.lh.inconsistent = false
	if !errors.Is(err, storage.ErrInconsistent) || !errors.Is(lerr, storage.ErrInconsistent) {
		w.violate("raft:strong-read-without-consistency-check", "a strongly consistent Read / List was served although leadership could not be verified")
	}
	if _, err := w.rb.Read(bg, storage.ReadConsistency(7), clone(id)); !errors.Is(err, storage.ErrInconsistent) {
		w.violate("raft:unknown-consistency-served", "a Read with an unknown consistency value was served")
	}
	if _, err := w.rb.List(bg, storage.ReadConsistency(7), q.typ(), q.ten(), q.pfx); !errors.Is(err, storage.ErrInconsistent) {
		w.violate("raft:unknown-consistency-served", "a List with an unknown consistency value was served")
	}
	w.tag("raft:consistency-probe")
}

func (w *world) opRead(id *pbresource.ID) {
	var r *pbresource.Resource
	var err error
	switch {
	case w.mode == "raft" && w.rng.Chance(40):
		r, err = w.rb.Read(bg, storage.StrongConsistency, clone(id)) // leaderRead
		w.tag("raft:read-strong")
	case w.mode == "raft":
		r, err = w.rb.Read(bg, storage.EventualConsistency, clone(id))
	default:
		r, err = w.store.Read(clone(id))
	}
	var mm storage.GroupVersionMismatchError
	var out string
	cur := w.present[resKey(id)]
	switch {
	case err == nil:
		out = "found " + encRes(r)
		w.tag("read:found")
		if cur == nil || !proto.Equal(cur, r) {
			w.violate("read:not-last-committed", "Read returned something else than the last committed version")
		}
		if id.Uid != "" && r.Id.Uid != id.Uid {
			w.violate("uid:stale-read-served", "a uid-qualified read returned a resource with another uid")
		}
	case errors.As(err, &mm):
		out = "gvmismatch " + encRes(mm.Stored)
		w.tag("read:gvmismatch")
		if cur == nil || !proto.Equal(cur, mm.Stored) {
			w.violate("read:not-last-committed", "Read (group version mismatch) carries something else than the last committed version")
		}
		if id.Uid != "" && mm.Stored.Id.Uid != id.Uid {
			w.violate("uid:stale-read-served", "a uid-qualified read naming another GroupVersion was handed (inside GroupVersionMismatchError) a resource with another uid: the holder of a deleted lifetime's id sees the re-created resource")
		}
	case errors.Is(err, storage.ErrNotFound):
		out = "notfound"
		if cur != nil && (id.Uid == "" || id.Uid == cur.Id.Uid) {
			w.violate("read:lost", "Read says not found although the resource was committed and not deleted")
		}
		if cur != nil {
			w.tag("read:notfound-other-uid")
		} else {
			w.tag("read:notfound")
		}
	default:
		out = "err"
		w.violate("read:unexpected-error", err.Error())
	}
	w.line("r "+encID(id), out)
}

func sortedByKey(rs []*pbresource.Resource) []*pbresource.Resource {
	sort.SliceStable(rs, func(i, j int) bool { return resKey(rs[i].Id) < resKey(rs[j].Id) })
	return rs
}

// expectedList is the set of committed, not deleted resources a query is meant to return, in key order.
func (w *world) expectedList(q query) []*pbresource.Resource {
	var out []*pbresource.Resource
	for _, r := range w.present {
		if q.matches(r) {
			out = append(out, r)
		}
	}
	return sortedByKey(out)
}

func sameRows(a, b []*pbresource.Resource) bool {
	if len(a) != len(b) {
		return false
	}
	for i := range a {
		if !proto.Equal(a[i], b[i]) {
			return false
		}
	}
	return true
}

func (w *world) opList(q query) {
	var rs []*pbresource.Resource
	var err error
	switch {
	case w.mode == "raft" && w.rng.Chance(40):
		rs, err = w.rb.List(bg, storage.StrongConsistency, q.typ(), q.ten(), q.pfx) // leaderList
		w.tag("raft:list-strong")
		if w.rng.Chance(30) {
			w.raftConsistencyProbe(&pbresource.ID{Type: &pbresource.Type{Group: q.g, GroupVersion: "v1", Kind: q.k}, Tenancy: q.ten(), Name: "a"}, q)
		}
	case w.mode == "raft":
		rs, err = w.rb.List(bg, storage.EventualConsistency, q.typ(), q.ten(), q.pfx)
	default:
		rs, err = w.store.List(q.typ(), q.ten(), q.pfx)
	}
	if err != nil {
		w.line("l "+q.enc(), "err")
		w.violate("list:unexpected-error", err.Error())
		return
	}
	w.line("l "+q.enc(), encRows(rs))
	if !sameRows(rs, w.expectedList(q)) {
		w.violate("list:not-the-committed-set", "List differs from the committed, not deleted resources matching the query (in key order)")
	}
	switch {
	case q.part == storage.Wildcard:
		w.tag("list:wildcard-partition")
	case q.ns == storage.Wildcard:
		w.tag("list:wildcard-namespace")
	case q.pfx != "":
		w.tag("list:name-prefix")
	default:
		w.tag("list:exact-tenancy")
	}
	if len(rs) > 1 {
		w.tag("list:several-rows")
	}
}

func (w *world) opListByOwner(id *pbresource.ID) {
	var rs []*pbresource.Resource
	var err error
	if w.mode == "raft" {
		rs, err = w.rb.ListByOwner(bg, clone(id))
	} else {
		rs, err = w.store.ListByOwner(clone(id))
	}
	if err != nil {
		w.line("lo "+encID(id), "err")
		w.violate("listowner:unexpected-error", err.Error())
		return
	}
	w.line("lo "+encID(id), encRows(rs))
	var exp []*pbresource.Resource
	for _, r := range w.present {
		if r.Owner != nil && resKey(r.Owner) == resKey(id) && r.Owner.Uid == id.Uid {
			exp = append(exp, r)
		}
	}
	if !sameRows(rs, sortedByKey(exp)) {
		w.violate("listowner:not-the-owned-set", "ListByOwner differs from the committed resources whose owner is exactly this id (uid included)")
	}
	if len(rs) > 0 {
		w.tag("listowner:non-empty")
	} else {
		w.tag("listowner:empty")
	}
}

// ---------------------------------------------------------------- watches

func (w *world) opWatchOpen(q query) {
	subj := q.subject()
	sr := w.subjs[subj]
	if sr == nil {
		sr = &subjRec{}
		w.subjs[subj] = sr
	}
	if !sr.valid {
		sq := q
		sq.pfx = ""
		if q.wild() {
			sq.part, sq.ns = storage.Wildcard, storage.Wildcard
		}
		sr.snapList = w.expectedList(sq)
		sr.snapSeq = w.seq
		sr.epoch = w.epoch
		sr.valid = true
		w.tag("watch:open-fresh-snapshot")
		if w.queued > 0 {
			w.tag("watch:open-while-publisher-lags")
		}
	} else {
		w.tag("watch:open-cached-snapshot")
	}
	sr.refs++
	var wt *inmem.Watch
	var err error
	if w.mode == "raft" {
		var sw storage.Watch
		if sw, err = w.rb.WatchList(bg, q.typ(), q.ten(), q.pfx); err == nil {
			wt = sw.(*inmem.Watch)
		}
	} else {
		wt, err = w.store.WatchList(q.typ(), q.ten(), q.pfx)
	}
	if err != nil {
		w.line("wo "+q.enc(), "err")
		w.violate("watch:open-error", err.Error())
		return
	}
	rec := &watchRec{w: wt, q: q, subj: subj, snapSeq: sr.snapSeq, snapEpoch: sr.epoch, lastSeq: sr.snapSeq}
	for _, r := range sr.snapList {
		if q.matches(r) {
			rec.exp = append(rec.exp, r)
		}
	}
	w.watches = append(w.watches, rec)
	w.line("wo "+q.enc(), fmt.Sprintf("h%d", len(w.watches)-1))
}

func (w *world) opWatchNext(h int) {
	op := fmt.Sprintf("wn h%d", h)
	if h >= len(w.watches) {
		w.line(op, "nohandle")
		return
	}
	rec := w.watches[h]
	if rec.w.VerifC18WouldBlock() {
		w.line(op, "none")
		w.tag("next:would-block")
		return
	}
	ctx, cancel := context.WithTimeout(bg, nextTimeout)
	ev, err := rec.w.Next(ctx)
	cancel()
	switch {
	case err == nil:
	case errors.Is(err, storage.ErrWatchClosed):
		w.line(op, "closed")
		w.tag("next:closed")
		rec.dead = true
		return
	case strings.Contains(err.Error(), "closed by unsubscribe"):
		w.line(op, "unsub")
		w.tag("next:unsubscribed")
		rec.dead = true
		return
	case errors.Is(err, context.DeadlineExceeded):
		// the shim said something is deliverable, Next did not deliver it: the implementation filters in a way
		// the shim does not know. The line says "none" (the model will disagree if it should); do not pay the
		// long timeout over and over.
		w.line(op, "none")
		w.tag("next:timeout")
		if nextTimeouts++; nextTimeouts >= 2 {
			nextTimeout = 100 * time.Millisecond
		}
		return
	default:
		w.line(op, "err")
		w.violate("watch:next-error", err.Error())
		return
	}
	switch {
	case ev.GetEndOfSnapshot() != nil:
		w.line(op, "eos")
		w.tag("next:end-of-snapshot")
		if rec.eos {
			w.violate("watch:second-end-of-snapshot", "EndOfSnapshot delivered twice")
		}
		if rec.expPos != len(rec.exp) {
			w.violate("watch:snapshot-incomplete", "EndOfSnapshot before every listed resource was delivered")
		}
		rec.eos = true
	case ev.GetUpsert() != nil:
		r := ev.GetUpsert().Resource
		w.line(op, "upsert "+encRes(r))
		w.monEvent(rec, r, false)
	case ev.GetDelete() != nil:
		r := ev.GetDelete().Resource
		w.line(op, "delete "+encRes(r))
		w.monEvent(rec, r, true)
	default:
		w.line(op, "err")
		w.violate("watch:unknown-event-type", "event that is neither upsert, delete nor end of snapshot")
	}
}

// relevant: is this commit meant to reach the watcher?
func (rec *watchRec) relevant(c commit) bool { return rec.q.matches(c.res) }

// monEvent restates the watch contract for one delivered event.
func (w *world) monEvent(rec *watchRec, r *pbresource.Resource, del bool) {
	if !rec.q.matches(r) {
		w.violate("watch:event-outside-query", "a watcher received an event for a resource its query does not match")
	}
	if !rec.eos {
		w.tag("next:snapshot-upsert")
		if del || rec.expPos >= len(rec.exp) || !proto.Equal(rec.exp[rec.expPos], r) {
			w.violate("watch:snapshot-not-the-listing", "the initial events are not the listing at the time the snapshot was taken")
		}
		rec.expPos++
		return
	}
	if del {
		w.tag("next:delete")
	} else {
		w.tag("next:upsert")
	}
	ek := evKey(r, del)
	cands := w.evSeqs[ek]
	if len(cands) == 0 {
		w.violate("watch:event-never-committed", "a watcher received an event that corresponds to no committed operation")
		return
	}
	// the event the contract asks for next: the first matching commit after the last one delivered
	var next *commit
	for i := rec.lastSeq; i < len(w.commits); i++ {
		if rec.relevant(w.commits[i]) {
			next = &w.commits[i]
			break
		}
	}
	seq := 0
	if next != nil && evKey(next.res, next.del) == ek {
		seq = next.seq
		rec.lastSeq = seq
	} else {
		// not the expected one: which commit is it? (an event does not carry its index, and a restore can
		// bring a version back, so several commits may look the same; prefer the explanation "older than
		// the snapshot, in order", then "already delivered", then "skipped ahead")
		stale, dup, ahead := 0, 0, 0
		for _, c := range cands {
			switch {
			case (c <= rec.snapSeq || w.commits[c-1].epoch < rec.snapEpoch) && c > rec.lastStale && stale == 0:
				stale = c
			case c <= rec.lastSeq:
				dup = c
			case c > rec.lastSeq && ahead == 0:
				ahead = c
			}
		}
		switch {
		case stale != 0:
			seq = stale
			rec.lastStale = seq
			if w.commits[seq-1].epoch < rec.snapEpoch {
				w.tag("next:pre-restore-event")
				w.violate("watch:pre-restore-event-after-snapshot",
					"an event committed before a restore was delivered to a watcher whose snapshot was taken after the restore")
			} else {
				w.tag("next:stale-event")
				w.violate("watch:stale-event-after-snapshot",
					"an event committed before the snapshot was taken was delivered after EndOfSnapshot (version regress)")
			}
		case ahead != 0:
			seq = ahead
			rec.lastSeq = seq
			w.violate("watch:missing-event", "a matching commit was skipped: a later commit's event arrived first")
		default:
			seq = dup
			w.violate("watch:events-out-of-order", fmt.Sprintf("an event arrived again or after a later commit's event (%s, commit #%d, last delivered #%d, snapshot at #%d)", encRes(r), seq, rec.lastSeq, rec.snapSeq))
		}
	}
	// read after event: the store must already hold this commit or a later one on the same resource
	cur := w.peek(r.Id)
	last := 0
	for i := len(w.commits) - 1; i >= 0; i-- {
		if resKey(w.commits[i].res.Id) == resKey(r.Id) {
			last = w.commits[i].seq
			if w.commits[i].del != (cur == nil) || (cur != nil && !proto.Equal(cur, w.commits[i].res)) {
				if w.commits[i].epoch == w.epoch {
					w.violate("watch:read-after-event-not-last-commit", "a read after an event does not return the last commit of that resource")
				}
			}
			break
		}
	}
	if last < seq {
		w.violate("watch:read-older-than-event", "a read made after an event returned data older than the event")
	}
}

func (w *world) opWatchClose(h int) {
	op := fmt.Sprintf("wc h%d", h)
	if h >= len(w.watches) {
		w.line(op, "nohandle")
		return
	}
	rec := w.watches[h]
	rec.w.Close()
	w.line(op, "ok")
	w.tag("watch:close")
	if !rec.released {
		rec.released = true
		sr := w.subjs[rec.subj]
		sr.refs--
		if sr.refs == 0 {
			delete(w.subjs, rec.subj)
			w.tag("watch:last-subscriber-left")
		}
	}
}

func (w *world) opPump() {
	if w.pub.VerifC18DrainOne() {
		w.queued--
		w.line("pump", "ok")
		w.tag("pump:dispatched")
	} else {
		w.line("pump", "empty")
		w.tag("pump:empty")
	}
}

var (
	nextTimeout  = 5 * time.Second
	nextTimeouts = 0
)

// probeGuardLive finds out which variant of Watch's index guard the implementation has: the one that is
// there today never fires (an event older than the snapshot is re-delivered: known finding
// watch:stale-event-after-snapshot), a repaired one drops that event. The model has both variants; a
// known finding that stops reproducing is not an alarm.
func probeGuardLive() bool {
	st, err := inmem.NewStore()
	if err != nil {
		panic(err)
	}
	id := &pbresource.ID{Type: &pbresource.Type{Group: "demo", GroupVersion: "v1", Kind: "artist"},
		Tenancy: &pbresource.Tenancy{Partition: "default", Namespace: "default"}, Name: "probe", Uid: "u"}
	if err := st.WriteCAS(&pbresource.Resource{Id: id, Version: "1"}, ""); err != nil {
		panic(err)
	}
	if err := st.WriteCAS(&pbresource.Resource{Id: id, Version: "2"}, "1"); err != nil {
		panic(err)
	}
	wt, err := st.WatchList(storage.UnversionedTypeFrom(id.Type), id.Tenancy, "")
	if err != nil {
		panic(err)
	}
	defer wt.Close()
	for st.VerifC18Pub().VerifC18DrainOne() {
	}
	for i := 0; i < 3; i++ {
		ctx, cancel := context.WithTimeout(bg, 700*time.Millisecond)
		ev, err := wt.Next(ctx)
		cancel()
		if err != nil {
			return true // nothing after the snapshot: the old event was dropped
		}
		if i == 2 {
			return !(ev.GetUpsert() != nil && ev.GetUpsert().Resource.Version == "1")
		}
	}
	return true
}

// ---------------------------------------------------------------- snapshot / restore

func (w *world) opSnapshot() {
	var rs []*pbresource.Resource
	if w.mode == "raft" { // raft.Backend.Snapshot: protobuf-encoded rows
		sn, err := w.rb.Snapshot()
		if err != nil {
			w.line("snap", "err")
			return
		}
		for {
			b, err := sn.Next()
			if err != nil {
				w.line("snap", "err")
				return
			}
			if b == nil {
				break
			}
			r := &pbresource.Resource{}
			if err := r.UnmarshalBinary(b); err != nil {
				w.line("snap", "err")
				return
			}
			rs = append(rs, r)
		}
	} else {
		sn, err := w.store.Snapshot()
		if err != nil {
			w.line("snap", "err")
			return
		}
		for r := sn.Next(); r != nil; r = sn.Next() {
			rs = append(rs, r)
		}
	}
	w.snaps = append(w.snaps, rs)
	w.line("snap", encRows(rs))
	w.tag("snapshot")
	var all []*pbresource.Resource
	for _, r := range w.present {
		all = append(all, r)
	}
	if !sameRows(rs, sortedByKey(all)) {
		w.violate("snapshot:not-the-committed-set", "Snapshot differs from the committed, not deleted resources")
	}
}

func (w *world) opRestore(rs []*pbresource.Resource) {
	if w.mode == "raft" {
		r, err := w.rb.Restore()
		if err != nil {
			panic(err)
		}
		for _, x := range rs {
			b, err := x.MarshalBinary()
			if err != nil {
				panic(err)
			}
			if err := r.Apply(b); err != nil {
				panic(err)
			}
		}
		r.Commit()
	} else {
		r, err := w.store.Restore()
		if err != nil {
			panic(err)
		}
		for _, x := range rs {
			if err := r.Apply(clone(x)); err != nil {
				panic(err)
			}
		}
		r.Commit()
	}
	w.line("restore "+encRows(rs), "ok")
	w.tag("restore")
	if w.queued > 0 {
		w.tag("restore:while-publisher-lags")
	}
	w.epoch++
	w.present = map[string]*pbresource.Resource{}
	for _, x := range rs {
		w.present[resKey(x.Id)] = clone(x)
	}
	for _, sr := range w.subjs {
		sr.valid = false
	}
	// the restored world must be exactly the snapshot
	var all []*pbresource.Resource
	for _, r := range w.present {
		all = append(all, r)
	}
	sn, _ := w.store.Snapshot()
	var got []*pbresource.Resource
	for r := sn.Next(); r != nil; r = sn.Next() {
		got = append(got, r)
	}
	if !sameRows(got, sortedByKey(all)) {
		w.violate("restore:state-differs", "after Restore the store does not hold exactly the restored resources")
	}
}

// finish drains the publisher and every watcher, then checks that nothing is missing.
func (w *world) finish() {
	for w.queued > 0 {
		w.opPump()
	}
	for h, rec := range w.watches {
		for n := 0; n < 200 && !rec.dead; n++ {
			before := len(w.ops)
			w.opWatchNext(h)
			_ = before
			if rec.w.VerifC18WouldBlock() {
				break
			}
		}
		if rec.dead || rec.released || !rec.eos {
			continue
		}
		for _, m := range w.commits[rec.lastSeq:] {
			if m.epoch >= rec.snapEpoch && rec.relevant(m) {
				w.violate("watch:missing-event", "an open watcher never received a matching commit although the publisher is idle")
				break
			}
		}
	}
	for _, rec := range w.watches {
		if !rec.released {
			rec.w.Close()
		}
	}
}

// ---------------------------------------------------------------- generators

type rtype struct{ g, gv, k string }

var (
	typePool  = []rtype{{"demo", "v1", "artist"}, {"demo", "v2", "artist"}, {"demo", "v1", "album"}}
	retiredT  = rtype{"mesh", "v2beta1", "thing"}
	partPool  = []string{"default", "p1"}
	nsPool    = []string{"default", "ns1"}
	namePool  = []string{"a", "ab", "a/b", "b", "é"}
	weirdName = []string{"", "A", "a\x00b", "*"}
	uidPool   = []string{"u1", "u2", "u3", "U1", "k9", "01HZXA"}
)

func isRetired(t *pbresource.Type) bool { return t.Group == retiredT.g && t.GroupVersion == retiredT.gv }

type gen struct {
	r     *hx.RNG
	w     *world
	weird bool
	names []string
	stale map[string][]string // key -> versions seen earlier
}

func (g *gen) typ() *pbresource.Type {
	t := hx.Pick(g.r, typePool)
	if g.w.mode == "raft" && g.r.Chance(6) {
		t = retiredT
	}
	return &pbresource.Type{Group: t.g, GroupVersion: t.gv, Kind: t.k}
}

func (g *gen) ten() *pbresource.Tenancy {
	t := &pbresource.Tenancy{Partition: hx.Pick(g.r, partPool), Namespace: hx.Pick(g.r, nsPool)}
	if g.weird && g.r.Chance(20) {
		t.Namespace = hx.Pick(g.r, []string{"", "default\x00a", "*"})
	}
	return t
}

func (g *gen) id() *pbresource.ID {
	id := &pbresource.ID{Type: g.typ(), Tenancy: g.ten(), Name: hx.Pick(g.r, g.names), Uid: hx.Pick(g.r, uidPool)}
	if g.r.Chance(8) {
		id.Uid = ""
	}
	return id
}

// target picks an id biased towards resources that exist (so CAS / uid branches are reached).
func (g *gen) target() (*pbresource.ID, *pbresource.Resource) {
	if len(g.w.present) > 0 && g.r.Chance(70) {
		keys := make([]string, 0, len(g.w.present))
		for k := range g.w.present {
			keys = append(keys, k)
		}
		sort.Strings(keys)
		cur := g.w.present[hx.Pick(g.r, keys)]
		id := clone(cur.Id)
		switch {
		case g.r.Chance(12):
			id.Uid = nearUid(g.r, cur.Id.Uid) // almost the stored uid
			g.w.tag("uid:near-variant-presented")
		case g.r.Chance(15):
			id.Uid = hx.Pick(g.r, uidPool) // maybe a stale lifetime
		case g.r.Chance(6):
			id.Uid = ""
		}
		if g.r.Chance(10) {
			id.Type.GroupVersion = hx.Pick(g.r, []string{"v1", "v2"})
		}
		return id, cur
	}
	id := g.id()
	return id, g.w.peek(id)
}

// nearUid returns a uid that is "almost" the given one: another letter case (ASCII and the Unicode fold
// k ↔ KELVIN SIGN), one character more or less, padded with white space, or empty. Uids are opaque byte
// strings for the store: every one of them names a different lifetime.
func nearUid(r *hx.RNG, uid string) string {
	vs := []string{strings.ToUpper(uid), strings.ToLower(uid), strings.ReplaceAll(strings.ToLower(uid), "k", "\u212a"),
		uid + "x", uid + " ", " " + uid, uid + "\t", ""}
	if len(uid) > 1 {
		vs = append(vs, uid[:len(uid)-1], uid[1:])
	}
	if len(uid) > 0 {
		c := uid[0]
		switch {
		case c >= 'a' && c <= 'z':
			vs = append(vs, string(c-32)+uid[1:])
		case c >= 'A' && c <= 'Z':
			vs = append(vs, string(c+32)+uid[1:])
		}
	}
	var diff []string
	for _, v := range vs {
		if v != uid {
			diff = append(diff, v)
		}
	}
	if len(diff) == 0 {
		return uid + "x"
	}
	return hx.Pick(r, diff)
}

func (g *gen) version(cur *pbresource.Resource, key string) string {
	n := g.r.Intn(100)
	switch {
	case cur == nil && n < 75:
		return ""
	case cur != nil && n < 62:
		return cur.Version
	case n < 80 && len(g.stale[key]) > 0:
		return hx.Pick(g.r, g.stale[key])
	case n < 86:
		return ""
	case n < 92 && cur != nil:
		if v, err := strconv.Atoi(cur.Version); err == nil {
			return strconv.Itoa(v + 1)
		}
		return cur.Version + "x"
	case n < 96:
		return "0" + fmt.Sprint(g.r.Intn(5))
	default:
		return hx.Pick(g.r, []string{"abc", " ", "1", "2"})
	}
}

func (g *gen) resource() (*pbresource.Resource, *pbresource.Resource) {
	id, cur := g.target()
	g.w.uniq++
	res := &pbresource.Resource{Id: id, Generation: strconv.Itoa(g.w.uniq)}
	res.Version = g.version(cur, resKey(id))
	if cur != nil {
		g.stale[resKey(id)] = append(g.stale[resKey(id)], cur.Version)
		if cur.Owner != nil && g.r.Chance(85) {
			res.Owner = clone(cur.Owner)
		}
	}
	if res.Owner == nil && g.r.Chance(30) {
		res.Owner = g.id()
		if res.Owner.Uid == "" {
			res.Owner.Uid = "u1"
		}
	}
	return res, cur
}

func (g *gen) query() query {
	t := hx.Pick(g.r, typePool)
	q := query{g: t.g, k: t.k, part: hx.Pick(g.r, partPool), ns: hx.Pick(g.r, nsPool)}
	switch g.r.Intn(10) {
	case 0, 1:
		q.part = storage.Wildcard
	case 2, 3:
		q.ns = storage.Wildcard
	case 4:
		q.part, q.ns = storage.Wildcard, storage.Wildcard
	}
	if g.r.Chance(35) {
		q.pfx = hx.Pick(g.r, []string{"a", "ab", "a/", "b", "é", "\xc3"})
		if g.weird && g.r.Chance(30) {
			q.pfx = hx.Pick(g.r, []string{"a\x00", "A", "*"})
		}
	}
	return q
}

func (g *gen) step() {
	w := g.w
	n := g.r.Intn(100)
	switch {
	case n < 26:
		res, _ := g.resource()
		w.opWrite(res)
	case n < 31:
		res, _ := g.resource()
		presented := res.Version
		w.freshN++
		res.Version = fmt.Sprintf("s%d", w.freshN)
		if g.r.Chance(5) {
			res.Version = ""
		}
		w.opStoreWrite(res, presented)
	case n < 43:
		id, cur := g.target()
		if cur != nil {
			g.stale[resKey(id)] = append(g.stale[resKey(id)], cur.Version)
		}
		w.opDelete(id, g.version(cur, resKey(id)))
	case n < 53:
		id, cur := g.target()
		if cur != nil && g.r.Chance(25) {
			// the holder of another (earlier) lifetime's id, speaking the other GroupVersion of the type
			id = clone(cur.Id)
			id.Uid = hx.Pick(g.r, uidPool)
			if id.Type.GroupVersion == "v1" {
				id.Type.GroupVersion = "v2"
			} else {
				id.Type.GroupVersion = "v1"
			}
			if id.Uid != cur.Id.Uid {
				w.tag("read:stale-uid-other-groupversion")
			}
		}
		w.opRead(id)
	case n < 60:
		w.opList(g.query())
	case n < 64:
		var id *pbresource.ID
		owners := []*pbresource.ID{}
		for _, r := range w.present {
			if r.Owner != nil {
				owners = append(owners, r.Owner)
			}
		}
		sort.Slice(owners, func(i, j int) bool { return resKey(owners[i])+owners[i].Uid < resKey(owners[j])+owners[j].Uid })
		if len(owners) > 0 && g.r.Chance(75) {
			id = clone(hx.Pick(g.r, owners))
			if g.r.Chance(15) {
				id.Uid = hx.Pick(g.r, uidPool)
			}
		} else {
			id = g.id()
		}
		w.opListByOwner(id)
	case n < 70:
		if len(w.watches) < 6 {
			w.opWatchOpen(g.query())
		} else {
			w.opPump()
		}
	case n < 84:
		if len(w.watches) > 0 {
			w.opWatchNext(g.r.Intn(len(w.watches)))
		} else {
			w.opWatchOpen(g.query())
		}
	case n < 86:
		if len(w.watches) > 0 {
			w.opWatchClose(g.r.Intn(len(w.watches)))
		}
	case n < 96:
		w.opPump()
	case n < 98:
		w.opSnapshot()
	default:
		var rs []*pbresource.Resource
		if len(w.snaps) > 0 && g.r.Chance(70) {
			// an earlier snapshot; payloads are renumbered so that the events of the new epoch stay
			// distinguishable from those of the old one (ids, uids and versions come back as they were)
			for _, x := range hx.Pick(g.r, w.snaps) {
				y := clone(x)
				w.uniq++
				y.Generation = strconv.Itoa(w.uniq)
				rs = append(rs, y)
			}
		} else {
			for k := g.r.Intn(4); k > 0; k-- {
				res, _ := g.resource()
				w.freshN++
				res.Version = fmt.Sprintf("r%d", w.freshN)
				if res.Id.Uid == "" {
					res.Id.Uid = "u1"
				}
				rs = append(rs, res)
			}
		}
		w.opRestore(rs)
	}
	if w.queued >= 56 {
		w.opPump()
	}
}

func controlledCase(run *hx.Run, r *hx.RNG, n int) {
	mode := "inmem"
	if r.Chance(30) {
		mode = "raft"
	}
	w := newWorld(run, r, mode)
	g := &gen{r: r, w: w, names: namePool, stale: map[string][]string{}}
	if r.Chance(12) {
		g.weird = true
		w.weird = true
		g.names = append(append([]string(nil), namePool...), weirdName...)
		run.Tag("case:weird-names")
	}
	run.Tag("case:" + mode)
	// eager / lazy publisher: how often the harness lets the publisher goroutine run
	steps := 8 + r.Intn(n)
	for i := 0; i < steps; i++ {
		g.step()
	}
	w.finish()
	nt := 0
	for range w.tags {
		nt++
	}
	run.Case(strings.Join(w.ops, "\n"), nt >= 6)
	if len(w.ops) > 25 {
		run.Sample(map[string]any{"case": "controlled " + mode, "first_ops": w.ops[:25]})
	}
}

// witnessLag replays the lagging-publisher witness of known finding watch:stale-event-after-snapshot.
func witnessLag(run *hx.Run) {
	w := newWorld(run, hx.NewRNG(7), "inmem")
	id := &pbresource.ID{Type: &pbresource.Type{Group: "demo", GroupVersion: "v1", Kind: "artist"},
		Tenancy: &pbresource.Tenancy{Partition: "default", Namespace: "default"}, Name: "a", Uid: "u1"}
	w.opWrite(&pbresource.Resource{Id: id, Generation: "1"})
	w.opWrite(&pbresource.Resource{Id: id, Generation: "2", Version: "1"})
	w.opWatchOpen(query{g: "demo", k: "artist", part: "default", ns: "default"})
	w.opWatchNext(0)
	w.opWatchNext(0)
	w.opWatchNext(0)
	w.finish()
	run.Case(strings.Join(w.ops, "\n"), true)
	run.Tag("case:witness-lagging-publisher")
	run.Sample(map[string]any{"case": "witness: publisher lags behind two commits when WatchList runs", "ops": w.ops})
}

// witnessRestore replays the witness of known finding watch:pre-restore-event-after-snapshot.
func witnessRestore(run *hx.Run) {
	w := newWorld(run, hx.NewRNG(7), "inmem")
	id := &pbresource.ID{Type: &pbresource.Type{Group: "demo", GroupVersion: "v1", Kind: "artist"},
		Tenancy: &pbresource.Tenancy{Partition: "default", Namespace: "default"}, Name: "a", Uid: "u1"}
	w.opWrite(&pbresource.Resource{Id: id, Generation: "1"})
	w.opRestore(nil)
	w.opWatchOpen(query{g: "demo", k: "artist", part: "default", ns: "default"})
	w.opWatchNext(0)
	w.opRead(id)
	w.finish()
	run.Case(strings.Join(w.ops, "\n"), true)
	run.Tag("case:witness-restore-lagging-publisher")
}

func main() {
	run := hx.Start()
	run.Rule = "model line == implementation line for every operation; monitors: CAS at most once per version, uid stable, stale lifetimes untouched, list = committed set, watch = listing + EndOfSnapshot + every later commit once in order, read after event not older; concurrent histories linearizable"
	live := probeGuardLive()
	run.Line("cfg guard-live "+hx.EncBool(live), "ok")
	run.Tag("probe:index-guard-live=" + hx.EncBool(live))
	run.Extra["index_guard_live"] = live
	if os.Getenv("C18_ONLY_SVCSEQ") != "" { // development aid: only the service-level sequences
		svcSeqPart(run)
		run.Finish()
		return
	}
	witnessLag(run)
	witnessRestore(run)
	svcSeqPart(run)
	nCases := run.Scale(400, 4000)
	if os.Getenv("C18_ONLY_CONCURRENT") != "" { // development aid: skip the controlled cases
		nCases = 0
	}
	for i := 0; i < nCases; i++ {
		controlledCase(run, run.RNG.Fork(uint64(i)), 60)
	}
	if os.Getenv("C18_ONLY_STRESS") == "" { // development aid
		concurrentPart(run)
	}
	subscribeStress(run)
	if os.Getenv("C18_ONLY_STRESS") == "" {
		servicePart(run)
	}
	run.Finish()
}
