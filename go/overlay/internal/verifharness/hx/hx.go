//go:build verif

// Package hx is the shared runtime of the correspondence harnesses: one PRNG,
// the line-protocol encoders, and the statistics / violation recorder that
// bin/check turns into evidence. It is compiled into the consul module through
// `go build -overlay` (no tracked file in /repo).
package hx

import (
	"bufio"
	"crypto/sha256"
	"encoding/hex"
	"encoding/json"
	"flag"
	"fmt"
	"os"
	"path/filepath"
	"sort"
	"strings"
)

// ---------------------------------------------------------------- PRNG

// RNG is splitmix64; every random choice of a harness derives from one seed.
type RNG struct{ s uint64 }

// NewRNG scrambles the seed first: the splitmix state advances additively, so
// unscrambled consecutive seeds would yield shifted copies of one stream.
func NewRNG(seed uint64) *RNG {
	z := seed + 0x632BE59BD9B4E019
	z = (z ^ (z >> 30)) * 0xBF58476D1CE4E5B9
	z = (z ^ (z >> 27)) * 0x94D049BB133111EB
	return &RNG{s: z ^ (z >> 31)}
}

func (r *RNG) U64() uint64 {
	r.s += 0x9E3779B97F4A7C15
	z := r.s
	z = (z ^ (z >> 30)) * 0xBF58476D1CE4E5B9
	z = (z ^ (z >> 27)) * 0x94D049BB133111EB
	return z ^ (z >> 31)
}
func (r *RNG) Intn(n int) int {
	if n <= 0 {
		return 0
	}
	return int(r.U64() % uint64(n))
}
func (r *RNG) Bool() bool          { return r.U64()&1 == 1 }
func (r *RNG) Chance(pct int) bool { return r.Intn(100) < pct }
func (r *RNG) Fork(tag uint64) *RNG {
	return NewRNG(r.U64() ^ (tag * 0xD1342543DE82EF95))
}
func Pick[T any](r *RNG, xs []T) T { return xs[r.Intn(len(xs))] }
func Shuffle[T any](r *RNG, xs []T) {
	for i := len(xs) - 1; i > 0; i-- {
		j := r.Intn(i + 1)
		xs[i], xs[j] = xs[j], xs[i]
	}
}

// ---------------------------------------------------------------- encoders

func safeByte(c byte) bool {
	return c >= 'a' && c <= 'z' || c >= 'A' && c <= 'Z' || c >= '0' && c <= '9' ||
		c == '_' || c == '.' || c == '/' || c == ':' || c == '*' || c == '@' || c == '-'
}

// EncB encodes a byte string as one protocol token (see lean/CV/Proto.lean).
func EncB(b []byte) string {
	ok := true
	for _, c := range b {
		if !safeByte(c) {
			ok = false
			break
		}
	}
	if ok {
		return "=" + string(b)
	}
	return "x" + hex.EncodeToString(b)
}
func EncS(s string) string { return EncB([]byte(s)) }
func EncBool(b bool) string {
	if b {
		return "1"
	}
	return "0"
}

// EncList joins already-encoded tokens with commas; "-" is the empty list.
func EncList(toks []string) string {
	if len(toks) == 0 {
		return "-"
	}
	return strings.Join(toks, ",")
}
func EncSList(ss []string) string {
	t := make([]string, len(ss))
	for i, s := range ss {
		t[i] = EncS(s)
	}
	return EncList(t)
}

// ---------------------------------------------------------------- run recorder

type Violation struct {
	Sig    string   `json:"sig"`
	Desc   string   `json:"desc"`
	Replay []string `json:"replay"`
}

type Run struct {
	Seed uint64
	Tier string
	Dir  string
	RNG  *RNG

	ops, impl *bufio.Writer
	fo, fi    *os.File

	Evaluations int
	distinct    map[[32]byte]struct{}
	Hist        map[string]int
	Samples     []any
	Violations  []Violation
	Rule        string
	Extra       map[string]any
	maxSamples  int
}

// Start parses the common flags (-seed, -tier, -out) and opens ops.txt / impl.out.
func Start() *Run {
	seed := flag.Uint64("seed", 1, "PRNG seed")
	tier := flag.String("tier", "quick", "quick|thorough")
	out := flag.String("out", ".", "output directory")
	flag.Parse()
	if err := os.MkdirAll(*out, 0o755); err != nil {
		panic(err)
	}
	r := &Run{Seed: *seed, Tier: *tier, Dir: *out, RNG: NewRNG(*seed),
		distinct: map[[32]byte]struct{}{}, Hist: map[string]int{}, Extra: map[string]any{}, maxSamples: 5}
	var err error
	if r.fo, err = os.Create(filepath.Join(*out, "ops.txt")); err != nil {
		panic(err)
	}
	if r.fi, err = os.Create(filepath.Join(*out, "impl.out")); err != nil {
		panic(err)
	}
	r.ops = bufio.NewWriterSize(r.fo, 1<<20)
	r.impl = bufio.NewWriterSize(r.fi, 1<<20)
	return r
}

func (r *Run) Thorough() bool { return r.Tier == "thorough" }

// Scale returns q in the quick tier and t in the thorough tier.
func (r *Run) Scale(q, t int) int {
	if r.Thorough() {
		return t
	}
	return q
}

// Line emits one operation and the implementation's canonical answer to it.
func (r *Run) Line(op, implOut string) {
	if strings.ContainsAny(op, "\n\r") || strings.ContainsAny(implOut, "\n\r") {
		panic("newline in protocol line")
	}
	r.ops.WriteString(op)
	r.ops.WriteByte('\n')
	r.impl.WriteString(implOut)
	r.impl.WriteByte('\n')
}

func (r *Run) Tag(t string) { r.Hist[t]++ }

// Case counts one evaluated case; key identifies it up to the harness's notion of
// distinctness, nontrivial says whether it exercised a non-default branch.
func (r *Run) Case(key string, nontrivial bool) {
	r.Evaluations++
	if nontrivial {
		r.distinct[sha256.Sum256([]byte(key))] = struct{}{}
	}
}
func (r *Run) Sample(v any) {
	if len(r.Samples) < r.maxSamples {
		r.Samples = append(r.Samples, v)
	}
}
func (r *Run) Violate(sig, desc string, replay []string) {
	r.Hist["violation:"+sig]++
	// keep at most 2 witnesses per signature (and 400 in all) so that one noisy
	// signature cannot crowd out a rarer one
	if r.Hist["violation:"+sig] <= 2 && len(r.Violations) < 400 {
		r.Violations = append(r.Violations, Violation{sig, desc, replay})
	}
}

func (r *Run) Finish() {
	r.ops.Flush()
	r.impl.Flush()
	r.fo.Close()
	r.fi.Close()
	keys := make([]string, 0, len(r.Hist))
	for k := range r.Hist {
		keys = append(keys, k)
	}
	sort.Strings(keys)
	st := map[string]any{
		"seed": r.Seed, "tier": r.Tier,
		"evaluations":         r.Evaluations,
		"distinct_nontrivial": len(r.distinct),
		"rule":                r.Rule,
		"samples":             r.Samples,
		"histogram":           r.Hist,
		"violations":          r.Violations,
		"extra":               r.Extra,
	}
	b, err := json.MarshalIndent(st, "", " ")
	if err != nil {
		panic(err)
	}
	if err := os.WriteFile(filepath.Join(r.Dir, "stats.json"), b, 0o644); err != nil {
		panic(err)
	}
	fmt.Printf("harness: %d evaluations, %d distinct non-trivial, %d monitor violations\n",
		r.Evaluations, len(r.distinct), len(r.Violations))
}
