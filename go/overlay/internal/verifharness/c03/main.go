//go:build verif

// C03 harness: the KV store behaves as a sequential versioned map.
// Drives the real fsm.FSM / state.Store (package storex) with KV verbs — directly, through FSM
// KVSRequest commands and inside TxnRequests — interleaved with session create/destroy, catalog
// registration / deregistration and tombstone reaping; prints every result, a full table dump after
// every command and KVSGet / KVSList answers for the Lean model (CV.Store) to reproduce.
// Monitors (model independent): a Go reference map written from the property statement, the three
// laws (no-op keeps ModifyIndex, CreateIndex stable, lock counter) on successive snapshots, and
// get/list = content.
package main

import (
	"github.com/hashicorp/consul/internal/verifharness/hx"
	"github.com/hashicorp/consul/internal/verifharness/storex"
)

var kvHeavy = &storex.Profile{
	Name:     "kv-heavy",
	W:        map[string]int{"kv": 60, "sc": 6, "sd": 6, "reg": 4, "dereg": 3, "reap": 3, "pqs": 1, "pqd": 1, "txn": 16},
	KVVerbs:  map[string]int{"set": 25, "cas": 15, "delete": 10, "delete-cas": 10, "delete-tree": 8, "lock": 20, "unlock": 12},
	Preamble: 80, EmptyKeyPc: 2,
}

var kvMalformed = &storex.Profile{
	Name:     "kv-malformed",
	W:        map[string]int{"kv": 55, "sc": 8, "sd": 8, "reg": 5, "dereg": 5, "reap": 4, "txn": 15},
	KVVerbs:  map[string]int{"set": 20, "cas": 15, "delete": 10, "delete-cas": 10, "delete-tree": 15, "lock": 15, "unlock": 15},
	Preamble: 50, EmptyKeyPc: 12, NulPrefix: true,
}

var lockHeavy = &storex.Profile{
	Name:     "lock-heavy",
	W:        map[string]int{"kv": 50, "sc": 10, "sd": 12, "reg": 6, "dereg": 6, "reap": 2, "pqs": 2, "txn": 12},
	KVVerbs:  map[string]int{"set": 15, "cas": 8, "delete": 6, "delete-cas": 5, "delete-tree": 6, "lock": 35, "unlock": 25},
	Preamble: 95, EmptyKeyPc: 1,
}

func kv(verb, key string, val string, session string) func(*storex.Snap, uint64) *storex.Op {
	return func(last *storex.Snap, idx uint64) *storex.Op {
		a := &storex.KVArg{Verb: verb, Key: key, Val: []byte(val), Session: session}
		if verb == "cas" || verb == "delete-cas" {
			a.ModIdx = storex.CurModify(last, key)
		}
		return &storex.Op{Kind: "kv", KV: a}
	}
}

func alphabet() []storex.Letter {
	var ls []storex.Letter
	s1, s2 := storex.Sessions[0], storex.Sessions[1]
	for _, k := range []string{"a", "a/", "ab"} {
		ls = append(ls,
			storex.Letter{Name: "set-v1 " + k, Make: kv("set", k, "v1", "")},
			storex.Letter{Name: "cas-cur-v2 " + k, Make: kv("cas", k, "v2", "")},
			storex.Letter{Name: "delete " + k, Make: kv("delete", k, "", "")},
			storex.Letter{Name: "delete-cas-cur " + k, Make: kv("delete-cas", k, "", "")},
			storex.Letter{Name: "lock-s1 " + k, Make: kv("lock", k, "v1", s1)},
			storex.Letter{Name: "lock-s2 " + k, Make: kv("lock", k, "v1", s2)},
			storex.Letter{Name: "unlock-s1 " + k, Make: kv("unlock", k, "v1", s1)},
		)
	}
	// an identical re-write of what key "a" holds (through set and through cas with the current index),
	// with an empty and with a stray session field; and the previous write of the word again, verbatim
	restore := func(verb, session string) func(*storex.Snap, uint64) *storex.Op {
		return func(last *storex.Snap, idx uint64) *storex.Op {
			a := &storex.KVArg{Verb: verb, Key: "a", Val: []byte("v1"), Session: session}
			for _, e := range last.T.KVs {
				if e.Key == "a" {
					a.Val, a.Flags, a.LockIdx = append([]byte(nil), e.Value...), e.Flags, e.LockIndex
				}
			}
			if verb == "cas" {
				a.ModIdx = storex.CurModify(last, "a")
			}
			return &storex.Op{Kind: "kv", KV: a}
		}
	}
	remember := func(l storex.Letter) storex.Letter {
		mk := l.Make
		l.Make = func(last *storex.Snap, idx uint64) *storex.Op {
			op := mk(last, idx)
			if op.Kind == "kv" && (op.KV.Verb == "set" || op.KV.Verb == "cas") {
				c := *op.KV
				prevWrite = &c
			}
			return op
		}
		return l
	}
	for i := range ls {
		ls[i] = remember(ls[i])
	}
	ls = append(ls,
		storex.Letter{Name: "rewrite a identically (set, no session field)", Make: restore("set", "")},
		storex.Letter{Name: "rewrite a identically (set, stray session field)", Make: restore("set", s2)},
		storex.Letter{Name: "rewrite a identically (cas current, stray session field)", Make: restore("cas", s2)},
		storex.Letter{Name: "repeat previous write verbatim", Make: func(last *storex.Snap, idx uint64) *storex.Op {
			if prevWrite == nil {
				return &storex.Op{Kind: "kv", KV: &storex.KVArg{Verb: "set", Key: "a", Val: []byte("v1")}}
			}
			a := *prevWrite
			if a.Verb == "cas" {
				a.ModIdx = storex.CurModify(last, a.Key)
			}
			return &storex.Op{Kind: "kv", KV: &a}
		}},
	)
	ls = append(ls,
		storex.Letter{Name: "delete-tree a", Make: kv("delete-tree", "a", "", "")},
		storex.Letter{Name: "delete-tree a/", Make: kv("delete-tree", "a/", "", "")},
		storex.Letter{Name: "destroy s1", Make: func(*storex.Snap, uint64) *storex.Op { return &storex.Op{Kind: "sd", SessID: s1} }},
	)
	return ls
}

// the exhaustive scope differs per seed (the thorough tier runs three seeds): session behaviours and
// lock delay of the two sessions the words use
var variant int

// the previous set / cas of the current exhaustive word (reset with every word's preamble)
var prevWrite *storex.KVArg

func preamble() []*storex.Op {
	prevWrite = nil
	b1, b2, delay := "release", "delete", 0
	switch variant {
	case 1:
		b1, b2 = "delete", "release"
	case 2:
		b2, delay = "release", 15
	}
	return []*storex.Op{
		{Kind: "reg", Reg: &storex.RegArg{Node: storex.NodeArg{Name: "n1", ID: storex.NodeIDs[1], Addr: "10.0.0.1"}}},
		{Kind: "sc", Sess: &storex.SessArg{ID: storex.Sessions[0], Node: "n1", Behavior: b1, LockDelay: delay}},
		{Kind: "sc", Sess: &storex.SessArg{ID: storex.Sessions[1], Node: "n1", Behavior: b2}},
	}
}

// corpus replays, on every run, the fixed witnesses of the two recorded findings of C03
// (known_findings.txt: kv:list-nul-terminated-prefix, kv:delete-tree-nul-terminated-prefix).
func corpus(run *hx.Run, mons func() []storex.Monitor) {
	h := storex.NewHistory(run, run.RNG.Fork(0xC03), mons(), false)
	set := func(idx uint64, k string) {
		h.Step(&storex.Op{Kind: "kv", Idx: idx, KV: &storex.KVArg{Verb: "set", Key: k, Val: []byte("v1")}})
	}
	set(5, "a")
	set(6, "a/b")
	set(7, "a\x00b")
	h.ReadSweep([]string{"a", "a\x00"})
	h.Step(&storex.Op{Kind: "kv", Idx: 8, KV: &storex.KVArg{Verb: "delete-tree", Key: "a\x00"}})
	h.ReadSweep([]string{"a", "a\x00"})
	h.Finish()
	run.Tag("corpus:nul-terminated-prefix")
	corpusIdenticalRewrite(run, mons)
}

// corpusIdenticalRewrite: an identical write must be a no-op whatever the request's session field says
// (it is never stored by set / cas): on a key held by a session with an empty and with a non-empty
// session field, on an unlocked key with a stray session id, through set, cas, txn set and txn cas.
func corpusIdenticalRewrite(run *hx.Run, mons func() []storex.Monitor) {
	h := storex.NewHistory(run, run.RNG.Fork(0xC032), mons(), false)
	s1, s2 := storex.Sessions[0], storex.Sessions[1]
	idx := uint64(10)
	step := func(op *storex.Op) {
		idx++
		op.Idx = idx
		h.Step(op)
	}
	kv := func(verb, key, session string, lockIdx uint64) *storex.KVArg {
		a := &storex.KVArg{Verb: verb, Key: key, Val: []byte("v"), Flags: 1, Session: session, LockIdx: lockIdx}
		if verb == "cas" {
			a.ModIdx = storex.CurModify(h.Last, key)
		}
		return a
	}
	step(&storex.Op{Kind: "reg", Reg: &storex.RegArg{Node: storex.NodeArg{Name: "n1", ID: storex.NodeIDs[1], Addr: "10.0.0.1"}}})
	step(&storex.Op{Kind: "sc", Sess: &storex.SessArg{ID: s1, Node: "n1", Behavior: "release"}})
	step(&storex.Op{Kind: "sc", Sess: &storex.SessArg{ID: s2, Node: "n1", Behavior: "release"}})
	step(&storex.Op{Kind: "kv", KV: kv("lock", "k", s1, 0)})
	for _, key := range []string{"k", "u"} { // k is held by s1, u is unlocked
		for _, sess := range []string{"", s1, s2} {
			for _, verb := range []string{"set", "cas"} {
				// first write establishes the content, the repetitions must be no-ops
				for rep := 0; rep < 3; rep++ {
					step(&storex.Op{Kind: "kv", KV: kv(verb, key, sess, 0), ViaFSM: rep == 1})
				}
				for rep := 0; rep < 2; rep++ {
					a := kv(verb, key, sess, 0)
					step(&storex.Op{Kind: "txn", Txn: []storex.TxnOpArg{{Fam: 'k', Verb: verb, KV: a}}, ViaFSM: rep == 1})
				}
			}
		}
	}
	h.ReadSweep([]string{"", "k"})
	h.Finish()
	run.Tag("corpus:identical-rewrite")
}

func main() {
	run := hx.Start()
	run.Rule = "every result line, every full table dump (after every command) and every KVSGet/KVSList answer of the real state store equals the Lean model's; Go reference map + no-op/CreateIndex/LockIndex laws hold on the implementation"
	mons := func() []storex.Monitor { return []storex.Monitor{&storex.RefMap{}} }
	corpus(run, mons)
	storex.RandomHistories(run, []*storex.Profile{kvHeavy, lockHeavy, kvMalformed}, run.Scale(400, 3000), 30, mons, true)
	variant = int((run.Seed / 7) % 3)
	run.Tag("exhaustive-variant:" + string(rune('0'+variant)))
	storex.Exhaustive(run, preamble, alphabet(), run.Scale(2, 3), mons, run.Thorough())
	run.Finish()
}
