//go:build verif

// C05 harness: transactions are all-or-nothing and isolated.
// For a random pre-state (nodes, services, checks, sessions, locked keys, prepared queries) it builds an
// operation list mixing KV, node, service, check and session verbs, and runs
//   * the list with a FAILING operation injected at every position (each must abort),
//   * the list itself (commits unless one of its own guards fails),
//   * read-only transactions (Store.TxnRO) of read verbs, and — as malformed input — of write verbs,
// on a real fsm.FSM / state.Store (TxnRequest through fsm.Apply, or Store.TxnRW directly). Every result
// (results or error positions) and a full dump after every transaction is compared with the Lean model.
// Monitors (model independent):
//   aborted  ⇒ dump byte-identical (all tables, index table, tombstones), no Publish call on the event
//              publisher, no channel of a WatchSet registered before the transaction fired, lock-delay
//              keys unchanged;
//   committed ⇒ every row that was added or changed carries the transaction's index, every changed
//              index-table row equals it, events carry it;
//   fold     ⇒ running the same operations one by one as single-operation transactions on a twin store
//              gives the same error positions, the same results and (if nothing failed) the same final
//              state: operations see exactly the effects of the earlier ones;
//   read-only ⇒ TxnRO changes nothing, publishes nothing, wakes nobody; on read verbs it answers exactly
//              like TxnRW.
package main

import (
	"fmt"
	"strings"

	"github.com/hashicorp/consul/internal/verifharness/hx"
	"github.com/hashicorp/consul/internal/verifharness/storex"
)

var pre = &storex.Profile{
	Name:     "pre-state",
	W:        map[string]int{"kv": 40, "sc": 16, "sd": 3, "reg": 16, "dereg": 4, "pqs": 5, "txn": 6, "reap": 1},
	KVVerbs:  map[string]int{"set": 25, "cas": 5, "delete": 5, "delete-cas": 3, "delete-tree": 3, "lock": 45, "unlock": 10},
	Preamble: 90,
}

const missingKey = "zz/missing"
const missingSession = "ffffffff-ffff-ffff-ffff-ffffffffffff"

type caseRun struct {
	run   *hx.Run
	h     *storex.History
	pub   *storex.RecPublisher
	g     *storex.Gen
	r     *hx.RNG
	twin  []*storex.Op // committed commands so far (to rebuild a twin world)
	label string
}

func kvOp(verb, key, session string, mod uint64) storex.TxnOpArg {
	return storex.TxnOpArg{Fam: 'k', Verb: verb, KV: &storex.KVArg{Verb: verb, Key: key, Val: []byte("f"), Session: session, ModIdx: mod}}
}

// failingOp returns an operation that fails whatever precedes it in the transaction (reserved names),
// or — for variety — one that fails against the current state.
func (c *caseRun) failingOp() (storex.TxnOpArg, string) {
	last := c.h.Last
	switch c.r.Intn(16) {
	case 0:
		return kvOp("get", missingKey, "", 0), "get-missing"
	case 1:
		return kvOp("check-index", missingKey, "", 3), "check-index-missing"
	case 2:
		return kvOp("check-session", missingKey, storex.Sessions[0], 0), "check-session-missing"
	case 3:
		return kvOp("cas", missingKey, "", 99), "cas-stale"
	case 4:
		return kvOp("lock", "a", missingSession, 0), "lock-invalid-session"
	case 5:
		return kvOp("unlock", missingKey, storex.Sessions[0], 0), "unlock-not-held"
	case 6:
		return storex.TxnOpArg{Fam: 'n', Verb: "get", Node: &storex.NodeArg{Name: "zz"}}, "node-get-missing"
	case 7:
		return storex.TxnOpArg{Fam: 's', Verb: "get", Svc: &storex.SvcArg{Node: "zz", ID: "web", Name: "web"}}, "service-get-missing"
	case 8:
		return storex.TxnOpArg{Fam: 'c', Verb: "set", Chk: &storex.ChkArg{Node: "zz", ID: "c1", Status: "passing"}}, "check-set-missing-node"
	case 9:
		return storex.TxnOpArg{Fam: 's', Verb: "set", Svc: &storex.SvcArg{Node: "zz", ID: "web", Name: "web", Port: 1}}, "service-set-missing-node"
	case 10:
		return storex.TxnOpArg{Fam: 'n', Verb: "cas", Node: &storex.NodeArg{Name: "zz", Addr: "10.9.9.9", ModIdx: 77}}, "node-cas-stale"
	case 11:
		return kvOp("delete-cas", missingKey+"x", "", 5), "noop-delete-cas(ok)" // absent key: reports success, must NOT abort
	}
	// state dependent guards
	if len(last.T.KVs) > 0 {
		e := hx.Pick(c.r, last.T.KVs)
		switch c.r.Intn(4) {
		case 0:
			return kvOp("check-not-exists", e.Key, "", 0), "check-not-exists-on-existing"
		case 1:
			return kvOp("check-index", e.Key, "", e.ModifyIndex+1), "check-index-stale"
		case 2:
			return kvOp("check-session", e.Key, missingSession, 0), "check-session-wrong"
		default:
			return kvOp("delete-cas", e.Key, "", e.ModifyIndex+7), "delete-cas-stale"
		}
	}
	return kvOp("get", missingKey, "", 0), "get-missing"
}

func hasCascade(ops []storex.TxnOpArg) bool {
	for i := range ops {
		o := &ops[i]
		if o.Fam == 'x' || (o.Fam == 'n' && (o.Verb == "delete" || o.Verb == "set")) || (o.Fam == 'c' && o.Verb != "get") || (o.Fam == 's' && strings.HasPrefix(o.Verb, "delete")) {
			return true
		}
	}
	return false
}

func replayOf(h *storex.History) []string { return append([]string(nil), h.Lines...) }

// twinWorld rebuilds the current state on a second FSM by re-executing the commands applied so far.
func (c *caseRun) twinWorld(n int) *storex.World {
	w, _ := storex.C05NewWorld()
	for _, op := range c.twin[:n] {
		w.Exec(op)
	}
	return w
}

// txn runs one read-write transaction with all monitors.
func (c *caseRun) txn(ops []storex.TxnOpArg, kind string) string {
	h := c.h
	idx := c.g.Idx + 1 + uint64(c.r.Intn(3))
	c.g.Idx = idx
	op := &storex.Op{Kind: "txn", Idx: idx, Txn: ops, ViaFSM: c.r.Bool()}
	before := h.Last
	calls, events, dataEvents := c.pub.Calls, c.pub.Events, c.pub.DataEvents
	ws := h.W.C05WatchSet([]string{missingKey})
	fullBefore := takeFull(h.W.Store())
	res := h.Step(op)
	fullAfter := takeFull(h.W.Store())
	after := h.Last
	rp := replayOf(h)
	aborted := strings.HasPrefix(res, "errs:")
	c.run.Tag("txn:" + kind)
	c.run.Tag(fmt.Sprintf("txn-len:%d", min(len(ops), 8)))
	if aborted {
		c.run.Tag("outcome:aborted")
		if hasCascade(ops) {
			c.run.Tag("aborted:with-cascading-verb")
		}
		if d0, d1 := before.Dump(), after.Dump(); d0 != d1 {
			c.run.Violate("txn:aborted-transaction-changed-state", fmt.Sprintf("transaction answered %s but the dump changed\nbefore: %s\nafter:  %s", res, d0, d1), rp)
		}
		if d := firstDiff(fullBefore, fullAfter); d != "" {
			c.run.Violate("txn:aborted-transaction-changed-table:"+tableOfDiff(d), "a transaction that failed changed the store (deep dump of every table): "+d, rp)
		}
		if c.pub.Calls != calls || c.pub.Events != events {
			c.run.Violate("txn:aborted-transaction-published-events", fmt.Sprintf("aborted transaction: %d Publish calls, %d events", c.pub.Calls-calls, c.pub.Events-events), rp)
		}
		if storex.Fired(ws) {
			c.run.Violate("txn:aborted-transaction-woke-watcher", "a watch channel registered before an aborted transaction fired", rp)
		}
		if strings.Join(before.Delays, ",") != strings.Join(after.Delays, ",") {
			c.run.Violate("txn:aborted-transaction-armed-lock-delay", fmt.Sprintf("lock-delay keys %q -> %q after an aborted transaction", before.Delays, after.Delays), rp)
		}
		// the error list names positions in range, in increasing order
		last := -1
		for _, t := range strings.Split(strings.TrimPrefix(res, "errs:"), ",") {
			var p int
			fmt.Sscanf(t, "%d:", &p)
			if p <= last || p >= len(ops) {
				c.run.Violate("txn:error-positions-malformed", "error positions "+res, rp)
			}
			last = p
		}
	} else if strings.HasPrefix(res, "ok:") {
		c.run.Tag("outcome:committed")
		c.twin = append(c.twin, op)
		if c.pub.Calls != calls+1 {
			c.run.Violate("txn:commit-publish-count", fmt.Sprintf("committed transaction made %d Publish calls", c.pub.Calls-calls), rp)
		}
		if c.pub.DataEvents > dataEvents && (c.pub.LastMin != idx || c.pub.LastMax != idx) {
			c.run.Violate("txn:event-index", fmt.Sprintf("events of the transaction at index %d carry indexes %d..%d", idx, c.pub.LastMin, c.pub.LastMax), rp)
		}
		if d := mutatedInPlace(fullBefore, fullAfter); d != "" {
			c.run.Violate("txn:committed-object-mutated-in-place:"+tableOfDiff(d), d, rp)
		}
		if d := storex.C05ChangedRowsCarry(before, after, idx); d != "" {
			c.run.Violate("txn:changed-row-without-txn-index:"+strings.SplitN(d, " ", 2)[0], d, rp)
		}
		if before.Dump() != after.Dump() {
			c.h.MarkNontrivial()
			if !storex.Fired(ws) {
				// every modelled table is covered by the watch set; a data change must wake somebody
				c.run.Tag("commit:changed-without-wakeup")
			}
		}
	}
	return res
}

// foldMonitor: the same operations, one per transaction, on a twin store.
func (c *caseRun) foldMonitor(twinLen int, ops []storex.TxnOpArg, idx uint64, res string, stateAfter string) {
	w := c.twinWorld(twinLen)
	var errs, results []string
	for i := range ops {
		r := w.Exec(&storex.Op{Kind: "txn", Idx: idx, Txn: ops[i : i+1]})
		switch {
		case strings.HasPrefix(r, "errs:0:"):
			errs = append(errs, fmt.Sprintf("%d:%s", i, strings.TrimPrefix(r, "errs:0:")))
		case strings.HasPrefix(r, "ok:"):
			if t := strings.TrimPrefix(r, "ok:"); t != "-" {
				results = append(results, t)
			}
		default:
			errs = append(errs, fmt.Sprintf("%d:?%s", i, r))
		}
	}
	want := "ok:" + hx.EncList(results)
	if len(errs) > 0 {
		want = "errs:" + hx.EncList(errs)
	}
	if want != res {
		c.run.Violate("txn:not-the-fold-of-its-operations:answer", fmt.Sprintf("transaction answered %s; its operations one by one answer %s", res, want), replayOf(c.h))
		return
	}
	if len(errs) == 0 {
		if d := w.Observe(storex.Keys).Dump(); d != stateAfter {
			c.run.Violate("txn:not-the-fold-of-its-operations:state", fmt.Sprintf("state after the transaction differs from the state after its operations one by one\n txn:  %s\n fold: %s", stateAfter, d), replayOf(c.h))
		}
	}
	c.run.Tag("monitor:fold")
}

func (c *caseRun) readOnly(ops []storex.TxnOpArg, malformed bool) {
	h := c.h
	before := h.Last.Dump()
	calls := c.pub.Calls
	ws := h.W.C05WatchSet([]string{missingKey})
	fullBefore := takeFull(h.W.Store())
	line, out := h.W.ROLine(ops)
	if d := firstDiff(fullBefore, takeFull(h.W.Store())); d != "" {
		c.run.Violate("txn:read-only-transaction-changed-table:"+tableOfDiff(d), d, replayOf(h))
	}
	c.run.Line(line, out)
	after := h.W.Observe(storex.Keys)
	c.run.Line("dump", after.Dump())
	h.Lines = append(h.Lines, line)
	rp := replayOf(h)
	if after.Dump() != before {
		c.run.Violate("txn:read-only-transaction-changed-state", "TxnRO answered "+out+" and the dump changed", rp)
	}
	if c.pub.Calls != calls || storex.Fired(ws) {
		c.run.Violate("txn:read-only-transaction-side-effect", "TxnRO published or woke a watcher", rp)
	}
	if strings.Contains(out, "panic(") || strings.Contains(out, "unmapped(") {
		c.run.Violate("harness:unclassified-answer:txnro", out, rp)
	}
	if !malformed {
		// on read verbs TxnRO answers exactly like TxnRW (which then changes nothing either)
		w := c.twinWorld(len(c.twin))
		r := w.Exec(&storex.Op{Kind: "txn", Idx: c.g.Idx + 1, Txn: ops})
		if r != out {
			c.run.Violate("txn:read-only-differs-from-read-write", fmt.Sprintf("TxnRO answered %s, TxnRW answers %s on the same read verbs", out, r), rp)
		}
		c.run.Tag("ro:read-verbs:" + strings.SplitN(out, ":", 2)[0])
	} else {
		c.run.Tag("ro:with-write-verbs:" + strings.SplitN(out, ":", 2)[0])
	}
	h.Last = after
}

func oneCase(run *hx.Run, n int) {
	r := run.RNG.Fork(uint64(n))
	h, pub := storex.C05NewHistory(run, r, nil)
	g := &storex.Gen{R: r, P: pre, W: h.W, Idx: uint64(r.Intn(10))}
	c := &caseRun{run: run, h: h, pub: pub, g: g, r: r}
	step := func(op *storex.Op) {
		g.Last = h.Last
		res := h.Step(op)
		g.Last = h.Last
		if !strings.HasPrefix(res, "err") && res != "false" {
			c.twin = append(c.twin, op)
		}
	}
	g.Last = h.Last
	if r.Chance(pre.Preamble) {
		for _, op := range g.Preamble() {
			step(op)
		}
	}
	for k := r.Intn(12); k > 0; k-- {
		g.Last = h.Last
		step(g.Next())
	}
	g.Last = h.Last
	// the operation list
	var ops []storex.TxnOpArg
	for k := 1 + r.Intn(6); k > 0; k-- {
		ops = append(ops, g.C05TxnOp())
	}
	// a failing operation at every position
	for p := 0; p <= len(ops); p++ {
		f, kind := c.failingOp()
		v := append(append(append([]storex.TxnOpArg(nil), ops[:p]...), f), ops[p:]...)
		pos := "middle"
		if p == 0 {
			pos = "first"
		} else if p == len(ops) {
			pos = "last"
		}
		run.Tag("inject:" + kind)
		run.Tag("inject-pos:" + pos)
		tl := len(c.twin)
		res := c.txn(v, "with-failing-op")
		if r.Chance(25) {
			c.foldMonitor(tl, v, g.Idx, res, h.Last.Dump())
		}
		g.Last = h.Last
	}
	// the list itself
	tl := len(c.twin)
	res := c.txn(ops, "plain")
	c.foldMonitor(tl, ops, g.Idx, res, h.Last.Dump())
	g.Last = h.Last
	// read-only transactions
	var ro []storex.TxnOpArg
	for k := 1 + r.Intn(5); k > 0; k-- {
		o := g.C05TxnOp()
		for tries := 0; !o.IsReadOp() && tries < 30; tries++ {
			o = g.C05TxnOp()
		}
		if o.IsReadOp() {
			ro = append(ro, o)
		}
	}
	if len(ro) > 0 {
		c.readOnly(ro, false)
	}
	if r.Chance(35) {
		var w []storex.TxnOpArg
		for k := 1 + r.Intn(4); k > 0; k-- {
			w = append(w, g.C05TxnOp())
		}
		c.readOnly(w, true)
	}
	if n < 3 {
		run.Sample(map[string]any{"ops": h.Lines})
	}
	h.Finish()
}

func main() {
	run := hx.Start()
	run.Rule = "every transaction answer (results / error positions) and the full table dump after every transaction equal the Lean model's; aborted => nothing changed, nothing published, nobody woken, no lock delay; committed => changed rows carry the index; transaction = fold of its operations; TxnRO never writes"
	n := run.Scale(600, 5000)
	for i := 0; i < n; i++ {
		oneCase(run, i)
	}
	// monitor-only cases over the tables outside the Lean model (see shadow.go)
	for i := 0; i < run.Scale(300, 2500); i++ {
		shadowCase(run, i)
	}
	// the layers above the store: HTTP handler, RPC endpoint with ACLs, Raft (see layers.go)
	for i := 0; i < run.Scale(150, 1200); i++ {
		layeredCase(run, i)
	}
	run.Finish()
}
