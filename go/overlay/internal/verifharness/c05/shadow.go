//go:build verif

package main

// Monitor-only cases ("shadow" cases): pre-states and transactions that reach the tables the Lean model
// does not cover — connect proxies with upstreams (mesh-topology), several sidecars sharing one
// upstream/downstream pair, connect-native services, terminating / ingress gateways with wildcard
// entries (gateway-services), kind-service-names, service virtual IPs (virtual IPs switched on), usage.
// They are NOT sent to the Lean engine; all-or-nothing is CHECKED here by a deep, full dump of every
// memdb table before and after every transaction.

import (
	"fmt"
	"reflect"
	"strings"

	"github.com/hashicorp/consul/agent/consul/state"
	"github.com/hashicorp/consul/agent/netutil"
	"github.com/hashicorp/consul/agent/structs"
	"github.com/hashicorp/consul/api"
	"github.com/hashicorp/consul/internal/verifharness/hx"
	"github.com/hashicorp/consul/internal/verifharness/storex"
	"github.com/hashicorp/consul/types"
)

// fullDump is the deep dump of all tables.
type fullDump struct {
	rows []state.VerifC05Row
	text string
}

func takeFull(st *state.Store) *fullDump {
	d := &fullDump{rows: st.VerifC05FullRows()}
	var b strings.Builder
	for _, r := range d.rows {
		b.WriteString(r.Table)
		b.WriteByte('\t')
		b.WriteString(r.Ser)
		b.WriteByte('\n')
	}
	d.text = b.String()
	return d
}

// firstDiff names the first table / row where two dumps differ.
func firstDiff(a, b *fullDump) string {
	for i := 0; i < len(a.rows) || i < len(b.rows); i++ {
		switch {
		case i >= len(a.rows):
			return fmt.Sprintf("table %s: extra row %s", b.rows[i].Table, clip(b.rows[i].Ser))
		case i >= len(b.rows):
			return fmt.Sprintf("table %s: row vanished %s", a.rows[i].Table, clip(a.rows[i].Ser))
		case a.rows[i].Table != b.rows[i].Table || a.rows[i].Ser != b.rows[i].Ser:
			return fmt.Sprintf("table %s: %s  ->  table %s: %s", a.rows[i].Table, clip(a.rows[i].Ser), b.rows[i].Table, clip(b.rows[i].Ser))
		}
	}
	return ""
}

func clip(s string) string {
	if len(s) > 400 {
		return s[:400] + "…"
	}
	return s
}

func tableOfDiff(d string) string {
	f := strings.Fields(d)
	if len(f) > 1 {
		return strings.TrimSuffix(f[1], ":")
	}
	return "?"
}

// aliasing: a row object that is the same object before and after must have the same content.
func mutatedInPlace(before, after *fullDump) string {
	old := map[interface{}]string{}
	isPtr := func(o interface{}) bool { return reflect.ValueOf(o).Kind() == reflect.Ptr }
	for _, r := range before.rows {
		if isPtr(r.Obj) { // rows stored by value have no identity (and may be unhashable)
			old[r.Obj] = r.Ser
		}
	}
	for _, r := range after.rows {
		if !isPtr(r.Obj) {
			continue
		}
		if s, ok := old[r.Obj]; ok && s != r.Ser {
			return fmt.Sprintf("table %s: stored object mutated in place: %s  ->  %s", r.Table, clip(s), clip(r.Ser))
		}
	}
	return ""
}

type shadow struct {
	run   *hx.Run
	r     *hx.RNG
	w     *storex.World
	pub   *storex.RecPublisher
	idx   uint64
	trace []string
}

func (s *shadow) st() *state.Store { return s.w.Store() }
func (s *shadow) next() uint64    { s.idx++; return s.idx }
func (s *shadow) note(f string, a ...any) {
	s.trace = append(s.trace, fmt.Sprintf(f, a...))
}

var shNodes = []string{"n1", "n2", "n3"}
var shNodeIDs = map[string]string{"n1": storex.NodeIDs[1], "n2": storex.NodeIDs[2], "n3": storex.NodeIDs[3]}

func proxySvc(dest string, ups ...string) *structs.NodeService {
	p := &structs.NodeService{Kind: structs.ServiceKindConnectProxy, ID: dest + "-sidecar-proxy", Service: dest + "-sidecar-proxy", Port: 21000,
		Proxy: structs.ConnectProxyConfig{DestinationServiceName: dest}}
	for i, u := range ups {
		p.Proxy.Upstreams = append(p.Proxy.Upstreams, structs.Upstream{DestinationName: u, LocalBindPort: 9100 + i})
	}
	return p
}

func (s *shadow) reg(node string, svc *structs.NodeService, checks ...*structs.HealthCheck) {
	req := &structs.RegisterRequest{Node: node, ID: types.NodeID(shNodeIDs[node]), Address: "10.0.0.1", Service: svc, Checks: checks}
	err := s.st().EnsureRegistration(s.next(), req)
	id := "-"
	if svc != nil {
		id = svc.ID
	}
	s.note("register %s %s -> %v", node, id, err)
}

func (s *shadow) preState() {
	st := s.st()
	if s.r.Chance(85) {
		s.note("virtual-ips on: %v", st.SystemMetadataSet(s.next(), &structs.SystemMetadataEntry{Key: structs.SystemMetadataVirtualIPsEnabled, Value: "true"}))
		st.SystemMetadataSet(s.next(), &structs.SystemMetadataEntry{Key: structs.SystemMetadataTermGatewayVirtualIPsEnabled, Value: "true"})
	}
	if s.r.Chance(60) {
		tg := &structs.TerminatingGatewayConfigEntry{Kind: structs.TerminatingGateway, Name: "tgw", Services: []structs.LinkedService{{Name: "db"}}}
		if s.r.Bool() {
			tg.Services = append(tg.Services, structs.LinkedService{Name: "*"})
		}
		tg.Normalize()
		s.note("terminating-gateway config: %v", st.EnsureConfigEntry(s.next(), tg))
	}
	if s.r.Chance(50) {
		ig := &structs.IngressGatewayConfigEntry{Kind: structs.IngressGateway, Name: "igw",
			Listeners: []structs.IngressListener{{Port: 8080, Protocol: "tcp", Services: []structs.IngressService{{Name: "web"}}}}}
		if s.r.Bool() {
			ig.Listeners = []structs.IngressListener{{Port: 8080, Protocol: "http", Services: []structs.IngressService{{Name: "*"}}}}
			pd := &structs.ProxyConfigEntry{Kind: structs.ProxyDefaults, Name: structs.ProxyConfigGlobal, Config: map[string]interface{}{"protocol": "http"}}
			pd.Normalize()
			st.EnsureConfigEntry(s.next(), pd)
		}
		ig.Normalize()
		s.note("ingress-gateway config: %v", st.EnsureConfigEntry(s.next(), ig))
	}
	for _, n := range shNodes {
		s.reg(n, nil, &structs.HealthCheck{Node: n, CheckID: "serfHealth", Status: "passing"})
	}
	s.reg("n1", &structs.NodeService{ID: "db", Service: "db", Port: 5432})
	for _, n := range []string{"n1", "n2"} {
		s.reg(n, &structs.NodeService{ID: "web", Service: "web", Port: 80})
		ups := []string{"db"}
		if s.r.Chance(40) {
			ups = append(ups, "api")
		}
		s.reg(n, proxySvc("web", ups...), &structs.HealthCheck{Node: n, CheckID: "proxy-alive", Status: "passing", ServiceID: "web-sidecar-proxy"})
	}
	if s.r.Chance(70) {
		s.reg("n3", &structs.NodeService{ID: "api", Service: "api", Port: 81})
		s.reg("n3", proxySvc("api", "db"))
	}
	if s.r.Chance(50) {
		s.reg("n2", &structs.NodeService{ID: "nat", Service: "nat", Port: 82, Connect: structs.ServiceConnect{Native: true}})
	}
	if s.r.Chance(60) {
		s.reg("n3", &structs.NodeService{Kind: structs.ServiceKindTerminatingGateway, ID: "tgw", Service: "tgw", Port: 8443})
	}
	if s.r.Chance(50) {
		s.reg("n3", &structs.NodeService{Kind: structs.ServiceKindIngressGateway, ID: "igw", Service: "igw", Port: 8080})
	}
	if s.r.Chance(40) {
		s.reg("n2", &structs.NodeService{Kind: structs.ServiceKindMeshGateway, ID: "mgw", Service: "mgw", Port: 8444})
	}
	// a session and a locked key so that cascades also reach sessions / kvs
	if s.r.Chance(60) {
		sess := &structs.Session{ID: storex.Sessions[0], Node: "n1", LockDelay: 15e9, NodeChecks: []string{"serfHealth"}}
		s.note("session: %v", st.SessionCreate(s.next(), sess))
		st.KVSLock(s.next(), &structs.DirEntry{Key: "k", Value: []byte("v"), Session: storex.Sessions[0]})
	}
}

func (s *shadow) genOp() (*structs.TxnOp, string) {
	node := hx.Pick(s.r, shNodes)
	switch s.r.Intn(14) {
	case 12, 13:
		// legacy intention operations (pre-1.9 Raft logs): connect-intentions table; two of the ops are refused
		id := hx.Pick(s.r, []string{"99999999-0000-0000-0000-000000000001", "99999999-0000-0000-0000-000000000002"})
		ixn := &structs.Intention{ID: id, SourceNS: "default", SourceName: hx.Pick(s.r, []string{"web", "api"}), DestinationNS: "default",
			DestinationName: hx.Pick(s.r, []string{"db", "web"}), Action: structs.IntentionActionAllow, SourceType: structs.IntentionSourceConsul}
		op := hx.Pick(s.r, []structs.IntentionOp{structs.IntentionOpCreate, structs.IntentionOpCreate, structs.IntentionOpUpdate,
			structs.IntentionOpDelete, structs.IntentionOpDeleteAll, structs.IntentionOpUpsert})
		return &structs.TxnOp{Intention: &structs.TxnIntentionOp{Op: op, Intention: ixn}}, "legacy-intention-" + string(op)
	case 0, 1, 2:
		id := hx.Pick(s.r, []string{"web-sidecar-proxy", "web-sidecar-proxy", "api-sidecar-proxy", "web", "db", "tgw", "igw", "nat"})
		verb := api.ServiceDelete
		svc := structs.NodeService{ID: id}
		if s.r.Chance(30) {
			verb = api.ServiceDeleteCAS
			if _, e, _ := s.st().NodeService(nil, node, id, nil, ""); e != nil {
				svc.ModifyIndex = e.ModifyIndex
			}
		}
		return &structs.TxnOp{Service: &structs.TxnServiceOp{Verb: verb, Node: node, Service: svc}}, "service-" + string(verb)
	case 3:
		return &structs.TxnOp{Node: &structs.TxnNodeOp{Verb: api.NodeDelete, Node: structs.Node{Node: node}}}, "node-delete"
	case 4:
		// rename by node ID: deletes the old node with everything on it
		return &structs.TxnOp{Node: &structs.TxnNodeOp{Verb: api.NodeSet, Node: structs.Node{Node: node + "-renamed", ID: types.NodeID(shNodeIDs[node]), Address: "10.0.0.9"}}}, "node-rename"
	case 5, 6:
		p := proxySvc(hx.Pick(s.r, []string{"web", "api", "db"}), hx.Pick(s.r, []string{"db", "api", "web"}))
		if s.r.Bool() {
			p.ID += "-2"
		}
		return &structs.TxnOp{Service: &structs.TxnServiceOp{Verb: api.ServiceSet, Node: node, Service: *p}}, "proxy-set"
	case 7:
		name := hx.Pick(s.r, []string{"web", "db", "api", "cache"})
		return &structs.TxnOp{Service: &structs.TxnServiceOp{Verb: api.ServiceSet, Node: node, Service: structs.NodeService{ID: name, Service: name, Port: 90 + s.r.Intn(3)}}}, "service-set"
	case 8:
		return &structs.TxnOp{Check: &structs.TxnCheckOp{Verb: api.CheckSet, Check: structs.HealthCheck{Node: node, CheckID: "serfHealth", Status: hx.Pick(s.r, []string{"passing", "critical"})}}}, "check-set"
	case 9:
		return &structs.TxnOp{Check: &structs.TxnCheckOp{Verb: api.CheckDelete, Check: structs.HealthCheck{Node: node, CheckID: "proxy-alive"}}}, "check-delete"
	case 10:
		return &structs.TxnOp{KV: &structs.TxnKVOp{Verb: api.KVSet, DirEnt: structs.DirEntry{Key: hx.Pick(s.r, []string{"k", "a", "a/b"}), Value: []byte("x")}}}, "kv-set"
	}
	return &structs.TxnOp{Session: &structs.TxnSessionOp{Verb: api.SessionDelete, Session: structs.Session{ID: storex.Sessions[0]}}}, "session-delete"
}

func failingGuard(r *hx.RNG) *structs.TxnOp {
	switch r.Intn(4) {
	case 0:
		return &structs.TxnOp{KV: &structs.TxnKVOp{Verb: api.KVCheckIndex, DirEnt: structs.DirEntry{Key: "no/such/key", RaftIndex: structs.RaftIndex{ModifyIndex: 1}}}}
	case 1:
		return &structs.TxnOp{KV: &structs.TxnKVOp{Verb: api.KVGet, DirEnt: structs.DirEntry{Key: "no/such/key"}}}
	case 2:
		return &structs.TxnOp{Service: &structs.TxnServiceOp{Verb: api.ServiceSet, Node: "zz", Service: structs.NodeService{ID: "x", Service: "x"}}}
	}
	return &structs.TxnOp{Node: &structs.TxnNodeOp{Verb: api.NodeGet, Node: structs.Node{Node: "zz"}}}
}

func (s *shadow) txn(ops structs.TxnOps, label string) {
	st := s.st()
	before := takeFull(st)
	calls := s.pub.Calls
	ws := s.w.C05WatchSet(nil)
	delays := s.w.Observe(storex.Keys).Delays
	idx := s.next()
	res, errs := st.TxnRW(idx, ops)
	after := takeFull(st)
	s.note("txn@%d [%s] -> %d results, %d errors", idx, label, len(res), len(errs))
	rp := append([]string(nil), s.trace...)
	if len(errs) > 0 {
		s.run.Tag("shadow:aborted")
		if d := firstDiff(before, after); d != "" {
			s.run.Violate("txn:aborted-transaction-changed-table:"+tableOfDiff(d), "a transaction that failed ("+errs[0].What+") changed the store: "+d, rp)
		}
		if s.pub.Calls != calls || storex.Fired(ws) {
			s.run.Violate("txn:aborted-transaction-side-effect(shadow)", "an aborted transaction published or woke a watcher", rp)
		}
		if strings.Join(delays, ",") != strings.Join(s.w.Observe(storex.Keys).Delays, ",") {
			s.run.Violate("txn:aborted-transaction-armed-lock-delay", "lock-delay keys changed after an aborted transaction", rp)
		}
	} else {
		s.run.Tag("shadow:committed")
		if d := mutatedInPlace(before, after); d != "" {
			s.run.Violate("txn:committed-object-mutated-in-place:"+tableOfDiff(d), d, rp)
		}
		if before.text != after.text {
			for _, t := range []string{"mesh-topology", "gateway-services", "kind-service-names", "service-virtual-ips", "free-virtual-ips", "usage"} {
				if tableText(before, t) != tableText(after, t) {
					s.run.Tag("shadow:committed-changed:" + t)
				}
			}
		}
	}
}

// freshOps: what a new request with the same content looks like. memdb stores the very object an insert
// was given, so after a commit the request's intention IS the stored row; every real request is decoded
// into fresh objects, and so must the next use of these operations be.
func freshOps(ops structs.TxnOps) structs.TxnOps {
	out := make(structs.TxnOps, len(ops))
	for i, op := range ops {
		cp := *op
		if op.Intention != nil {
			ix := *op.Intention
			if ix.Intention != nil {
				obj := *ix.Intention
				ix.Intention = &obj
			}
			cp.Intention = &ix
		}
		out[i] = &cp
	}
	return out
}

func tableText(d *fullDump, table string) string {
	var b strings.Builder
	for _, r := range d.rows {
		if r.Table == table {
			b.WriteString(r.Ser)
		}
	}
	return b.String()
}

func init() {
	// virtual-IP assignment asks the local agent for its bind address (IPv4 vs dual stack); there is no agent
	// in the harness, so the lookup is answered by the repository's own mock (IPv4)
	netutil.GetAgentBindAddrFunc = netutil.GetMockGetAgentBindAddrFunc("0.0.0.0")
}

func shadowCase(run *hx.Run, n int) {
	r := run.RNG.Fork(0x5AD0 + uint64(n))
	w, pub := storex.C05NewWorld()
	s := &shadow{run: run, r: r, w: w, pub: pub}
	s.preState()
	pre := takeFull(s.st())
	if n < 2 {
		run.Sample(map[string]any{"shadow_pre_state": append([]string(nil), s.trace...)})
	}
	for _, t := range []string{"mesh-topology", "gateway-services", "kind-service-names", "service-virtual-ips"} {
		if tableText(pre, t) != "" {
			run.Tag("shadow:pre-state-has:" + t)
		}
	}
	for round := 0; round < 2; round++ {
		var ops structs.TxnOps
		var kinds []string
		for k := 1 + r.Intn(4); k > 0; k-- {
			op, kind := s.genOp()
			ops = append(ops, op)
			kinds = append(kinds, kind)
			run.Tag("shadow-op:" + kind)
		}
		label := strings.Join(kinds, ",")
		for p := 0; p <= len(ops); p++ {
			v := append(append(append(structs.TxnOps(nil), ops[:p]...), failingGuard(r)), ops[p:]...)
			s.txn(v, fmt.Sprintf("%s + failing guard at %d", label, p))
		}
		s.txn(ops, label)
		// read-only transaction: never changes anything
		before := takeFull(s.st())
		s.st().TxnRO(freshOps(ops))
		if d := firstDiff(before, takeFull(s.st())); d != "" {
			run.Violate("txn:read-only-transaction-changed-table:"+tableOfDiff(d), d, append([]string(nil), s.trace...))
		}
	}
	if n%4 == 0 {
		s.panicking()
	}
	run.Case(fmt.Sprintf("shadow-%d-%s", n, strings.Join(s.trace, "|")), true)
}

// panicking: an operation with a verb the dispatcher does not know (a newer server's log entry) makes
// TxnRW panic in the middle of the write transaction, after earlier operations have written. Whatever the
// caller does with the panic, the store must be as it was (deferred Abort), nothing published, and the
// store must still accept writes (the writer lock was released).
func (s *shadow) panicking() {
	st := s.st()
	var bogus *structs.TxnOp
	kind := ""
	switch s.r.Intn(5) {
	case 0:
		bogus, kind = &structs.TxnOp{KV: &structs.TxnKVOp{Verb: "bogus", DirEnt: structs.DirEntry{Key: "k"}}}, "kv"
	case 1:
		bogus, kind = &structs.TxnOp{Node: &structs.TxnNodeOp{Verb: "bogus", Node: structs.Node{Node: "n1"}}}, "node"
	case 2:
		bogus, kind = &structs.TxnOp{Service: &structs.TxnServiceOp{Verb: "bogus", Node: "n1", Service: structs.NodeService{ID: "web"}}}, "service"
	case 3:
		bogus, kind = &structs.TxnOp{Check: &structs.TxnCheckOp{Verb: "bogus", Check: structs.HealthCheck{Node: "n1", CheckID: "serfHealth"}}}, "check"
	default:
		bogus, kind = &structs.TxnOp{Session: &structs.TxnSessionOp{Verb: "bogus", Session: structs.Session{ID: storex.Sessions[0]}}}, "session"
	}
	var ops structs.TxnOps
	for k := 1 + s.r.Intn(3); k > 0; k-- {
		op, _ := s.genOp()
		ops = append(ops, op)
	}
	ops = append(ops, bogus)
	before := takeFull(st)
	calls := s.pub.Calls
	ws := s.w.C05WatchSet(nil)
	idx := s.next()
	panicked := false
	func() {
		defer func() {
			if r := recover(); r != nil {
				panicked = true
			}
		}()
		st.TxnRW(idx, ops)
	}()
	s.note("txn@%d with an unknown %s verb at the end -> panicked=%v", idx, kind, panicked)
	s.run.Tag(fmt.Sprintf("shadow:unknown-%s-verb:panicked=%v", kind, panicked))
	rp := append([]string(nil), s.trace...)
	if !panicked {
		s.run.Violate("txn:unknown-verb-did-not-panic:"+kind, "an operation with an unknown verb was swallowed by the dispatcher", rp)
	}
	if d := firstDiff(before, takeFull(st)); d != "" {
		s.run.Violate("txn:panicking-transaction-changed-table:"+tableOfDiff(d), "a transaction that panicked changed the store: "+d, rp)
	}
	if s.pub.Calls != calls || storex.Fired(ws) {
		s.run.Violate("txn:panicking-transaction-side-effect", "a transaction that panicked published or woke a watcher", rp)
	}
	// the store is still writable
	done := make(chan error, 1)
	go func() { done <- st.KVSSet(s.next(), &structs.DirEntry{Key: "after-panic", Value: []byte("x")}) }()
	if err := <-done; err != nil {
		s.run.Violate("txn:store-unusable-after-panic", err.Error(), rp)
	}
}
