//go:build verif

package main

// Layered cases: the transaction goes through the layers ABOVE the state store, unmodified:
//   HTTPHandlers.Txn (agent/txn_endpoint.go: body decoding, base64 values, limits, write count, routing,
//   409) -> Txn.Apply / Txn.Read (agent/consul/txn_endpoint.go: ForwardRPC, ResolveToken, preCheck with
//   kvsPreApply / nodePreApply / servicePreApplyValidate / vet*TxnOp, FilterTxnResults) -> a real
//   single-voter in-memory Raft -> fsm.applyTxn -> Store.TxnRW.
// The pre-state is built through the same Raft, so every index is the one Raft chose. Tokens carry
// random policies; the answers of each token's real authorizer over the names in play are sent to the
// Lean model as a table (`authz` line), the model (CV.Store.TxnEndpoint) decides which permission is
// asked about which name on which state. Every answer and the dump after it are compared.
// Monitors (model independent):
//   any error            => deep dump of every table identical, nothing published, nobody woken, lock
//                           delays unchanged;
//   permission denied    => no Raft entry was written;
//   Txn.Read / read route => no Raft entry, nothing changed;
//   results              => every returned result is readable with the token;
//   HTTP                 => errors <=> 409; the read route is taken iff no operation is a write verb;
//                           a 4xx answer reaches no RPC.

import (
	"encoding/base64"
	"encoding/json"
	"errors"
	"fmt"
	"sort"
	"strings"
	"unicode/utf8"

	"github.com/hashicorp/consul/acl"
	"github.com/hashicorp/consul/agent"
	"github.com/hashicorp/consul/agent/consul"
	"github.com/hashicorp/consul/agent/structs"
	"github.com/hashicorp/consul/internal/verifharness/hx"
	"github.com/hashicorp/consul/internal/verifharness/storex"
)

type layered struct {
	run   *hx.Run
	r     *hx.RNG
	w     *storex.World
	pub   *storex.RecPublisher
	srv   *consul.VerifC05Server
	web   *agent.VerifC05HTTP
	maxBody int
	g     *storex.Gen
	lines []string
	last  *storex.Snap
	toks  []string
	// what the HTTP handler asked of the RPC layer during the current request
	rpcMethods []string
	rpcErrors  structs.TxnErrors
	rpcResults structs.TxnResults
	rpcFlag    bool
}

func (l *layered) line(op, out string) {
	l.run.Line(op, out)
	l.lines = append(l.lines, op)
}

func (l *layered) replay() []string { return append([]string(nil), l.lines...) }

var polKeyPrefixes = []string{"", "a", "a/", "a/b", "b", "k", "zz"}
var polKeys = []string{"k", "a", "a/b", "ab", "b", "A", "zz/missing"}
var polNodes = []string{"n1", "N1", "n2", "n3", "zz"}
var polServices = []string{"web", "db", "Web", "api", "web2"}
var polLevels = []string{"deny", "read", "write", "write"}

func randPolicy(r *hx.RNG) string {
	var b strings.Builder
	rule := func(kind, name, level string) { fmt.Fprintf(&b, "%s %q { policy = %q }\n", kind, name, level) }
	broad := r.Chance(75)
	for _, res := range []string{"key", "node", "service", "session"} {
		if broad {
			rule(res+"_prefix", "", "write")
		} else if r.Chance(70) {
			rule(res+"_prefix", "", hx.Pick(r, polLevels))
		}
	}
	for _, p := range polKeyPrefixes[1:] {
		if r.Chance(25) {
			rule("key_prefix", p, hx.Pick(r, polLevels))
		}
	}
	for _, k := range polKeys {
		if r.Chance(15) {
			rule("key", k, hx.Pick(r, polLevels))
		}
	}
	for _, n := range polNodes {
		if r.Chance(20) {
			rule("node", n, hx.Pick(r, polLevels))
		}
		if r.Chance(10) {
			rule("session", n, hx.Pick(r, polLevels))
		}
	}
	for _, s := range polServices {
		if r.Chance(20) {
			rule("service", s, hx.Pick(r, polLevels))
		}
	}
	return b.String()
}

func newLayered(run *hx.Run, r *hx.RNG) (*layered, error) {
	w, pub := storex.C05NewWorld()
	be := &consul.VerifC05Backend{Tokens: map[string]*structs.ACLToken{}, Policies: map[string]*structs.ACLPolicy{}}
	l := &layered{run: run, r: r, w: w, pub: pub}
	add := func(tok, rules string, n int) {
		pid := fmt.Sprintf("dddddddd-0000-0000-0000-00000000000%d", n)
		t := &structs.ACLToken{AccessorID: fmt.Sprintf("eeeeeeee-0000-0000-0000-00000000000%d", n), SecretID: tok}
		if rules != "" {
			p := &structs.ACLPolicy{ID: pid, Name: "p" + tok, Rules: rules}
			p.SetHash(true)
			be.Policies[pid] = p
			t.Policies = []structs.ACLTokenPolicyLink{{ID: pid}}
		}
		t.SetHash(true)
		be.Tokens[tok] = t
		l.toks = append(l.toks, tok)
	}
	add("root", "key_prefix \"\" { policy = \"write\" }\nnode_prefix \"\" { policy = \"write\" }\nservice_prefix \"\" { policy = \"write\" }\nsession_prefix \"\" { policy = \"write\" }\n", 1)
	add("t1", randPolicy(r), 2)
	add("t2", randPolicy(r), 3)
	add("none", "", 4)
	srv, err := consul.VerifC05NewServer(w.F, be)
	if err != nil {
		return nil, err
	}
	l.srv = srv
	l.setHTTP(4096)
	l.g = &storex.Gen{R: r, P: pre, W: w}
	run.Line("reset", "ok")
	l.lines = append(l.lines, "reset")
	l.last = w.Observe(storex.Keys)
	l.g.Last = l.last
	return l, nil
}

func (l *layered) setHTTP(maxBody int) {
	l.maxBody = maxBody
	l.web = agent.VerifC05NewHTTP(uint64(maxBody), 64, func(method string, args, reply interface{}) error {
		l.rpcMethods = append(l.rpcMethods, method)
		err := l.srv.RPC(method, args, reply)
		switch x := reply.(type) {
		case *structs.TxnResponse:
			l.rpcResults, l.rpcErrors, l.rpcFlag = x.Results, x.Errors, false
		case *structs.TxnReadResponse:
			l.rpcResults, l.rpcErrors, l.rpcFlag = x.Results, x.Errors, x.ResultsFilteredByACLs
		}
		return err
	})
}

// step sends one pre-state command through Raft.
func (l *layered) step(op *storex.Op) {
	if op.Sess != nil && op.Sess.LockDelay > 0 {
		op.Sess.LockDelay = 3600 // the pre-check compares the delay with the wall clock: keep it far away
	}
	res := l.w.ExecVia(op, func(t structs.MessageType, req any) (any, uint64) {
		resp, err, idx := l.srv.RaftApply(t, req)
		if err != nil {
			return err, idx
		}
		return resp, idx
	})
	l.line(op.Line(), res)
	l.last = l.w.Observe(storex.Keys)
	l.run.Line("dump", l.last.Dump())
	l.g.Last = l.last
	if strings.HasPrefix(res, "panic(") || strings.Contains(res, "unmapped(") || strings.HasPrefix(res, "unexpected(") {
		l.run.Violate("harness:unclassified-answer:layered", "the implementation answered "+res, l.replay())
	}
}

func mapEpErr(m string) string {
	has := func(s string) bool { return strings.Contains(m, s) }
	switch {
	case has("Must provide key"):
		return "must-provide-key"
	case has("Permission denied"):
		return "denied"
	case has("due to lock delay"):
		return "lock-delay"
	case has("Must provide node"):
		return "must-provide-node"
	case has("Bad node ID"):
		return "bad-node-id"
	case has("both Service ID"):
		return "service-name-required"
	case has("Must provide service name"):
		return "must-provide-service-name"
	case has("does not match existing service name"):
		return "service-name-mismatch"
	case has("unknown service ID"):
		return "unknown-service-id"
	}
	return storex.MapErr(errors.New(m))
}

// authzLine sends the answers of the token's authorizer over every name in play.
func (l *layered) authzLine(tok string, ops []storex.TxnOpArg) bool {
	res, err := l.srv.Resolve(tok)
	if err != nil {
		return false
	}
	keys, names := map[string]bool{"": true, missingKey: true}, map[string]bool{"": true, "zz": true}
	for _, k := range storex.Keys {
		keys[k] = true
	}
	for _, k := range storex.Prefixes {
		keys[k] = true
	}
	for _, n := range storex.NodeNames {
		names[n] = true
	}
	for _, s := range storex.Services {
		names[s[0]], names[s[1]] = true, true
	}
	for i := range ops {
		o := &ops[i]
		switch o.Fam {
		case 'k':
			keys[o.KV.Key] = true
		case 'n':
			names[o.Node.Name] = true
		case 's':
			names[o.Svc.Node], names[o.Svc.ID], names[o.Svc.Name] = true, true, true
		case 'c':
			names[o.Chk.Node], names[o.Chk.SvcID] = true, true
		}
	}
	t := &l.last.T
	for _, e := range t.KVs {
		keys[e.Key] = true
	}
	for _, n := range t.Nodes {
		names[n.Node] = true
	}
	for _, s := range t.Services {
		names[s.Node], names[s.ServiceName], names[s.ServiceID] = true, true, true
	}
	for _, c := range t.Checks {
		names[c.Node], names[c.ServiceName] = true, true
	}
	for _, s := range t.Sessions {
		names[s.Node] = true
	}
	ks, ns := make([]string, 0, len(keys)), make([]string, 0, len(names))
	for k := range keys {
		ks = append(ks, k)
	}
	for n := range names {
		ns = append(ns, n)
	}
	sort.Strings(ks)
	sort.Strings(ns)
	var ctx acl.AuthorizerContext
	sel := func(all []string, enc func(string) string, f func(string) acl.EnforcementDecision) string {
		var out []string
		for _, x := range all {
			if f(x) == acl.Allow {
				out = append(out, enc(x))
			}
		}
		return hx.EncList(out)
	}
	encK := func(k string) string { return hx.EncB([]byte(k)) }
	a := res.Authorizer
	line := strings.Join([]string{"authz", tok,
		sel(ks, encK, func(k string) acl.EnforcementDecision { return a.KeyRead(k, &ctx) }),
		sel(ks, encK, func(k string) acl.EnforcementDecision { return a.KeyWrite(k, &ctx) }),
		sel(ks, encK, func(k string) acl.EnforcementDecision { return a.KeyWritePrefix(k, &ctx) }),
		sel(ns, hx.EncS, func(n string) acl.EnforcementDecision { return a.NodeRead(n, &ctx) }),
		sel(ns, hx.EncS, func(n string) acl.EnforcementDecision { return a.NodeWrite(n, &ctx) }),
		sel(ns, hx.EncS, func(n string) acl.EnforcementDecision { return a.ServiceRead(n, &ctx) }),
		sel(ns, hx.EncS, func(n string) acl.EnforcementDecision { return a.ServiceWrite(n, &ctx) }),
		sel(ns, hx.EncS, func(n string) acl.EnforcementDecision { return a.SessionWrite(n, &ctx) }),
	}, " ")
	l.line(line, "ok")
	return true
}

type guard struct {
	l       *layered
	before  *storex.Snap
	full    *fullDump
	calls   int
	fired   func() bool
	applied int
}

func (l *layered) arm() *guard {
	g := &guard{l: l, before: l.last, full: takeFull(l.w.Store()), calls: l.pub.Calls}
	ws := l.w.C05WatchSet([]string{missingKey})
	g.fired = func() bool { return storex.Fired(ws) }
	_, g.applied = l.srv.Applied()
	return g
}

// unchanged: the request must have left no trace (what, e.g. "refused transaction").
func (g *guard) unchanged(what, sig string, after *storex.Snap) {
	l := g.l
	if d := firstDiff(g.full, takeFull(l.w.Store())); d != "" {
		l.run.Violate("txn:"+sig+"-changed-table:"+tableOfDiff(d), what+" changed the store (deep dump of every table): "+d, l.replay())
	}
	if l.pub.Calls != g.calls {
		l.run.Violate("txn:"+sig+"-published-events", what+" published events", l.replay())
	}
	if g.fired() {
		l.run.Violate("txn:"+sig+"-woke-watcher", "a watch channel registered before "+what+" fired", l.replay())
	}
	if strings.Join(g.before.Delays, ",") != strings.Join(after.Delays, ",") {
		l.run.Violate("txn:"+sig+"-armed-lock-delay", fmt.Sprintf("lock-delay keys %q -> %q after %s", g.before.Delays, after.Delays, what), l.replay())
	}
}

func (l *layered) visible(tok string, rs structs.TxnResults) {
	res, err := l.srv.Resolve(tok)
	if err != nil {
		return
	}
	var ctx acl.AuthorizerContext
	a := res.Authorizer
	for _, r := range rs {
		ok := true
		switch {
		case r.KV != nil:
			ok = a.KeyRead(r.KV.Key, &ctx) == acl.Allow
		case r.Node != nil:
			ok = a.NodeRead(r.Node.Node, &ctx) == acl.Allow
		case r.Service != nil:
			ok = a.ServiceRead(r.Service.Service, &ctx) == acl.Allow
		case r.Check != nil && r.Check.ServiceName != "":
			ok = a.ServiceRead(r.Check.ServiceName, &ctx) == acl.Allow
		case r.Check != nil:
			ok = a.NodeRead(r.Check.Node, &ctx) == acl.Allow
		}
		if !ok {
			l.run.Violate("txn:result-returned-without-read-permission", "a transaction result was returned to a token that may not read it", l.replay())
		}
	}
}

func canonEp(results structs.TxnResults, errs structs.TxnErrors, raftWritten bool) string {
	if len(errs) > 0 {
		p := "pre:"
		if raftWritten {
			p = "errs:"
		}
		return p + storex.CanonTxnErrors(errs, mapEpErr)
	}
	return storex.CanonTxnResults(results)
}

func denied(errs structs.TxnErrors) bool {
	for _, e := range errs {
		if strings.Contains(e.What, "Permission denied") {
			return true
		}
	}
	return false
}

// apply runs Txn.Apply with all monitors.
func (l *layered) apply(tok string, ops []storex.TxnOpArg) {
	if !l.authzLine(tok, ops) {
		return
	}
	g := l.arm()
	resp, err := l.srv.TxnApply(tok, storex.TxnOpsDC(ops, "dc1"))
	idx, n := l.srv.Applied()
	written := n > g.applied
	if !written {
		idx = 0
	}
	out := canonEp(resp.Results, resp.Errors, written)
	if err != nil {
		out = "rpc-error(" + hx.EncS(err.Error()) + ")"
	}
	l.line(fmt.Sprintf("tapply %d %s %s", idx, tok, storex.TxnTokens(ops)), out)
	after := l.w.Observe(storex.Keys)
	l.run.Line("dump", after.Dump())
	l.last, l.g.Last = after, after
	l.judge("Txn.Apply", out, g, after, tok, resp.Results, resp.Errors, n, false)
}

func (l *layered) judge(what, out string, g *guard, after *storex.Snap, tok string, results structs.TxnResults, errs structs.TxnErrors, applied int, readRoute bool) {
	l.run.Tag("layered:" + what + ":" + strings.SplitN(out, ":", 2)[0])
	if strings.Contains(out, "rpc-error(") || strings.Contains(out, "unmapped(") {
		l.run.Violate("harness:unclassified-answer:endpoint", out, l.replay())
	}
	for _, e := range errs {
		l.run.Tag("layered-err:" + mapEpErr(e.What))
	}
	if applied-g.applied > 1 {
		l.run.Violate("txn:more-than-one-raft-entry", what+" wrote more than one Raft entry", l.replay())
	}
	if len(errs) > 0 {
		g.unchanged("a refused transaction ("+what+")", "refused-transaction", after)
		if denied(errs) && applied != g.applied {
			l.run.Violate("txn:denied-transaction-reached-raft", "a transaction with a permission-denied operation was written to the Raft log", l.replay())
		}
		if len(results) > 0 {
			l.run.Violate("txn:results-with-errors", what+" returned results together with errors", l.replay())
		}
	} else {
		l.visible(tok, results)
	}
	if readRoute {
		g.unchanged("a read-only transaction ("+what+")", "read-endpoint", after)
		if applied != g.applied {
			l.run.Violate("txn:read-endpoint-wrote-raft-entry", what+" wrote a Raft entry", l.replay())
		}
	}
}

func (l *layered) read(tok string, ops []storex.TxnOpArg) {
	if !l.authzLine(tok, ops) {
		return
	}
	g := l.arm()
	resp, err := l.srv.TxnRead(tok, storex.TxnOpsDC(ops, "dc1"), l.r.Bool())
	_, n := l.srv.Applied()
	out := canonRead(resp.Results, resp.Errors, resp.ResultsFilteredByACLs)
	if err != nil {
		out = "rpc-error(" + hx.EncS(err.Error()) + ")"
	}
	l.line(fmt.Sprintf("tread %s %s", tok, storex.TxnTokens(ops)), out)
	after := l.w.Observe(storex.Keys)
	l.run.Line("dump", after.Dump())
	l.last, l.g.Last = after, after
	l.judge("Txn.Read", out, g, after, tok, resp.Results, resp.Errors, n, true)
}

// canonRead renders a Txn.Read answer like the engine's showRead.
func canonRead(results structs.TxnResults, errs structs.TxnErrors, filtered bool) string {
	if len(errs) > 0 {
		t := storex.CanonTxnErrors(errs, mapEpErr)
		if isPre(t) {
			return "pre:" + t
		}
		return "errs:" + t
	}
	return storex.CanonTxnResults(results) + " filtered=" + hx.EncBool(filtered)
}

// isPre: the error list of a read answer holds a pre-check error (the read path writes no Raft entry, so
// the class of the errors is told from their kind: pre-check and state-store errors never mix).
func isPre(out string) bool {
	for _, p := range []string{"must-provide-", "denied", "lock-delay", "bad-node-id", "service-name-", "unknown-service-id"} {
		if strings.Contains(out, p) {
			return true
		}
	}
	return false
}

// ---- HTTP

func utf8ok(ss ...string) bool {
	for _, s := range ss {
		if !utf8.ValidString(s) || strings.ContainsRune(s, 0) {
			return false
		}
	}
	return true
}

// httpBody renders the operations in the API's JSON format; ok = they can be said in it at all (no
// session operations, valid UTF-8 names). Fields the format cannot carry are cleared in ops.
func httpBody(ops []storex.TxnOpArg) (string, bool) {
	type m = map[string]interface{}
	var body []m
	for i := range ops {
		o := &ops[i]
		switch o.Fam {
		case 'k':
			a := o.KV
			if !utf8ok(a.Key, a.Session) {
				return "", false
			}
			a.LockIdx = 0
			kv := m{"Verb": o.Verb, "Key": a.Key, "Flags": a.Flags, "Index": a.ModIdx, "Session": a.Session}
			if a.Val != nil {
				kv["Value"] = base64.StdEncoding.EncodeToString(a.Val)
			}
			body = append(body, m{"KV": kv})
		case 'n':
			n := o.Node
			if !utf8ok(n.Name, n.ID, n.Addr) {
				return "", false
			}
			body = append(body, m{"Node": m{"Verb": o.Verb, "Node": m{"ID": n.ID, "Node": n.Name, "Address": n.Addr, "ModifyIndex": n.ModIdx}}})
		case 's':
			s := o.Svc
			if !utf8ok(s.Node, s.ID, s.Name) {
				return "", false
			}
			body = append(body, m{"Service": m{"Verb": o.Verb, "Node": s.Node, "Service": m{"ID": s.ID, "Service": s.Name, "Port": s.Port, "ModifyIndex": s.ModIdx}}})
		case 'c':
			c := o.Chk
			if !utf8ok(c.Node, c.ID, c.Status, c.SvcID, c.Type, c.Output) {
				return "", false
			}
			c.SessName = "" // HealthCheckDefinition.SessionName is not part of the txn API format
			body = append(body, m{"Check": m{"Verb": o.Verb, "Check": m{"Node": c.Node, "CheckID": c.ID, "Status": c.Status, "ServiceID": c.SvcID,
				"Type": c.Type, "Output": c.Output, "ModifyIndex": c.ModIdx}}})
		default:
			return "", false
		}
	}
	b, err := json.Marshal(body)
	if err != nil {
		return "", false
	}
	return string(b), true
}

func validHTTPKey(k string) bool {
	if k == "" || strings.HasPrefix(k, "/") || strings.HasPrefix(k, " ") || strings.HasSuffix(k, " ") {
		return false
	}
	for _, p := range strings.Split(k, "/") {
		if p == "." || p == ".." {
			return false
		}
	}
	return true
}

func (l *layered) httpTxn(tok string, ops []storex.TxnOpArg) {
	body, ok := httpBody(ops)
	if !ok {
		return
	}
	modelled := true // the model starts after decoding: requests the decoder refuses are judged by monitors only
	for i := range ops {
		if ops[i].Fam == 'k' && (!validHTTPKey(ops[i].KV.Key) || len(ops[i].KV.Val) > 64) {
			modelled = false
		}
	}
	if len(body) > l.maxBody {
		modelled = false
	}
	if modelled && !l.authzLine(tok, ops) {
		return
	}
	g := l.arm()
	l.rpcMethods, l.rpcErrors, l.rpcResults, l.rpcFlag = nil, nil, nil, false
	ret, err, status, _ := l.web.Txn(body, tok, l.r.Chance(80))
	idx, n := l.srv.Applied()
	written := n > g.applied
	if !written {
		idx = 0
	}
	writes := 0
	for i := range ops {
		if !ops[i].IsReadOp() {
			writes++
		}
	}
	var out string
	switch {
	case err != nil:
		code, reason, isHTTP := agent.VerifC05HTTPStatus(err)
		out = fmt.Sprintf("http-error(%d)", code)
		l.run.Tag(fmt.Sprintf("http:status:%d", code))
		if !isHTTP {
			l.run.Violate("harness:unclassified-answer:http", err.Error(), l.replay())
		}
		if code == 413 && strings.Contains(reason, "too many operations") {
			out = "too-many"
		}
		if len(l.rpcMethods) > 0 {
			l.run.Violate("txn:http-refused-request-reached-rpc", fmt.Sprintf("the handler answered %d after calling %v", code, l.rpcMethods), l.replay())
		}
	case len(l.rpcMethods) != 1:
		out = fmt.Sprintf("rpc-calls(%d)", len(l.rpcMethods))
		l.run.Violate("txn:http-rpc-count", fmt.Sprintf("the handler made %d RPC calls for one request", len(l.rpcMethods)), l.replay())
	case l.rpcMethods[0] == "Txn.Read":
		out = "read:" + canonRead(l.rpcResults, l.rpcErrors, l.rpcFlag)
		if writes != 0 {
			l.run.Violate("txn:http-write-verb-routed-to-read-endpoint", "a transaction with a write verb was routed to Txn.Read", l.replay())
		}
	default:
		out = "apply:" + canonEp(l.rpcResults, l.rpcErrors, written)
		if writes == 0 {
			l.run.Tag("http:read-verbs-routed-to-apply")
			l.run.Violate("txn:http-read-only-routed-to-apply", "a transaction of read verbs was routed through Raft", l.replay())
		}
	}
	if err == nil && len(l.rpcMethods) == 1 {
		conflict := len(l.rpcErrors) > 0
		if conflict != (status == 409) || (!conflict && ret == nil) {
			l.run.Violate("txn:http-conflict-status", fmt.Sprintf("errors=%d status=%d", len(l.rpcErrors), status), l.replay())
		}
	}
	after := l.w.Observe(storex.Keys)
	if modelled {
		l.line(fmt.Sprintf("http %d %s %s", idx, tok, storex.TxnTokens(ops)), out)
		l.run.Line("dump", after.Dump())
	} else {
		l.run.Tag("http:refused-by-decoder")
		l.lines = append(l.lines, "# http (monitor only) "+body)
		if err == nil {
			l.run.Violate("txn:http-invalid-request-accepted", "a request with an invalid key / oversized value / oversized body was accepted: "+body, l.replay())
		}
	}
	l.last, l.g.Last = after, after
	if err != nil {
		g.unchanged("a request refused by the HTTP layer", "http-refused-request", after)
		if n != g.applied {
			l.run.Violate("txn:http-refused-request-reached-raft", "a refused HTTP request wrote a Raft entry", l.replay())
		}
		return
	}
	if len(l.rpcMethods) == 1 {
		l.judge("HTTP:"+l.rpcMethods[0], out, g, after, tok, l.rpcResults, l.rpcErrors, n, l.rpcMethods[0] == "Txn.Read")
	}
}

// ---- generation

func swapCase(s string) string {
	if s == strings.ToLower(s) {
		return strings.ToUpper(s[:1]) + s[1:]
	}
	return strings.ToLower(s)
}

// epOp: an operation of the store generator, sometimes bent into the shapes the pre-check looks for.
func (l *layered) epOp(readOnly bool) storex.TxnOpArg {
	o := l.g.C05TxnOp()
	for tries := 0; readOnly && !o.IsReadOp() && tries < 40; tries++ {
		o = l.g.C05TxnOp()
	}
	r := l.r
	if o.IsReadOp() || !r.Chance(10) {
		if o.Fam == 'k' && o.Verb == "lock" && len(l.last.Delays) > 0 && r.Chance(60) {
			o.KV.Key = hx.Pick(r, l.last.Delays)
		}
		return o
	}
	switch o.Fam {
	case 'k':
		if o.Verb != "delete-tree" || r.Bool() {
			o.KV.Key = ""
		}
	case 'n':
		switch r.Intn(3) {
		case 0:
			o.Node.Name = ""
		case 1:
			o.Node.ID = "zz"
		default:
			o.Node.ID = "1111111g-aaaa-0000-0000-000000000001"
		}
	case 's':
		switch r.Intn(4) {
		case 0:
			o.Svc.ID = ""
		case 1:
			o.Svc.Name = ""
		case 2:
			o.Svc.ID, o.Svc.Name = "", ""
		default:
			o.Svc.Name = swapCase(o.Svc.Name)
		}
	case 'c':
		o.Chk.SvcID = hx.Pick(r, []string{"web", "db", "nosuch"})
	}
	return o
}

func layeredCase(run *hx.Run, n int) {
	r := run.RNG.Fork(0x1A7E0000 + uint64(n))
	l, err := newLayered(run, r)
	if err != nil {
		run.Violate("harness:layered-server", err.Error(), nil)
		return
	}
	defer l.srv.Shutdown()
	g := l.g
	if r.Chance(90) {
		for _, op := range g.Preamble() {
			l.step(op)
		}
	}
	for k := 2 + r.Intn(10); k > 0; k-- {
		l.step(g.Next())
	}
	for round := 0; round < 3; round++ {
		tok := hx.Pick(r, []string{"root", "root", "root", "t1", "t1", "t2", "t2", "none"})
		var ops []storex.TxnOpArg
		for k := 1 + r.Intn(5); k > 0; k-- {
			ops = append(ops, l.epOp(false))
		}
		// with a failing guard somewhere (the endpoint must roll back like the store does) …
		if r.Chance(50) {
			p := r.Intn(len(ops) + 1)
			f := kvOp("check-index", missingKey, "", 3)
			v := append(append(append([]storex.TxnOpArg(nil), ops[:p]...), f), ops[p:]...)
			l.apply(tok, v)
		}
		l.apply(tok, ops)
		// … the same again with every permission (what a token may see never changes what is done)
		if tok != "root" && r.Chance(40) {
			l.apply("root", ops)
		}
		var ro []storex.TxnOpArg
		for k := 1 + r.Intn(4); k > 0; k-- {
			ro = append(ro, l.epOp(true))
		}
		allRead := true
		for i := range ro {
			allRead = allRead && ro[i].IsReadOp()
		}
		if allRead {
			l.read(hx.Pick(r, l.toks), ro)
		}
		// HTTP: reads only, writes, mixed
		var hops []storex.TxnOpArg
		ronly := r.Chance(35)
		for k := 1 + r.Intn(5); k > 0; k-- {
			o := l.epOp(ronly)
			if o.Fam != 'x' {
				hops = append(hops, o)
			}
		}
		if len(hops) > 0 {
			if hops[0].Fam == 'k' && hops[0].Verb == "set" && r.Chance(15) {
				hops[0].KV.Val = []byte(strings.Repeat("v", 65+r.Intn(3))) // over KVMaxValueSize
			}
			l.httpTxn(hx.Pick(r, l.toks), hops)
		}
	}
	if n%25 < 3 {
		// the operation-count limit (129 operations), the limit itself (128), the body-size limit
		var many []storex.TxnOpArg
		for i := 0; i < 129-(n%25)%2; i++ {
			many = append(many, kvOp(hx.Pick(r, []string{"get", "set"}), "k", "", 0))
		}
		if n%25 < 2 {
			l.setHTTP(1 << 20)
		}
		l.httpTxn("root", many)
	}
	if n < 2 {
		run.Sample(map[string]any{"layered_ops": l.replay()})
	}
	run.Case(strings.Join(l.lines, "\n"), true)
}
