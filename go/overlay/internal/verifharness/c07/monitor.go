//go:build verif

package main

import (
	"fmt"
	"sort"
	"strings"

	"github.com/hashicorp/consul/agent/consul/state"
	"github.com/hashicorp/consul/agent/structs"
	)

// Monitor restates property C07 on what the real store shows after every command. Nothing here looks
// at the Lean model or at the harness's op encoding of the model: every expectation is recomputed from
// the base tables (nodes, services, checks, coordinates, sessions, config entries) of the SAME read
// transaction, from the property statement:
//
//	(1) no orphans: every service / check / coordinate / session has its node, every service-scoped
//	    check its service instance;
//	(2) cascades: a node deregistration (also the one inside a rename by node ID) leaves nothing that
//	    names the node, a service deregistration leaves no check of that instance;
//	(3) usage counts = counts of the registrations (table rows and ServiceUsage / NodeUsage /
//	    ConfigEntryUsage);
//	(4) kind-service-names = {(kind, name) of the local instances} ∪ {(connect-enabled, name served
//	    through Connect)} ∪ {(destination, name of a service-defaults with a Destination)} (table rows
//	    and ServiceNamesOfKind);
//	(5) virtual IPs: no address assigned twice, none both assigned and free, and the address an instance
//	    advertises is its service's current assignment (table and VirtualIPForService); with
//	    terminating-gateway virtual IPs on: no assignment is released while a terminating gateway links the
//	    service, and the consul-virtual:<svc> addresses of the gateway instances are the assignments of the
//	    services their entry links;
//	(6) gateway-services = the links the gateway config entries declare, wildcards expanded over the
//	    registered services (table and GatewayServices);
//	(7) mesh-topology = the (upstream, downstream) pairs of the local sidecar registrations and of the
//	    ingress links.
//
// A discrepancy that persists is reported when it first appears (or changes), not at every later step.
type Monitor struct {
	prev map[string]string // discrepancies present after the previous command: key -> signature given when it appeared
	// history facts used only to NAME a finding (signature), never to decide it
	caseNames     bool            // two service names differing only in case were registered in this history
	importedPairs map[string]bool // (upstream, downstream) pairs an imported sidecar declared at some point of this history
	tgwFreed      map[string]bool // lower(service) whose virtual IP was released while a terminating gateway linked it (flag on)
}

func NewMonitor() *Monitor {
	return &Monitor{prev: map[string]string{}, importedPairs: map[string]bool{}, tgwFreed: map[string]bool{}}
}

type finding struct {
	sig, key, desc string
}

func lower(s string) string { return strings.ToLower(s) }

func nodeKey(peer, node string) string      { return lower(peer) + "\x00" + lower(node) }
func svcKey(peer, node, id string) string   { return lower(peer) + "\x00" + lower(node) + "\x00" + lower(id) }
func isLocal(peer string) bool              { return peer == "" }
func connectNameOf(v *structs.ServiceNode) (string, bool) {
	switch {
	case v.ServiceKind == structs.ServiceKindConnectProxy:
		return v.ServiceProxy.DestinationServiceName, true
	case v.ServiceConnect.Native:
		return v.ServiceName, true
	}
	return "", false
}

// ---------------------------------------------------------------- (1) orphans

func orphans(t *state.VerifC07Tables) (out []finding) {
	nodes := map[string]bool{}
	for _, n := range t.Nodes {
		nodes[nodeKey(n.PeerName, n.Node)] = true
	}
	svcs := map[string]bool{}
	for _, v := range t.Services {
		svcs[svcKey(v.PeerName, v.Node, v.ServiceID)] = true
		if !nodes[nodeKey(v.PeerName, v.Node)] {
			out = append(out, finding{"orphan:service-without-node", "svc/" + svcKey(v.PeerName, v.Node, v.ServiceID),
				fmt.Sprintf("service instance %s/%s (peer %q) is registered but node %s is not", v.Node, v.ServiceID, v.PeerName, v.Node)})
		}
	}
	for _, c := range t.Checks {
		if !nodes[nodeKey(c.PeerName, c.Node)] {
			out = append(out, finding{"orphan:check-without-node", "chk/" + svcKey(c.PeerName, c.Node, string(c.CheckID)),
				fmt.Sprintf("check %s/%s (peer %q) is registered but node %s is not", c.Node, c.CheckID, c.PeerName, c.Node)})
		}
		if c.ServiceID != "" && !svcs[svcKey(c.PeerName, c.Node, c.ServiceID)] {
			out = append(out, finding{"orphan:check-without-service", "chksvc/" + svcKey(c.PeerName, c.Node, string(c.CheckID)),
				fmt.Sprintf("check %s/%s (peer %q) is bound to service instance %q, which is not registered", c.Node, c.CheckID, c.PeerName, c.ServiceID)})
		}
	}
	for _, c := range t.Coordinates {
		if !nodes[nodeKey("", c.Node)] {
			out = append(out, finding{"orphan:coordinate-without-node", "coord/" + lower(c.Node) + "/" + c.Segment,
				fmt.Sprintf("a coordinate of node %s (segment %q) is stored but the node is not registered", c.Node, c.Segment)})
		}
	}
	for _, x := range t.Sessions {
		if !nodes[nodeKey("", x.Node)] {
			out = append(out, finding{"orphan:session-without-node", "sess/" + x.ID,
				fmt.Sprintf("session %s belongs to node %s, which is not registered", x.ID, x.Node)})
		}
	}
	return
}

// ---------------------------------------------------------------- (2) cascades

// leftovers lists what still names (peer, node) in the tables that a node deregistration must clear.
func leftovers(t *state.VerifC07Tables, peer, node string) (out []string) {
	for _, v := range t.Services {
		if strings.EqualFold(v.PeerName, peer) && strings.EqualFold(v.Node, node) {
			out = append(out, "services")
			break
		}
	}
	for _, c := range t.Checks {
		if strings.EqualFold(c.PeerName, peer) && strings.EqualFold(c.Node, node) {
			out = append(out, "checks")
			break
		}
	}
	if isLocal(peer) {
		for _, c := range t.Coordinates {
			if strings.EqualFold(c.Node, node) {
				out = append(out, "coordinates")
				break
			}
		}
		for _, x := range t.Sessions {
			if strings.EqualFold(x.Node, node) {
				out = append(out, "sessions")
				break
			}
		}
	}
	return
}

func hasNode(t *state.VerifC07Tables, peer, node string) bool {
	for _, n := range t.Nodes {
		if strings.EqualFold(n.PeerName, peer) && strings.EqualFold(n.Node, node) {
			return true
		}
	}
	return false
}

func cascades(before, after *state.VerifC07Tables, op *Op, res string) (out []finding) {
	nodeGone := func(how, peer, node string) {
		if hasNode(after, peer, node) {
			out = append(out, finding{"cascade:" + how + ":node-row-still-present", "", fmt.Sprintf("%s of node %s succeeded but the node row is still there", how, node)})
			return
		}
		for _, tbl := range leftovers(after, peer, node) {
			out = append(out, finding{"cascade:" + how + ":left-" + tbl, "", fmt.Sprintf("after the %s of node %s (peer %q) the %s table still names it", how, node, peer, tbl)})
		}
	}
	svcGone := func(how, peer, node, id string) {
		for _, v := range after.Services {
			if strings.EqualFold(v.PeerName, peer) && strings.EqualFold(v.Node, node) && strings.EqualFold(v.ServiceID, id) {
				out = append(out, finding{"cascade:" + how + ":service-row-still-present", "", fmt.Sprintf("%s of %s/%s succeeded but the row is still there", how, node, id)})
			}
		}
		for _, c := range after.Checks {
			if strings.EqualFold(c.PeerName, peer) && strings.EqualFold(c.Node, node) && strings.EqualFold(c.ServiceID, id) {
				out = append(out, finding{"cascade:" + how + ":left-check", "", fmt.Sprintf("after the %s of service instance %s/%s check %s is still registered for it", how, node, id, c.CheckID)})
			}
		}
	}
	switch op.Kind {
	case "dereg":
		if res != "ok" {
			return
		}
		switch {
		case op.Dereg[1] != "":
			svcGone("deregister-service", op.Peer, op.Dereg[0], op.Dereg[1])
		case op.Dereg[2] != "":
			for _, c := range after.Checks {
				if strings.EqualFold(c.PeerName, op.Peer) && strings.EqualFold(c.Node, op.Dereg[0]) && strings.EqualFold(string(c.CheckID), op.Dereg[2]) {
					out = append(out, finding{"cascade:deregister-check:check-row-still-present", "", "check still registered after its deregistration"})
				}
			}
		default:
			nodeGone("deregister-node", op.Peer, op.Dereg[0])
		}
	case "reg":
		if res != "ok" || op.Node.ID == "" {
			return
		}
		// rename by node ID: the node that carried this ID under another name must be gone with everything on it
		for _, n := range before.Nodes {
			if strings.EqualFold(n.PeerName, op.Peer) && strings.EqualFold(string(n.ID), op.Node.ID) && !strings.EqualFold(n.Node, op.Node.Name) {
				nodeGone("rename-by-id", op.Peer, n.Node)
			}
		}
	case "xtxn":
		if !strings.HasPrefix(res, "ok:") {
			return
		}
		// the LAST operation of the transaction that names a node / an instance decides what must hold afterwards
		for i := range op.Txn {
			a := &op.Txn[i]
			later := func(node string) bool {
				for j := i + 1; j < len(op.Txn); j++ {
					b := &op.Txn[j]
					switch {
					case b.Base != nil && b.Base.Node != nil && strings.EqualFold(b.Base.Node.Name, node),
						b.Base != nil && b.Base.Svc != nil && strings.EqualFold(b.Base.Svc.Node, node),
						b.Base != nil && b.Base.Chk != nil && strings.EqualFold(b.Base.Chk.Node, node),
						b.Base == nil && strings.EqualFold(b.Node, node):
						return true
					}
				}
				return false
			}
			switch {
			case a.Base != nil && a.Base.Fam == 'n' && a.Base.Verb == "delete" && !later(a.Base.Node.Name):
				nodeGone("txn-node-delete", "", a.Base.Node.Name)
			case a.Base != nil && a.Base.Fam == 's' && a.Base.Verb == "delete" && !later(a.Base.Svc.Node):
				svcGone("txn-service-delete", "", a.Base.Svc.Node, a.Base.Svc.ID)
			case a.Base == nil && a.Verb == "delete" && !later(a.Node):
				svcGone("txn-service-delete", "", a.Node, a.Svc.ID)
			}
		}
	}
	return
}

// ---------------------------------------------------------------- (3) usage

var connectKinds = []string{"connect-proxy", "ingress-gateway", "mesh-gateway", "terminating-gateway", "api-gateway"}

// usageOf recomputes every usage counter from the registrations and config entries.
func usageOf(t *state.VerifC07Tables) map[string]int {
	u := map[string]int{}
	names := map[string]bool{}
	for _, n := range t.Nodes {
		if isLocal(n.PeerName) {
			u["nodes"]++
		}
	}
	for _, v := range t.Services {
		if !isLocal(v.PeerName) {
			continue
		}
		u["services"]++
		names[lower(v.ServiceName)] = true
		if v.ServiceKind != structs.ServiceKindTypical {
			u["connect-mesh-"+string(v.ServiceKind)]++
		}
		if v.ServiceConnect.Native {
			u["connect-mesh-connect-native"]++
		}
		if v.ServiceKind == structs.ServiceKindTypical && v.ServiceName != "consul" {
			u["billable-services"]++
		}
	}
	u["service-names"] = len(names)
	for _, e := range t.Config {
		u["config-entries-"+e.GetKind()]++
	}
	return u
}

func (m *Monitor) usage(w *World, t *state.VerifC07Tables) (out []finding) {
	want := usageOf(t)
	got := map[string]int{}
	for _, r := range t.Usage {
		got[r.ID] = r.Count
	}
	ids := map[string]bool{}
	for k := range want {
		ids[k] = true
	}
	for k := range got {
		ids[k] = true
	}
	for id := range ids {
		if strings.HasPrefix(id, "kvs") || id == "peerings" {
			continue
		}
		if got[id] != want[id] {
			shape := "drift"
			if id == "service-names" && m.caseNames {
				shape = "names-differing-only-in-case"
			}
			out = append(out, finding{"usage:" + id + ":" + shape, fmt.Sprintf("usage/%s/%d/%d", id, got[id], want[id]),
				fmt.Sprintf("usage[%s] = %d, the registrations give %d", id, got[id], want[id])})
		}
	}
	// the query API must say what the table says
	st := w.Store()
	_, su, err := st.ServiceUsage(nil, false)
	if err != nil {
		out = append(out, finding{"usage:api-error", "", err.Error()})
		return
	}
	api := map[string]int{"services": su.ServiceInstances, "service-names": su.Services, "nodes": su.Nodes, "billable-services": su.BillableServiceInstances}
	for k, n := range su.ConnectServiceInstances {
		api["connect-mesh-"+k] = n
	}
	_, cu, _ := st.ConfigEntryUsage()
	for k, n := range cu.ConfigByKind {
		api["config-entries-"+k] = n
	}
	_, nu, _ := st.NodeUsage()
	if nu.Nodes != got["nodes"] {
		out = append(out, finding{"usage:api-differs-from-table:nodes", "", fmt.Sprintf("NodeUsage says %d, the usage table %d", nu.Nodes, got["nodes"])})
	}
	for k, n := range api {
		if n != got[k] {
			out = append(out, finding{"usage:api-differs-from-table:" + k, "", fmt.Sprintf("the usage API says %s=%d, the usage table %d", k, n, got[k])})
		}
	}
	return
}

// ---------------------------------------------------------------- (4) kind-service-names

// rewrittenInPlace: of the registrations / config entries that gave (kind, name) its row BEFORE the command, at
// least one still exists afterwards under the same key with other attributes (re-registration / overwrite).
// Otherwise the command removed them (deregistration, config delete) and the row was left behind.
func rewrittenInPlace(before, after *state.VerifC07Tables, kind, name string) bool {
	if kind == "destination" {
		for _, e := range after.Config {
			if e.GetKind() == structs.ServiceDefaults && lower(e.GetName()) == name {
				return true
			}
		}
		return false
	}
	still := map[string]bool{}
	for _, v := range after.Services {
		still[svcKey(v.PeerName, v.Node, v.ServiceID)] = true
	}
	for _, v := range before.Services {
		if !isLocal(v.PeerName) {
			continue
		}
		gave := kindName(v.ServiceKind) == kind && lower(v.ServiceName) == name
		if kind == "connect-enabled" {
			cn, ok := connectNameOf(v)
			gave = ok && lower(cn) == name
		}
		if gave && still[svcKey(v.PeerName, v.Node, v.ServiceID)] {
			return true
		}
	}
	return false
}

func (m *Monitor) kindNames(w *World, before, t *state.VerifC07Tables, op *Op) (out []finding) {
	want := map[string]string{} // kind \0 lower(name) -> reason
	for _, v := range t.Services {
		if !isLocal(v.PeerName) {
			continue
		}
		want[kindName(v.ServiceKind)+"\x00"+lower(v.ServiceName)] = fmt.Sprintf("instance %s/%s", v.Node, v.ServiceID)
		if cn, ok := connectNameOf(v); ok && cn != "" {
			want["connect-enabled\x00"+lower(cn)] = fmt.Sprintf("connect instance %s/%s", v.Node, v.ServiceID)
		}
	}
	for _, e := range t.Config {
		if cfgDest(e) {
			want["destination\x00"+lower(e.GetName())] = "service-defaults with a Destination"
		}
	}
	got := map[string]bool{}
	for _, r := range t.KindNames {
		got[kindName(r.Kind)+"\x00"+lower(r.Service.Name)] = true
	}
	for k, why := range want {
		if !got[k] {
			p := strings.SplitN(k, "\x00", 2)
			out = append(out, finding{"kind-names:missing-row:" + p[0], "ksn-missing/" + k, fmt.Sprintf("kind-service-names lacks (%s, %s) although %s exists", p[0], p[1], why)})
		}
	}
	for k := range got {
		if _, ok := want[k]; !ok {
			p := strings.SplitN(k, "\x00", 2)
			class := "instance-kind"
			if p[0] == "connect-enabled" || p[0] == "destination" {
				class = p[0]
			}
			// the recorded mechanism is "re-registration / overwrite only upserts"; a row left behind by the command
			// that REMOVES its last justification (deregistration, config delete) is another matter
			if singleWrite(op) && !rewrittenInPlace(before, t, p[0], p[1]) {
				class += ":left-by-deregistration"
			}
			out = append(out, finding{"kind-names:stale-row:" + class, "ksn-stale/" + k, fmt.Sprintf("kind-service-names lists (%s, %s) but no local registration / config entry gives that name this kind", p[0], p[1])})
		}
	}
	// ServiceNamesOfKind must return the table's rows
	for _, kind := range []structs.ServiceKind{structs.ServiceKindTypical, structs.ServiceKindConnectProxy, structs.ServiceKindConnectEnabled,
		structs.ServiceKindMeshGateway, structs.ServiceKindIngressGateway, structs.ServiceKindTerminatingGateway, structs.ServiceKindAPIGateway, structs.ServiceKindDestination} {
		_, rows, err := w.Store().ServiceNamesOfKind(nil, kind)
		if err != nil {
			out = append(out, finding{"kind-names:api-error", "", err.Error()})
			continue
		}
		var a, b []string
		for _, r := range rows {
			a = append(a, lower(r.Service.Name))
		}
		for _, r := range t.KindNames {
			if r.Kind == kind {
				b = append(b, lower(r.Service.Name))
			}
		}
		sort.Strings(a)
		sort.Strings(b)
		if strings.Join(a, ",") != strings.Join(b, ",") {
			out = append(out, finding{"kind-names:api-differs-from-table:" + kindName(kind), "", fmt.Sprintf("ServiceNamesOfKind(%s) = %v, table %v", kindName(kind), a, b)})
		}
	}
	return
}

// ---------------------------------------------------------------- (5) virtual IPs

func vipsSupported(t *state.VerifC07Tables) bool {
	for _, e := range t.SysMeta {
		if e.Key == structs.SystemMetadataVirtualIPsEnabled {
			return e.Value != ""
		}
	}
	return false
}

// keepsVip: an instance named like the service (same peer) or a resolver / router / splitter / defaults /
// intentions config entry of that name exists (what freeServiceVirtualIP must respect)
func keepsVip(t *state.VerifC07Tables, peer, name string) bool {
	for _, v := range t.Services {
		if strings.EqualFold(v.PeerName, peer) && strings.EqualFold(v.ServiceName, name) {
			return true
		}
	}
	for _, e := range t.Config {
		switch e.GetKind() {
		case structs.ServiceResolver, structs.ServiceRouter, structs.ServiceSplitter, structs.ServiceDefaults, structs.ServiceIntentions:
			if strings.EqualFold(e.GetName(), name) {
				return true
			}
		}
	}
	return false
}

func tgwVipsSupported(t *state.VerifC07Tables) bool {
	for _, e := range t.SysMeta {
		if e.Key == structs.SystemMetadataTermGatewayVirtualIPsEnabled {
			return e.Value != ""
		}
	}
	return false
}

// tgwLinks: the terminating gateways (other than `except`) that a gateway-services row links to service `name`
func tgwLinks(t *state.VerifC07Tables, name, except string) (gws []string) {
	for _, g := range t.Gateway {
		if g.GatewayKind == structs.ServiceKindTerminatingGateway && strings.EqualFold(g.Service.Name, name) &&
			(except == "" || !strings.EqualFold(g.Gateway.Name, except)) {
			gws = append(gws, g.Gateway.Name)
		}
	}
	return
}

const sigTgwFreed = "vip:freed-while-terminating-gateway-links-service"

func (m *Monitor) vips(w *World, before, t *state.VerifC07Tables, op *Op) (out []finding) {
	// (5a) with terminating-gateway virtual IPs on, a local service that a terminating gateway links keeps its address
	// (freeServiceVirtualIP's gateway guard): an assignment present before the command and gone after it, while a
	// gateway-services row of a terminating gateway — other than a gateway whose config entry this very command
	// rewrites or deletes — links the service before and after the command, was released wrongly
	// (only commands that do one thing: a registration may rename a node by ID — delete the old node with its instances,
	// releasing addresses rightly while no link exists, then register the instance again, which re-creates the link)
	if vipsSupported(before) && tgwVipsSupported(before) && (op.Kind == "dereg" || op.Kind == "cfgdel" || op.Kind == "cfgset") {
		still := map[string]bool{}
		for _, r := range t.VIPs {
			if r.Service.Peer == "" {
				still[lower(r.Service.ServiceName.Name)] = true
			}
		}
		except := ""
		if (op.Kind == "cfgset" || op.Kind == "cfgdel") && op.Cfg != nil && op.Cfg.Kind == structs.TerminatingGateway {
			except = op.Cfg.Name
		}
		for _, r := range before.VIPs {
			name := r.Service.ServiceName.Name
			if r.Service.Peer != "" || still[lower(name)] {
				continue
			}
			// the link must have been there before the command and still be there after it (a command that deletes the
			// last instance and registers a new one — a rename by node ID, a transaction — may release the address
			// rightly and create the link afterwards)
			was := map[string]bool{}
			for _, g := range tgwLinks(before, name, except) {
				was[lower(g)] = true
			}
			var gws []string
			for _, g := range tgwLinks(t, name, except) {
				if was[lower(g)] {
					gws = append(gws, g)
				}
			}
			if len(gws) > 0 {
				m.tgwFreed[lower(name)] = true
				out = append(out, finding{sigTgwFreed, "vipfreed-tgw/" + lower(name) + "/" + fmt.Sprint(op.Idx),
					fmt.Sprintf("the virtual IP of service %q (offset %s) was released by %s although terminating gateway %q still links the service (terminating-gateway virtual IPs on)",
						name, rawIPOffset(r.IP), op.Kind, gws[0])})
			}
		}
	}
	byIP := map[string]string{}
	assigned := map[string]string{} // lower(peer) \0 lower(name) -> raw offset
	for _, r := range t.VIPs {
		ip := rawIPOffset(r.IP)
		who := fmt.Sprintf("%s(peer %q)", r.Service.ServiceName.Name, r.Service.Peer)
		if other, dup := byIP[ip]; dup {
			out = append(out, finding{"vip:address-assigned-twice", "vipdup/" + ip, fmt.Sprintf("virtual IP offset %s is assigned to %s and to %s", ip, other, who)})
		}
		byIP[ip] = who
		assigned[lower(r.Service.Peer)+"\x00"+lower(r.Service.ServiceName.Name)] = ip
	}
	counter := ""
	for _, f := range t.FreeVIPs {
		if f.IsCounter {
			counter = rawIPOffset(f.IP)
			continue
		}
		if who, ok := byIP[rawIPOffset(f.IP)]; ok {
			out = append(out, finding{"vip:free-list-holds-assigned-address", "vipfree/" + rawIPOffset(f.IP), fmt.Sprintf("virtual IP offset %s is on the free list and assigned to %s", rawIPOffset(f.IP), who)})
		}
	}
	_ = counter
	// what the instances advertise
	adv := map[string]string{} // advertised offset -> lower(peer)\0lower(connect name)
	for _, v := range t.Services {
		a, ok := v.ServiceTaggedAddresses[structs.TaggedAddressVirtualIP]
		if !ok {
			continue
		}
		cn, _ := connectNameOf(v)
		off := vipOffset(a.Address)
		key := lower(v.PeerName) + "\x00" + lower(cn)
		inst := fmt.Sprintf("%s/%s (peer %q, kind %s)", v.Node, v.ServiceID, v.PeerName, kindName(v.ServiceKind))
		cur, has := assigned[key]
		switch {
		case !has:
			sig := "vip:advertised-address-has-no-assignment"
			// the recorded mechanism frees the address when NO instance is named like the service, NO config
			// entry keeps it and NO terminating gateway links it; losing it while one of those exists is another matter
			if keepsVip(t, v.PeerName, cn) && (op.Kind == "dereg" || op.Kind == "cfgdel") {
				sig += ":although-an-instance-or-config-entry-keeps-it"
			}
			if isLocal(v.PeerName) && m.tgwFreed[lower(cn)] {
				sig = sigTgwFreed
			}
			out = append(out, finding{sig, "vipadv-none/" + svcKey(v.PeerName, v.Node, v.ServiceID),
				fmt.Sprintf("instance %s advertises virtual IP %s for service %q, which has no virtual IP assigned", inst, a.Address, cn)})
		case cur != off:
			sig := "vip:advertised-address-differs-from-assignment"
			if isLocal(v.PeerName) && m.tgwFreed[lower(cn)] {
				sig = sigTgwFreed
			}
			out = append(out, finding{sig, "vipadv-diff/" + svcKey(v.PeerName, v.Node, v.ServiceID),
				fmt.Sprintf("instance %s advertises virtual IP %s (offset %s) for service %q, whose assignment is offset %s", inst, a.Address, off, cn, cur)})
		}
		if other, ok := adv[off]; ok && other != key {
			sig := "vip:two-services-advertise-one-address"
			if m.tgwFreed[strings.TrimPrefix(other, "\x00")] || m.tgwFreed[strings.TrimPrefix(key, "\x00")] {
				sig = sigTgwFreed
			}
			out = append(out, finding{sig, "vipadv2/" + off,
				fmt.Sprintf("virtual IP %s is advertised by instances of two services (%q and %q)", a.Address, strings.ReplaceAll(other, "\x00", "/"), strings.ReplaceAll(key, "\x00", "/"))})
		}
		adv[off] = key
		// the read API must agree with the table
		got, err := w.Store().VirtualIPForService(structs.PeeredServiceName{Peer: v.PeerName, ServiceName: structs.NewServiceName(cn, nil)})
		if err != nil {
			out = append(out, finding{"vip:api-error", "", err.Error()})
		} else if has && got != "" && vipOffset(got) != cur {
			out = append(out, finding{"vip:api-differs-from-table", "", fmt.Sprintf("VirtualIPForService(%s) = %s, table offset %s", cn, got, cur)})
		}
	}
	// (5c) what the instances of a terminating gateway advertise for the services their gateway's entry links
	// (TaggedAddresses["consul-virtual:<svc>"]; only links the entry currently declares — tags of a deleted entry stay behind)
	if vipsSupported(t) && tgwVipsSupported(t) {
		for _, v := range t.Services {
			if !isLocal(v.PeerName) || v.ServiceKind != structs.ServiceKindTerminatingGateway {
				continue
			}
			var tags []string
			for key := range v.ServiceTaggedAddresses {
				if strings.HasPrefix(key, structs.TaggedAddressVirtualIP+":") {
					tags = append(tags, key)
				}
			}
			sort.Strings(tags)
			for _, key := range tags {
				svc := strings.TrimPrefix(key, structs.TaggedAddressVirtualIP+":")
				linked := false
				for _, g := range t.Gateway {
					if g.GatewayKind == structs.ServiceKindTerminatingGateway && !g.FromWildcard &&
						strings.EqualFold(g.Gateway.Name, v.ServiceName) && strings.EqualFold(g.Service.Name, svc) {
						linked = true
					}
				}
				if !linked {
					continue
				}
				a := v.ServiceTaggedAddresses[key]
				off := vipOffset(a.Address)
				akey := "\x00" + lower(svc)
				inst := fmt.Sprintf("%s/%s (terminating gateway %s)", v.Node, v.ServiceID, v.ServiceName)
				pick := func(sig string) string {
					if m.tgwFreed[lower(svc)] {
						return sigTgwFreed
					}
					return sig
				}
				cur, has := assigned[akey]
				switch {
				case !has:
					out = append(out, finding{pick("vip:gateway-advertised-address-has-no-assignment"), "vipgw-none/" + svcKey("", v.Node, v.ServiceID) + "/" + lower(svc),
						fmt.Sprintf("instance %s advertises virtual IP %s for linked service %q, which has no virtual IP assigned", inst, a.Address, svc)})
				case cur != off:
					out = append(out, finding{pick("vip:gateway-advertised-address-differs-from-assignment"), "vipgw-diff/" + svcKey("", v.Node, v.ServiceID) + "/" + lower(svc),
						fmt.Sprintf("instance %s advertises virtual IP %s (offset %s) for linked service %q, whose assignment is offset %s", inst, a.Address, off, svc, cur)})
				}
				if other, ok := adv[off]; ok && other != akey {
					// the gateway's own advertisement is the current assignment: the other advertiser is a sidecar /
					// native instance left with a released address that was handed out again (the recorded mechanism)
					sig := "vip:two-services-advertise-one-address"
					if !has || cur != off {
						sig = "vip:gateway-and-another-service-advertise-one-address"
					}
					if m.tgwFreed[lower(svc)] || m.tgwFreed[strings.TrimPrefix(other, "\x00")] {
						sig = sigTgwFreed
					}
					out = append(out, finding{sig, "vipgw2/" + off,
						fmt.Sprintf("virtual IP %s is advertised by %s for %q and by instances of %q", a.Address, inst, svc, strings.ReplaceAll(other, "\x00", "/"))})
				}
			}
		}
	}
	return
}

// ---------------------------------------------------------------- (6) gateway-services

type svcFacts struct {
	typicalNonNative map[string]bool // lower(name) with a local instance of kind typical that is not connect-native
	typical          map[string]bool // lower(name) with a local instance of kind typical
	connect          map[string]bool // lower(name) served through Connect by a local instance (sidecar destination / native)
	dest             map[string]bool // lower(name) of a service-defaults with a Destination
}

func factsOf(t *state.VerifC07Tables) *svcFacts {
	f := &svcFacts{map[string]bool{}, map[string]bool{}, map[string]bool{}, map[string]bool{}}
	for _, v := range t.Services {
		if !isLocal(v.PeerName) {
			continue
		}
		if v.ServiceKind == structs.ServiceKindTypical && v.ServiceName != "consul" {
			f.typical[lower(v.ServiceName)] = true
			if !v.ServiceConnect.Native {
				f.typicalNonNative[lower(v.ServiceName)] = true
			}
		}
		if cn, ok := connectNameOf(v); ok && cn != "" {
			f.connect[lower(cn)] = true
		}
	}
	for _, e := range t.Config {
		if cfgDest(e) {
			f.dest[lower(e.GetName())] = true
		}
	}
	return f
}

type gwRow struct {
	gateway, service string
	port             int
	kind             string
	wildcard         bool
}

func (r gwRow) key() string { return fmt.Sprintf("%s\x00%s\x00%d", lower(r.gateway), lower(r.service), r.port) }

// gatewayServicesOf recomputes the gateway → service links from the gateway config entries and the
// registrations: a link per named service; for `*` the wildcard row itself plus one link per service the
// gateway kind can front (ingress: served through Connect; terminating: has a plain instance or is a
// declared destination), unless the same gateway/port names that service explicitly.
func gatewayServicesOf(t *state.VerifC07Tables) map[string]gwRow {
	f := factsOf(t)
	out := map[string]gwRow{}
	add := func(r gwRow) {
		if old, ok := out[r.key()]; ok && !old.wildcard {
			return // an explicit link wins over a wildcard expansion
		}
		out[r.key()] = r
	}
	expand := func(gw string, port int, kind string, names map[string]bool) {
		for n := range names {
			add(gwRow{gw, n, port, kind, true})
		}
	}
	for _, e := range t.Config {
		switch c := e.(type) {
		case *structs.IngressGatewayConfigEntry:
			for _, l := range c.Listeners {
				for _, s := range l.Services {
					if s.Name != structs.WildcardSpecifier {
						out[gwRow{c.Name, s.Name, l.Port, "ingress-gateway", false}.key()] = gwRow{c.Name, s.Name, l.Port, "ingress-gateway", false}
					}
				}
			}
			for _, l := range c.Listeners {
				for _, s := range l.Services {
					if s.Name == structs.WildcardSpecifier {
						add(gwRow{c.Name, "*", l.Port, "ingress-gateway", false})
						expand(c.Name, l.Port, "ingress-gateway", f.connect)
					}
				}
			}
		case *structs.TerminatingGatewayConfigEntry:
			for _, s := range c.Services {
				if s.Name != structs.WildcardSpecifier {
					out[gwRow{c.Name, s.Name, 0, "terminating-gateway", false}.key()] = gwRow{c.Name, s.Name, 0, "terminating-gateway", false}
				}
			}
			for _, s := range c.Services {
				if s.Name == structs.WildcardSpecifier {
					add(gwRow{c.Name, "*", 0, "terminating-gateway", false})
					expand(c.Name, 0, "terminating-gateway", f.typicalNonNative)
					expand(c.Name, 0, "terminating-gateway", f.dest)
				}
			}
		}
	}
	return out
}

func (m *Monitor) gateways(w *World, t *state.VerifC07Tables) (out []finding) {
	want := gatewayServicesOf(t)
	got := map[string]gwRow{}
	for _, g := range t.Gateway {
		r := gwRow{g.Gateway.Name, g.Service.Name, g.Port, string(g.GatewayKind), g.FromWildcard}
		got[r.key()] = r
	}
	f := factsOf(t)
	for k, r := range want {
		g, ok := got[k]
		how := "named-service"
		if r.wildcard {
			how = "wildcard-expansion"
		} else if r.service == "*" {
			how = "wildcard-row"
		}
		switch {
		case !ok:
			out = append(out, finding{"gateway-services:missing-link:" + r.kind + ":" + how, "gw-missing/" + k,
				fmt.Sprintf("gateway-services lacks %s -> %s (port %d): the %s config entry links it (%s)", r.gateway, r.service, r.port, r.kind, how)})
		case g.wildcard != r.wildcard:
			out = append(out, finding{"gateway-services:wildcard-flag:" + r.kind + ":" + how, "gw-flag/" + k,
				fmt.Sprintf("gateway-services %s -> %s (port %d) has FromWildcard=%v, the config entry makes it %v", r.gateway, r.service, r.port, g.wildcard, r.wildcard)})
		}
	}
	for k, g := range got {
		if _, ok := want[k]; ok {
			continue
		}
		why := "no-instance-to-front"
		n := lower(g.service)
		switch {
		case g.wildcard && g.kind == "ingress-gateway" && !f.dest[n] && !f.connect[n]:
			// not a destination either: the link was right once and was not cleaned when the instance stopped being connect-enabled
			why = "not-cleaned-on-re-registration"
		case !g.wildcard:
			why = "not-in-config-entry"
		case g.kind == "ingress-gateway" && f.connect[n], g.kind == "terminating-gateway" && (f.typicalNonNative[n] || f.dest[n]):
			why = "no-wildcard-in-config-entry"
		}
		out = append(out, finding{"gateway-services:stale-link:" + g.kind + ":" + why, "gw-stale/" + k,
			fmt.Sprintf("gateway-services links %s -> %s (port %d, FromWildcard=%v) but the config entries and registrations do not (%s)", g.gateway, g.service, g.port, g.wildcard, why)})
	}
	// GatewayServices(gateway) returns the table's rows of that gateway except the `*` row (and, for ingress
	// listeners, the services whose protocol differs from the listener's)
	gws := map[string]bool{}
	for _, g := range t.Gateway {
		gws[g.Gateway.Name] = true
	}
	for gw := range gws {
		_, rows, err := w.Store().GatewayServices(nil, gw, nil)
		if err != nil {
			out = append(out, finding{"gateway-services:api-error", "", err.Error()})
			continue
		}
		inTable := map[string]bool{}
		n, ingress := 0, false
		for _, g := range t.Gateway {
			if strings.EqualFold(g.Gateway.Name, gw) && g.Service.Name != structs.WildcardSpecifier {
				inTable[gwRow{g.Gateway.Name, g.Service.Name, g.Port, "", false}.key()] = true
				n++
				ingress = ingress || g.GatewayKind == structs.ServiceKindIngressGateway
			}
		}
		for _, g := range rows {
			if !inTable[gwRow{g.Gateway.Name, g.Service.Name, g.Port, "", false}.key()] {
				out = append(out, finding{"gateway-services:api-row-not-in-table", "", fmt.Sprintf("GatewayServices(%s) returns %s:%d, which the table does not hold", gw, g.Service.Name, g.Port)})
			}
		}
		if !ingress && len(rows) != n {
			out = append(out, finding{"gateway-services:api-differs-from-table", "", fmt.Sprintf("GatewayServices(%s) returns %d rows, the table has %d named links", gw, len(rows), n)})
		}
	}
	return
}

// ---------------------------------------------------------------- (7) mesh-topology

// singleWrite: the command is not a transaction with several catalog writes (whose intermediate states cannot be
// observed: such a command keeps the coarse signature)
func singleWrite(op *Op) bool {
	if op.Kind != "xtxn" {
		return true
	}
	n := 0
	for i := range op.Txn {
		a := &op.Txn[i]
		v := a.Verb
		if a.Base != nil {
			if a.Base.Fam == 'k' || a.Base.Fam == 'x' {
				continue
			}
			v = a.Base.Verb
		}
		if v != "get" {
			n++
		}
	}
	return n <= 1
}

// removes says whether the command deregisters something (a deregistration, a rename by node ID, a
// transaction with a delete verb): used only to NAME a missing pair (which mechanism lost it).
func removes(before *state.VerifC07Tables, op *Op) bool {
	switch op.Kind {
	case "dereg":
		return true
	case "reg":
		for _, n := range before.Nodes {
			if op.Node.ID != "" && strings.EqualFold(n.PeerName, op.Peer) && strings.EqualFold(string(n.ID), op.Node.ID) && !strings.EqualFold(n.Node, op.Node.Name) {
				return true
			}
		}
	case "xtxn":
		// a transaction counts as a removal only when its catalog operations are all deletes (the intermediate
		// states of a mixed transaction are not observable)
		dels := 0
		for i := range op.Txn {
			a := &op.Txn[i]
			v := a.Verb
			if a.Base != nil {
				if a.Base.Fam == 'k' || a.Base.Fam == 'x' {
					continue
				}
				v = a.Base.Verb
			}
			switch {
			case strings.HasPrefix(v, "delete"):
				dels++
			case v == "get":
			default:
				return false
			}
		}
		return dels > 0
	}
	return false
}

// upstreamDropped: an instance registered before and after the command listed `up` as an upstream before, and
// afterwards is a sidecar of `down` that no longer lists it (updateMeshTopology then deletes the pair
// (up, NEW destination) with DeleteAll, whoever else references it)
func upstreamDropped(before, after *state.VerifC07Tables, up, down string) bool {
	lists := func(v *structs.ServiceNode) bool {
		for _, u := range v.ServiceProxy.Upstreams {
			if lower(u.DestinationName) == up {
				return true
			}
		}
		return false
	}
	for _, b := range before.Services {
		if !lists(b) {
			continue
		}
		for _, a := range after.Services {
			if svcKey(a.PeerName, a.Node, a.ServiceID) == svcKey(b.PeerName, b.Node, b.ServiceID) &&
				lower(a.ServiceProxy.DestinationServiceName) == down && !lists(a) {
				return true
			}
		}
	}
	return false
}

func (m *Monitor) topology(before, t *state.VerifC07Tables, op *Op) (out []finding) {
	type row struct {
		refs map[string]bool
		why  string // sidecar (a local one declares it) > ingress-named-link > ingress-wildcard-expansion > imported-sidecar
	}
	rank := map[string]int{"sidecar": 4, "ingress-named-link": 3, "ingress-wildcard-expansion": 2, "imported-sidecar": 1}
	want := map[string]*row{}
	key := func(up, down string) string { return lower(up) + "\x00" + lower(down) }
	declare := func(k, why string) *row {
		if want[k] == nil {
			want[k] = &row{map[string]bool{}, why}
		} else if rank[why] > rank[want[k].why] {
			want[k].why = why
		}
		return want[k]
	}
	for _, v := range t.Services {
		// the store also records the pairs of imported sidecars (updateMeshTopology does not look at the peer);
		// they are accepted here, only their references are not demanded
		if v.ServiceKind != structs.ServiceKindConnectProxy {
			continue
		}
		for _, u := range v.ServiceProxy.Upstreams {
			k := key(u.DestinationName, v.ServiceProxy.DestinationServiceName)
			if isLocal(v.PeerName) {
				sid := v.CompoundServiceID()
				declare(k, "sidecar").refs[lower(structs.UniqueID(v.Node, sid.String()))] = true
			} else {
				declare(k, "imported-sidecar")
			}
		}
	}
	for _, g := range gatewayServicesOf(t) {
		if g.kind == "ingress-gateway" && g.service != "*" {
			if g.wildcard {
				declare(key(g.service, g.gateway), "ingress-wildcard-expansion")
			} else {
				declare(key(g.service, g.gateway), "ingress-named-link")
			}
		}
	}
	got := map[string]state.VerifC07Topology{}
	for _, r := range t.Topology {
		got[key(r.Upstream.Name, r.Downstream.Name)] = r
	}
	for k, r := range want {
		g, ok := got[k]
		p := strings.SplitN(k, "\x00", 2)
		if !ok {
			sig := ""
			switch r.why {
			case "sidecar":
				// lost by a deregistration: the pair went away with ANOTHER sidecar's registration (references lost);
				// lost by a registration: another sidecar dropped the upstream and DeleteAll removed the shared row
				sig = "topology:missing-pair:sidecar"
				if !singleWrite(op) || upstreamDropped(before, t, p[0], p[1]) {
					sig = "topology:missing-pair:sidecar:upstream-dropped-by-another-sidecar"
				}
			case "imported-sidecar":
				sig = "topology:missing-pair:imported-sidecar-declares-it"
			case "ingress-named-link":
				sig = "topology:missing-pair:ingress-named-link"
			default:
				sig = "topology:missing-pair:ingress"
			}
			out = append(out, finding{sig, "topo-missing/" + k,
				fmt.Sprintf("mesh-topology lacks upstream %s <- downstream %s although it is declared (%s)", p[0], p[1], r.why)})
			continue
		}
		if r.why == "sidecar" {
			have := map[string]bool{}
			for _, x := range g.Refs {
				have[lower(x)] = true
			}
			for x := range r.refs {
				if !have[x] {
					out = append(out, finding{"topology:pair-lacks-reference-to-registered-sidecar", "topo-ref/" + k + "/" + x,
						fmt.Sprintf("mesh-topology pair upstream %s <- downstream %s does not reference sidecar %s, which declares it (it disappears when another sidecar deregisters)", p[0], p[1], x)})
				}
			}
		}
	}
	ingressLink := map[string]bool{} // (service, gateway) of the ingress rows the gateway-services TABLE holds
	for _, g := range t.Gateway {
		if g.GatewayKind == structs.ServiceKindIngressGateway {
			ingressLink[key(g.Service.Name, g.Gateway.Name)] = true
		}
	}
	for k := range got {
		if _, ok := want[k]; !ok {
			p := strings.SplitN(k, "\x00", 2)
			why := "no-sidecar-or-ingress-link-declares-it"
			switch {
			case ingressLink[k]:
				why = "follows-stale-ingress-link"
			case m.importedPairs[k]:
				why = "imported-sidecar-that-declared-it-is-gone"
			}
			out = append(out, finding{"topology:stale-pair:" + why, "topo-stale/" + k,
				fmt.Sprintf("mesh-topology holds upstream %s <- downstream %s but nothing registered declares it (%s)", p[0], p[1], why)})
		}
	}
	return
}

// ---------------------------------------------------------------- driver

func (m *Monitor) noteHistory(before, t *state.VerifC07Tables) {
	for _, tt := range []*state.VerifC07Tables{before, t} {
		for _, v := range tt.Services {
			if !isLocal(v.PeerName) && v.ServiceKind == structs.ServiceKindConnectProxy {
				for _, u := range v.ServiceProxy.Upstreams {
					m.importedPairs[lower(u.DestinationName)+"\x00"+lower(v.ServiceProxy.DestinationServiceName)] = true
				}
			}
		}
	}
	seen := map[string]string{}
	for _, tt := range []*state.VerifC07Tables{before, t} {
		for _, v := range tt.Services {
			if !isLocal(v.PeerName) {
				continue
			}
			if s, ok := seen[lower(v.ServiceName)]; ok && s != v.ServiceName {
				m.caseNames = true
			}
			seen[lower(v.ServiceName)] = v.ServiceName
		}
	}
}

// Check returns the findings that appeared with this command (persisting ones are not repeated).
func (m *Monitor) Check(w *World, before, after *Snap, op *Op, res string) []finding {
	t := &after.T
	// a service re-registered under a spelling that differs only in case (same instance id) counts too
	if op.Svc != nil {
		for _, v := range before.T.Services {
			if isLocal(v.PeerName) && isLocal(op.Peer) && lower(v.ServiceName) == lower(op.Svc.Name) && v.ServiceName != op.Svc.Name {
				m.caseNames = true
			}
		}
	}
	m.noteHistory(&before.T, t)
	var fs []finding
	fs = append(fs, orphans(t)...)
	fs = append(fs, m.usage(w, t)...)
	fs = append(fs, m.kindNames(w, &before.T, t, op)...)
	fs = append(fs, m.vips(w, &before.T, t, op)...)
	fs = append(fs, m.gateways(w, t)...)
	fs = append(fs, m.topology(&before.T, t, op)...)
	// a discrepancy keeps the signature it was given when it appeared (the naming may look at the command
	// that introduced it); it is reported once, when it appears
	now := map[string]string{}
	var out []finding
	for _, f := range fs {
		k := f.key
		if k == "" {
			k = f.sig + "|" + f.desc
		}
		if sig, ok := m.prev[k]; ok {
			now[k] = sig
			continue
		}
		if _, dup := now[k]; dup {
			continue
		}
		now[k] = f.sig
		out = append(out, f)
	}
	m.prev = now
	return append(out, cascades(&before.T, t, op, res)...)
}

func (h *History) branchTags(before, after *Snap, op *Op, res string) {
	run := h.Run
	run.Tag("op:" + op.Kind)
	run.Tag("res:" + op.Kind + ":" + resClass(res))
	if op.ViaFSM {
		run.Tag("path:fsm")
	} else {
		run.Tag("path:store")
	}
	b, a := &before.T, &after.T
	if res != "ok" {
		h.nontrv = true
	}
	if op.Kind == "reg" {
		if op.Peer != "" {
			run.Tag("reg:imported")
		}
		if op.Svc != nil {
			run.Tag("reg:kind:" + op.Svc.Kind)
			if op.Svc.Native {
				run.Tag("reg:connect-native")
			}
			if len(op.Svc.Ups) > 0 {
				run.Tag("reg:sidecar-with-upstreams")
			}
			for _, v := range b.Services {
				if strings.EqualFold(v.PeerName, op.Peer) && strings.EqualFold(v.Node, op.Node.Name) && strings.EqualFold(v.ServiceID, op.Svc.ID) {
					run.Tag("reg:existing-instance")
					if kindName(v.ServiceKind) != op.Svc.Kind {
						run.Tag("reg:instance-changes-kind")
						h.nontrv = true
					}
					if v.ServiceName != op.Svc.Name {
						run.Tag("reg:instance-changes-name")
						h.nontrv = true
					}
					if v.ServiceConnect.Native != op.Svc.Native {
						run.Tag("reg:instance-toggles-native")
						h.nontrv = true
					}
				}
			}
		}
		if res == "ok" && op.Node.ID != "" {
			for _, n := range b.Nodes {
				if strings.EqualFold(n.PeerName, op.Peer) && strings.EqualFold(string(n.ID), op.Node.ID) && !strings.EqualFold(n.Node, op.Node.Name) {
					run.Tag("node:rename-by-id")
					h.nontrv = true
				}
			}
		}
	}
	if op.Kind == "dereg" && res == "ok" {
		switch {
		case len(a.Nodes) < len(b.Nodes):
			run.Tag(fmt.Sprintf("dereg:node:services-%d:checks-%d:coords-%d", min(len(b.Services)-len(a.Services), 3), min(len(b.Checks)-len(a.Checks), 3), min(len(b.Coordinates)-len(a.Coordinates), 2)))
			h.nontrv = true
		case len(a.Services) < len(b.Services):
			run.Tag(fmt.Sprintf("dereg:service:checks-%d", min(len(b.Checks)-len(a.Checks), 2)))
			h.nontrv = true
		case len(a.Checks) < len(b.Checks):
			run.Tag("dereg:check")
		default:
			run.Tag("dereg:nothing-to-remove")
		}
	}
	if len(a.VIPs) > len(b.VIPs) {
		if len(b.FreeVIPs) > 0 && len(a.FreeVIPs) < len(b.FreeVIPs) {
			run.Tag("vip:assigned-from-free-list")
		} else {
			run.Tag("vip:assigned-from-counter")
		}
		h.nontrv = true
	}
	if len(a.VIPs) < len(b.VIPs) {
		run.Tag("vip:freed:via-" + op.Kind)
		h.nontrv = true
	}
	if len(a.KindNames) < len(b.KindNames) {
		run.Tag("kind-names:row-removed")
	}
	if len(a.Gateway) != len(b.Gateway) {
		run.Tag("gateway-services:changed:via-" + op.Kind)
	}
	if len(a.Topology) != len(b.Topology) {
		run.Tag("topology:changed:via-" + op.Kind)
	}
	if len(a.Sessions) < len(b.Sessions) {
		run.Tag("session:ended:via-" + op.Kind)
	}
	if len(a.Coordinates) < len(b.Coordinates) {
		run.Tag("coordinate:removed:via-" + op.Kind)
	}
	if op.Kind == "cfgset" || op.Kind == "cfgdel" {
		run.Tag(op.Kind + ":" + op.Cfg.Kind)
	}
	if op.Kind == "xtxn" {
		for i := range op.Txn {
			t := &op.Txn[i]
			if t.Base != nil {
				run.Tag(fmt.Sprintf("txn-op:%c:%s", t.Base.Fam, t.Base.Verb))
			} else {
				run.Tag("txn-op:S:" + t.Verb + ":" + t.Svc.Kind)
			}
		}
	}
}
