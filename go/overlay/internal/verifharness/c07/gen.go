//go:build verif

package main

import (
	"strings"

	"github.com/hashicorp/consul/agent/structs"
	"github.com/hashicorp/consul/internal/verifharness/hx"
	"github.com/hashicorp/consul/internal/verifharness/storex"
)

// ---------------------------------------------------------------- universes (small, chosen to collide)

var nodeNames = []string{"n1", "n2", "n3"}
var nodeIDs = []string{"", "11111111-aaaa-0000-0000-000000000001", "11111111-aaaa-0000-0000-000000000002", "22222222-aaaa-0000-0000-000000000003"}
var peers = []string{"peer1", "peer2"}
var svcNames = []string{"web", "api", "db"}
var checkIDs = []string{"c1", "c2", "serfHealth", "sc1"}
var statuses = []string{"passing", "passing", "warning", "critical", ""}
var sessionIDs = []string{"aaaaaaaa-0000-0000-0000-000000000001", "aaaaaaaa-0000-0000-0000-000000000002"}
var ingressToks = []string{"", "8080:web", "8080:api", "8080:*", "8080:web|8081:api", "8080:web|8081:db", "8080:*|8081:db"}
var termToks = []string{"", "web", "db", "*", "web+*", "db+api"}

// Profile weights the operation kinds of a generated history.
type Profile struct {
	Name      string
	W         map[string]int
	VipPc     int  // percentage of histories that enable virtual IPs in the preamble
	CasePc    int  // percentage of names drawn with an upper-case variant (node names, service names)
	PeerPc    int  // percentage of registrations for an imported catalog
	Gateways  bool // gateway kinds and gateway config entries
	KindFlips int  // percentage of service registrations that re-use an instance id with another kind / name
	TgwVips   bool // the monitor-only family: terminating-gateway virtual IPs (both flags on, the gateway and its links favoured)
}

var kindOrder = []string{"reg", "dereg", "coord", "sysmeta", "cfgset", "cfgdel", "xtxn", "sc", "sd"}

type Gen struct {
	R    *hx.RNG
	P    *Profile
	Last *Snap
	Idx  uint64
}

func weighted(r *hx.RNG, w map[string]int, order []string) string {
	tot := 0
	for _, k := range order {
		tot += w[k]
	}
	n := r.Intn(tot)
	for _, k := range order {
		if n < w[k] {
			return k
		}
		n -= w[k]
	}
	return order[0]
}

func (g *Gen) nextIdx() uint64 {
	g.Idx += 1 + uint64(g.R.Intn(3))
	return g.Idx
}

func (g *Gen) peer() string {
	if g.R.Chance(g.P.PeerPc) {
		if g.R.Chance(80) {
			return peers[0]
		}
		return peers[1]
	}
	return ""
}

func (g *Gen) caseVariant(s string) string {
	if g.R.Chance(g.P.CasePc) {
		return strings.ToUpper(s[:1]) + s[1:]
	}
	return s
}

func (g *Gen) nodesOf(peer string) []*structs.Node {
	var out []*structs.Node
	if g.Last != nil {
		for _, n := range g.Last.T.Nodes {
			if strings.EqualFold(n.PeerName, peer) {
				out = append(out, n)
			}
		}
	}
	return out
}

func (g *Gen) servicesOf(peer string) []*structs.ServiceNode {
	var out []*structs.ServiceNode
	if g.Last != nil {
		for _, v := range g.Last.T.Services {
			if strings.EqualFold(v.PeerName, peer) {
				out = append(out, v)
			}
		}
	}
	return out
}

func (g *Gen) nodeName(peer string) string {
	if ns := g.nodesOf(peer); len(ns) > 0 && g.R.Chance(65) {
		return g.caseVariant(hx.Pick(g.R, ns).Node)
	}
	return g.caseVariant(hx.Pick(g.R, nodeNames))
}

func (g *Gen) nodeArg(peer string) storex.NodeArg {
	n := storex.NodeArg{Name: g.nodeName(peer), ID: hx.Pick(g.R, nodeIDs), Addr: "10.0.0.1"}
	// keep the usual name <-> id pairing most of the time so that updates (not only renames) happen
	if g.R.Chance(75) {
		paired := false
		for _, e := range g.nodesOf(peer) {
			if strings.EqualFold(e.Node, n.Name) {
				n.ID = string(e.ID)
				paired = true
			}
		}
		if !paired {
			for i, nm := range nodeNames {
				if strings.EqualFold(nm, n.Name) {
					n.ID = nodeIDs[i+1]
				}
			}
		}
	}
	if g.R.Chance(12) {
		n.Addr = "10.0.0.2"
	}
	return n
}

func (g *Gen) serviceName() string { return g.caseVariant(hx.Pick(g.R, svcNames)) }

func (g *Gen) upstreams() []string {
	var ups []string
	for _, n := range svcNames {
		if g.R.Chance(30) {
			ups = append(ups, n)
		}
	}
	return ups
}

// svcArg draws a service registration: typical / connect-native / sidecar proxy / gateway.
func (g *Gen) svcArg(node, peer string) *SvcArg {
	r := g.R
	name := g.serviceName()
	lname := strings.ToLower(name)
	s := &SvcArg{Name: name, ID: lname + "1", Port: 8000 + r.Intn(2), Kind: "typical", Weights: r.Chance(35)}
	if r.Chance(25) {
		s.ID = lname + "2"
	}
	k := r.Intn(100)
	if g.P.TgwVips && k < 85 && r.Chance(25) {
		k = 90 // more gateway instances in the terminating-gateway family
	}
	switch {
	case k < 40: // typical
	case k < 55: // connect-native
		s.Native = true
	case k < 85: // sidecar proxy
		s.Kind = "connect-proxy"
		s.Dest = name
		s.Name = lname + "-sidecar-proxy"
		s.ID = s.Name
		if r.Chance(20) {
			s.ID += "2"
		}
		if r.Chance(60) {
			s.Ups = g.upstreams()
		}
	default:
		if g.P.Gateways && peer == "" {
			s.Kind = hx.Pick(r, []string{"ingress-gateway", "terminating-gateway", "mesh-gateway", "api-gateway"})
			if g.P.TgwVips && r.Chance(85) {
				s.Kind = "terminating-gateway"
			}
			s.Name = map[string]string{"ingress-gateway": "ingress-gw", "terminating-gateway": "term-gw", "mesh-gateway": "mesh-gw", "api-gateway": "api-gw"}[s.Kind]
			s.ID = s.Name
		} else if r.Chance(30) {
			s.Name, s.ID = "consul", "consul"
		}
	}
	// re-use an instance id that exists on the node with other attributes (kind / name / destination flips)
	if r.Chance(g.P.KindFlips) {
		var here []*structs.ServiceNode
		for _, v := range g.servicesOf(peer) {
			if strings.EqualFold(v.Node, node) {
				here = append(here, v)
			}
		}
		if len(here) > 0 {
			s.ID = hx.Pick(r, here).ServiceID
		}
	}
	return s
}

func (g *Gen) chkArg(node, peer string, svc *SvcArg) storex.ChkArg {
	c := storex.ChkArg{Node: node, ID: hx.Pick(g.R, checkIDs), Status: hx.Pick(g.R, statuses)}
	if g.R.Chance(4) { // a check naming another node (registration must refuse it)
		c.Node = hx.Pick(g.R, nodeNames)
	}
	if c.ID == "sc1" {
		c.Type = "session"
		c.SessName = "lockA"
	}
	switch {
	case svc != nil && g.R.Chance(50):
		c.SvcID = svc.ID
	case g.R.Chance(25):
		// a service that exists on the node, or (rarely) one that does not
		var here []string
		for _, v := range g.servicesOf(peer) {
			if strings.EqualFold(v.Node, node) {
				here = append(here, v.ServiceID)
			}
		}
		if len(here) > 0 && g.R.Chance(85) {
			c.SvcID = hx.Pick(g.R, here)
		} else {
			c.SvcID = hx.Pick(g.R, svcNames) + "1"
		}
	}
	if g.R.Chance(15) {
		c.Output = "o1"
	}
	return c
}

func (g *Gen) regOp() *Op {
	peer := g.peer()
	o := &Op{Kind: "reg", Peer: peer, Node: g.nodeArg(peer)}
	if g.R.Chance(70) {
		o.Svc = g.svcArg(o.Node.Name, peer)
	}
	for n := g.R.Intn(3); n > 0; n-- {
		o.Checks = append(o.Checks, g.chkArg(o.Node.Name, peer, o.Svc))
	}
	return o
}

func (g *Gen) deregOp() *Op {
	peer := g.peer()
	o := &Op{Kind: "dereg", Peer: peer, Dereg: [3]string{g.nodeName(peer), "", ""}}
	switch n := g.R.Intn(10); {
	case n < 5: // a service
		if vs := g.servicesOf(peer); len(vs) > 0 && g.R.Chance(85) {
			v := hx.Pick(g.R, vs)
			o.Dereg[0], o.Dereg[1] = v.Node, v.ServiceID
		} else {
			o.Dereg[1] = hx.Pick(g.R, svcNames) + "1"
		}
	case n < 7: // a check
		o.Dereg[2] = hx.Pick(g.R, checkIDs)
		if g.Last != nil && len(g.Last.T.Checks) > 0 && g.R.Chance(70) {
			c := hx.Pick(g.R, g.Last.T.Checks)
			o.Peer, o.Dereg[0], o.Dereg[2] = c.PeerName, c.Node, string(c.CheckID)
		}
	}
	return o
}

func (g *Gen) coordOp() *Op {
	o := &Op{Kind: "coord"}
	for n := 1 + g.R.Intn(2); n > 0; n-- {
		c := CoordArg{Node: g.nodeName(""), Val: g.R.Intn(5)}
		if g.R.Chance(20) {
			c.Segment = "alpha"
		}
		o.Coords = append(o.Coords, c)
	}
	return o
}

func (g *Gen) sysmetaOp() *Op {
	o := &Op{Kind: "sysmeta", Key: structs.SystemMetadataVirtualIPsEnabled, Val: "true"}
	switch n := g.R.Intn(10); {
	case n == 0:
		o.Del = true
	case n == 1:
		o.Val = ""
	case n == 2:
		o.Key, o.Val = "other-key", "v"
	}
	return o
}

func (g *Gen) cfgArg() *CfgArg {
	r := g.R
	if g.P.TgwVips {
		switch n := r.Intn(10); {
		case n < 2:
			return &CfgArg{Kind: structs.ServiceDefaults, Name: g.serviceName(), Tok: hx.Pick(r, []string{"tcp", "tcp", "dest"})}
		case n < 5:
			return &CfgArg{Kind: structs.ServiceResolver, Name: g.serviceName(), Tok: hx.Pick(r, []string{"", "timeout"})}
		}
		return &CfgArg{Kind: structs.TerminatingGateway, Name: "term-gw", Tok: hx.Pick(r, []string{"web", "db", "db", "db+api", "web+db", "web+*", "*", ""})}
	}
	switch n := r.Intn(10); {
	case n < 4:
		return &CfgArg{Kind: structs.ServiceDefaults, Name: g.serviceName(), Tok: hx.Pick(r, []string{"tcp", "tcp", "dest"})}
	case n < 7 || !g.P.Gateways:
		return &CfgArg{Kind: structs.ServiceResolver, Name: g.serviceName(), Tok: hx.Pick(r, []string{"", "timeout"})}
	case n < 9:
		return &CfgArg{Kind: structs.IngressGateway, Name: "ingress-gw", Tok: hx.Pick(r, ingressToks)}
	}
	return &CfgArg{Kind: structs.TerminatingGateway, Name: "term-gw", Tok: hx.Pick(r, termToks)}
}

func (g *Gen) cfgDelOp() *Op {
	c := g.cfgArg()
	if g.Last != nil && len(g.Last.T.Config) > 0 && g.R.Chance(80) {
		e := hx.Pick(g.R, g.Last.T.Config)
		c = &CfgArg{Kind: e.GetKind(), Name: e.GetName()}
	}
	c.Tok = ""
	return &Op{Kind: "cfgdel", Cfg: c}
}

// casIndex picks from {0, current, current-1, current+1, other}
func (g *Gen) casIndex(cur uint64, present bool) uint64 {
	switch g.R.Intn(6) {
	case 0:
		return 0
	case 1, 2, 3:
		if present {
			return cur
		}
		return g.Idx
	case 4:
		return cur + 1
	}
	return uint64(g.R.Intn(int(g.Idx) + 2))
}

var catVerbs = []string{"get", "set", "set", "cas", "delete", "delete-cas"}

func (g *Gen) txnOp() TxnArg {
	switch n := g.R.Intn(20); {
	case n < 4:
		na := g.nodeArg("")
		v := hx.Pick(g.R, catVerbs)
		for _, e := range g.nodesOf("") {
			if strings.EqualFold(e.Node, na.Name) {
				na.ModIdx = g.casIndex(e.ModifyIndex, true)
			}
		}
		return TxnArg{Base: &storex.TxnOpArg{Fam: 'n', Verb: v, Node: &na}}
	case n < 13:
		node := g.nodeName("")
		s := g.svcArg(node, "")
		v := hx.Pick(g.R, catVerbs)
		if vs := g.servicesOf(""); len(vs) > 0 && (v == "delete" || v == "delete-cas" || v == "get") && g.R.Chance(80) {
			e := hx.Pick(g.R, vs)
			node, s.ID = e.Node, e.ServiceID
		}
		for _, e := range g.servicesOf("") {
			if strings.EqualFold(e.Node, node) && strings.EqualFold(e.ServiceID, s.ID) {
				s.ModIdx = g.casIndex(e.ModifyIndex, true)
			}
		}
		if s.Kind == "typical" && !s.Native && !s.Weights && g.R.Chance(30) {
			return TxnArg{Base: &storex.TxnOpArg{Fam: 's', Verb: v, Svc: &storex.SvcArg{Node: node, ID: s.ID, Name: s.Name, Port: s.Port, ModIdx: s.ModIdx}}}
		}
		return TxnArg{Verb: v, Node: node, Svc: s}
	case n < 18:
		c := g.chkArg(g.nodeName(""), "", nil)
		v := hx.Pick(g.R, catVerbs)
		if g.Last != nil {
			for _, e := range g.Last.T.Checks {
				if e.PeerName == "" && strings.EqualFold(e.Node, c.Node) && strings.EqualFold(string(e.CheckID), c.ID) {
					c.ModIdx = g.casIndex(e.ModifyIndex, true)
				}
			}
		}
		return TxnArg{Base: &storex.TxnOpArg{Fam: 'c', Verb: v, Chk: &c}}
	case n < 19:
		return TxnArg{Base: &storex.TxnOpArg{Fam: 'k', Verb: "set", KV: &storex.KVArg{Verb: "set", Key: hx.Pick(g.R, []string{"a", "b"}), Val: []byte("v")}}}
	}
	return TxnArg{Base: &storex.TxnOpArg{Fam: 'x', Verb: "delete", SessID: hx.Pick(g.R, sessionIDs)}}
}

func (g *Gen) sessOp() *Op {
	s := &storex.SessArg{ID: hx.Pick(g.R, sessionIDs), Node: g.nodeName(""), Behavior: hx.Pick(g.R, []string{"", "delete"})}
	if g.Last != nil {
		for _, c := range g.Last.T.Checks {
			if c.PeerName == "" && strings.EqualFold(c.Node, s.Node) && g.R.Chance(40) && len(s.Checks) < 2 {
				s.Checks = append(s.Checks, string(c.CheckID))
			}
		}
	}
	return &Op{Kind: "sc", Sess: s}
}

// Next generates the next operation of a history from the current observation.
func (g *Gen) Next() *Op {
	var o *Op
	switch k := weighted(g.R, g.P.W, kindOrder); k {
	case "reg":
		o = g.regOp()
	case "dereg":
		o = g.deregOp()
	case "coord":
		o = g.coordOp()
	case "sysmeta":
		o = g.sysmetaOp()
	case "cfgset":
		o = &Op{Kind: "cfgset", Cfg: g.cfgArg()}
	case "cfgdel":
		o = g.cfgDelOp()
	case "xtxn":
		o = &Op{Kind: "xtxn"}
		for n := 1 + g.R.Intn(4); n > 0; n-- {
			o.Txn = append(o.Txn, g.txnOp())
		}
	case "sc":
		o = g.sessOp()
	default:
		o = &Op{Kind: "sd", SessID: hx.Pick(g.R, sessionIDs)}
	}
	o.Idx = g.nextIdx()
	o.ViaFSM = g.R.Bool()
	return o
}

// Preamble: the virtual-ips flag (the leader sets it once every server supports the feature).
func (g *Gen) Preamble() []*Op {
	var ops []*Op
	if g.R.Chance(g.P.VipPc) {
		ops = append(ops, &Op{Kind: "sysmeta", Key: structs.SystemMetadataVirtualIPsEnabled, Val: "true", Idx: g.nextIdx(), ViaFSM: g.R.Bool()})
	}
	if g.P.TgwVips {
		ops = append(ops, &Op{Kind: "sysmeta", Key: structs.SystemMetadataTermGatewayVirtualIPsEnabled, Val: "true", Idx: g.nextIdx(), ViaFSM: g.R.Bool()})
	}
	return ops
}
