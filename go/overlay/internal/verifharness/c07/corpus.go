//go:build verif

package main

import (
	"github.com/hashicorp/consul/agent/structs"
	"github.com/hashicorp/consul/internal/verifharness/hx"
	"github.com/hashicorp/consul/internal/verifharness/storex"
)

// The corpus: one minimal history per finding of this property (shrunk witnesses of earlier runs, written
// out by hand). It runs first on every run, through the same History (so the model is compared on it as
// well); each scenario says which monitor signature it is expected to raise on the code as it is. After a
// repair in /repo the scenario no longer raises it (tag corpus:…:not-reproduced) and nothing is reported.

const (
	idN1 = "11111111-aaaa-0000-0000-000000000001"
	idN2 = "11111111-aaaa-0000-0000-000000000002"
	idN3 = "22222222-aaaa-0000-0000-000000000003"
)

func opReg(peer, node, id string, svc *SvcArg, checks ...storex.ChkArg) *Op {
	return &Op{Kind: "reg", Peer: peer, Node: storex.NodeArg{Name: node, ID: id, Addr: "10.0.0.1"}, Svc: svc, Checks: checks}
}
func opDereg(peer, node, svc, chk string) *Op {
	return &Op{Kind: "dereg", Peer: peer, Dereg: [3]string{node, svc, chk}}
}
func opCfg(kind, name, tok string) *Op { return &Op{Kind: "cfgset", Cfg: &CfgArg{Kind: kind, Name: name, Tok: tok}} }
func opCfgDel(kind, name string) *Op   { return &Op{Kind: "cfgdel", Cfg: &CfgArg{Kind: kind, Name: name}} }
func opVips() *Op {
	return &Op{Kind: "sysmeta", Key: structs.SystemMetadataVirtualIPsEnabled, Val: "true"}
}
func opTgwVips() *Op {
	return &Op{Kind: "sysmeta", Key: structs.SystemMetadataTermGatewayVirtualIPsEnabled, Val: "true"}
}
func termGw(id string) *SvcArg {
	return &SvcArg{ID: id, Name: "term-gw", Port: 8443, Kind: "terminating-gateway"}
}
func typical(id, name string, native bool) *SvcArg {
	return &SvcArg{ID: id, Name: name, Port: 8000, Kind: "typical", Native: native}
}
func sidecar(id, dest string, ups ...string) *SvcArg {
	return &SvcArg{ID: id, Name: dest + "-sidecar-proxy", Port: 8000, Kind: "connect-proxy", Dest: dest, Ups: ups}
}
func txnSvc(verb, node string, s *SvcArg) *Op {
	return &Op{Kind: "xtxn", Txn: []TxnArg{{Verb: verb, Node: node, Svc: s}}}
}

type scenario struct {
	sig string // signature expected on the unchanged tree ("" = none: a plain regression scenario)
	ops []*Op
}

func corpus() []scenario {
	const ig, tg = structs.IngressGateway, structs.TerminatingGateway
	const sd, sr = structs.ServiceDefaults, structs.ServiceResolver
	return []scenario{
		// ---- virtual IPs: freeServiceVirtualIP looks at the instances NAMED like the service, the address is advertised by its sidecars
		{"vip:advertised-address-has-no-assignment", []*Op{opVips(), opReg("", "n1", idN1, sidecar("web-sidecar-proxy", "web")), opCfg(sd, "web", "tcp"), opCfgDel(sd, "web")}},
		{"vip:advertised-address-has-no-assignment", []*Op{opVips(), opReg("", "n1", idN1, sidecar("web-sidecar-proxy", "web")), opReg("", "n1", idN1, typical("web1", "web", false)), opDereg("", "n1", "web1", "")}},
		{"vip:two-services-advertise-one-address", []*Op{opVips(), opReg("", "n1", idN1, sidecar("db-sidecar-proxy", "db")), opCfg(sr, "db", ""), opCfgDel(sr, "db"),
			opReg("", "n1", idN1, sidecar("api-sidecar-proxy", "api"))}},
		{"vip:advertised-address-differs-from-assignment", []*Op{opVips(), opReg("", "n1", idN1, sidecar("api-sidecar-proxy", "api")), opCfg(sr, "api", ""), opCfgDel(sr, "api"),
			opReg("", "n1", idN1, sidecar("web-sidecar-proxy", "web")), opCfg(sr, "api", "")}},
		// ---- usage
		{"usage:service-names:names-differing-only-in-case", []*Op{opReg("", "n1", idN1, typical("db1", "db", false)), opReg("", "n1", idN1, typical("db1", "Db", false))}},
		{"usage:billable-services:drift", []*Op{opReg("", "n1", idN1, typical("consul", "consul", false)), opReg("", "n1", idN1, typical("api1", "api", false)),
			opReg("", "n1", idN1, sidecar("consul", "web"))}},
		// ---- kind-service-names
		{"kind-names:stale-row:connect-enabled", []*Op{opReg("", "n1", idN1, typical("web1", "web", true)), opReg("", "n1", idN1, typical("web1", "web", false))}},
		{"kind-names:stale-row:instance-kind", []*Op{opReg("", "n1", idN1, typical("db1", "db", false)), opReg("", "n1", idN1, typical("db1", "api", false))}},
		{"kind-names:stale-row:instance-kind:left-by-deregistration", []*Op{opReg("", "n1", idN1, typical("a1", "web", false)),
			opReg("", "n1", idN1, &SvcArg{ID: "a2", Name: "web", Port: 8000, Kind: "mesh-gateway"}), opDereg("", "n1", "a1", "")}},
		{"kind-names:stale-row:destination", []*Op{opCfg(sd, "db", "dest"), opCfg(sd, "db", "tcp")}},
		// ---- gateway-services
		{"gateway-services:wildcard-flag:terminating-gateway:named-service", []*Op{opCfg(tg, "term-gw", "web+*"), opReg("", "n1", idN1, typical("web1", "web", false))}},
		{"gateway-services:missing-link:terminating-gateway:named-service", []*Op{opCfg(tg, "term-gw", "web+*"), opReg("", "n1", idN1, typical("web1", "web", false)), opDereg("", "n1", "web1", "")}},
		{"gateway-services:missing-link:terminating-gateway:wildcard-expansion", []*Op{opCfg(tg, "term-gw", "*"), opReg("", "n1", idN1, typical("web1", "web", true)), opCfg(sd, "web", "dest")}},
		{"gateway-services:stale-link:terminating-gateway:no-instance-to-front", []*Op{opCfg(tg, "term-gw", "*"), opCfg(sd, "db", "dest"), opCfg(sd, "db", "tcp")}},
		{"gateway-services:missing-link:ingress-gateway:wildcard-expansion", []*Op{opReg("", "n1", idN1, sidecar("db-sidecar-proxy", "db")), opCfg(ig, "ingress-gw", "8080:*")}},
		{"gateway-services:stale-link:ingress-gateway:no-instance-to-front", []*Op{opCfg(sd, "api", "dest"), opCfg(ig, "ingress-gw", "8080:*")}},
		// ---- mesh-topology (the first two: repaired in /repo by fe0fbdc — regression monitors, expected NOT to reproduce)
		{"topology:pair-lacks-reference-to-registered-sidecar", []*Op{opReg("", "n1", idN1, sidecar("web-sidecar-proxy", "web", "db")), opReg("", "n2", idN2, sidecar("web-sidecar-proxy", "web", "db"))}},
		{"topology:missing-pair:sidecar", []*Op{opReg("", "n1", idN1, sidecar("web-sidecar-proxy", "web", "db")), opReg("", "n2", idN2, sidecar("web-sidecar-proxy", "web", "db")),
			opDereg("", "n2", "web-sidecar-proxy", "")}},
		{"topology:stale-pair:no-sidecar-or-ingress-link-declares-it", []*Op{opReg("", "n1", idN1, sidecar("web-sidecar-proxy", "web", "db")), txnSvc("set", "n1", typical("web-sidecar-proxy", "web", false))}},
		{"topology:stale-pair:imported-sidecar-that-declared-it-is-gone", []*Op{opReg("peer1", "n1", idN1, sidecar("api-sidecar-proxy", "api", "web")), opDereg("peer1", "n1", "", "")}},
		{"topology:missing-pair:ingress", []*Op{opReg("", "n1", idN1, sidecar("db-sidecar-proxy", "db")), opCfg(ig, "ingress-gw", "8080:*")}},
		{"topology:missing-pair:sidecar:upstream-dropped-by-another-sidecar", []*Op{opReg("", "n1", idN1, sidecar("web-sidecar-proxy", "web", "db")),
			opReg("", "n2", idN2, sidecar("web-sidecar-proxy", "web", "db")), opReg("", "n2", idN2, sidecar("web-sidecar-proxy", "web"))}},
		{"topology:missing-pair:imported-sidecar-declares-it", []*Op{opReg("peer1", "n1", idN1, sidecar("web-sidecar-proxy", "web", "db")),
			opReg("", "n1", idN1, sidecar("web-sidecar-proxy", "web")), opDereg("", "n1", "web-sidecar-proxy", "")}},
		{"topology:missing-pair:ingress-named-link", []*Op{opCfg(ig, "ingress-gw", "8080:*|8081:db"), opReg("", "n1", idN1, typical("db1", "db", true)), opDereg("", "n1", "db1", "")}},
		{"topology:stale-pair:follows-stale-ingress-link", []*Op{opCfg(sd, "api", "dest"), opCfg(ig, "ingress-gw", "8080:*")}},
		{"gateway-services:stale-link:ingress-gateway:not-cleaned-on-re-registration", []*Op{opCfg(ig, "ingress-gw", "8080:*"), opReg("", "n1", idN1, typical("web1", "web", true)),
			opReg("", "n1", idN1, typical("web1", "web", false))}},
		// ---- regression scenarios (nothing expected): the cascades of the property statement
		{"", []*Op{opReg("", "n1", idN1, typical("web1", "web", false), storex.ChkArg{Node: "n1", ID: "c1", Status: "passing", SvcID: "web1"}, storex.ChkArg{Node: "n1", ID: "serfHealth", Status: "passing"}),
			{Kind: "coord", Coords: []CoordArg{{Node: "n1", Val: 1}, {Node: "n1", Segment: "alpha", Val: 2}}},
			{Kind: "sc", Sess: &storex.SessArg{ID: sessionIDs[0], Node: "n1", Checks: []string{"c1"}}},
			opDereg("", "n1", "", "")}},
		{"", []*Op{opReg("", "n1", idN1, typical("web1", "web", false), storex.ChkArg{Node: "n1", ID: "c1", Status: "passing", SvcID: "web1"}),
			opReg("", "n2", idN1, nil)}}, // rename by node ID
		{"", []*Op{opReg("peer1", "n1", idN1, sidecar("web-sidecar-proxy", "web"), storex.ChkArg{Node: "n1", ID: "c1", Status: "critical", SvcID: "web-sidecar-proxy"}),
			opDereg("peer1", "n1", "web-sidecar-proxy", "")}},
	}
}


// silentCorpus: monitor-only scenarios (terminating-gateway virtual IPs are not in the Lean model; nothing is expected
// on the unchanged tree): a service a terminating gateway links keeps its address when its last ordinary instance
// goes / when a resolver of it is deleted, and the next allocation gets another address (the gateway guard of
// freeServiceVirtualIP).
func silentCorpus() []scenario {
	const tg, sr = structs.TerminatingGateway, structs.ServiceResolver
	return []scenario{
		{"", []*Op{opVips(), opTgwVips(), opReg("", "n1", idN1, typical("db1", "db", false)), opCfg(tg, "term-gw", "db"), opReg("", "n1", idN1, termGw("term-gw")),
			opDereg("", "n1", "db1", ""), opReg("", "n1", idN1, typical("api1", "api", true))}},
		{"", []*Op{opVips(), opTgwVips(), opCfg(tg, "term-gw", "db"), opReg("", "n1", idN1, termGw("term-gw")), opCfg(sr, "db", ""), opCfgDel(sr, "db"),
			opReg("", "n1", idN1, typical("api1", "api", true))}},
		{"", []*Op{opVips(), opTgwVips(), opReg("", "n1", idN1, sidecar("db-sidecar-proxy", "db")), opReg("", "n1", idN1, typical("db1", "db", false)), opCfg(tg, "term-gw", "db+web"),
			opReg("", "n2", idN2, termGw("term-gw")), opDereg("", "n1", "db1", ""), opReg("", "n2", idN2, sidecar("api-sidecar-proxy", "api")), opCfg(tg, "term-gw", "web")}},
	}
}

func runCorpus(run *hx.Run) {
	all := corpus()
	nLoud := len(all)
	all = append(all, silentCorpus()...)
	for i, sc := range all {
		var h *History
		if i < nLoud {
			h = NewHistory(run)
		} else {
			h = NewSilentHistory(run)
			run.Tag("corpus:monitor-only-scenario")
		}
		idx := uint64(10)
		for _, op := range sc.ops {
			op.Idx = idx
			op.ViaFSM = (i+int(idx))%2 == 0
			idx += 2
			h.Step(op)
		}
		if sc.sig != "" {
			if h.sigs[sc.sig] {
				run.Tag("corpus:" + sc.sig + ":reproduced")
			} else {
				run.Tag("corpus:" + sc.sig + ":not-reproduced")
			}
		} else {
			run.Tag("corpus:regression-scenario")
		}
		h.Finish()
	}
}
