//go:build verif

package main

import (
	"encoding/binary"
	"fmt"
	"net"
	"sort"
	"strings"

	"github.com/hashicorp/go-hclog"
	"github.com/hashicorp/raft"
	"github.com/hashicorp/serf/coordinate"

	"github.com/hashicorp/consul/agent/consul/fsm"
	"github.com/hashicorp/consul/agent/consul/state"
	"github.com/hashicorp/consul/agent/structs"
	"github.com/hashicorp/consul/api"
	"github.com/hashicorp/consul/internal/verifharness/hx"
	"github.com/hashicorp/consul/internal/verifharness/storex"
	"github.com/hashicorp/consul/types"
)

// ---------------------------------------------------------------- operations

type SvcArg struct {
	ID, Name string
	Port     int
	Kind     string // typical connect-proxy mesh-gateway terminating-gateway ingress-gateway api-gateway
	Native   bool
	Dest     string
	Ups      []string
	Weights  bool
	ModIdx   uint64
}

type CoordArg struct {
	Node, Segment string
	Val           int
}

// CfgArg names one config entry of the harness's small family: the entry is a function of (Kind, Name, Tok).
type CfgArg struct {
	Kind, Name, Tok string
}

type TxnArg struct {
	Base *storex.TxnOpArg // kv / node / check / session ops (and typical service ops)
	Verb string           // service op with a full NodeService
	Node string
	Svc  *SvcArg
}

// Op is one committed Raft entry.
type Op struct {
	Kind   string // reg dereg coord sysmeta cfgset cfgdel xtxn sc sd
	Idx    uint64
	Peer   string
	Node   storex.NodeArg
	Svc    *SvcArg
	Checks []storex.ChkArg
	Dereg  [3]string // node, service id, check id
	Coords []CoordArg
	Key    string
	Val    string
	Del    bool
	Cfg    *CfgArg
	Txn    []TxnArg
	Sess   *storex.SessArg
	SessID string
	ViaFSM bool
}

func plusList(ss []string) string {
	if len(ss) == 0 {
		return "-"
	}
	t := make([]string, len(ss))
	for i, s := range ss {
		t[i] = hx.EncS(s)
	}
	return strings.Join(t, "+")
}

func (s *SvcArg) fields() string {
	return fmt.Sprintf("%s;%s;%d;%s;%s;%s;%s;%s", hx.EncS(s.ID), hx.EncS(s.Name), s.Port, s.Kind, hx.EncBool(s.Native),
		hx.EncS(s.Dest), plusList(s.Ups), hx.EncBool(s.Weights))
}

func chkFields(c *storex.ChkArg) string {
	return fmt.Sprintf("%s;%s;%s;%s;%s;%s;%s", hx.EncS(c.Node), hx.EncS(c.ID), hx.EncS(c.Status), hx.EncS(c.SvcID),
		hx.EncS(c.Type), hx.EncS(c.SessName), hx.EncS(c.Output))
}

func baseTxnToken(t *storex.TxnOpArg) string {
	switch t.Fam {
	case 'k':
		a := t.KV
		return fmt.Sprintf("k;%s;%s;%s;%d;%s;%d;%d", t.Verb, hx.EncS(a.Key), hx.EncB(a.Val), a.Flags, hx.EncS(a.Session), a.LockIdx, a.ModIdx)
	case 'n':
		n := t.Node
		return fmt.Sprintf("n;%s;%s;%s;%s;%d", t.Verb, hx.EncS(n.Name), hx.EncS(n.ID), hx.EncS(n.Addr), n.ModIdx)
	case 's':
		s := t.Svc
		return fmt.Sprintf("s;%s;%s;%s;%s;%d;%d", t.Verb, hx.EncS(s.Node), hx.EncS(s.ID), hx.EncS(s.Name), s.Port, s.ModIdx)
	case 'c':
		return fmt.Sprintf("c;%s;%s;%d", t.Verb, chkFields(t.Chk), t.Chk.ModIdx)
	default:
		return "x;" + hx.EncS(t.SessID)
	}
}

// Line renders the operation in the line protocol of lean/CV/Engine/C07.lean.
func (o *Op) Line() string {
	switch o.Kind {
	case "reg":
		svc := "-"
		if o.Svc != nil {
			svc = o.Svc.fields()
		}
		cs := make([]string, len(o.Checks))
		for i := range o.Checks {
			cs[i] = chkFields(&o.Checks[i])
		}
		return fmt.Sprintf("reg %d %s %s %s %s %s %s", o.Idx, hx.EncS(o.Peer), hx.EncS(o.Node.Name), hx.EncS(o.Node.ID),
			hx.EncS(o.Node.Addr), svc, hx.EncList(cs))
	case "dereg":
		return fmt.Sprintf("dereg %d %s %s %s %s", o.Idx, hx.EncS(o.Peer), hx.EncS(o.Dereg[0]), hx.EncS(o.Dereg[1]), hx.EncS(o.Dereg[2]))
	case "coord":
		cs := make([]string, len(o.Coords))
		for i, c := range o.Coords {
			cs[i] = fmt.Sprintf("%s;%s;%d", hx.EncS(c.Node), hx.EncS(c.Segment), c.Val)
		}
		return fmt.Sprintf("coord %d %s", o.Idx, hx.EncList(cs))
	case "sysmeta":
		v := hx.EncS(o.Val)
		if o.Del {
			v = "!"
		}
		return fmt.Sprintf("sysmeta %d %s %s", o.Idx, hx.EncS(o.Key), v)
	case "cfgset":
		return fmt.Sprintf("cfgset %d %s %s %s %s", o.Idx, hx.EncS(o.Cfg.Kind), hx.EncS(o.Cfg.Name), hx.EncBool(o.Cfg.Tok == "dest"), hx.EncS(o.Cfg.Tok))
	case "cfgdel":
		return fmt.Sprintf("cfgdel %d %s %s", o.Idx, hx.EncS(o.Cfg.Kind), hx.EncS(o.Cfg.Name))
	case "xtxn":
		ts := make([]string, len(o.Txn))
		for i := range o.Txn {
			t := &o.Txn[i]
			if t.Base != nil {
				ts[i] = baseTxnToken(t.Base)
			} else {
				ts[i] = fmt.Sprintf("S;%s;%s;%s;%d", t.Verb, hx.EncS(t.Node), t.Svc.fields(), t.Svc.ModIdx)
			}
		}
		return fmt.Sprintf("xtxn %d %s", o.Idx, hx.EncList(ts))
	case "sc":
		s := o.Sess
		return fmt.Sprintf("sc %d %s %s %s %s %d %s", o.Idx, hx.EncS(s.ID), hx.EncS(s.Node), hx.EncS(s.Name), hx.EncS(s.Behavior), s.LockDelay, plusList(s.Checks))
	case "sd":
		return fmt.Sprintf("sd %d %s", o.Idx, hx.EncS(o.SessID))
	}
	panic("unknown op kind " + o.Kind)
}

// Short is a human-readable rendering for violation descriptions.
func (o *Op) Short() string {
	switch o.Kind {
	case "reg":
		s := fmt.Sprintf("register@%d peer=%q node=%s id=%s", o.Idx, o.Peer, o.Node.Name, o.Node.ID)
		if o.Svc != nil {
			s += fmt.Sprintf(" svc=%s/%s kind=%s native=%v dest=%q ups=%v", o.Svc.ID, o.Svc.Name, o.Svc.Kind, o.Svc.Native, o.Svc.Dest, o.Svc.Ups)
		}
		for _, c := range o.Checks {
			s += fmt.Sprintf(" chk=%s/%s(svc=%q)", c.ID, c.Status, c.SvcID)
		}
		return s
	case "dereg":
		return fmt.Sprintf("deregister@%d peer=%q node=%s svc=%q chk=%q", o.Idx, o.Peer, o.Dereg[0], o.Dereg[1], o.Dereg[2])
	case "cfgset":
		return fmt.Sprintf("config-upsert@%d %s/%s [%s]", o.Idx, o.Cfg.Kind, o.Cfg.Name, o.Cfg.Tok)
	case "cfgdel":
		return fmt.Sprintf("config-delete@%d %s/%s", o.Idx, o.Cfg.Kind, o.Cfg.Name)
	case "sysmeta":
		return fmt.Sprintf("sysmeta@%d %s=%q del=%v", o.Idx, o.Key, o.Val, o.Del)
	}
	return o.Line()
}

// ---------------------------------------------------------------- the real implementation

type World struct {
	F *fsm.FSM
}

func NewWorld() *World {
	f := fsm.NewFromDeps(fsm.Deps{
		Logger:         hclog.NewNullLogger(),
		NewStateStore:  func() *state.Store { return state.NewStateStore(nil) },
		StorageBackend: fsm.NullStorageBackend,
	})
	return &World{F: f}
}

func (w *World) Store() *state.Store { return w.F.State() }

func kindOf(k string) structs.ServiceKind {
	if k == "typical" {
		return structs.ServiceKindTypical
	}
	return structs.ServiceKind(k)
}

func nodeService(s *SvcArg, peer string) *structs.NodeService {
	ns := &structs.NodeService{ID: s.ID, Service: s.Name, Port: s.Port, Kind: kindOf(s.Kind), PeerName: peer,
		RaftIndex: structs.RaftIndex{ModifyIndex: s.ModIdx}}
	ns.Connect.Native = s.Native
	ns.Proxy.DestinationServiceName = s.Dest
	for i, u := range s.Ups {
		ns.Proxy.Upstreams = append(ns.Proxy.Upstreams, structs.Upstream{DestinationName: u, LocalBindPort: 9000 + i})
	}
	if s.Weights {
		ns.Weights = &structs.Weights{Passing: 1, Warning: 1}
	}
	return ns
}

func healthCheck(c *storex.ChkArg, peer string) *structs.HealthCheck {
	h := &structs.HealthCheck{Node: c.Node, CheckID: types.CheckID(c.ID), Status: c.Status, ServiceID: c.SvcID,
		Type: c.Type, Output: c.Output, PeerName: peer, RaftIndex: structs.RaftIndex{ModifyIndex: c.ModIdx}}
	h.Definition.SessionName = c.SessName
	return h
}

// configEntry builds the entry named by (kind, name, tok).
func configEntry(c *CfgArg) structs.ConfigEntry {
	switch c.Kind {
	case structs.ServiceDefaults:
		e := &structs.ServiceConfigEntry{Kind: structs.ServiceDefaults, Name: c.Name}
		switch c.Tok {
		case "dest":
			e.Destination = &structs.DestinationConfig{Addresses: []string{"example.com"}, Port: 443}
			e.Protocol = "tcp"
		default:
			e.Protocol = c.Tok
		}
		return e
	case structs.ServiceResolver:
		e := &structs.ServiceResolverConfigEntry{Kind: structs.ServiceResolver, Name: c.Name}
		if c.Tok == "timeout" {
			e.ConnectTimeout = 7e9
		}
		return e
	case structs.IngressGateway:
		// tok = port:svc+svc|port:svc  (protocol tcp for one named service per listener, http for wildcard / several)
		e := &structs.IngressGatewayConfigEntry{Kind: structs.IngressGateway, Name: c.Name}
		if c.Tok == "" {
			return e
		}
		for _, l := range strings.Split(c.Tok, "|") {
			var port int
			var svcs string
			parts := strings.SplitN(l, ":", 2)
			fmt.Sscanf(parts[0], "%d", &port)
			svcs = parts[1]
			li := structs.IngressListener{Port: port, Protocol: "tcp"}
			names := strings.Split(svcs, "+")
			if len(names) > 1 || names[0] == "*" {
				li.Protocol = "http"
			}
			for _, n := range names {
				li.Services = append(li.Services, structs.IngressService{Name: n})
			}
			e.Listeners = append(e.Listeners, li)
		}
		return e
	case structs.TerminatingGateway:
		e := &structs.TerminatingGatewayConfigEntry{Kind: structs.TerminatingGateway, Name: c.Name}
		if c.Tok != "" {
			for _, n := range strings.Split(c.Tok, "+") {
				e.Services = append(e.Services, structs.LinkedService{Name: n})
			}
		}
		return e
	}
	panic("unknown config kind " + c.Kind)
}

func (w *World) fsmApply(idx uint64, t structs.MessageType, req any) any {
	buf, err := structs.Encode(t, req)
	if err != nil {
		panic(err)
	}
	return w.F.Apply(&raft.Log{Index: idx, Term: 1, Type: raft.LogCommand, Data: buf})
}

func mapErr(err error) string {
	m := err.Error()
	switch {
	case strings.Contains(m, "cannot allocate any more unique service virtual IPs"):
		return "vip-exhausted"
	}
	return storex.MapErr(err)
}

func canonAny(v any) string {
	switch x := v.(type) {
	case nil:
		return "ok"
	case error:
		return "err:" + mapErr(x)
	case bool:
		if x {
			return "true"
		}
		return "false"
	case string:
		return "ok"
	case structs.TxnResponse:
		return canonTxn(x.Results, x.Errors)
	}
	return fmt.Sprintf("unexpected(%T)", v)
}

// okTrue: the FSM answers `true` to system-metadata and config-entry writes that the Store methods answer with a nil error
func okTrue(s string) string {
	if s == "true" {
		return "ok"
	}
	return s
}

func canonErr(err error) string {
	if err != nil {
		return "err:" + mapErr(err)
	}
	return "ok"
}

func canonTxn(res structs.TxnResults, errs structs.TxnErrors) string {
	if len(errs) > 0 {
		t := make([]string, len(errs))
		for i, e := range errs {
			t[i] = fmt.Sprintf("%d:%s", e.OpIndex, mapErr(fmt.Errorf("%s", e.What)))
		}
		return "errs:" + hx.EncList(t)
	}
	t := make([]string, 0, len(res))
	for _, r := range res {
		switch {
		case r.KV != nil:
			e := r.KV
			s := fmt.Sprintf("k:%s;%d;%s;%d;%d;%d", hx.EncS(e.Key), e.Flags, hx.EncS(e.Session), e.LockIndex, e.CreateIndex, e.ModifyIndex)
			if len(e.Value) > 0 {
				s += ";" + hx.EncB(e.Value)
			}
			t = append(t, s)
		case r.Node != nil:
			n := r.Node
			t = append(t, fmt.Sprintf("n:%s;%s;%s;%d;%d", hx.EncS(n.Node), hx.EncS(string(n.ID)), hx.EncS(n.Address), n.CreateIndex, n.ModifyIndex))
		case r.Service != nil:
			s := r.Service
			t = append(t, fmt.Sprintf("s:%s;%s;%d;%d;%d", hx.EncS(s.ID), hx.EncS(s.Service), s.Port, s.CreateIndex, s.ModifyIndex))
		case r.Check != nil:
			c := r.Check
			t = append(t, fmt.Sprintf("c:%s;%s;%s;%s;%d;%d", hx.EncS(string(c.CheckID)), hx.EncS(c.Status), hx.EncS(c.ServiceID), hx.EncS(c.ServiceName), c.CreateIndex, c.ModifyIndex))
		default:
			t = append(t, "?")
		}
	}
	return "ok:" + hx.EncList(t)
}

func baseTxnOp(t *storex.TxnOpArg) *structs.TxnOp {
	switch t.Fam {
	case 'k':
		a := t.KV
		return &structs.TxnOp{KV: &structs.TxnKVOp{Verb: api.KVOp(t.Verb), DirEnt: structs.DirEntry{Key: a.Key, Value: a.Val, Flags: a.Flags,
			Session: a.Session, LockIndex: a.LockIdx, RaftIndex: structs.RaftIndex{ModifyIndex: a.ModIdx}}}}
	case 'n':
		n := t.Node
		return &structs.TxnOp{Node: &structs.TxnNodeOp{Verb: api.NodeOp(t.Verb), Node: structs.Node{Node: n.Name, ID: types.NodeID(n.ID),
			Address: n.Addr, RaftIndex: structs.RaftIndex{ModifyIndex: n.ModIdx}}}}
	case 's':
		s := t.Svc
		return &structs.TxnOp{Service: &structs.TxnServiceOp{Verb: api.ServiceOp(t.Verb), Node: s.Node,
			Service: structs.NodeService{ID: s.ID, Service: s.Name, Port: s.Port, RaftIndex: structs.RaftIndex{ModifyIndex: s.ModIdx}}}}
	case 'c':
		return &structs.TxnOp{Check: &structs.TxnCheckOp{Verb: api.CheckOp(t.Verb), Check: *healthCheck(t.Chk, "")}}
	default:
		return &structs.TxnOp{Session: &structs.TxnSessionOp{Verb: api.SessionDelete, Session: structs.Session{ID: t.SessID}}}
	}
}

// Exec runs one operation against the real implementation and returns the canonical result.
func (w *World) Exec(o *Op) (out string) {
	defer func() {
		if r := recover(); r != nil {
			out = fmt.Sprintf("panic(%s)", hx.EncS(fmt.Sprint(r)))
		}
	}()
	st := w.Store()
	switch o.Kind {
	case "reg":
		req := &structs.RegisterRequest{Node: o.Node.Name, ID: types.NodeID(o.Node.ID), Address: o.Node.Addr, PeerName: o.Peer}
		if o.Svc != nil {
			req.Service = nodeService(o.Svc, o.Peer)
		}
		for i := range o.Checks {
			req.Checks = append(req.Checks, healthCheck(&o.Checks[i], o.Peer))
		}
		if o.ViaFSM {
			return canonAny(w.fsmApply(o.Idx, structs.RegisterRequestType, req))
		}
		return canonErr(st.EnsureRegistration(o.Idx, req))
	case "dereg":
		if o.ViaFSM {
			return canonAny(w.fsmApply(o.Idx, structs.DeregisterRequestType, &structs.DeregisterRequest{Node: o.Dereg[0], ServiceID: o.Dereg[1],
				CheckID: types.CheckID(o.Dereg[2]), PeerName: o.Peer}))
		}
		switch {
		case o.Dereg[1] != "":
			return canonErr(st.DeleteService(o.Idx, o.Dereg[0], o.Dereg[1], nil, o.Peer))
		case o.Dereg[2] != "":
			return canonErr(st.DeleteCheck(o.Idx, o.Dereg[0], types.CheckID(o.Dereg[2]), nil, o.Peer))
		default:
			return canonErr(st.DeleteNode(o.Idx, o.Dereg[0], nil, o.Peer))
		}
	case "coord":
		var cs structs.Coordinates
		for _, c := range o.Coords {
			co := coordinate.NewCoordinate(coordinate.DefaultConfig())
			co.Vec[0] = float64(c.Val)
			cs = append(cs, &structs.Coordinate{Node: c.Node, Segment: c.Segment, Coord: co})
		}
		if o.ViaFSM {
			return canonAny(w.fsmApply(o.Idx, structs.CoordinateBatchUpdateType, cs))
		}
		return canonErr(st.CoordinateBatchUpdate(o.Idx, cs))
	case "sysmeta":
		if o.ViaFSM {
			op := structs.SystemMetadataUpsert
			if o.Del {
				op = structs.SystemMetadataDelete
			}
			return okTrue(canonAny(w.fsmApply(o.Idx, structs.SystemMetadataRequestType, &structs.SystemMetadataRequest{Op: op,
				Entry: &structs.SystemMetadataEntry{Key: o.Key, Value: o.Val}})))
		}
		if o.Del {
			return canonErr(st.SystemMetadataDelete(o.Idx, &structs.SystemMetadataEntry{Key: o.Key}))
		}
		return canonErr(st.SystemMetadataSet(o.Idx, &structs.SystemMetadataEntry{Key: o.Key, Value: o.Val}))
	case "cfgset":
		e := configEntry(o.Cfg)
		if err := e.Normalize(); err != nil {
			return "err:cfg-normalize(" + hx.EncS(err.Error()) + ")"
		}
		if err := e.Validate(); err != nil {
			return "err:cfg-validate(" + hx.EncS(err.Error()) + ")"
		}
		if o.ViaFSM {
			return okTrue(canonAny(w.fsmApply(o.Idx, structs.ConfigEntryRequestType, &structs.ConfigEntryRequest{Op: structs.ConfigEntryUpsert, Entry: e})))
		}
		return canonErr(st.EnsureConfigEntry(o.Idx, e))
	case "cfgdel":
		e := configEntry(&CfgArg{Kind: o.Cfg.Kind, Name: o.Cfg.Name})
		if o.ViaFSM {
			return okTrue(canonAny(w.fsmApply(o.Idx, structs.ConfigEntryRequestType, &structs.ConfigEntryRequest{Op: structs.ConfigEntryDelete, Entry: e})))
		}
		return canonErr(st.DeleteConfigEntry(o.Idx, o.Cfg.Kind, o.Cfg.Name, nil))
	case "xtxn":
		var ops structs.TxnOps
		for i := range o.Txn {
			t := &o.Txn[i]
			if t.Base != nil {
				ops = append(ops, baseTxnOp(t.Base))
			} else {
				ops = append(ops, &structs.TxnOp{Service: &structs.TxnServiceOp{Verb: api.ServiceOp(t.Verb), Node: t.Node, Service: *nodeService(t.Svc, "")}})
			}
		}
		if o.ViaFSM {
			return canonAny(w.fsmApply(o.Idx, structs.TxnRequestType, &structs.TxnRequest{Ops: ops}))
		}
		res, errs := st.TxnRW(o.Idx, ops)
		return canonTxn(res, errs)
	case "sc":
		s := o.Sess
		x := structs.Session{ID: s.ID, Node: s.Node, Name: s.Name, Behavior: structs.SessionBehavior(s.Behavior)}
		for _, c := range s.Checks {
			x.NodeChecks = append(x.NodeChecks, c)
		}
		if o.ViaFSM {
			return canonAny(w.fsmApply(o.Idx, structs.SessionRequestType, &structs.SessionRequest{Op: structs.SessionCreate, Session: x}))
		}
		return canonErr(st.SessionCreate(o.Idx, &x))
	case "sd":
		if o.ViaFSM {
			return canonAny(w.fsmApply(o.Idx, structs.SessionRequestType, &structs.SessionRequest{Op: structs.SessionDestroy, Session: structs.Session{ID: o.SessID}}))
		}
		return canonErr(st.SessionDestroy(o.Idx, o.SessID, nil))
	}
	panic("unknown op kind " + o.Kind)
}

// ---------------------------------------------------------------- observation

// Snap is everything the harness observes of the implementation after a command.
type Snap struct {
	T state.VerifC07Tables
}

func (w *World) Observe() *Snap { return &Snap{T: w.Store().VerifC07Tables()} }

func mapList[T any](xs []T, f func(T) string) string {
	t := make([]string, len(xs))
	for i, x := range xs {
		t[i] = f(x)
	}
	return hx.EncList(t)
}

// byPeer orders rows like the model's dump: local rows first, then by lower-cased peer name; stable.
func byPeer[T any](xs []T, peer func(T) string) []T {
	out := append([]T(nil), xs...)
	sort.SliceStable(out, func(i, j int) bool {
		a, b := strings.ToLower(peer(out[i])), strings.ToLower(peer(out[j]))
		if (a == "") != (b == "") {
			return a == ""
		}
		return a < b
	})
	return out
}

var vipBase = binary.BigEndian.Uint32(net.ParseIP("240.0.0.0").To4())

// vipOffset turns an advertised virtual IP into its offset inside the range ("-" = none, "?…" = unparsable).
func vipOffset(addr string) string {
	ip := net.ParseIP(addr).To4()
	if ip == nil {
		return "?" + hx.EncS(addr)
	}
	return fmt.Sprint(binary.BigEndian.Uint32(ip) - vipBase)
}

func rawIPOffset(ip net.IP) string {
	v4 := ip.To4()
	if v4 == nil {
		return "?" + hx.EncS(ip.String())
	}
	return fmt.Sprint(binary.BigEndian.Uint32(v4))
}

func kindName(k structs.ServiceKind) string {
	if k == structs.ServiceKindTypical {
		return "typical"
	}
	return string(k)
}

func upstreamNames(v *structs.ServiceNode) []string {
	var out []string
	for _, u := range v.ServiceProxy.Upstreams {
		out = append(out, u.DestinationName)
	}
	return out
}

func svcVip(v *structs.ServiceNode) string {
	a, ok := v.ServiceTaggedAddresses[structs.TaggedAddressVirtualIP]
	if !ok {
		return "-"
	}
	if a.Port != v.ServicePort {
		return fmt.Sprintf("?port%d", a.Port)
	}
	return vipOffset(a.Address)
}

func cfgDest(e structs.ConfigEntry) bool {
	if sd, ok := e.(*structs.ServiceConfigEntry); ok {
		return sd.Destination != nil
	}
	return false
}

// Dump renders the snapshot exactly like CV.Engine.C07.dump.
// XDump: the two tables of stage 2 (gateway-services, mesh-topology), compared with CV.Store.GwX through the
// separate `xdump` line (emitted only when the stream is enabled, see gwStream in main.go).
func (s *Snap) XDump() string {
	t := &s.T
	parts := []string{
		"gw=" + mapList(t.Gateway, func(g *structs.GatewayService) string {
			return fmt.Sprintf("%s;%s;%s;%d;%s;%s;%s;%d;%d", hx.EncS(g.Gateway.Name), hx.EncS(g.Service.Name), kindName(g.GatewayKind), g.Port,
				hx.EncS(g.Protocol), hx.EncBool(g.FromWildcard), hx.EncS(string(g.ServiceKind)), g.CreateIndex, g.ModifyIndex)
		}),
		"topo=" + mapList(t.Topology, func(r state.VerifC07Topology) string {
			return fmt.Sprintf("%s;%s;%s;%d;%d", hx.EncS(r.Upstream.Name), hx.EncS(r.Downstream.Name), hx.EncS(strings.Join(r.Refs, ",")), r.CreateIndex, r.ModifyIndex)
		}),
	}
	return strings.Join(parts, " ")
}

func (s *Snap) Dump() string {
	t := &s.T
	var idx []*state.IndexEntry
	for _, r := range t.Index {
		k := strings.ToLower(r.Key)
		if strings.HasPrefix(k, "peer.~:") && !strings.HasPrefix(k, "peer.~:service_kind.") {
			idx = append(idx, r)
		}
	}
	free, counter := "-", "-"
	for _, f := range t.FreeVIPs {
		if f.IsCounter {
			counter = rawIPOffset(f.IP)
		} else {
			free = rawIPOffset(f.IP)
		}
	}
	parts := []string{
		"nodes=" + mapList(byPeer(t.Nodes, func(n *structs.Node) string { return n.PeerName }), func(n *structs.Node) string {
			return fmt.Sprintf("%s;%s;%s;%s;%d;%d", hx.EncS(n.PeerName), hx.EncS(n.Node), hx.EncS(string(n.ID)), hx.EncS(n.Address), n.CreateIndex, n.ModifyIndex)
		}),
		"svcs=" + mapList(byPeer(t.Services, func(v *structs.ServiceNode) string { return v.PeerName }), func(v *structs.ServiceNode) string {
			return fmt.Sprintf("%s;%s;%s;%s;%d;%s;%s;%s;%s;%s;%d;%d", hx.EncS(v.PeerName), hx.EncS(v.Node), hx.EncS(v.ServiceID), hx.EncS(v.ServiceName),
				v.ServicePort, kindName(v.ServiceKind), hx.EncBool(v.ServiceConnect.Native), hx.EncS(v.ServiceProxy.DestinationServiceName),
				plusList(upstreamNames(v)), svcVip(v), v.CreateIndex, v.ModifyIndex)
		}),
		fmt.Sprintf("nsvc=%d", len(t.Services)),
		"chks=" + mapList(byPeer(t.Checks, func(c *structs.HealthCheck) string { return c.PeerName }), func(c *structs.HealthCheck) string {
			return fmt.Sprintf("%s;%s;%s;%s;%s;%s;%d;%d", hx.EncS(c.PeerName), hx.EncS(c.Node), hx.EncS(string(c.CheckID)), hx.EncS(c.Status),
				hx.EncS(c.ServiceID), hx.EncS(c.ServiceName), c.CreateIndex, c.ModifyIndex)
		}),
		"coords=" + mapList(t.Coordinates, func(c *structs.Coordinate) string {
			return fmt.Sprintf("%s;%s;%d", hx.EncS(c.Node), hx.EncS(c.Segment), int(c.Coord.Vec[0]))
		}),
		"sessions=" + mapList(t.Sessions, func(x *structs.Session) string { return fmt.Sprintf("%s;%s", hx.EncS(x.ID), hx.EncS(x.Node)) }),
		"ksn=" + mapList(t.KindNames, func(r *state.KindServiceName) string {
			return fmt.Sprintf("%s;%s;%d;%d", kindName(r.Kind), hx.EncS(r.Service.Name), r.CreateIndex, r.ModifyIndex)
		}),
		"vips=" + mapList(t.VIPs, func(r state.ServiceVirtualIP) string {
			return fmt.Sprintf("%s;%s;%s;%d;%d", hx.EncS(r.Service.Peer), hx.EncS(r.Service.ServiceName.Name), rawIPOffset(r.IP), r.CreateIndex, r.ModifyIndex)
		}),
		"free=" + free,
		"counter=" + counter,
		"usage=" + mapList(t.Usage, func(r *state.UsageEntry) string { return fmt.Sprintf("%s;%d;%d", hx.EncS(r.ID), r.Count, r.Index) }),
		"cfg=" + mapList(t.Config, func(e structs.ConfigEntry) string {
			return fmt.Sprintf("%s;%s;%s;%d;%d", hx.EncS(e.GetKind()), hx.EncS(e.GetName()), hx.EncBool(cfgDest(e)), e.GetRaftIndex().CreateIndex, e.GetRaftIndex().ModifyIndex)
		}),
		"sysmeta=" + mapList(t.SysMeta, func(e *structs.SystemMetadataEntry) string { return fmt.Sprintf("%s;%s", hx.EncS(e.Key), hx.EncS(e.Value)) }),
		"index=" + mapList(idx, func(r *state.IndexEntry) string { return fmt.Sprintf("%s;%d", hx.EncS(strings.ToLower(r.Key)), r.Value) }),
	}
	return strings.Join(parts, " ")
}
