//go:build verif

// C07 harness: catalog integrity — no orphans, complete cascades, derived views agree.
// Drives the real fsm.FSM / state.Store with register / deregister of nodes, services (typical,
// connect-native, sidecar proxies, gateways) and checks, for the local catalog and for imported (peer)
// catalogs, node renames by ID, coordinate batches, the virtual-ips system-metadata flag, config entry
// writes and deletes (service-defaults incl. destinations, service-resolver, ingress-gateway,
// terminating-gateway), sessions and transactions; prints every result and a full dump of nodes,
// services (with kind / connect / proxy / virtual-IP attributes), checks, coordinates, sessions,
// kind-service-names, service-virtual-ips, free-virtual-ips, usage, config entries, system metadata and
// the local index rows after every command for the Lean model (CV.Store.applyX) to reproduce.
// Monitors (model independent, monitor.go): the catalog invariant recomputed from the base tables after
// every command, the deregistration cascades, usage counters / kind-service-names / virtual IPs /
// gateway-services / mesh-topology against a from-scratch recomputation, through the tables and through
// the Store's query API. A monitor-only family (terminating-gateway virtual IPs: both flags on — not in the Lean
// model) runs on the real store under the same monitors without protocol lines.
package main

import (
	"fmt"
	"net"
	"os"
	"strings"

	"github.com/hashicorp/consul/agent/netutil"
	"github.com/hashicorp/consul/agent/structs"
	"github.com/hashicorp/consul/internal/verifharness/hx"
	"github.com/hashicorp/consul/internal/verifharness/storex"
)

// History runs one generated history against a fresh FSM.
type History struct {
	Run    *hx.Run
	W      *World
	Ops    []*Op
	Lines  []string
	Last   *Snap
	nontrv bool
	mon    *Monitor
	sigs   map[string]bool // monitor signatures raised in this history
	// Silent: a MONITOR-ONLY history — it runs on the real store under the Go monitors, no protocol line is
	// emitted (the Lean model does not cover what it exercises: terminating-gateway virtual IPs)
	Silent bool
}

func NewHistory(run *hx.Run) *History {
	h := &History{Run: run, W: NewWorld(), mon: NewMonitor(), sigs: map[string]bool{}}
	run.Line("reset", "ok")
	h.Lines = append(h.Lines, "reset")
	h.Last = h.W.Observe()
	return h
}

// NewSilentHistory starts a monitor-only history.
func NewSilentHistory(run *hx.Run) *History {
	h := &History{Run: run, W: NewWorld(), mon: NewMonitor(), sigs: map[string]bool{}, Silent: true}
	h.Lines = append(h.Lines, "reset")
	h.Last = h.W.Observe()
	return h
}

func resClass(res string) string {
	switch {
	case strings.HasPrefix(res, "err:"):
		return res
	case strings.HasPrefix(res, "errs:"):
		return "txn-aborted"
	case strings.HasPrefix(res, "ok:"):
		return "txn-committed"
	}
	return res
}

func unclassified(res string) bool {
	return strings.HasPrefix(res, "panic(") || strings.Contains(res, "unmapped(") || strings.HasPrefix(res, "unexpected(") ||
		strings.HasPrefix(res, "err:cfg-")
}

// Step executes one operation, prints op + dump lines, runs the monitors.
func (h *History) Step(op *Op) string {
	line := op.Line()
	before := h.Last
	res := h.W.Exec(op)
	after := h.W.Observe()
	if !h.Silent {
		h.Run.Line(line, res)
		h.Run.Line("dump", after.Dump())
		if gwStream {
			h.Run.Line("xdump", after.XDump())
		}
	}
	h.Lines = append(h.Lines, line)
	h.Ops = append(h.Ops, op)
	if unclassified(res) {
		h.Run.Violate("harness:unclassified-answer:"+op.Kind, "the implementation answered "+res+" to "+op.Short(), append([]string(nil), h.Lines...))
	}
	for _, f := range h.mon.Check(h.W, before, after, op, res) {
		h.report(f)
	}
	h.branchTags(before, after, op, res)
	h.Last = after
	return res
}

// replayFindings runs a history silently (no protocol lines) and returns the monitor findings by signature.
func replayFindings(ops []*Op) map[string]finding {
	w, m := NewWorld(), NewMonitor()
	last := w.Observe()
	out := map[string]finding{}
	for _, op := range ops {
		res := w.Exec(op)
		after := w.Observe()
		for _, f := range m.Check(w, last, after, op, res) {
			if _, ok := out[f.sig]; !ok {
				out[f.sig] = f
			}
		}
		last = after
	}
	return out
}

// gwStream: the separate comparison stream of stage 2 — after every dump an `xdump` line carries gateway-services and
// mesh-topology for CV.Store.GwX to reproduce. ENABLED (model and implementation agreed on 8 thorough seeds before it
// was switched on); C07_GW_STREAM=0 switches it off.
var gwStream = os.Getenv("C07_GW_STREAM") != "0"

var shrunk = map[string]bool{}

// shrink minimises a failing history for one signature: delta debugging over the operations, then
// simplification of the surviving operations (checks, upstreams, transaction members).
func shrink(ops []*Op, sig string) []*Op {
	has := func(c []*Op) bool { _, ok := replayFindings(c)[sig]; return ok }
	if !has(ops) {
		return ops
	}
	n := 2
	for len(ops) >= 2 {
		chunk := (len(ops) + n - 1) / n
		reduced := false
		for i := 0; i < len(ops); i += chunk {
			j := min(i+chunk, len(ops))
			cand := append(append([]*Op(nil), ops[:i]...), ops[j:]...)
			if len(cand) > 0 && has(cand) {
				ops, reduced = cand, true
				n = max(n-1, 2)
				break
			}
		}
		if !reduced {
			if n >= len(ops) {
				break
			}
			n = min(n*2, len(ops))
		}
	}
	// payload simplification
	try := func(i int, mod func(o *Op)) {
		c := *ops[i]
		mod(&c)
		cand := append([]*Op(nil), ops...)
		cand[i] = &c
		if has(cand) {
			ops = cand
		}
	}
	for i := range ops {
		for k := len(ops[i].Checks) - 1; k >= 0; k-- {
			k := k
			try(i, func(o *Op) { o.Checks = append(append([]storex.ChkArg(nil), o.Checks[:k]...), o.Checks[k+1:]...) })
		}
		for k := len(ops[i].Txn) - 1; k >= 0 && len(ops[i].Txn) > 1; k-- {
			k := k
			try(i, func(o *Op) {
				if k < len(o.Txn) && len(o.Txn) > 1 {
					o.Txn = append(append([]TxnArg(nil), o.Txn[:k]...), o.Txn[k+1:]...)
				}
			})
		}
		if ops[i].Svc != nil {
			try(i, func(o *Op) { s := *o.Svc; s.Ups = nil; o.Svc = &s })
			try(i, func(o *Op) { s := *o.Svc; s.Weights = false; o.Svc = &s })
			try(i, func(o *Op) { o.Svc = nil })
		}
		try(i, func(o *Op) { o.ViaFSM = false })
	}
	return ops
}

// debugWitnesses (env C07_DEBUG_WITNESSES=file): shrink EVERY finding and append "sig<TAB>story" lines to the
// file — used when studying whether one signature covers several mechanisms. Off in normal runs.
var debugFile *os.File
var debugCount = map[string]int{}

func (h *History) report(f finding) {
	h.sigs[f.sig] = true
	if debugFile != nil && debugCount[f.sig] < 40 {
		debugCount[f.sig]++
		ops := shrink(append([]*Op(nil), h.Ops...), f.sig)
		var story []string
		for _, o := range ops {
			story = append(story, o.Short())
		}
		fmt.Fprintf(debugFile, "%s\t%s\n", f.sig, strings.Join(story, "; "))
	}
	ops := append([]*Op(nil), h.Ops...)
	if !shrunk[f.sig] {
		shrunk[f.sig] = true
		ops = shrink(ops, f.sig)
		if g, ok := replayFindings(ops)[f.sig]; ok {
			f = g
		}
		h.Run.Tag("shrunk-witness-ops:" + fmt.Sprint(min(len(ops), 9)))
	}
	lines := []string{"reset"}
	var story []string
	for _, o := range ops {
		lines = append(lines, o.Line())
		story = append(story, o.Short())
	}
	h.Run.Violate(f.sig, f.desc+" — witness: "+strings.Join(story, "; "), lines)
}

func (h *History) Finish() {
	h.Run.Case(strings.Join(h.Lines, "\n"), h.nontrv)
}

var profiles = []*Profile{
	{Name: "connect", VipPc: 85, PeerPc: 0, CasePc: 0, KindFlips: 15,
		W: map[string]int{"reg": 42, "dereg": 24, "coord": 3, "sysmeta": 2, "cfgset": 8, "cfgdel": 5, "xtxn": 10, "sc": 3, "sd": 1}},
	{Name: "gateways", VipPc: 70, PeerPc: 0, CasePc: 0, KindFlips: 10, Gateways: true,
		W: map[string]int{"reg": 38, "dereg": 20, "coord": 2, "sysmeta": 1, "cfgset": 20, "cfgdel": 8, "xtxn": 8, "sc": 2, "sd": 1}},
	{Name: "peers", VipPc: 70, PeerPc: 40, CasePc: 0, KindFlips: 10,
		W: map[string]int{"reg": 45, "dereg": 27, "coord": 4, "sysmeta": 2, "cfgset": 6, "cfgdel": 3, "xtxn": 8, "sc": 3, "sd": 2}},
	{Name: "case-variants", VipPc: 60, PeerPc: 10, CasePc: 25, KindFlips: 15,
		W: map[string]int{"reg": 45, "dereg": 25, "coord": 4, "sysmeta": 2, "cfgset": 7, "cfgdel": 4, "xtxn": 8, "sc": 3, "sd": 2}},
	{Name: "txn-heavy", VipPc: 80, PeerPc: 0, CasePc: 0, KindFlips: 20,
		W: map[string]int{"reg": 25, "dereg": 12, "coord": 3, "sysmeta": 2, "cfgset": 5, "cfgdel": 3, "xtxn": 42, "sc": 5, "sd": 3}},
	// stage 2 (gateway-services / mesh-topology in the model): gateways together with imported sidecars, case variants of
	// service names, kind flips and transactions
	{Name: "gateways-mixed", VipPc: 60, PeerPc: 20, CasePc: 12, KindFlips: 20, Gateways: true,
		W: map[string]int{"reg": 36, "dereg": 20, "coord": 1, "sysmeta": 1, "cfgset": 18, "cfgdel": 8, "xtxn": 14, "sc": 1, "sd": 1}},
}

func randomHistories(run *hx.Run, n, maxOps int) {
	for i := 0; i < n; i++ {
		r := run.RNG.Fork(uint64(i))
		p := profiles[i%len(profiles)]
		h := NewHistory(run)
		g := &Gen{R: r, P: p, Idx: uint64(r.Intn(20)), Last: h.Last}
		run.Tag("profile:" + p.Name)
		for _, op := range g.Preamble() {
			h.Step(op)
			g.Last = h.Last
		}
		for k := 3 + r.Intn(maxOps); k > 0; k-- {
			h.Step(g.Next())
			g.Last = h.Last
		}
		if i < 3 {
			var descs []string
			for _, o := range h.Ops {
				descs = append(descs, o.Short())
			}
			run.Sample(map[string]any{"profile": p.Name, "ops": descs})
		}
		h.Finish()
	}
}

// tgwProfile: the monitor-only family of terminating-gateway virtual IPs — both virtual-IP flags on from the
// start, a terminating-gateway entry linking named services (and the wildcard), instances of the gateway, of the
// linked services (ordinary, connect-native, sidecars) coming and going, resolver / defaults entries of the linked
// services written and deleted, later allocations.
var tgwProfile = &Profile{Name: "tgw-vips", VipPc: 100, PeerPc: 0, CasePc: 0, KindFlips: 5, Gateways: true, TgwVips: true,
	W: map[string]int{"reg": 42, "dereg": 26, "cfgset": 22, "cfgdel": 10}}

func monitorOnlyHistories(run *hx.Run, n, maxOps int) {
	for i := 0; i < n; i++ {
		r := run.RNG.Fork(uint64(1000003 + i))
		h := NewSilentHistory(run)
		g := &Gen{R: r, P: tgwProfile, Idx: uint64(r.Intn(20)), Last: h.Last}
		run.Tag("profile:" + tgwProfile.Name + ":monitor-only")
		for _, op := range g.Preamble() {
			h.Step(op)
			g.Last = h.Last
		}
		for k := 3 + r.Intn(maxOps); k > 0; k-- {
			h.Step(g.Next())
			g.Last = h.Last
		}
		h.Finish()
	}
}

// exhaustiveTgw runs EVERY word of `depth` letters over the alphabet of the terminating-gateway virtual-IP family
// (monitor-only): a linked service gaining / losing its ordinary instance, the gateway entry and instance, a resolver
// of the linked service written / deleted, another service asking for an address.
func exhaustiveTgw(run *hx.Run, depth int) {
	const tg, sr = structs.TerminatingGateway, structs.ServiceResolver
	alphabet := []func() *Op{
		func() *Op { return opReg("", "n1", idN1, typical("db1", "db", false)) },
		func() *Op { return opDereg("", "n1", "db1", "") },
		func() *Op { return opCfg(tg, "term-gw", "db") },
		func() *Op { return opReg("", "n1", idN1, &SvcArg{ID: "term-gw", Name: "term-gw", Port: 8443, Kind: "terminating-gateway"}) },
		func() *Op { return opCfg(sr, "db", "") },
		func() *Op { return opCfgDel(sr, "db") },
		func() *Op { return opReg("", "n1", idN1, typical("cache1", "api", true)) },
		func() *Op { return opCfg(tg, "term-gw", "web") },
	}
	word := make([]int, depth)
	count := 0
	for {
		h := NewSilentHistory(run)
		idx := uint64(10)
		for _, pre := range []*Op{opVips(), opTgwVips()} {
			pre.Idx = idx
			idx += 2
			h.Step(pre)
		}
		for k, l := range word {
			op := alphabet[l]()
			idx += 2
			op.Idx = idx
			op.ViaFSM = (count+k)%2 == 0
			h.Step(op)
		}
		h.Finish()
		count++
		i := depth - 1
		for i >= 0 {
			word[i]++
			if word[i] < len(alphabet) {
				break
			}
			word[i] = 0
			i--
		}
		if i < 0 {
			break
		}
	}
	run.Extra[fmt.Sprintf("exhaustive_tgw_vips_depth_%d", depth)] = map[string]any{"alphabet": len(alphabet), "histories": count, "exhaustive": true, "monitor_only": true}
	run.Tag(fmt.Sprintf("exhaustive-tgw-vips:depth-%d", depth))
}

// exhaustive runs EVERY word of `depth` letters over a small alphabet (2 nodes, one typical / connect-native
// instance, two sidecars of one destination, a service check, a config entry, a rename by node ID), each on a
// fresh store with virtual IPs enabled: validation of the tie on a complete small scope, not the claim itself.
func exhaustive(run *hx.Run, depth int) {
	chk := storex.ChkArg{Node: "n1", ID: "c1", Status: "passing", SvcID: "web1"}
	alphabet := []func() *Op{
		func() *Op { return opReg("", "n1", idN1, typical("web1", "web", false), chk) },
		func() *Op { return opReg("", "n1", idN1, sidecar("web-sidecar-proxy", "web", "db")) },
		func() *Op { return opReg("", "n2", idN2, sidecar("web-sidecar-proxy", "web", "db")) },
		func() *Op { return opReg("", "n1", idN1, typical("web1", "web", true)) },
		func() *Op { return opDereg("", "n1", "web1", "") },
		func() *Op { return opDereg("", "n1", "web-sidecar-proxy", "") },
		func() *Op { return opDereg("", "n1", "", "") },
		func() *Op { return opReg("", "n3", idN1, nil) }, // rename n1 -> n3 by node ID
		func() *Op { return opCfg(structs.ServiceDefaults, "web", "tcp") },
		func() *Op { return opCfgDel(structs.ServiceDefaults, "web") },
	}
	word := make([]int, depth)
	count := 0
	for {
		h := NewHistory(run)
		idx := uint64(10)
		pre := opVips()
		pre.Idx = idx
		h.Step(pre)
		for k, l := range word {
			op := alphabet[l]()
			idx += 2
			op.Idx = idx
			op.ViaFSM = (count+k)%2 == 0
			h.Step(op)
		}
		h.Finish()
		count++
		i := depth - 1
		for i >= 0 {
			word[i]++
			if word[i] < len(alphabet) {
				break
			}
			word[i] = 0
			i--
		}
		if i < 0 {
			break
		}
	}
	run.Extra[fmt.Sprintf("exhaustive_depth_%d", depth)] = map[string]any{"alphabet": len(alphabet), "histories": count, "exhaustive": true}
	run.Tag(fmt.Sprintf("exhaustive:depth-%d", depth))
}

func main() {
	run := hx.Start()
	if p := os.Getenv("C07_DEBUG_WITNESSES"); p != "" {
		debugFile, _ = os.Create(p)
		defer debugFile.Close()
	}
	// state.addIPOffset asks netutil for the agent's bind address (IPv4: virtual IPs are 240.0.0.0 + offset)
	netutil.SetAgentBindAddr(&net.IPAddr{IP: net.ParseIP("10.0.0.1")})
	run.Rule = "every result line and every full dump (nodes, services with kind/connect/proxy/virtual-IP attributes, checks, coordinates, sessions, kind-service-names, service-virtual-ips, free-virtual-ips, usage, config entries, system metadata, local index rows; gateway-services and mesh-topology in the xdump line) of the real state store after every command equals the Lean model's; the catalog invariant, the deregistration cascades and every derived view (usage, kind-service-names, virtual IPs, gateway-services, mesh-topology) recomputed from the registrations and config entries hold on the implementation; monitor-only histories (terminating-gateway virtual IPs: both flags on) run under the same monitors without model comparison"
	runCorpus(run)
	randomHistories(run, run.Scale(600, 8000), 30)
	exhaustive(run, run.Scale(3, 4))
	// monitor-only family: terminating-gateway virtual IPs (not in the Lean model)
	monitorOnlyHistories(run, run.Scale(200, 3000), 30)
	exhaustiveTgw(run, run.Scale(4, 5))
	run.Finish()
}
