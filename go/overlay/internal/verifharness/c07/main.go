//go:build verif

// C07 harness: catalog integrity — no orphans, complete cascades, derived views agree.
// Drives the real fsm.FSM / state.Store with register / deregister of nodes, services (typical,
// connect-native, sidecar proxies, gateways) and checks, for the local catalog and for imported (peer)
// catalogs, node renames by ID, coordinate batches, the virtual-ips system-metadata flag, config entry
// writes and deletes (service-defaults incl. destinations, service-resolver, ingress-gateway,
// terminating-gateway), sessions and transactions; prints every result and a full dump of nodes,
// services (with kind / connect / proxy / virtual-IP attributes), checks, coordinates, sessions,
// kind-service-names, service-virtual-ips, free-virtual-ips, usage, config entries, system metadata and
// the local index rows after every command for the Lean model (CV.Store.applyX) to reproduce.
// Monitors (model independent, monitor.go): the catalog invariant recomputed from the base tables after
// every command, the deregistration cascades, usage counters / kind-service-names / virtual IPs /
// gateway-services / mesh-topology against a from-scratch recomputation, through the tables and through
// the Store's query API.
package main

import (
	"net"
	"strings"

	"github.com/hashicorp/consul/agent/netutil"
	"github.com/hashicorp/consul/internal/verifharness/hx"
)

// History runs one generated history against a fresh FSM.
type History struct {
	Run    *hx.Run
	W      *World
	Lines  []string
	Descs  []string
	Last   *Snap
	nontrv bool
	mon    *Monitor
}

func NewHistory(run *hx.Run) *History {
	h := &History{Run: run, W: NewWorld()}
	h.mon = NewMonitor(run)
	run.Line("reset", "ok")
	h.Lines = append(h.Lines, "reset")
	h.Last = h.W.Observe()
	return h
}

func resClass(res string) string {
	switch {
	case strings.HasPrefix(res, "err:"):
		return res
	case strings.HasPrefix(res, "errs:"):
		return "txn-aborted"
	case strings.HasPrefix(res, "ok:"):
		return "txn-committed"
	}
	return res
}

// Step executes one operation, prints op + dump lines, runs the monitors.
func (h *History) Step(op *Op) string {
	line := op.Line()
	before := h.Last
	res := h.W.Exec(op)
	after := h.W.Observe()
	h.Run.Line(line, res)
	h.Run.Line("dump", after.Dump())
	h.Lines = append(h.Lines, line)
	h.Descs = append(h.Descs, op.Short())
	replay := append([]string(nil), h.Lines...)
	if strings.HasPrefix(res, "panic(") || strings.Contains(res, "unmapped(") || strings.HasPrefix(res, "unexpected(") ||
		strings.HasPrefix(res, "err:cfg-") {
		h.Run.Violate("harness:unclassified-answer:"+op.Kind, "the implementation answered "+res+" to "+op.Short(), replay)
	}
	h.mon.Check(h.W, before, after, op, res, replay, h.Descs)
	h.branchTags(before, after, op, res)
	h.Last = after
	return res
}

func (h *History) Finish() {
	h.Run.Case(strings.Join(h.Lines, "\n"), h.nontrv)
}

var profiles = []*Profile{
	{Name: "connect", VipPc: 85, PeerPc: 0, CasePc: 0, KindFlips: 15,
		W: map[string]int{"reg": 42, "dereg": 24, "coord": 3, "sysmeta": 2, "cfgset": 8, "cfgdel": 5, "xtxn": 10, "sc": 3, "sd": 1}},
	{Name: "gateways", VipPc: 70, PeerPc: 0, CasePc: 0, KindFlips: 10, Gateways: true,
		W: map[string]int{"reg": 38, "dereg": 20, "coord": 2, "sysmeta": 1, "cfgset": 20, "cfgdel": 8, "xtxn": 8, "sc": 2, "sd": 1}},
	{Name: "peers", VipPc: 70, PeerPc: 40, CasePc: 0, KindFlips: 10,
		W: map[string]int{"reg": 45, "dereg": 27, "coord": 4, "sysmeta": 2, "cfgset": 6, "cfgdel": 3, "xtxn": 8, "sc": 3, "sd": 2}},
	{Name: "case-variants", VipPc: 60, PeerPc: 10, CasePc: 25, KindFlips: 15,
		W: map[string]int{"reg": 45, "dereg": 25, "coord": 4, "sysmeta": 2, "cfgset": 7, "cfgdel": 4, "xtxn": 8, "sc": 3, "sd": 2}},
	{Name: "txn-heavy", VipPc: 80, PeerPc: 0, CasePc: 0, KindFlips: 20,
		W: map[string]int{"reg": 25, "dereg": 12, "coord": 3, "sysmeta": 2, "cfgset": 5, "cfgdel": 3, "xtxn": 42, "sc": 5, "sd": 3}},
}

func randomHistories(run *hx.Run, n, maxOps int) {
	for i := 0; i < n; i++ {
		r := run.RNG.Fork(uint64(i))
		p := profiles[i%len(profiles)]
		h := NewHistory(run)
		g := &Gen{R: r, P: p, Idx: uint64(r.Intn(20)), Last: h.Last}
		run.Tag("profile:" + p.Name)
		for _, op := range g.Preamble() {
			h.Step(op)
			g.Last = h.Last
		}
		for k := 3 + r.Intn(maxOps); k > 0; k-- {
			h.Step(g.Next())
			g.Last = h.Last
		}
		if i < 3 {
			run.Sample(map[string]any{"profile": p.Name, "ops": h.Descs})
		}
		h.Finish()
	}
}

func main() {
	run := hx.Start()
	// state.addIPOffset asks netutil for the agent's bind address (IPv4: virtual IPs are 240.0.0.0 + offset)
	netutil.SetAgentBindAddr(&net.IPAddr{IP: net.ParseIP("10.0.0.1")})
	run.Rule = "every result line and every full dump (nodes, services with kind/connect/proxy/virtual-IP attributes, checks, coordinates, sessions, kind-service-names, service-virtual-ips, free-virtual-ips, usage, config entries, system metadata, local index rows) of the real state store after every command equals the Lean model's; the catalog invariant, the deregistration cascades and every derived view (usage, kind-service-names, virtual IPs, gateway-services, mesh-topology) recomputed from the registrations and config entries hold on the implementation"
	randomHistories(run, run.Scale(300, 4000), 30)
	run.Finish()
}
