//go:build verif

// C20 harness: snapshot archives — exact round trip, corruption always detected.
//
// Runs the REAL snapshot.write / snapshot.read (through the export shim), snapshot.Verify,
// snapshot.Read, snapshot.New and snapshot.Restore (against a real in-memory raft) on
//   - valid archives for generated (metadata, state) pairs,
//   - every truncation point and every single-byte change of such archives (plain tar and
//     gzip wrapped), with 9 or more replacement values per position,
//   - member removal / duplication / reordering / injection / renaming,
//   - adversarial archives whose SHA256SUMS was recomputed by the attacker (repeated members,
//     odd SHA256SUMS syntax, odd JSON, odd tar entry types),
//
// and prints, per operation, what the Lean model (CV.Tar) must reproduce: the stream that
// archive/tar presents (independent scanning pass) goes on the operation line, the verdict of
// the real code (ok + metadata + state digest, or the error site) on the answer line.
//
// Monitors (independent of the Lean model; they restate the property on what the real code
// returned): round trip is byte-exact; an altered meta.json/state.bin byte, a cut before the
// last member is complete, a removed member or SHA256SUMS, an unknown member are rejected;
// whatever is accepted after damage extracts exactly the original state and metadata;
// Verify and Read agree; raft's Restore is never reached for a rejected archive.
package main

import (
	"archive/tar"
	"bytes"
	"compress/gzip"
	"crypto/sha256"
	"encoding/json"
	"fmt"
	"io"
	"os"
	"path/filepath"
	"runtime"
	"strings"
	"sync"
	"time"

	"github.com/hashicorp/go-hclog"
	"github.com/hashicorp/raft"

	"github.com/hashicorp/consul/internal/verifharness/hx"
	"github.com/hashicorp/consul/snapshot"
)

// ---------------------------------------------------------------- streams (what archive/tar presents)

type member struct {
	name  string
	data  []byte
	short bool
}

type stream struct {
	ms  []member
	end string // "eof" | "err"
}

// plain hides Seek/WriterTo so that the tar reader sees a pure stream, as it does behind gzip.
type plain struct{ r io.Reader }

func (p plain) Read(b []byte) (int, error) { return p.r.Read(b) }

// scan is the independent scanning pass: iterate the archive with archive/tar and read every
// member completely.
func scan(r io.Reader) stream {
	tr := tar.NewReader(r)
	var s stream
	for {
		hdr, err := tr.Next()
		if err == io.EOF {
			s.end = "eof"
			return s
		}
		if err != nil {
			s.end = "err"
			return s
		}
		data, rerr := io.ReadAll(tr)
		s.ms = append(s.ms, member{hdr.Name, data, rerr != nil})
		if rerr != nil {
			s.end = "err"
			return s
		}
	}
}

func encMembers(ms []member) string {
	t := make([]string, len(ms))
	for i, m := range ms {
		t[i] = hx.EncS(m.name) + ";" + hx.EncB(m.data) + ";" + hx.EncBool(m.short)
	}
	return hx.EncList(t)
}

func viewStr(s stream) string {
	t := make([]string, len(s.ms))
	for i, m := range s.ms {
		k := "c"
		if m.short {
			k = "s"
		}
		t[i] = fmt.Sprintf("%s:%s%d", hx.EncS(m.name), k, len(m.data))
	}
	return hx.EncList(t) + "/" + s.end
}

func canon(md *raft.SnapshotMeta) []byte {
	b, err := json.Marshal(md)
	if err != nil {
		panic(err)
	}
	return b
}

// oracle is the JSON codec oracle handed to the model: for every meta.json member, in order,
// the canonical form of the caller's struct after `json.Unmarshal(buf, &metadata)` (same call
// shape as archive.go: a pointer to the pointer), or "!" when decoding fails.
func oracle(ms []member) string {
	var md raft.SnapshotMeta
	p := &md
	failed := false
	var toks []string
	for _, m := range ms {
		if m.name != "meta.json" {
			continue
		}
		if failed || m.short {
			toks = append(toks, "!")
			failed = true
			continue
		}
		if err := json.Unmarshal(m.data, &p); err != nil {
			toks = append(toks, "!")
			failed = true
			continue
		}
		toks = append(toks, hx.EncB(canon(&md)))
	}
	return hx.EncList(toks)
}

// ---------------------------------------------------------------- the real code

var errTable = []struct{ prefix, enum string }{
	{"failed reading snapshot: ", "tar"},
	{"failed to read snapshot metadata: ", "meta-read"},
	{"failed to decode snapshot metadata: ", "meta-json"},
	{"failed to read or write snapshot data: ", "state-io"},
	{"failed to read snapshot hashes: ", "sums-read"},
	{"unexpected file ", "unexpected"},
}

// classify maps an error of read / Verify / Read to the error site (the model's Err).
func classify(err error) string {
	msg := err.Error()
	msg = strings.TrimPrefix(msg, "failed to read snapshot file: ")
	if strings.HasPrefix(msg, "failed to decompress snapshot: ") {
		return "gz-header"
	}
	for _, e := range errTable {
		if strings.HasPrefix(msg, e.prefix) {
			return e.enum
		}
	}
	if rest, ok := strings.CutPrefix(msg, "failed checking integrity of snapshot: "); ok {
		switch {
		case strings.HasPrefix(rest, "list missing hash for "):
			return "list-missing"
		case strings.HasPrefix(rest, "hash check failed for "):
			return "hash-failed"
		case strings.HasPrefix(rest, "file missing for "):
			return "file-missing"
		case rest == "bufio.Scanner: token too long":
			return "sums-toolong"
		default:
			return "sums-scan"
		}
	}
	switch msg {
	case `snapshot is missing the "meta.json" file`:
		return "missing-meta"
	case `snapshot is missing the "state.bin" file`:
		return "missing-state"
	}
	if strings.HasSuffix(msg, " unread uncompressed bytes remain") {
		return "gz-extra"
	}
	return "gz-tail" // concludeGzipRead returns the gzip/flate error unwrapped
}

type result struct {
	ok    bool
	enum  string
	meta  []byte // canonical metadata
	state []byte
}

func (r result) String() string {
	if !r.ok {
		return "err " + r.enum
	}
	return fmt.Sprintf("ok m=%s n=%d h=%x", hx.EncB(r.meta), len(r.state), sha256.Sum256(r.state))
}

// implRead runs archive.go read on a plain tar byte string.
func implRead(b []byte) result {
	var md raft.SnapshotMeta
	var out bytes.Buffer
	if err := snapshot.VerifRead(plain{bytes.NewReader(b)}, &md, &out); err != nil {
		return result{enum: classify(err)}
	}
	return result{ok: true, meta: canon(&md), state: out.Bytes()}
}

var readCalls int

// implGz runs snapshot.Verify and (when Verify accepts, or alsoRead) snapshot.Read.
func implGz(run *hx.Run, b []byte, alsoRead bool, op string) result {
	md, err := snapshot.Verify(plain{bytes.NewReader(b)})
	var res result
	if err != nil {
		res = result{enum: classify(err)}
	} else {
		res = result{ok: true, meta: canon(md)}
	}
	if !res.ok && !alsoRead {
		return res
	}
	readCalls++
	if readCalls%256 == 0 {
		runtime.GC() // a failed snapshot.Read leaves its temp file open; finalizers close them
	}
	f, md2, err2 := snapshot.Read(hclog.NewNullLogger(), plain{bytes.NewReader(b)})
	if f != nil {
		defer func() { f.Close(); os.Remove(f.Name()) }()
	}
	var res2 result
	if err2 != nil {
		res2 = result{enum: classify(err2)}
	} else {
		st, rerr := io.ReadAll(f)
		if rerr != nil {
			panic(rerr)
		}
		res2 = result{ok: true, meta: canon(md2), state: st}
	}
	if res.ok != res2.ok || res.enum != res2.enum || !bytes.Equal(res.meta, res2.meta) {
		run.Violate("gzip:verify-and-read-disagree", fmt.Sprintf("snapshot.Verify says %q, snapshot.Read says %q", res.String(), res2.String()), []string{op})
	}
	return res2
}

// emitWrite ties archive.go write to the model's writeStream: the members the real write
// produced (scanning pass) against the members the model says it produces from the encoder
// output (computed here, independently of the archive), metadata.Size and the state reader.
func emitWrite(run *hx.Run, md *raft.SnapshotMeta, snap []byte) {
	var enc bytes.Buffer
	if err := json.NewEncoder(&enc).Encode(md); err != nil {
		panic(err)
	}
	// the JSON contract the round-trip theorem assumes (hcodec): decoding what Encode produced
	// for this metadata onto a zero struct succeeds and yields the same metadata
	{
		var back raft.SnapshotMeta
		p := &back
		if uerr := json.Unmarshal(enc.Bytes(), &p); uerr != nil || !bytes.Equal(canon(&back), canon(md)) {
			run.Violate("json:contract", fmt.Sprintf("json.Unmarshal(json.Encode(m)) != m for %s (err %v)", canon(md), uerr), nil)
		}
		run.Tag("json:contract-checked")
	}
	var buf bytes.Buffer
	err := snapshot.VerifWrite(&buf, md, plain{bytes.NewReader(snap)})
	out, swap := "short-snap", false
	if err == nil {
		sv := scan(bytes.NewReader(buf.Bytes()))
		out = encMembers(sv.ms) + "/" + sv.end
		if n := len(sv.ms); n > 0 {
			first, _, _ := bytes.Cut(sv.ms[n-1].data, []byte("\n"))
			swap = bytes.HasSuffix(first, []byte("state.bin"))
		}
		run.Tag(fmt.Sprintf("write:ok:sums-state-line-first=%v", swap))
	} else {
		run.Tag("write:error")
		if int64(len(snap)) >= md.Size {
			run.Violate("write:fails-although-enough-state", fmt.Sprintf("write failed with %v for Size=%d and %d bytes", err, md.Size, len(snap)), nil)
		}
	}
	op := fmt.Sprintf("write %s %d %s %s", hx.EncB(enc.Bytes()), md.Size, hx.EncB(snap), hx.EncBool(swap))
	run.Line(op, out)
	run.Case(op, true)
}

func mkArchive(md *raft.SnapshotMeta, state []byte) []byte {
	var buf bytes.Buffer
	if err := snapshot.VerifWrite(&buf, md, bytes.NewReader(state)); err != nil {
		panic(err)
	}
	return buf.Bytes()
}

// gzWrap is what snapshot.New does around write.
func gzWrap(tarBytes []byte) []byte {
	var buf bytes.Buffer
	zw := gzip.NewWriter(&buf)
	if _, err := zw.Write(tarBytes); err != nil {
		panic(err)
	}
	if err := zw.Close(); err != nil {
		panic(err)
	}
	return buf.Bytes()
}

// ---------------------------------------------------------------- layout by observation

type region struct {
	cls        string // hdr<i> data<i> pad<i> trailer
	kind       string // hdr data pad trailer
	idx        int
	start, len int
}

type countR struct {
	r io.Reader
	n int
}

func (c *countR) Read(b []byte) (int, error) { n, err := c.r.Read(b); c.n += n; return n, err }

// observeLayout finds header / data / padding / trailer offsets from how many bytes the tar
// reader has consumed at each step (the reader does not buffer).
func observeLayout(b []byte) []region {
	c := &countR{r: bytes.NewReader(b)}
	tr := tar.NewReader(c)
	var regs []region
	prevEnd := 0 // end of the previous member's data
	for i := 0; ; i++ {
		hdr, err := tr.Next()
		if err == io.EOF {
			trailerStart := c.n - 1024
			if i > 0 {
				regs = append(regs, region{fmt.Sprintf("pad%d", i-1), "pad", i - 1, prevEnd, trailerStart - prevEnd})
			}
			regs = append(regs, region{"trailer", "trailer", -1, trailerStart, 1024})
			if c.n != len(b) {
				panic("archive longer than what the reader consumed")
			}
			return regs
		}
		if err != nil {
			panic(err)
		}
		dataStart := c.n
		if i > 0 {
			regs = append(regs, region{fmt.Sprintf("pad%d", i-1), "pad", i - 1, prevEnd, dataStart - 512 - prevEnd})
		}
		regs = append(regs, region{fmt.Sprintf("hdr%d", i), "hdr", i, dataStart - 512, 512})
		n, _ := io.Copy(io.Discard, tr)
		if int64(n) != hdr.Size || c.n != dataStart+int(n) {
			panic("unexpected member framing")
		}
		regs = append(regs, region{fmt.Sprintf("data%d", i), "data", i, dataStart, int(n)})
		prevEnd = c.n
	}
}

func layoutStr(regs []region) string {
	t := make([]string, len(regs))
	for i, r := range regs {
		t[i] = fmt.Sprintf("%s:%d:%d", r.cls, r.start, r.len)
	}
	return hx.EncList(t)
}

func regionOf(regs []region, p int) region {
	for _, r := range regs {
		if r.start <= p && p < r.start+r.len {
			return r
		}
	}
	panic("position outside every region")
}

// ---------------------------------------------------------------- generators

var sizePool = []int{0, 1, 2, 100, 255, 511, 512, 513, 1023, 1024, 1025, 4096}

func genState(r *hx.RNG, n int) []byte {
	b := make([]byte, n)
	switch r.Intn(5) {
	case 0: // zeros: looks like tar padding / trailer
	case 1:
		for i := range b {
			b[i] = byte('a' + i%26)
		}
	case 2: // looks like SHA256SUMS / newlines
		copy(b, bytes.Repeat([]byte("e3b0c44298fc1c149afbf4c8996fb924  state.bin\n"), n/44+1))
	default:
		for i := range b {
			b[i] = byte(r.U64())
		}
	}
	return b
}

var idPool = []string{"2-17-1700000000000", "", "snap \"quoted\" \\ id", "é-ü- ", "a\x00b", "<html>&amp;", strings.Repeat("long-", 40)}

func genMeta(r *hx.RNG, size int) *raft.SnapshotMeta {
	md := &raft.SnapshotMeta{
		Version: raft.SnapshotVersion(r.Intn(2)),
		ID:      hx.Pick(r, idPool),
		Index:   r.U64() >> uint(r.Intn(64)),
		Term:    uint64(r.Intn(50)),
		Size:    int64(size),
	}
	switch r.Intn(3) {
	case 0:
		md.Peers = []byte{}
	case 1:
		md.Peers = []byte{0x93, 0xa1, 'a', 0xff, 0x00}
	}
	for n := r.Intn(4); n > 0; n-- {
		md.Configuration.Servers = append(md.Configuration.Servers, raft.Server{
			Suffrage: raft.ServerSuffrage(r.Intn(3)),
			ID:       raft.ServerID(fmt.Sprintf("server-%d", r.Intn(5))),
			Address:  raft.ServerAddress(fmt.Sprintf("10.0.0.%d:8300", r.Intn(5))),
		})
	}
	md.ConfigurationIndex = uint64(r.Intn(1000))
	return md
}

type base struct {
	md     *raft.SnapshotMeta
	cmeta  []byte // canonical metadata
	state  []byte
	tarB   []byte
	s      stream
	regs   []region
	res    result
	tag    string
	orcTok string // oracle of the untouched archive
}

// mkBase writes a valid archive with the real code, checks the round trip (monitor) and
// registers it with the model (`base`, `layout`, `read`).
func mkBase(run *hx.Run, md *raft.SnapshotMeta, state []byte, tag string) *base {
	b := &base{md: md, cmeta: canon(md), state: state, tag: tag}
	b.tarB = mkArchive(md, state)
	emitWrite(run, md, state)
	b.s = scan(bytes.NewReader(b.tarB))
	b.orcTok = oracle(b.s.ms)
	b.regs = observeLayout(b.tarB)
	b.res = implRead(b.tarB)
	opRead := fmt.Sprintf("read %s %s %s", encMembers(b.s.ms), b.s.end, oracle(b.s.ms))
	run.Line(opRead, b.res.String())
	b.register(run)
	run.Line("layout", layoutStr(b.regs))
	// monitor: exact round trip
	if !b.res.ok {
		run.Violate("roundtrip:valid-archive-rejected", fmt.Sprintf("read(write(m, st)) failed with %s for %d state bytes", b.res.enum, len(state)), []string{opRead})
	} else {
		if !bytes.Equal(b.res.state, state) {
			run.Violate("roundtrip:state-differs", fmt.Sprintf("read(write(m, st)) returned %d state bytes that differ from the %d written", len(b.res.state), len(state)), []string{opRead})
		}
		if !bytes.Equal(b.res.meta, b.cmeta) {
			run.Violate("roundtrip:metadata-differs", fmt.Sprintf("metadata after round trip %s, written %s", b.res.meta, b.cmeta), []string{opRead})
		}
	}
	if len(b.s.ms) != 3 || b.s.ms[0].name != "meta.json" || b.s.ms[1].name != "state.bin" || b.s.ms[2].name != "SHA256SUMS" {
		run.Violate("write:unexpected-member-list", "write did not produce meta.json, state.bin, SHA256SUMS: "+viewStr(b.s), []string{opRead})
	}
	for _, r := range b.regs {
		if r.kind != "hdr" {
			continue
		}
		for _, c := range b.tarB[r.start : r.start+512] {
			if c >= 128 {
				run.Violate("assumption:tar-header-not-ascii", "write produced a header block with a byte >= 128: header_byte_change_rejected (Props/C20.lean) assumes ASCII headers", []string{opRead})
				break
			}
		}
	}
	run.Tag("roundtrip:" + tag)
	run.Tag(fmt.Sprintf("roundtrip:pad-state=%v", len(state)%512 != 0))
	run.Case(opRead, true)
	run.Sample(map[string]string{"op": trunc(opRead, 300), "impl": b.res.String()})
	return b
}

func trunc(s string, n int) string {
	if len(s) > n {
		return s[:n] + "…"
	}
	return s
}

// lastDataEnd is the offset one past the last data byte of the last member.
func (b *base) lastDataEnd() int {
	e := 0
	for _, r := range b.regs {
		if r.kind == "data" {
			e = r.start + r.len
		}
	}
	return e
}

// sink is what a monitor reports into: the run itself, or a worker-local buffer that is merged
// into the run afterwards (hx.Run is not safe for concurrent use).
type sink interface {
	Tag(string)
	Violate(sig, desc string, replay []string)
}

type localSink struct {
	tags  map[string]int
	viols []hx.Violation
}

func (l *localSink) Tag(t string) { l.tags[t]++ }
func (l *localSink) Violate(sig, desc string, replay []string) {
	l.tags["violation:"+sig]++
	if len(l.viols) < 50 {
		l.viols = append(l.viols, hx.Violation{Sig: sig, Desc: desc, Replay: replay})
	}
}

func (l *localSink) mergeInto(run *hx.Run) {
	for _, v := range l.viols {
		run.Violate(v.Sig, v.Desc, v.Replay)
		l.tags["violation:"+v.Sig]--
	}
	for t, n := range l.tags {
		run.Hist[t] += n
	}
}

// checkDamaged is the monitor shared by all damaged-archive cases.
//
//	mustReject: the property demands rejection for this kind of damage.
func checkDamaged(run sink, b *base, kind string, mustReject bool, res result, ops ...string) {
	if res.ok {
		same := true
		if mustReject {
			run.Violate(kind+":damaged-archive-accepted", fmt.Sprintf("%s: archive accepted (%s), original state %d bytes", kind, trunc(res.String(), 120), len(b.state)), ops)
		}
		if !bytes.Equal(res.state, b.state) {
			same = false
			run.Violate(kind+":accepted-with-different-state", fmt.Sprintf("%s: accepted but extracted state (%d bytes) differs from the original (%d bytes)", kind, len(res.state), len(b.state)), ops)
		}
		if !bytes.Equal(res.meta, b.cmeta) {
			same = false
			run.Violate(kind+":accepted-with-different-metadata", fmt.Sprintf("%s: accepted but metadata %s differs from the original %s", kind, res.meta, b.cmeta), ops)
		}
		if same {
			run.Tag(kind + ":accepted-identical")
		}
	} else {
		run.Tag(kind + ":rejected:" + res.enum)
	}
}

// ---- every truncation point of the plain tar

// register makes b the model's current base archive (later ops refer to it: trunc, bflip,
// `@i` member references, `^` oracle reference).
func (b *base) register(run *hx.Run) {
	hs := make([]string, len(b.s.ms))
	for i, m := range b.s.ms {
		hs[i] = fmt.Sprintf("%s:%d:1", hx.EncS(m.name), len(m.data)) // what archive/tar parsed from the header
	}
	run.Line(b.baseOp(), fmt.Sprintf("ok n=%d total=%d hdr=%s", len(b.s.ms), len(b.tarB), hx.EncList(hs)))
}

// baseOp carries the members, the JSON oracle and the raw 512-byte header block of each member
// (the model recomputes name, size and checksum from the block).
func (b *base) baseOp() string {
	var hs []string
	for _, r := range b.regs {
		if r.kind == "hdr" {
			hs = append(hs, hx.EncB(b.tarB[r.start:r.start+512]))
		}
	}
	return "base " + encMembers(b.s.ms) + " " + oracle(b.s.ms) + " " + hx.EncList(hs)
}

// orc is the oracle token for ms, `^` when it equals the base's.
func (b *base) orc(ms []member) string {
	o := oracle(ms)
	if b != nil && o == b.orcTok {
		return "^"
	}
	return o
}

// encRel encodes members, referring to identical complete base members as @i.
func (b *base) encRel(ms []member) string {
	t := make([]string, len(ms))
	for i, m := range ms {
		if b != nil && i < len(b.s.ms) && !m.short && !b.s.ms[i].short && m.name == b.s.ms[i].name && bytes.Equal(m.data, b.s.ms[i].data) {
			t[i] = fmt.Sprintf("@%d", i)
		} else {
			t[i] = hx.EncS(m.name) + ";" + hx.EncB(m.data) + ";" + hx.EncBool(m.short)
		}
	}
	return hx.EncList(t)
}

func runTruncations(run *hx.Run, b *base, step int) {
	b.register(run)
	lde := b.lastDataEnd()
	for cut := 0; cut <= len(b.tarB); cut += step {
		mut := b.tarB[:cut]
		sv := scan(plain{bytes.NewReader(mut)})
		res := implRead(mut)
		op := fmt.Sprintf("trunc %d %s", cut, b.orc(sv.ms))
		run.Line(op, fmt.Sprintf("view=%s %s", viewStr(sv), res.String()))
		kind := "trunc-in-" + "end"
		if cut < len(b.tarB) {
			kind = "trunc-in-" + regionOf(b.regs, cut).kind
		}
		checkDamaged(run, b, kind, cut < lde, res, b.baseOp(), op)
		run.Case(fmt.Sprintf("%s/trunc %d", b.tag, cut), cut < len(b.tarB))
	}
}

// ---- single-byte changes of the plain tar

func flipVals(r *hx.RNG, old byte, all bool) []byte {
	if all {
		v := make([]byte, 0, 255)
		for x := 0; x < 256; x++ {
			if byte(x) != old {
				v = append(v, byte(x))
			}
		}
		return v
	}
	v := make([]byte, 0, 9)
	for bit := 0; bit < 8; bit++ {
		v = append(v, old^(1<<bit))
	}
	for {
		x := byte(r.U64())
		if x != old && (x^old)&((x^old)-1) != 0 { // not a single-bit change
			return append(v, x)
		}
	}
}

// flipKind classifies a position by the observed layout: the monitor's verdict table.
func flipKind(b *base, reg region) (kind string, must bool) {
	kind = "flip-" + reg.kind
	if reg.kind == "data" {
		name := b.s.ms[reg.idx].name
		kind = "flip-data-" + name
		must = name == "meta.json" || name == "state.bin"
	}
	return
}

// flipOne evaluates one changed byte on the real read: monitor always, model line when corr.
func flipOne(b *base, mut []byte, pos int, v byte, reg region, corr bool, out sink, baseView string) (op, got string) {
	res := implRead(mut)
	kind, must := flipKind(b, reg)
	if corr || res.ok {
		sv := scan(plain{bytes.NewReader(mut)})
		op = fmt.Sprintf("bflip %d %d %s", pos, v, b.orc(sv.ms))
		got = fmt.Sprintf("view=%s %s", viewStr(sv), res.String())
		if reg.kind == "hdr" && pos-reg.start >= 148 && pos-reg.start < 156 {
			// checksum field: the stored value still parses to the same number (nothing changed
			// for the reader) or not (header rejected); the model decides which from the block
			if got == fmt.Sprintf("view=%s %s", baseView, b.res.String()) {
				out.Tag("flip-hdr:chksum-field:same-value")
			} else {
				out.Tag("flip-hdr:chksum-field:rejected")
			}
		}
	}
	checkDamaged(out, b, kind, must, res, b.baseOp(), op)
	return
}

// runFlips changes every `step`-th position. corrVals values per position go through the model
// (bflip line, main goroutine, deterministic order); all other values go through the monitors
// only, on worker goroutines whose findings are merged in worker order.
func runFlips(run *hx.Run, r *hx.RNG, b *base, step int, all bool, corrVals int) {
	b.register(run)
	baseView := viewStr(b.s)
	const workers = 8
	type job struct {
		pos int
		v   byte
	}
	jobs := make([][]job, workers)
	mut := append([]byte(nil), b.tarB...)
	for pos := 0; pos < len(b.tarB); pos += step {
		reg := regionOf(b.regs, pos)
		old := b.tarB[pos]
		// all 255 replacement values where the value is interpreted (member data: JSON, the
		// SHA256SUMS scanner, state bytes; the octal header checksum field); elsewhere (rest of
		// the headers, padding, trailer: any change has the same effect) the 8 single-bit
		// changes and one random value
		allHere := all && (reg.kind == "data" || (reg.kind == "hdr" && pos-reg.start >= 148 && pos-reg.start < 156))
		vals := flipVals(r, old, allHere)
		corr := map[byte]bool{vals[len(vals)-1]: true}
		for len(corr) < corrVals && len(corr) < len(vals) {
			corr[hx.Pick(r, vals)] = true
		}
		for _, v := range vals {
			run.Case(fmt.Sprintf("%s/bflip %d %d", b.tag, pos, v), true)
			if !corr[v] {
				jobs[pos%workers] = append(jobs[pos%workers], job{pos, v})
				continue
			}
			mut[pos] = v
			op, got := flipOne(b, mut, pos, v, reg, true, run, baseView)
			run.Line(op, got)
		}
		mut[pos] = old
	}
	sinks := make([]*localSink, workers)
	var wg sync.WaitGroup
	for w := 0; w < workers; w++ {
		sinks[w] = &localSink{tags: map[string]int{}}
		wg.Add(1)
		go func(w int) {
			defer wg.Done()
			m := append([]byte(nil), b.tarB...)
			for _, j := range jobs[w] {
				m[j.pos] = j.v
				flipOne(b, m, j.pos, j.v, regionOf(b.regs, j.pos), false, sinks[w], baseView)
				m[j.pos] = b.tarB[j.pos]
			}
		}(w)
	}
	wg.Wait()
	for _, l := range sinks {
		l.mergeInto(run)
	}
}

// ---- member level: removal / duplication / reordering / injection on a valid archive

type entry struct {
	name string
	data []byte
	typ  byte
}

func buildTar(es []entry) []byte {
	var buf bytes.Buffer
	tw := tar.NewWriter(&buf)
	for _, e := range es {
		typ := e.typ
		if typ == 0 {
			typ = tar.TypeReg
		}
		h := &tar.Header{Name: e.name, Mode: 0600, Size: int64(len(e.data)), ModTime: time.Unix(1700000000, 0), Typeflag: typ}
		if typ != tar.TypeReg {
			h.Size = 0
			if typ == tar.TypeSymlink || typ == tar.TypeLink {
				h.Linkname = "state.bin"
			}
		}
		if err := tw.WriteHeader(h); err != nil {
			panic(err)
		}
		if typ == tar.TypeReg {
			if _, err := tw.Write(e.data); err != nil {
				panic(err)
			}
		}
	}
	if err := tw.Close(); err != nil {
		panic(err)
	}
	return buf.Bytes()
}

func entriesOf(b *base) []entry {
	es := make([]entry, len(b.s.ms))
	for i, m := range b.s.ms {
		es[i] = entry{name: m.name, data: m.data}
	}
	return es
}

// emitRead runs one explicit archive through the real read and the model.
func emitRead(run *hx.Run, tarB []byte) (result, stream, string) {
	sv := scan(plain{bytes.NewReader(tarB)})
	res := implRead(tarB)
	op := fmt.Sprintf("read %s %s %s", encMembers(sv.ms), sv.end, oracle(sv.ms))
	run.Line(op, res.String())
	return res, sv, op
}

var strangeNames = []string{"extra", "meta.json ", " meta.json", "META.JSON", "./state.bin", "meta.jsonx", "meta.jso", "sha256sums",
	"SHA256SUMS.sig", "dir/meta.json", "..", "é", strings.Repeat("n", 101), strings.Repeat("d/", 80) + "state.bin"}

func runMemberMutations(run *hx.Run, r *hx.RNG, b *base) {
	es := entriesOf(b)
	do := func(kind string, must bool, mod []entry) {
		res, _, op := emitRead(run, buildTar(mod))
		checkDamaged(run, b, kind, must, res, op)
		run.Case(b.tag+"/"+kind+"/"+op, true)
	}
	// identity re-serialisation (other mtime, same members)
	do("member-identity", false, es)
	// removals: an archive that lacks meta.json, state.bin or SHA256SUMS must be rejected, also
	// when the removed member was empty (an absent member hashes like an empty one, so only
	// the explicit presence check of read can notice — regression signature below)
	for i := range es {
		mod := append(append([]entry(nil), es[:i]...), es[i+1:]...)
		kind := "remove-" + es[i].name
		if len(es[i].data) == 0 {
			kind = "remove-empty-" + es[i].name
		}
		res, _, op := emitRead(run, buildTar(mod))
		if res.ok && es[i].name != "SHA256SUMS" {
			run.Violate("archive:missing-member-accepted", fmt.Sprintf("archive without its %s member (%d bytes in the original) is accepted", es[i].name, len(es[i].data)), []string{op})
		}
		checkDamaged(run, b, kind, es[i].name == "SHA256SUMS", res, op)
		run.Case(b.tag+"/"+kind+"/"+op, true)
	}
	// duplications (adjacent, at the end, at the front)
	for i := range es {
		for _, at := range []int{i + 1, len(es), 0} {
			mod := append([]entry(nil), es[:at]...)
			mod = append(mod, es[i])
			mod = append(mod, es[at:]...)
			must := es[i].name != "SHA256SUMS" && len(es[i].data) > 0
			do("duplicate-"+es[i].name, must, mod)
		}
	}
	// all reorderings
	perms := [][]int{{0, 2, 1}, {1, 0, 2}, {1, 2, 0}, {2, 0, 1}, {2, 1, 0}}
	if len(es) == 3 {
		for _, p := range perms {
			do("reorder", false, []entry{es[p[0]], es[p[1]], es[p[2]]})
		}
	}
	// injections of unknown names, at every position
	for k := 0; k < 6; k++ {
		name := hx.Pick(r, strangeNames)
		at := r.Intn(len(es) + 1)
		var data []byte
		if r.Bool() {
			data = genState(r, hx.Pick(r, []int{1, 44, 512, 600}))
		}
		mod := append([]entry(nil), es[:at]...)
		mod = append(mod, entry{name: name, data: data})
		mod = append(mod, es[at:]...)
		do("inject-unknown-name", true, mod)
	}
	// injections of known names (a second, different or empty member)
	for _, name := range []string{"meta.json", "state.bin", "SHA256SUMS"} {
		for _, data := range [][]byte{nil, []byte("{}"), genState(r, 64)} {
			at := r.Intn(len(es) + 1)
			mod := append([]entry(nil), es[:at]...)
			mod = append(mod, entry{name: name, data: data})
			mod = append(mod, es[at:]...)
			do("inject-known-name", false, mod)
		}
	}
	// renames
	for i := range es {
		mod := append([]entry(nil), es...)
		mod[i].name = hx.Pick(r, strangeNames)
		do("rename-"+es[i].name, true, mod)
	}
	// swapped contents of meta.json and state.bin
	if len(es) == 3 && !bytes.Equal(es[0].data, es[1].data) {
		mod := append([]entry(nil), es...)
		mod[0].data, mod[1].data = es[1].data, es[0].data
		do("swap-contents", true, mod)
	}
	// entry types: a directory / symlink / hard link carrying a member's name has no data
	for i := range es {
		for _, typ := range []byte{tar.TypeDir, tar.TypeSymlink, tar.TypeLink, tar.TypeFifo} {
			mod := append([]entry(nil), es...)
			mod[i].typ = typ
			do("entry-type", es[i].name == "SHA256SUMS" || len(es[i].data) > 0, mod)
		}
	}
	// SHA256SUMS edits that drop or change a (digest, name) pair
	sums := es[len(es)-1].data
	lines := bytes.SplitAfter(sums, []byte("\n"))
	if len(es) == 3 && len(lines) >= 2 {
		edit := func(kind string, must bool, data []byte) {
			mod := append([]entry(nil), es...)
			mod[2].data = data
			do(kind, must, mod)
		}
		edit("sums-drop-line", true, lines[0])
		edit("sums-drop-line", true, lines[1])
		edit("sums-empty", true, nil)
		edit("sums-swap-lines", false, append(append([]byte(nil), lines[1]...), lines[0]...))
		edit("sums-duplicate-line", false, append(append([]byte(nil), sums...), lines[0]...))
		swapped := bytes.Replace(bytes.Replace(bytes.Replace(sums, []byte("meta.json"), []byte("\x01"), 1), []byte("state.bin"), []byte("meta.json"), 1), []byte("\x01"), []byte("state.bin"), 1)
		edit("sums-swap-names", !bytes.Equal(es[0].data, es[1].data), swapped)
		edit("sums-extra-unknown-entry", true, append(append([]byte(nil), sums...), []byte("e3b0c44298fc1c149afbf4c8996fb92427ae41e4649b934ca495991b7852b855  other\n")...))
		edit("sums-uppercase-hex", false, bytes.ToUpper(sums[:64]))
		up := append(bytes.ToUpper(sums[:64]), sums[64:]...)
		edit("sums-uppercase-hex", false, up)
		edit("sums-crlf", false, bytes.ReplaceAll(sums, []byte("\n"), []byte("\r\n")))
		edit("sums-no-final-newline", false, sums[:len(sums)-1])
		edit("sums-blank-line", false, append(append([]byte(nil), sums...), '\n'))
		edit("sums-tabs", false, bytes.ReplaceAll(sums, []byte("  "), []byte("\t")))
		edit("sums-single-space", false, bytes.ReplaceAll(sums, []byte("  "), []byte(" ")))
		edit("sums-no-space", false, bytes.ReplaceAll(sums, []byte("  "), []byte("")))
		edit("sums-unicode-space", false, bytes.ReplaceAll(sums, []byte("  "), []byte("  　")))
		edit("sums-trailing-words", false, bytes.ReplaceAll(sums, []byte("\n"), []byte(" trailing words\n")))
		edit("sums-trailing-nbsp", false, bytes.ReplaceAll(sums, []byte("\n"), []byte("\u0085junk\n")))
		edit("sums-leading-space", false, append([]byte(" \t"), sums...))
		edit("sums-truncated-digest", true, append(append([]byte(nil), sums[:62]...), sums[64:]...))
	}
}

// ---- SHA256SUMS line families: repeated / dropped / permuted / wrong-digest lines, combined
// with untouched members and with an altered state.bin or meta.json (plain tar and gzip).
//
// Alphabet (digests of the ORIGINAL members): Lm, Ls the two valid lines; Wm, Ws the same
// names with a wrong digest. Every sequence over it of length 1..3 (all permutations with
// repetition: one line k times, one duplicated and the other dropped, right and wrong digest
// for one name in either order, …) plus longer repetitions. Monitor, independent of the model:
//   - an archive is accepted only if every listed line is valid for the members as they are and
//     both names are listed (over-acceptance is the violation; signature names what was let through);
//   - with an altered member nothing here can be accepted (no line carries the new digest).
func runSumsFamilies(run *hx.Run, r *hx.RNG, b *base, withGz bool) {
	es := entriesOf(b)
	if len(es) != 3 {
		return
	}
	hm, hs := sha256.Sum256(es[0].data), sha256.Sum256(es[1].data)
	wm, ws := hm, hs
	wm[r.Intn(32)] ^= byte(1 << r.Intn(8))
	ws[r.Intn(32)] ^= byte(1 << r.Intn(8))
	line := func(d [32]byte, name string) string { return fmt.Sprintf("%x  %s\n", d, name) }
	alpha := []struct {
		tag, text string
		valid     bool
		name      string
	}{
		{"Lm", line(hm, "meta.json"), true, "meta.json"},
		{"Ls", line(hs, "state.bin"), true, "state.bin"},
		{"Wm", line(wm, "meta.json"), false, "meta.json"},
		{"Ws", line(ws, "state.bin"), false, "state.bin"},
	}
	var seqs [][]int
	var gen func(prefix []int, n int)
	gen = func(prefix []int, n int) {
		if n == 0 {
			seqs = append(seqs, append([]int(nil), prefix...))
			return
		}
		for i := range alpha {
			gen(append(prefix, i), n-1)
		}
	}
	for n := 1; n <= 3; n++ {
		gen(nil, n)
	}
	// longer repetitions: one line k times (with and without the other), and random length-4/5
	for k := 4; k <= 6; k++ {
		for i := 0; i < 2; i++ {
			rep := make([]int, k)
			for j := range rep {
				rep[j] = i
			}
			seqs = append(seqs, rep, append(append([]int(nil), rep...), 1-i), append([]int{1 - i}, rep...))
		}
	}
	for k := 0; k < 12; k++ {
		q := make([]int, 4+r.Intn(2))
		for j := range q {
			q[j] = r.Intn(len(alpha))
		}
		seqs = append(seqs, q)
	}
	// member variants
	type variant struct {
		tag         string
		meta, state []byte
	}
	vars := []variant{{"intact", es[0].data, es[1].data}}
	if len(es[1].data) > 0 {
		alt := append([]byte(nil), es[1].data...)
		alt[r.Intn(len(alt))] ^= byte(1 << r.Intn(8))
		vars = append(vars, variant{"state-altered", es[0].data, alt})
	} else {
		vars = append(vars, variant{"state-altered", es[0].data, []byte("x")})
	}
	// a metadata change that still decodes: another digit in a number
	altM := append([]byte(nil), es[0].data...)
	if i := bytes.Index(altM, []byte(`"Term":`)); i >= 0 {
		p := i + len(`"Term":`)
		altM[p] = '0' + (altM[p]-'0'+1)%10
		vars = append(vars, variant{"meta-altered", altM, es[1].data})
	}
	for _, q := range seqs {
		var text, tag string
		listed := map[string]bool{}
		allValid := true
		for _, i := range q {
			text += alpha[i].text
			tag += alpha[i].tag
			listed[alpha[i].name] = true
			allValid = allValid && alpha[i].valid
		}
		for vi, v := range vars {
			mustReject := vi != 0 || !allValid || !listed["meta.json"] || !listed["state.bin"]
			layouts := [][]entry{{{name: "meta.json", data: v.meta}, {name: "state.bin", data: v.state}, {name: "SHA256SUMS", data: []byte(text)}}}
			if len(q) >= 2 { // the same lines spread over two SHA256SUMS members
				cut := len(alpha[q[0]].text)
				layouts = append(layouts, []entry{{name: "SHA256SUMS", data: []byte(text[:cut])}, {name: "meta.json", data: v.meta},
					{name: "state.bin", data: v.state}, {name: "SHA256SUMS", data: []byte(text[cut:])}})
			}
			for li, mod := range layouts {
				kind := "sums-lines-" + v.tag
				tarB := buildTar(mod)
				res, _, op := emitRead(run, tarB)
				report := func(res result, where string, ops ...string) {
					if res.ok && mustReject {
						what := "an invalid or incomplete SHA256SUMS (" + tag + ")"
						sig := "sums:invalid-list-accepted"
						switch {
						case v.tag == "state-altered":
							sig, what = "sums:altered-state-accepted", "altered state.bin bytes under SHA256SUMS lines "+tag
						case v.tag == "meta-altered":
							sig, what = "sums:altered-metadata-accepted", "altered meta.json bytes under SHA256SUMS lines "+tag
						case !listed["state.bin"] || !listed["meta.json"]:
							sig = "sums:unlisted-member-accepted"
						}
						run.Violate(sig, where+" accepts "+what+fmt.Sprintf(" (original state %d bytes)", len(b.state)), ops)
					}
				}
				report(res, "read", op)
				checkDamaged(run, b, kind, false, res, op)
				if res.ok {
					run.Tag(fmt.Sprintf("sums-lines:accepted:%d-lines", len(q)))
				}
				run.Case(fmt.Sprintf("%s/sums-lines/%s/%s/%d", b.tag, tag, v.tag, li), true)
				if withGz && (len(q) <= 2 || vi != 0) {
					gres, gop := emitGz(run, nil, gzWrap(tarB), true)
					report(gres, "Verify/Read", gop)
					checkDamaged(run, b, "gzip-"+kind, false, gres, gop)
					run.Case(fmt.Sprintf("%s/gz-sums-lines/%s/%s/%d", b.tag, tag, v.tag, li), true)
				}
			}
		}
	}
}

// ---- raw byte strings around a valid archive: garbage before / after, archives glued together
func runRaw(run *hx.Run, r *hx.RNG, b *base) {
	zeros := func(n int) []byte { return make([]byte, n) }
	cat := func(xs ...[]byte) []byte { return bytes.Join(xs, nil) }
	noTrailer := b.tarB[:len(b.tarB)-1024]
	cases := []struct {
		kind string
		must bool
		b    []byte
	}{
		{"raw-empty-input", true, nil},
		{"raw-zero-block", true, zeros(512)},
		{"raw-two-zero-blocks", true, zeros(1024)},
		{"raw-three-zero-blocks", true, zeros(1536)},
		{"raw-garbage", true, genState(r, 2000)},
		{"raw-garbage-after-trailer", false, cat(b.tarB, genState(r, 700))},
		{"raw-archive-twice", false, cat(b.tarB, b.tarB)},
		{"raw-archive-twice-without-first-trailer", false, cat(noTrailer, b.tarB)},
		{"raw-one-zero-block-then-archive", true, cat(zeros(512), b.tarB)},
		{"raw-garbage-block-then-archive", true, cat(genState(r, 512), b.tarB)},
		{"raw-one-trailer-block", false, b.tarB[:len(b.tarB)-512]},
		{"raw-three-trailer-blocks", false, cat(b.tarB, zeros(512))},
		{"raw-shifted-by-one", true, cat([]byte{0}, b.tarB)},
	}
	for _, c := range cases {
		res, _, op := emitRead(run, c.b)
		checkDamaged(run, b, c.kind, c.must, res, op)
		run.Case(b.tag+"/"+c.kind, true)
	}
}

// ---- adversarial archives: the attacker recomputes SHA256SUMS

var jsonPool = []string{`null`, `{}`, `{"Index":7}`, `{"ID":"x","Size":3}`, `[]`, `{`, ``, `{"Index":1}{"Index":2}`, `{"Index":"notanumber"}`,
	`{"index":9,"TERM":4}`, ` {"Version":1} `, `{"Peers":"AQID"}`, `{"Configuration":{"Servers":[{"Suffrage":0,"ID":"a","Address":"b"}]}}`, `true`, `{"Size":-1}`}

func hexOf(b []byte) string { return fmt.Sprintf("%x", b) }

func runAdversarial(run *hx.Run, r *hx.RNG) {
	var es []entry
	var metaCat, stateCat []byte
	nm, ns := r.Intn(3), r.Intn(3)
	if r.Chance(60) {
		nm = 1
	}
	var metas, states [][]byte
	for i := 0; i < nm; i++ {
		var d []byte
		if r.Chance(50) {
			d = canon(genMeta(r, r.Intn(100)))
			if r.Bool() {
				d = append(d, '\n')
			}
		} else {
			d = []byte(hx.Pick(r, jsonPool))
		}
		metas = append(metas, d)
		metaCat = append(metaCat, d...)
	}
	for i := 0; i < ns; i++ {
		d := genState(r, hx.Pick(r, []int{0, 1, 7, 512, 700}))
		states = append(states, d)
		stateCat = append(stateCat, d...)
	}
	hm, hs := sha256.Sum256(metaCat), sha256.Sum256(stateCat)
	if r.Chance(8) {
		hm[r.Intn(32)] ^= 1
	}
	if r.Chance(8) {
		hs[r.Intn(32)] ^= 1
	}
	sep := hx.Pick(r, []string{"  ", "  ", "  ", " ", "\t", "   ", " ", "  ", "\r", "\x0b\x0c", "\xc2", "", "\xe2\x80", "​"})
	eol := hx.Pick(r, []string{"\n", "\n", "\n", "\r\n", "\r\r\n", " \n", " x\n", "\n\n"})
	hexm, hexs := hexOf(hm[:]), hexOf(hs[:])
	switch r.Intn(8) {
	case 0:
		hexm = strings.ToUpper(hexm)
	case 1:
		hexs = hexs[:63]
	case 2:
		hexs = hexs + "00"
	case 3:
		hexm = hexm[:40] + "g" + hexm[41:]
	}
	var sums string
	lm, ls := hexm+sep+"meta.json"+eol, hexs+sep+"state.bin"+eol
	switch r.Intn(8) {
	case 0:
		sums = ls + lm
	case 1:
		sums = lm
	case 2:
		sums = lm + ls + lm
	case 3:
		sums = lm + ls + hexs + sep + "other" + eol
	case 4:
		sums = strings.TrimSuffix(lm+ls, "\n")
	default:
		sums = lm + ls
	}
	nsum := 1
	if r.Chance(15) {
		nsum = 2
	}
	if r.Chance(5) {
		nsum = 0
	}
	for _, d := range metas {
		es = append(es, entry{name: "meta.json", data: d})
	}
	for _, d := range states {
		es = append(es, entry{name: "state.bin", data: d})
	}
	for i := 0; i < nsum; i++ {
		part := sums
		if nsum == 2 { // SHA256SUMS split over two members
			cut := r.Intn(len(sums) + 1)
			if i == 0 {
				part = sums[:cut]
			} else {
				part = sums[cut:]
			}
		}
		es = append(es, entry{name: "SHA256SUMS", data: []byte(part)})
	}
	if r.Chance(40) {
		hx.Shuffle(r, es)
	}
	if r.Chance(10) {
		at := r.Intn(len(es) + 1)
		es = append(es[:at:at], append([]entry{{name: hx.Pick(r, strangeNames), data: []byte("x")}}, es[at:]...)...)
	}
	tarB := buildTar(es)
	if r.Chance(10) && len(tarB) > 0 {
		tarB = tarB[:r.Intn(len(tarB))]
	}
	res, sv, op := emitRead(run, tarB)
	// monitor, restated on the members the scanning pass saw: whatever is accepted has no
	// foreign or short member, and returns exactly the concatenation of the state.bin members
	if res.ok {
		var cat []byte
		for _, m := range sv.ms {
			if m.short || (m.name != "meta.json" && m.name != "state.bin" && m.name != "SHA256SUMS") {
				run.Violate("adversarial:accepted-with-foreign-or-short-member", "accepted archive contains member "+hx.EncS(m.name), []string{op})
			}
			if m.name == "state.bin" {
				cat = append(cat, m.data...)
			}
		}
		for _, want := range []string{"meta.json", "state.bin"} {
			found := false
			for _, m := range sv.ms {
				found = found || m.name == want
			}
			if !found {
				run.Violate("archive:missing-member-accepted", "accepted archive has no "+want+" member", []string{op})
			}
		}
		if !bytes.Equal(cat, res.state) {
			run.Violate("adversarial:state-is-not-the-state-members", "extracted state differs from the state.bin members", []string{op})
		}
		if sv.end != "eof" {
			run.Violate("adversarial:accepted-after-tar-error", "accepted although the tar reader ended in an error", []string{op})
		}
		run.Tag(fmt.Sprintf("adversarial:accepted:metas=%d,states=%d", nm, ns))
	} else {
		run.Tag("adversarial:rejected:" + res.enum)
	}
	run.Case(op, true)
}

// a SHA256SUMS line at the bufio.Scanner token limit
func runLongLines(run *hx.Run, b *base) {
	es := entriesOf(b)
	sums := es[2].data
	for _, n := range []int{65534, 65535, 65536, 65537, 70000} {
		for _, final := range []bool{false, true} {
			// first line padded with trailing words up to n bytes (excluding the newline)
			first := sums[:bytes.IndexByte(sums, '\n')]
			rest := sums[bytes.IndexByte(sums, '\n')+1:]
			if n < len(first)+1 {
				continue
			}
			line := append(append([]byte(nil), first...), ' ')
			line = append(line, bytes.Repeat([]byte("w"), n-len(line))...)
			var data []byte
			if final {
				data = append(append([]byte(nil), rest...), line...) // long line last, no newline
			} else {
				data = append(append(line, '\n'), rest...)
			}
			mod := append([]entry(nil), es...)
			mod[2].data = data
			res, _, op := emitRead(run, buildTar(mod))
			checkDamaged(run, b, fmt.Sprintf("sums-long-line-%d", n), false, res, op)
			run.Case(op, true)
		}
	}
}

// ---------------------------------------------------------------- gzip layer

func gzScan(b []byte) (hdrOK bool, s stream, tail string) {
	zr, err := gzip.NewReader(plain{bytes.NewReader(b)})
	if err != nil {
		return false, stream{end: "err"}, "clean"
	}
	s = scan(zr)
	extra, err := io.ReadAll(zr)
	switch {
	case err != nil:
		tail = "corrupt"
	case len(extra) > 0:
		tail = "extra"
	default:
		tail = "clean"
	}
	return true, s, tail
}

func sameStream(a, b stream) bool {
	if a.end != b.end || len(a.ms) != len(b.ms) {
		return false
	}
	for i := range a.ms {
		if a.ms[i].name != b.ms[i].name || a.ms[i].short != b.ms[i].short || !bytes.Equal(a.ms[i].data, b.ms[i].data) {
			return false
		}
	}
	return true
}

func emitGz(run *hx.Run, b *base, gz []byte, alsoRead bool) (result, string) {
	hdrOK, sv, tail := gzScan(gz)
	ms := b.encRel(sv.ms)
	if b != nil && len(sv.ms) == len(b.s.ms) && sameStream(stream{ms: sv.ms, end: "eof"}, b.s) {
		ms = "@"
	}
	op := fmt.Sprintf("gz %s %s %s %s %s", hx.EncBool(hdrOK), ms, sv.end, tail, b.orc(sv.ms))
	res := implGz(run, gz, alsoRead, op)
	out := res.String()
	run.Line(op, out)
	return res, op
}

func runGz(run *hx.Run, r *hx.RNG, b *base, gz []byte, posStep int, truncStep int) {
	b.register(run) // the gz ops refer to it as @
	res, op := emitGz(run, b, gz, true)
	checkDamaged(run, b, "gzip-intact", false, res, b.baseOp(), op)
	if !res.ok {
		run.Violate("gzip:valid-archive-rejected", "Verify/Read rejected an untouched gzip-wrapped archive: "+res.enum, []string{op})
	}
	run.Case(b.tag+"/gz-intact", true)
	// every truncation point: the gzip trailer is gone, concludeGzipRead must notice
	for cut := 0; cut < len(gz); cut += truncStep {
		res, op := emitGz(run, b, gz[:cut], cut%16 == 0)
		checkDamaged(run, b, "gzip-truncated", true, res, b.baseOp(), op)
		run.Case(fmt.Sprintf("%s/gz-trunc %d", b.tag, cut), true)
	}
	// single-byte changes
	mut := append([]byte(nil), gz...)
	for pos := 0; pos < len(gz); pos += posStep {
		old := gz[pos]
		for _, v := range flipVals(r, old, false) {
			mut[pos] = v
			res, op := emitGz(run, b, mut, (pos+int(v))%16 == 0)
			kind := "gzip-flip-body"
			if pos < 10 {
				kind = "gzip-flip-header"
			} else if pos >= len(gz)-8 {
				kind = "gzip-flip-trailer"
			}
			checkDamaged(run, b, kind, pos >= len(gz)-8, res, b.baseOp(), op)
			run.Case(fmt.Sprintf("%s/gz-flip %d %d", b.tag, pos, v), true)
		}
		mut[pos] = old
	}
	// things after the gzip member
	appendix := map[string][]byte{
		"gzip-append-garbage":       []byte("garbage"),
		"gzip-append-zero-byte":     {0},
		"gzip-append-empty-member":  gzWrap(nil),
		"gzip-append-second-member": gzWrap([]byte("more")),
		"gzip-append-itself":        gz,
	}
	for _, kind := range []string{"gzip-append-garbage", "gzip-append-zero-byte", "gzip-append-empty-member", "gzip-append-second-member", "gzip-append-itself"} {
		res, op := emitGz(run, b, append(append([]byte(nil), gz...), appendix[kind]...), true)
		checkDamaged(run, b, kind, false, res, b.baseOp(), op)
		run.Case(b.tag+"/"+kind, true)
	}
	// uncompressed bytes after the tar trailer, inside the gzip member
	for _, extra := range [][]byte{{0}, bytes.Repeat([]byte{0}, 512), []byte("x")} {
		res, op := emitGz(run, b, gzWrap(append(append([]byte(nil), b.tarB...), extra...)), true)
		checkDamaged(run, b, "gzip-extra-uncompressed", false, res, b.baseOp(), op)
		run.Case(b.tag+"/gzip-extra", true)
	}
	// the plain tar handed to Verify (no gzip header)
	res, op = emitGz(run, b, b.tarB, true)
	checkDamaged(run, b, "gzip-missing", true, res, b.baseOp(), op)
}

// ---------------------------------------------------------------- Restore against a real raft

type recFSM struct {
	sync.Mutex
	state    []byte
	restores int
	last     []byte
}

func (f *recFSM) Apply(l *raft.Log) interface{} {
	f.Lock()
	defer f.Unlock()
	f.state = append([]byte(nil), l.Data...)
	return nil
}

type recSnap struct{ b []byte }

func (f *recFSM) Snapshot() (raft.FSMSnapshot, error) {
	f.Lock()
	defer f.Unlock()
	return &recSnap{append([]byte(nil), f.state...)}, nil
}

func (f *recFSM) Restore(in io.ReadCloser) error {
	defer in.Close()
	b, err := io.ReadAll(in)
	f.Lock()
	defer f.Unlock()
	f.restores++
	f.last = b
	f.state = b
	return err
}

func (s *recSnap) Persist(sink raft.SnapshotSink) error {
	if _, err := sink.Write(s.b); err != nil {
		sink.Cancel()
		return err
	}
	return sink.Close()
}
func (s *recSnap) Release() {}

func makeRaft() (*raft.Raft, *recFSM) {
	fsm := &recFSM{}
	store := raft.NewInmemStore()
	snaps := raft.NewInmemSnapshotStore()
	addr, trans := raft.NewInmemTransport("")
	conf := raft.DefaultConfig()
	conf.LocalID = raft.ServerID("server-" + string(addr))
	conf.HeartbeatTimeout = 50 * time.Millisecond
	conf.ElectionTimeout = 50 * time.Millisecond
	conf.LeaderLeaseTimeout = 50 * time.Millisecond
	conf.CommitTimeout = 5 * time.Millisecond
	conf.Logger = hclog.NewNullLogger()
	members := raft.Configuration{Servers: []raft.Server{{Suffrage: raft.Voter, ID: conf.LocalID, Address: addr}}}
	if err := raft.BootstrapCluster(conf, store, store, snaps, trans, members); err != nil {
		panic(err)
	}
	ra, err := raft.NewRaft(conf, fsm, store, store, snaps, trans)
	if err != nil {
		panic(err)
	}
	deadline := time.Now().Add(120 * time.Second)
	for ra.State() != raft.Leader {
		if time.Now().After(deadline) {
			panic("no raft leader")
		}
		time.Sleep(5 * time.Millisecond)
	}
	return ra, fsm
}

// runRestore: save with snapshot.New from a live raft, restore intact and damaged copies with
// snapshot.Restore; the FSM's Restore must be reached exactly for accepted archives and with
// the saved bytes.
func runRestore(run *hx.Run, r *hx.RNG, n int) {
	ra, fsm := makeRaft()
	defer func() { ra.Shutdown().Error() }()
	logger := hclog.NewNullLogger()
	for i := 0; i < n; i++ {
		state := genState(r, hx.Pick(r, []int{0, 1, 300, 512, 2000}))
		if err := ra.Apply(state, 120*time.Second).Error(); err != nil {
			panic(err)
		}
		snap, err := snapshot.New(logger, ra)
		if err != nil {
			panic(err)
		}
		gz, err := io.ReadAll(snap)
		if err != nil {
			panic(err)
		}
		snap.Close()
		// what New wrote, seen through the scanning pass
		_, sv, _ := gzScan(gz)
		md, verr := snapshot.Verify(bytes.NewReader(gz))
		if verr != nil {
			run.Violate("save:fresh-snapshot-fails-verify", "snapshot.Verify rejects what snapshot.New produced: "+verr.Error(), nil)
			continue
		}
		b := &base{md: md, cmeta: canon(md), state: state, s: sv, tag: fmt.Sprintf("raft%d", i)}
		tarB, _ := io.ReadAll(mustGz(gz))
		b.tarB = tarB
		res, op := emitGz(run, nil, gz, true)
		checkDamaged(run, b, "save-then-read", false, res, op)
		if !res.ok {
			run.Violate("save:fresh-snapshot-rejected", "snapshot.Read rejects what snapshot.New produced: "+res.enum, []string{op})
		}
		if md.Index != snap.Index() {
			run.Violate("save:index-differs", fmt.Sprintf("Snapshot.Index()=%d metadata.Index=%d", snap.Index(), md.Index), []string{op})
		}
		// damaged and intact copies through Restore
		type variant struct {
			kind string
			b    []byte
		}
		vs := []variant{{"intact", gz}}
		for k := 0; k < 6; k++ {
			m := append([]byte(nil), gz...)
			p := r.Intn(len(m))
			m[p] ^= byte(1 << r.Intn(8))
			vs = append(vs, variant{"flip", m})
		}
		vs = append(vs, variant{"truncated", gz[:r.Intn(len(gz))]}, variant{"truncated", gz[:len(gz)-1]}, variant{"empty", nil})
		// damage inside the tar, re-compressed: only the SHA-256 check can notice
		for k := 0; k < 4 && len(tarB) > 0; k++ {
			m := append([]byte(nil), tarB...)
			p := r.Intn(len(m))
			m[p] ^= byte(1 << r.Intn(8))
			vs = append(vs, variant{"inner-flip", gzWrap(m)})
		}
		vs = append(vs, variant{"inner-truncated", gzWrap(tarB[:len(tarB)-1024-1])})
		for _, v := range vs {
			fsm.Lock()
			before := fsm.restores
			fsm.Unlock()
			_, verr := snapshot.Verify(bytes.NewReader(v.b))
			rerr := snapshot.Restore(logger, plain{bytes.NewReader(v.b)}, ra)
			fsm.Lock()
			after, last := fsm.restores, fsm.last
			fsm.Unlock()
			desc := fmt.Sprintf("variant %s of a %d-byte snapshot with %d state bytes", v.kind, len(gz), len(state))
			switch {
			case verr != nil && after != before:
				run.Violate("restore:reached-for-rejected-archive", desc+": Verify rejects ("+classify(verr)+") but raft's Restore ran", []string{op})
			case verr != nil && rerr == nil:
				run.Violate("restore:reports-success-for-rejected-archive", desc, []string{op})
			case verr == nil && rerr == nil && after == before+1 && !bytes.Equal(last, state):
				run.Violate("restore:fsm-got-different-state", desc+": restored bytes differ from the saved state", []string{op})
			case verr == nil && rerr == nil && after != before+1:
				run.Violate("restore:success-without-fsm-restore", desc, []string{op})
			}
			if verr == nil && v.kind != "intact" {
				run.Tag("restore:damaged-but-accepted-identical")
			}
			if verr != nil {
				run.Tag("restore:not-reached:" + v.kind + ":" + classify(verr))
			} else if rerr == nil {
				run.Tag("restore:reached:" + v.kind)
			} else {
				run.Tag("restore:raft-error:" + v.kind)
			}
			run.Case(fmt.Sprintf("restore %d %s %x", i, v.kind, sha256.Sum256(v.b)), true)
		}
	}
}

func mustGz(b []byte) io.Reader {
	zr, err := gzip.NewReader(bytes.NewReader(b))
	if err != nil {
		panic(err)
	}
	return zr
}

// ---------------------------------------------------------------- main

func main() {
	run := hx.Start()
	run.Rule = "one case = one archive byte string handed to the real read / Verify / Read / Restore (a valid archive, or one truncation, byte change, member edit or adversarial construction); distinct by the operation; non-trivial = anything but the untouched archive"
	tmp, err := filepath.Abs(filepath.Join(run.Dir, "tmp"))
	if err != nil {
		panic(err)
	}
	os.MkdirAll(tmp, 0o755)
	os.Setenv("TMPDIR", tmp)
	defer os.RemoveAll(tmp)
	thorough := run.Thorough()
	t0 := time.Now()
	phase := func(name string) {
		run.Extra["seconds:"+name] = fmt.Sprintf("%.1f", time.Since(t0).Seconds())
		t0 = time.Now()
	}

	// 1. round trips over the size pool and random sizes
	var bases []*base
	for i, n := range sizePool {
		r := run.RNG.Fork(uint64(1000 + i))
		bases = append(bases, mkBase(run, genMeta(r, n), genState(r, n), fmt.Sprintf("size%d", n)))
	}
	for i := 0; i < run.Scale(40, 100); i++ {
		r := run.RNG.Fork(uint64(2000 + i))
		n := r.Intn(run.Scale(20000, 40000))
		mkBase(run, genMeta(r, n), genState(r, n), "random-size")
	}
	// metadata.Size smaller than the reader: exactly Size bytes are archived
	{
		r := run.RNG.Fork(2999)
		st := genState(r, 700)
		md := genMeta(r, 600)
		mkBase(run, md, st[:600], "size-from-metadata")
		emitWrite(run, md, st)       // longer reader
		emitWrite(run, md, st[:599]) // reader one byte short: write must fail
		emitWrite(run, md, nil)
		for k := 0; k < run.Scale(30, 300); k++ {
			rr := run.RNG.Fork(uint64(2500 + k))
			n := rr.Intn(1500)
			md := genMeta(rr, n)
			emitWrite(run, md, genState(rr, n+rr.Intn(3)*rr.Intn(600)-rr.Intn(2)*rr.Intn(n+1)))
		}
		alt := scan(bytes.NewReader(mkArchive(md, st))) // a longer reader: exactly Size bytes are archived
		if len(alt.ms) != 3 || !bytes.Equal(alt.ms[1].data, st[:600]) {
			run.Violate("write:does-not-copy-exactly-metadata-size", "write archived something else than the first metadata.Size bytes", nil)
		}
	}

	phase("1-roundtrip")
	// 2. every truncation point and every single-byte change of the plain tar
	exhaustive := map[int]bool{0: true, 1: true, 511: true, 512: true, 513: true}
	for _, b := range bases {
		r := run.RNG.Fork(uint64(3000 + len(b.state)))
		n := len(b.state)
		switch {
		case exhaustive[n]:
			runTruncations(run, b, 1)
			runFlips(run, r, b, 1, thorough && n == 1, run.Scale(2, 3))
		case n == 4096:
			runTruncations(run, b, run.Scale(3, 1))
			runFlips(run, r, b, run.Scale(5, 3), false, 1)
		default:
			runTruncations(run, b, run.Scale(7, 2))
			runFlips(run, r, b, run.Scale(11, 3), false, 1)
		}
	}

	phase("2-bytes")
	// 3. member-level edits of valid archives
	for i, b := range bases {
		runMemberMutations(run, run.RNG.Fork(uint64(4000+i)), b)
	}
	runLongLines(run, bases[3])
	for i, b := range bases {
		n := len(b.state)
		runSumsFamilies(run, run.RNG.Fork(uint64(4700+i)), b, n == 0 || n == 1 || n == 100 || n == 513 || thorough)
	}
	for i, b := range bases {
		runRaw(run, run.RNG.Fork(uint64(4500+i)), b)
	}

	phase("3-members")
	// 4. adversarial archives
	for i := 0; i < run.Scale(1500, 20000); i++ {
		runAdversarial(run, run.RNG.Fork(uint64(100000+i)))
	}

	phase("4-adversarial")
	// 5. gzip wrapper
	for i, b := range bases {
		r := run.RNG.Fork(uint64(5000 + i))
		n := len(b.state)
		gz := gzWrap(b.tarB)
		switch {
		case n <= 2 || n == 513:
			runGz(run, r, b, gz, 1, 1)
		default:
			runGz(run, r, b, gz, run.Scale(13, 5), run.Scale(5, 2))
		}
	}

	phase("5-gzip")
	// 6. save / restore against a live raft
	runRestore(run, run.RNG.Fork(6000), run.Scale(6, 40))

	phase("6-restore")
	run.Extra["bases"] = len(bases)
	// observations outside the property's verdict (reported, not violations)
	if left, err := os.ReadDir(tmp); err == nil {
		run.Extra["observation:temp-files-left-behind-by-failed-snapshot.Read"] = len(left)
	}
	run.Finish()
}
