//go:build verif

package main

import (
	"crypto/ecdsa"
	"crypto/elliptic"
	"crypto/rand"
	"crypto/x509"
	"encoding/pem"
	"fmt"
	"net/url"

	"github.com/hashicorp/consul/acl"
	"github.com/hashicorp/consul/agent/connect"
	"github.com/hashicorp/consul/agent/consul"
	"github.com/hashicorp/consul/agent/structs"
)

func main() {
	d := consul.VerifNewCADelegate12("dc1", 10)
	d.OnCA = func(idx uint64, req *structs.CARequest, resp interface{}) {
		fmt.Printf("CA %d %s -> %v\n", idx, req.Op, resp)
	}
	m := consul.VerifNewCAManager12(d, "dc1", &structs.CAConfiguration{ClusterID: "11111111-2222-3333-4444-555555555555", Provider: "consul",
		Config: map[string]interface{}{"CSRMaxPerSecond": 0}})
	if err := m.Initialize(); err != nil {
		panic(err)
	}
	key, _ := ecdsa.GenerateKey(elliptic.P256(), rand.Reader)
	for _, s := range []string{
		"spiffe://11111111-2222-3333-4444-555555555555.consul/ns/default/dc/dc1/svc/web",
		"spiffe://foreign.consul/agent/client/dc/dc1/id/node1",
		"spiffe://foreign.consul/agent/client/dc/dc9/id/node1",
		"spiffe://foreign.consul/agent/client/dc/dc1/id/node%41",
		"spiffe://foreign.consul/agent/client/dc/dc1/id/node1?x=1",
		"spiffe://foreign.consul/agent/client/dc/dc1/id/a%2Fb",
		"spiffe://foreign.consul/ap/foo/agent/client/dc/dc1/id/node1",
		"spiffe://11111111-2222-3333-4444-555555555555.consul/ns/default/dc/dc1/svc/we%62",
		"spiffe://11111111-2222-3333-4444-555555555555.consul/ns/default/dc/dc1/svc/web#frag",
	} {
		u, err := url.Parse(s)
		if err != nil {
			fmt.Println("parse", s, err)
			continue
		}
		tmpl := &x509.CertificateRequest{URIs: []*url.URL{u}, SignatureAlgorithm: x509.ECDSAWithSHA256}
		der, err := x509.CreateCertificateRequest(rand.Reader, tmpl, key)
		if err != nil {
			fmt.Println("createcsr", s, err)
			continue
		}
		csr, err := connect.ParseCSR(string(pem.EncodeToMemory(&pem.Block{Type: "CERTIFICATE REQUEST", Bytes: der})))
		if err != nil {
			fmt.Println("parsecsr", s, err)
			continue
		}
		c, err := m.AuthorizeAndSignCertificate(csr, acl.ManageAll())
		if err != nil {
			fmt.Println("ERR", s, err)
			continue
		}
		cert, _ := connect.ParseCert(c.CertPEM)
		fmt.Println("OK ", s, "->", cert.URIs[0].String(), cert.SerialNumber, cert.IsCA)
		id, err := connect.ParseCertURI(cert.URIs[0])
		fmt.Printf("     reparsed: %#v %v\n", id, err)
	}
}
