//go:build verif

// C12 harness: the Connect CA issues only authorized, verifiable identities.
//
// Two kinds of sessions, both over a REAL FSM / state store (consul.VerifCADelegate12 applies
// every CA request through fsm.Apply with msgpack encoding, as Server.raftApplyMsgpack does):
//
//	manager sessions  a real CAManager (primary datacenter, real Consul CA provider) is
//	                  initialized, then CSRs built with x509.CreateCertificateRequest and parsed
//	                  with connect.ParseCSR (the path of the ConnectCA.Sign endpoint) are given to
//	                  the real CAManager.AuthorizeAndSignCertificate together with real
//	                  acl.Authorizers compiled from generated policies; interleaved with root
//	                  rotations (UpdateConfiguration: new key, cross-signing, rotating back to an
//	                  earlier root), config-only updates, failed conditional updates, direct
//	                  serial increments and cluster-id changes.
//	secondary sessions (ext.go) a primary and a secondary datacenter side by side (the model runs
//	                  two systems, `swap` switches): the secondary's real CAManager gets its
//	                  intermediate from the primary's real provider (secondaryInitialize,
//	                  secondaryUpdateRoots after primary rotations, forced renewals, config updates,
//	                  leader changes, refusing primary), CSRs are signed in both datacenters.
//	render session (ext.go)   id.URI() / ParseCertURI / CanSign on generated identities.
//	manager sessions also: rate-limit / concurrency-limit configs, clock past root expiry, leader
//	                  change (new CAManager over the same store), FSM snapshot+restore, change of
//	                  provider type; every conditional roots write the leader prepares is compared
//	                  with the model's rotationRoots (`rotreq`).
//	bare sessions     CA command histories (set-config / set-roots / set-roots-config / provider
//	                  state / serial) with matching and stale indexes, colliding root ids, zero or
//	                  several active roots, straight into the FSM.
//
// Lines (see lean/CV/Engine/C12.lean):  new / ca / mgr / sign, one canonical answer each, which the
// compiled Lean model (CV.Ca) must reproduce.
//
// Monitors (independent of the Lean model) — sign: exactly one URI and no e-mail in the request,
// issued URI parses (real ParseCertURI) to a supported identity equal to the requested one, the real
// authorizer grants write on exactly that scope, datacenter and trust domain are the cluster's,
// IsCA=false, serial never seen before, the certificate verifies (crypto/x509) against the root
// the state store marks active, SANs equal the request's.  CA tables: empty or exactly one
// active root after every command, roots = old or requested set, applied iff index matched,
// roots+config both or neither, serials strictly fresh.
package main

import (
	"crypto/ecdsa"
	"crypto/elliptic"
	"crypto/rand"
	"crypto/sha256"
	"crypto/x509"
	"crypto/x509/pkix"
	"encoding/hex"
	"encoding/pem"
	"fmt"
	"net"
	"net/url"
	"sort"
	"strings"
	"time"

	"github.com/hashicorp/consul/acl"
	"github.com/hashicorp/consul/agent/connect"
	"github.com/hashicorp/consul/agent/connect/ca"
	"github.com/hashicorp/consul/agent/consul"
	"github.com/hashicorp/consul/agent/consul/state"
	"github.com/hashicorp/consul/agent/structs"
	"github.com/hashicorp/consul/internal/verifharness/hx"
)

const localDC = "dc1"

var clusterIDs = []string{"11111111-2222-3333-4444-555555555555", "AbCdEf01-2222-3333-4444-555555555555"}

var (
	csrKeys []*ecdsa.PrivateKey
	caKeys  []string // PEM private keys for the Consul CA provider
)

func initKeys() {
	for i := 0; i < 3; i++ {
		k, err := ecdsa.GenerateKey(elliptic.P256(), rand.Reader)
		if err != nil {
			panic(err)
		}
		csrKeys = append(csrKeys, k)
	}
	for i := 0; i < 4; i++ {
		_, p, err := connect.GeneratePrivateKey()
		if err != nil {
			panic(err)
		}
		caKeys = append(caKeys, p)
	}
}

// ---------------------------------------------------------------- session

type rootRow struct {
	id          string
	active      bool
	create, mod uint64
}
type cfgRow struct {
	provider, cluster, tag string
	create, mod            uint64
}
type provRow struct {
	id          string
	create, mod uint64
}
type caSnap struct {
	roots     []rootRow
	ridx      uint64
	cfg       *cfgRow
	provs     []provRow
	pidx      uint64
	ser       int64 // -1: none
	clusterID string
}

type sess struct {
	run     *hx.Run
	d       *consul.VerifCADelegate12
	m       *consul.CAManager
	bare    bool
	labels  map[string]string
	nlab    map[string]int
	inSign  bool
	signOps []string
	serials map[uint64]bool
	maxSer  uint64
	ops     []string
	prev    caSnap
	curKey  int
	conf    map[string]interface{}
	rootPEM map[int]string // CA key index -> root cert PEM generated for it

	dc      string    // the datacenter of this session's servers
	primary *sess     // secondary-datacenter session: the session of the primary datacenter
	slot    int       // which of the engine's two systems the lines of this session go to
	shared  *[]string // op log shared by a primary and its secondary session (replay needs both)
	// CSR rate limiter bookkeeping (what the model is told): key of the CSRMaxPerSecond value
	// the stored config carries, as last reported with a `rate` line
	rateTold   string
	prov       string // provider name of the installed configuration ("" = consul)
	nextProv   string // provider name the next update asks for
	refuse     bool   // the primary refuses to sign the secondary's intermediate CSR
	altN       int
	clockAhead bool
	// secondary: the last exchange with the primary gave this datacenter a signing certificate
	// under the primary's active root
	synced bool

	// deep fingerprint of the root and config rows right after the last applied CA command
	lastDeep string
	// fault injection into the manager's raft-apply entry point
	faultArmed bool
	faultFinal bool // hit the conditional roots(+config) write instead of position faultPos
	faultPos   int
	faultMode  string // error | false | cas-loser
	caCount    int
}

func newSess(run *hx.Run, bare bool, start uint64) *sess {
	return newSessIn(run, bare, start, localDC, 0)
}

// curSlot: which of the engine's two systems the next line goes to (`swap` exchanges them)
var curSlot = 0

func newSessIn(run *hx.Run, bare bool, start uint64, dc string, slot int) *sess {
	s := &sess{run: run, bare: bare, labels: map[string]string{}, nlab: map[string]int{}, serials: map[uint64]bool{}, rootPEM: map[int]string{},
		dc: dc, slot: slot, rateTold: "none"}
	s.d = consul.VerifNewCADelegate12(dc, start)
	s.d.OnCA = s.onCA
	s.d.PreCA = s.preCA
	s.line("new "+hx.EncS(dc), "ok")
	s.prev = s.snap()
	s.lastDeep = s.deep()
	return s
}

func (s *sess) line(op, out string) {
	if s.slot != curSlot {
		curSlot = s.slot
		s.logOp("swap")
		s.run.Line("swap", "ok")
	}
	s.logOp(op)
	s.run.Line(op, out)
}

func (s *sess) logOp(op string) {
	s.ops = append(s.ops, op)
	if s.shared != nil {
		*s.shared = append(*s.shared, op)
	}
}

func (s *sess) replay() []string {
	if s.shared != nil {
		return append([]string(nil), *s.shared...)
	}
	return append([]string(nil), s.ops...)
}

var violCount = map[string]int{}

// violate records at most three witnesses per signature (the recorder keeps 50 in total), the
// rest is only counted in the histogram.
func (s *sess) violate(sig, desc string) {
	violCount[sig]++
	if violCount[sig] > 3 {
		s.run.Tag("violation-repeat:" + sig)
		return
	}
	s.run.Violate(sig, desc, s.replay())
}

// label maps run-specific values (certificate fingerprints, provider ids, config digests) to
// stable names so that the operation lines depend on the seed only.
func (s *sess) label(kind, v string) string {
	if s.bare || v == "" {
		return v
	}
	k := kind + ":" + v
	if l, ok := s.labels[k]; ok {
		return l
	}
	s.nlab[kind]++
	l := fmt.Sprintf("%s%d", kind, s.nlab[kind])
	s.labels[k] = l
	return l
}

func (s *sess) tagOf(c map[string]interface{}) string {
	if t, ok := c["tag"]; ok && len(c) == 1 {
		return fmt.Sprint(t)
	}
	keys := make([]string, 0, len(c))
	for k := range c {
		keys = append(keys, k)
	}
	sort.Strings(keys)
	h := sha256.New()
	for _, k := range keys {
		fmt.Fprintf(h, "%s=%v;", k, c[k])
	}
	return s.label("t", hex.EncodeToString(h.Sum(nil))[:16])
}

func (s *sess) snap() caSnap {
	st := s.d.State()
	sn := st.Snapshot()
	defer sn.Close()
	var c caSnap
	c.ser = -1
	roots, err := sn.CARoots()
	if err != nil {
		panic(err)
	}
	for _, r := range roots {
		c.roots = append(c.roots, rootRow{s.label("r", r.ID), r.Active, r.CreateIndex, r.ModifyIndex})
	}
	sort.Slice(c.roots, func(i, j int) bool { return c.roots[i].id < c.roots[j].id })
	cfg, err := sn.CAConfig()
	if err != nil {
		panic(err)
	}
	if cfg != nil {
		c.cfg = &cfgRow{cfg.Provider, cfg.ClusterID, s.tagOf(cfg.Config), cfg.CreateIndex, cfg.ModifyIndex}
		c.clusterID = cfg.ClusterID
	}
	provs, err := sn.CAProviderState()
	if err != nil {
		panic(err)
	}
	for _, p := range provs {
		c.provs = append(c.provs, provRow{s.label("p", p.ID), p.CreateIndex, p.ModifyIndex})
	}
	sort.Slice(c.provs, func(i, j int) bool { return c.provs[i].id < c.provs[j].id })
	it, err := sn.Indexes()
	if err != nil {
		panic(err)
	}
	for v := it.Next(); v != nil; v = it.Next() {
		e := v.(*state.IndexEntry)
		switch e.Key {
		case "connect-ca-roots":
			c.ridx = e.Value
		case "connect-ca-builtin":
			c.pidx = e.Value
		case "connect-ca-builtin-serial":
			c.ser = int64(e.Value)
		}
	}
	return c
}

func (c caSnap) String() string {
	rs := make([]string, len(c.roots))
	for i, r := range c.roots {
		rs[i] = fmt.Sprintf("%s;%s;%d;%d", hx.EncS(r.id), hx.EncBool(r.active), r.create, r.mod)
	}
	cfg := "none"
	if c.cfg != nil {
		cfg = fmt.Sprintf("%s;%s;%s;%d;%d", hx.EncS(c.cfg.provider), hx.EncS(c.cfg.cluster), hx.EncS(c.cfg.tag), c.cfg.create, c.cfg.mod)
	}
	ps := make([]string, len(c.provs))
	for i, p := range c.provs {
		ps[i] = fmt.Sprintf("%s;%d;%d", hx.EncS(p.id), p.create, p.mod)
	}
	ser := "none"
	if c.ser >= 0 {
		ser = fmt.Sprint(c.ser)
	}
	return fmt.Sprintf("roots=%s ridx=%d cfg=%s pidx=%d provs=%s ser=%s", hx.EncList(rs), c.ridx, cfg, c.pidx, hx.EncList(ps), ser)
}

func (c caSnap) rootsString() string {
	return c.String()[:strings.Index(c.String(), " cfg=")]
}
func (c caSnap) cfgString() string {
	if c.cfg == nil {
		return "none"
	}
	return fmt.Sprintf("%+v", *c.cfg)
}

// deep renders every field of the objects the store holds for roots and config (the very
// objects a reader gets pointers to), so that a change made through such a pointer — outside any
// transaction — is visible.
func (s *sess) deep() string {
	st := s.d.State()
	_, roots, err := st.CARoots(nil)
	if err != nil {
		panic(err)
	}
	var sb strings.Builder
	for _, r := range roots {
		fmt.Fprintf(&sb, "%+v\n", *r)
	}
	_, cfg, err := st.CAConfig(nil)
	if err != nil {
		panic(err)
	}
	if cfg != nil {
		fmt.Fprintf(&sb, "cfg %+v\n", *cfg)
	}
	return sb.String()
}

// checkStore is run before every sign, after every manager operation (successful or failed)
// and inside the delegate's apply hook (request prepared, nothing committed yet):
//   - the root and config rows are exactly what the last applied command left (no write through
//     pointers returned by read-only queries, no change outside a Raft apply),
//   - the root table is empty or has exactly one active root,
//   - (settled only) the root the leader signs with is the one the store marks active.
func (s *sess) checkStore(when string, settled bool) {
	cur := s.snap()
	nact, pact := 0, 0
	for _, r := range cur.roots {
		if r.active {
			nact++
		}
	}
	for _, r := range s.prev.roots {
		if r.active {
			pact++
		}
	}
	if d := s.deep(); d != s.lastDeep {
		sig := "ca:ca-tables-changed-outside-raft-apply"
		if pact == 1 && nact == 0 && len(cur.roots) == len(s.prev.roots) {
			sig = "ca:active-root-deactivated-in-store-outside-raft-apply"
		}
		s.violate(sig, fmt.Sprintf("%s: last applied command left [%s], the store now holds [%s]", when, s.prev.rootsString(), cur.rootsString()))
		s.lastDeep = d
	}
	if len(cur.roots) > 0 && nact != 1 {
		s.violate(fmt.Sprintf("ca:store-has-%d-active-roots", nact), fmt.Sprintf("%s: %s", when, cur.rootsString()))
	}
	if settled && s.m != nil {
		mr := consul.VerifProviderRoot12(s.m)
		_, active, _ := s.d.State().CARootActive(nil)
		ar := ""
		if active != nil {
			ar = active.ID
		}
		if mr != "" && mr != ar {
			s.violate("ca:leader-signs-with-a-root-the-store-does-not-mark-active", fmt.Sprintf("%s: manager root %s, store active root %q", when, s.label("r", mr), s.label("r", ar)))
		}
	}
}

// preCA: the manager (or its provider) prepared a CA request and asks for it to be applied.
func (s *sess) preCA(req *structs.CARequest) (interface{}, error, bool) {
	if s.inSign {
		return nil, nil, false
	}
	name := opName(req.Op)
	s.checkStore("request "+name+" prepared, not applied yet", false)
	if name == "setboth" || name == "setroots" {
		s.rotreq(req)
	}
	if !s.faultArmed {
		return nil, nil, false
	}
	hit := s.caCount == s.faultPos
	if s.faultFinal {
		hit = name == "setboth" || name == "setroots"
	}
	s.caCount++
	if !hit {
		return nil, nil, false
	}
	s.faultArmed = false
	mode := s.faultMode
	if mode != "error" && name != "setboth" && name != "setroots" {
		mode = "error"
	}
	s.run.Tag("fault:" + mode + ":" + name)
	switch mode {
	case "false":
		return false, nil, true
	case "cas-loser":
		// a concurrent writer (e.g. the root pruning routine) replaces the root set first
		idx, roots, _ := s.d.State().CARoots(nil)
		var rs []*structs.CARoot
		for _, rt := range roots {
			c := *rt
			rs = append(rs, &c)
		}
		s.d.ApplyCARaw(&structs.CARequest{Op: structs.CAOpSetRoots, Index: idx, Roots: rs})
		return nil, nil, false
	}
	return nil, fmt.Errorf("verif: raft apply failed (leadership lost)"), true
}

// arm chooses a fault for the next manager operation.
func (s *sess) arm(r *hx.RNG) {
	s.faultArmed, s.caCount = true, 0
	s.faultFinal = r.Chance(60)
	s.faultPos = r.Intn(6)
	s.faultMode = hx.Pick(r, []string{"error", "false", "cas-loser"})
}

func opName(op structs.CAOp) string {
	switch op {
	case structs.CAOpSetConfig:
		return "setconfig"
	case structs.CAOpSetRoots:
		return "setroots"
	case structs.CAOpSetProviderState:
		return "setprov"
	case structs.CAOpDeleteProviderState:
		return "delprov"
	case structs.CAOpSetRootsAndConfig:
		return "setboth"
	case structs.CAOpIncrementProviderSerialNumber:
		return "incserial"
	}
	return "badop"
}

func (s *sess) encRoots(rs []*structs.CARoot) string {
	t := make([]string, len(rs))
	for i, r := range rs {
		t[i] = hx.EncS(s.label("r", r.ID)) + ";" + hx.EncBool(r.Active)
	}
	return hx.EncList(t)
}

func (s *sess) fmtCA(idx uint64, req *structs.CARequest) string {
	p := fmt.Sprintf("ca %d ", idx)
	switch opName(req.Op) {
	case "setconfig":
		c := req.Config
		return p + fmt.Sprintf("setconfig %d %s %s %s", c.ModifyIndex, hx.EncS(c.Provider), hx.EncS(c.ClusterID), hx.EncS(s.tagOf(c.Config)))
	case "setroots":
		return p + fmt.Sprintf("setroots %d %s", req.Index, s.encRoots(req.Roots))
	case "setprov":
		return p + "setprov " + hx.EncS(s.label("p", req.ProviderState.ID))
	case "delprov":
		return p + "delprov " + hx.EncS(s.label("p", req.ProviderState.ID))
	case "setboth":
		c := req.Config
		return p + fmt.Sprintf("setboth %d %s %d %s %s %s", req.Index, s.encRoots(req.Roots), c.ModifyIndex, hx.EncS(c.Provider), hx.EncS(c.ClusterID), hx.EncS(s.tagOf(c.Config)))
	case "incserial":
		return p + "incserial"
	}
	return p + "badop"
}

func fmtRes(resp interface{}) string {
	switch v := resp.(type) {
	case nil:
		return "nil"
	case bool:
		if v {
			return "true"
		}
		return "false"
	case uint64:
		return fmt.Sprintf("n=%d", v)
	case error:
		m := v.Error()
		switch {
		case strings.Contains(m, "exactly one active CA"):
			return "err:active-count"
		case v == state.ErrMissingCARootID || strings.Contains(m, "Missing CA root ID"):
			return "err:missing-id"
		case strings.Contains(m, "ModifyIndex did not match existing"):
			return "err:cas-mismatch"
		case strings.Contains(m, "Invalid CA operation"):
			return "err:invalid-op"
		}
		return "err:other:" + hx.EncS(m)
	}
	return fmt.Sprintf("unknown:%T", resp)
}

func (s *sess) noteSerial(n uint64, what string) {
	if s.serials[n] || n <= s.maxSer {
		s.violate("ca:serial-reused-or-not-increasing", fmt.Sprintf("%s got serial %d, largest handed out before is %d (seen before: %v)", what, n, s.maxSer, s.serials[n]))
	}
	s.serials[n] = true
	if n > s.maxSer {
		s.maxSer = n
	}
}

func (s *sess) onCA(idx uint64, req *structs.CARequest, resp interface{}) {
	name := opName(req.Op)
	if s.inSign {
		s.signOps = append(s.signOps, name)
		return
	}
	s.run.Tag("ca:" + name)
	cur := s.snap()
	res := fmtRes(resp)
	s.run.Tag("ca-res:" + name + ":" + strings.SplitN(res, "=", 2)[0])
	s.line(s.fmtCA(idx, req), res+" | "+cur.String())
	s.monitorCA(s.prev, cur, idx, req, resp, name)
	s.prev = cur
	s.lastDeep = s.deep()
}

func (s *sess) monitorCA(prev, cur caSnap, idx uint64, req *structs.CARequest, resp interface{}, name string) {
	// at all times: no roots at all (CA not bootstrapped) or exactly one active root
	nact := 0
	for _, r := range cur.roots {
		if r.active {
			nact++
		}
	}
	pact := 0
	for _, r := range prev.roots {
		if r.active {
			pact++
		}
	}
	prevOK := len(prev.roots) == 0 || pact == 1
	if len(cur.roots) > 0 && nact != 1 && (prevOK || cur.rootsString() != prev.rootsString()) {
		dup := false
		seen := map[string]bool{}
		for _, r := range req.Roots {
			if seen[r.ID] {
				dup = true
			}
			seen[r.ID] = true
		}
		sig := fmt.Sprintf("ca:%s-leaves-%d-active-roots", name, nact)
		if dup {
			sig = fmt.Sprintf("ca:%s-duplicate-root-id-leaves-%d-active-roots", name, nact)
		}
		s.violate(sig, fmt.Sprintf("after %s at index %d the root table is %s", name, idx, cur.rootsString()))
	}
	applied, isBool := resp.(bool)
	_, isErr := resp.(error)
	switch name {
	case "setroots", "setboth":
		if !(isBool && applied) {
			if cur.String() != prev.String() {
				s.violate("ca:"+name+"-not-applied-but-state-changed", fmt.Sprintf("response %v but tables went from [%s] to [%s]", resp, prev, cur))
			}
			break
		}
		if prev.ridx != req.Index {
			s.violate("ca:"+name+"-applied-with-stale-index", fmt.Sprintf("roots index was %d, request carried %d, response true", prev.ridx, req.Index))
		}
		want := map[string]bool{}
		for _, r := range req.Roots {
			want[s.label("r", r.ID)] = true
		}
		ok := cur.ridx == idx && len(cur.roots) == len(want)
		for _, r := range cur.roots {
			if !want[r.id] || r.mod != idx {
				ok = false
			}
		}
		if !ok {
			s.violate("ca:"+name+"-applied-but-roots-are-not-the-requested-set", fmt.Sprintf("requested %s, table is %s", s.encRoots(req.Roots), cur.rootsString()))
		}
		if name == "setboth" {
			pm := uint64(0)
			if prev.cfg != nil {
				pm = prev.cfg.mod
			}
			if cur.cfg == nil || cur.cfg.mod != idx || pm != req.Config.ModifyIndex {
				s.violate("ca:setboth-roots-replaced-without-config", fmt.Sprintf("roots replaced at %d but config is %s (was %s, request cas %d)", idx, cur.cfgString(), prev.cfgString(), req.Config.ModifyIndex))
			}
		} else if cur.cfgString() != prev.cfgString() {
			s.violate("ca:setroots-changed-config", "config changed by set-roots")
		}
	case "setconfig":
		if cur.rootsString() != prev.rootsString() {
			s.violate("ca:setconfig-changed-roots", "roots changed by set-config")
		}
		if isErr {
			if cur.String() != prev.String() {
				s.violate("ca:setconfig-failed-but-state-changed", fmt.Sprintf("[%s] -> [%s]", prev, cur))
			}
		} else {
			pm := uint64(0)
			if prev.cfg != nil {
				pm = prev.cfg.mod
			}
			if cur.cfg == nil || cur.cfg.mod != idx || (req.Config.ModifyIndex != 0 && pm != req.Config.ModifyIndex) {
				s.violate("ca:setconfig-applied-with-stale-index", fmt.Sprintf("config was %s, request cas %d, now %s", prev.cfgString(), req.Config.ModifyIndex, cur.cfgString()))
			}
		}
	case "incserial":
		if n, ok := resp.(uint64); ok {
			s.noteSerial(n, "increment-provider-serial")
		}
		if cur.rootsString() != prev.rootsString() || cur.cfgString() != prev.cfgString() {
			s.violate("ca:incserial-changed-roots-or-config", "")
		}
	default:
		if cur.rootsString() != prev.rootsString() || cur.cfgString() != prev.cfgString() {
			s.violate("ca:"+name+"-changed-roots-or-config", "")
		}
	}
}

func (s *sess) trustDomain() string {
	_, cfg, err := s.d.State().CAConfig(nil)
	if err != nil || cfg == nil {
		return ""
	}
	return strings.ToLower(cfg.ClusterID + ".consul")
}

func (s *sess) mgrLine() {
	id := consul.VerifProviderRoot12(s.m)
	var l []string
	if id != "" {
		l = append(l, hx.EncS(s.label("r", id)))
	}
	pv := "none"
	if p := consul.VerifProviderID12(s.m); p != "" {
		pv = hx.EncS(s.label("p", p))
	}
	k, c, m := s.provFlags()
	s.line("mgr "+pv+" "+hx.EncBool(k)+" "+hx.EncBool(c)+" "+hx.EncBool(m), "active="+hx.EncList(l))
}

// ---------------------------------------------------------------- generators: URIs

type wpick struct {
	w int
	v string
}

func pickW(r *hx.RNG, ps []wpick) string {
	t := 0
	for _, p := range ps {
		t += p.w
	}
	n := r.Intn(t)
	for _, p := range ps {
		if n < p.w {
			return p.v
		}
		n -= p.w
	}
	return ps[0].v
}

var nameSegs = []string{"web", "web", "web", "api", "Web", "%77eb", "we%62", "web%2Fapi", "a%2Fb", "*", "%2A", "web%", "%zz", "%",
	"a+b", "a%20b", "%C3%A9", "%00", "%ff", "web;x", "a:b", "a@b", "~x", "web.v1", "a%25b", "node1", "node1", "Node1", "node%31", "n%2Fid%2Fx",
	"%2577eb", "%2577eb", "%252F", "a%252Fb", "%25252F", "%252577eb", "%2525", "%25", "node%2531", "we%2562"}
var dcSegs = []wpick{{62, "dc1"}, {8, "dc2"}, {5, "DC1"}, {5, "dc%31"}, {4, "d%631"}, {4, "dc1x"}, {4, "dc%2F1"}, {3, "%zz"}, {3, "dc1%2Fid%2Fnode1"}, {2, "*"},
	{4, "%2564c1"}, {3, "dc%2531"}, {2, "%252564c1"}, {2, "dc1%252F"}}
var nsSegs = []wpick{{80, "default"}, {5, "Default"}, {5, "other"}, {6, "def%61ult"}, {4, "%64efault"}, {4, "def%2561ult"}, {2, "%252564efault"}}
var apPfx = []wpick{{72, ""}, {10, "/ap/default"}, {7, "/ap/foo"}, {3, "/ap/DEFAULT"}, {4, "/ap/def%61ult"}, {2, "/ap/%zz"}, {2, "/ap/"}, {3, "/ap/def%2561ult"}}
var sufs = []wpick{{86, ""}, {4, "?x=1"}, {3, "#frag"}, {3, "/"}, {2, "/extra"}, {2, "?"}}
var schemes = []wpick{{91, "spiffe"}, {2, "SPIFFE"}, {3, "https"}, {2, "spiffes"}, {2, ""}}
var junkPaths = []string{"/", "", "/foo", "/ns/default/dc/dc1/svc", "/ns/default/dc/dc1/svc/", "//ns/default/dc/dc1/svc/web",
	"/ns//dc/dc1/svc/web", "/ns/default/dc/dc1/svc/web/id/x", "/agent/client/dc/dc1", "/agent/server/dc/dc1/id/x",
	"/agent/other/dc/dc1/id/x", "/gateway/mesh/dc", "/gateway/terminating/dc/dc1", "/ns/default/dc/dc1/agent/client/dc/dc1/id/n",
	"/NS/default/DC/dc1/SVC/web", "/ns/default/dc/dc1/svc/web%2Fid%2Fx", "/ap/default", "/ns/default/dc/dc1/svc/web/agent/server/dc/dc1",
	"/agent/server/dc/", "/ap/foo/agent/server/dc/dc1"}

func mixCase(r *hx.RNG, s string) string {
	b := []byte(s)
	for i := range b {
		if b[i] >= 'a' && b[i] <= 'z' && r.Chance(40) {
			b[i] -= 32
		}
	}
	return string(b)
}

func genHost(r *hx.RNG, td string) (string, string) {
	switch n := r.Intn(100); {
	case n < 52:
		return td, "host:trust-domain"
	case n < 58:
		return strings.ToUpper(td), "host:trust-domain-upper"
	case n < 63:
		return mixCase(r, td), "host:trust-domain-mixed-case"
	case n < 77:
		return "foreign.consul", "host:foreign"
	case n < 80:
		return "evil-" + td, "host:suffix-of-host-is-trust-domain"
	case n < 83:
		return td + ".evil.com", "host:trust-domain-is-prefix"
	case n < 86:
		return td[:len(td)-1], "host:truncated"
	case n < 89:
		return td + ":8443", "host:with-port"
	case n < 92:
		return "user@" + td, "host:with-userinfo"
	case n < 95:
		return "", "host:empty"
	case n < 97:
		return "consul", "host:tld-only"
	default:
		return "11111111-2222-3333-4444-555555555555.consul", "host:test-cluster-id"
	}
}

// genURI returns one raw URI string and its tags.
func genURI(r *hx.RNG, td string) (string, []string) {
	host, htag := genHost(r, td)
	tags := []string{htag}
	scheme := pickW(r, schemes)
	if scheme != "spiffe" {
		tags = append(tags, "scheme:"+scheme)
	}
	var path, kind string
	ap := pickW(r, apPfx)
	switch n := r.Intn(100); {
	case n < 40:
		kind = "service"
		path = ap + "/ns/" + pickW(r, nsSegs) + "/dc/" + pickW(r, dcSegs) + "/svc/" + hx.Pick(r, nameSegs)
	case n < 66:
		kind = "agent"
		path = ap + "/agent/client/dc/" + pickW(r, dcSegs) + "/id/" + hx.Pick(r, nameSegs)
	case n < 76:
		kind = "gateway"
		path = ap + "/gateway/mesh/dc/" + pickW(r, dcSegs)
	case n < 84:
		kind = "server"
		path = "/agent/server/dc/" + pickW(r, dcSegs)
	case n < 88:
		kind = "signing"
		path = ""
		ap = ""
	default:
		kind = "junk"
		path = hx.Pick(r, junkPaths)
		ap = ""
	}
	tags = append(tags, "uri-kind:"+kind)
	if ap != "" {
		tags = append(tags, "uri:ap-prefix")
	}
	if strings.Contains(path, "%") {
		tags = append(tags, "uri:percent-escape")
	}
	if strings.Contains(strings.ToUpper(path), "%2F") {
		tags = append(tags, "uri:escaped-slash")
	}
	suf := pickW(r, sufs)
	if suf != "" {
		tags = append(tags, "uri:suffix:"+suf[:1])
	}
	s := "//" + host + path + suf
	if scheme != "" {
		s = scheme + ":" + s
	}
	if r.Chance(1) {
		s = "spiffe:opaque-" + host
		tags = append(tags, "uri:opaque")
	}
	return s, tags
}

// ---------------------------------------------------------------- generators: authorizers

var ruleNames = []string{"web", "api", "Web", "web/api", "a/b", "*", "we", "w", "", "node1", "Node1", "n", "a b", "a+b", "a:b", "a@b", "web.v1", "a%b", "~x", "web;x", "default", "dc1"}

type authzGen struct {
	az   acl.Authorizer
	desc string
}

func genAuthz(r *hx.RNG, hints []string) authzGen {
	switch n := r.Intn(100); {
	case n < 10:
		return authzGen{acl.ManageAll(), "manage-all"}
	case n < 14:
		return authzGen{acl.AllowAll(), "allow-all"}
	case n < 19:
		return authzGen{acl.DenyAll(), "deny-all"}
	}
	parent, pd := acl.DenyAll(), "default-deny"
	if r.Chance(12) {
		parent, pd = acl.AllowAll(), "default-allow"
	}
	level := func() string {
		switch n := r.Intn(10); {
		case n < 6:
			return "write"
		case n < 8:
			return "read"
		}
		return "deny"
	}
	name := func() string {
		if len(hints) > 0 && r.Chance(65) {
			h := hx.Pick(r, hints)
			ok := true
			for _, c := range []byte(h) {
				if c < 0x20 || c > 0x7e || c == '"' || c == '\\' || c == '$' {
					ok = false
				}
			}
			if ok {
				return h
			}
		}
		return hx.Pick(r, ruleNames)
	}
	seen := map[string]bool{}
	var sb strings.Builder
	nr := 1 + r.Intn(4)
	for i := 0; i < nr; i++ {
		kind := hx.Pick(r, []string{"service", "service", "service_prefix", "node", "node", "node_prefix"})
		nm := name()
		if strings.HasSuffix(kind, "_prefix") && nm != "" && r.Chance(50) {
			nm = nm[:1+r.Intn(len(nm))]
		}
		if !strings.HasSuffix(kind, "_prefix") && nm == "" {
			nm = "web"
		}
		if seen[kind+"/"+nm] {
			continue
		}
		seen[kind+"/"+nm] = true
		fmt.Fprintf(&sb, "%s %q { policy = %q }\n", kind, nm, level())
	}
	if r.Chance(35) {
		fmt.Fprintf(&sb, "mesh = %q\n", hx.Pick(r, []string{"write", "write", "read"}))
	}
	if r.Chance(20) {
		fmt.Fprintf(&sb, "acl = %q\n", hx.Pick(r, []string{"write", "write", "read"}))
	}
	pol, err := acl.NewPolicyFromSource(sb.String(), nil, nil)
	if err != nil {
		panic(fmt.Sprintf("policy %q: %v", sb.String(), err))
	}
	az, err := acl.NewPolicyAuthorizerWithDefaults(parent, []*acl.Policy{pol}, nil)
	if err != nil {
		panic(err)
	}
	return authzGen{az, pd + " " + strings.ReplaceAll(sb.String(), "\n", "; ")}
}

// ---------------------------------------------------------------- sign

func classify(err error) string {
	m := err.Error()
	switch {
	case acl.IsErrPermissionDenied(err):
		return "acl"
	case strings.HasPrefix(m, "CSR SAN contains an invalid number of URIs"):
		return "uri-count"
	case strings.HasPrefix(m, "CSR SAN does not allow specifying email"):
		return "email"
	case strings.HasPrefix(m, "SPIFFE ID must have 'spiffe' scheme"):
		return "scheme"
	case strings.HasPrefix(m, "Invalid admin partition:"), strings.HasPrefix(m, "Invalid namespace:"),
		strings.HasPrefix(m, "Invalid datacenter:"), strings.HasPrefix(m, "Invalid service:"), strings.HasPrefix(m, "Invalid node:"):
		return "escape"
	case strings.HasPrefix(m, "SPIFFE ID is not in the expected format"):
		return "format"
	case strings.HasPrefix(m, "Non default partition"):
		return "ent-only"
	case strings.HasPrefix(m, "SPIFFE ID in CSR must be a service"):
		return "kind"
	case strings.HasPrefix(m, "SPIFFE ID in CSR from a different datacenter"):
		return "dc"
	case strings.HasPrefix(m, "SPIFFE ID in CSR from a different trust domain"):
		return "trust-domain"
	case err == ca.ErrNotInitialized:
		return "provider-uninit"
	case err == consul.ErrRateLimited:
		return "rate-limited"
	case strings.HasPrefix(m, "root expired:"):
		return "root-expired"
	case strings.HasPrefix(m, "error parsing CA cert:"):
		return "no-signing-cert"
	case strings.HasPrefix(m, "error generating certificate: x509: provided PrivateKey doesn't match parent's PublicKey"):
		return "key-mismatch"
	}
	return "other:" + hx.EncS(m)
}

func idString(id connect.CertURI) string {
	switch v := id.(type) {
	case *connect.SpiffeIDService:
		return fmt.Sprintf("service;%s;%s;%s;%s;%s", hx.EncS(v.Host), hx.EncS(v.Partition), hx.EncS(v.Namespace), hx.EncS(v.Datacenter), hx.EncS(v.Service))
	case *connect.SpiffeIDAgent:
		return fmt.Sprintf("agent;%s;%s;%s;%s", hx.EncS(v.Host), hx.EncS(v.Partition), hx.EncS(v.Datacenter), hx.EncS(v.Agent))
	case *connect.SpiffeIDMeshGateway:
		return fmt.Sprintf("gateway;%s;%s;%s", hx.EncS(v.Host), hx.EncS(v.Partition), hx.EncS(v.Datacenter))
	case *connect.SpiffeIDServer:
		return fmt.Sprintf("server;%s;%s", hx.EncS(v.Host), hx.EncS(v.Datacenter))
	case *connect.SpiffeIDSigning:
		return fmt.Sprintf("signing;%s;%s", hx.EncS(v.ClusterID), hx.EncS(v.Domain))
	}
	return fmt.Sprintf("unknown-%T", id)
}

// indepID / indepParse: an identity parser that shares nothing with connect.ParseCertURI (no
// regular expressions, no RawPath/Path case split): the escaped path (u.EscapedPath(), i.e. what
// is on the wire) is split on '/', keywords are compared literally and every value segment is
// percent-decoded exactly once.  Signing ids and everything else are "not an identity".
type indepID struct{ kind, host, ap, ns, dc, name string }

func (i indepID) String() string {
	switch i.kind {
	case "service":
		return fmt.Sprintf("service;%s;%s;%s;%s;%s", hx.EncS(i.host), hx.EncS(i.ap), hx.EncS(i.ns), hx.EncS(i.dc), hx.EncS(i.name))
	case "agent":
		return fmt.Sprintf("agent;%s;%s;%s;%s", hx.EncS(i.host), hx.EncS(i.ap), hx.EncS(i.dc), hx.EncS(i.name))
	case "gateway":
		return fmt.Sprintf("gateway;%s;%s;%s", hx.EncS(i.host), hx.EncS(i.ap), hx.EncS(i.dc))
	}
	return fmt.Sprintf("server;%s;%s", hx.EncS(i.host), hx.EncS(i.dc))
}
func (i indepID) scope() string {
	switch i.kind {
	case "service":
		return fmt.Sprintf("service/%s/%s/%s/%s", i.ap, i.ns, i.dc, i.name)
	case "agent":
		return fmt.Sprintf("agent/%s/%s", i.dc, i.name)
	case "gateway":
		return fmt.Sprintf("gateway/%s/%s", i.ap, i.dc)
	}
	return "server/" + i.dc
}

func indepParse(u *url.URL) (indepID, bool) {
	id := indepID{host: u.Host, ap: "default"}
	if u.Scheme != "spiffe" {
		return id, false
	}
	segs := strings.Split(u.EscapedPath(), "/")
	if len(segs) < 2 || segs[0] != "" {
		return id, false
	}
	segs = segs[1:]
	val := func(raw string) (string, bool) {
		if raw == "" {
			return "", false
		}
		d, err := url.PathUnescape(raw)
		return d, err == nil
	}
	hadAP := false
	if len(segs) >= 2 && segs[0] == "ap" {
		d, ok := val(segs[1])
		if !ok {
			return id, false
		}
		id.ap, segs, hadAP = d, segs[2:], true
	}
	var ok1, ok2, ok3 bool
	switch {
	case len(segs) == 6 && segs[0] == "ns" && segs[2] == "dc" && segs[4] == "svc":
		id.kind = "service"
		id.ns, ok1 = val(segs[1])
		id.dc, ok2 = val(segs[3])
		id.name, ok3 = val(segs[5])
		return id, ok1 && ok2 && ok3
	case len(segs) == 6 && segs[0] == "agent" && segs[1] == "client" && segs[2] == "dc" && segs[4] == "id":
		id.kind = "agent"
		id.dc, ok1 = val(segs[3])
		id.name, ok2 = val(segs[5])
		return id, ok1 && ok2
	case len(segs) == 4 && segs[0] == "gateway" && segs[1] == "mesh" && segs[2] == "dc":
		id.kind = "gateway"
		id.dc, ok1 = val(segs[3])
		return id, ok1
	case len(segs) == 4 && !hadAP && segs[0] == "agent" && segs[1] == "server" && segs[2] == "dc":
		id.kind = "server"
		id.dc, ok1 = val(segs[3])
		return id, ok1
	}
	return id, false
}

// parserDisagreement compares the real ParseCertURI with the independent parser on one URI.
func parserDisagreement(u *url.URL) string {
	real, rerr := connect.ParseCertURI(u)
	realOK := rerr == nil
	if _, signing := real.(*connect.SpiffeIDSigning); signing {
		realOK = false
	}
	ind, indOK := indepParse(u)
	switch {
	case realOK && !indOK:
		return fmt.Sprintf("ParseCertURI says %s, the URI is not an identity when each segment is decoded once", idString(real))
	case !realOK && indOK:
		return fmt.Sprintf("ParseCertURI rejects it (%v), decoded once it is %s", rerr, ind)
	case realOK && idString(real) != ind.String():
		return fmt.Sprintf("ParseCertURI says %s, decoded once it is %s", idString(real), ind)
	}
	return ""
}

// identity without the host: what must survive from the request into the certificate
func idScope(id connect.CertURI) string {
	switch v := id.(type) {
	case *connect.SpiffeIDService:
		return fmt.Sprintf("service/%s/%s/%s/%s", v.Partition, v.Namespace, v.Datacenter, v.Service)
	case *connect.SpiffeIDAgent:
		return fmt.Sprintf("agent/%s/%s", v.Datacenter, v.Agent)
	case *connect.SpiffeIDMeshGateway:
		return fmt.Sprintf("gateway/%s/%s", v.Partition, v.Datacenter)
	case *connect.SpiffeIDServer:
		return fmt.Sprintf("server/%s", v.Datacenter)
	}
	return fmt.Sprintf("other/%T", id)
}

type csrSpec struct {
	uris   []string
	emails []string
	dns    []string
	ips    []net.IP
	caExt  bool
	cn     string
	// built by connect.CreateCSR (the function agents use) from this identity instead of the
	// hand-made template
	viaCreateCSR connect.CertURI
}

func ipStrings(ips []net.IP) []string {
	t := make([]string, len(ips))
	for i, ip := range ips {
		t[i] = ip.String()
	}
	return t
}

// doSign runs one CSR through the real signing path; returns false when the CSR could not be built.
func (s *sess) doSign(r *hx.RNG, spec csrSpec, ag authzGen, tags []string) bool {
	var us []*url.URL
	for _, raw := range spec.uris {
		u, err := url.Parse(raw)
		if err != nil {
			s.run.Tag("csr:uri-rejected-by-url.Parse")
			return false
		}
		us = append(us, u)
	}
	tmpl := &x509.CertificateRequest{URIs: us, DNSNames: spec.dns, IPAddresses: spec.ips, EmailAddresses: spec.emails,
		SignatureAlgorithm: x509.ECDSAWithSHA256}
	if spec.cn != "" {
		tmpl.Subject = pkix.Name{CommonName: spec.cn}
	}
	if spec.caExt {
		ext, err := connect.CreateCAExtension()
		if err != nil {
			panic(err)
		}
		tmpl.ExtraExtensions = []pkix.Extension{ext}
	}
	var csrPEM string
	if spec.viaCreateCSR != nil {
		p, err := connect.CreateCSR(spec.viaCreateCSR, hx.Pick(r, csrKeys), spec.dns, spec.ips)
		if err != nil {
			s.run.Tag("csr:rejected-by-connect.CreateCSR")
			return false
		}
		csrPEM = p
		s.run.Tag("csr:built-by-connect.CreateCSR")
	} else {
		der, err := x509.CreateCertificateRequest(rand.Reader, tmpl, hx.Pick(r, csrKeys))
		if err != nil {
			s.run.Tag("csr:rejected-by-x509.CreateCertificateRequest")
			return false
		}
		csrPEM = string(pem.EncodeToMemory(&pem.Block{Type: "CERTIFICATE REQUEST", Bytes: der}))
	}
	csr, err := connect.ParseCSR(csrPEM)
	if err != nil {
		s.run.Tag("csr:rejected-by-connect.ParseCSR")
		return false
	}
	for _, t := range tags {
		s.run.Tag(t)
	}
	s.run.Tag(fmt.Sprintf("csr:uris=%d", len(csr.URIs)))
	if len(csr.EmailAddresses) > 0 {
		s.run.Tag("csr:email-san")
	}
	if len(csr.DNSNames) > 0 {
		s.run.Tag("csr:dns-san")
	}
	if len(csr.IPAddresses) > 0 {
		s.run.Tag("csr:ip-san")
	}
	if spec.caExt {
		s.run.Tag("csr:ca-basic-constraints-extension")
	}

	// what the request carried (SignCertificate may replace csr.URIs)
	reqURIs := append([]*url.URL(nil), csr.URIs...)
	reqDNS := append([]string(nil), csr.DNSNames...)
	reqIPs := ipStrings(csr.IPAddresses)
	nEmails := len(csr.EmailAddresses)

	// authorizer table over every name the URIs could denote
	cand := map[string]bool{}
	var ut []string
	for _, u := range reqURIs {
		p := u.Path
		if u.RawPath != "" {
			p = u.RawPath
		}
		for _, seg := range strings.Split(p, "/") {
			cand[seg] = true
			if d, err := url.PathUnescape(seg); err == nil {
				cand[d] = true
				if d2, err := url.PathUnescape(d); err == nil {
					cand[d2] = true
				}
			}
		}
		ut = append(ut, strings.Join([]string{hx.EncS(u.Scheme), hx.EncS(u.Host), hx.EncS(u.Path), hx.EncS(u.RawPath), hx.EncS(u.String())}, ";"))
	}
	names := make([]string, 0, len(cand))
	for n := range cand {
		names = append(names, n)
	}
	sort.Strings(names)
	var st, nt []string
	for _, n := range names {
		st = append(st, hx.EncS(n)+";"+hx.EncBool(ag.az.ServiceWrite(n, nil) == acl.Allow))
		nt = append(nt, hx.EncS(n)+";"+hx.EncBool(ag.az.NodeWrite(n, nil) == acl.Allow))
	}
	mesh := ag.az.MeshWrite(nil) == acl.Allow
	aclw := ag.az.ACLWrite(nil) == acl.Allow
	op := fmt.Sprintf("sign %s %s %s %s %s %d %s %s", hx.EncBool(mesh), hx.EncBool(aclw), hx.EncList(st), hx.EncList(nt),
		hx.EncList(ut), nEmails, hx.EncSList(reqDNS), hx.EncSList(reqIPs))

	// reported right after the sign line is written, so that the replay ends with the failing CSR
	var deferred [][2]string
	for _, u := range reqURIs {
		if why := parserDisagreement(u); why != "" {
			deferred = append(deferred, [2]string{"ca:ParseCertURI-disagrees-with-independent-parse", fmt.Sprintf("CSR URI %s: %s", u, why)})
		}
	}
	flush := func() {
		for _, d := range deferred {
			s.violate(d[0], d[1])
		}
		deferred = nil
	}
	s.tellRate()
	td := s.trustDomain()
	s.inSign, s.signOps = true, nil
	var issued *structs.IssuedCert
	func() {
		defer func() {
			if p := recover(); p != nil {
				err = fmt.Errorf("panic: %v", p)
			}
		}()
		issued, err = s.m.AuthorizeAndSignCertificate(csr, ag.az)
	}()
	s.inSign = false
	caops := hx.EncList(s.signOps)

	if err != nil {
		e := classify(err)
		s.run.Tag("sign:err:" + strings.SplitN(e, ":", 2)[0])
		s.line(op, "err "+e+" caops="+caops)
		flush()
		s.run.Case(op, e != "format" && e != "uri-count")
		if cur := s.snap(); cur.String() != s.prev.String() {
			// a rejected request may not change the CA tables beyond the serial counter
			if cur.rootsString() != s.prev.rootsString() || cur.cfgString() != s.prev.cfgString() {
				s.violate("ca:rejected-csr-changed-ca-tables", fmt.Sprintf("[%s] -> [%s]", s.prev, cur))
			}
			s.prev = cur
		}
		return true
	}
	s.run.Tag("sign:ok")
	s.run.Case(op, true)
	leaf, perr := connect.ParseCert(issued.CertPEM)
	if perr != nil {
		s.line(op, "ok unparseable-cert caops="+caops)
		flush()
		s.violate("ca:issued-certificate-does-not-parse", perr.Error())
		return true
	}
	var ids, curis []string
	for _, u := range leaf.URIs {
		curis = append(curis, hx.EncS(u.String()))
		if id, err := connect.ParseCertURI(u); err == nil {
			ids = append(ids, idString(id))
		} else {
			ids = append(ids, "unparseable")
		}
	}
	// which stored root signed it
	_, roots, _ := s.d.State().CARoots(nil)
	// (two roots generated for the same private key both verify it: prefer the active one)
	// the chain is judged with what the reply ships (leaf + appended intermediates) only
	signer := "none"
	shipped := x509.NewCertPool()
	shipped.AppendCertsFromPEM([]byte(issued.CertPEM))
	for _, rt := range roots {
		pool := x509.NewCertPool()
		pool.AppendCertsFromPEM([]byte(rt.RootCert))
		if _, err := leaf.Verify(x509.VerifyOptions{Roots: pool, Intermediates: shipped, KeyUsages: []x509.ExtKeyUsage{x509.ExtKeyUsageAny}}); err == nil {
			if signer == "none" || rt.Active {
				signer = s.label("r", rt.ID)
			}
		}
	}
	serial := leaf.SerialNumber.Uint64()
	s.line(op, fmt.Sprintf("ok ids=%s uris=%s serial=%d root=%s dns=%s ips=%s emails=%d ca=%s caops=%s",
		hx.EncList(ids), hx.EncList(curis), serial, hx.EncS(signer), hx.EncSList(leaf.DNSNames), hx.EncSList(ipStrings(leaf.IPAddresses)),
		len(leaf.EmailAddresses), hx.EncBool(leaf.IsCA), caops))
	flush()
	s.prev = s.snap()
	s.run.Sample(map[string]any{"csr_uris": spec.uris, "authorizer": ag.desc, "issued_uri": curis, "serial": serial})

	// ------------------------------------------------------------ monitors
	if len(reqURIs) != 1 {
		s.violate(fmt.Sprintf("ca:signed-csr-with-%d-uris", len(reqURIs)), fmt.Sprintf("CSR URIs %v", spec.uris))
	}
	if nEmails > 0 {
		s.violate("ca:signed-csr-with-email-san", fmt.Sprintf("CSR e-mails %v", spec.emails))
	}
	if !leaf.SerialNumber.IsUint64() {
		s.violate("ca:serial-not-uint64", leaf.SerialNumber.String())
	}
	s.noteSerial(serial, "leaf certificate")
	if leaf.IsCA || leaf.KeyUsage&x509.KeyUsageCertSign != 0 || !leaf.BasicConstraintsValid {
		s.violate("ca:leaf-is-a-ca", fmt.Sprintf("IsCA=%v BasicConstraintsValid=%v KeyUsage=%b", leaf.IsCA, leaf.BasicConstraintsValid, leaf.KeyUsage))
	}
	if strings.Join(leaf.DNSNames, ",") != strings.Join(reqDNS, ",") || strings.Join(ipStrings(leaf.IPAddresses), ",") != strings.Join(reqIPs, ",") || len(leaf.EmailAddresses) != 0 {
		s.violate("ca:certificate-sans-differ-from-request", fmt.Sprintf("dns %v vs %v, ips %v vs %v, emails %v", leaf.DNSNames, reqDNS, leaf.IPAddresses, reqIPs, leaf.EmailAddresses))
	}
	// chains to the currently active root
	_, active, _ := s.d.State().CARootActive(nil)
	if active == nil {
		s.violate("ca:issued-without-active-root", "")
	} else {
		pool, inter := x509.NewCertPool(), x509.NewCertPool()
		pool.AppendCertsFromPEM([]byte(active.RootCert))
		for _, ic := range active.IntermediateCerts {
			inter.AppendCertsFromPEM([]byte(ic))
		}
		inter.AppendCertsFromPEM([]byte(issued.CertPEM))
		if _, err := leaf.Verify(x509.VerifyOptions{Roots: pool, Intermediates: inter, KeyUsages: []x509.ExtKeyUsage{x509.ExtKeyUsageAny}, CurrentTime: time.Now()}); err != nil {
			sig := "ca:leaf-does-not-chain-to-active-root"
			if s.primary != nil && !s.synced {
				sig = "ca:secondary-activates-primary-root-without-a-signing-certificate-under-it"
			}
			s.violate(sig, err.Error())
		} else if _, err := leaf.Verify(x509.VerifyOptions{Roots: pool, Intermediates: shipped, KeyUsages: []x509.ExtKeyUsage{x509.ExtKeyUsageAny}}); err != nil {
			// a peer only has the active root and what the reply carries
			s.violate("ca:shipped-chain-does-not-reach-active-root", err.Error())
		}
		s.checkLeafIssuer(leaf, active)
	}
	if len(leaf.URIs) != 1 {
		s.violate(fmt.Sprintf("ca:certificate-carries-%d-uris", len(leaf.URIs)), strings.Join(curis, " "))
		return true
	}
	cid, err := connect.ParseCertURI(leaf.URIs[0])
	if err != nil {
		sig := "ca:issued-uri-is-not-a-spiffe-identity"
		if len(reqURIs) == 1 {
			if rid, e2 := connect.ParseCertURI(reqURIs[0]); e2 == nil {
				// the one recorded shape: an agent id outside the trust domain whose decoded
				// datacenter or node contains '/' is re-rendered unescaped
				if a, isAgent := rid.(*connect.SpiffeIDAgent); isAgent && a.Host != td &&
					(strings.Contains(a.Datacenter, "/") || strings.Contains(a.Agent, "/")) {
					sig = "ca:agent-rewritten-uri-is-not-a-spiffe-identity"
				}
			}
		}
		s.violate(sig, fmt.Sprintf("request %s, certificate carries %s: %v", reqURIs[0], leaf.URIs[0], err))
		return true
	}
	kind, host, dc := "", "", ""
	allowed := false
	switch v := cid.(type) {
	case *connect.SpiffeIDService:
		kind, host, dc = "service", v.Host, v.Datacenter
		allowed = ag.az.ServiceWrite(v.Service, nil) == acl.Allow
		if v.Namespace != "default" || v.Partition != "default" {
			s.violate("ca:service-identity-outside-default-namespace-signed", idString(cid))
		}
	case *connect.SpiffeIDAgent:
		kind, host, dc = "agent", v.Host, v.Datacenter
		allowed = ag.az.NodeWrite(v.Agent, nil) == acl.Allow
	case *connect.SpiffeIDMeshGateway:
		kind, host, dc = "gateway", v.Host, v.Datacenter
		allowed = mesh
		if v.Partition != "default" {
			s.violate("ca:gateway-identity-outside-default-partition-signed", idString(cid))
		}
	case *connect.SpiffeIDServer:
		kind, host, dc = "server", v.Host, v.Datacenter
		allowed = aclw
	default:
		s.violate("ca:unsupported-identity-kind-signed", idString(cid))
		return true
	}
	s.run.Tag("sign:ok:" + kind)
	// the identity the certificate carries, parsed independently of ParseCertURI: it is the one the
	// permission, datacenter and trust-domain conditions must hold for
	iid, iok := indepParse(leaf.URIs[0])
	if !iok || iid.String() != idString(cid) {
		s.violate("ca:issued-uri-structure-differs-from-parsed-identity", fmt.Sprintf("%s: ParseCertURI says %s, decoding each path segment once gives %s (identity: %v)", leaf.URIs[0], idString(cid), iid, iok))
	}
	if iok {
		kind, host, dc = iid.kind, iid.host, iid.dc
		switch iid.kind {
		case "service":
			allowed = ag.az.ServiceWrite(iid.name, nil) == acl.Allow
			if iid.ns != "default" || iid.ap != "default" {
				s.violate("ca:service-identity-outside-default-namespace-signed", iid.String())
			}
		case "agent":
			allowed = ag.az.NodeWrite(iid.name, nil) == acl.Allow
		case "gateway":
			allowed = mesh
			if iid.ap != "default" {
				s.violate("ca:gateway-identity-outside-default-partition-signed", iid.String())
			}
		case "server":
			allowed = aclw
		}
		if len(reqURIs) == 1 {
			if rid, rok := indepParse(reqURIs[0]); !rok || rid.scope() != iid.scope() {
				s.violate("ca:certificate-identity-differs-from-request", fmt.Sprintf("requested %s (decoded once: %s, identity: %v), certificate carries %s", reqURIs[0], rid, rok, iid))
			}
		}
	}
	// the RPC reply must describe the certificate it carries
	replyURI, replyName, wantName := "", "", ""
	switch v := cid.(type) {
	case *connect.SpiffeIDService:
		replyURI, replyName, wantName = issued.ServiceURI, issued.Service, v.Service
	case *connect.SpiffeIDAgent:
		replyURI, replyName, wantName = issued.AgentURI, issued.Agent, v.Agent
	case *connect.SpiffeIDMeshGateway:
		replyURI = issued.KindURI
	case *connect.SpiffeIDServer:
		replyURI = issued.ServerURI
	}
	if replyURI != leaf.URIs[0].String() || replyName != wantName || issued.SerialNumber != connect.EncodeSerialNumber(leaf.SerialNumber) {
		s.violate("ca:reply-does-not-describe-the-certificate", fmt.Sprintf("reply uri=%q name=%q serial=%s, certificate %s serial %d", replyURI, replyName, issued.SerialNumber, leaf.URIs[0], serial))
	}
	if !allowed {
		s.violate("ca:"+kind+"-identity-signed-without-write-permission", fmt.Sprintf("certificate %s (request %s) issued under authorizer [%s]", leaf.URIs[0], reqURIs[0], ag.desc))
	}
	if dc != s.dc {
		s.violate("ca:"+kind+"-identity-foreign-datacenter-signed", fmt.Sprintf("%s issued by a server of datacenter %s", leaf.URIs[0], s.dc))
	}
	if strings.ToLower(host) != td {
		s.violate("ca:"+kind+"-identity-foreign-trust-domain-signed", fmt.Sprintf("%s issued by the CA of trust domain %s (request URI %s)", leaf.URIs[0], td, reqURIs[0]))
	}
	if len(reqURIs) == 1 {
		if rid, err := connect.ParseCertURI(reqURIs[0]); err != nil || idScope(rid) != idScope(cid) {
			s.violate("ca:certificate-identity-differs-from-request", fmt.Sprintf("requested %s, certificate carries %s", reqURIs[0], leaf.URIs[0]))
		}
	}
	return true
}

var dnsPool = []string{"web.service.consul", "localhost", "server.dc1.consul", "*.example.com", "web.ingress.dc1.consul"}
var ipPool = []net.IP{net.ParseIP("127.0.0.1"), net.ParseIP("10.0.0.1"), net.ParseIP("::1"), net.ParseIP("2001:db8::1")}

func (s *sess) genSign(r *hx.RNG) {
	for try := 0; try < 5; try++ {
		td := s.trustDomain()
		var spec csrSpec
		var tags []string
		n := 1
		switch k := r.Intn(100); {
		case k < 4:
			n = 0
		case k < 10:
			n = 2
		case k < 12:
			n = 3
		}
		for i := 0; i < n; i++ {
			u, t := genURI(r, td)
			if s.dc != localDC {
				u = swapDC(u)
			}
			spec.uris = append(spec.uris, u)
			tags = append(tags, t...)
		}
		if r.Chance(5) {
			spec.emails = []string{"ops@example.com"}
		}
		for k := r.Intn(6) - 3; k > 0; k-- {
			spec.dns = append(spec.dns, hx.Pick(r, dnsPool))
		}
		for k := r.Intn(6) - 3; k > 0; k-- {
			spec.ips = append(spec.ips, hx.Pick(r, ipPool))
		}
		spec.caExt = r.Chance(6)
		if r.Chance(20) {
			spec.cn = "web.svc.default.11111111.consul"
		}
		var hints []string
		for _, raw := range spec.uris {
			if u, err := url.Parse(raw); err == nil {
				p := u.Path
				if u.RawPath != "" {
					p = u.RawPath
				}
				segs := strings.Split(p, "/")
				if last := segs[len(segs)-1]; last != "" {
					hints = append(hints, last)
					if d, err := url.PathUnescape(last); err == nil {
						hints = append(hints, d, d)
						if d2, err := url.PathUnescape(d); err == nil && d2 != d {
							hints = append(hints, d2, d2)
						}
					}
				}
			}
		}
		if n == 1 && len(spec.emails) == 0 && !spec.caExt && r.Chance(12) {
			// the CSR an agent builds with connect.CreateCSR for the identity the URI denotes
			if u, err := url.Parse(spec.uris[0]); err == nil {
				if id, err := connect.ParseCertURI(u); err == nil {
					if _, signing := id.(*connect.SpiffeIDSigning); !signing {
						spec.viaCreateCSR = id
						spec.uris = []string{id.URI().String()}
					}
				}
			}
		}
		if s.doSign(r, spec, genAuthz(r, hints), tags) {
			return
		}
	}
}

// ---------------------------------------------------------------- manager sessions

func copyConf(c map[string]interface{}) map[string]interface{} {
	o := map[string]interface{}{}
	for k, v := range c {
		o[k] = v
	}
	return o
}

func (s *sess) rememberRoot() {
	_, active, _ := s.d.State().CARootActive(nil)
	if active != nil {
		if _, ok := s.rootPEM[s.curKey]; !ok {
			s.rootPEM[s.curKey] = active.RootCert
		}
	}
}

func (s *sess) update(conf map[string]interface{}, modIdx uint64, force bool, tag string) error {
	prov := s.prov
	if s.nextProv != "" {
		prov, s.nextProv = s.nextProv, ""
	}
	if prov == "" {
		prov = "consul"
	}
	s.freshShim()
	err := s.m.UpdateConfiguration(&structs.CARequest{Config: &structs.CAConfiguration{Provider: prov, Config: copyConf(conf),
		ForceWithoutCrossSigning: force, RaftIndex: structs.RaftIndex{ModifyIndex: modIdx}}})
	faulted := s.faultArmed || s.caCount > 0
	s.faultArmed, s.caCount = false, 0
	res := ":ok"
	if err != nil {
		res = ":error"
	}
	if faulted {
		res += ":fault-injected"
	}
	s.run.Tag("mgr:" + tag + res)
	if err == nil {
		s.prov = prov
	}
	s.mgrLine()
	s.checkStore("after "+tag+res, true)
	return err
}

func managerSession(run *hx.Run, r *hx.RNG, nops int) {
	s := newSess(run, false, uint64(5+r.Intn(30)))
	cluster := clusterIDs[0]
	if r.Chance(35) {
		cluster = clusterIDs[1]
	}
	s.curKey = r.Intn(len(caKeys))
	s.conf = map[string]interface{}{"CSRMaxPerSecond": 0, "PrivateKey": caKeys[s.curKey]}
	s.m = consul.VerifNewCAManager12(s.d, localDC, &structs.CAConfiguration{ClusterID: cluster, Provider: "consul", Config: copyConf(s.conf)})
	if r.Chance(10) {
		// provider-state rows written before the CA is bootstrapped move the serial bootstrap value
		s.d.Index += uint64(r.Intn(20))
		s.d.ApplyCARaw(&structs.CARequest{Op: structs.CAOpSetProviderState, ProviderState: &structs.CAConsulProviderState{ID: "legacy"}})
		run.Tag("mgr:legacy-provider-state")
	}
	if err := s.m.Initialize(); err != nil {
		panic(err)
	}
	s.mgrLine()
	s.checkStore("after Initialize", true)
	s.rememberRoot()
	for i := 0; i < nops; i++ {
		switch k := r.Intn(1100); {
		case k < 880:
			s.checkStore("before sign", true)
			s.genSign(r)
		case k < 905: // rotation to another key (new root, cross-signed by the old one)
			nk := (s.curKey + 1 + r.Intn(len(caKeys)-1)) % len(caKeys)
			conf := copyConf(s.conf)
			conf["PrivateKey"] = caKeys[nk]
			delete(conf, "RootCert")
			tag := "rotate-new-root"
			if p, ok := s.rootPEM[nk]; ok && r.Chance(60) {
				conf["RootCert"] = p // rotate back to a root that is still in the table (same root id)
				tag = "rotate-back-to-earlier-root"
			}
			if r.Chance(40) {
				s.arm(r)
			}
			if err := s.update(conf, 0, r.Chance(25), tag); err == nil {
				s.conf, s.curKey = conf, nk
				s.rememberRoot()
			}
		case k < 920: // config-only change, unconditional or conditional on a (possibly stale) index
			conf := copyConf(s.conf)
			conf["LeafCertTTL"] = hx.Pick(r, []string{"72h", "80h", "96h"})
			var mi uint64
			tag := "config-update"
			if r.Chance(50) {
				_, cur, _ := s.d.State().CAConfig(nil)
				mi = cur.ModifyIndex
				tag = "config-cas-current"
				if r.Chance(50) {
					mi = cur.ModifyIndex - 1 - uint64(r.Intn(2))
					tag = "config-cas-stale"
				}
			}
			if r.Chance(25) {
				s.arm(r)
				s.faultFinal = false
			}
			if err := s.update(conf, mi, false, tag); err == nil {
				s.conf = conf
			}
		case k < 930: // no-op update
			s.update(s.conf, 0, false, "config-noop")
		case k < 950 && r.Chance(25): // a matching replacement that also lists the active root's fingerprint in upper case, inactive, last
			idx, roots, _ := s.d.State().CARoots(nil)
			var rs []*structs.CARoot
			var extra *structs.CARoot
			for _, rt := range roots {
				c := *rt
				rs = append(rs, &c)
				if rt.Active && strings.ToUpper(rt.ID) != rt.ID {
					e := *rt
					e.ID, e.Active = strings.ToUpper(rt.ID), false
					extra = &e
				}
			}
			if extra != nil {
				rs = append(rs, extra)
			}
			s.d.ApplyCARaw(&structs.CARequest{Op: structs.CAOpSetRoots, Index: idx, Roots: rs})
			run.Tag("mgr:root-set-with-case-variant-of-active-id")
		case k < 950: // a stale conditional root replacement straight into Raft (must be refused)
			idx, roots, _ := s.d.State().CARoots(nil)
			var rs []*structs.CARoot
			for _, rt := range roots {
				c := *rt
				c.Active = false
				rs = append(rs, &c)
			}
			rs = append(rs, &structs.CARoot{ID: "intruder", Active: true})
			stale := idx - 1 - uint64(r.Intn(3))
			if r.Chance(30) {
				stale = idx + 1
			}
			if r.Bool() {
				s.d.ApplyCARaw(&structs.CARequest{Op: structs.CAOpSetRoots, Index: stale, Roots: rs})
			} else {
				_, cur, _ := s.d.State().CAConfig(nil)
				c := *cur
				s.d.ApplyCARaw(&structs.CARequest{Op: structs.CAOpSetRootsAndConfig, Index: stale, Roots: rs, Config: &c})
			}
			run.Tag("mgr:stale-root-cas")
		case k < 960: // matching root index but stale config index: the composite must change nothing
			idx, roots, _ := s.d.State().CARoots(nil)
			var rs []*structs.CARoot
			for _, rt := range roots {
				c := *rt
				rs = append(rs, &c)
			}
			_, cur, _ := s.d.State().CAConfig(nil)
			c := *cur
			c.ModifyIndex = cur.ModifyIndex - 1
			s.d.ApplyCARaw(&structs.CARequest{Op: structs.CAOpSetRootsAndConfig, Index: idx, Roots: rs, Config: &c})
			run.Tag("mgr:composite-with-stale-config-index")
		case k < 975: // somebody else consumes a serial number
			s.d.Index += uint64(r.Intn(5))
			s.d.ApplyCARaw(&structs.CARequest{Op: structs.CAOpIncrementProviderSerialNumber})
		case k < 985: // the cluster id (trust domain) is replaced in the config table
			_, cur, _ := s.d.State().CAConfig(nil)
			c := *cur
			c.ModifyIndex = 0
			c.ClusterID = hx.Pick(r, clusterIDs)
			if r.Chance(30) {
				c.ClusterID = ""
			}
			s.d.ApplyCARaw(&structs.CARequest{Op: structs.CAOpSetConfig, Config: &c})
			run.Tag("mgr:cluster-id-set")
		case k < 990:
			s.d.Index += uint64(r.Intn(50))
			run.Tag("mgr:raft-index-gap")
		default:
			if !s.extraOp(r) {
				return
			}
		}
		s.checkStore("after operation", true)
	}
}

// extraOp: rate limiter / concurrency limiter configs, the leader's clock passing the root's
// expiry, a leader change, an FSM snapshot + restore, a change of provider.
func (s *sess) extraOp(r *hx.RNG) bool {
	switch k := r.Intn(100); {
	case k < 22: // a rate limit so small that the single burst token never comes back
		conf := copyConf(s.conf)
		delete(conf, "CSRMaxConcurrent")
		conf["CSRMaxPerSecond"] = tinyRates[hx.Pick(r, []string{"1", "1", "2"})]
		if err := s.update(conf, 0, false, "rate-limit-on"); err == nil {
			s.conf = conf
		}
	case k < 34:
		conf := copyConf(s.conf)
		conf["CSRMaxPerSecond"] = 0
		conf["CSRMaxConcurrent"] = 1 + r.Intn(2)
		if err := s.update(conf, 0, false, "concurrency-limit-on"); err == nil {
			s.conf = conf
		}
	case k < 44:
		conf := copyConf(s.conf)
		conf["CSRMaxPerSecond"] = 0
		delete(conf, "CSRMaxConcurrent")
		if err := s.update(conf, 0, false, "limits-off"); err == nil {
			s.conf = conf
		}
	case k < 56:
		s.setClock(true)
		s.clockAhead = true
	case k < 68:
		if !s.failover() {
			return false
		}
		s.clockAhead = false
	case k < 82:
		s.snapshotRestore()
	default: // the provider changes (same or new key): consul <-> another provider type
		conf := copyConf(s.conf)
		tag := "provider-change-same-key"
		nk := s.curKey
		if r.Chance(60) {
			nk = (s.curKey + 1 + r.Intn(len(caKeys)-1)) % len(caKeys)
			conf["PrivateKey"] = caKeys[nk]
			delete(conf, "RootCert")
			tag = "provider-change-new-key"
		}
		if s.prov == altProvider {
			s.nextProv = "consul"
		} else {
			s.nextProv = altProvider
		}
		if r.Chance(30) {
			s.arm(r)
		}
		if err := s.update(conf, 0, r.Chance(25), tag); err == nil {
			s.conf, s.curKey = conf, nk
			s.rememberRoot()
		}
	}
	if s.clockAhead && r.Chance(50) {
		s.setClock(false)
		s.clockAhead = false
	}
	return true
}

// exhaustive segment alphabets per position, every kind, with the trust domain and a foreign host
func exhaustiveSession(run *hx.Run, r *hx.RNG, wide bool) {
	s := newSess(run, false, 7)
	s.curKey = 0
	s.conf = map[string]interface{}{"CSRMaxPerSecond": 0, "PrivateKey": caKeys[0]}
	s.m = consul.VerifNewCAManager12(s.d, localDC, &structs.CAConfiguration{ClusterID: clusterIDs[0], Provider: "consul", Config: copyConf(s.conf)})
	if err := s.m.Initialize(); err != nil {
		panic(err)
	}
	s.mgrLine()
	alpha := []string{"a", "A", "a%2Fb", "%61", "*", "", "dc1", "dc%31", "%2561", "a%252Fb", "dc%2531", "%252561"}
	td := s.trustDomain()
	hosts := []string{td, "foreign.consul", "evil-" + td, td + ".evil.com"}
	aps := []string{""}
	if wide {
		hosts = append(hosts, strings.ToUpper(td))
		aps = append(aps, "/ap/default", "/ap/foo")
	}
	pol, err := acl.NewPolicyFromSource(`service "a" { policy = "write" } node "a" { policy = "write" } service "a/b" { policy = "write" } node_prefix "A" { policy = "write" }`, nil, nil)
	if err != nil {
		panic(err)
	}
	narrow, err := acl.NewPolicyAuthorizerWithDefaults(acl.DenyAll(), []*acl.Policy{pol}, nil)
	if err != nil {
		panic(err)
	}
	azs := []authzGen{{acl.ManageAll(), "manage-all"}, {narrow, "service a, a/b; node a, A*"}}
	for _, h := range hosts {
		for _, ap := range aps {
			for _, az := range azs {
				for _, x := range alpha {
					for _, y := range alpha {
						s.doSign(r, csrSpec{uris: []string{"spiffe://" + h + ap + "/ns/default/dc/" + x + "/svc/" + y}}, az, []string{"exhaustive:service"})
						s.doSign(r, csrSpec{uris: []string{"spiffe://" + h + ap + "/agent/client/dc/" + x + "/id/" + y}}, az, []string{"exhaustive:agent"})
					}
					s.doSign(r, csrSpec{uris: []string{"spiffe://" + h + ap + "/gateway/mesh/dc/" + x}}, az, []string{"exhaustive:gateway"})
					s.doSign(r, csrSpec{uris: []string{"spiffe://" + h + "/agent/server/dc/" + x}}, az, []string{"exhaustive:server"})
				}
			}
		}
	}
	run.Extra["exhaustive_alphabet"] = alpha
}

// ---------------------------------------------------------------- bare CA histories

func bareSession(run *hx.Run, r *hx.RNG, nops int) {
	s := newSess(run, true, uint64(r.Intn(10)))
	// small universe chosen to collide, including spellings of the same hex fingerprint that
	// differ only in letter case (the roots table is keyed by the exact ID)
	ids := []string{"a", "b", "c", "d", "A", "B", "ab:cd", "AB:CD", "Ab:cD", "ab:cd"}
	var staleR, staleC []uint64
	pickIdx := func(cur uint64, stale []uint64) uint64 {
		switch k := r.Intn(100); {
		case k < 62:
			return cur
		case k < 72:
			return 0
		case k < 80:
			if cur > 0 {
				return cur - 1
			}
			return cur + 1
		case k < 88:
			return cur + 1
		default:
			if len(stale) > 0 {
				return hx.Pick(r, stale)
			}
			return cur
		}
	}
	genRoots := func() []*structs.CARoot {
		n := r.Intn(5)
		if r.Chance(70) {
			n = 1 + r.Intn(3)
		}
		var rs []*structs.CARoot
		act := -1
		if n > 0 {
			act = r.Intn(n)
		}
		for i := 0; i < n; i++ {
			id := hx.Pick(r, ids)
			if r.Chance(3) {
				id = ""
			}
			a := i == act
			if r.Chance(8) {
				a = !a
			}
			rs = append(rs, &structs.CARoot{ID: id, Active: a, Name: "verif"})
		}
		return rs
	}
	genCfg := func(cur *structs.CAConfiguration) *structs.CAConfiguration {
		var cm uint64
		if cur != nil {
			cm = cur.ModifyIndex
		}
		c := &structs.CAConfiguration{Provider: hx.Pick(r, []string{"consul", "vault"}), ClusterID: hx.Pick(r, []string{"", "c1", "c2", "C1"}),
			Config: map[string]interface{}{"tag": hx.Pick(r, []string{"t1", "t2", "t3"})}}
		c.ModifyIndex = pickIdx(cm, staleC)
		return c
	}
	for i := 0; i < nops; i++ {
		s.d.Index += uint64(r.Intn(3))
		ridx, _, _ := s.d.State().CARoots(nil)
		_, ccur, _ := s.d.State().CAConfig(nil)
		switch k := r.Intn(100); {
		case k < 30:
			s.d.ApplyCARaw(&structs.CARequest{Op: structs.CAOpSetRoots, Index: pickIdx(ridx, staleR), Roots: genRoots()})
		case k < 52:
			s.d.ApplyCARaw(&structs.CARequest{Op: structs.CAOpSetRootsAndConfig, Index: pickIdx(ridx, staleR), Roots: genRoots(), Config: genCfg(ccur)})
		case k < 68:
			s.d.ApplyCARaw(&structs.CARequest{Op: structs.CAOpSetConfig, Config: genCfg(ccur)})
		case k < 78:
			s.d.ApplyCARaw(&structs.CARequest{Op: structs.CAOpSetProviderState, ProviderState: &structs.CAConsulProviderState{ID: hx.Pick(r, []string{"p", "q"})}})
		case k < 84:
			s.d.ApplyCARaw(&structs.CARequest{Op: structs.CAOpDeleteProviderState, ProviderState: &structs.CAConsulProviderState{ID: hx.Pick(r, []string{"p", "q"})}})
		case k < 98:
			s.d.ApplyCARaw(&structs.CARequest{Op: structs.CAOpIncrementProviderSerialNumber})
		default:
			s.d.ApplyCARaw(&structs.CARequest{Op: structs.CAOp("frobnicate")})
		}
		if ridx > 0 {
			staleR = append(staleR, ridx)
		}
		if ccur != nil {
			staleC = append(staleC, ccur.ModifyIndex)
		}
	}
	run.Case(strings.Join(s.ops, "\n"), true)
}

func main() {
	run := hx.Start()
	run.Rule = "Connect CA: a leaf is issued only for exactly one supported SPIFFE identity of this trust domain and datacenter that the token may write; the certificate carries that identity, is not a CA, has a fresh serial and chains to the single active root; root sets are replaced atomically"
	initKeys()
	run.Line("regexps", hx.EncSList(connect.VerifSpiffeRegexps12()))
	nMgr, nOps := run.Scale(45, 260), run.Scale(34, 42)
	for i := 0; i < nMgr; i++ {
		managerSession(run, run.RNG.Fork(uint64(i)), nOps)
	}
	nSec := run.Scale(14, 90)
	for i := 0; i < nSec; i++ {
		secondarySession(run, run.RNG.Fork(uint64(700000+i)), nOps)
	}
	renderSession(run, run.RNG.Fork(800001), run.Scale(1500, 12000))
	exhaustiveSession(run, run.RNG.Fork(900001), run.Thorough())
	nBare := run.Scale(200, 1500)
	for i := 0; i < nBare; i++ {
		bareSession(run, run.RNG.Fork(uint64(500000+i)), 8+run.RNG.Intn(30))
	}
	run.Finish()
}
