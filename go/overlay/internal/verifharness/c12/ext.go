//go:build verif

// C12 harness, round 5 extensions: rate limiter / clock / leader change / snapshot-restore /
// provider change operations of manager sessions, the request-building tie (`rotreq`), the
// secondary-datacenter session (intermediate signing by the primary) and the URI rendering /
// CanSign session.
package main

import (
	"crypto/x509"
	"encoding/pem"
	"fmt"
	"net/url"
	"sort"
	"strings"
	"time"

	"github.com/hashicorp/go-hclog"

	"github.com/hashicorp/consul/agent/connect"
	"github.com/hashicorp/consul/agent/connect/ca"
	"github.com/hashicorp/consul/agent/consul"
	"github.com/hashicorp/consul/agent/structs"
	"github.com/hashicorp/consul/internal/verifharness/hx"
)

const altProvider = "verif-alt"

// rate values so small that the limiter never gets a token back during a run
var tinyRates = map[string]float64{"1": 0.000001, "2": 0.000002}

func (s *sess) rateKey() string {
	_, cfg, err := s.d.State().CAConfig(nil)
	if err != nil || cfg == nil {
		return "none"
	}
	cc, err := cfg.GetCommonConfig()
	if err != nil || cc.CSRMaxPerSecond <= 0 {
		return "none"
	}
	best, bd := "1", 1.0
	for k, v := range tinyRates {
		d := float64(cc.CSRMaxPerSecond) - v
		if d < 0 {
			d = -d
		}
		if d < bd {
			best, bd = k, d
		}
	}
	return best
}

// tellRate reports the CSRMaxPerSecond the stored config carries whenever it changed.
func (s *sess) tellRate() {
	if k := s.rateKey(); k != s.rateTold {
		s.rateTold = k
		s.line("rate "+k, "ok")
		s.run.Tag("rate:" + k)
	}
}

// provFlags: does the provider-state row of the manager's provider hold a private key and a
// certificate to sign leaves with (root in the primary, intermediate in a secondary)?
func (s *sess) provFlags() (bool, bool, bool) {
	id := consul.VerifProviderID12(s.m)
	if id == "" {
		return true, true, true
	}
	_, st, err := s.d.State().CAProviderState(id)
	if err != nil || st == nil {
		return true, true, true
	}
	cert := st.RootCert
	if s.primary != nil {
		cert = st.IntermediateCert
	}
	match := true
	if st.PrivateKey != "" && cert != "" {
		signer, e1 := connect.ParseSigner(st.PrivateKey)
		c, e2 := connect.ParseCert(cert)
		if e1 == nil && e2 == nil {
			a, _ := x509.MarshalPKIXPublicKey(signer.Public())
			b, _ := x509.MarshalPKIXPublicKey(c.PublicKey)
			match = string(a) == string(b)
		}
	}
	return st.PrivateKey != "", cert != "", match
}

// checkLeafIssuer: the leaf names, as its issuer key, the signing key the active root row
// advertises (the root's own key in the primary, the intermediate's in a secondary).
func (s *sess) checkLeafIssuer(leaf *x509.Certificate, active *structs.CARoot) {
	if got := connect.EncodeSigningKeyID(leaf.AuthorityKeyId); got != active.SigningKeyID {
		s.violate("ca:leaf-authority-key-is-not-the-active-roots-signing-key", fmt.Sprintf("leaf authority key id %s, active root %s advertises signing key %s", got, s.label("r", active.ID), active.SigningKeyID))
	}
}

func sortedReqRoots(s *sess, rs []*structs.CARoot) string {
	type e struct {
		id  string
		act bool
	}
	es := make([]e, len(rs))
	for i, r := range rs {
		es[i] = e{s.label("r", r.ID), r.Active}
	}
	sort.SliceStable(es, func(i, j int) bool {
		if es[i].id != es[j].id {
			return es[i].id < es[j].id
		}
		return !es[i].act && es[j].act
	})
	t := make([]string, len(es))
	for i, x := range es {
		t[i] = hx.EncS(x.id) + ";" + hx.EncBool(x.act)
	}
	return hx.EncList(t)
}

// rotreq: the roots + index of a conditional roots(+config) write the manager prepared are a
// function of the stored table and of the identity of the new root only (model: rotationRoots).
func (s *sess) rotreq(req *structs.CARequest) {
	_, cur, _ := s.d.State().CARoots(nil)
	newid := "none"
	if len(req.Roots) == len(cur)+1 {
		newid = hx.EncS(s.label("r", req.Roots[len(req.Roots)-1].ID))
		s.run.Tag("rotreq:new-root")
	} else {
		s.run.Tag("rotreq:roots-kept")
	}
	s.line("rotreq "+newid, fmt.Sprintf("cidx=%d roots=%s", req.Index, sortedReqRoots(s, req.Roots)))
	// monitors (independent of the model): the leader's conditional write keeps every stored root
	// (only pruning removes roots), carries the index it read, and — when it installs a new root —
	// marks that one and no other active
	have := map[string]bool{}
	nact := 0
	for _, rt := range req.Roots {
		have[rt.ID] = true
		if rt.Active {
			nact++
		}
	}
	for _, rt := range cur {
		if !have[rt.ID] {
			s.violate("ca:leader-root-update-drops-a-stored-root", fmt.Sprintf("stored root %s is missing from the %d roots of the request", s.label("r", rt.ID), len(req.Roots)))
			break
		}
	}
	if idx, _, _ := s.d.State().CARoots(nil); idx != req.Index {
		s.violate("ca:leader-root-update-carries-wrong-index", fmt.Sprintf("roots index %d, request index %d", idx, req.Index))
	}
	if newid != "none" && (nact != 1 || !req.Roots[len(req.Roots)-1].Active) {
		s.violate("ca:leader-rotation-request-does-not-activate-exactly-the-new-root", fmt.Sprintf("%d active roots in the request", nact))
	}
}

func (s *sess) setClock(expired bool) {
	if expired {
		consul.VerifSetTimeNow12(s.m, func() time.Time { return time.Now().Add(30 * 365 * 24 * time.Hour) })
	} else {
		consul.VerifSetTimeNow12(s.m, time.Now)
	}
	s.line("clock "+hx.EncBool(expired), "ok")
	s.run.Tag("mgr:clock-expired=" + hx.EncBool(expired))
}

func (s *sess) freshShim() {
	consul.VerifSetProviderShim12(s.m, ca.NewConsulProvider(s.d, hclog.NewNullLogger()))
}

// failover: another server becomes leader: a new CAManager over the same replicated state.
func (s *sess) failover() bool {
	pdc := s.dc
	if s.primary != nil {
		pdc = s.primary.dc
	}
	_, cfg, _ := s.d.State().CAConfig(nil)
	cluster := ""
	if cfg != nil {
		cluster = cfg.ClusterID
	}
	s.m = consul.VerifNewCAManager12In(s.d, s.dc, pdc, &structs.CAConfiguration{ClusterID: cluster, Provider: "consul", Config: copyConf(s.conf)})
	s.freshShim()
	err := s.m.Initialize()
	if err != nil {
		// the new leader cannot initialize its CA (e.g. the provider-state row of the active root
		// was removed by an earlier failed rotation, so a new root certificate was generated that is
		// not the stored active root): it signs nothing; the tables must still be sane
		s.run.Tag("mgr:leader-change:error")
		s.checkStore("after a leader change that could not initialize the CA", false)
		return false
	}
	s.line("leader", "ok")
	s.run.Tag("mgr:leader-change:ok")
	s.mgrLine()
	s.checkStore("after a leader change", true)
	return true
}

func (s *sess) snapshotRestore() {
	before := s.snap()
	if err := s.d.SnapshotRestore(); err != nil {
		panic(err)
	}
	cur := s.snap()
	s.line("restore", cur.String())
	s.run.Tag("mgr:snapshot-restore")
	if cur.String() != before.String() && before.cfg != nil && before.cfg.provider != "" {
		s.violate("ca:snapshot-restore-changed-ca-tables", fmt.Sprintf("[%s] -> [%s]", before, cur))
	}
	s.prev = cur
	s.lastDeep = s.deep()
}

// ---------------------------------------------------------------- secondary datacenter

func (s *sess) forward(method, dc string, args interface{}, reply interface{}) error {
	p := s.primary
	switch method {
	case "ConnectCA.Roots":
		roots, err := consul.VerifGetCARoots12(p.d.State())
		if err != nil {
			return err
		}
		*(reply.(*structs.IndexedCARoots)) = *roots
		return nil
	case "ConnectCA.SignIntermediate":
		if s.refuse {
			s.run.Tag("secondary:primary-refuses-intermediate")
			return fmt.Errorf("verif: primary datacenter unreachable")
		}
		pemStr, err := consul.VerifSignIntermediate12(p.m, args.(*structs.CASignRequest).CSR)
		if err != nil {
			return err
		}
		s.checkIntermediate(pemStr)
		*(reply.(*string)) = pemStr
		return nil
	}
	return fmt.Errorf("verif: unexpected cross-datacenter call %s", method)
}

// checkIntermediate: what the primary signs for another datacenter is a CA that cannot create
// further CAs, in the primary's trust domain, under the primary's active root, with a fresh serial.
func (s *sess) checkIntermediate(pemStr string) {
	p := s.primary
	c, err := connect.ParseCert(pemStr)
	if err != nil {
		p.violate("ca:intermediate-does-not-parse", err.Error())
		return
	}
	// the serial is the one the primary's Raft counter handed out last (noted when it was applied)
	if n := c.SerialNumber.Uint64(); !c.SerialNumber.IsUint64() || n != p.maxSer || !p.serials[n] {
		p.violate("ca:intermediate-serial-not-from-the-raft-counter", fmt.Sprintf("serial %s, counter handed out %d last", c.SerialNumber, p.maxSer))
	}
	if !c.IsCA || !c.BasicConstraintsValid || !c.MaxPathLenZero || c.MaxPathLen != 0 {
		p.violate("ca:intermediate-may-sign-further-cas", fmt.Sprintf("IsCA=%v MaxPathLen=%d MaxPathLenZero=%v", c.IsCA, c.MaxPathLen, c.MaxPathLenZero))
	}
	td := p.trustDomain()
	if len(c.URIs) != 1 || c.URIs[0].Scheme != "spiffe" || strings.ToLower(c.URIs[0].Host) != td || c.URIs[0].Path != "" {
		p.violate("ca:intermediate-outside-trust-domain", fmt.Sprintf("URIs %v, trust domain %s", c.URIs, td))
	}
	_, active, _ := p.d.State().CARootActive(nil)
	if active == nil {
		p.violate("ca:intermediate-signed-without-active-root", "")
		return
	}
	pool := x509.NewCertPool()
	pool.AppendCertsFromPEM([]byte(active.RootCert))
	if _, err := c.Verify(x509.VerifyOptions{Roots: pool, KeyUsages: []x509.ExtKeyUsage{x509.ExtKeyUsageAny}}); err != nil {
		p.violate("ca:intermediate-does-not-chain-to-primary-active-root", err.Error())
	}
}

// afterSync judges the secondary's tables after an exchange with the primary that succeeded.
func (s *sess) afterSync(when string) {
	p := s.primary
	_, pa, _ := p.d.State().CARootActive(nil)
	_, sa, _ := s.d.State().CARootActive(nil)
	if pa == nil || sa == nil {
		s.violate("ca:secondary-without-active-root-after-sync", when)
		return
	}
	if pa.ID != sa.ID {
		s.violate("ca:secondary-active-root-differs-from-primary", fmt.Sprintf("%s: primary %s, secondary %s", when, p.label("r", pa.ID), s.label("r", sa.ID)))
	}
	if len(sa.IntermediateCerts) == 0 {
		s.violate("ca:secondary-active-root-without-intermediate", when)
		return
	}
	ic, err := connect.ParseCert(sa.IntermediateCerts[len(sa.IntermediateCerts)-1])
	if err != nil {
		s.violate("ca:secondary-intermediate-does-not-parse", err.Error())
		return
	}
	if connect.EncodeSigningKeyID(ic.SubjectKeyId) != sa.SigningKeyID {
		s.violate("ca:secondary-signing-key-id-is-not-the-intermediates", when)
	}
	if _, cfg, _ := s.d.State().CAConfig(nil); cfg == nil || strings.ToLower(cfg.ClusterID+".consul") != p.trustDomain() {
		s.violate("ca:secondary-trust-domain-differs-from-primary", when)
	}
}

func swapDC(u string) string {
	return strings.NewReplacer("dc1", "dc2", "dc2", "dc1", "dc%31", "dc%32", "DC1", "DC2", "d%631", "d%632", "%2564c1", "%2564c2", "dc%2531", "dc%2532").Replace(u)
}

func (s *sess) syncFromPrimary(r *hx.RNG, tag string) {
	roots, err := consul.VerifGetCARoots12(s.primary.d.State())
	if err != nil {
		panic(err)
	}
	s.refuse = r.Chance(25)
	refused := s.refuse
	err = consul.VerifSecondaryUpdateRoots12(s.m, *roots)
	s.refuse = false
	res := ":ok"
	if err != nil {
		res = ":error"
	}
	if refused {
		res += ":primary-refused"
	}
	s.run.Tag("secondary:" + tag + res)
	s.mgrLine()
	if err == nil && !refused {
		s.synced = true
		s.afterSync("after " + tag)
	} else if _, pa, _ := s.primary.d.State().CARootActive(nil); pa != nil {
		if _, sa, _ := s.d.State().CARootActive(nil); sa == nil || sa.ID != pa.ID || !s.hasIntermediateUnder(sa) {
			s.synced = false
		}
	}
	s.checkStore("after "+tag+res, true)
}

// hasIntermediateUnder: the provider's current intermediate verifies under this root
func (s *sess) hasIntermediateUnder(root *structs.CARoot) bool {
	id := consul.VerifProviderID12(s.m)
	_, st, _ := s.d.State().CAProviderState(id)
	if st == nil || st.IntermediateCert == "" {
		return false
	}
	ic, err := connect.ParseCert(st.IntermediateCert)
	if err != nil {
		return false
	}
	pool := x509.NewCertPool()
	pool.AppendCertsFromPEM([]byte(root.RootCert))
	_, err = ic.Verify(x509.VerifyOptions{Roots: pool, KeyUsages: []x509.ExtKeyUsage{x509.ExtKeyUsageAny}})
	return err == nil
}

func secondarySession(run *hx.Run, r *hx.RNG, nops int) {
	shared := &[]string{}
	p := newSessIn(run, false, uint64(5+r.Intn(30)), "dc1", 0)
	p.shared = shared
	cluster := clusterIDs[0]
	if r.Chance(35) {
		cluster = clusterIDs[1]
	}
	p.curKey = r.Intn(len(caKeys))
	p.conf = map[string]interface{}{"CSRMaxPerSecond": 0, "PrivateKey": caKeys[p.curKey]}
	p.m = consul.VerifNewCAManager12(p.d, "dc1", &structs.CAConfiguration{ClusterID: cluster, Provider: "consul", Config: copyConf(p.conf)})
	if err := p.m.Initialize(); err != nil {
		panic(err)
	}
	p.mgrLine()
	p.checkStore("after Initialize", true)
	p.rememberRoot()

	s := newSessIn(run, false, uint64(3+r.Intn(40)), "dc2", 1)
	s.shared, s.primary = shared, p
	s.conf = map[string]interface{}{"CSRMaxPerSecond": 0}
	s.d.Forward = s.forward
	s.m = consul.VerifNewCAManager12In(s.d, "dc2", "dc1", &structs.CAConfiguration{Provider: "consul", Config: copyConf(s.conf)})
	s.refuse = r.Chance(12)
	refused := s.refuse
	err := s.m.Initialize()
	s.refuse = false
	if err != nil {
		panic(err)
	}
	s.mgrLine()
	run.Tag("secondary:initialize:refused=" + hx.EncBool(refused))
	if !refused {
		s.synced = true
		s.afterSync("after Initialize")
	}
	s.checkStore("after Initialize", true)
	for i := 0; i < nops; i++ {
		switch k := r.Intn(100); {
		case k < 66:
			s.checkStore("before sign", true)
			s.genSign(r)
		case k < 72:
			p.checkStore("before sign", true)
			p.genSign(r)
		case k < 82: // the primary rotates its root; the secondary's root watch fires
			nk := (p.curKey + 1 + r.Intn(len(caKeys)-1)) % len(caKeys)
			conf := copyConf(p.conf)
			conf["PrivateKey"] = caKeys[nk]
			delete(conf, "RootCert")
			tag := "rotate-new-root"
			if pm, ok := p.rootPEM[nk]; ok && r.Chance(50) {
				conf["RootCert"] = pm
				tag = "rotate-back-to-earlier-root"
			}
			if err := p.update(conf, 0, r.Chance(25), tag); err == nil {
				p.conf, p.curKey = conf, nk
				p.rememberRoot()
			}
			if r.Chance(85) {
				s.syncFromPrimary(r, "root-watch-after-primary-rotation")
			}
		case k < 86: // the root watch fires without a change (or catches up)
			s.syncFromPrimary(r, "root-watch")
		case k < 90: // forced renewal of the intermediate
			s.refuse = r.Chance(25)
			refused := s.refuse
			err := consul.VerifRenewIntermediateNow12(s.m)
			s.refuse = false
			res := ":ok"
			if err != nil {
				res = ":error"
			}
			if refused {
				res += ":primary-refused"
			}
			run.Tag("secondary:renew-intermediate" + res)
			s.mgrLine()
			if err == nil && !refused && s.synced {
				s.afterSync("after intermediate renewal")
			}
			s.checkStore("after intermediate renewal"+res, true)
		case k < 94: // config-only update in the secondary
			conf := copyConf(s.conf)
			conf["LeafCertTTL"] = hx.Pick(r, []string{"72h", "80h", "96h"})
			if err := s.update(conf, 0, false, "secondary-config-update"); err == nil {
				s.conf = conf
			}
		case k < 97:
			if !s.failover() {
				return
			}
			if s.synced {
				s.afterSync("after a leader change")
			}
		default:
			s.snapshotRestore()
		}
		s.checkStore("after operation", true)
	}
}

// ---------------------------------------------------------------- URI rendering and CanSign

var renderHosts = []string{"", "foreign.consul", "Foreign.Consul", "a b", "x%y", "h:1", "é.consul", "a/b"}
var renderSegs = []string{"web", "Web", "dc1", "default", "Default", "foo", "FOO", "a/b", "a b", "a%b", "a%2Fb", "", "*", "é", "x/ns/default/dc/dc1/svc/web", "n/id/x", "dc1/id/n1",
	"a?b", "a#b", "~x", "a:b", "a@b", "a+b", "a;b", "\x00", "\xff", "node1", "..", "."}

func renderSession(run *hx.Run, r *hx.RNG, n int) {
	s := newSess(run, true, 1)
	td := strings.ToLower(clusterIDs[0] + ".consul")
	hosts := append([]string{td, td, strings.ToUpper(td)}, renderHosts...)
	// CanSign: every kind x host shape x cluster, exhaustively
	for _, cl := range clusterIDs {
		ctd := strings.ToLower(cl + ".consul")
		for _, h := range []string{ctd, strings.ToUpper(ctd), "evil-" + ctd, ctd + ".evil.com", ctd[1:], ctd[:len(ctd)-1], "foreign.consul", "consul", ""} {
			for _, path := range []string{"/ns/default/dc/dc1/svc/web", "/agent/client/dc/dc1/id/n1", "/gateway/mesh/dc/dc1", "/agent/server/dc/dc1", "", "/ap/foo/ns/default/dc/dc1/svc/web"} {
				if cu, err := url.Parse("spiffe://" + h + path); err == nil {
					s.canSignLine(cl, cu)
				}
			}
		}
	}
	for i := 0; i < n; i++ {
		h := hx.Pick(r, hosts)
		seg := func() string { return hx.Pick(r, renderSegs) }
		var id connect.CertURI
		var tok string
		switch k := r.Intn(100); {
		case k < 35:
			v := &connect.SpiffeIDService{Host: h, Partition: hx.Pick(r, []string{"", "default", "default", asciiSeg(r)}), Namespace: hx.Pick(r, []string{"default", "default", seg()}), Datacenter: seg(), Service: seg()}
			id, tok = v, fmt.Sprintf("service;%s;%s;%s;%s;%s", hx.EncS(v.Host), hx.EncS(v.Partition), hx.EncS(v.Namespace), hx.EncS(v.Datacenter), hx.EncS(v.Service))
		case k < 60:
			v := &connect.SpiffeIDAgent{Host: h, Partition: hx.Pick(r, []string{"", "default", seg()}), Datacenter: seg(), Agent: seg()}
			id, tok = v, fmt.Sprintf("agent;%s;%s;%s;%s", hx.EncS(v.Host), hx.EncS(v.Partition), hx.EncS(v.Datacenter), hx.EncS(v.Agent))
		case k < 75:
			v := &connect.SpiffeIDMeshGateway{Host: h, Partition: hx.Pick(r, []string{"", "default", seg()}), Datacenter: seg()}
			id, tok = v, fmt.Sprintf("gateway;%s;%s;%s", hx.EncS(v.Host), hx.EncS(v.Partition), hx.EncS(v.Datacenter))
		case k < 88:
			v := &connect.SpiffeIDServer{Host: h, Datacenter: seg()}
			id, tok = v, fmt.Sprintf("server;%s;%s", hx.EncS(v.Host), hx.EncS(v.Datacenter))
		default:
			v := &connect.SpiffeIDSigning{ClusterID: hx.Pick(r, []string{clusterIDs[0], clusterIDs[1], "c1", "C1", "", "a.b", "a b"}), Domain: hx.Pick(r, []string{"consul", "Consul", "", "x.y"})}
			id, tok = v, fmt.Sprintf("signing;%s;%s", hx.EncS(v.ClusterID), hx.EncS(v.Domain))
		}
		u := id.URI()
		parsed, perr := connect.ParseCertURI(u)
		out := "str=" + hx.EncS(u.String()) + " parse="
		if perr == nil {
			out += idString(parsed)
		} else {
			out += "err:" + classify(perr)
		}
		run.Tag("render:" + strings.SplitN(tok, ";", 2)[0])
		if perr == nil {
			run.Tag("render:parses")
		} else {
			run.Tag("render:does-not-parse")
		}
		s.line("render "+tok, out)
		run.Case("render "+tok, perr == nil)
		// monitors: what a verifier reads back (through the wire form) is the identity rendered
		// or nothing — never another identity
		if perr == nil {
			if _, isSigning := id.(*connect.SpiffeIDSigning); !isSigning && idScopeCI(parsed) != idScopeCI(id) {
				s.violate("ca:rendered-uri-parses-to-another-identity", fmt.Sprintf("%s rendered as %s parses to %s", tok, u, idString(parsed)))
			}
		}
		if u2, err := url.Parse(u.String()); err == nil {
			p2, e2 := connect.ParseCertURI(u2)
			if (e2 == nil) != (perr == nil) || (e2 == nil && idString(p2) != idString(parsed)) {
				// net/url assumption of the model: Parse(u.String()) preserves what ParseCertURI reads
				if e2 == nil {
					if _, isSigning := id.(*connect.SpiffeIDSigning); !isSigning && idScopeCI(p2) != idScopeCI(id) {
						s.violate("ca:rendered-uri-parses-to-another-identity", fmt.Sprintf("%s rendered as %s parses (from its string form) to %s", tok, u, idString(p2)))
					}
				}
				run.Tag("render:string-roundtrip-differs")
			}
		} else {
			run.Tag("render:string-form-rejected-by-url.Parse")
		}

		// CanSign of the cluster's signing id on a generated CSR-style URI
		raw, _ := genURI(r, td)
		cu, err := url.Parse(raw)
		if err != nil {
			continue
		}
		s.canSignLine(hx.Pick(r, clusterIDs), cu)
	}
}

func (s *sess) canSignLine(cl string, cu *url.URL) {
	run := s.run
	op := "cansign " + hx.EncS(cl) + " " + strings.Join([]string{hx.EncS(cu.Scheme), hx.EncS(cu.Host), hx.EncS(cu.Path), hx.EncS(cu.RawPath), hx.EncS(cu.String())}, ";")
	cid, cerr := connect.ParseCertURI(cu)
	if cerr != nil {
		s.line(op, "err:"+classify(cerr))
		return
	}
	can := connect.SpiffeIDSigningForCluster(cl).CanSign(cid)
	s.line(op, idString(cid)+" cansign="+hx.EncBool(can))
	run.Tag("cansign:" + hx.EncBool(can))
	run.Case(op, true)
	if can {
		host := ""
		switch v := cid.(type) {
		case *connect.SpiffeIDService:
			host = v.Host
		case *connect.SpiffeIDMeshGateway:
			host = v.Host
		case *connect.SpiffeIDServer:
			host = v.Host
		case *connect.SpiffeIDSigning:
			host = v.Host()
		default:
			s.violate("ca:cansign-accepts-unexpected-kind", idString(cid))
		}
		if strings.ToLower(host) != strings.ToLower(cl+".consul") {
			s.violate("ca:cansign-accepts-foreign-trust-domain", fmt.Sprintf("%s under cluster %s", cu, cl))
		}
	}
}

// asciiSeg: the model lower-cases bytewise (ASCII); strings.ToLower on a partition with
// non-ASCII or invalid UTF-8 bytes is outside it (trusted-base item "ASCII")
func asciiSeg(r *hx.RNG) string {
	for {
		s := hx.Pick(r, renderSegs)
		ok := true
		for _, c := range []byte(s) {
			if c >= 0x80 {
				ok = false
			}
		}
		if ok {
			return s
		}
	}
}

// idScopeCI: identity without host, partition compared case-insensitively with "" = default
func idScopeCI(id connect.CertURI) string {
	ap := func(p string) string {
		if p == "" {
			return "default"
		}
		return strings.ToLower(p)
	}
	switch v := id.(type) {
	case *connect.SpiffeIDService:
		return fmt.Sprintf("service/%s/%s/%s", ap(v.Partition), v.Datacenter, v.Service)
	case *connect.SpiffeIDAgent:
		return fmt.Sprintf("agent/%s/%s", v.Datacenter, v.Agent)
	case *connect.SpiffeIDMeshGateway:
		return fmt.Sprintf("gateway/%s", v.Datacenter)
	case *connect.SpiffeIDServer:
		return fmt.Sprintf("server/%s", v.Datacenter)
	}
	return fmt.Sprintf("other/%T", id)
}

var _ = pem.Encode
