//go:build verif

// C11 harness: streaming subscribers materialize exactly the server's state.
//
// A real fsm.FSM (real state.Store, real stream.EventPublisher) is driven by a generated
// schedule over the alphabet of lean/CV/Stream.lean `Act`: commits go through FSM.Apply,
// the publisher goroutine is NOT started — `pub` drains exactly one queued batch through the
// export shim (stream.VerifC11DrainOne) —, subscriptions are real stream.Subscriptions whose
// events feed the real submatview handler state machine / materializer (shim
// submatview.VerifC11Client) and the real HealthView / ConfigEntryView / ConfigEntryListView.
// Every operation prints one canonical line that the compiled Lean model must reproduce.
//
// Monitors (independent of the Lean model; they only use the implementation's observable
// results, direct queries on the real store and the harness's own record of what it did):
//
//	M1 delivered indexes of one subscription never decrease
//	M2 after every view update the view equals the direct query result recorded at the
//	   delivered index (for the end of a snapshot: some version not later than the
//	   subscription answered the direct query with this very (index, result))
//	M3 a subscriber (streaming or resumed) that has nothing left to read while nothing is
//	   queued holds the current direct query result (no committed change skipped)
//	M4 after an ACL token write was published / after FSM.Restore the next Next() of every
//	   affected subscription fails with ErrACLChanged / ErrSubForceClosed; handler errors and
//	   unexpected framing events are violations of their own
//
// Every subscriber carries a REAL acl.Authorizer (all, none, service subsets, node subset); the
// events it takes from the shared buffer items pass through the real filter of the subscribe
// loop (Payload.HasReadPermission -> PayloadEvents.filter), and M2/M3 compare its view with the
// direct query filtered by the same authorizer (aclfilter / ConfigEntry.CanRead).
// A violation is reported under the signature of its root cause when the harness itself
// created that cause (snapshot taken while batches were queued, batch of a discarded history,
// materializer index beyond a restored version, a registration flagged by flagWrite from the
// store's own answers before it was applied); every other mismatch gets a generic signature.
// Schedules: deterministic witnesses of the five known findings, a deterministic corpus, an
// exhaustive enumeration of a small alphabet, and random schedules.
package main

import (
	"bytes"
	"context"
	"errors"
	"fmt"
	"io"
	"os"
	"sort"
	"strconv"
	"strings"
	"time"

	"github.com/hashicorp/go-hclog"
	"github.com/hashicorp/raft"

	"github.com/hashicorp/consul/acl"
	"github.com/hashicorp/consul/agent/consul/fsm"
	"github.com/hashicorp/consul/agent/consul/state"
	"github.com/hashicorp/consul/agent/consul/stream"
	"github.com/hashicorp/consul/agent/rpcclient/configentry"
	"github.com/hashicorp/consul/agent/rpcclient/health"
	"github.com/hashicorp/consul/agent/structs"
	"github.com/hashicorp/consul/agent/structs/aclfilter"
	"github.com/hashicorp/consul/agent/submatview"
	"github.com/hashicorp/consul/api"
	raftstorage "github.com/hashicorp/consul/internal/storage/raft"
	"github.com/hashicorp/consul/internal/verifharness/hx"
	"github.com/hashicorp/consul/proto/private/pbsubscribe"
	"github.com/hashicorp/consul/types"
)

func typesCheckID(s string) types.CheckID { return types.CheckID(s) }

const (
	sigKnown       = "stream:event-index<=snapshot-index-delivered-after-snapshot"
	sigDecrease    = "stream:delivered-index-decreased"
	sigView        = "stream:view-differs-from-state-at-delivered-index"
	sigSkipped     = "stream:skipped-commit"
	sigNoForce     = "stream:no-forced-resubscribe"
	sigPreRestore  = "stream:pre-restore-event-delivered-after-restore"
	sigStaleNoQ    = "stream:stale-event-after-snapshot-without-queued-publish"
	sigSnapshot    = "stream:snapshot-differs-from-direct-query"
	sigConnectLeak = "catalog-events:no-connect-deregister-when-instance-stops-being-connect-native"
	sigRenameOrder = "catalog-events:deregister-of-renamed-instance-ordered-after-node-reregistration"
	sigLocalResume = "stream:subscribe-resumes-on-pre-restore-topic-buffer"
	sigCfgCase     = "config-entry-events:subject-is-case-sensitive-but-the-config-entry-table-is-not"
	sigNodeCase    = "catalog-events:node-renamed-in-letter-case-leaves-instances-under-old-unique-id"
)

// ---------------------------------------------------------------- canonical forms

type keyT struct {
	topic string // h | c | g
	subj  string // name or *
}

func (k keyT) String() string { return k.topic + "." + k.subj }

var universe = []keyT{
	{"h", "web"}, {"h", "api"}, {"h", "db"},
	{"c", "web"}, {"c", "api"}, {"c", "db"},
	{"g", "web"}, {"g", "api"}, {"g", "*"},
}

var protocols = []string{"tcp", "http", "grpc", "http2"}

func kindOf(s *structs.NodeService) string {
	switch {
	case s.Kind == structs.ServiceKindTerminatingGateway:
		return "g"
	case s.Connect.Native:
		return "n"
	case s.Kind == structs.ServiceKindConnectProxy:
		return "p." + s.Proxy.DestinationServiceName
	default:
		return "t"
	}
}

func canonCSNs(nodes structs.CheckServiceNodes) string {
	type ent struct{ k, v string }
	var es []ent
	for _, n := range nodes {
		k := n.Node.Node + "/" + n.Service.ID
		v := fmt.Sprintf("%s:%s:%d:%s:%s", k, n.Service.Service, n.Service.Port, n.Node.Address, kindOf(n.Service))
		if wideCanon {
			// wide schedules also observe the health checks carried by every CheckServiceNode
			var cs []string
			for _, c := range n.Checks {
				cs = append(cs, fmt.Sprintf("%s=%s@%s", c.CheckID, c.Status, c.ServiceID))
			}
			sort.Strings(cs)
			v += ":[" + strings.Join(cs, ";") + "]"
		}
		es = append(es, ent{k, v})
	}
	sort.Slice(es, func(i, j int) bool { return es[i].k < es[j].k })
	t := make([]string, len(es))
	for i, e := range es {
		t[i] = e.v
	}
	return hx.EncList(t)
}

func canonCfgs(entries []structs.ConfigEntry) string {
	type ent struct{ k, v string }
	var es []ent
	for _, e := range entries {
		if e == nil {
			continue
		}
		sc, ok := e.(*structs.ServiceConfigEntry)
		if !ok {
			es = append(es, ent{e.GetName(), e.GetName() + "/:?"})
			continue
		}
		val := -1
		for i, p := range protocols {
			if p == sc.Protocol {
				val = i
			}
		}
		es = append(es, ent{sc.Name + "/", fmt.Sprintf("%s/:%s:%d:0:t", sc.Name, sc.Name, val)})
	}
	sort.Slice(es, func(i, j int) bool { return es[i].k < es[j].k })
	t := make([]string, len(es))
	for i, e := range es {
		t[i] = e.v
	}
	return hx.EncList(t)
}

var traceWide = os.Getenv("VERIF_C11_TRACE") != ""

// wideCanon: set while a wide (monitor-only) schedule runs; see wide.go
var wideCanon bool

type qres struct {
	idx  uint64
	view string
}

// ---------------------------------------------------------------- authorizers

// authzSpec is one small ACL policy; the harness builds REAL acl authorizers from the rules.
type authzSpec struct {
	name  string // protocol token: all | none | s:<names> | n:<nodes>
	rules string
}

var authzSpecs = []authzSpec{
	{"all", ""},
	{"none", ""},
	{"s:=web", `service "web" { policy = "read" } node_prefix "" { policy = "read" }`},
	{"s:=web,=api", `service "web" { policy = "read" } service "api" { policy = "read" } node_prefix "" { policy = "read" }`},
	{"n:=n1", `node "n1" { policy = "read" } service_prefix "" { policy = "read" }`},
}

var authorizers = func() map[string]acl.Authorizer {
	m := map[string]acl.Authorizer{"all": acl.ManageAll(), "none": acl.DenyAll()}
	for _, a := range authzSpecs {
		if a.rules == "" {
			continue
		}
		pol, err := acl.NewPolicyFromSource(a.rules, nil, nil)
		if err != nil {
			panic(err)
		}
		az, err := acl.NewPolicyAuthorizerWithDefaults(acl.DenyAll(), []*acl.Policy{pol}, nil)
		if err != nil {
			panic(err)
		}
		m[a.name] = az
	}
	return m
}()

func dumpKey(k keyT, az string) string {
	if az == "all" {
		return k.String()
	}
	return k.String() + "|" + az
}

// directQuery is the equivalent direct query, ACL-filtered the way the RPC endpoints do it
// (aclfilter for health results, ConfigEntry.CanRead for config entries).
func directQuery(s *state.Store, k keyT, az string) qres {
	authz := authorizers[az]
	filterNodes := func(nodes structs.CheckServiceNodes) structs.CheckServiceNodes {
		r := &structs.IndexedCheckServiceNodes{Nodes: append(structs.CheckServiceNodes(nil), nodes...)}
		aclfilter.New(authz, hclog.NewNullLogger()).Filter(r)
		return r.Nodes
	}
	switch k.topic {
	case "h":
		idx, nodes, err := s.CheckServiceNodes(nil, k.subj, nil, "")
		if err != nil {
			return qres{0, "err"}
		}
		return qres{idx, canonCSNs(filterNodes(nodes))}
	case "c":
		idx, nodes, err := s.CheckConnectServiceNodes(nil, k.subj, nil, "")
		if err != nil {
			return qres{0, "err"}
		}
		return qres{idx, canonCSNs(filterNodes(nodes))}
	default:
		var es []structs.ConfigEntry
		var idx uint64
		var err error
		if k.subj == "*" {
			idx, es, err = s.ConfigEntriesByKind(nil, structs.ServiceDefaults, structs.DefaultEnterpriseMetaInDefaultPartition())
		} else {
			var e structs.ConfigEntry
			idx, e, err = s.ConfigEntry(nil, structs.ServiceDefaults, k.subj, structs.DefaultEnterpriseMetaInDefaultPartition())
			if e != nil {
				es = []structs.ConfigEntry{e}
			}
		}
		if err != nil {
			return qres{0, "err"}
		}
		var vis []structs.ConfigEntry
		for _, e := range es {
			if e.CanRead(authz) == nil {
				vis = append(vis, e)
			}
		}
		return qres{idx, canonCfgs(vis)}
	}
}

// ---------------------------------------------------------------- the system under test

type mockSink struct {
	*bytes.Buffer
}

func (m *mockSink) ID() string    { return "c11" }
func (m *mockSink) Cancel() error { return nil }
func (m *mockSink) Close() error  { return nil }

type client struct {
	id   int
	key  keyT
	tok  string
	rpc  bool
	az   string // name of the subscriber's authorizer (authzSpecs)
	cl   *submatview.VerifC11Client
	view submatview.View
	sub  *stream.Subscription

	// monitor state (per subscription)
	phase         string // snap | stream | resume
	viaSnapshot   bool
	qAtSub        int
	verAtSub      uint64
	epochAtSub    int
	lastDelivered uint64
	seq           []string
	mustClose     string // "" | acl | force
	stale         bool   // a pre-subscription event was delivered and the view has not caught up yet
	staleSig      string
	staleUntil    uint64 // the queued batches that cause the staleness end at this version
	preRestore    bool   // the materializer holds a view of commits that a restore discarded
	snapQ         int    // batches queued when the snapshot this subscription started from was TAKEN
	snapVer       uint64 // store version at that moment (a cached snapshot is older than the subscription)
}

type gap struct {
	lo, hi uint64 // (lo, hi]
	epoch  int    // the restore that discarded it
}

type pending struct {
	idx uint64
	tok string
}

type world struct {
	run      *hx.Run
	pub      *stream.EventPublisher
	fsm      *fsm.FSM
	idx      uint64
	clients  map[int]*client
	order    []int
	dumps    map[uint64]map[string]qres // lineage: version -> key -> direct query result
	snaps    map[uint64][]byte
	queue    []pending // mirror of publishCh (harness bookkeeping only)
	epoch    int       // number of restores so far
	gaps     []gap     // commit index ranges discarded by restores (indexes are never reused)
	ops      []string  // replay of the current schedule
	tags     map[string]bool
	poison   map[string]map[string]string // key -> id -> signature (see flagWrite)
	cached   map[string]snapInfo          // key -> when the currently cached snapshot was taken
	cfgNames map[string]bool              // names of the service-defaults entries the harness wrote or deleted
	nodeCase bool                         // a registration changed the letter case of a stored node name (see noteNodeCase)
	univ     []keyT                       // subscription keys whose direct query is recorded at every version
	quiet    bool                         // monitor-only schedule: no protocol lines (the Lean model does not cover it)
}

type snapInfo struct {
	q   int
	ver uint64
}

func newWorld(run *hx.Run, ttl bool) *world { return newWorldU(run, ttl, universe, false) }

func newWorldU(run *hx.Run, ttl bool, univ []keyT, quiet bool) *world {
	wideCanon = quiet
	d := time.Duration(0)
	if ttl {
		d = time.Hour
	}
	pub := stream.NewEventPublisher(d)
	w := &world{run: run, pub: pub, clients: map[int]*client{}, dumps: map[uint64]map[string]qres{}, snaps: map[uint64][]byte{}, tags: map[string]bool{}, poison: map[string]map[string]string{}, cached: map[string]snapInfo{}, univ: univ, quiet: quiet}
	backend, err := raftstorage.NewBackend(nil, hclog.NewNullLogger())
	if err != nil {
		panic(err)
	}
	w.fsm = fsm.NewFromDeps(fsm.Deps{
		Logger:         hclog.NewNullLogger(),
		NewStateStore:  func() *state.Store { return state.NewStateStoreWithEventPublisher(nil, pub) },
		Publisher:      pub,
		StorageBackend: backend,
	})
	w.idx = 1 // Raft index 1 is never an FSM command
	w.dumps[1] = w.dumpAll()
	return w
}

// normKey is the routing identity of a subscription key: service subjects are case-insensitive
// (EventSubjectService.String, the memdb service / connect indexes)
func normKey(k keyT) string {
	if k.topic == "g" {
		return k.String()
	}
	return k.topic + "." + strings.ToLower(k.subj)
}

func (w *world) dumpAll() map[string]qres {
	m := map[string]qres{}
	for _, k := range w.univ {
		for _, a := range authzSpecs {
			m[dumpKey(k, a.name)] = directQuery(w.fsm.State(), k, a.name)
		}
	}
	return m
}

func (w *world) dumpStr(m map[string]qres) string {
	t := make([]string, len(w.univ))
	for i, k := range w.univ {
		q := m[k.String()]
		t[i] = fmt.Sprintf("%s@%d:%s", k.String(), q.idx, q.view)
	}
	return strings.Join(t, "|")
}

func (w *world) tag(t string) {
	w.run.Tag(t)
	w.tags[t] = true
}

func (w *world) violate(sig, desc string) {
	w.tag("monitor:" + sig)
	w.run.Violate(sig, desc, append([]string(nil), w.ops...))
	if os.Getenv("VERIF_C11_DEBUG") != "" && strings.Contains(sig, os.Getenv("VERIF_C11_DEBUG")) {
		fmt.Fprintf(os.Stderr, "VIOL %s\n  %s\n  %s\n", sig, desc, strings.Join(w.ops, " | "))
	}
}

func (w *world) apply(t structs.MessageType, req any) any {
	buf, err := structs.Encode(t, req)
	if err != nil {
		panic(err)
	}
	return w.fsm.Apply(&raft.Log{Index: w.idx, Term: 1, Type: raft.LogCommand, Data: buf})
}

// commit runs one write through FSM.Apply and records the direct query results at its index.
func (w *world) commit(t structs.MessageType, req any, tok string) string {
	before := w.pub.VerifC11QueueLen()
	resp := w.apply(t, req)
	if err, ok := resp.(error); ok && err != nil {
		w.tag("commit:error")
		w.dumps[w.idx] = w.dumpAll() // a refused write: the index advanced, the state did not
		return "err"
	}
	if w.pub.VerifC11QueueLen() > before {
		w.queue = append(w.queue, pending{w.idx, tok})
	}
	d := w.dumpAll()
	w.dumps[w.idx] = d
	return fmt.Sprintf("ok q=%d %s", w.pub.VerifC11QueueLen(), w.dumpStr(d))
}

type svcSpec struct {
	sid, name string
	port      int
	kind      string // t | n | p
	dest      string
}

func (w *world) nextIdx() uint64 { w.idx++; return w.idx }

// noteNodeCase: the harness is about to register a node under a name that differs from the stored
// node row only in letter case. The catalog treats the two as the same node (the row is renamed),
// the service rows keep the old spelling until they are written again, and CheckServiceNode.UniqueID
// — the key of a materialized HealthView — is case-sensitive.
func (w *world) noteNodeCase(node string) {
	_, n, _ := w.fsm.State().GetNode(node, nil, "")
	if n != nil && n.Node != node {
		w.nodeCase = true
		w.tag("flag:" + sigNodeCase)
	}
}

func (w *world) opReg(node string, addr int, svc *svcSpec) (string, string) {
	w.noteNodeCase(node)
	idx := w.nextIdx()
	req := structs.RegisterRequest{Datacenter: "dc1", Node: node, Address: strconv.Itoa(addr)}
	op := fmt.Sprintf("reg %d %s %d -", idx, hx.EncS(node), addr)
	if svc != nil {
		ns := &structs.NodeService{ID: svc.sid, Service: svc.name, Port: svc.port}
		switch svc.kind {
		case "n":
			ns.Connect.Native = true
		case "p":
			ns.Kind = structs.ServiceKindConnectProxy
			ns.Proxy.DestinationServiceName = svc.dest
		case "g":
			ns.Kind = structs.ServiceKindTerminatingGateway
		}
		req.Service = ns
		w.flagWrite(node, strconv.Itoa(addr), ns)
		op = fmt.Sprintf("reg %d %s %d %s %s %d %s %s", idx, hx.EncS(node), addr, hx.EncS(svc.sid), hx.EncS(svc.name), svc.port, svc.kind, hx.EncS(svc.dest))
		w.tag("write:reg-" + svc.kind)
	} else {
		w.tag("write:reg-node")
	}
	return op, w.commit(structs.RegisterRequestType, req, "")
}

func (w *world) opDereg(node, sid string) (string, string) {
	idx := w.nextIdx()
	req := structs.DeregisterRequest{Datacenter: "dc1", Node: node, ServiceID: sid}
	s := "-"
	if sid != "" {
		s = hx.EncS(sid)
		w.tag("write:dereg-svc")
	} else {
		w.tag("write:dereg-node")
	}
	return fmt.Sprintf("dereg %d %s %s", idx, hx.EncS(node), s), w.commit(structs.DeregisterRequestType, req, "")
}

func (w *world) noteCfg(name string) {
	if w.cfgNames == nil {
		w.cfgNames = map[string]bool{}
	}
	w.cfgNames[name] = true
}

func (w *world) opCfg(name string, val int) (string, string) {
	w.noteCfg(name)
	idx := w.nextIdx()
	req := &structs.ConfigEntryRequest{Op: structs.ConfigEntryUpsert, Datacenter: "dc1",
		Entry: &structs.ServiceConfigEntry{Kind: structs.ServiceDefaults, Name: name, Protocol: protocols[val%len(protocols)]}}
	w.tag("write:cfg")
	return fmt.Sprintf("cfg %d %s %d", idx, hx.EncS(name), val%len(protocols)), w.commit(structs.ConfigEntryRequestType, req, "")
}

func (w *world) opCfgDel(name string) (string, string) {
	w.noteCfg(name)
	idx := w.nextIdx()
	req := &structs.ConfigEntryRequest{Op: structs.ConfigEntryDelete, Datacenter: "dc1",
		Entry: &structs.ServiceConfigEntry{Kind: structs.ServiceDefaults, Name: name}}
	w.tag("write:cfgdel")
	return fmt.Sprintf("cfgdel %d %s", idx, hx.EncS(name)), w.commit(structs.ConfigEntryRequestType, req, "")
}

func (w *world) opTok(tok string) (string, string) {
	idx := w.nextIdx()
	acc := "00000000-0000-0000-0000-0000000000" + fmt.Sprintf("%02x", int(tok[len(tok)-1]))
	req := structs.ACLTokenBatchSetRequest{AllowMissingLinks: true,
		Tokens: structs.ACLTokens{&structs.ACLToken{AccessorID: acc, SecretID: tok, Description: fmt.Sprint(idx)}}}
	w.tag("write:tok")
	return fmt.Sprintf("tok %d %s", idx, hx.EncS(tok)), w.commit(structs.ACLTokenSetRequestType, req, tok)
}

func (w *world) opKV() (string, string) {
	idx := w.nextIdx()
	req := structs.KVSRequest{Datacenter: "dc1", Op: api.KVSet, DirEnt: structs.DirEntry{Key: "k", Value: []byte(fmt.Sprint(idx))}}
	w.tag("write:kv")
	return fmt.Sprintf("kv %d", idx), w.commit(structs.KVSRequestType, req, "")
}

func (w *world) opPub() (string, string) {
	if !w.pub.VerifC11DrainOne() {
		return "pub", "idle"
	}
	if len(w.queue) > 0 {
		p := w.queue[0]
		w.queue = w.queue[1:]
		if p.tok != "" {
			for _, id := range w.order {
				c := w.clients[id]
				if c.sub != nil && c.tok == p.tok && c.mustClose == "" {
					c.mustClose = "acl"
					w.tag("force:acl-pending")
				}
			}
		}
	}
	w.tag("pub")
	return "pub", fmt.Sprintf("pub q=%d", w.pub.VerifC11QueueLen())
}

func (w *world) opClientAz(id int, k keyT, tok string, rpc bool, az string) (string, string) {
	var view submatview.View
	switch {
	case k.topic == "g" && k.subj == "*":
		view = configentry.NewConfigEntryListView(structs.ServiceDefaults, *structs.DefaultEnterpriseMetaInDefaultPartition())
	case k.topic == "g":
		view = &configentry.ConfigEntryView{}
	default:
		hv, err := health.NewHealthView(structs.ServiceSpecificRequest{ServiceName: k.subj, Connect: k.topic == "c"})
		if err != nil {
			panic(err)
		}
		view = hv
	}
	c := &client{id: id, key: k, tok: tok, rpc: rpc, az: az, view: view, cl: submatview.VerifC11NewClient(view)}
	w.clients[id] = c
	w.order = append(w.order, id)
	sj := "*"
	if k.subj != "*" {
		sj = hx.EncS(k.subj)
	}
	w.tag("client:" + k.topic + map[bool]string{true: "-wild", false: ""}[k.subj == "*"] + map[bool]string{true: "-rpc", false: "-local"}[rpc])
	w.tag("authz:" + strings.SplitN(az, ":", 2)[0])
	return fmt.Sprintf("client %d %s %s %s %s %s", id, k.topic, sj, hx.EncS(tok), hx.EncBool(rpc), az), "ok"
}

func (w *world) opClient(id int, k keyT, tok string, rpc bool) (string, string) {
	return w.opClientAz(id, k, tok, rpc, "all")
}

func (c *client) dkey() string { return dumpKey(c.key, c.az) }

func (w *world) request(c *client, index uint64) *stream.SubscribeRequest {
	req := &pbsubscribe.SubscribeRequest{Token: c.tok, Index: index, Datacenter: "dc1"}
	switch c.key.topic {
	case "h":
		req.Topic = pbsubscribe.Topic_ServiceHealth
	case "c":
		req.Topic = pbsubscribe.Topic_ServiceHealthConnect
	default:
		req.Topic = pbsubscribe.Topic_ServiceDefaults
	}
	if c.key.subj == "*" {
		req.Subject = &pbsubscribe.SubscribeRequest_WildcardSubject{WildcardSubject: true}
	} else {
		req.Subject = &pbsubscribe.SubscribeRequest_NamedSubject{NamedSubject: &pbsubscribe.NamedSubject{Key: c.key.subj}}
	}
	sr, err := state.PBToStreamSubscribeRequest(req, req.EnterpriseMeta())
	if err != nil {
		panic(err)
	}
	return sr
}

func (w *world) opSub(id int) (string, string) {
	op := fmt.Sprintf("sub %d", id)
	c := w.clients[id]
	if c == nil {
		return op, "noclient"
	}
	if c.sub != nil {
		return op, "busy"
	}
	index := c.cl.Start()
	req := w.request(c, index)
	// what the implementation says about its snapshot cache (an observation, not a prediction)
	c.snapQ, c.snapVer = w.pub.VerifC11QueueLen(), w.idx
	hit := w.pub.VerifC11CachedSnapshot(req)
	if hit {
		if ci, ok := w.cached[c.key.String()]; ok {
			c.snapQ, c.snapVer = ci.q, ci.ver
		}
		w.tag("sub:cached-snapshot-available")
	}
	sub, err := w.pub.Subscribe(req)
	if err != nil {
		panic(err)
	}
	if !hit {
		if w.pub.VerifC11CachedSnapshot(req) {
			w.cached[c.key.String()] = snapInfo{c.snapQ, c.snapVer} // this subscription created the entry
		} else {
			delete(w.cached, c.key.String())
		}
	}
	c.sub = sub
	c.phase = "snap"
	if index != 0 {
		c.phase = "resume"
		w.tag("sub:index>0")
	} else {
		w.tag("sub:index=0")
	}
	c.viaSnapshot = false
	c.qAtSub = w.pub.VerifC11QueueLen()
	c.verAtSub = w.idx
	c.epochAtSub = w.epoch
	c.lastDelivered = 0
	c.seq = nil
	c.mustClose = ""
	if index == 0 {
		c.stale = false
	}
	if c.qAtSub > 0 {
		w.tag("sub:queue-nonempty")
	} else {
		w.tag("sub:queue-empty")
	}
	return op, "ok"
}

func (w *world) viewOf(c *client) (uint64, string) {
	idx, res := c.cl.Result()
	switch r := res.(type) {
	case *structs.IndexedCheckServiceNodes:
		return idx, canonCSNs(r.Nodes)
	case *structs.ConfigEntryResponse:
		if r.Entry == nil {
			return idx, "-"
		}
		return idx, canonCfgs([]structs.ConfigEntry{r.Entry})
	case *structs.IndexedConfigEntries:
		return idx, canonCfgs(r.Entries)
	}
	return idx, "?"
}

func (w *world) opUnsub(id int) (string, string) {
	op := fmt.Sprintf("unsub %d", id)
	c := w.clients[id]
	if c == nil {
		return op, "noclient"
	}
	if c.sub == nil {
		return op, "nosub"
	}
	c.sub.Unsubscribe()
	c.sub = nil
	c.mustClose = ""
	w.tag("unsub")
	return op, "ok"
}

func (w *world) opExpire() (string, string) {
	n := w.pub.VerifC11ExpireCache()
	w.cached = map[string]snapInfo{}
	if n > 0 {
		w.tag("expire:nonempty")
	} else {
		w.tag("expire:empty")
	}
	return "expire", fmt.Sprintf("ok n=%d", n)
}

func (w *world) saveSnapshot() {
	snap, err := w.fsm.Snapshot()
	if err != nil {
		panic(err)
	}
	defer snap.Release()
	sink := &mockSink{&bytes.Buffer{}}
	if err := snap.Persist(sink); err != nil {
		panic(err)
	}
	w.snaps[w.idx] = sink.Bytes()
}

func (w *world) opRestore(ver uint64) (string, string) {
	op := fmt.Sprintf("restore %d", ver)
	data, ok := w.snaps[ver]
	if !ok {
		panic("restore of an unsaved version")
	}
	if err := w.fsm.Restore(io.NopCloser(bytes.NewReader(data))); err != nil {
		panic(err)
	}
	for v := range w.dumps {
		if v > ver {
			delete(w.dumps, v)
		}
	}
	for v := range w.snaps {
		if v > ver {
			delete(w.snaps, v)
		}
	}
	w.epoch++
	w.gaps = append(w.gaps, gap{ver, w.idx, w.epoch})
	for _, id := range w.order {
		c := w.clients[id]
		if c.sub != nil && c.mustClose == "" {
			c.mustClose = "force"
		}
		// a materializer whose index is beyond the restored version reflects discarded commits
		if c.cl.Index() > ver {
			c.preRestore = true
		}
	}
	w.cached = map[string]snapInfo{} // RefreshAllTopics evicts every cached snapshot
	if w.pub.VerifC11QueueLen() > 0 {
		w.tag("restore:queue-nonempty")
	} else {
		w.tag("restore:queue-empty")
	}
	d := w.dumpAll()
	// the restored store must answer exactly as the store did at the saved version
	if w.quiet && w.dumpStr(d) != w.dumpStr(w.dumps[ver]) && viewsOnly(w.dumpStr(d)) == viewsOnly(w.dumpStr(w.dumps[ver])) {
		// OPEN (notes/C11-round5.md): after Restore the gateway-services rows are rebuilt from the
		// terminating-gateway config entry and carry ITS ModifyIndex, while an idempotent re-upsert of
		// the entry had left the live rows at their older index: same results, a larger query index.
		// Restore determinism is C02's subject; here the restored store's own answers become the
		// reference for the snapshots taken from it.
		w.tag("restore:index-only-difference")
		w.dumps[ver] = d
	}
	if w.dumpStr(d) != w.dumpStr(w.dumps[ver]) {
		w.violate("restore:state-differs-from-saved-version", fmt.Sprintf("restore %d: %s vs %s", ver, w.dumpStr(d), w.dumpStr(w.dumps[ver])))
	}
	return op, "ok " + w.dumpStr(d)
}

// viewsOnly strips the "@<index>" of every key of a dump string
func viewsOnly(s string) string {
	parts := strings.Split(s, "|")
	for i, p := range parts {
		if a := strings.Index(p, "@"); a >= 0 {
			if c := strings.Index(p[a:], ":"); c >= 0 {
				parts[i] = p[:a] + p[a+c:]
			}
		}
	}
	return strings.Join(parts, "|")
}

// lineageVersion returns the direct query results at the newest version <= idx.
func (w *world) at(idx uint64) (map[string]qres, bool) {
	d, ok := w.dumps[idx]
	return d, ok
}

func snapIdx(i uint64) uint64 {
	if i == 0 {
		return 1
	}
	return i
}

func (w *world) opNext(id int) (string, string) {
	op := fmt.Sprintf("next %d", id)
	c := w.clients[id]
	if c == nil || c.sub == nil {
		return op, "nosub"
	}
	if !c.sub.VerifC11Ready() {
		// M4: a subscription that must have been closed may not look idle
		if c.mustClose != "" {
			w.violate(sigNoForce, fmt.Sprintf("client %d (%s): subscription still open and idle after %s", id, c.key, c.mustClose))
			c.mustClose = ""
		}
		// M3: nothing left to read, nothing queued: the view must be the current state
		if w.pub.VerifC11QueueLen() == 0 && (c.phase == "stream" || c.phase == "resume") {
			_, v := w.viewOf(c)
			cur := directQuery(w.fsm.State(), c.key, c.az)
			if v != cur.view {
				sig := sigSkipped
				// the queue gap (known finding) never excuses a mismatch at quiescence: once every
				// queued batch has been replayed the view has converged
				if c.preRestore && !c.viaSnapshot {
					sig = sigLocalResume
				} else if c.stale && c.staleSig == sigPreRestore {
					sig = c.staleSig
				} else if a := w.attribute(c, v, cur.view); a != "" {
					sig = a
				}
				w.violate(sig, fmt.Sprintf("client %d (%s) idle with empty queue: view %s, direct query %s; delivered %v", id, c.key, v, cur.view, c.seq))
			}
			w.tag("quiescent-check")
		}
		w.tag("next:block")
		return op, "block"
	}
	ctx, cancel := context.WithTimeout(context.Background(), 5*time.Second)
	defer cancel()
	ev, err := c.sub.Next(ctx)
	if err != nil {
		kind := "other"
		switch {
		case errors.Is(err, stream.ErrSubForceClosed):
			kind = "force"
		case errors.Is(err, stream.ErrACLChanged):
			kind = "acl"
		}
		if kind == "other" {
			panic("unexpected Next error: " + err.Error())
		}
		if c.mustClose != "" && c.mustClose != kind {
			// an ACL close followed by a restore (or the reverse) keeps the first state: accepted
			w.tag("force:first-close-wins")
		}
		c.mustClose = ""
		if c.rpc {
			// subscribe.go answers codes.Aborted; RPCMaterializer.subscribeOnce resets the view
			c.cl.Reset()
			c.stale = false
			c.preRestore = false
		}
		// LocalMaterializer.subscribeOnce returns ErrSubForceClosed WITHOUT resetting: view and index
		// of a discarded history survive into the next Subscribe (preRestore was set by opRestore)
		w.tag("next:err-" + kind)
		return op, "err:" + kind
	}
	if c.mustClose != "" {
		w.violate(sigNoForce, fmt.Sprintf("client %d (%s): event %d delivered after %s", id, c.key, ev.Index, c.mustClose))
		c.mustClose = ""
	}
	// the ACL filter of the subscribe loop (subscribe.Server.Subscribe / LocalMaterializer.subscribeOnce):
	// for a multi-event item this is PayloadEvents.HasReadPermission -> PayloadEvents.filter, run on the
	// item every subscriber of the buffer shares
	if !ev.Payload.HasReadPermission(authorizers[c.az]) {
		c.seq = append(c.seq, fmt.Sprintf("skip@%d", ev.Index))
		w.tag("next:skip-acl")
		if c.phase == "snap" {
			// inside a snapshot the order of the items is memdb's iteration order: not compared
			return op, fmt.Sprintf("snap i=%d", ev.Index)
		}
		return op, fmt.Sprintf("skip i=%d", ev.Index)
	}
	if pe, ok := ev.Payload.(*stream.PayloadEvents); ok && c.az != "all" {
		w.tag(fmt.Sprintf("acl:batch-filtered-to-%d", len(pe.Items)))
	}
	pe := ev.Payload.ToSubscriptionEvent(ev.Index)
	if herr := c.cl.Handle(pe); herr != nil {
		// subscribeOnce resets the materializer and returns the error; the harness reports it
		w.violate("stream:materializer-handler-error", fmt.Sprintf("client %d (%s): handler rejected event %d: %v; delivered %v", id, c.key, ev.Index, herr, c.seq))
		c.phase = "bad"
		w.tag("next:handler-error")
		return op, "herr"
	}
	vidx, v := w.viewOf(c)
	kind := "ev"
	switch {
	case ev.IsNewSnapshotToFollow():
		kind = "nstf"
	case ev.IsEndOfSnapshot():
		kind = "eos"
	}
	c.seq = append(c.seq, fmt.Sprintf("%s@%d", kind, ev.Index))
	w.monitorDelivery(c, kind, ev.Index, vidx, v)
	w.tag("next:" + kind)
	if kind == "ev" && c.phase == "snap" {
		return op, fmt.Sprintf("snap i=%d", ev.Index)
	}
	return op, fmt.Sprintf("%s i=%d vi=%d v=%s", kind, ev.Index, vidx, v)
}

func (w *world) monitorDelivery(c *client, kind string, idx, vidx uint64, view string) {
	id := c.id
	switch kind {
	case "nstf":
		if c.phase != "resume" {
			w.violate("stream:unexpected-new-snapshot-to-follow", fmt.Sprintf("client %d (%s): %v", id, c.key, c.seq))
		}
		c.phase = "snap"
		c.viaSnapshot = true
		c.stale = false
		c.preRestore = false
		return
	case "eos":
		if c.phase != "snap" {
			w.violate("stream:unexpected-end-of-snapshot", fmt.Sprintf("client %d (%s): %v", id, c.key, c.seq))
		}
		c.phase = "stream"
		c.viaSnapshot = true
		if idx < c.lastDelivered {
			w.violate(sigDecrease, fmt.Sprintf("client %d (%s): end of snapshot %d after %d", id, c.key, idx, c.lastDelivered))
		}
		c.lastDelivered = idx
		// M2 (snapshot): some version not later than the subscription answered the direct query
		// with this very (index, result)
		ok := false
		for v, d := range w.dumps {
			if v <= c.verAtSub && d[c.dkey()].view == view && snapIdx(d[c.dkey()].idx) == idx {
				ok = true
				break
			}
		}
		if !ok || vidx != idx {
			w.violate(sigSnapshot, fmt.Sprintf("client %d (%s): snapshot idx=%d view=%s matches no direct query result up to version %d", id, c.key, idx, view, c.verAtSub))
		}
		w.tag("check:snapshot")
		return
	}
	// an ordinary event
	if c.phase == "snap" {
		// snapshot content, accumulated until the end-of-snapshot marker
		if idx < c.lastDelivered {
			w.violate(sigDecrease, fmt.Sprintf("client %d (%s): snapshot item %d after %d", id, c.key, idx, c.lastDelivered))
		}
		c.lastDelivered = idx
		return
	}
	c.phase = "stream"
	// Root-cause classification of a delivery that belongs to a commit made before the
	// subscription started (the classification only uses what the harness did, not the model).
	preRestore := false
	var hit gap
	for _, g := range w.gaps {
		if idx > g.lo && idx <= g.hi && c.epochAtSub >= g.epoch {
			preRestore, hit = true, g
		}
	}
	staleQueued := c.viaSnapshot && c.snapQ > 0 && idx <= c.snapVer
	switch {
	case preRestore:
		c.stale, c.staleSig = true, sigPreRestore
		w.violate(sigPreRestore, fmt.Sprintf("client %d (%s) subscribed after the restore to version %d received event %d of the discarded history (%d,%d]; delivered %v", id, c.key, hit.lo, idx, hit.lo, hit.hi, c.seq))
	case staleQueued:
		if !c.stale {
			c.stale, c.staleSig, c.staleUntil = true, sigKnown, c.snapVer
		}
		w.tag("known:stale-delivery")
		if idx < c.lastDelivered {
			w.violate(sigKnown, fmt.Sprintf("client %d (%s): its snapshot was taken at version %d while %d committed batches were still queued for publication: delivered %v (index decreases)", id, c.key, c.snapVer, c.snapQ, c.seq))
		}
	case idx < c.lastDelivered:
		sig := sigDecrease
		if c.viaSnapshot && idx <= c.snapVer {
			sig = sigStaleNoQ
		}
		w.violate(sig, fmt.Sprintf("client %d (%s) subscribed at version %d (queue %d): delivered %v", id, c.key, c.verAtSub, c.qAtSub, c.seq))
	}
	if c.stale && c.staleSig == sigKnown && idx >= c.staleUntil {
		c.stale = false // every queued batch has been replayed: the view must be exact from here on
	}
	c.lastDelivered = idx
	// M2: the view equals the direct query result recorded at the delivered index
	d, ok := w.dumps[idx]
	want := "<no such version>"
	if ok {
		want = d[c.dkey()].view
	}
	if !ok || want != view || vidx != idx {
		sig := sigView
		if c.preRestore && !c.viaSnapshot {
			sig = sigLocalResume
		} else if c.stale {
			sig = c.staleSig
		} else if a := w.attribute(c, view, want); ok && a != "" {
			sig = a
		}
		w.violate(sig, fmt.Sprintf("client %d (%s) subscribed at version %d (queue %d): after event %d view(%d)=%s but the direct query at %d returned %s; delivered %v", id, c.key, c.verAtSub, c.qAtSub, idx, vidx, view, idx, want, c.seq))
	}
	w.tag("check:view-at-index")
}

// attribute recognises mismatches that are the lasting effect of a write the harness itself
// flagged (before applying it, from the store's own answers) as one of two event-generation
// shapes of catalog_events.go; see flagWrite. Every differing id must be flagged for this key.
func (w *world) attribute(c *client, view, want string) string {
	if c.key.topic == "g" && c.key.subj != "*" {
		// the harness itself wrote an entry whose name differs from the subscribed name only in letter
		// case: the config-entries table (and so the direct query) treats them as one entry, the event
		// subject (EventSubjectConfigEntry.String) does not
		for n := range w.cfgNames {
			if n != c.key.subj && strings.EqualFold(n, c.key.subj) {
				return sigCfgCase
			}
		}
	}
	if w.nodeCase && c.key.topic != "g" {
		return sigNodeCase
	}
	parse := func(v string) map[string]string {
		m := map[string]string{}
		for _, e := range strings.Split(v, ",") {
			if e != "-" && e != "" {
				m[strings.SplitN(e, ":", 2)[0]] = e
			}
		}
		return m
	}
	a, b := parse(view), parse(want)
	sig := ""
	n := 0
	for id, e := range a {
		if b[id] != e {
			p, ok := w.poison[normKey(c.key)][id]
			if !ok {
				return ""
			}
			sig = p
			n++
		}
	}
	for id := range b {
		if _, ok := a[id]; !ok {
			p, ok := w.poison[normKey(c.key)][id]
			if !ok {
				return ""
			}
			sig = p
			n++
		}
	}
	if n == 0 {
		return ""
	}
	return sig
}

// connectSubjects: the Connect-topic subjects (lower-cased: routing is case-insensitive) an
// instance is published under: its own name (connect-native), its destination (sidecar proxy),
// the services linked to it in gateway-services (terminating gateway).
func (w *world) connectSubjects(s *structs.NodeService) []string {
	switch {
	case s.Kind == structs.ServiceKindTerminatingGateway:
		_, gs, err := w.fsm.State().GatewayServices(nil, s.Service, nil)
		if err != nil {
			return nil
		}
		var out []string
		for _, g := range gs {
			out = append(out, strings.ToLower(g.Service.Name))
		}
		return out
	case s.Connect.Native:
		return []string{strings.ToLower(s.Service)}
	case s.Kind == structs.ServiceKindConnectProxy:
		return []string{strings.ToLower(s.Proxy.DestinationServiceName)}
	}
	return nil
}

// flagWrite inspects a registration BEFORE it is applied (using only the store's own
// answers) and records the (key, id) pairs whose streamed view can no longer be trusted:
//
//	D1 an instance that is connect-native for subject X is re-registered so that it is no
//	   longer Connect-enabled for X: catalog_events.go publishes no deregistration on the
//	   Connect topic for X;
//	D2 one registration changes the node and renames an instance (before.ServiceName !=
//	   after.ServiceName, a byte comparison) while one of its subjects stays the same (the
//	   Connect subject of a sidecar / native instance; the ServiceHealth subject when the two
//	   names differ only in letter case, subjects being case-insensitive): the deregistration
//	   of the old name is appended AFTER the node-level re-registration, so subscribers of that
//	   subject drop a live instance.
func (w *world) flagWrite(node string, addr string, after *structs.NodeService) {
	st := w.fsm.State()
	_, before, err := st.NodeService(nil, node, after.ID, nil, "")
	if err != nil || before == nil {
		return
	}
	_, n, _ := st.GetNode(node, nil, "")
	nodeChanged := n == nil || n.Address != addr || n.Node != node
	id := node + "/" + after.ID
	mark := func(k, sig string) {
		if w.poison[k] == nil {
			w.poison[k] = map[string]string{}
		}
		w.poison[k][id] = sig
		w.tag("flag:" + sig)
	}
	bs, as := w.connectSubjects(before), w.connectSubjects(after)
	in := func(x string, l []string) bool {
		for _, y := range l {
			if x == y {
				return true
			}
		}
		return false
	}
	if before.Connect.Native && before.Kind != structs.ServiceKindTerminatingGateway {
		for _, b := range bs {
			if !in(b, as) {
				mark("c."+b, sigConnectLeak)
			}
		}
	}
	if nodeChanged && before.Service != after.Service {
		if strings.EqualFold(before.Service, after.Service) && strings.ToLower(before.Service) == strings.ToLower(after.Service) {
			mark("h."+strings.ToLower(before.Service), sigRenameOrder)
		}
		for _, b := range bs {
			if in(b, as) {
				mark("c."+b, sigRenameOrder)
			}
		}
	}
}

// ---------------------------------------------------------------- schedules

type sched struct {
	w       *world
	r       *hx.RNG
	key     strings.Builder
	wide    bool     // monitor-only schedule over the wide write alphabet (wide.go)
	nodes   []string // node names the writes pick from
	cfgName string   // wide: the one spelling this schedule writes the service-defaults entry under
	cfgCase bool     // wide: service-defaults entries named web / Web
}

func (s *sched) emit(op, out string) {
	s.w.ops = append(s.w.ops, op)
	if !s.w.quiet {
		s.w.run.Line(op, out)
	} else if traceWide {
		fmt.Fprintf(os.Stderr, "WIDE %s => %s\n", op, out)
	}
	s.key.WriteString(op)
	s.key.WriteByte(';')
}

func begin(run *hx.Run, ttl bool) *sched {
	w := newWorld(run, ttl)
	s := &sched{w: w, nodes: nodes}
	s.emit("new "+hx.EncBool(ttl), "ok")
	return s
}

// finish drains the queue, lets every client read until it blocks, and counts the case.
func (s *sched) finish() {
	w := s.w
	for w.pub.VerifC11QueueLen() > 0 {
		s.emit(w.opPub())
	}
	for _, id := range w.order {
		for i := 0; i < 200; i++ {
			op, out := w.opNext(id)
			s.emit(op, out)
			if out == "block" || out == "nosub" || strings.HasPrefix(out, "err:") {
				break
			}
		}
	}
	for _, id := range w.order {
		if w.clients[id].sub != nil {
			s.emit(w.opUnsub(id))
		}
	}
	nontrivial := w.tags["next:ev"] || w.tags["next:eos"]
	w.run.Case(s.key.String(), nontrivial)
	w.run.Tag(fmt.Sprintf("len:%02d-%02d", len(w.ops)/10*10, len(w.ops)/10*10+9))
}

var (
	nodes = []string{"n1", "n2"}
	sids  = []string{"s1", "s2", "s3"}
	names = []string{"web", "web", "web", "api", "db"}
	toks  = []string{"t1", "t2"}
)

func (s *sched) randomWrite() {
	if s.wide {
		s.wideWrite()
		return
	}
	w, r := s.w, s.r
	switch x := r.Intn(100); {
	case x < 50:
		kind := []string{"t", "t", "n", "p"}[r.Intn(4)]
		dest := ""
		if kind == "p" {
			dest = []string{"web", "api"}[r.Intn(2)]
		}
		s.emit(w.opReg(hx.Pick(r, nodes), 1+r.Intn(2), &svcSpec{hx.Pick(r, sids), hx.Pick(r, names), 80 + r.Intn(2), kind, dest}))
	case x < 58:
		s.emit(w.opReg(hx.Pick(r, nodes), 1+r.Intn(3), nil))
	case x < 72:
		s.emit(w.opDereg(hx.Pick(r, nodes), hx.Pick(r, sids)))
	case x < 77:
		s.emit(w.opDereg(hx.Pick(r, nodes), ""))
	case x < 86:
		s.emit(w.opCfg([]string{"web", "api"}[r.Intn(2)], r.Intn(3)))
	case x < 90:
		s.emit(w.opCfgDel([]string{"web", "api"}[r.Intn(2)]))
	case x < 96:
		s.emit(w.opTok(hx.Pick(r, toks)))
	default:
		s.emit(w.opKV())
	}
	if r.Chance(35) {
		w.saveSnapshot()
	}
}

func randomSchedule(run *hx.Run, r *hx.RNG, maxActs int, withRestore bool) {
	s := begin(run, r.Chance(70))
	randomBody(s, r, maxActs, withRestore)
}

func randomBody(s *sched, r *hx.RNG, maxActs int, withRestore bool) {
	s.r = r
	w := s.w
	nClients := 2 + r.Intn(3)
	focus := w.univ[r.Intn(len(w.univ))]
	for i := 1; i <= nClients; i++ {
		k := focus
		if r.Chance(40) {
			k = w.univ[r.Intn(len(w.univ))]
		}
		az := "all"
		if r.Chance(45) {
			az = authzSpecs[r.Intn(len(authzSpecs))].name
		}
		s.emit(w.opClientAz(i, k, hx.Pick(r, toks), r.Bool(), az))
	}
	// a little initial state
	for i := r.Intn(4); i > 0; i-- {
		s.randomWrite()
	}
	if r.Chance(60) {
		for w.pub.VerifC11QueueLen() > 0 {
			s.emit(w.opPub())
		}
	}
	n := 4 + r.Intn(maxActs)
	for i := 0; i < n; i++ {
		id := 1 + r.Intn(nClients)
		if w.pub.VerifC11QueueLen() >= 48 {
			s.emit(w.opPub())
			continue
		}
		switch x := r.Intn(100); {
		case x < 28:
			s.randomWrite()
		case x < 46:
			s.emit(w.opPub())
		case x < 60:
			if w.clients[id].sub != nil && r.Chance(70) {
				s.emit(w.opNext(id))
			} else {
				s.emit(w.opSub(id))
			}
		case x < 84:
			op, out := w.opNext(id)
			s.emit(op, out)
			if strings.HasPrefix(out, "err:") && r.Chance(75) {
				// what subscribeOnce / Run do next: Unsubscribe, then subscribe again
				s.emit(w.opUnsub(id))
				if r.Chance(30) {
					s.randomWrite()
				}
				s.emit(w.opSub(id))
			}
		case x < 89:
			// a reconnecting client: resume at the index it holds
			if w.clients[id].sub != nil {
				s.emit(w.opUnsub(id))
			}
			s.emit(w.opSub(id))
		case x < 93:
			s.emit(w.opUnsub(id))
		case x < 96:
			s.emit(w.opExpire())
		default:
			if withRestore && len(w.snaps) > 0 {
				vs := make([]uint64, 0, len(w.snaps))
				for v := range w.snaps {
					vs = append(vs, v)
				}
				sort.Slice(vs, func(i, j int) bool { return vs[i] < vs[j] })
				s.emit(w.opRestore(vs[r.Intn(len(vs))]))
			} else {
				s.emit(w.opNext(id))
			}
		}
	}
	s.finish()
}

// knownWitness is DESIGN §6 #9: two commits queued, subscribe, then publish: delivered
// indexes 2(snapshot), 2(end), 1, 2 — the view transiently regresses.
func knownWitness(run *hx.Run) {
	s := begin(run, true)
	w := s.w
	s.emit(w.opClient(1, keyT{"h", "web"}, "t1", true))
	s.emit(w.opReg("n1", 1, &svcSpec{"s1", "web", 80, "t", ""}))
	s.emit(w.opReg("n1", 1, &svcSpec{"s1", "web", 81, "t", ""}))
	s.emit(w.opSub(1))
	s.emit(w.opPub())
	s.emit(w.opPub())
	for i := 0; i < 5; i++ {
		s.emit(w.opNext(1))
	}
	s.expect(sigKnown, "two queued commits, subscribe, publish: no stale delivery observed")
	s.finish()
}

func (s *sched) expect(sig, what string) {
	if !s.w.tags["monitor:"+sig] {
		s.w.violate("harness:witness-not-reproduced:"+sig, what)
	}
}

// preRestoreWitness: a batch committed before FSM.Restore is still queued; a subscription
// made after the restore receives it on top of the restored state.
func preRestoreWitness(run *hx.Run) {
	s := begin(run, true)
	w := s.w
	s.emit(w.opClient(1, keyT{"h", "web"}, "t1", true))
	s.emit(w.opReg("n1", 1, &svcSpec{"s1", "web", 80, "t", ""}))
	s.emit(w.opPub())
	w.saveSnapshot()
	s.emit(w.opReg("n1", 1, &svcSpec{"s1", "web", 81, "t", ""}))
	s.emit(w.opRestore(2))
	s.emit(w.opSub(1))
	s.emit(w.opPub())
	for i := 0; i < 4; i++ {
		s.emit(w.opNext(1))
	}
	s.expect(sigPreRestore, "commit, restore to the previous version, subscribe, publish: no pre-restore event observed")
	s.finish()
}

// connectLeakWitness: a connect-native instance is re-registered as a plain one.
func connectLeakWitness(run *hx.Run) {
	s := begin(run, false)
	w := s.w
	s.emit(w.opClient(1, keyT{"c", "web"}, "t1", false))
	s.emit(w.opReg("n1", 1, &svcSpec{"s1", "web", 80, "n", ""}))
	s.emit(w.opPub())
	s.emit(w.opSub(1))
	s.emit(w.opNext(1))
	s.emit(w.opNext(1))
	s.emit(w.opReg("n1", 1, &svcSpec{"s1", "web", 80, "t", ""}))
	s.emit(w.opPub())
	s.emit(w.opNext(1))
	s.expect(sigConnectLeak, "native instance re-registered as typical: Connect view still exact?")
	s.finish()
}

// renameOrderWitness: one registration changes the node address and renames a sidecar proxy
// whose destination stays the same.
func renameOrderWitness(run *hx.Run) {
	s := begin(run, false)
	w := s.w
	s.emit(w.opClient(1, keyT{"c", "web"}, "t1", false))
	s.emit(w.opReg("n1", 1, &svcSpec{"s1", "api", 80, "p", "web"}))
	s.emit(w.opPub())
	s.emit(w.opSub(1))
	s.emit(w.opNext(1))
	s.emit(w.opNext(1))
	s.emit(w.opReg("n1", 2, &svcSpec{"s1", "db", 80, "p", "web"}))
	s.emit(w.opPub())
	s.emit(w.opNext(1))
	s.expect(sigRenameOrder, "node change + proxy rename in one registration: Connect view still exact?")
	s.finish()
}

// localResumeWitness: two subscribers on one key; after FSM.Restore the local materializer of
// the first one re-subscribes (index kept) while the second, force-closed but not yet
// unsubscribed, keeps the topic buffer alive: Subscribe resumes it on the pre-restore view.
func localResumeWitness(run *hx.Run) {
	s := begin(run, false)
	w := s.w
	s.emit(w.opClient(1, keyT{"h", "web"}, "t1", false))
	s.emit(w.opClient(2, keyT{"h", "web"}, "t1", true))
	s.emit(w.opReg("n1", 1, &svcSpec{"s1", "web", 80, "t", ""}))
	s.emit(w.opPub())
	w.saveSnapshot()
	s.emit(w.opSub(1))
	s.emit(w.opSub(2))
	s.emit(w.opNext(1))
	s.emit(w.opNext(1))
	s.emit(w.opReg("n1", 1, &svcSpec{"s1", "web", 81, "t", ""}))
	s.emit(w.opPub())
	s.emit(w.opNext(1))
	s.emit(w.opRestore(2))
	s.emit(w.opNext(1))
	s.emit(w.opUnsub(1))
	s.emit(w.opSub(1))
	s.emit(w.opNext(1))
	s.expect(sigLocalResume, "restore, local materializer re-subscribes while another closed subscription keeps the buffer: resumed on the old view?")
	s.finish()
}

// corpus: deterministic schedules that pin one branch each (they run first on every tier)
func corpus(run *hx.Run) {
	web := func(port int) *svcSpec { return &svcSpec{"s1", "web", port, "t", ""} }
	drain := func(s *sched, id int) {
		for i := 0; i < 8; i++ {
			op, out := s.w.opNext(id)
			s.emit(op, out)
			if out == "block" || strings.HasPrefix(out, "err") {
				return
			}
		}
	}
	// a disconnected client misses a commit: the re-subscription must NOT be resumed
	{
		s := begin(run, false)
		w := s.w
		s.emit(w.opClient(1, keyT{"h", "web"}, "t1", false))
		s.emit(w.opClient(2, keyT{"h", "web"}, "t2", true))
		s.emit(w.opReg("n1", 1, web(80)))
		s.emit(w.opPub())
		s.emit(w.opSub(1))
		s.emit(w.opSub(2))
		drain(s, 1)
		s.emit(w.opUnsub(1))
		s.emit(w.opReg("n1", 1, web(81)))
		s.emit(w.opPub())
		s.emit(w.opReg("n2", 1, &svcSpec{"s2", "api", 80, "t", ""}))
		s.emit(w.opPub())
		s.emit(w.opSub(1))
		drain(s, 1)
		drain(s, 2)
		s.finish()
	}
	// a disconnected client misses nothing: resumed, and later events still arrive
	{
		s := begin(run, true)
		w := s.w
		s.emit(w.opClient(1, keyT{"h", "web"}, "t1", true))
		s.emit(w.opClient(2, keyT{"h", "web"}, "t2", false))
		s.emit(w.opReg("n1", 1, web(80)))
		s.emit(w.opPub())
		s.emit(w.opSub(1))
		s.emit(w.opSub(2))
		s.emit(w.opReg("n1", 1, web(81)))
		s.emit(w.opPub())
		drain(s, 1)
		s.emit(w.opUnsub(1))
		s.emit(w.opKV())
		s.emit(w.opPub())
		s.emit(w.opSub(1))
		s.emit(w.opReg("n1", 1, web(82)))
		s.emit(w.opPub())
		drain(s, 1)
		drain(s, 2)
		s.finish()
	}
	// cached snapshot shared by two subscribers, then expired
	{
		s := begin(run, true)
		w := s.w
		s.emit(w.opClient(1, keyT{"c", "web"}, "t1", true))
		s.emit(w.opClient(2, keyT{"c", "web"}, "t1", true))
		s.emit(w.opClient(3, keyT{"c", "web"}, "t1", true))
		s.emit(w.opReg("n1", 1, &svcSpec{"s1", "web", 80, "n", ""}))
		s.emit(w.opPub())
		s.emit(w.opSub(1))
		s.emit(w.opReg("n1", 1, &svcSpec{"s2", "api", 80, "p", "web"}))
		s.emit(w.opPub())
		s.emit(w.opSub(2))
		s.emit(w.opExpire())
		s.emit(w.opSub(3))
		drain(s, 1)
		drain(s, 2)
		drain(s, 3)
		s.finish()
	}
	// subscribers with DIFFERENT tokens share one cached multi-event snapshot and the live buffer:
	// the restricted ones read every shared item first; what the others get must not change
	for _, order := range [][]int{{1, 2, 3}, {3, 1, 2}, {2, 3, 1}} {
		s := begin(run, true)
		w := s.w
		s.emit(w.opClientAz(1, keyT{"g", "*"}, "t1", true, "s:=web"))
		s.emit(w.opClientAz(2, keyT{"g", "*"}, "t2", false, "all"))
		s.emit(w.opClientAz(3, keyT{"g", "*"}, "t2", true, "s:=web,=api"))
		s.emit(w.opCfg("api", 1))
		s.emit(w.opCfg("web", 2))
		s.emit(w.opCfg("db", 0))
		for w.pub.VerifC11QueueLen() > 0 {
			s.emit(w.opPub())
		}
		for _, id := range order {
			s.emit(w.opSub(id))
		}
		for _, id := range order {
			drain(s, id)
		}
		s.emit(w.opCfg("api", 2))
		s.emit(w.opCfgDel("web"))
		s.emit(w.opPub())
		s.emit(w.opPub())
		for _, id := range order {
			drain(s, id)
		}
		s.finish()
	}
	// the same on the health topic: node rules, instances on two nodes, cached snapshot
	for _, order := range [][]int{{1, 2}, {2, 1}} {
		s := begin(run, true)
		w := s.w
		s.emit(w.opClientAz(1, keyT{"h", "web"}, "t1", true, "n:=n1"))
		s.emit(w.opClientAz(2, keyT{"h", "web"}, "t2", true, "all"))
		s.emit(w.opReg("n1", 1, &svcSpec{"s1", "web", 80, "t", ""}))
		s.emit(w.opReg("n2", 1, &svcSpec{"s2", "web", 80, "t", ""}))
		s.emit(w.opReg("n1", 1, &svcSpec{"s3", "web", 80, "n", ""}))
		for w.pub.VerifC11QueueLen() > 0 {
			s.emit(w.opPub())
		}
		for _, id := range order {
			s.emit(w.opSub(id))
		}
		for _, id := range order {
			drain(s, id)
		}
		s.emit(w.opReg("n1", 2, nil)) // re-registers s1 and s3 in one batch
		s.emit(w.opDereg("n2", ""))
		s.emit(w.opPub())
		s.emit(w.opPub())
		for _, id := range order {
			drain(s, id)
		}
		s.finish()
	}
	// Connect topic with a service-subset token: a sidecar is renamed to a name the token cannot
	// read (same destination) and back; the deregistration of the old name is visible, so the
	// filtered view must follow the filtered direct query at every step
	{
		s := begin(run, false)
		w := s.w
		s.emit(w.opClientAz(1, keyT{"c", "web"}, "t1", true, "s:=web,=api"))
		s.emit(w.opClientAz(2, keyT{"c", "web"}, "t2", false, "all"))
		s.emit(w.opReg("n1", 1, &svcSpec{"s1", "api", 80, "p", "web"}))
		s.emit(w.opPub())
		s.emit(w.opSub(1))
		s.emit(w.opSub(2))
		drain(s, 1)
		drain(s, 2)
		s.emit(w.opReg("n1", 1, &svcSpec{"s1", "db", 80, "p", "web"}))
		s.emit(w.opPub())
		drain(s, 1)
		drain(s, 2)
		s.emit(w.opReg("n1", 1, &svcSpec{"s1", "db", 81, "p", "web"}))
		s.emit(w.opPub())
		drain(s, 1)
		drain(s, 2)
		s.emit(w.opReg("n1", 1, &svcSpec{"s1", "api", 81, "p", "web"}))
		s.emit(w.opPub())
		drain(s, 1)
		drain(s, 2)
		s.finish()
	}
	// ACL token write closes exactly the subscriptions of that token
	{
		s := begin(run, false)
		w := s.w
		s.emit(w.opClient(1, keyT{"g", "*"}, "t1", true))
		s.emit(w.opClient(2, keyT{"g", "web"}, "t2", false))
		s.emit(w.opCfg("web", 1))
		s.emit(w.opPub())
		s.emit(w.opSub(1))
		s.emit(w.opSub(2))
		drain(s, 1)
		drain(s, 2)
		s.emit(w.opTok("t1"))
		s.emit(w.opCfg("api", 2))
		s.emit(w.opPub())
		s.emit(w.opPub())
		drain(s, 1)
		drain(s, 2)
		s.emit(w.opUnsub(1))
		s.emit(w.opSub(1))
		drain(s, 1)
		s.emit(w.opCfgDel("web"))
		s.emit(w.opPub())
		drain(s, 1)
		drain(s, 2)
		s.finish()
	}
}

// exhaustive enumerates EVERY schedule of exactly `depth` actions over a small alphabet after a
// fixed prefix (one published registration, two subscribers declared): validation of the tie on a
// complete small scope, not the claim itself.
func exhaustive(run *hx.Run, depth int) int {
	const alphabet = 7
	seq := make([]int, depth)
	count := 0
	for {
		s := begin(run, true)
		w := s.w
		s.emit(w.opClient(1, keyT{"h", "web"}, "t1", false))
		s.emit(w.opClient(2, keyT{"h", "web"}, "t1", true))
		s.emit(w.opReg("n1", 1, &svcSpec{"s1", "web", 80, "t", ""}))
		s.emit(w.opPub())
		port := 80
		for _, a := range seq {
			switch a {
			case 0:
				port++
				s.emit(w.opReg("n1", 1, &svcSpec{"s1", "web", port, "t", ""}))
			case 1:
				s.emit(w.opReg("n2", 1, &svcSpec{"s2", "web", 80, "n", ""}))
			case 2:
				s.emit(w.opPub())
			case 3:
				s.emit(w.opSub(1))
			case 4:
				s.emit(w.opNext(1))
			case 5:
				s.emit(w.opUnsub(1))
			case 6:
				s.emit(w.opSub(2))
			}
		}
		s.finish()
		count++
		i := depth - 1
		for i >= 0 {
			seq[i]++
			if seq[i] < alphabet {
				break
			}
			seq[i] = 0
			i--
		}
		if i < 0 {
			break
		}
	}
	run.Tag(fmt.Sprintf("exhaustive:depth-%d", depth))
	return count
}

func main() {
	run := hx.Start()
	run.Rule = "schedules over {client, commit(reg|dereg|cfg|cfgdel|tok|kv), pub (drain one queued batch), sub, next, unsub, expire, restore}; nontrivial = at least one event or snapshot delivered"
	subjectLines(run)
	knownWitness(run)
	preRestoreWitness(run)
	connectLeakWitness(run)
	renameOrderWitness(run)
	localResumeWitness(run)
	corpus(run)
	depth := run.Scale(3, 4)
	if run.Thorough() && run.Seed%2 == 1 {
		depth = 5 // the enumeration does not depend on the seed: the deepest one runs once per check
	}
	run.Extra["exhaustive_schedules"] = exhaustive(run, depth)
	run.Extra["exhaustive"] = true
	n := run.Scale(400, 2500)
	for i := 0; i < n; i++ {
		r := run.RNG.Fork(uint64(i))
		randomSchedule(run, r, 26, i%3 == 2)
	}
	// monitor-only schedules over gateways, checks, transactions, case-variant names (wide.go)
	wideCorpus(run)
	nodeCaseWitness(run)
	cfgCaseWitness(run)
	nw := run.Scale(300, 2000)
	for i := 0; i < nw; i++ {
		r := run.RNG.Fork(uint64(1<<32 + i))
		wideSchedule(run, r, 30, i%4 == 3, i%5 == 4)
	}
	wideCanon = false
	run.Finish()
}
