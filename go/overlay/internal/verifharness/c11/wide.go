//go:build verif

// Wide schedules: the same machinery (real FSM / store / publisher / subscriptions / materializer /
// views, the same monitors M1–M4) over inputs the Lean model does not describe: terminating
// gateways linked through terminating-gateway config entries (events routed by overrideKey),
// health checks (node- and service-level; every CheckServiceNode carries them), several
// catalog operations in one transaction, and node names that differ in letter case. These
// schedules are MONITOR-ONLY: they print no protocol lines. (Service names and subscription
// subjects that differ in letter case ARE modelled: they also occur in the compared schedules.)
package main

import (
	"fmt"
	"sort"
	"strings"

	"github.com/hashicorp/consul/agent/structs"
	"github.com/hashicorp/consul/api"
	"github.com/hashicorp/consul/internal/verifharness/hx"
)

var wideUniverse = []keyT{
	{"h", "web"}, {"h", "Web"}, {"h", "api"}, {"h", "tgw"},
	{"c", "web"}, {"c", "Web"}, {"c", "api"}, {"c", "db"},
	{"g", "web"}, {"g", "Web"}, {"g", "*"},
}

var (
	wideNames = []string{"web", "web", "Web", "WEB", "api", "db"}
	wideDests = []string{"web", "Web", "api", "wEb"}
	gateways  = []string{"tgw", "tgw2"}
	checkIDs  = []string{"c1", "c2"}
	statuses  = []string{api.HealthPassing, api.HealthWarning, api.HealthCritical}
)

func beginWide(run *hx.Run, ttl bool) *sched {
	w := newWorldU(run, ttl, wideUniverse, true)
	s := &sched{w: w, wide: true, nodes: nodes}
	s.emit("wide "+hx.EncBool(ttl), "ok")
	w.tag("wide:schedule")
	return s
}

func (w *world) opTermCfg(gw string, svcs []string) (string, string) {
	idx := w.nextIdx()
	e := &structs.TerminatingGatewayConfigEntry{Kind: structs.TerminatingGateway, Name: gw}
	for _, s := range svcs {
		e.Services = append(e.Services, structs.LinkedService{Name: s})
	}
	req := &structs.ConfigEntryRequest{Op: structs.ConfigEntryUpsert, Datacenter: "dc1", Entry: e}
	w.tag("write:tgw-cfg")
	return fmt.Sprintf("tgwcfg %d %s %s", idx, gw, strings.Join(svcs, ",")), w.commit(structs.ConfigEntryRequestType, req, "")
}

func (w *world) opTermCfgDel(gw string) (string, string) {
	idx := w.nextIdx()
	req := &structs.ConfigEntryRequest{Op: structs.ConfigEntryDelete, Datacenter: "dc1",
		Entry: &structs.TerminatingGatewayConfigEntry{Kind: structs.TerminatingGateway, Name: gw}}
	w.tag("write:tgw-cfgdel")
	return fmt.Sprintf("tgwcfgdel %d %s", idx, gw), w.commit(structs.ConfigEntryRequestType, req, "")
}

func (w *world) opCheck(node, sid, cid, status string) (string, string) {
	w.noteNodeCase(node)
	idx := w.nextIdx()
	req := structs.RegisterRequest{Datacenter: "dc1", Node: node, SkipNodeUpdate: true,
		Check: &structs.HealthCheck{Node: node, CheckID: typesCheckID(cid), Name: cid, Status: status, ServiceID: sid}}
	if sid == "" {
		w.tag("write:check-node")
	} else {
		w.tag("write:check-svc")
	}
	return fmt.Sprintf("check %d %s %s %s %s", idx, node, sid, cid, status), w.commit(structs.RegisterRequestType, req, "")
}

func (w *world) opCheckDel(node, cid string) (string, string) {
	idx := w.nextIdx()
	req := structs.DeregisterRequest{Datacenter: "dc1", Node: node, CheckID: typesCheckID(cid)}
	w.tag("write:check-del")
	return fmt.Sprintf("checkdel %d %s %s", idx, node, cid), w.commit(structs.DeregisterRequestType, req, "")
}

func nodeService(svc *svcSpec) *structs.NodeService {
	ns := &structs.NodeService{ID: svc.sid, Service: svc.name, Port: svc.port}
	switch svc.kind {
	case "n":
		ns.Connect.Native = true
	case "p":
		ns.Kind = structs.ServiceKindConnectProxy
		ns.Proxy.DestinationServiceName = svc.dest
	case "g":
		ns.Kind = structs.ServiceKindTerminatingGateway
	}
	return ns
}

// opTxn: several catalog operations in ONE transaction (one Raft index, one batch of events whose
// order inside catalog_events.go comes from Go maps)
func (w *world) opTxn(node string, sets []*svcSpec, dels []string) (string, string) {
	// a service row written under another spelling of the node name than the node row has: register
	// events carry the node row's spelling, deregister events the service row's (same mechanism)
	w.noteNodeCase(node)
	idx := w.nextIdx()
	var ops structs.TxnOps
	var desc []string
	_, n, _ := w.fsm.State().GetNode(node, nil, "")
	addr := "1"
	if n != nil {
		addr = n.Address
	}
	for _, s := range sets {
		ns := nodeService(s)
		w.flagWrite(node, addr, ns)
		ops = append(ops, &structs.TxnOp{Service: &structs.TxnServiceOp{Verb: api.ServiceSet, Node: node, Service: *ns}})
		desc = append(desc, fmt.Sprintf("set:%s:%s:%d:%s:%s", s.sid, s.name, s.port, s.kind, s.dest))
	}
	for _, d := range dels {
		ops = append(ops, &structs.TxnOp{Service: &structs.TxnServiceOp{Verb: api.ServiceDelete, Node: node, Service: structs.NodeService{ID: d}}})
		desc = append(desc, "del:"+d)
	}
	req := structs.TxnRequest{Datacenter: "dc1", Ops: ops}
	w.tag(fmt.Sprintf("write:txn-%d", len(ops)))
	before := w.pub.VerifC11QueueLen()
	resp := w.apply(structs.TxnRequestType, req)
	op := fmt.Sprintf("txn %d %s %s", idx, node, strings.Join(desc, " "))
	if tr, ok := resp.(structs.TxnResponse); ok && len(tr.Errors) > 0 {
		w.tag("commit:txn-error")
		w.dumps[w.idx] = w.dumpAll()
		return op, "err"
	}
	if w.pub.VerifC11QueueLen() > before {
		w.queue = append(w.queue, pending{w.idx, ""})
	}
	d := w.dumpAll()
	w.dumps[w.idx] = d
	return op, "ok"
}

func (s *sched) wideSvc() *svcSpec {
	r := s.r
	switch x := r.Intn(10); {
	case x < 4:
		return &svcSpec{hx.Pick(r, sids), hx.Pick(r, wideNames), 80 + r.Intn(2), "t", ""}
	case x < 6:
		return &svcSpec{hx.Pick(r, sids), hx.Pick(r, wideNames), 80 + r.Intn(2), "n", ""}
	case x < 9:
		return &svcSpec{hx.Pick(r, sids), hx.Pick(r, []string{"api", "web-proxy", "Web"}), 80 + r.Intn(2), "p", hx.Pick(r, wideDests)}
	default:
		return &svcSpec{"g1", hx.Pick(r, gateways), 443 + r.Intn(2), "g", ""}
	}
}

func (s *sched) wideWrite() {
	w, r := s.w, s.r
	switch x := r.Intn(100); {
	case x < 30:
		s.emit(w.opReg(hx.Pick(r, s.nodes), 1+r.Intn(2), s.wideSvc()))
	case x < 38:
		s.emit(w.opReg(hx.Pick(r, s.nodes), 1+r.Intn(2), &svcSpec{"g1", hx.Pick(r, gateways), 443, "g", ""}))
	case x < 43:
		s.emit(w.opReg(hx.Pick(r, s.nodes), 1+r.Intn(3), nil))
	case x < 52:
		sid := hx.Pick(r, append([]string{"g1"}, sids...))
		s.emit(w.opDereg(hx.Pick(r, s.nodes), sid))
	case x < 55:
		s.emit(w.opDereg(hx.Pick(r, s.nodes), ""))
	case x < 67:
		n := 1 + r.Intn(2)
		var ls []string
		for i := 0; i < n; i++ {
			l := hx.Pick(r, []string{"web", "Web", "api", "db"})
			dup := false
			for _, o := range ls {
				dup = dup || strings.EqualFold(o, l)
			}
			if !dup {
				ls = append(ls, l)
			}
		}
		s.emit(w.opTermCfg(hx.Pick(r, gateways), ls))
	case x < 71:
		s.emit(w.opTermCfgDel(hx.Pick(r, gateways)))
	case x < 83:
		sid := ""
		if r.Chance(70) {
			sid = hx.Pick(r, append([]string{"g1"}, sids...))
		}
		s.emit(w.opCheck(hx.Pick(r, s.nodes), sid, hx.Pick(r, checkIDs), hx.Pick(r, statuses)))
	case x < 87:
		s.emit(w.opCheckDel(hx.Pick(r, s.nodes), hx.Pick(r, checkIDs)))
	case x < 95:
		var sets []*svcSpec
		var dels []string
		used := map[string]bool{}
		for i := 0; i < 2+r.Intn(2); i++ {
			sp := s.wideSvc()
			if used[sp.sid] {
				continue
			}
			used[sp.sid] = true
			if r.Chance(25) {
				dels = append(dels, sp.sid)
			} else {
				sets = append(sets, sp)
			}
		}
		s.emit(w.opTxn(hx.Pick(r, s.nodes), sets, dels))
	case x < 97:
		s.emit(w.opTok(hx.Pick(r, toks)))
	default:
		if s.cfgCase {
			if r.Chance(70) {
				// ONE spelling per schedule (subscribers use web AND Web): writing the same entry under two
				// spellings replaces the row without a delete event for the old spelling — a further consul
				// defect (notes/C11-round5.md, open: needs a known: line before it can be generated)
				s.emit(w.opCfg(s.cfgName, r.Intn(3)))
			} else {
				s.emit(w.opCfgDel(s.cfgName))
			}
		} else {
			s.emit(w.opKV())
		}
	}
	if r.Chance(30) {
		w.saveSnapshot()
	}
}

func wideSchedule(run *hx.Run, r *hx.RNG, maxActs int, withRestore, nodeCase bool) {
	s := beginWide(run, r.Chance(70))
	s.cfgCase = true
	s.cfgName = hx.Pick(r, []string{"web", "Web"})
	if nodeCase {
		s.nodes = []string{"n1", "N1", "n2"}
		s.w.tag("wide:node-case")
	}
	randomBody(s, r, maxActs, withRestore)
}

// wideCorpus: deterministic wide schedules, one per routing path of the Connect topic with a
// subject that is not all lower-case (snapshot first, then live changes after the snapshot)
func wideCorpus(run *hx.Run) {
	drain := func(s *sched, id int) {
		for i := 0; i < 12; i++ {
			op, out := s.w.opNext(id)
			s.emit(op, out)
			if out == "block" || strings.HasPrefix(out, "err") {
				return
			}
		}
	}
	pubAll := func(s *sched) {
		for s.w.pub.VerifC11QueueLen() > 0 {
			s.emit(s.w.opPub())
		}
	}
	for _, subj := range []string{"web", "Web"} {
		for _, dest := range []string{"web", "Web", "WEB"} {
			// sidecar proxies: register, change, add a second one, deregister — all after the snapshot
			s := beginWide(run, false)
			w := s.w
			s.emit(w.opClient(1, keyT{"c", subj}, "t1", true))
			s.emit(w.opClient(2, keyT{"h", subj}, "t1", false))
			s.emit(w.opReg("n1", 1, &svcSpec{"s1", "web-proxy", 80, "p", dest}))
			s.emit(w.opReg("n1", 1, &svcSpec{"s2", dest, 80, "t", ""}))
			pubAll(s)
			s.emit(w.opSub(1))
			s.emit(w.opSub(2))
			drain(s, 1)
			drain(s, 2)
			s.emit(w.opReg("n2", 1, &svcSpec{"s1", "web-proxy", 81, "p", dest}))
			pubAll(s)
			drain(s, 1)
			drain(s, 2)
			s.emit(w.opCheck("n1", "s1", "c1", api.HealthCritical))
			pubAll(s)
			drain(s, 1)
			s.emit(w.opReg("n1", 1, &svcSpec{"s1", "web-proxy", 82, "p", dest}))
			s.emit(w.opDereg("n2", "s1"))
			pubAll(s)
			drain(s, 1)
			drain(s, 2)
			s.finish()
		}
		for _, linked := range []string{"web", "Web"} {
			// terminating gateway linked to the service: link, instance change, check change, unlink
			s := beginWide(run, true)
			w := s.w
			s.emit(w.opClient(1, keyT{"c", subj}, "t1", false))
			s.emit(w.opClient(2, keyT{"c", subj}, "t2", true))
			s.emit(w.opReg("n1", 1, &svcSpec{"g1", "tgw", 443, "g", ""}))
			s.emit(w.opTermCfg("tgw", []string{linked, "api"}))
			pubAll(s)
			s.emit(w.opSub(1))
			drain(s, 1)
			s.emit(w.opReg("n2", 1, &svcSpec{"g1", "tgw", 444, "g", ""}))
			pubAll(s)
			drain(s, 1)
			s.emit(w.opSub(2))
			drain(s, 2)
			s.emit(w.opCheck("n1", "g1", "c1", api.HealthWarning))
			pubAll(s)
			drain(s, 1)
			drain(s, 2)
			s.emit(w.opTermCfg("tgw", []string{"api"}))
			pubAll(s)
			drain(s, 1)
			drain(s, 2)
			s.emit(w.opTermCfg("tgw", []string{linked}))
			s.emit(w.opDereg("n1", "g1"))
			pubAll(s)
			drain(s, 1)
			drain(s, 2)
			s.finish()
		}
	}
}

// nodeCaseWitness: a node is re-registered under a name that differs only in letter case (what an
// agent does after its node_name was re-cased; with or without a node ID ensureNodeTxn renames
// the row in place). newServiceHealthEventsForNode re-registers every instance with the NEW
// spelling; HealthView keys by CheckServiceNode.UniqueID (case-sensitive), so the entry under the
// old spelling stays for ever, while the direct query returns one row.
func nodeCaseWitness(run *hx.Run) {
	s := beginWide(run, false)
	w := s.w
	s.emit(w.opClient(1, keyT{"h", "web"}, "t1", true))
	s.emit(w.opReg("n1", 1, &svcSpec{"s1", "web", 80, "t", ""}))
	s.emit(w.opPub())
	s.emit(w.opSub(1))
	s.emit(w.opNext(1))
	s.emit(w.opNext(1))
	s.emit(w.opReg("N1", 2, nil)) // (Node.IsSame compares names with EqualFold: the row is only rewritten when something else changes too)
	s.emit(w.opPub())
	s.emit(w.opNext(1))
	s.expect(sigNodeCase, "node re-registered as N1: the view still equals the direct query?")
	s.finish()
}

// cfgCaseWitness (regression witness; found by this harness, repaired in /repo ee62d21): a
// subscriber of service-defaults "Web" while the entry is written as "web". The config-entries table
// is keyed by the lower-cased name (indexFromConfigEntry), so the direct query and the snapshot for
// "Web" return the entry "web"; EventSubjectConfigEntry.String used to keep the spelling, so the
// update was published under default/default/web and never reached the subscriber of
// default/default/Web. M3 reports a recurrence under sigCfgCase.
func cfgCaseWitness(run *hx.Run) {
	s := beginWide(run, false)
	w := s.w
	s.emit(w.opClient(1, keyT{"g", "Web"}, "t1", true))
	s.emit(w.opCfg("web", 1))
	s.emit(w.opPub())
	s.emit(w.opSub(1))
	s.emit(w.opNext(1))
	s.emit(w.opNext(1))
	s.emit(w.opCfg("web", 2))
	s.emit(w.opPub())
	op, out := w.opNext(1)
	s.emit(op, out)
	if !strings.HasPrefix(out, "ev ") {
		w.violate(sigCfgCase, "service-defaults written as web, subscribed as Web: the update was not delivered ("+out+")")
	}
	s.emit(w.opNext(1))
	s.finish()
}

func sortedVersions(m map[uint64][]byte) []uint64 {
	vs := make([]uint64, 0, len(m))
	for v := range m {
		vs = append(vs, v)
	}
	sort.Slice(vs, func(i, j int) bool { return vs[i] < vs[j] })
	return vs
}
