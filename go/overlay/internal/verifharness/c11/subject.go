//go:build verif

// Routing-layer correspondence: the topic-buffer key of published ServiceHealth /
// ServiceHealthConnect events (real payload -> Subject().String(), incl. the overrideKey of
// sidecar proxies and terminating gateways) and of subscriptions (real
// PBToStreamSubscribeRequest) against lean/CV/StreamSubject.lean, over case-variant names.
package main

import (
	"fmt"

	"github.com/hashicorp/consul/agent/consul/state"
	"github.com/hashicorp/consul/internal/verifharness/hx"
	"github.com/hashicorp/consul/proto/private/pbsubscribe"
)

var subjNames = []string{"web", "Web", "WEB", "wEb", "api", "API", "web-proxy", "Web-Proxy", "db.v1", "DB_v1", "w", "W", "ÿ"}

func subscriberSubject(topic pbsubscribe.Topic, name, peer string) string {
	req := &pbsubscribe.SubscribeRequest{Topic: topic, Datacenter: "dc1",
		Subject: &pbsubscribe.SubscribeRequest_NamedSubject{NamedSubject: &pbsubscribe.NamedSubject{Key: name, PeerName: peer}}}
	sr, err := state.PBToStreamSubscribeRequest(req, req.EnterpriseMeta())
	if err != nil {
		return "err"
	}
	return sr.Subject.String()
}

func subjectLines(run *hx.Run) {
	peers := []string{"", "p1", "P1"}
	n := 0
	for _, svc := range subjNames {
		for _, ov := range append([]string{""}, subjNames...) {
			for _, peer := range peers {
				if peer != "" && (n%3 != 0) {
					n++
					continue
				}
				n++
				got := state.VerifC11EventSubject(svc, ov, peer)
				run.Line(fmt.Sprintf("subj %s %s %s", hx.EncS(svc), hx.EncS(ov), hx.EncS(peer)), hx.EncS(got))
			}
		}
	}
	for _, name := range subjNames {
		for _, peer := range peers {
			for _, topic := range []pbsubscribe.Topic{pbsubscribe.Topic_ServiceHealth, pbsubscribe.Topic_ServiceHealthConnect} {
				run.Line(fmt.Sprintf("subsubj %s %s", hx.EncS(name), hx.EncS(peer)), hx.EncS(subscriberSubject(topic, name, peer)))
			}
		}
		run.Line("cfgsubj "+hx.EncS(name), hx.EncS(state.VerifC11ConfigEntrySubject(name)))
		if got, want := subscriberSubject(pbsubscribe.Topic_ServiceDefaults, name, ""), state.VerifC11ConfigEntrySubject(name); got != want {
			run.Violate("stream:config-entry-subscriber-and-publisher-disagree-on-subject", fmt.Sprintf("%q: subscriber %q, publisher %q", name, got, want), nil)
		}
	}
	// routing: an event for (service, override) must land in exactly the buffers of the
	// subscribers whose direct query (memdb service / connect index: lower-cased name) holds it
	for _, svc := range subjNames {
		for _, ov := range append([]string{""}, subjNames...) {
			for _, name := range subjNames {
				same := state.VerifC11EventSubject(svc, ov, "") == subscriberSubject(pbsubscribe.Topic_ServiceHealthConnect, name, "")
				out := "diff"
				if same {
					out = "same"
				}
				run.Line(fmt.Sprintf("route %s %s %s", hx.EncS(svc), hx.EncS(ov), hx.EncS(name)), out)
			}
		}
	}
	run.Tag("subject:lines")
	run.Case("subject-lines", true)
}
