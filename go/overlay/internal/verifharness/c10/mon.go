//go:build verif

package main

import (
	"fmt"
	"sort"
	"strings"

	"github.com/hashicorp/consul/agent/consul/state"
	"github.com/hashicorp/consul/types"
)

// Monitors: the property restated on the implementation's observable behaviour, with no
// reference to the Lean model.  For every conditional write
//   M1  reported            ⇒ the entity now holds the requested content, ModifyIndex = raft index
//                              (CreateIndex kept / set), or is gone for a delete
//   M2  not reported        ⇒ the complete memdb dump (every table, index table included) is unchanged
//   M3  reported ⇔ matched   where `matched` is computed here from the entity read BEFORE the call
//                              through the public read API and the documented rule of the command
//   M4  composite           ⇒ all parts applied and reported, or nothing changed and not reported
//   M5  multi-op txn        ⇒ any error ⇒ complete dump unchanged

type ent struct {
	present        bool
	create, modify uint64
	content        string // what the caller asked to store
	aux            string // carried-over part of the content (config entry status, CA cluster id)
}

// cond describes one conditional write for the monitor.
type cond struct {
	typ  string
	pre  func(st *state.Store) any
	post func(pre any, st *state.Store, idx uint64, res string, unchanged bool) (sig, desc string)
	tags func(pre any) []string
}

// wantMatch is the matching rule of each command family as documented for its API.
func wantMatch(rule string, pre ent, cidx uint64) bool {
	switch rule {
	case "set": // 0 = create only; otherwise the entity must exist with exactly this ModifyIndex
		if !pre.present {
			return cidx == 0
		}
		return cidx != 0 && cidx == pre.modify
	case "del-kv": // KV delete-cas: nothing to delete counts as success
		return !pre.present || pre.modify == cidx
	case "del", "ap": // must exist with exactly this ModifyIndex
		return pre.present && pre.modify == cidx
	case "ca": // absent config has index 0
		if !pre.present {
			return cidx == 0
		}
		return pre.modify == cidx
	}
	panic("rule " + rule)
}

func reportedOK(res string) bool { return res == "ok:1" || strings.HasPrefix(res, "txn-ok") }

// mismatchRes: the answers by which a command says "index did not match".
func mismatchRes(res string) bool {
	return res == "ok:0" || res == "err:cas-mismatch" || res == "txn-err:0;stale"
}

type entSpec struct {
	typ, rule string
	cidx      uint64
	read      func(st *state.Store) ent
	isDel     bool
	idem      bool // a write of identical content leaves the row (and its ModifyIndex) alone
	silent    bool // the command has no boolean answer (ACL token CAS)
	want      func(pre ent) (content, aux string)
	// qual names, from the store BEFORE the call, a circumstance that makes the write itself
	// fail (missing prerequisite); it becomes part of the violation signature.
	qual func(st *state.Store) string
	// createOf, when set, names (from the store BEFORE the call) the registration whose
	// CreateIndex an applied write must inherit when it is not the one stored under the key
	// (a node write carrying the ID of a registration stored under another name is a rename).
	createOf func(st *state.Store) (create uint64, ok bool)
	// inadmissible, when set, decides from the store BEFORE the call (by the documented rule of
	// the command, not by running it) whether the write itself must be refused, and why.
	inadmissible func(st *state.Store) string
}

type entPre struct {
	ent
	qual       string
	create     uint64
	haveCreate bool
	refusal    string
}

func entityCond(sp entSpec) *cond {
	return &cond{
		typ: sp.typ,
		pre: func(st *state.Store) any {
			q := ""
			if sp.qual != nil {
				q = sp.qual(st)
			}
			p := entPre{ent: sp.read(st), qual: q}
			if sp.createOf != nil {
				p.create, p.haveCreate = sp.createOf(st)
			}
			if sp.inadmissible != nil {
				p.refusal = sp.inadmissible(st)
			}
			return p
		},
		tags: func(p any) []string {
			pre := p.(entPre).ent
			t := []string{"pre:" + map[bool]string{true: "present", false: "absent"}[pre.present]}
			if wantMatch(sp.rule, pre, sp.cidx) {
				t = append(t, "branch:"+sp.typ+":matched")
			} else {
				t = append(t, "branch:"+sp.typ+":unmatched")
			}
			return t
		},
		post: func(p any, st *state.Store, idx uint64, res string, unchanged bool) (string, string) {
			pre, qual := p.(entPre).ent, p.(entPre).qual
			post := sp.read(st)
			matched := wantMatch(sp.rule, pre, sp.cidx)
			reported := reportedOK(res)
			applied := reported
			if sp.silent {
				if res != "nil" {
					return "", "" // batch error: handled by the caller's unchanged check
				}
				applied = matched
				if !matched && !unchanged {
					return sp.typ + ":unmatched-write-changed-state", fmt.Sprintf("cidx=%d pre=%+v post=%+v", sp.cidx, pre, post)
				}
			} else {
				if !reported && !unchanged {
					return sp.typ + ":failed-write-changed-state", fmt.Sprintf("res=%s cidx=%d pre=%+v post=%+v", res, sp.cidx, pre, post)
				}
				if reported && !matched {
					return sp.typ + ":reported-without-match", fmt.Sprintf("res=%s cidx=%d pre=%+v", res, sp.cidx, pre)
				}
				if !reported && matched && mismatchRes(res) {
					return sp.typ + ":matched-but-refused", fmt.Sprintf("res=%s cidx=%d pre=%+v", res, sp.cidx, pre)
				}
				if sp.inadmissible != nil && matched {
					refusal := p.(entPre).refusal
					if refusal != "" {
						run.Tag("inadmissible:" + sp.typ + ":" + refusal)
					}
					if reported && refusal != "" {
						return sp.typ + ":inadmissible-write-applied:" + refusal, fmt.Sprintf("res=%s cidx=%d pre=%+v post=%+v", res, sp.cidx, pre, post)
					}
					if !reported && refusal == "" {
						return sp.typ + ":matched-and-admissible-but-refused", fmt.Sprintf("res=%s cidx=%d pre=%+v", res, sp.cidx, pre)
					}
				}
			}
			if !applied {
				return "", ""
			}
			if sp.isDel {
				if post.present {
					return sp.typ + ":reported-but-not-deleted", fmt.Sprintf("cidx=%d pre=%+v post=%+v", sp.cidx, pre, post)
				}
				return "", ""
			}
			wc, wa := sp.want(pre)
			if !post.present || post.content != wc || post.aux != wa {
				if qual != "" {
					return sp.typ + ":reported-but-not-written:" + qual, fmt.Sprintf("want %q/%q cidx=%d pre=%+v post=%+v", wc, wa, sp.cidx, pre, post)
				}
				return sp.typ + ":reported-but-not-written", fmt.Sprintf("want %q/%q cidx=%d pre=%+v post=%+v", wc, wa, sp.cidx, pre, post)
			}
			wantCreate, wantModify := idx, idx
			if pre.present {
				wantCreate = pre.create
				if sp.idem && pre.content == wc && pre.aux == wa {
					wantModify = pre.modify
					run.Tag("write:noop-same-content")
				}
			}
			if ep := p.(entPre); ep.haveCreate {
				wantCreate = ep.create
				run.Tag("write:inherits-create-index-of-renamed-registration")
			}
			if post.create != wantCreate || post.modify != wantModify {
				return sp.typ + ":wrong-indexes-after-write", fmt.Sprintf("want create=%d modify=%d, post=%+v pre=%+v idx=%d", wantCreate, wantModify, post, pre, idx)
			}
			return "", ""
		},
	}
}

func cfgContentStr(val string, flag bool) string {
	if flag {
		return val + "|flag"
	}
	return val
}

// ---------------------------------------------------------------- entity readers (public read API)

func must(err error) {
	if err != nil {
		panic(err)
	}
}

func readKV(k string) func(st *state.Store) ent {
	return func(st *state.Store) ent {
		_, e, err := st.KVSGet(nil, k, nil)
		must(err)
		if e == nil {
			return ent{}
		}
		return ent{true, e.CreateIndex, e.ModifyIndex, fmt.Sprintf("%s/%d", e.Value, e.Flags), fmt.Sprintf("%s#%d", e.Session, e.LockIndex)}
	}
}

// kvSession / kvLockIndex split the aux part of a KV ent ("<session>#<LockIndex>").
func kvSession(e ent) string { return e.aux[:strings.LastIndex(e.aux, "#")] }
func kvLockIndex(e ent) (n uint64) {
	fmt.Sscan(e.aux[strings.LastIndex(e.aux, "#")+1:], &n)
	return
}

// kvAuxAfterSet: a plain set / cas keeps the lock holder and stores the request's LockIndex (0).
func kvAuxAfterSet(pre ent) string {
	if pre.present {
		return kvSession(pre) + "#0"
	}
	return "#0"
}

func sessionExists(st *state.Store, id string) bool {
	if id == "" {
		return false
	}
	_, s, err := st.SessionGet(nil, id, nil)
	must(err)
	return s != nil
}

// lockMatched: the documented rule of the lock verb — the session exists and the key is free or
// already held by that very session.
func lockMatched(st *state.Store, k, sess string) bool {
	if !sessionExists(st, sess) {
		return false
	}
	e := readKV(k)(st)
	return !e.present || kvSession(e) == "" || kvSession(e) == sess
}

// unlockMatched: the key exists and is held by the named session.
func unlockMatched(st *state.Store, k, sess string) bool {
	e := readKV(k)(st)
	return sess != "" && e.present && kvSession(e) == sess
}

type lockPre struct {
	ent
	matched bool
}

// lockCond monitors KVSLock / KVSUnlock (direct or as a single-op transaction).
func lockCond(typ string, unlock bool, k, v string, fl uint64, sess string) *cond {
	return &cond{typ: typ,
		pre: func(st *state.Store) any {
			if unlock {
				return lockPre{readKV(k)(st), unlockMatched(st, k, sess)}
			}
			return lockPre{readKV(k)(st), lockMatched(st, k, sess)}
		},
		tags: func(p any) []string {
			pre := p.(lockPre)
			holder := "absent"
			if pre.present {
				switch kvSession(pre.ent) {
				case "":
					holder = "free"
				case sess:
					holder = "held-by-requester"
				default:
					holder = "held-by-other"
				}
			}
			return []string{fmt.Sprintf("branch:%s:matched=%v,key=%s", typ, pre.matched, holder)}
		},
		post: func(p any, st *state.Store, idx uint64, res string, unchanged bool) (string, string) {
			pre, post := p.(lockPre), readKV(k)(st)
			reported := reportedOK(res)
			if !reported && !unchanged {
				return typ + ":failed-write-changed-state", fmt.Sprintf("res=%s pre=%+v post=%+v", res, pre, post)
			}
			if reported && !pre.matched {
				return typ + ":reported-without-match", fmt.Sprintf("res=%s session=%q pre=%+v", res, sess, pre)
			}
			if !reported && pre.matched {
				return typ + ":matched-but-refused", fmt.Sprintf("res=%s session=%q pre=%+v", res, sess, pre)
			}
			if !reported {
				return "", ""
			}
			wantSess, wantLock := sess, uint64(1)
			if pre.present {
				wantLock = kvLockIndex(pre.ent)
				if !unlock && kvSession(pre.ent) != sess {
					wantLock++
				}
			}
			if unlock {
				wantSess = ""
			}
			wc, wa := fmt.Sprintf("%s/%d", v, fl), fmt.Sprintf("%s#%d", wantSess, wantLock)
			if !post.present || post.content != wc || post.aux != wa {
				return typ + ":reported-but-not-written", fmt.Sprintf("want %q %q, pre=%+v post=%+v", wc, wa, pre, post)
			}
			wantCreate, wantModify := idx, idx
			if pre.present {
				wantCreate = pre.create
				if pre.content == wc && pre.aux == wa {
					wantModify = pre.modify
					run.Tag("write:noop-same-content")
				}
			}
			if post.create != wantCreate || post.modify != wantModify {
				return typ + ":wrong-indexes-after-write", fmt.Sprintf("want create=%d modify=%d, post=%+v pre=%+v", wantCreate, wantModify, post, pre)
			}
			return "", ""
		}}
}

// ---------------------------------------------------------------- ACL bootstrap

type bootPre struct {
	can   bool
	reset uint64
	tok   ent
}

func readBoot(st *state.Store, acc string) bootPre {
	can, reset, err := st.CanBootstrapACLToken()
	must(err)
	if acc == "" {
		return bootPre{can: can, reset: reset}
	}
	return bootPre{can, reset, readTok(acc)(st)}
}

// bootCond: ACLBootstrap succeeds iff the cluster was never bootstrapped or the supplied reset
// index is the one CanBootstrapACLToken hands out; a refused bootstrap changes nothing.
func bootCond(reset uint64, t tokReq) *cond {
	typ := "aclBootstrap"
	return &cond{typ: typ,
		pre: func(st *state.Store) any { return readBoot(st, t.acc) },
		tags: func(p any) []string {
			pre := p.(bootPre)
			return []string{fmt.Sprintf("branch:%s:never=%v,reset-matches=%v", typ, pre.can, reset != 0 && reset == pre.reset)}
		},
		post: func(p any, st *state.Store, idx uint64, res string, unchanged bool) (string, string) {
			pre, post := p.(bootPre), readBoot(st, t.acc)
			matched := pre.can || (reset != 0 && reset == pre.reset)
			tokOK := t.sec != "" && t.acc != "" && (!pre.tok.present || strings.HasPrefix(pre.tok.content, t.sec+"/"))
			applied := res == "nil"
			if !applied && !unchanged {
				return typ + ":failed-write-changed-state", fmt.Sprintf("res=%s pre=%+v post=%+v", res, pre, post)
			}
			if applied && !matched {
				return typ + ":reported-without-match", fmt.Sprintf("reset=%d pre=%+v", reset, pre)
			}
			if !applied && matched && tokOK {
				return typ + ":matched-but-refused", fmt.Sprintf("res=%s reset=%d pre=%+v", res, reset, pre)
			}
			if !applied && !matched && res != "err:bootstrap-not-allowed" && res != "err:bootstrap-invalid-reset" {
				return typ + ":unmatched-answered-otherwise", fmt.Sprintf("res=%s reset=%d pre=%+v", res, reset, pre)
			}
			if applied {
				if post.can || post.reset != idx {
					return typ + ":reported-but-not-marked", fmt.Sprintf("post=%+v idx=%d", post, idx)
				}
				wantCreate := idx
				if pre.tok.present {
					wantCreate = pre.tok.create
				}
				if !post.tok.present || post.tok.content != t.sec+"/"+t.desc || post.tok.modify != idx || post.tok.create != wantCreate {
					return typ + ":reported-but-token-not-written", fmt.Sprintf("post=%+v", post.tok)
				}
			}
			return "", ""
		}}
}

func readNode(n string) func(st *state.Store) ent {
	return func(st *state.Store) ent {
		_, e, err := st.GetNode(n, nil, "")
		must(err)
		if e == nil {
			return ent{}
		}
		return ent{true, e.CreateIndex, e.ModifyIndex, string(e.ID) + "/" + e.Address, ""}
	}
}

func readSvc(n, id string) func(st *state.Store) ent {
	return func(st *state.Store) ent {
		_, e, err := st.NodeService(nil, n, id, nil, "")
		must(err)
		if e == nil {
			return ent{}
		}
		return ent{true, e.CreateIndex, e.ModifyIndex, fmt.Sprint(e.Port), ""}
	}
}

func readChk(n, id string) func(st *state.Store) ent {
	return func(st *state.Store) ent {
		_, e, err := st.NodeCheck(n, types.CheckID(id), nil, "")
		must(err)
		if e == nil {
			return ent{}
		}
		return ent{true, e.CreateIndex, e.ModifyIndex, e.ServiceID + "/" + e.Output + "/" + e.Status, ""}
	}
}

func readCfg(kind, name string) func(st *state.Store) ent {
	return func(st *state.Store) ent {
		_, e, err := st.ConfigEntry(nil, kind, name, nil)
		must(err)
		if e == nil {
			return ent{}
		}
		v, s, fl := cfgContent(e)
		return ent{true, e.GetRaftIndex().CreateIndex, e.GetRaftIndex().ModifyIndex, cfgContentStr(v, fl), s}
	}
}

func readCA(st *state.Store) ent {
	_, e, err := st.CAConfig(nil)
	must(err)
	if e == nil {
		return ent{}
	}
	return ent{true, e.CreateIndex, e.ModifyIndex, e.Provider, e.ClusterID}
}

func readAP(st *state.Store) ent {
	_, e, err := st.AutopilotConfig()
	must(err)
	if e == nil {
		return ent{}
	}
	return ent{true, e.CreateIndex, e.ModifyIndex, fmt.Sprint(e.MaxTrailingLogs), ""}
}

func readTok(acc string) func(st *state.Store) ent {
	return func(st *state.Store) ent {
		_, e, err := st.ACLTokenGetByAccessor(nil, acc, nil)
		must(err)
		if e == nil {
			return ent{}
		}
		return ent{true, e.CreateIndex, e.ModifyIndex, e.SecretID + "/" + e.Description, ""}
	}
}

// ---------------------------------------------------------------- CA roots and the composite

type rootsPre struct {
	index uint64
	rows  map[string]ent
	ca    ent
}

func readRoots(st *state.Store) rootsPre {
	idx, roots, err := st.CARoots(nil)
	must(err)
	p := rootsPre{index: idx, rows: map[string]ent{}, ca: readCA(st)}
	for _, r := range roots {
		p.rows[r.ID] = ent{true, r.CreateIndex, r.ModifyIndex, fmt.Sprintf("%s/%v", r.Name, r.Active), ""}
	}
	return p
}

// rootsAdmissible: no empty ID, and among the roots the table will hold (the last entry of
// each ID wins) exactly one is active.
func rootsAdmissible(rs []rootReq) bool {
	last := map[string]bool{}
	for _, r := range rs {
		if r.id == "" {
			return false
		}
		last[r.id] = r.active
	}
	active := 0
	for _, a := range last {
		if a {
			active++
		}
	}
	return active == 1
}

// rootsWritten: the stored root set is exactly the requested one (last duplicate wins),
// every row stamped with the raft index, CreateIndex inherited by ID.
func rootsWritten(pre, post rootsPre, rs []rootReq, idx uint64) string {
	want := map[string]string{}
	for _, r := range rs {
		want[r.id] = fmt.Sprintf("%s/%v", r.name, r.active)
	}
	var diffs []string
	for id, c := range want {
		got, ok := post.rows[id]
		wantCreate := idx
		if o, ok := pre.rows[id]; ok {
			wantCreate = o.create
		}
		if !ok || got.content != c || got.modify != idx || got.create != wantCreate {
			diffs = append(diffs, fmt.Sprintf("%s: want %s c=%d m=%d got %+v", id, c, wantCreate, idx, got))
		}
	}
	for id := range post.rows {
		if _, ok := want[id]; !ok {
			diffs = append(diffs, "stale root kept: "+id)
		}
	}
	if post.index != idx {
		diffs = append(diffs, fmt.Sprintf("roots index %d, want %d", post.index, idx))
	}
	sort.Strings(diffs)
	return strings.Join(diffs, "; ")
}

func rootsCond(cidx uint64, rs []rootReq) *cond {
	typ := "caRootsCas"
	return &cond{typ: typ,
		pre: func(st *state.Store) any { return readRoots(st) },
		tags: func(p any) []string {
			pre := p.(rootsPre)
			return []string{fmt.Sprintf("branch:%s:matched=%v,admissible=%v", typ, pre.index == cidx, rootsAdmissible(rs))}
		},
		post: func(p any, st *state.Store, idx uint64, res string, unchanged bool) (string, string) {
			pre, post := p.(rootsPre), readRoots(st)
			matched := pre.index == cidx
			reported := reportedOK(res)
			if !reported && !unchanged {
				return typ + ":failed-write-changed-state", fmt.Sprintf("res=%s cidx=%d roots index before=%d", res, cidx, pre.index)
			}
			if reported && !matched {
				return typ + ":reported-without-match", fmt.Sprintf("cidx=%d roots index before=%d", cidx, pre.index)
			}
			if !reported && matched && rootsAdmissible(rs) {
				return typ + ":matched-but-refused", fmt.Sprintf("res=%s cidx=%d", res, cidx)
			}
			if reported {
				if d := rootsWritten(pre, post, rs, idx); d != "" {
					return typ + ":reported-but-not-written", d
				}
			}
			return "", ""
		}}
}

func compositeCond(rcidx uint64, rs []rootReq, ccidx uint64, prov, cluster string) *cond {
	typ := "caRootsAndConfig"
	return &cond{typ: typ,
		pre: func(st *state.Store) any { return readRoots(st) },
		tags: func(p any) []string {
			pre := p.(rootsPre)
			return []string{fmt.Sprintf("branch:%s:roots=%v,config=%v,admissible=%v", typ, pre.index == rcidx, wantMatch("ca", pre.ca, ccidx), rootsAdmissible(rs))}
		},
		post: func(p any, st *state.Store, idx uint64, res string, unchanged bool) (string, string) {
			pre, post := p.(rootsPre), readRoots(st)
			reported := reportedOK(res)
			matched := pre.index == rcidx && wantMatch("ca", pre.ca, ccidx)
			// atomicity: all parts, or none
			if !reported && !unchanged {
				part := "roots"
				if rootsWritten(pre, post, rs, idx) != "" {
					part = "some rows"
				}
				return typ + ":partial-application", fmt.Sprintf("res=%s but %s were written (roots cidx=%d index=%d, config cidx=%d pre=%+v post=%+v)", res, part, rcidx, pre.index, ccidx, pre.ca, post.ca)
			}
			if reported && !matched {
				return typ + ":reported-without-match", fmt.Sprintf("roots cidx=%d index=%d config cidx=%d pre=%+v", rcidx, pre.index, ccidx, pre.ca)
			}
			if !reported && matched && rootsAdmissible(rs) {
				return typ + ":matched-but-refused", fmt.Sprintf("res=%s", res)
			}
			if reported {
				if d := rootsWritten(pre, post, rs, idx); d != "" {
					return typ + ":reported-but-roots-not-written", d
				}
				wantCluster := cluster
				if cluster == "" && pre.ca.present {
					wantCluster = pre.ca.aux
				}
				wantCreate := idx
				if pre.ca.present {
					wantCreate = pre.ca.create
				}
				if !post.ca.present || post.ca.content != prov || post.ca.aux != wantCluster || post.ca.modify != idx || post.ca.create != wantCreate {
					return typ + ":reported-but-config-not-written", fmt.Sprintf("want %s/%s c=%d m=%d got %+v", prov, wantCluster, wantCreate, idx, post.ca)
				}
			}
			return "", ""
		}}
}

// ---------------------------------------------------------------- feature gates

type fgPre struct {
	pol, st ent
}

func readFG(st *state.Store) fgPre {
	_, p, s, err := st.FeatureGatePolicyAndStatus(nil)
	must(err)
	var out fgPre
	if p != nil {
		out.pol = ent{true, p.CreateIndex, p.ModifyIndex, policyContent(p), ""}
	}
	if s != nil {
		out.st = ent{true, s.CreateIndex, s.ModifyIndex, s.RegistryDigest, fmt.Sprint(s.PolicyIndex)}
	}
	return out
}

func fgCond(pol, status *string, expP, expS uint64) *cond {
	typ := "featureGate"
	return &cond{typ: typ,
		pre: func(st *state.Store) any { return readFG(st) },
		tags: func(p any) []string {
			pre := p.(fgPre)
			return []string{fmt.Sprintf("branch:%s:policy=%v,status=%v,newpolicy=%v", typ, pre.pol.modify == expP, pre.st.modify == expS, pol != nil)}
		},
		post: func(p any, st *state.Store, idx uint64, res string, unchanged bool) (string, string) {
			pre, post := p.(fgPre), readFG(st)
			matched := pre.pol.modify == expP && pre.st.modify == expS
			admissible := status != nil && (pol != nil || pre.pol.present)
			reported := reportedOK(res)
			if !reported && !unchanged {
				return typ + ":failed-write-changed-state", fmt.Sprintf("res=%s pre=%+v post=%+v", res, pre, post)
			}
			if reported && !matched {
				return typ + ":reported-without-match", fmt.Sprintf("expected %d/%d, stored %d/%d", expP, expS, pre.pol.modify, pre.st.modify)
			}
			if !reported && matched && admissible {
				return typ + ":matched-but-refused", fmt.Sprintf("res=%s", res)
			}
			if reported {
				wantPolIdx := expP
				if pol != nil {
					wantPolIdx = idx
					if !post.pol.present || post.pol.content != *pol || post.pol.modify != idx {
						return typ + ":reported-but-policy-not-written", fmt.Sprintf("post=%+v", post.pol)
					}
				} else if post.pol != pre.pol {
					return typ + ":policy-changed-without-request", fmt.Sprintf("pre=%+v post=%+v", pre.pol, post.pol)
				}
				if !post.st.present || post.st.content != *status || post.st.modify != idx || post.st.aux != fmt.Sprint(wantPolIdx) {
					return typ + ":reported-but-status-not-written", fmt.Sprintf("post=%+v want policy index %d", post.st, wantPolIdx)
				}
			}
			return "", ""
		}}
}
