//go:build verif

package main

import (
	"fmt"
	"strings"

	"github.com/hashicorp/consul/agent/consul/fsm"
	"github.com/hashicorp/consul/agent/consul/state"
	"github.com/hashicorp/consul/agent/structs"
	"github.com/hashicorp/consul/api"
	"github.com/hashicorp/consul/internal/verifharness/hx"
	"github.com/hashicorp/consul/types"
)

// cmd is one command of the protocol together with the two ways of running it on the real
// code. Request objects are built afresh on every call (the store keeps the pointers).
type cmd struct {
	name, args string
	store      func(st *state.Store, idx uint64) string
	fsm        func(f *fsm.FSM, idx uint64) string
	cond       *cond // monitor of a conditional write, nil for unconditional commands
	multi      bool  // multi-op transaction: all-or-nothing monitor
	tops       []top // the operations of a transaction (per-op monitor)
	// fsmUncond: the FSM layer treats this command as an unconditional write (CAOpSetConfig
	// with ModifyIndex 0), so the conditional-write monitor does not apply in world f.
	fsmUncond bool
}

func (c cmd) line(idx uint64) string {
	if c.args == "" {
		return fmt.Sprintf("%s %d", c.name, idx)
	}
	return fmt.Sprintf("%s %d %s", c.name, idx, c.args)
}

func ridx(c uint64) structs.RaftIndex { return structs.RaftIndex{ModifyIndex: c} }

// ---------------------------------------------------------------- KV (direct)

func dirEnt(k, v string, fl, cidx uint64) structs.DirEntry {
	return structs.DirEntry{Key: k, Value: []byte(v), Flags: fl, RaftIndex: ridx(cidx)}
}

func kvsFSM(op api.KVOp, mk func() structs.DirEntry) func(f *fsm.FSM, idx uint64) string {
	return func(f *fsm.FSM, idx uint64) string {
		return resIface(fsmApply(f, idx, structs.KVSRequestType, &structs.KVSRequest{Op: op, DirEnt: mk()}))
	}
}

func kvSetCmd(k, v string, fl uint64) cmd {
	mk := func() structs.DirEntry { return dirEnt(k, v, fl, 0) }
	return cmd{name: "kvset", args: fmt.Sprintf("%s %s %d", hx.EncS(k), hx.EncS(v), fl),
		store: func(st *state.Store, idx uint64) string { e := mk(); return resErr(st.KVSSet(idx, &e)) },
		fsm:   kvsFSM(api.KVSet, mk)}
}

func kvDelCmd(k string) cmd {
	mk := func() structs.DirEntry { return dirEnt(k, "", 0, 0) }
	return cmd{name: "kvdel", args: hx.EncS(k),
		store: func(st *state.Store, idx uint64) string { return resErr(st.KVSDelete(idx, k, nil)) },
		fsm:   kvsFSM(api.KVDelete, mk)}
}

func kvCasCmd(k, v string, fl, cidx uint64) cmd {
	mk := func() structs.DirEntry { return dirEnt(k, v, fl, cidx) }
	return cmd{name: "kvcas", args: fmt.Sprintf("%s %s %d %d", hx.EncS(k), hx.EncS(v), fl, cidx),
		store: func(st *state.Store, idx uint64) string { e := mk(); return resBoolErr(st.KVSSetCAS(idx, &e)) },
		fsm:   kvsFSM(api.KVCAS, mk)}
}

func kvDelCasCmd(k string, cidx uint64) cmd {
	mk := func() structs.DirEntry { return dirEnt(k, "", 0, cidx) }
	return cmd{name: "kvdelcas", args: fmt.Sprintf("%s %d", hx.EncS(k), cidx),
		store: func(st *state.Store, idx uint64) string { return resBoolErr(st.KVSDeleteCAS(idx, cidx, k, nil)) },
		fsm:   kvsFSM(api.KVDeleteCAS, mk)}
}

// ---------------------------------------------------------------- KV locks and sessions (direct)

func lockEnt(k, v string, fl uint64, sess string) structs.DirEntry {
	return structs.DirEntry{Key: k, Value: []byte(v), Flags: fl, Session: sess}
}

func kvLockCmd(unlock bool, k, v string, fl uint64, sess string) cmd {
	mk := func() structs.DirEntry { return lockEnt(k, v, fl, sess) }
	args := fmt.Sprintf("%s %s %d %s", hx.EncS(k), hx.EncS(v), fl, hx.EncS(sess))
	if unlock {
		return cmd{name: "kvunlock", args: args,
			store: func(st *state.Store, idx uint64) string { e := mk(); return resBoolErr(st.KVSUnlock(idx, &e)) },
			fsm:   kvsFSM(api.KVUnlock, mk)}
	}
	return cmd{name: "kvlock", args: args,
		store: func(st *state.Store, idx uint64) string { e := mk(); return resBoolErr(st.KVSLock(idx, &e)) },
		fsm:   kvsFSM(api.KVLock, mk)}
}

func sessCreateCmd(id, node, behavior string) cmd {
	mk := func() structs.Session {
		return structs.Session{ID: id, Node: node, Behavior: structs.SessionBehavior(behavior)}
	}
	return cmd{name: "sesscreate", args: fmt.Sprintf("%s %s %s", hx.EncS(id), hx.EncS(node), hx.EncS(behavior)),
		store: func(st *state.Store, idx uint64) string { e := mk(); return resErr(st.SessionCreate(idx, &e)) },
		fsm: func(f *fsm.FSM, idx uint64) string {
			out := fsmApply(f, idx, structs.SessionRequestType, &structs.SessionRequest{Datacenter: "dc1", Op: structs.SessionCreate, Session: mk()})
			if got, ok := out.(string); ok { // the FSM answers with the session ID
				if got != id {
					return "unexpected-session-id:" + got
				}
				return "nil"
			}
			return resIface(out)
		}}
}

func sessDestroyCmd(id string) cmd {
	return cmd{name: "sessdestroy", args: hx.EncS(id),
		store: func(st *state.Store, idx uint64) string { return resErr(st.SessionDestroy(idx, id, nil)) },
		fsm: func(f *fsm.FSM, idx uint64) string {
			return resIface(fsmApply(f, idx, structs.SessionRequestType, &structs.SessionRequest{Datacenter: "dc1", Op: structs.SessionDestroy, Session: structs.Session{ID: id}}))
		}}
}

// ---------------------------------------------------------------- transactions

type top struct {
	tok string
	mk  func() *structs.TxnOp
	oc  *opCond // set for conditional verbs: how the per-op monitor judges this op
}

// opCond: what a conditional verb inside a transaction is compared with.
type opCond struct {
	typ, rule string
	cidx      uint64
	read      func(st *state.Store) ent
	// judge, when set, replaces rule/cidx/read: the condition is not an index comparison
	// (lock holder, key absence)
	judge func(st *state.Store) (matched bool, pre ent)
}

func (t top) cond(typ, rule string, cidx uint64, read func(st *state.Store) ent) top {
	t.oc = &opCond{typ: typ, rule: rule, cidx: cidx, read: read}
	return t
}

func txnCmd(ops ...top) cmd {
	toks := make([]string, len(ops))
	for i, o := range ops {
		toks[i] = o.tok
	}
	build := func() structs.TxnOps {
		out := make(structs.TxnOps, len(ops))
		for i, o := range ops {
			out[i] = o.mk()
		}
		return out
	}
	return cmd{name: "txn", args: hx.EncList(toks), multi: len(ops) != 1, tops: ops,
		store: func(st *state.Store, idx uint64) string { return txnStr(st.TxnRW(idx, build())) },
		fsm: func(f *fsm.FSM, idx uint64) string {
			return resIface(fsmApply(f, idx, structs.TxnRequestType, &structs.TxnRequest{Datacenter: "dc1", Ops: build()}))
		}}
}

func kvTop(verb api.KVOp, tok string, k, v string, fl, cidx uint64) top {
	return top{tok: tok, mk: func() *structs.TxnOp {
		return &structs.TxnOp{KV: &structs.TxnKVOp{Verb: verb, DirEnt: dirEnt(k, v, fl, cidx)}}
	}}
}
func tKVSet(k, v string, fl uint64) top {
	return kvTop(api.KVSet, fmt.Sprintf("ks;%s;%s;%d", hx.EncS(k), hx.EncS(v), fl), k, v, fl, 0)
}
func tKVDel(k string) top { return kvTop(api.KVDelete, "kd;"+hx.EncS(k), k, "", 0, 0) }
func tKVCas(k, v string, fl, cidx uint64) top {
	return kvTop(api.KVCAS, fmt.Sprintf("kc;%s;%s;%d;%d", hx.EncS(k), hx.EncS(v), fl, cidx), k, v, fl, cidx).cond("kvCasTxn", "set", cidx, readKV(k))
}
func tKVDelCas(k string, cidx uint64) top {
	return kvTop(api.KVDeleteCAS, fmt.Sprintf("kdc;%s;%d", hx.EncS(k), cidx), k, "", 0, cidx).cond("kvDeleteCasTxn", "del-kv", cidx, readKV(k))
}

func lockTop(verb api.KVOp, tok, k, v string, fl uint64, sess string) top {
	return top{tok: tok, mk: func() *structs.TxnOp {
		return &structs.TxnOp{KV: &structs.TxnKVOp{Verb: verb, DirEnt: lockEnt(k, v, fl, sess)}}
	}}
}
func tKVLock(k, v string, fl uint64, sess string) top {
	t := lockTop(api.KVLock, fmt.Sprintf("kl;%s;%s;%d;%s", hx.EncS(k), hx.EncS(v), fl, hx.EncS(sess)), k, v, fl, sess)
	t.oc = &opCond{typ: "kvLockTxn", judge: func(st *state.Store) (bool, ent) { return lockMatched(st, k, sess), readKV(k)(st) }}
	return t
}
func tKVUnlock(k, v string, fl uint64, sess string) top {
	t := lockTop(api.KVUnlock, fmt.Sprintf("ku;%s;%s;%d;%s", hx.EncS(k), hx.EncS(v), fl, hx.EncS(sess)), k, v, fl, sess)
	t.oc = &opCond{typ: "kvUnlockTxn", judge: func(st *state.Store) (bool, ent) { return unlockMatched(st, k, sess), readKV(k)(st) }}
	return t
}
func tKVCheckSession(k, sess string) top {
	t := lockTop(api.KVCheckSession, "kcs;"+hx.EncS(k)+";"+hx.EncS(sess), k, "", 0, sess)
	t.oc = &opCond{typ: "kvCheckSession", judge: func(st *state.Store) (bool, ent) {
		e := readKV(k)(st)
		return e.present && kvSession(e) == sess, e
	}}
	return t
}
func tKVCheckIndex(k string, cidx uint64) top {
	return kvTop(api.KVCheckIndex, fmt.Sprintf("kci;%s;%d", hx.EncS(k), cidx), k, "", 0, cidx).cond("kvCheckIndex", "del", cidx, readKV(k))
}
func tKVCheckNotExists(k string) top {
	t := kvTop(api.KVCheckNotExists, "kcn;"+hx.EncS(k), k, "", 0, 0)
	t.oc = &opCond{typ: "kvCheckNotExists", judge: func(st *state.Store) (bool, ent) { e := readKV(k)(st); return !e.present, e }}
	return t
}
func tSessDel(id string) top {
	return top{tok: "sdel;" + hx.EncS(id), mk: func() *structs.TxnOp {
		return &structs.TxnOp{Session: &structs.TxnSessionOp{Verb: api.SessionDelete, Session: structs.Session{ID: id}}}
	}}
}

func nodeTop(verb api.NodeOp, tok, n, addr, id string, cidx uint64) top {
	return top{tok: tok, mk: func() *structs.TxnOp {
		return &structs.TxnOp{Node: &structs.TxnNodeOp{Verb: verb, Node: structs.Node{Node: n, ID: types.NodeID(id), Address: addr, RaftIndex: ridx(cidx)}}}
	}}
}
func tNodeSet(n, a, id string) top {
	return nodeTop(api.NodeSet, "ns;"+hx.EncS(n)+";"+hx.EncS(a)+";"+hx.EncS(id), n, a, id, 0)
}
func tNodeDel(n, id string) top {
	return nodeTop(api.NodeDelete, "nd;"+hx.EncS(n)+";"+hx.EncS(id), n, "", id, 0)
}
func tNodeCas(n, a, id string, cidx uint64) top {
	return nodeTop(api.NodeCAS, fmt.Sprintf("nc;%s;%s;%s;%d", hx.EncS(n), hx.EncS(a), hx.EncS(id), cidx), n, a, id, cidx).cond("nodeCas", "set", cidx, readNode(n))
}
func tNodeDelCas(n, id string, cidx uint64) top {
	return nodeTop(api.NodeDeleteCAS, fmt.Sprintf("ndc;%s;%s;%d", hx.EncS(n), hx.EncS(id), cidx), n, "", id, cidx).cond("nodeDeleteCas", "del", cidx, readNode(n))
}

func svcTop(verb api.ServiceOp, tok, n, id string, port int, cidx uint64) top {
	return top{tok: tok, mk: func() *structs.TxnOp {
		return &structs.TxnOp{Service: &structs.TxnServiceOp{Verb: verb, Node: n,
			Service: structs.NodeService{ID: id, Service: id, Port: port, RaftIndex: ridx(cidx)}}}
	}}
}
func tSvcSet(n, id string, port int) top {
	return svcTop(api.ServiceSet, fmt.Sprintf("ss;%s;%s;%d", hx.EncS(n), hx.EncS(id), port), n, id, port, 0)
}
func tSvcDel(n, id string) top {
	return svcTop(api.ServiceDelete, "sd;"+hx.EncS(n)+";"+hx.EncS(id), n, id, 0, 0)
}
func tSvcCas(n, id string, port int, cidx uint64) top {
	return svcTop(api.ServiceCAS, fmt.Sprintf("sc;%s;%s;%d;%d", hx.EncS(n), hx.EncS(id), port, cidx), n, id, port, cidx).cond("serviceCas", "set", cidx, readSvc(n, id))
}
func tSvcDelCas(n, id string, cidx uint64) top {
	return svcTop(api.ServiceDeleteCAS, fmt.Sprintf("sdc;%s;%s;%d", hx.EncS(n), hx.EncS(id), cidx), n, id, 0, cidx).cond("serviceDeleteCas", "del", cidx, readSvc(n, id))
}

func chkTop(verb api.CheckOp, tok, n, id, svcID, out, status string, cidx uint64) top {
	return top{tok: tok, mk: func() *structs.TxnOp {
		return &structs.TxnOp{Check: &structs.TxnCheckOp{Verb: verb, Check: structs.HealthCheck{
			Node: n, CheckID: types.CheckID(id), Name: id, Status: status, ServiceID: svcID, Output: out, RaftIndex: ridx(cidx)}}}
	}}
}
func tChkSet(n, id, svcID, out, status string) top {
	return chkTop(api.CheckSet, fmt.Sprintf("cs;%s;%s;%s;%s;%s", hx.EncS(n), hx.EncS(id), hx.EncS(svcID), hx.EncS(out), hx.EncS(status)), n, id, svcID, out, status, 0)
}
func tChkDel(n, id string) top {
	return chkTop(api.CheckDelete, "cd;"+hx.EncS(n)+";"+hx.EncS(id), n, id, "", "", api.HealthPassing, 0)
}
func tChkCas(n, id, svcID, out, status string, cidx uint64) top {
	return chkTop(api.CheckCAS, fmt.Sprintf("cc;%s;%s;%s;%s;%s;%d", hx.EncS(n), hx.EncS(id), hx.EncS(svcID), hx.EncS(out), hx.EncS(status), cidx), n, id, svcID, out, status, cidx).cond("checkCas", "set", cidx, readChk(n, id))
}
func tChkDelCas(n, id string, cidx uint64) top {
	return chkTop(api.CheckDeleteCAS, fmt.Sprintf("cdc;%s;%s;%d", hx.EncS(n), hx.EncS(id), cidx), n, id, "", "", api.HealthPassing, cidx).cond("checkDeleteCas", "del", cidx, readChk(n, id))
}

// ---------------------------------------------------------------- config entries

func isControlledKind(kind string) bool { return kind == structs.TCPRoute }

// cfgHasFlag: kinds whose entry carries the modelled boolean (service-defaults:
// MutualTLSMode=permissive, mesh: AllowEnablingPermissiveMutualTLS).
func cfgHasFlag(kind string) bool { return kind == structs.ServiceDefaults || kind == structs.MeshConfig }

func cfgEntry(kind, name, val, status string, flag bool, cidx uint64) structs.ConfigEntry {
	meta := map[string]string{"v": val}
	var e structs.ConfigEntry
	switch kind {
	case structs.ServiceDefaults:
		sd := &structs.ServiceConfigEntry{Kind: kind, Name: name, Meta: meta}
		if flag {
			sd.MutualTLSMode = structs.MutualTLSModePermissive
		}
		e = sd
	case structs.TCPRoute:
		r := &structs.TCPRouteConfigEntry{Kind: kind, Name: name, Meta: meta}
		if status != "" {
			r.Status = structs.Status{Conditions: []structs.Condition{{Type: "t", Status: status}}}
		}
		e = r
	case structs.MeshConfig:
		e = &structs.MeshConfigEntry{Meta: meta, AllowEnablingPermissiveMutualTLS: flag}
	case structs.IngressGateway:
		e = &structs.IngressGatewayConfigEntry{Kind: kind, Name: name, Meta: meta}
	case structs.TerminatingGateway:
		e = &structs.TerminatingGatewayConfigEntry{Kind: kind, Name: name, Meta: meta}
	case structs.ServiceSplitter:
		e = &structs.ServiceSplitterConfigEntry{Kind: kind, Name: name, Meta: meta, Splits: []structs.ServiceSplit{{Weight: 100}}}
	default:
		panic("kind " + kind)
	}
	if err := e.Normalize(); err != nil {
		panic(err)
	}
	e.GetRaftIndex().ModifyIndex = cidx
	return e
}

func cfgFSM(op structs.ConfigEntryOp, mk func() structs.ConfigEntry) func(f *fsm.FSM, idx uint64) string {
	return func(f *fsm.FSM, idx uint64) string {
		return resIface(fsmApply(f, idx, structs.ConfigEntryRequestType, &structs.ConfigEntryRequest{Op: op, Entry: mk()}))
	}
}

func cfgSetCmd(kind, name, val string, flag bool) cmd {
	flag = flag && cfgHasFlag(kind)
	mk := func() structs.ConfigEntry { return cfgEntry(kind, name, val, "", flag, 0) }
	return cmd{name: "cfgset", args: fmt.Sprintf("%s %s %s %s", hx.EncS(kind), hx.EncS(name), hx.EncS(val), hx.EncBool(flag)),
		store: func(st *state.Store, idx uint64) string { return resErr(st.EnsureConfigEntry(idx, mk())) },
		fsm:   cfgFSM(structs.ConfigEntryUpsert, mk)}
}

func cfgDelCmd(kind, name string) cmd {
	mk := func() structs.ConfigEntry { return cfgEntry(kind, name, "", "", false, 0) }
	return cmd{name: "cfgdel", args: hx.EncS(kind) + " " + hx.EncS(name),
		store: func(st *state.Store, idx uint64) string { return resErr(st.DeleteConfigEntry(idx, kind, name, nil)) },
		fsm:   cfgFSM(structs.ConfigEntryDelete, mk)}
}

func cfgCasCmd(withStatus bool, kind, name, val, status string, flag bool, cidx uint64) cmd {
	flag = flag && cfgHasFlag(kind)
	mk := func() structs.ConfigEntry { return cfgEntry(kind, name, val, status, flag, cidx) }
	c := cmd{name: "cfgcas", args: fmt.Sprintf("%s %s %s %s %s %d", hx.EncS(kind), hx.EncS(name), hx.EncS(val), hx.EncS(status), hx.EncBool(flag), cidx)}
	if withStatus {
		c.name = "cfgstcas"
		c.store = func(st *state.Store, idx uint64) string {
			return resBoolErr(st.EnsureConfigEntryWithStatusCAS(idx, cidx, mk()))
		}
		c.fsm = cfgFSM(structs.ConfigEntryUpsertWithStatusCAS, mk)
	} else {
		c.store = func(st *state.Store, idx uint64) string { return resBoolErr(st.EnsureConfigEntryCAS(idx, cidx, mk())) }
		c.fsm = cfgFSM(structs.ConfigEntryUpsertCAS, mk)
	}
	return c
}

func cfgDelCasCmd(kind, name string, cidx uint64) cmd {
	mk := func() structs.ConfigEntry { return cfgEntry(kind, name, "", "", false, cidx) }
	return cmd{name: "cfgdelcas", args: fmt.Sprintf("%s %s %d", hx.EncS(kind), hx.EncS(name), cidx),
		store: func(st *state.Store, idx uint64) string { return resBoolErr(st.DeleteConfigEntryCAS(idx, cidx, mk())) },
		fsm:   cfgFSM(structs.ConfigEntryDeleteCAS, mk)}
}

// ---------------------------------------------------------------- Connect CA

func caConf(prov, cluster string, cidx uint64) *structs.CAConfiguration {
	return &structs.CAConfiguration{Provider: prov, ClusterID: cluster, Config: map[string]interface{}{}, RaftIndex: ridx(cidx)}
}

func caFSM(mk func() *structs.CARequest) func(f *fsm.FSM, idx uint64) string {
	return func(f *fsm.FSM, idx uint64) string {
		return resIface(fsmApply(f, idx, structs.ConnectCARequestType, mk()))
	}
}

// caSetCmd is the unconditional write. World f: CAOpSetConfig with ModifyIndex 0.
func caSetCmd(prov, cluster string) cmd {
	return cmd{name: "caset", args: hx.EncS(prov) + " " + hx.EncS(cluster),
		store: func(st *state.Store, idx uint64) string { return resErr(st.CASetConfig(idx, caConf(prov, cluster, 0))) },
		fsm: caFSM(func() *structs.CARequest {
			return &structs.CARequest{Op: structs.CAOpSetConfig, Config: caConf(prov, cluster, 0)}
		})}
}

func caCasCmd(prov, cluster string, cidx uint64) cmd {
	return cmd{name: "cacas", args: fmt.Sprintf("%s %s %d", hx.EncS(prov), hx.EncS(cluster), cidx), fsmUncond: cidx == 0,
		store: func(st *state.Store, idx uint64) string {
			return resBoolErr(st.CACheckAndSetConfig(idx, cidx, caConf(prov, cluster, cidx)))
		},
		fsm: caFSM(func() *structs.CARequest {
			return &structs.CARequest{Op: structs.CAOpSetConfig, Config: caConf(prov, cluster, cidx)}
		})}
}

type rootReq struct {
	id, name string
	active   bool
}

func encRoots(rs []rootReq) string {
	t := make([]string, len(rs))
	for i, r := range rs {
		t[i] = hx.EncS(r.id) + ";" + hx.EncS(r.name) + ";" + hx.EncBool(r.active)
	}
	return hx.EncList(t)
}

func mkRoots(rs []rootReq) []*structs.CARoot {
	out := make([]*structs.CARoot, len(rs))
	for i, r := range rs {
		out[i] = &structs.CARoot{ID: r.id, Name: r.name, Active: r.active}
	}
	return out
}

func rootsCasCmd(cidx uint64, rs []rootReq) cmd {
	return cmd{name: "rootscas", args: fmt.Sprintf("%d %s", cidx, encRoots(rs)),
		store: func(st *state.Store, idx uint64) string { return resBoolErr(st.CARootSetCAS(idx, cidx, mkRoots(rs))) },
		fsm: caFSM(func() *structs.CARequest {
			return &structs.CARequest{Op: structs.CAOpSetRoots, Index: cidx, Roots: mkRoots(rs)}
		})}
}

func rootsCfgCmd(rcidx uint64, rs []rootReq, ccidx uint64, prov, cluster string) cmd {
	return cmd{name: "rootscfg", args: fmt.Sprintf("%d %s %d %s %s", rcidx, encRoots(rs), ccidx, hx.EncS(prov), hx.EncS(cluster)),
		store: func(st *state.Store, idx uint64) string {
			return resBoolErr(st.CARootSetCASAndCheckAndSetConfig(idx, rcidx, mkRoots(rs), ccidx, caConf(prov, cluster, ccidx)))
		},
		fsm: caFSM(func() *structs.CARequest {
			return &structs.CARequest{Op: structs.CAOpSetRootsAndConfig, Index: rcidx, Roots: mkRoots(rs), Config: caConf(prov, cluster, ccidx)}
		})}
}

// ---------------------------------------------------------------- autopilot

func apCmd(cas bool, v, cidx uint64) cmd {
	mk := func() structs.AutopilotConfig { return structs.AutopilotConfig{MaxTrailingLogs: v, ModifyIndex: cidx} }
	c := cmd{name: "apset", args: fmt.Sprint(v)}
	if cas {
		c = cmd{name: "apcas", args: fmt.Sprintf("%d %d", v, cidx)}
		c.store = func(st *state.Store, idx uint64) string { a := mk(); return resBoolErr(st.AutopilotCASConfig(idx, cidx, &a)) }
	} else {
		c.store = func(st *state.Store, idx uint64) string { a := mk(); return resErr(st.AutopilotSetConfig(idx, &a)) }
	}
	c.fsm = func(f *fsm.FSM, idx uint64) string {
		return resIface(fsmApply(f, idx, structs.AutopilotRequestType, &structs.AutopilotSetConfigRequest{Datacenter: "dc1", Config: mk(), CAS: cas}))
	}
	return c
}

// ---------------------------------------------------------------- feature gates

func optTok(p *string) string {
	if p == nil {
		return "-"
	}
	return hx.EncS(*p)
}

func fgCmd(pol, status *string, expP, expS uint64) cmd {
	mk := func() *structs.FeatureGateUpdateRequest {
		req := &structs.FeatureGateUpdateRequest{ExpectedPolicyIndex: expP, ExpectedStatusIndex: expS}
		if pol != nil {
			req.Policy = &structs.FeatureGatePolicy{Settings: map[string]structs.FeatureGateSetting{}}
			for _, k := range strings.Split(*pol, "+") {
				if k != "" {
					req.Policy.Settings[k] = structs.FeatureGateSetting{Enabled: true, Source: structs.FeatureGateSourceOperator}
				}
			}
		}
		if status != nil {
			req.Status = &structs.FeatureGateStatus{RegistryDigest: *status}
		}
		return req
	}
	return cmd{name: "fg", args: fmt.Sprintf("%s %s %d %d", optTok(pol), optTok(status), expP, expS),
		store: func(st *state.Store, idx uint64) string { return resBoolErr(st.FeatureGateUpdate(idx, mk())) },
		fsm: func(f *fsm.FSM, idx uint64) string {
			return resIface(fsmApply(f, idx, structs.FeatureGateRequestType, mk()))
		}}
}

// ---------------------------------------------------------------- ACL tokens

type tokReq struct {
	acc, sec, desc string
	cidx           uint64
}

func mkToks(ts []tokReq) structs.ACLTokens {
	out := make(structs.ACLTokens, len(ts))
	for i, t := range ts {
		out[i] = &structs.ACLToken{AccessorID: t.acc, SecretID: t.sec, Description: t.desc, RaftIndex: ridx(t.cidx)}
	}
	return out
}

func tokSetCmd(cas bool, ts []tokReq) cmd {
	toks := make([]string, len(ts))
	for i, t := range ts {
		toks[i] = fmt.Sprintf("%s;%s;%s;%d", hx.EncS(t.acc), hx.EncS(t.sec), hx.EncS(t.desc), t.cidx)
	}
	return cmd{name: "tokset", args: hx.EncBool(cas) + " " + hx.EncList(toks), multi: len(ts) != 1,
		store: func(st *state.Store, idx uint64) string {
			return resErr(st.ACLTokenBatchSet(idx, mkToks(ts), state.ACLTokenSetOptions{CAS: cas}))
		},
		fsm: func(f *fsm.FSM, idx uint64) string {
			return resIface(fsmApply(f, idx, structs.ACLTokenSetRequestType, &structs.ACLTokenBatchSetRequest{Tokens: mkToks(ts), CAS: cas}))
		}}
}

// tokBootCmd is ACLBootstrap: conditional on the reset index.
func tokBootCmd(reset uint64, t tokReq) cmd {
	mk := func() *structs.ACLToken {
		return &structs.ACLToken{AccessorID: t.acc, SecretID: t.sec, Description: t.desc}
	}
	return cmd{name: "tokboot", args: fmt.Sprintf("%d %s;%s;%s;0", reset, hx.EncS(t.acc), hx.EncS(t.sec), hx.EncS(t.desc)),
		store: func(st *state.Store, idx uint64) string { return resErr(st.ACLBootstrap(idx, reset, mk())) },
		fsm: func(f *fsm.FSM, idx uint64) string {
			return resIface(fsmApply(f, idx, structs.ACLBootstrapRequestType, &structs.ACLTokenBootstrapRequest{Token: *mk(), ResetIndex: reset}))
		}}
}

func tokDelCmd(accs []string) cmd {
	return cmd{name: "tokdel", args: hx.EncSList(accs),
		store: func(st *state.Store, idx uint64) string { return resErr(st.ACLTokenBatchDelete(idx, accs)) },
		fsm: func(f *fsm.FSM, idx uint64) string {
			return resIface(fsmApply(f, idx, structs.ACLTokenDeleteRequestType, &structs.ACLTokenBatchDeleteRequest{TokenIDs: accs}))
		}}
}
