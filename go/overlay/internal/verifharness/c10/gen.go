//go:build verif

package main

import (
	"fmt"
	"strings"

	"github.com/hashicorp/consul/agent/consul/state"
	"github.com/hashicorp/consul/agent/structs"
	"github.com/hashicorp/consul/internal/verifharness/hx"
	"github.com/hashicorp/consul/types"
)

// seedRNG only varies payload parts the implementation is documented to ignore (the node ID
// carried by the delete verbs); it is re-seeded from the run seed in main.
var seedRNG = hx.NewRNG(1)

type storeT = *state.Store

// gen is one case: two fresh worlds and the history applied to both.
type gen struct {
	r        *hx.RNG
	ws, wf   *world
	idx      uint64
	ops      []string            // replay: every protocol line of the case so far
	hist     map[string][]uint64 // entity key ↦ ModifyIndexes it has had in world s
	nontriv  bool
	caseTags []string
	log      []logged // every command applied so far (replayed into a replica by the per-op monitor)
	pending  uint64   // raft index reserved for the next command (0 = draw one)
}

type logged struct {
	c   cmd
	idx uint64
}

// reserveIdx fixes the raft index of the next command in advance, so that a transaction can
// name the index its own earlier operations are going to stamp.
func (g *gen) reserveIdx() uint64 {
	if g.pending == 0 {
		g.pending = g.nextIdx()
	}
	return g.pending
}

// opVerdict: what the per-op monitor expects of one operation of a transaction.
type opVerdict struct {
	cond, matched, singleOK bool
	typ                     string
	pre                     ent
	cidx                    uint64
}

// judgeOps replays the history of world s into a fresh replica store and walks the operations of
// a transaction one at a time: each conditional verb is judged (by the documented rule, on the
// entity read through the public API) against the state left by the operations before it.
func (g *gen) judgeOps(ops []top, idx uint64) []opVerdict {
	rep := state.NewStateStore(nil)
	for _, l := range g.log {
		l.c.store(rep, l.idx)
	}
	out := make([]opVerdict, len(ops))
	for k, op := range ops {
		if op.oc != nil && op.oc.judge != nil {
			m, pre := op.oc.judge(rep)
			out[k] = opVerdict{cond: true, matched: m, typ: op.oc.typ, pre: pre}
		} else if op.oc != nil {
			pre := op.oc.read(rep)
			out[k] = opVerdict{cond: true, matched: wantMatch(op.oc.rule, pre, op.oc.cidx), typ: op.oc.typ, pre: pre, cidx: op.oc.cidx}
		}
		_, errs := rep.TxnRW(idx, structs.TxnOps{op.mk()}) // advance the replica by this op alone
		out[k].singleOK = len(errs) == 0
	}
	return out
}

// txnErrIndexes parses "txn-err:0;stale,2;missing-node".
func txnErrIndexes(res string) map[int]string {
	m := map[int]string{}
	if !strings.HasPrefix(res, "txn-err:") {
		return m
	}
	for _, part := range strings.Split(strings.TrimPrefix(res, "txn-err:"), ",") {
		f := strings.SplitN(part, ";", 2)
		var k int
		if len(f) == 2 {
			fmt.Sscan(f[0], &k)
			m[k] = f[1]
		}
	}
	return m
}

func newGen(r *hx.RNG) *gen {
	ws, wf := newWorlds()
	g := &gen{r: r, ws: ws, wf: wf, idx: 10 + uint64(r.Intn(5)), hist: map[string][]uint64{}}
	g.emit("reset", "ok")
	return g
}

func (g *gen) emit(op, out string) {
	run.Line(op, out)
	g.ops = append(g.ops, op)
}

func (g *gen) nextIdx() uint64 {
	if g.r.Chance(3) {
		run.Tag("idx:repeat-or-regress")
		if g.idx > 2 && g.r.Bool() {
			g.idx--
		}
		return g.idx
	}
	g.idx += 1 + uint64(g.r.Intn(3))
	return g.idx
}

// exec runs one command in both worlds at the same raft index, writes the protocol lines and
// runs the monitors on each world separately.
func (g *gen) exec(c cmd) (resS, resF string) {
	idx := g.pending
	g.pending = 0
	if idx == 0 {
		idx = g.nextIdx()
	}
	var verdicts []opVerdict
	if c.multi && len(c.tops) > 0 {
		verdicts = g.judgeOps(c.tops, idx)
	}
	defer func() { g.log = append(g.log, logged{c, idx}) }()
	for _, w := range []*world{g.ws, g.wf} {
		st := w.store()
		line := w.tag + " " + c.line(idx)
		cd := c.cond
		if w.f != nil && c.fsmUncond {
			cd = nil
			run.Tag("fsm:ca-set-config-index0-is-unconditional")
		}
		var pre any
		before := ""
		if cd != nil || c.multi {
			before = fullDump(st)
		}
		if cd != nil {
			pre = cd.pre(st)
		}
		var res string
		if w.f != nil {
			res = c.fsm(w.f, idx)
		} else {
			res = c.store(st, idx)
		}
		g.emit(line, res)
		g.emit(w.tag+" dump", project(st))
		run.Tag("op:" + c.name)
		run.Tag("res:" + strings.SplitN(res, ";", 2)[0])
		if w.f != nil {
			resF = res
		} else {
			resS = res
		}
		if cd != nil {
			unchanged := before == fullDump(st)
			run.Tag("T:" + cd.typ + ":" + w.tag)
			for _, t := range cd.tags(pre) {
				run.Tag(t)
			}
			if reportedOK(res) {
				g.nontriv = true
			}
			if sig, desc := cd.post(pre, st, idx, res, unchanged); sig != "" {
				run.Violate(sig, fmt.Sprintf("world %s, op %q: %s", w.tag, line, desc), append([]string(nil), g.ops...))
			}
		}
		if verdicts != nil {
			failed := txnErrIndexes(res)
			for k, v := range verdicts {
				if !v.cond {
					continue
				}
				_, refused := failed[k]
				run.Tag(fmt.Sprintf("txn-op:%s:matched=%v,refused=%v", v.typ, v.matched, refused))
				switch {
				case !v.matched && !refused:
					run.Violate("txn-op:"+v.typ+":reported-without-match", fmt.Sprintf("world %s, op #%d of %q: index %d does not match the entity as left by the earlier operations (%+v) but the operation was not refused (%s)", w.tag, k, line, v.cidx, v.pre, res), append([]string(nil), g.ops...))
				case v.matched && v.singleOK && refused:
					run.Violate("txn-op:"+v.typ+":matched-but-refused", fmt.Sprintf("world %s, op #%d of %q: index %d matches the entity as left by the earlier operations (%+v) and the write is admissible, yet it was refused (%s)", w.tag, k, line, v.cidx, v.pre, res), append([]string(nil), g.ops...))
				}
			}
		}
		// invariant behind the lock condition: a key is only ever held by a session that exists
		for _, r := range st.VerifC10Rows("kvs") {
			if e := r.(*structs.DirEntry); e.Session != "" && !sessionExists(st, e.Session) {
				run.Violate("kv:lock-held-by-missing-session", fmt.Sprintf("world %s, after %q: key %q is held by session %s which does not exist", w.tag, line, e.Key, e.Session), append([]string(nil), g.ops...))
			}
		}
		if c.multi && (strings.HasPrefix(res, "txn-err") || strings.HasPrefix(res, "err:")) {
			run.Tag("multi:aborted")
			if before != fullDump(st) {
				run.Violate(c.name+":aborted-batch-changed-state", fmt.Sprintf("world %s, op %q answered %s but the store changed", w.tag, line, res), append([]string(nil), g.ops...))
			}
		}
	}
	return
}

func (g *gen) remember(key string, read func(st *state.Store) ent) {
	if e := read(g.ws.store()); e.present {
		h := g.hist[key]
		if len(h) == 0 || h[len(h)-1] != e.modify {
			g.hist[key] = append(h, e.modify)
		}
	}
}

var cidxClasses = []string{"zero", "current", "stale", "future", "pred"}

// pickCidx chooses the index the caller supplies, relative to the entity's state in world s.
func (g *gen) pickCidx(class string, cur ent, key string) uint64 {
	run.Tag("cidx:" + class)
	switch class {
	case "zero":
		return 0
	case "current":
		return cur.modify
	case "stale":
		var old []uint64
		for _, m := range g.hist[key] {
			if m != cur.modify {
				old = append(old, m)
			}
		}
		if len(old) > 0 {
			run.Tag("cidx:stale-from-earlier-life")
			return hx.Pick(g.r, old)
		}
		if cur.modify > 1 {
			return cur.modify - 1
		}
		return 7
	case "future":
		return g.idx + 5 + uint64(g.r.Intn(50))
	default: // pred
		if cur.modify > 1 {
			return cur.modify - 1
		}
		return cur.modify + 1
	}
}

// ---------------------------------------------------------------- drivers: one per (command type, entity)

type drv struct {
	typ      string
	key      string
	read     func(st *state.Store) ent
	prereq   func(g *gen)
	set      func(content int) cmd
	del      func() cmd // nil when the entity cannot be deleted
	cas      func(content int, cidx uint64) cmd
	contents int
	seed     func(g *gen) // optional: extra state installed after establish (stored status)
}

var kvVals = []string{"v1", "v2", ""}
var addrs = []string{"10.0.0.1", "10.0.0.2"}
var ports = []int{80, 8080}
var outs = []string{"ok", "warn"}
var chkStatuses = []string{"passing", "critical"}
var cfgVals = []string{"1", "2"}
var statuses = []string{"", "True", "False"}
var provs = []string{"consul", "vault"}
var clusters = []string{"cl-1", "", "cl-2"}
var tokAcc = []string{"11111111-0000-0000-0000-000000000001", "11111111-0000-0000-0000-000000000002", "a1111111-0000-0000-0000-00000000000a"}
var descs = []string{"d1", "d2"}

func secretOf(acc string) string { return "5ec-" + acc }

func single(t top, c *cond) cmd { x := txnCmd(t); x.cond = c; return x }

func kvDrivers(k string) []drv {
	read := readKV(k)
	want := func(i int) func(ent) (string, string) {
		return func(pre ent) (string, string) { return fmt.Sprintf("%s/%d", kvVals[i%3], i/3), kvAuxAfterSet(pre) }
	}
	set := func(i int) cmd { return kvSetCmd(k, kvVals[i%3], uint64(i/3)) }
	del := func() cmd { return kvDelCmd(k) }
	key := "kv/" + k
	return []drv{
		{typ: "kvCas", key: key, read: read, set: set, del: del, contents: 6, cas: func(i int, c uint64) cmd {
			x := kvCasCmd(k, kvVals[i%3], uint64(i/3), c)
			x.cond = entityCond(entSpec{typ: "kvCas", rule: "set", cidx: c, read: read, idem: true, want: want(i)})
			return x
		}},
		{typ: "kvDeleteCas", key: key, read: read, set: set, del: del, contents: 6, cas: func(_ int, c uint64) cmd {
			x := kvDelCasCmd(k, c)
			x.cond = entityCond(entSpec{typ: "kvDeleteCas", rule: "del-kv", cidx: c, read: read, isDel: true})
			return x
		}},
		{typ: "kvCasTxn", key: key, read: read, set: set, del: del, contents: 6, cas: func(i int, c uint64) cmd {
			return single(tKVCas(k, kvVals[i%3], uint64(i/3), c), entityCond(entSpec{typ: "kvCasTxn", rule: "set", cidx: c, read: read, idem: true, want: want(i)}))
		}},
		{typ: "kvDeleteCasTxn", key: key, read: read, set: set, del: del, contents: 6, cas: func(_ int, c uint64) cmd {
			return single(tKVDelCas(k, c), entityCond(entSpec{typ: "kvDeleteCasTxn", rule: "del-kv", cidx: c, read: read, isDel: true}))
		}},
	}
}

// node IDs: none, two that the histories register, one that is never registered up front
var nodeIDs = []string{"", "aaaaaaaa-1111-4111-8111-111111111111", "bbbbbbbb-2222-4222-8222-222222222222", "cccccccc-3333-4333-8333-333333333333"}

func nodeContent(i int) (addr, id string) { return addrs[i%2], nodeIDs[(i/2)%4] }

// nodeByID finds, through the public read API, the registration carrying a node ID.
func nodeByID(st *state.Store, id string) (name string, e ent) {
	if id == "" {
		return "", ent{}
	}
	_, n, err := st.GetNodeID(types.NodeID(id), nil, "")
	must(err)
	if n == nil {
		return "", ent{}
	}
	return n.Node, ent{true, n.CreateIndex, n.ModifyIndex, string(n.ID) + "/" + n.Address, ""}
}

// tagNodeID records how the ID carried by a node operation relates to the store.
func tagNodeID(st *state.Store, n, id string) {
	cur := readNode(n)(st)
	owner, e := nodeByID(st, id)
	switch {
	case id == "":
		run.Tag("nodeid:none")
	case cur.present && strings.HasPrefix(cur.content, id+"/"):
		run.Tag("nodeid:own")
	case e.present && owner != n:
		run.Tag("nodeid:of-another-registration")
	case cur.present && strings.HasPrefix(cur.content, "/"):
		run.Tag("nodeid:unknown-on-idless-node")
	case cur.present:
		run.Tag("nodeid:unknown-on-node-with-other-id")
	default:
		run.Tag("nodeid:unknown-on-absent-name")
	}
}

func nodeDrivers(n string) []drv {
	read := readNode(n)
	other := map[string]string{"n1": "n2", "n2": "n1", "N1": "n2"}[n]
	set := func(i int) cmd { a, id := nodeContent(i); return txnCmd(tNodeSet(n, a, id)) }
	del := func() cmd { return txnCmd(tNodeDel(n, hx.Pick(seedRNG, nodeIDs))) }
	key := "node/" + n
	// a second registration (often with an ID) and sometimes a Serf health check on the target:
	// the material for foreign IDs, renames and name clashes
	seed := func(g *gen) {
		if g.r.Chance(70) {
			g.exec(txnCmd(tNodeSet(other, addrs[g.r.Intn(2)], nodeIDs[g.r.Intn(3)])))
			g.remember("node/"+other, readNode(other))
		}
		if read(g.ws.store()).present && g.r.Chance(30) {
			run.Tag("node:serf-health-registered")
			g.exec(txnCmd(tChkSet(n, "serfHealth", "", "ok", chkStatuses[g.r.Intn(2)])))
		}
	}
	return []drv{
		{typ: "nodeCas", key: key, read: read, set: set, del: del, contents: 8, seed: seed, cas: func(i int, c uint64) cmd {
			a, id := nodeContent(i)
			return single(tNodeCas(n, a, id, c), entityCond(entSpec{typ: "nodeCas", rule: "set", cidx: c, read: read, idem: true,
				want: func(ent) (string, string) { return id + "/" + a, "" },
				createOf: func(st *state.Store) (uint64, bool) {
					tagNodeID(st, n, id)
					if owner, e := nodeByID(st, id); e.present && owner != n {
						return e.create, true
					}
					return 0, false
				}}))
		}},
		{typ: "nodeDeleteCas", key: key, read: read, set: set, del: del, contents: 8, seed: seed, cas: func(i int, c uint64) cmd {
			_, id := nodeContent(i)
			return single(tNodeDelCas(n, id, c), entityCond(entSpec{typ: "nodeDeleteCas", rule: "del", cidx: c, read: read, isDel: true}))
		}},
	}
}

func ensureNode(n string) func(g *gen) {
	return func(g *gen) {
		if !readNode(n)(g.ws.store()).present || !readNode(n)(g.wf.store()).present {
			g.exec(txnCmd(tNodeSet(n, addrs[0], nodeIDs[g.r.Intn(2)])))
		}
	}
}

func svcDrivers(n, id string) []drv {
	read := readSvc(n, id)
	set := func(i int) cmd { return txnCmd(tSvcSet(n, id, ports[i%2])) }
	del := func() cmd { return txnCmd(tSvcDel(n, id)) }
	key := "svc/" + n + "/" + id
	return []drv{
		{typ: "serviceCas", key: key, read: read, prereq: ensureNode(n), set: set, del: del, contents: 2, cas: func(i int, c uint64) cmd {
			return single(tSvcCas(n, id, ports[i%2], c), entityCond(entSpec{typ: "serviceCas", rule: "set", cidx: c, read: read, idem: true,
				want: func(ent) (string, string) { return fmt.Sprint(ports[i%2]), "" }}))
		}},
		{typ: "serviceDeleteCas", key: key, read: read, prereq: ensureNode(n), set: set, del: del, contents: 2, cas: func(_ int, c uint64) cmd {
			return single(tSvcDelCas(n, id, c), entityCond(entSpec{typ: "serviceDeleteCas", rule: "del", cidx: c, read: read, isDel: true}))
		}},
	}
}

func chkDrivers(n, id, svcID string) []drv {
	read := readChk(n, id)
	pre := func(g *gen) {
		ensureNode(n)(g)
		if svcID != "" && (!readSvc(n, svcID)(g.ws.store()).present || !readSvc(n, svcID)(g.wf.store()).present) {
			g.exec(txnCmd(tSvcSet(n, svcID, ports[0])))
		}
	}
	set := func(i int) cmd { return txnCmd(tChkSet(n, id, svcID, outs[i%2], chkStatuses[(i/2)%2])) }
	del := func() cmd { return txnCmd(tChkDel(n, id)) }
	key := "chk/" + n + "/" + id
	return []drv{
		{typ: "checkCas", key: key, read: read, prereq: pre, set: set, del: del, contents: 4, cas: func(i int, c uint64) cmd {
			return single(tChkCas(n, id, svcID, outs[i%2], chkStatuses[(i/2)%2], c), entityCond(entSpec{typ: "checkCas", rule: "set", cidx: c, read: read, idem: true,
				want: func(ent) (string, string) { return svcID + "/" + outs[i%2] + "/" + chkStatuses[(i/2)%2], "" },
				qual: func(st *state.Store) string {
					if !readNode(n)(st).present || (svcID != "" && !readSvc(n, svcID)(st).present) {
						return "write-error-swallowed" // shape of the defect repaired by 3d11035
					}
					return ""
				}}))
		}},
		{typ: "checkDeleteCas", key: key, read: read, prereq: pre, set: set, del: del, contents: 4, cas: func(_ int, c uint64) cmd {
			return single(tChkDelCas(n, id, c), entityCond(entSpec{typ: "checkDeleteCas", rule: "del", cidx: c, read: read, isDel: true}))
		}},
	}
}

// cfgRefusal restates, for the monitor, the documented admission rules of the generated kinds.
func cfgRefusal(st *state.Store, kind, name string, flag bool) string {
	present := func(k, n string) bool { return readCfg(k, n)(st).present }
	switch kind {
	case structs.ServiceDefaults:
		if !flag {
			return ""
		}
		if cur := readCfg(kind, name)(st); cur.present && strings.HasSuffix(cur.content, "|flag") {
			return "" // already permissive: not a change
		}
		if mesh := readCfg(structs.MeshConfig, structs.MeshConfigMesh)(st); mesh.present && strings.HasSuffix(mesh.content, "|flag") {
			return ""
		}
		return "permissive-mtls-not-allowed"
	case structs.IngressGateway:
		if present(structs.TerminatingGateway, name) {
			return "gateway-name-clash"
		}
	case structs.TerminatingGateway:
		if present(structs.IngressGateway, name) {
			return "gateway-name-clash"
		}
	case structs.ServiceSplitter:
		return "splitter-on-tcp-service"
	}
	return ""
}

func cfgDrivers(kind, name string) []drv {
	read := readCfg(kind, name)
	ctl := isControlledKind(kind)
	flagOf := func(i int) bool { return cfgHasFlag(kind) && (i/6)%2 == 1 }
	set := func(i int) cmd { return cfgSetCmd(kind, name, cfgVals[i%2], false) }
	del := func() cmd { return cfgDelCmd(kind, name) }
	key := "cfg/" + kind + "/" + name
	stOf := func(i int) string {
		if !ctl {
			return ""
		}
		return statuses[(i/2)%3]
	}
	valOf := func(cur ent) string { return strings.TrimSuffix(cur.content, "|flag") }
	var seed func(g *gen)
	switch {
	case ctl:
		// give the stored entry a non-default status through a matching status-cas
		seed = func(g *gen) {
			if cur := read(g.ws.store()); cur.present && g.r.Chance(65) {
				run.Tag("cfg:stored-status-seeded")
				g.exec(cfgCasCmd(true, kind, name, valOf(cur), statuses[1+g.r.Intn(2)], false, cur.modify))
			}
		}
	case kind == structs.ServiceDefaults:
		// sometimes the mesh entry allows permissive mutual TLS, sometimes the entry already is permissive
		seed = func(g *gen) {
			if g.r.Chance(50) {
				allow := g.r.Chance(70)
				run.Tag(fmt.Sprintf("cfg:mesh-entry-allows-permissive=%v", allow))
				g.exec(cfgSetCmd(structs.MeshConfig, structs.MeshConfigMesh, "1", allow))
				if cur := read(g.ws.store()); allow && cur.present && g.r.Chance(40) {
					g.exec(cfgCasCmd(false, kind, name, valOf(cur), "", true, cur.modify))
					if g.r.Bool() {
						g.exec(cfgDelCmd(structs.MeshConfig, structs.MeshConfigMesh)) // stays permissive without consent
					}
				}
			}
		}
	case kind == structs.IngressGateway || kind == structs.TerminatingGateway:
		otherKind := map[string]string{structs.IngressGateway: structs.TerminatingGateway, structs.TerminatingGateway: structs.IngressGateway}[kind]
		seed = func(g *gen) {
			if !read(g.ws.store()).present && g.r.Chance(60) {
				run.Tag("cfg:other-gateway-kind-holds-the-name")
				g.exec(cfgSetCmd(otherKind, name, "1", false))
			}
		}
	}
	contents := 6
	if cfgHasFlag(kind) {
		contents = 12
	}
	refusal := func(i int) func(st *state.Store) string {
		return func(st *state.Store) string { return cfgRefusal(st, kind, name, flagOf(i)) }
	}
	return []drv{
		{typ: "configCas", key: key, read: read, set: set, del: del, contents: contents, seed: seed, cas: func(i int, c uint64) cmd {
			x := cfgCasCmd(false, kind, name, cfgVals[i%2], stOf(i), flagOf(i), c)
			x.cond = entityCond(entSpec{typ: "configCas", rule: "set", cidx: c, read: read, inadmissible: refusal(i), want: func(pre ent) (string, string) {
				if ctl && pre.present {
					return cfgContentStr(cfgVals[i%2], flagOf(i)), pre.aux // a plain upsert keeps the stored status
				}
				return cfgContentStr(cfgVals[i%2], flagOf(i)), ""
			}})
			return x
		}},
		{typ: "configStatusCas", key: key, read: read, set: set, del: del, contents: contents, seed: seed, cas: func(i int, c uint64) cmd {
			x := cfgCasCmd(true, kind, name, cfgVals[i%2], stOf(i), flagOf(i), c)
			x.cond = entityCond(entSpec{typ: "configStatusCas", rule: "set", cidx: c, read: read, inadmissible: refusal(i),
				want: func(ent) (string, string) { return cfgContentStr(cfgVals[i%2], flagOf(i)), stOf(i) }})
			return x
		}},
		{typ: "configDeleteCas", key: key, read: read, set: set, del: del, contents: contents, seed: seed, cas: func(_ int, c uint64) cmd {
			x := cfgDelCasCmd(kind, name, c)
			x.cond = entityCond(entSpec{typ: "configDeleteCas", rule: "del", cidx: c, read: read, isDel: true})
			return x
		}},
	}
}

func caDriver() drv {
	return drv{typ: "caConfigCas", key: "ca", read: readCA, contents: 6,
		set: func(i int) cmd { return caSetCmd(provs[i%2], clusters[(i/2)%3]) },
		cas: func(i int, c uint64) cmd {
			x := caCasCmd(provs[i%2], clusters[(i/2)%3], c)
			x.cond = entityCond(entSpec{typ: "caConfigCas", rule: "ca", cidx: c, read: readCA, want: func(pre ent) (string, string) {
				cl := clusters[(i/2)%3]
				if cl == "" && pre.present {
					cl = pre.aux // an empty ClusterID keeps the stored one
				}
				return provs[i%2], cl
			}})
			return x
		}}
}

func apDriver() drv {
	return drv{typ: "autopilotCas", key: "ap", read: readAP, contents: 3,
		set: func(i int) cmd { return apCmd(false, uint64(100+i%3), 0) },
		cas: func(i int, c uint64) cmd {
			x := apCmd(true, uint64(100+i%3), c)
			x.cond = entityCond(entSpec{typ: "autopilotCas", rule: "ap", cidx: c, read: readAP,
				want: func(ent) (string, string) { return fmt.Sprint(100 + i%3), "" }})
			return x
		}}
}

func tokDriver(acc string) drv {
	read := readTok(acc)
	return drv{typ: "aclTokenCas", key: "tok/" + acc, read: read, contents: 2,
		set: func(i int) cmd { return tokSetCmd(false, []tokReq{{acc, secretOf(acc), descs[i%2], 0}}) },
		del: func() cmd { return tokDelCmd([]string{acc}) },
		cas: func(i int, c uint64) cmd {
			x := tokSetCmd(true, []tokReq{{acc, secretOf(acc), descs[i%2], c}})
			x.cond = entityCond(entSpec{typ: "aclTokenCas", rule: "set", cidx: c, read: read, silent: true,
				want: func(ent) (string, string) { return secretOf(acc) + "/" + descs[i%2], "" }})
			return x
		}}
}

func allDrivers() []drv {
	var ds []drv
	for _, k := range []string{"a", "a/b", "b"} {
		ds = append(ds, kvDrivers(k)...)
	}
	for _, n := range []string{"n1", "n2", "N1"} { // "N1" collides with "n1": one registration, two spellings
		ds = append(ds, nodeDrivers(n)...)
	}
	ds = append(ds, svcDrivers("N1", "api")...)
	ds = append(ds, chkDrivers("N1", "c1", "")...)
	ds = append(ds, svcDrivers("n1", "web")...)
	ds = append(ds, svcDrivers("n1", "api")...)
	ds = append(ds, svcDrivers("n2", "web")...)
	ds = append(ds, chkDrivers("n1", "c1", "")...)
	ds = append(ds, chkDrivers("n1", "c2", "web")...)
	ds = append(ds, chkDrivers("n2", "c1", "web")...)
	ds = append(ds, chkDrivers("n2", "serfHealth", "")...)
	ds = append(ds, cfgDrivers(structs.ServiceDefaults, "web")...)
	ds = append(ds, cfgDrivers(structs.ServiceDefaults, "api")...)
	ds = append(ds, cfgDrivers(structs.TCPRoute, "r1")...)
	ds = append(ds, cfgDrivers(structs.MeshConfig, structs.MeshConfigMesh)...)
	ds = append(ds, cfgDrivers(structs.IngressGateway, "gw")...)
	ds = append(ds, cfgDrivers(structs.TerminatingGateway, "gw")...)
	ds = append(ds, cfgDrivers(structs.ServiceSplitter, "web")...)
	ds = append(ds, caDriver(), apDriver())
	for _, a := range tokAcc {
		ds = append(ds, tokDriver(a))
	}
	return ds
}

// establish brings the driver's entity into the named pre-state.
func (g *gen) establish(d drv, pre string) {
	if d.prereq != nil {
		d.prereq(g)
	}
	do := func(c cmd) { g.exec(c); g.remember(d.key, d.read) }
	c0 := g.r.Intn(d.contents)
	switch pre {
	case "absent":
	case "present":
		do(d.set(c0))
	case "rewritten":
		do(d.set(c0))
		do(d.set(c0 + 1))
	case "deleted":
		do(d.set(c0))
		if d.del != nil {
			do(d.del())
		}
	case "recreated":
		do(d.set(c0))
		if d.del != nil {
			do(d.del())
		}
		do(d.set(g.r.Intn(d.contents)))
	}
	if d.seed != nil {
		d.seed(g)
		g.remember(d.key, d.read)
	}
	run.Tag("prestate:" + pre)
}

var preStates = []string{"absent", "present", "rewritten", "deleted", "recreated"}

// casOn performs one conditional write of driver d with an index of the given class and the
// given payload relation to the stored content.
func (g *gen) casOn(d drv, class string, same bool) {
	cur := d.read(g.ws.store())
	cidx := g.pickCidx(class, cur, d.key)
	content := g.r.Intn(d.contents)
	if same && cur.present {
		// find the content number that reproduces what is stored (if any does)
		for i := 0; i < d.contents; i++ {
			if storedEquals(d, i, cur) {
				content = i
				run.Tag("payload:same-as-stored")
				break
			}
		}
	}
	g.exec(d.cas(content, cidx))
	g.remember(d.key, d.read)
}

// storedEquals: would writing content #i reproduce the stored content? (per driver family)
func storedEquals(d drv, i int, cur ent) bool {
	switch {
	case strings.HasPrefix(d.key, "kv/"):
		return cur.content == fmt.Sprintf("%s/%d", kvVals[i%3], i/3)
	case strings.HasPrefix(d.key, "node/"):
		a, id := nodeContent(i)
		return cur.content == id+"/"+a
	case strings.HasPrefix(d.key, "svc/"):
		return cur.content == fmt.Sprint(ports[i%2])
	case strings.HasPrefix(d.key, "chk/"):
		return strings.HasSuffix(cur.content, "/"+outs[i%2]+"/"+chkStatuses[(i/2)%2])
	case strings.HasPrefix(d.key, "cfg/"):
		return strings.TrimSuffix(cur.content, "|flag") == cfgVals[i%2]
	case d.key == "ca":
		return cur.content == provs[i%2]
	case d.key == "ap":
		return cur.content == fmt.Sprint(100+i%3)
	case strings.HasPrefix(d.key, "tok/"):
		return strings.HasSuffix(cur.content, "/"+descs[i%2])
	}
	return false
}

func (g *gen) finish(kind string) {
	run.Tag("case:" + kind)
	run.Case(strings.Join(g.ops, "\n"), g.nontriv)
	if len(g.ops) > 2 {
		run.Sample(map[string]any{"kind": kind, "ops": g.ops[:min(len(g.ops), 9)]})
	}
}
