//go:build verif

// C10 harness: conditional writes are honest (applied iff matched, reported iff applied).
//
// Every case builds two fresh worlds — "s", a state.Store driven through its methods, and "f",
// a real FSM driven through encoded raft commands — and applies the same history to both at the
// same raft indexes. After every command the harness prints the command's canonical answer and
// the projection of the store; the Lean model (CV.Cas via cvd_c10) must reproduce every line.
// Independently of the model, Go monitors (mon.go) check the property on the implementation:
// reported ⇔ matched, reported ⇒ written with the right indexes, not reported ⇒ the COMPLETE
// memdb dump is unchanged, composite all-or-nothing, aborted batch ⇒ unchanged.
package main

import (
	"fmt"
	"strings"

	"github.com/hashicorp/consul/internal/verifharness/hx"
)

// ---------------------------------------------------------------- CA roots / composite / feature gates

var rootIDs = []string{"r1", "r2", "r3"}

// genRoots draws a root set; kind selects a valid set or one of the inadmissible shapes.
func genRoots(r *hx.RNG, kind string) []rootReq {
	n := 1 + r.Intn(3)
	ids := append([]string(nil), rootIDs...)
	hx.Shuffle(r, ids)
	var rs []rootReq
	for i := 0; i < n; i++ {
		rs = append(rs, rootReq{ids[i], fmt.Sprintf("ca%d", r.Intn(2)), false})
	}
	act := r.Intn(n)
	rs[act].active = true
	switch kind {
	case "no-active":
		rs[act].active = false
	case "two-active":
		rs = append(rs, rootReq{"r9", "ca9", true})
	case "empty-id":
		rs[r.Intn(n)].id = ""
	case "dup-id":
		rs = append(rs, rootReq{rs[0].id, "dup", false})
	case "dup-id-active":
		// the duplicate (listed last, so it wins) changes the number of active roots
		j := r.Intn(n)
		rs = append(rs, rootReq{rs[j].id, "dup", !rs[j].active})
	}
	run.Tag("roots:" + kind)
	return rs
}

var rootKinds = []string{"valid", "valid", "valid", "no-active", "two-active", "empty-id", "dup-id", "dup-id-active"}

func (g *gen) rootsIndex() ent { return ent{present: true, modify: readRoots(g.ws.store()).index} }

func (g *gen) rootsCas(class, kind string) {
	cidx := g.pickCidx(class, g.rootsIndex(), "roots")
	rs := genRoots(g.r, kind)
	c := rootsCasCmd(cidx, rs)
	c.cond = rootsCond(cidx, rs)
	g.exec(c)
	g.remember("roots", func(st storeT) ent { return ent{present: true, modify: readRoots(st).index} })
}

func (g *gen) composite(rclass, cclass, kind string) {
	rcidx := g.pickCidx(rclass, g.rootsIndex(), "roots")
	ccidx := g.pickCidx(cclass, readCA(g.ws.store()), "ca")
	rs := genRoots(g.r, kind)
	prov, cl := hx.Pick(g.r, provs), hx.Pick(g.r, clusters)
	c := rootsCfgCmd(rcidx, rs, ccidx, prov, cl)
	c.cond = compositeCond(rcidx, rs, ccidx, prov, cl)
	g.exec(c)
	g.remember("roots", func(st storeT) ent { return ent{present: true, modify: readRoots(st).index} })
	g.remember("ca", readCA)
}

var fgPols = []string{"gate-a", "gate-a+gate-b", ""}
var fgDigests = []string{"d1", "d2"}

func (g *gen) featureGate(pclass, sclass string, withPolicy, withStatus bool) {
	pre := readFG(g.ws.store())
	expP := g.pickCidx(pclass, pre.pol, "fgp")
	expS := g.pickCidx(sclass, pre.st, "fgs")
	var pol, st *string
	if withPolicy {
		p := hx.Pick(g.r, fgPols)
		pol = &p
	}
	if withStatus {
		d := hx.Pick(g.r, fgDigests)
		st = &d
	}
	c := fgCmd(pol, st, expP, expS)
	c.cond = fgCond(pol, st, expP, expS)
	g.exec(c)
	g.remember("fgp", func(s storeT) ent { return readFG(s).pol })
	g.remember("fgs", func(s storeT) ent { return readFG(s).st })
}

// ---------------------------------------------------------------- batches

// tokenBatch: several tokens in one ACLTokenBatchSet with CAS; some may carry a bad secret
// (the SecretID of a stored token is immutable ⇒ the whole batch aborts).
func (g *gen) tokenBatch() {
	n := 2 + g.r.Intn(2)
	var ts []tokReq
	for i := 0; i < n; i++ {
		acc := hx.Pick(g.r, tokAcc)
		cur := readTok(acc)(g.ws.store())
		t := tokReq{acc, secretOf(acc), hx.Pick(g.r, descs), g.pickCidx(hx.Pick(g.r, cidxClasses), cur, "tok/"+acc)}
		switch g.r.Intn(12) {
		case 0:
			t.sec = "bad-" + acc
			run.Tag("tok:changed-secret")
		case 1:
			t.sec = ""
			run.Tag("tok:empty-secret")
		case 2:
			t.acc = ""
			run.Tag("tok:empty-accessor")
		}
		ts = append(ts, t)
	}
	g.exec(tokSetCmd(g.r.Chance(85), ts))
	for _, a := range tokAcc {
		g.remember("tok/"+a, readTok(a))
	}
}

// multiTxn: 2–4 catalog/KV verbs (conditional and not) in one transaction.
func (g *gen) multiTxn() {
	n := 2 + g.r.Intn(3)
	var ops []top
	for i := 0; i < n; i++ {
		cl := hx.Pick(g.r, []string{"current", "current", "zero", "stale", "future"})
		switch g.r.Intn(10) {
		case 0:
			k := hx.Pick(g.r, []string{"a", "b"})
			ops = append(ops, tKVCas(k, hx.Pick(g.r, kvVals), 0, g.pickCidx(cl, readKV(k)(g.ws.store()), "kv/"+k)))
		case 1:
			k := hx.Pick(g.r, []string{"a", "b"})
			ops = append(ops, tKVDelCas(k, g.pickCidx(cl, readKV(k)(g.ws.store()), "kv/"+k)))
		case 2:
			ops = append(ops, tKVSet(hx.Pick(g.r, []string{"a", "b"}), hx.Pick(g.r, kvVals), uint64(g.r.Intn(2))))
		case 3:
			n := hx.Pick(g.r, []string{"n1", "n2", "N1"})
			ops = append(ops, tNodeCas(n, hx.Pick(g.r, addrs), hx.Pick(g.r, nodeIDs), g.pickCidx(cl, readNode(n)(g.ws.store()), "node/"+n)))
		case 4:
			ops = append(ops, tNodeSet(hx.Pick(g.r, []string{"n1", "n2", "N1"}), hx.Pick(g.r, addrs), hx.Pick(g.r, nodeIDs)))
		case 5:
			n := hx.Pick(g.r, []string{"n1", "n2", "N1"})
			ops = append(ops, tSvcCas(n, "web", hx.Pick(g.r, ports), g.pickCidx(cl, readSvc(n, "web")(g.ws.store()), "svc/"+n+"/web")))
		case 6:
			ops = append(ops, tSvcSet(hx.Pick(g.r, []string{"n1", "n2", "N1"}), "web", hx.Pick(g.r, ports)))
		case 7:
			n := hx.Pick(g.r, []string{"n1", "n2", "N1"})
			ops = append(ops, tChkCas(n, "c1", hx.Pick(g.r, []string{"", "web"}), hx.Pick(g.r, outs), hx.Pick(g.r, chkStatuses), g.pickCidx(cl, readChk(n, "c1")(g.ws.store()), "chk/"+n+"/c1")))
		case 8:
			n := hx.Pick(g.r, []string{"n1", "n2", "N1"})
			ops = append(ops, tNodeDelCas(n, hx.Pick(g.r, nodeIDs), g.pickCidx(cl, readNode(n)(g.ws.store()), "node/"+n)))
		default:
			n := hx.Pick(g.r, []string{"n1", "n2", "N1"})
			ops = append(ops, tSvcDelCas(n, "web", g.pickCidx(cl, readSvc(n, "web")(g.ws.store()), "svc/"+n+"/web")))
		}
	}
	res, _ := g.exec(txnCmd(ops...))
	if len(res) > 6 && res[:6] == "txn-ok" {
		g.nontriv = true
	}
}

// txnChain: one transaction whose operations all address the SAME entity, so that every
// conditional verb after the first is judged against what the earlier ones left behind
// (an index that was current before the transaction is stale after a write inside it; the raft
// index of the transaction itself is the "current" index once an earlier operation has written).
func (g *gen) txnChain() {
	idx := g.reserveIdx()
	fam := g.r.Intn(4)
	n := hx.Pick(g.r, []string{"n1", "n2", "N1"})
	if fam >= 2 && g.r.Chance(85) {
		ensureNode(n)(g)
		idx = g.reserveIdx()
	}
	var cur ent
	key := ""
	switch fam {
	case 0:
		key = "kv/a"
		cur = readKV("a")(g.ws.store())
	case 1:
		key = "node/" + n
		cur = readNode(n)(g.ws.store())
	case 2:
		key = "svc/" + n + "/web"
		cur = readSvc(n, "web")(g.ws.store())
	default:
		key = "chk/" + n + "/c1"
		cur = readChk(n, "c1")(g.ws.store())
	}
	pick := func() uint64 {
		switch g.r.Intn(6) {
		case 0:
			run.Tag("cidx:index-of-this-transaction")
			return idx
		case 1:
			return 0
		case 2, 3:
			return g.pickCidx("current", cur, key)
		default:
			return g.pickCidx(hx.Pick(g.r, []string{"stale", "future"}), cur, key)
		}
	}
	var ops []top
	for k, m := 0, 2+g.r.Intn(3); k < m; k++ {
		verb := g.r.Intn(5) // 0 set, 1 delete, 2/3 cas, 4 delete-cas
		switch fam {
		case 0:
			ops = append(ops, []top{tKVSet("a", hx.Pick(g.r, kvVals), 0), tKVDel("a"), tKVCas("a", hx.Pick(g.r, kvVals), 0, pick()), tKVCas("a", hx.Pick(g.r, kvVals), 1, pick()), tKVDelCas("a", pick())}[verb])
		case 1:
			id := hx.Pick(g.r, nodeIDs[:3])
			ops = append(ops, []top{tNodeSet(n, hx.Pick(g.r, addrs), id), tNodeDel(n, ""), tNodeCas(n, hx.Pick(g.r, addrs), id, pick()), tNodeCas(n, hx.Pick(g.r, addrs), "", pick()), tNodeDelCas(n, "", pick())}[verb])
		case 2:
			ops = append(ops, []top{tSvcSet(n, "web", hx.Pick(g.r, ports)), tSvcDel(n, "web"), tSvcCas(n, "web", hx.Pick(g.r, ports), pick()), tSvcCas(n, "web", hx.Pick(g.r, ports), pick()), tSvcDelCas(n, "web", pick())}[verb])
		default:
			ops = append(ops, []top{tChkSet(n, "c1", "", hx.Pick(g.r, outs), "passing"), tChkDel(n, "c1"), tChkCas(n, "c1", "", hx.Pick(g.r, outs), hx.Pick(g.r, chkStatuses), pick()), tChkCas(n, "c1", "", hx.Pick(g.r, outs), "passing", pick()), tChkDelCas(n, "c1", pick())}[verb])
		}
	}
	run.Tag("txn-chain:" + []string{"kv", "node", "service", "check"}[fam])
	res, _ := g.exec(txnCmd(ops...))
	if strings.HasPrefix(res, "txn-ok") {
		g.nontriv = true
		run.Tag("txn-chain:committed")
	}
}

// ---------------------------------------------------------------- sessions, locks, guards, bootstrap

var sessIDs = []string{"5e551001-0000-4000-8000-000000000001", "5e551002-0000-4000-8000-000000000002"}

const sessUnknown = "5e55dead-0000-4000-8000-00000000dead"

// ensureSession makes sure session id exists in both worlds (on node n, created if need be).
func (g *gen) ensureSession(id, n, behavior string) {
	// each node under its own node ID (a shared ID would turn the second registration into a rename)
	if !readNode(n)(g.ws.store()).present || !readNode(n)(g.wf.store()).present {
		g.exec(txnCmd(tNodeSet(n, addrs[0], map[string]string{"n1": nodeIDs[1], "N1": nodeIDs[1], "n2": nodeIDs[2]}[n])))
	}
	if !sessionExists(g.ws.store(), id) || !sessionExists(g.wf.store(), id) {
		g.exec(sessCreateCmd(id, n, behavior))
	}
}

// lockOp issues one lock / unlock, directly or as a single-operation transaction, monitored.
func (g *gen) lockOp(unlock, viaTxn bool, k, sess string) {
	v, fl := hx.Pick(g.r, kvVals), uint64(g.r.Intn(2))
	var c cmd
	typ := map[bool]string{false: "kvLock", true: "kvUnlock"}[unlock]
	if viaTxn {
		typ += "Txn"
		if unlock {
			c = single(tKVUnlock(k, v, fl, sess), lockCond(typ, true, k, v, fl, sess))
		} else {
			c = single(tKVLock(k, v, fl, sess), lockCond(typ, false, k, v, fl, sess))
		}
	} else {
		c = kvLockCmd(unlock, k, v, fl, sess)
		c.cond = lockCond(typ, unlock, k, v, fl, sess)
	}
	g.exec(c)
	g.remember("kv/"+k, readKV(k))
}

// keyPre brings key "a" into one of the lock-relevant pre-states (sessions s1 on n1, s2 on n2).
func (g *gen) keyPre(pre string) {
	s1, s2 := sessIDs[0], sessIDs[1]
	switch pre {
	case "absent":
	case "plain":
		g.exec(kvSetCmd("a", "v1", 0))
	case "held-by-s1":
		g.ensureSession(s1, "n1", "")
		g.exec(kvLockCmd(false, "a", "v1", 0, s1))
	case "held-by-s2":
		g.ensureSession(s2, "n2", hx.Pick(g.r, []string{"release", "delete"}))
		g.exec(kvLockCmd(false, "a", "v1", 0, s2))
	case "released":
		g.ensureSession(s1, "n1", "")
		g.exec(kvLockCmd(false, "a", "v1", 0, s1))
		g.exec(kvLockCmd(true, "a", "v2", 0, s1))
	case "holder-destroyed":
		g.ensureSession(s2, "n2", "release")
		g.exec(kvLockCmd(false, "a", "v1", 0, s2))
		g.exec(sessDestroyCmd(s2))
	case "holder-node-deleted":
		g.ensureSession(s2, "n2", hx.Pick(g.r, []string{"release", "delete"}))
		g.exec(kvLockCmd(false, "a", "v1", 0, s2))
		g.exec(txnCmd(tNodeDel("n2", "")))
	}
	g.remember("kv/a", readKV("a"))
	run.Tag("prestate:key-" + pre)
}

var keyPres = []string{"absent", "plain", "held-by-s1", "held-by-s2", "released", "holder-destroyed", "holder-node-deleted"}

// lockMatrix: lock / unlock (direct and txn verb) × key pre-state × requester session
// (valid, valid-other, unknown, empty, destroyed).
func lockMatrix(fork func() *hx.RNG) {
	for _, pre := range keyPres {
		for _, who := range []string{"s1", "s1-absent", "unknown", "empty", "s1-destroyed"} {
			for _, unlock := range []bool{false, true} {
				for _, viaTxn := range []bool{false, true, false, true} {
					g := newGen(fork())
					g.keyPre(pre)
					sess := sessIDs[0]
					switch who {
					case "s1":
						g.ensureSession(sess, "n1", "")
					case "s1-absent":
						// never created in this case unless the pre-state did
					case "unknown":
						sess = sessUnknown
					case "empty":
						sess = ""
					case "s1-destroyed":
						g.ensureSession(sess, "n1", hx.Pick(g.r, []string{"release", "delete"}))
						g.exec(sessDestroyCmd(sess))
					}
					run.Tag("lock-matrix:requester=" + who)
					g.lockOp(unlock, viaTxn, "a", sess)
					// a conditional KV write on the (possibly locked) key afterwards: cas must keep the holder
					d := kvDrivers("a")[g.r.Intn(4)]
					g.casOn(d, hx.Pick(g.r, []string{"current", "current", "stale", "zero"}), false)
					g.finish("systematic-lock")
				}
			}
		}
	}
}

// guardTxn: a transaction whose first operations are pure guards (check-index / check-session /
// check-not-exists) and whose last is a write on ANOTHER key: the write happens iff every guard holds.
func (g *gen) guardTxn() {
	cur := readKV("a")(g.ws.store())
	var ops []top
	for n := 1 + g.r.Intn(2); n > 0; n-- {
		switch g.r.Intn(3) {
		case 0:
			ops = append(ops, tKVCheckIndex("a", g.pickCidx(hx.Pick(g.r, []string{"current", "current", "stale", "zero", "future"}), cur, "kv/a")))
		case 1:
			se := hx.Pick(g.r, []string{"", sessIDs[0], sessIDs[1], sessUnknown})
			if cur.present && g.r.Bool() {
				se = kvSession(cur) // the actual holder ("" when the key is free)
			}
			ops = append(ops, tKVCheckSession("a", se))
		default:
			k := hx.Pick(g.r, []string{"a", "b"})
			if g.r.Bool() && !readKV("b")(g.ws.store()).present {
				k = "b"
			}
			ops = append(ops, tKVCheckNotExists(k))
		}
	}
	// the write goes to another key — or to the guarded key itself, so that a later guard is
	// judged against what the write left behind
	wk := hx.Pick(g.r, []string{"b", "b", "a"})
	wcur := readKV(wk)(g.ws.store())
	idx := g.reserveIdx()
	switch g.r.Intn(6) {
	case 0:
		ops = append(ops, tKVSet(wk, hx.Pick(g.r, kvVals), 0))
	case 1:
		ops = append(ops, tKVCas(wk, hx.Pick(g.r, kvVals), 0, g.pickCidx(hx.Pick(g.r, []string{"current", "current", "zero", "stale"}), wcur, "kv/"+wk)))
	case 2, 3:
		se := hx.Pick(g.r, sessIDs)
		if wcur.present && kvSession(wcur) != "" && g.r.Bool() { // the other session asks for a held key
			se = map[string]string{sessIDs[0]: sessIDs[1], sessIDs[1]: sessIDs[0]}[kvSession(wcur)]
		}
		ops = append(ops, tKVLock(wk, hx.Pick(g.r, kvVals), 0, se))
	case 4:
		se := hx.Pick(g.r, sessIDs)
		if wcur.present && kvSession(wcur) != "" && g.r.Chance(70) {
			se = kvSession(wcur)
		}
		ops = append(ops, tKVUnlock(wk, hx.Pick(g.r, kvVals), 0, se))
	default:
		ops = append(ops, tSessDel(hx.Pick(g.r, sessIDs)))
	}
	if g.r.Chance(40) { // guard after the write, judged against what the write left
		switch g.r.Intn(3) {
		case 0:
			ops = append(ops, tKVCheckIndex(wk, hx.Pick(g.r, []uint64{idx, idx, wcur.modify})))
		case 1:
			ops = append(ops, tKVCheckSession(wk, hx.Pick(g.r, []string{"", sessIDs[0], sessIDs[1]})))
		default:
			ops = append(ops, tKVCheckNotExists(wk))
		}
	}
	run.Tag("txn-guard")
	res, _ := g.exec(txnCmd(ops...))
	if strings.HasPrefix(res, "txn-ok") {
		g.nontriv = true
		run.Tag("txn-guard:committed")
	}
	g.remember("kv/a", readKV("a"))
	g.remember("kv/b", readKV("b"))
}

func guardMatrix(fork func() *hx.RNG) {
	for _, pre := range keyPres {
		for k := 0; k < 16; k++ {
			g := newGen(fork())
			g.keyPre(pre)
			if g.r.Bool() {
				g.exec(kvSetCmd("b", "v1", 0))
				g.remember("kv/b", readKV("b"))
			}
			if g.r.Chance(75) {
				g.ensureSession(sessIDs[0], "n1", hx.Pick(g.r, []string{"", "release", "delete"}))
			}
			if g.r.Chance(60) {
				g.ensureSession(sessIDs[1], "n2", hx.Pick(g.r, []string{"", "release", "delete"}))
				if g.r.Chance(60) { // key b held, so that lock / unlock / check-session on it have something to judge
					g.exec(kvLockCmd(false, "b", "v1", 0, sessIDs[1]))
					g.remember("kv/b", readKV("b"))
				}
			}
			g.guardTxn()
			g.finish("systematic-txn-guard")
		}
	}
}

// sessionCascade: a session holding several keys goes away (destroy, txn session-delete, node
// delete, node rename) — every held key is released / deleted at the raft index, others untouched.
func sessionCascade(fork func() *hx.RNG) {
	for _, behavior := range []string{"", "release", "delete"} {
		for _, how := range []string{"destroy", "txn-delete", "node-delete", "node-delete-cas", "node-rename"} {
			for rep := 0; rep < 2; rep++ {
				g := newGen(fork())
				s1, s2 := sessIDs[0], sessIDs[1]
				g.exec(txnCmd(tNodeSet("n1", addrs[0], nodeIDs[1])))
				g.exec(txnCmd(tNodeSet("n2", addrs[1], nodeIDs[2])))
				g.exec(sessCreateCmd(s1, hx.Pick(g.r, []string{"n1", "N1"}), behavior))
				g.ensureSession(s2, "n2", "release")
				g.exec(kvLockCmd(false, "a", "v1", 0, s1))
				g.exec(kvLockCmd(false, "a/b", "v2", 1, s1))
				g.exec(kvLockCmd(false, "b", "v1", 0, s2))
				if g.r.Bool() {
					g.exec(kvLockCmd(true, "a/b", "v2", 1, s1))
				}
				switch how {
				case "destroy":
					g.exec(sessDestroyCmd(s1))
				case "txn-delete":
					g.exec(txnCmd(tSessDel(s1), tKVCheckSession("b", s2)))
				case "node-delete":
					g.exec(txnCmd(tNodeDel("n1", "")))
				case "node-delete-cas":
					g.exec(single(tNodeDelCas("n1", "", readNode("n1")(g.ws.store()).modify), nil))
				default:
					g.exec(txnCmd(tNodeSet("n3", addrs[1], nodeIDs[1]))) // same ID under a new name: n1 goes, with its sessions
				}
				run.Tag("session-cascade:" + how + ",behavior=" + behavior)
				for _, w := range []*world{g.ws, g.wf} {
					st := w.store()
					if sessionExists(st, s1) {
						run.Violate("session:not-invalidated:"+how, "world "+w.tag+": session survives "+how, append([]string(nil), g.ops...))
					}
					for _, k := range []string{"a", "a/b"} {
						if e := readKV(k)(st); e.present && kvSession(e) == s1 {
							run.Violate("session:lock-survives-session:"+how, "world "+w.tag+": key "+k+" still held by a gone session", append([]string(nil), g.ops...))
						}
					}
					if e := readKV("b")(st); !e.present || kvSession(e) != s2 {
						run.Violate("session:foreign-lock-touched:"+how, "world "+w.tag+": key b lost its holder", append([]string(nil), g.ops...))
					}
				}
				// the freed key can be taken by the other session; the index of its earlier life is stale
				g.lockOp(false, g.r.Bool(), "a", s2)
				g.casOn(kvDrivers("a")[0], hx.Pick(g.r, []string{"current", "stale", "zero"}), false)
				g.finish("systematic-session-cascade")
			}
		}
	}
}

// bootstrap: ACLBootstrap × history of earlier bootstraps × supplied reset index × token shape.
func (g *gen) bootstrap(class, shape string) {
	_, cur, err := g.ws.store().CanBootstrapACLToken()
	must(err)
	reset := g.pickCidx(class, ent{present: cur != 0, modify: cur}, "boot")
	acc := hx.Pick(g.r, tokAcc)
	t := tokReq{acc, secretOf(acc), hx.Pick(g.r, descs), 0}
	switch shape {
	case "changed-secret":
		t.sec = "bad-" + acc
	case "empty-secret":
		t.sec = ""
	case "empty-accessor":
		t.acc = ""
	}
	run.Tag("boot-token:" + shape)
	c := tokBootCmd(reset, t)
	c.cond = bootCond(reset, t)
	g.exec(c)
	if _, now, _ := g.ws.store().CanBootstrapACLToken(); now != 0 {
		h := g.hist["boot"]
		if len(h) == 0 || h[len(h)-1] != now {
			g.hist["boot"] = append(h, now)
		}
	}
	for _, a := range tokAcc {
		g.remember("tok/"+a, readTok(a))
	}
}

func bootMatrix(fork func() *hx.RNG) {
	for _, pre := range []string{"never", "once", "twice"} {
		for _, class := range cidxClasses {
			for _, shape := range []string{"fresh", "fresh", "changed-secret", "empty-secret", "empty-accessor"} {
				for _, withTok := range []bool{false, true} {
					g := newGen(fork())
					if withTok {
						for _, a := range tokAcc[:2] {
							g.exec(tokSetCmd(false, []tokReq{{a, secretOf(a), "d1", 0}}))
						}
					}
					if pre != "never" {
						g.bootstrap("zero", "fresh")
					}
					if pre == "twice" {
						g.bootstrap("current", "fresh")
					}
					run.Tag("prestate:boot-" + pre)
					g.bootstrap(class, shape)
					g.finish("systematic-bootstrap")
				}
			}
		}
	}
}

// ---------------------------------------------------------------- case families

// systematic: every command type × pre-state × supplied-index class × payload relation.
func systematic(rounds int) {
	caseNo := uint64(0)
	fork := func() *hx.RNG { caseNo++; return run.RNG.Fork(caseNo) }
	for round := 0; round < rounds; round++ {
		for _, d := range allDrivers() { // every command type on every entity of its universe
			for _, pre := range preStates {
				if d.del == nil && (pre == "deleted" || pre == "recreated") {
					continue
				}
				for _, class := range cidxClasses {
					for _, same := range []bool{false, true} {
						g := newGen(fork())
						g.establish(d, pre)
						g.casOn(d, class, same)
						g.finish("systematic")
					}
				}
			}
		}
		// conditional catalog writes whose prerequisites are missing (the write itself is refused)
		for _, class := range []string{"zero", "current", "future"} {
			for _, shape := range []string{"check-no-node", "check-no-service", "service-no-node"} {
				g := newGen(fork())
				var d drv
				switch shape {
				case "check-no-node":
					d = chkDrivers("n1", "c1", "")[0]
				case "check-no-service":
					d = chkDrivers("n1", "c2", "web")[0]
					ensureNode("n1")(g)
				default:
					d = svcDrivers("n1", "web")[0]
				}
				run.Tag("prereq-missing:" + shape)
				g.casOn(d, class, false)
				g.finish("systematic-missing-prerequisite")
			}
		}
		nodeIDMatrix(fork)
		lockMatrix(fork)
		guardMatrix(fork)
		sessionCascade(fork)
		bootMatrix(fork)
		// transactions whose operations depend on each other (per-op monitor)
		for _, pre := range []string{"absent", "present", "rewritten"} {
			for k := 0; k < 60; k++ {
				g := newGen(fork())
				if pre != "absent" {
					for _, c := range []cmd{kvSetCmd("a", "v1", 0), txnCmd(tNodeSet("n1", addrs[0], nodeIDs[g.r.Intn(2)])), txnCmd(tSvcSet("n1", "web", ports[0])), txnCmd(tChkSet("n1", "c1", "", "ok", "passing"))} {
						g.exec(c)
					}
					if pre == "rewritten" {
						g.exec(kvSetCmd("a", "v2", 0))
						g.exec(txnCmd(tNodeSet("n1", addrs[1], "")))
						g.exec(txnCmd(tSvcSet("n1", "web", ports[1])))
						g.exec(txnCmd(tChkSet("n1", "c1", "", "warn", "passing")))
					}
					for _, kk := range []struct {
						k string
						r func(storeT) ent
					}{{"kv/a", readKV("a")}, {"node/n1", readNode("n1")}, {"svc/n1/web", readSvc("n1", "web")}, {"chk/n1/c1", readChk("n1", "c1")}} {
						g.remember(kk.k, kk.r)
					}
				}
				g.txnChain()
				g.finish("systematic-txn-chain")
			}
		}
		// roots, composite and feature gates have their own enumerations
		for _, pre := range []string{"absent", "present", "rewritten"} {
			for _, class := range cidxClasses {
				for _, kind := range []string{"valid", "no-active", "two-active", "empty-id", "dup-id", "dup-id-active"} {
					g := newGen(fork())
					g.rootsPre(pre)
					g.rootsCas(class, kind)
					g.finish("systematic-roots")
				}
				for _, cclass := range cidxClasses {
					for _, kind := range []string{"valid", "valid", "empty-id", "no-active"} {
						for _, capre := range []string{"absent", "present"} {
							g := newGen(fork())
							g.rootsPre(pre)
							if capre == "present" {
								g.exec(caSetCmd(provs[0], clusters[0]))
								g.remember("ca", readCA)
								if g.r.Bool() {
									g.exec(caSetCmd(provs[1], clusters[1]))
									g.remember("ca", readCA)
								}
							}
							g.composite(class, cclass, kind)
							g.finish("systematic-composite")
						}
					}
				}
			}
		}
		for _, pre := range []string{"absent", "policy+status", "rewritten"} {
			for _, pc := range cidxClasses {
				for _, sc := range cidxClasses {
					for _, shape := range [][2]bool{{true, true}, {false, true}, {true, false}} {
						g := newGen(fork())
						g.fgPre(pre)
						g.featureGate(pc, sc, shape[0], shape[1])
						g.finish("systematic-featuregate")
					}
				}
			}
		}
	}
}

// nodeIDMatrix: node verbs carrying no / the own / another registration's / an unknown node ID,
// against a target name that is absent, registered without ID or registered with an ID, with
// and without a second registration and a Serf health check defending the name.
func nodeIDMatrix(fork func() *hx.RNG) {
	idA, idB, idC := nodeIDs[1], nodeIDs[2], nodeIDs[3]
	for _, target := range []string{"absent", "no-id", "with-id"} {
		for _, other := range []bool{false, true} {
			for _, healthy := range []string{"", "passing", "critical"} {
				if healthy != "" && target == "absent" {
					continue
				}
				for _, opID := range []string{"", idA, idB, idC} {
					for _, class := range []string{"zero", "current", "stale", "future"} {
						for _, verb := range []string{"cas", "delete-cas", "set"} {
							g := newGen(fork())
							switch target {
							case "no-id":
								g.exec(txnCmd(tNodeSet("n1", addrs[0], "")))
							case "with-id":
								g.exec(txnCmd(tNodeSet("n1", addrs[0], idA)))
							}
							g.remember("node/n1", readNode("n1"))
							if target != "absent" && g.r.Bool() { // give the stale class an earlier index
								g.exec(txnCmd(tNodeSet("n1", addrs[1], map[string]string{"no-id": "", "with-id": idA}[target])))
								g.remember("node/n1", readNode("n1"))
							}
							if other {
								g.exec(txnCmd(tNodeSet("n2", addrs[1], idB)))
								if g.r.Bool() {
									g.exec(txnCmd(tSvcSet("n2", "web", ports[0]))) // something for a rename to cascade over
								}
							}
							if healthy != "" {
								g.exec(txnCmd(tChkSet("n1", "serfHealth", "", "ok", healthy)))
							}
							run.Tag(fmt.Sprintf("nodeid-matrix:target=%s,other=%v,serf=%s", target, other, healthy))
							opName := "n1"
							if g.r.Chance(35) {
								opName = "N1" // same registration, other spelling
								run.Tag("nodeid-matrix:case-colliding-name")
							}
							d := nodeDrivers(opName)
							cur := readNode("n1")(g.ws.store())
							cidx := g.pickCidx(class, cur, "node/n1")
							content := g.r.Intn(2)
							for j, id := range nodeIDs {
								if id == opID {
									content += 2 * j
								}
							}
							switch verb {
							case "cas":
								g.exec(d[0].cas(content, cidx))
							case "delete-cas":
								g.exec(d[1].cas(content, cidx))
							default:
								g.exec(d[0].set(content))
							}
							g.finish("systematic-node-id")
						}
					}
				}
			}
		}
	}
}

func (g *gen) rootsPre(pre string) {
	set := func() {
		cur := readRoots(g.ws.store()).index
		rs := genRoots(g.r, "valid")
		g.exec(rootsCasCmd(cur, rs))
		g.remember("roots", func(st storeT) ent { return ent{present: true, modify: readRoots(st).index} })
	}
	switch pre {
	case "present":
		set()
	case "rewritten":
		set()
		set()
	}
	run.Tag("prestate:roots-" + pre)
}

func (g *gen) fgPre(pre string) {
	set := func(withPol bool) {
		cur := readFG(g.ws.store())
		d := hx.Pick(g.r, fgDigests)
		var pol *string
		if withPol {
			p := hx.Pick(g.r, fgPols)
			pol = &p
		}
		g.exec(fgCmd(pol, &d, cur.pol.modify, cur.st.modify))
		g.remember("fgp", func(s storeT) ent { return readFG(s).pol })
		g.remember("fgs", func(s storeT) ent { return readFG(s).st })
	}
	switch pre {
	case "policy+status":
		set(true)
	case "rewritten":
		set(true)
		set(false)
		if g.r.Bool() {
			set(true)
		}
	}
	run.Tag("prestate:fg-" + pre)
}

// history: a random interleaving of every command type on one pair of worlds.
func history(r *hx.RNG, length int) {
	g := newGen(r)
	ds := allDrivers()
	for step := 0; step < length; step++ {
		switch x := g.r.Intn(100); {
		case x < 50:
			d := hx.Pick(g.r, ds)
			if d.prereq != nil && g.r.Chance(80) {
				d.prereq(g)
			}
			switch y := g.r.Intn(10); {
			case y < 3:
				g.exec(d.set(g.r.Intn(d.contents)))
				g.remember(d.key, d.read)
			case y < 4 && d.del != nil:
				g.exec(d.del())
			default:
				g.casOn(d, hx.Pick(g.r, cidxClasses), g.r.Chance(25))
			}
		case x < 60:
			g.rootsCas(hx.Pick(g.r, cidxClasses), hx.Pick(g.r, rootKinds))
		case x < 72:
			if g.r.Chance(30) {
				g.exec(caSetCmd(hx.Pick(g.r, provs), hx.Pick(g.r, clusters)))
				g.remember("ca", readCA)
			}
			g.composite(hx.Pick(g.r, []string{"current", "current", "zero", "stale", "future"}),
				hx.Pick(g.r, []string{"current", "current", "zero", "stale", "future", "pred"}), hx.Pick(g.r, rootKinds))
		case x < 82:
			g.featureGate(hx.Pick(g.r, []string{"current", "current", "zero", "stale", "future"}),
				hx.Pick(g.r, []string{"current", "current", "zero", "stale", "pred"}), g.r.Chance(60), g.r.Chance(92))
		case x < 86:
			g.tokenBatch()
		case x < 88:
			g.bootstrap(hx.Pick(g.r, cidxClasses), hx.Pick(g.r, []string{"fresh", "fresh", "fresh", "changed-secret", "empty-secret"}))
		case x < 91:
			g.multiTxn()
		case x < 94:
			g.txnChain()
		case x < 96:
			g.guardTxn()
		default:
			// sessions and locks: create / destroy / lock / unlock on the shared KV keys
			id := hx.Pick(g.r, sessIDs)
			switch g.r.Intn(6) {
			case 0:
				g.exec(sessCreateCmd(id, hx.Pick(g.r, []string{"n1", "n2", "N1"}), hx.Pick(g.r, []string{"", "release", "delete", "bogus"})))
			case 1:
				if g.r.Bool() {
					g.exec(sessDestroyCmd(id))
				} else {
					g.exec(txnCmd(tSessDel(id)))
				}
			default:
				if g.r.Chance(60) {
					g.ensureSession(id, hx.Pick(g.r, []string{"n1", "n2"}), hx.Pick(g.r, []string{"", "delete"}))
				}
				g.lockOp(g.r.Chance(35), g.r.Bool(), hx.Pick(g.r, []string{"a", "a/b", "b"}), hx.Pick(g.r, []string{id, id, sessIDs[0], sessUnknown, ""}))
			}
		}
	}
	g.finish("history")
}

func main() {
	run = hx.Start()
	seedRNG = run.RNG.Fork(424242)
	run.Rule = "one case = a fresh pair of worlds (Store methods / FSM raft commands) plus a history of commands; distinct by the full list of protocol lines; non-trivial = at least one conditional write was applied"
	systematic(run.Scale(1, 2))
	n := run.Scale(150, 1200)
	for i := 0; i < n; i++ {
		history(run.RNG.Fork(uint64(1_000_000+i)), 6+i%12)
	}
	run.Finish()
}
