//go:build verif

package main

import (
	"encoding/json"
	"fmt"
	"sort"
	"strings"

	"github.com/hashicorp/go-hclog"
	"github.com/hashicorp/raft"

	"github.com/hashicorp/consul/agent/consul/fsm"
	"github.com/hashicorp/consul/agent/consul/state"
	"github.com/hashicorp/consul/agent/structs"
	"github.com/hashicorp/consul/internal/verifharness/hx"
)

var run *hx.Run

// world "s" is driven through the state.Store methods, world "f" through raft commands
// applied to a real FSM.
type world struct {
	tag string
	st  *state.Store
	f   *fsm.FSM
}

func (w *world) store() *state.Store {
	if w.f != nil {
		return w.f.State()
	}
	return w.st
}

func newWorlds() (*world, *world) {
	f := fsm.NewFromDeps(fsm.Deps{
		Logger:         hclog.NewNullLogger(),
		NewStateStore:  func() *state.Store { return state.NewStateStore(nil) },
		StorageBackend: fsm.NullStorageBackend,
	})
	return &world{tag: "s", st: state.NewStateStore(nil)}, &world{tag: "f", f: f}
}

func fsmApply(f *fsm.FSM, idx uint64, t structs.MessageType, req any) (out any) {
	buf, err := structs.Encode(t, req)
	if err != nil {
		panic(err)
	}
	defer func() {
		if r := recover(); r != nil {
			out = fmt.Errorf("panic: %v", r)
		}
	}()
	return f.Apply(&raft.Log{Index: idx, Term: 1, Type: raft.LogCommand, Data: buf})
}

// ---------------------------------------------------------------- result canonicalisation

func errEnum(msg string) string {
	switch {
	case strings.Contains(msg, "ModifyIndex did not match existing"):
		return "cas-mismatch"
	case strings.Contains(msg, "index is stale"):
		return "stale"
	case strings.Contains(msg, state.ErrMissingNode.Error()):
		return "missing-node"
	case strings.Contains(msg, state.ErrMissingService.Error()):
		return "missing-service"
	case strings.Contains(msg, "cannot set MutualTLSMode=permissive"):
		return "cfg-mtls"
	case strings.Contains(msg, "config entry with that name already exists"):
		return "cfg-gateway-clash"
	case strings.Contains(msg, "does not permit advanced routing or splitting behavior"):
		return "cfg-graph"
	case strings.Contains(msg, "is reserved by node"):
		return "node-name-conflict"
	case strings.Contains(msg, "exactly one active CA"):
		return "roots-active"
	case strings.Contains(msg, state.ErrMissingCARootID.Error()):
		return "missing-root-id"
	case strings.Contains(msg, "feature-gate update requires status"):
		return "fg-no-status"
	case strings.Contains(msg, "cannot exist without policy"):
		return "fg-no-policy"
	case strings.Contains(msg, state.ErrMissingACLTokenSecret.Error()):
		return "tok-no-secret"
	case strings.Contains(msg, state.ErrMissingACLTokenAccessor.Error()):
		return "tok-no-accessor"
	case strings.Contains(msg, "SecretID field is immutable"):
		return "tok-secret-immutable"
	case strings.Contains(msg, "missing session"):
		return "missing-session"
	case strings.Contains(msg, "invalid session"):
		return "invalid-session"
	case strings.Contains(msg, "lock is already held"):
		return "lock-held"
	case strings.Contains(msg, "lock isn't held"):
		return "lock-not-held"
	case strings.Contains(msg, "failed session check"):
		return "session-mismatch"
	case strings.Contains(msg, "failed index check"):
		return "index-mismatch"
	case strings.Contains(msg, "doesn't exist"):
		return "key-missing"
	case strings.HasPrefix(msg, "key ") && strings.HasSuffix(msg, " exists"):
		return "key-exists"
	case strings.Contains(msg, state.ErrMissingSessionID.Error()):
		return "missing-session-id"
	case strings.Contains(msg, "Invalid session behavior"):
		return "bad-behavior"
	case strings.Contains(msg, structs.ACLBootstrapNotAllowedErr.Error()):
		return "bootstrap-not-allowed"
	case strings.Contains(msg, structs.ACLBootstrapInvalidResetIndexErr.Error()):
		return "bootstrap-invalid-reset"
	}
	return "other"
}

func resBoolErr(b bool, err error) string {
	if err != nil {
		return "err:" + errEnum(err.Error())
	}
	return "ok:" + hx.EncBool(b)
}

func resErr(err error) string {
	if err != nil {
		return "err:" + errEnum(err.Error())
	}
	return "nil"
}

func txnStr(results structs.TxnResults, errs structs.TxnErrors) string {
	if len(errs) > 0 {
		t := make([]string, len(errs))
		for i, e := range errs {
			t[i] = fmt.Sprintf("%d;%s", e.OpIndex, errEnum(e.What))
		}
		return "txn-err:" + hx.EncList(t)
	}
	var t []string
	for _, r := range results {
		switch {
		case r.KV != nil:
			t = append(t, fmt.Sprintf("kv;%s;%d;%d;%s;%d;%d", hx.EncS(r.KV.Key), r.KV.Flags, r.KV.LockIndex, hx.EncS(r.KV.Session), r.KV.CreateIndex, r.KV.ModifyIndex))
		case r.Node != nil:
			t = append(t, fmt.Sprintf("node;%s;%d;%d", hx.EncS(r.Node.Node), r.Node.CreateIndex, r.Node.ModifyIndex))
		case r.Service != nil:
			t = append(t, fmt.Sprintf("svc;%s;%d;%d", hx.EncS(r.Service.ID), r.Service.CreateIndex, r.Service.ModifyIndex))
		case r.Check != nil:
			t = append(t, fmt.Sprintf("chk;%s;%s;%d;%d", hx.EncS(strings.ToLower(r.Check.Node)), hx.EncS(string(r.Check.CheckID)), r.Check.CreateIndex, r.Check.ModifyIndex))
		default:
			t = append(t, "unknown")
		}
	}
	return "txn-ok:" + hx.EncList(t)
}

func resIface(v any) string {
	switch x := v.(type) {
	case nil:
		return "nil"
	case bool:
		return "ok:" + hx.EncBool(x)
	case error:
		return "err:" + errEnum(x.Error())
	case structs.TxnResponse:
		return txnStr(x.Results, x.Errors)
	}
	return fmt.Sprintf("unexpected:%T", v)
}

// ---------------------------------------------------------------- projections

func sortedList(rows []string) string {
	sort.Strings(rows)
	return hx.EncList(rows)
}

func cfgContent(e structs.ConfigEntry) (val, status string, flag bool) {
	val = e.GetMeta()["v"]
	switch x := e.(type) {
	case *structs.ServiceConfigEntry:
		flag = x.MutualTLSMode == structs.MutualTLSModePermissive
	case *structs.MeshConfigEntry:
		flag = x.AllowEnablingPermissiveMutualTLS
	}
	if c, ok := e.(structs.ControlledConfigEntry); ok {
		if conds := c.GetStatus().Conditions; len(conds) > 0 {
			status = conds[0].Status
		}
	}
	return
}

func policyContent(p *structs.FeatureGatePolicy) string {
	keys := make([]string, 0, len(p.Settings))
	for k := range p.Settings {
		keys = append(keys, k)
	}
	sort.Strings(keys)
	return strings.Join(keys, "+")
}

// index-table entries maintained by code outside the model (gateway config entries)
var unmodelledIndexKeys = map[string]bool{"gateway-services": true, "mesh-topology": true}

// project prints the modelled projection of the store, read straight from memdb.
func project(st *state.Store) string {
	var kv, tomb, node, svc, chk, ksn, cfg, car, tok, sess, idx []string
	cac, ap, fgp, fgs := "-", "-", "-", "-"
	for _, r := range st.VerifC10Rows("kvs") {
		e := r.(*structs.DirEntry)
		kv = append(kv, fmt.Sprintf("%s;%s;%d;%d;%s;%d;%d", hx.EncS(e.Key), hx.EncB(e.Value), e.Flags, e.LockIndex, hx.EncS(e.Session), e.CreateIndex, e.ModifyIndex))
	}
	for _, r := range st.VerifC10Rows("tombstones") {
		e := r.(*state.Tombstone)
		tomb = append(tomb, fmt.Sprintf("%s;%d", hx.EncS(e.Key), e.Index))
	}
	for _, r := range st.VerifC10Rows("nodes") {
		e := r.(*structs.Node)
		node = append(node, fmt.Sprintf("%s;%s;%s;%d;%d", hx.EncS(e.Node), hx.EncS(string(e.ID)), hx.EncS(e.Address), e.CreateIndex, e.ModifyIndex))
	}
	for _, r := range st.VerifC10Rows("services") {
		e := r.(*structs.ServiceNode)
		svc = append(svc, fmt.Sprintf("%s;%s;%d;%d;%d", hx.EncS(strings.ToLower(e.Node)), hx.EncS(e.ServiceID), e.ServicePort, e.CreateIndex, e.ModifyIndex))
	}
	for _, r := range st.VerifC10Rows("checks") {
		e := r.(*structs.HealthCheck)
		chk = append(chk, fmt.Sprintf("%s;%s;%s;%s;%s;%d;%d", hx.EncS(strings.ToLower(e.Node)), hx.EncS(string(e.CheckID)), hx.EncS(e.ServiceID), hx.EncS(e.Output), hx.EncS(e.Status), e.CreateIndex, e.ModifyIndex))
	}
	for _, r := range st.VerifC10Rows("kind-service-names") {
		e := r.(*state.KindServiceName)
		ksn = append(ksn, hx.EncS(string(e.Kind)+e.Service.Name))
	}
	for _, r := range st.VerifC10Rows("config-entries") {
		e := r.(structs.ConfigEntry)
		v, s, fl := cfgContent(e)
		cfg = append(cfg, fmt.Sprintf("%s;%s;%s;%s;%s;%d;%d", hx.EncS(e.GetKind()), hx.EncS(e.GetName()), hx.EncS(v), hx.EncS(s), hx.EncBool(fl), e.GetRaftIndex().CreateIndex, e.GetRaftIndex().ModifyIndex))
	}
	for _, r := range st.VerifC10Rows("connect-ca-config") {
		e := r.(*structs.CAConfiguration)
		cac = fmt.Sprintf("%s;%s;%d;%d", hx.EncS(e.Provider), hx.EncS(e.ClusterID), e.CreateIndex, e.ModifyIndex)
	}
	for _, r := range st.VerifC10Rows("connect-ca-roots") {
		e := r.(*structs.CARoot)
		car = append(car, fmt.Sprintf("%s;%s;%s;%d;%d", hx.EncS(e.ID), hx.EncS(e.Name), hx.EncBool(e.Active), e.CreateIndex, e.ModifyIndex))
	}
	for _, r := range st.VerifC10Rows("autopilot-config") {
		e := r.(*structs.AutopilotConfig)
		ap = fmt.Sprintf("%d;%d;%d", e.MaxTrailingLogs, e.CreateIndex, e.ModifyIndex)
	}
	for _, r := range st.VerifC10Rows("feature-gate-policy") {
		e := r.(*structs.FeatureGatePolicy)
		fgp = fmt.Sprintf("%s;%d;%d", hx.EncS(policyContent(e)), e.CreateIndex, e.ModifyIndex)
	}
	for _, r := range st.VerifC10Rows("feature-gate-status") {
		e := r.(*structs.FeatureGateStatus)
		fgs = fmt.Sprintf("%s;%d;%d;%d", hx.EncS(e.RegistryDigest), e.PolicyIndex, e.CreateIndex, e.ModifyIndex)
	}
	for _, r := range st.VerifC10Rows("acl-tokens") {
		e := r.(*structs.ACLToken)
		tok = append(tok, fmt.Sprintf("%s;%s;%s;%d;%d", hx.EncS(e.AccessorID), hx.EncS(e.SecretID), hx.EncS(e.Description), e.CreateIndex, e.ModifyIndex))
	}
	for _, r := range st.VerifC10Rows("sessions") {
		e := r.(*structs.Session)
		sess = append(sess, fmt.Sprintf("%s;%s;%s;%d;%d", hx.EncS(e.ID), hx.EncS(e.Node), hx.EncS(string(e.Behavior)), e.CreateIndex, e.ModifyIndex))
	}
	for _, r := range st.VerifC10Rows("index") {
		e := r.(*state.IndexEntry)
		if !unmodelledIndexKeys[e.Key] {
			idx = append(idx, fmt.Sprintf("%s;%d", e.Key, e.Value))
		}
	}
	return strings.Join([]string{
		"kv=" + sortedList(kv), "tomb=" + sortedList(tomb), "node=" + sortedList(node), "svc=" + sortedList(svc),
		"chk=" + sortedList(chk), "ksn=" + sortedList(ksn), "cfg=" + sortedList(cfg), "cac=" + cac, "car=" + sortedList(car), "ap=" + ap,
		"fgp=" + fgp, "fgs=" + fgs, "tok=" + sortedList(tok), "sess=" + sortedList(sess), "idx=" + sortedList(idx)}, " ")
}

// fullDump serialises EVERY table of the store (all rows, all fields, index table included).
// It is only ever compared with another fullDump of the same store (monitor: a failed
// conditional write changes nothing at all), never with the model.
func fullDump(st *state.Store) string {
	var b strings.Builder
	for _, t := range st.VerifC10Tables() {
		for _, r := range st.VerifC10Rows(t) {
			b.WriteString(t)
			b.WriteByte('|')
			if js, err := json.Marshal(r); err == nil {
				b.Write(js)
			} else {
				fmt.Fprintf(&b, "%+v", r)
			}
			b.WriteByte('\n')
		}
	}
	return b.String()
}
