//go:build verif

package main

import (
	"fmt"
	"strings"
	"time"

	"github.com/hashicorp/go-memdb"

	"github.com/hashicorp/consul/agent/consul"
	"github.com/hashicorp/consul/agent/consul/state"
	"github.com/hashicorp/consul/agent/structs"
	"github.com/hashicorp/consul/internal/verifharness/hx"
	"github.com/hashicorp/consul/internal/verifharness/storex"
)

// Part C (model-tied, round 5): the blocking loop itself. The REAL Server.blockingQuery (blockingquery.Query +
// Server.SetQueryMeta) is driven by a scripted query function: its k-th call stores a given index, returns a
// given sentinel (nil / ErrNotFound / ErrNotChanged) and either adds an already-closed channel to the WatchSet
// (the loop must run the query again) or ends the request (cancels its context through the server's shutdown
// channel, lets a 1 ms MaxQueryTime run out, or abandons the state store by a snapshot restore). Nothing
// depends on wall-clock speed: the request's time limit is 10 minutes except in the single-evaluation timeout
// form, where the one evaluation precedes the first look at the clock. The harness prints how often the query
// function was called and the index of the response; the Lean model (CV.BQ.scriptRun -> query -> runF -> loopF,
// the functions of the blocking-loop theorems) must give the same two numbers. MinQueryIndex = 0 (the
// non-blocking branch of blockingquery.Query) is part of the script language.

type evalStep struct {
	idx   uint64
	sent  byte // 'n' none, 'f' ErrNotFound, 'c' ErrNotChanged
	woken bool
}

const (
	stopShutdown = iota
	stopTimeout
	stopAbandon
)

func scriptTokens(es []evalStep) string {
	ts := make([]string, len(es))
	for i, e := range es {
		ts[i] = fmt.Sprintf("%d:%c:%s", e.idx, e.sent, hx.EncBool(e.woken))
	}
	return hx.EncList(ts)
}

// scripted runs one request; returns (number of calls of the query function, index of the response, error text)
func scripted(w *storex.World, min uint64, es []evalStep, stop int) (int, uint64, string) {
	limit := 10 * time.Minute
	if stop == stopTimeout {
		limit = time.Millisecond
	}
	srv := consul.NewVerifC06Server(w.F, limit)
	var meta structs.QueryMeta
	calls, down := 0, false
	shutdown := func() {
		if !down {
			down = true
			srv.Shutdown()
		}
	}
	defer shutdown()
	err := srv.BlockingQuery(min, limit, &meta, func(ws memdb.WatchSet, st *state.Store) error {
		k := calls
		calls++
		if k >= len(es) {
			// the loop asks for more evaluations than the script has: end the request, the count tells
			shutdown()
			return nil
		}
		e := es[k]
		meta.Index = e.idx
		switch {
		case e.woken:
			ch := make(chan struct{})
			close(ch)
			ws.Add(ch)
		case min == 0 || stop == stopTimeout:
		case stop == stopAbandon:
			if err := snapshotRestore(w); err != nil {
				panic(err)
			}
		default:
			shutdown()
		}
		switch e.sent {
		case 'f':
			return consul.VerifC06ErrNotFound()
		case 'c':
			return consul.VerifC06ErrNotChanged()
		}
		return nil
	})
	if err != nil {
		return calls, meta.Index, "err:" + err.Error()
	}
	return calls, meta.Index, ""
}

func loopLine(run *hx.Run, w *storex.World, min uint64, es []evalStep, stop int) {
	es[len(es)-1].woken = false // a request ends after its last scripted evaluation
	calls, idx, errText := scripted(w, min, es, stop)
	out := fmt.Sprintf("evals=%d idx=%d", calls, idx)
	if errText != "" {
		out = errText
	}
	op := fmt.Sprintf("bq %d %s", min, scriptTokens(es))
	run.Line(op, out)
	switch {
	case min == 0:
		run.Tag("loop:non-blocking")
	case calls < len(es):
		run.Tag("loop:returned-newer-index")
	default:
		run.Tag("loop:ended-by:" + [...]string{"shutdown", "timeout", "abandon"}[stop])
	}
	// independent of the model: the response index is never zero, and a request that came back before its script
	// ended carries an index above the one it asked for or above one a sentinel raised it to (>= some index the
	// query function stored)
	if idx < 1 && errText == "" {
		run.Violate("reported-index-zero:scripted-loop", op+" answered index 0", []string{op})
	}
}

func loopScripts(run *hx.Run, nRandom int) {
	w := newWideWorld()
	sents := []byte{'n', 'f', 'c'}
	// every script of up to 3 evaluations over indexes {1,2,3}, for MinQueryIndex 0 and 2
	count := 0
	for _, min := range []uint64{0, 2} {
		for l := 1; l <= 3; l++ {
			var rec func(es []evalStep)
			rec = func(es []evalStep) {
				if len(es) == l {
					c := append([]evalStep(nil), es...)
					loopLine(run, w, min, c, stopShutdown)
					count++
					return
				}
				for idx := uint64(1); idx <= 3; idx++ {
					for _, s := range sents {
						for _, wk := range []bool{true, false} {
							if len(es) == l-1 && wk {
								continue
							}
							rec(append(es, evalStep{idx, s, wk}))
						}
					}
				}
			}
			rec(nil)
		}
	}
	run.Extra["loop_scripts_exhaustive"] = count
	r := run.RNG.Fork(9900000)
	var keys []string
	for i := 0; i < nRandom; i++ {
		min := uint64(r.Intn(7))
		if r.Chance(85) && min == 0 {
			min = 1
		}
		n := 1 + r.Intn(6)
		es := make([]evalStep, n)
		cur := uint64(0)
		if min > 0 {
			cur = min - uint64(r.Intn(2))
		}
		for k := range es {
			switch r.Intn(6) {
			case 0:
				cur++
			case 1:
				if cur > 0 {
					cur-- // an index that goes down (restore, reaping)
				}
			case 2:
				cur = 0 // a query function that stores nothing: SetQueryMeta makes it 1
			case 3:
				cur = min + uint64(r.Intn(2))
			}
			es[k] = evalStep{idx: cur, sent: hx.Pick(r, []byte{'n', 'n', 'n', 'f', 'f', 'c'}), woken: r.Chance(80)}
		}
		stop := hx.Pick(r, []int{stopShutdown, stopShutdown, stopAbandon})
		if n == 1 && r.Chance(50) {
			stop = stopTimeout
		}
		loopLine(run, w, min, es, stop)
		keys = append(keys, fmt.Sprintf("%d %s %d", min, scriptTokens(es), stop))
	}
	run.Case("loop-scripts\n"+strings.Join(keys, "\n"), true)
}
