//go:build verif

package main

import (
	"fmt"
	"strings"
	"time"

	memdb "github.com/hashicorp/go-memdb"

	"github.com/hashicorp/consul/agent/consul"
	"github.com/hashicorp/consul/agent/consul/state"
	"github.com/hashicorp/consul/agent/structs"
	"github.com/hashicorp/consul/api"
	"github.com/hashicorp/consul/internal/verifharness/hx"
	"github.com/hashicorp/consul/types"
)

// Part B, check family (monitor only, round 5): health checks that are written AGAIN. A node-level check
// (ServiceID empty) is embedded in the answer of every per-service health read of every instance on its node
// (CheckServiceNodes, CheckConnectServiceNodes, CheckServiceTagNodes, CheckIngressServiceNodes,
// ServiceChecksByNodeMeta does not embed it, ServiceDump by kind / complete, CombinedCheckServiceNodes,
// NodeInfo / NodeDump), and those reads report — and in the watch-optimised path watch ONLY — the
// service.<name> / service_kind.<kind> index rows. So EVERY rewrite of a node-level check, whatever field
// changed (same Status, other Output / Notes / Name / Definition), must bump the index rows of all services
// of the node (ensureCheckTxn -> updateAllServiceIndexesOfNode), and every rewrite or removal of a
// service-level check the rows of its service.
//
// Names are chosen so that no recorded mechanism can occur inside the family: an instance id always belongs
// to one service name, a check id to one service id (or to the node), sidecars and the gateway are registered
// in the preamble and never leave while their targets are queried, the ingress-gateway entry is written once.
// What the family generates: output-only / notes-only / name-only / definition-only refreshes of node-level
// and service-level checks through Catalog.Register (Check, Checks), Txn check set / CAS (right and stale
// index), two-operation transactions (with a second operation that succeeds or fails), status flips, new
// checks, check / service / node deregistration, re-tagging, the same for a peered copy of the catalog
// (PeerName = peer1), snapshot + restore in the middle.

var (
	chkNodes    = []string{"n1", "n2", "n3"}
	chkPeer     = "peer1"
	chkServices = []string{"web", "db", "api"}
	chkNodeIDs  = []string{"node-chk", "serfHealth"}
)

func chkQueries() []*query {
	var qs []*query
	add := func(kind, arg, svc, node, peer string, f func(st *state.Store, ws memdb.WatchSet) (uint64, any, error)) {
		qs = append(qs, &query{Kind: kind, Arg: arg, Service: svc, Node: node, Peer: peer, Run: func(st *state.Store, ws memdb.WatchSet) (uint64, string) {
			idx, v, err := f(st, ws)
			if err != nil {
				return idx, "err=" + fmt.Sprintf("%q", err.Error())
			}
			return idx, canonSorted(v)
		}})
	}
	em := structs.DefaultEnterpriseMetaInDefaultPartition()
	for _, peer := range []string{"", chkPeer} {
		peer := peer
		at := "@" + peer
		for _, s := range chkServices {
			s := s
			add("CheckServiceNodes", s+at, s, "", peer, func(st *state.Store, ws memdb.WatchSet) (uint64, any, error) {
				return x3(st.CheckServiceNodes(ws, s, nil, peer))
			})
			add("CheckConnectServiceNodes", s+at, s, "", peer, func(st *state.Store, ws memdb.WatchSet) (uint64, any, error) {
				return x3(st.CheckConnectServiceNodes(ws, s, nil, peer))
			})
			for _, tags := range [][]string{{"v1"}, {"v1", "v2"}} {
				tags := tags
				add("CheckServiceTagNodes", s+","+strings.Join(tags, "+")+at, s, "", peer, func(st *state.Store, ws memdb.WatchSet) (uint64, any, error) {
					return x3(st.CheckServiceTagNodes(ws, s, tags, nil, peer))
				})
			}
			add("ServiceChecks", s+at, s, "", peer, func(st *state.Store, ws memdb.WatchSet) (uint64, any, error) {
				return x3(st.ServiceChecks(ws, s, nil, peer))
			})
		}
		for _, n := range chkNodes {
			n := n
			add("NodeChecks", n+at, "", n, peer, func(st *state.Store, ws memdb.WatchSet) (uint64, any, error) { return x3(st.NodeChecks(ws, n, nil, peer)) })
			add("NodeInfo", n+at, "", n, peer, func(st *state.Store, ws memdb.WatchSet) (uint64, any, error) { return x3(st.NodeInfo(ws, n, nil, peer)) })
		}
		for _, s := range []string{"any", "passing", "warning", "critical"} {
			s := s
			add("ChecksInState", s+at, "", "", peer, func(st *state.Store, ws memdb.WatchSet) (uint64, any, error) { return x3(st.ChecksInState(ws, s, nil, peer)) })
		}
		add("NodeDump", at, "", "", peer, func(st *state.Store, ws memdb.WatchSet) (uint64, any, error) { return x3(st.NodeDump(ws, nil, peer)) })
		add("ServiceDump", at, "", "", peer, func(st *state.Store, ws memdb.WatchSet) (uint64, any, error) { return x3(st.ServiceDump(ws, "", false, nil, peer)) })
	}
	for _, kind := range []structs.ServiceKind{structs.ServiceKindTypical, structs.ServiceKindConnectProxy, structs.ServiceKindIngressGateway} {
		kind := kind
		add("ServiceDumpKind", string(kind), "", "", "", func(st *state.Store, ws memdb.WatchSet) (uint64, any, error) {
			return x3(st.ServiceDump(ws, kind, true, nil, ""))
		})
	}
	for _, s := range chkServices {
		s := s
		add("CheckIngressServiceNodes", s, s, "", "", func(st *state.Store, ws memdb.WatchSet) (uint64, any, error) {
			return x3(st.CheckIngressServiceNodes(ws, s, em))
		})
		add("CombinedCheckServiceNodes", s, s, "", "", func(st *state.Store, ws memdb.WatchSet) (uint64, any, error) {
			return x3(st.CombinedCheckServiceNodes(ws, structs.NewServiceName(s, nil), ""))
		})
		for _, f := range []map[string]string{{"rack": "r1"}, {"rack": "r2"}} {
			f := f
			add("ServiceChecksByNodeMeta", s+","+showMeta(f), s, "", "", func(st *state.Store, ws memdb.WatchSet) (uint64, any, error) {
				return x3(st.ServiceChecksByNodeMeta(ws, s, f, nil, ""))
			})
		}
	}
	for _, s := range []string{"any", "critical"} {
		s := s
		add("ChecksInStateByNodeMeta", s+",{rack:r1}", "", "", "", func(st *state.Store, ws memdb.WatchSet) (uint64, any, error) {
			return x3(st.ChecksInStateByNodeMeta(ws, s, map[string]string{"rack": "r1"}, nil, ""))
		})
	}
	return qs
}

// chkInstance: the instances of the family; the id determines name, kind and tags pool
type chkInstance struct {
	id, name string
	kind     structs.ServiceKind
	dest     string
	native   bool
}

var chkInstances = []chkInstance{
	{id: "web", name: "web"}, {id: "web-2", name: "web"}, {id: "db", name: "db"}, {id: "api", name: "api", native: true},
	{id: "web-sidecar-proxy", name: "web-sidecar-proxy", kind: structs.ServiceKindConnectProxy, dest: "web"},
	{id: "db-sidecar-proxy", name: "db-sidecar-proxy", kind: structs.ServiceKindConnectProxy, dest: "db"},
	{id: "ingress-gw", name: "ingress-gw", kind: structs.ServiceKindIngressGateway},
}

func (ci chkInstance) service(tags []string) *structs.NodeService {
	ns := &structs.NodeService{ID: ci.id, Service: ci.name, Kind: ci.kind, Port: 8000, Tags: tags}
	ns.Connect.Native = ci.native
	if ci.kind == structs.ServiceKindConnectProxy {
		ns.Proxy.DestinationServiceName = ci.dest
	}
	return ns
}

// chkReg registers `node` (fixed address and meta per node, so that the node row never changes) with an
// optional instance and checks.
func chkReg(node, peer string, svc *structs.NodeService, checks ...*structs.HealthCheck) entry {
	meta := map[string]string{"rack": "r1"}
	if node == "n3" {
		meta = map[string]string{"rack": "r2"}
	}
	req := structs.RegisterRequest{Datacenter: "dc1", Node: node, Address: "127.0.0.1", NodeMeta: meta, PeerName: peer, Service: svc}
	d := fmt.Sprintf("register node=%s peer=%q", node, peer)
	if svc != nil {
		svc.PeerName = peer
		d += fmt.Sprintf(" svc=%s/%s kind=%q tags=%v", svc.ID, svc.Service, svc.Kind, svc.Tags)
	}
	for _, c := range checks {
		c.Node, c.PeerName = node, peer
		req.Checks = append(req.Checks, c)
		d += fmt.Sprintf(" chk=%s/%s svcid=%q out=%q", c.CheckID, c.Status, c.ServiceID, c.Output)
	}
	return entry{data: enc(structs.RegisterRequestType, &req), kind: "register", desc: d}
}

func nodeCheck(id, status, output string) *structs.HealthCheck {
	return &structs.HealthCheck{CheckID: types.CheckID(id), Name: "chk", Status: status, Output: output}
}

func svcCheck(svcID, status, output string) *structs.HealthCheck {
	return &structs.HealthCheck{CheckID: types.CheckID("chk:" + svcID), Name: "chk", Status: status, Output: output, ServiceID: svcID}
}

type chkGen struct {
	r     *hx.RNG
	store func() *state.Store
	idx   uint64
}

func (g *chkGen) tags() []string {
	return append([]string(nil), hx.Pick(g.r, [][]string{nil, {"v1"}, {"v2"}, {"v1", "v2"}})...)
}

func (g *chkGen) peer() string {
	if g.r.Chance(20) {
		return chkPeer
	}
	return ""
}

// preamble: every node carries a node-level check and instances; the sidecars, the gateway and its entry
func chkPreamble(r *hx.RNG) []entry {
	es := []entry{
		chkReg("n1", "", chkInstances[0].service([]string{"v1"}), nodeCheck("node-chk", api.HealthPassing, "ok"), svcCheck("web", api.HealthPassing, "")),
		chkReg("n1", "", chkInstances[2].service(nil)),
		chkReg("n2", "", chkInstances[1].service([]string{"v1", "v2"}), nodeCheck("serfHealth", api.HealthPassing, "Agent alive and reachable")),
		chkReg("n2", "", chkInstances[4].service(nil)),
		chkReg("n3", "", chkInstances[6].service(nil), nodeCheck("node-chk", api.HealthWarning, "")),
		chkReg("n3", "", chkInstances[3].service(nil)),
		wConfig(&structs.IngressGatewayConfigEntry{Kind: structs.IngressGateway, Name: "ingress-gw",
			Listeners: []structs.IngressListener{{Port: 8080, Protocol: "tcp", Services: []structs.IngressService{{Name: "web"}}},
				{Port: 8081, Protocol: "tcp", Services: []structs.IngressService{{Name: "api"}}}}}),
		chkReg("n1", chkPeer, chkInstances[0].service([]string{"v1"}), nodeCheck("node-chk", api.HealthPassing, "ok")),
	}
	if r.Chance(50) { // a previous extinction
		es = append([]entry{chkReg("n3", "", &structs.NodeService{ID: "old", Service: "old", Port: 1}), tagDeregSvc("n3", "old")}, es...)
	}
	return es[:len(es)-r.Intn(3)]
}

func (g *chkGen) next() entry {
	r := g.r
	t := g.store().VerifStoreTables()
	switch k := r.Intn(100); {
	case k < 50 && len(t.Checks) > 0: // a check is written again with one field changed
		var pool []*structs.HealthCheck
		want := r.Chance(70)
		for _, c := range t.Checks {
			if (c.ServiceID == "") == want {
				pool = append(pool, c)
			}
		}
		if len(pool) == 0 {
			pool = t.Checks
		}
		old := pool[r.Intn(len(pool))]
		c, f := refreshedCheck(r, old)
		return checkRefreshEntry(r, findNode(t.Nodes, old.Node, old.PeerName), old, c, f, g.idx)
	case k < 62: // an instance (re-)registered, possibly re-tagged, possibly with its check
		ci := chkInstances[r.Intn(len(chkInstances))]
		var cs []*structs.HealthCheck
		if r.Chance(40) {
			cs = append(cs, svcCheck(ci.id, hx.Pick(r, []string{api.HealthPassing, api.HealthCritical}), hx.Pick(r, []string{"", "ok"})))
		}
		return chkReg(hx.Pick(r, chkNodes), g.peer(), ci.service(g.tags()), cs...)
	case k < 72: // a new or flipped node-level check
		return chkReg(hx.Pick(r, chkNodes), g.peer(), nil, nodeCheck(hx.Pick(r, chkNodeIDs), hx.Pick(r, []string{api.HealthPassing, api.HealthWarning, api.HealthCritical}),
			hx.Pick(r, []string{"", "ok", "timeout"})))
	case k < 84 && len(t.Checks) > 0: // a check is deregistered
		c := t.Checks[r.Intn(len(t.Checks))]
		req := structs.DeregisterRequest{Datacenter: "dc1", Node: c.Node, CheckID: c.CheckID, PeerName: c.PeerName}
		if r.Chance(30) {
			op := &structs.TxnOp{Check: &structs.TxnCheckOp{Verb: api.CheckDelete, Check: structs.HealthCheck{Node: c.Node, CheckID: c.CheckID, PeerName: c.PeerName}}}
			treq := structs.TxnRequest{Datacenter: "dc1", Ops: structs.TxnOps{op}}
			return entry{data: enc(structs.TxnRequestType, &treq), kind: "txn", desc: fmt.Sprintf("txn chk:delete node=%s chk=%s peer=%q", c.Node, c.CheckID, c.PeerName)}
		}
		return entry{data: enc(structs.DeregisterRequestType, &req), kind: "deregister", desc: fmt.Sprintf("deregister node=%s chk=%q peer=%q", c.Node, c.CheckID, c.PeerName)}
	case k < 92: // an instance of a plain service leaves (sidecars and the gateway stay)
		ci := chkInstances[r.Intn(4)]
		req := structs.DeregisterRequest{Datacenter: "dc1", Node: hx.Pick(r, chkNodes), ServiceID: ci.id, PeerName: g.peer()}
		return entry{data: enc(structs.DeregisterRequestType, &req), kind: "deregister", desc: fmt.Sprintf("deregister node=%s svc=%q peer=%q", req.Node, req.ServiceID, req.PeerName)}
	case k < 95: // a peered node leaves
		req := structs.DeregisterRequest{Datacenter: "dc1", Node: hx.Pick(r, chkNodes), PeerName: chkPeer}
		return entry{data: enc(structs.DeregisterRequestType, &req), kind: "deregister", desc: fmt.Sprintf("deregister node=%s peer=%q", req.Node, req.PeerName)}
	default: // the node row alone (nothing changes: same address and meta)
		return chkReg(hx.Pick(r, chkNodes), g.peer(), nil)
	}
}

// chkScenarios: fixed histories of the family, run on every seed: the refresh of a node-level check with the
// same status through each write path, seen by each embedding read.
func chkScenarios() [][]entry {
	base := func() []entry {
		return []entry{
			chkReg("n3", "", &structs.NodeService{ID: "old", Service: "old", Port: 1}), tagDeregSvc("n3", "old"),
			chkReg("n1", "", chkInstances[0].service([]string{"v1"}), nodeCheck("node-chk", api.HealthPassing, "ok"), svcCheck("web", api.HealthPassing, "")),
			chkReg("n1", "", chkInstances[4].service(nil)),
			chkReg("n1", "", chkInstances[6].service(nil)),
			chkReg("n2", "", chkInstances[1].service([]string{"v2"})),
			wConfig(&structs.IngressGatewayConfigEntry{Kind: structs.IngressGateway, Name: "ingress-gw",
				Listeners: []structs.IngressListener{{Port: 8080, Protocol: "tcp", Services: []structs.IngressService{{Name: "web"}}}}}),
			chkReg("n1", chkPeer, chkInstances[0].service([]string{"v1"}), nodeCheck("node-chk", api.HealthPassing, "ok")),
		}
	}
	mod := func(f func(c *structs.HealthCheck)) *structs.HealthCheck {
		c := nodeCheck("node-chk", api.HealthPassing, "ok")
		c.Node = "n1"
		f(c)
		return c
	}
	txnSet := func(c *structs.HealthCheck, d string) entry {
		req := structs.TxnRequest{Datacenter: "dc1", Ops: structs.TxnOps{&structs.TxnOp{Check: &structs.TxnCheckOp{Verb: api.CheckSet, Check: *c}}}}
		return entry{data: enc(structs.TxnRequestType, &req), kind: "txn", desc: "txn chk:set node=n1 node-chk " + d}
	}
	return [][]entry{
		// output only, through the registration (what anti-entropy sends), twice
		append(base(), chkReg("n1", "", nil, mod(func(c *structs.HealthCheck) { c.Output = "ok, 2ms" })),
			chkReg("n1", "", nil, mod(func(c *structs.HealthCheck) { c.Output = "ok, 3ms" }))),
		// notes, name, definition
		append(base(), chkReg("n1", "", nil, mod(func(c *structs.HealthCheck) { c.Notes = "n" })),
			chkReg("n1", "", nil, mod(func(c *structs.HealthCheck) { c.Notes = "n"; c.Name = "renamed" })),
			chkReg("n1", "", nil, mod(func(c *structs.HealthCheck) { c.Notes = "n"; c.Name = "renamed"; c.Definition.Interval = time.Second }))),
		// through a transaction
		append(base(), txnSet(mod(func(c *structs.HealthCheck) { c.Output = "slow" }), "output=slow"),
			txnSet(mod(func(c *structs.HealthCheck) { c.Output = "slow"; c.Status = api.HealthWarning }), "status=warning")),
		// the peered copy
		append(base(), chkReg("n1", chkPeer, nil, mod(func(c *structs.HealthCheck) { c.Output = "ok, 2ms" })),
			chkReg("n1", chkPeer, nil, mod(func(c *structs.HealthCheck) { c.Status = api.HealthCritical }))),
		// a service-level check: output only, then removed
		append(base(), chkReg("n1", "", nil, func() *structs.HealthCheck { c := svcCheck("web", api.HealthPassing, "200 OK"); return c }()),
			entry{data: enc(structs.DeregisterRequestType, &structs.DeregisterRequest{Datacenter: "dc1", Node: "n1", CheckID: "chk:web"}), kind: "deregister", desc: "deregister node=n1 chk=chk:web"}),
	}
}

func chkHistories(run *hx.Run, n, maxOps int) {
	qs := chkQueries()
	run.Extra["check_family_queries"] = len(qs)
	scen := chkScenarios()
	for i := 0; i < len(scen)+n; i++ {
		r := run.RNG.Fork(uint64(9000000 + i))
		w := newWideWorld()
		srv := consul.NewVerifC06Server(w.F, 5*time.Second)
		sw := newSweep(w.Store(), qs)
		sw.twice, sw.run = true, run
		g := &chkGen{r: r, store: w.Store}
		var descs []string
		replay := func() []string { return append([]string(nil), descs...) }
		idx := uint64(1 + r.Intn(3))
		nontrv := false
		e2e := i < len(scen) || i%3 == 0
		var fixed []entry
		if i < len(scen) {
			fixed = scen[i]
			run.Tag("check-history:scenario")
		} else {
			fixed = chkPreamble(r)
			run.Tag("check-history:generated")
		}
		steps := len(fixed)
		if i >= len(scen) {
			steps += 3 + r.Intn(maxOps)
		}
		for k := 0; k < steps; k++ {
			idx += 1 + uint64(r.Intn(100)/85*r.Intn(4))
			g.idx = idx
			if i >= len(scen) && k > len(fixed)+1 && r.Chance(3) {
				descs = append(descs, fmt.Sprintf("@%d snapshot + restore", idx))
				restoreStep(run, w, srv, sw, r, replay)
				continue
			}
			var e entry
			if k < len(fixed) {
				e = fixed[k]
			} else {
				e = g.next()
			}
			e.idx = idx
			before, gwBefore := w.Store().VerifStoreTables(), gatewayRows(w)
			var bs []*blocked
			if e2e && k >= len(fixed)-2 {
				for j, q := range qs {
					if r.Chance(8) {
						bs = append(bs, block(srv, q, sw.last[j]))
					}
				}
			}
			res := applyEntry(w, e)
			after, gwAfter := w.Store().VerifStoreTables(), gatewayRows(w)
			descs = append(descs, fmt.Sprintf("@%d %s => %s", e.idx, e.desc, clip(res, 80)))
			run.Tag("check-op:" + e.kind)
			if strings.Contains(e.desc, "refresh") {
				f := e.desc[strings.Index(e.desc, "field=")+6:]
				lvl := "node-level"
				if strings.Contains(e.desc, "service-level") {
					lvl = "service-level"
				}
				run.Tag("check-refresh:" + lvl + ":" + strings.SplitN(f, " ", 2)[0] + ":" + e.kind)
			}
			wi := &writeInfo{kind: e.kind, desc: e.desc}
			wi.shape = func(q *query, ob, oa obs) string {
				return shapeOfWide(q, e.trees, &before, &after, gwBefore, gwAfter, ob, oa)
			}
			sw.across(run, w.Store(), wi, replay, func(v *verdict) {
				if v.changed {
					nontrv = true
					if strings.Contains(e.desc, "refresh") && strings.Contains(e.desc, "node-level") && !strings.Contains(e.desc, "field=status") {
						run.Tag("check-family:node-level-refresh-seen-by:" + v.q.Kind)
					}
				}
			})
			settle(run, bs, wi, replay)
		}
		run.Case("checks\n"+strings.Join(descs, "\n"), nontrv)
	}
}
