//go:build verif

package main

import (
	"encoding/hex"
	"fmt"
	"net"
	"reflect"
	"sort"
	"strconv"
	"strings"
	"time"
)

// canon renders any Go value as one canonical line, independent of pointer identity, map order,
// nil-versus-empty slices/maps, time zone of a time.Time and 4- versus 16-byte net.IP. It is the
// notion of "same content" used by every snapshot/restore comparison of this harness.
//
// Unexported struct fields are skipped (they are never serialised by msgpack / protobuf; if one
// carried meaning, the read-API comparison would notice). Values held in an interface print
// the concrete type name only for structs (config entries …); numbers print as decimals whatever
// their width, so int(5) and int64(5) inside an opaque map[string]interface{} are the same.

var (
	tTime = reflect.TypeOf(time.Time{})
	tIP   = reflect.TypeOf(net.IP{})
)

func canon(x any) string {
	var b strings.Builder
	canonV(&b, reflect.ValueOf(x), 0)
	return b.String()
}

func canonV(b *strings.Builder, v reflect.Value, depth int) {
	if depth > 40 {
		b.WriteString("<deep>")
		return
	}
	if !v.IsValid() {
		b.WriteString("nil")
		return
	}
	t := v.Type()
	switch t {
	case tTime:
		if v.CanInterface() {
			tm := v.Interface().(time.Time)
			if tm.IsZero() {
				b.WriteString("t0")
			} else {
				b.WriteString("t" + strconv.FormatInt(tm.UnixNano(), 10))
			}
			return
		}
	case tIP:
		if v.CanInterface() {
			ip := v.Interface().(net.IP)
			if len(ip) == 0 {
				b.WriteString("ip:")
			} else {
				b.WriteString("ip:" + ip.String())
			}
			return
		}
	}
	switch v.Kind() {
	case reflect.Bool:
		if v.Bool() {
			b.WriteString("T")
		} else {
			b.WriteString("F")
		}
	case reflect.Int, reflect.Int8, reflect.Int16, reflect.Int32, reflect.Int64:
		b.WriteString(strconv.FormatInt(v.Int(), 10))
	case reflect.Uint, reflect.Uint8, reflect.Uint16, reflect.Uint32, reflect.Uint64, reflect.Uintptr:
		b.WriteString(strconv.FormatUint(v.Uint(), 10))
	case reflect.Float32, reflect.Float64:
		f := v.Float()
		if f == float64(int64(f)) && f > -1e15 && f < 1e15 {
			b.WriteString(strconv.FormatInt(int64(f), 10))
		} else {
			b.WriteString(strconv.FormatFloat(f, 'g', -1, 64))
		}
	case reflect.String:
		b.WriteString(strconv.Quote(v.String()))
	case reflect.Ptr:
		if v.IsNil() {
			b.WriteString("nil")
			return
		}
		canonV(b, v.Elem(), depth+1)
	case reflect.Interface:
		if v.IsNil() {
			b.WriteString("nil")
			return
		}
		e := v.Elem()
		et := e.Type()
		for et.Kind() == reflect.Ptr {
			et = et.Elem()
		}
		if et.Kind() == reflect.Struct && et != tTime {
			b.WriteString(et.Name())
		}
		canonV(b, e, depth+1)
	case reflect.Slice, reflect.Array:
		if t.Elem().Kind() == reflect.Uint8 {
			n := v.Len()
			bs := make([]byte, n)
			for i := 0; i < n; i++ {
				bs[i] = byte(v.Index(i).Uint())
			}
			b.WriteString("h" + hex.EncodeToString(bs))
			return
		}
		b.WriteByte('[')
		for i := 0; i < v.Len(); i++ {
			if i > 0 {
				b.WriteByte(',')
			}
			canonV(b, v.Index(i), depth+1)
		}
		b.WriteByte(']')
	case reflect.Map:
		type kv struct{ k, v string }
		items := make([]kv, 0, v.Len())
		it := v.MapRange()
		for it.Next() {
			var kb, vb strings.Builder
			canonV(&kb, it.Key(), depth+1)
			canonV(&vb, it.Value(), depth+1)
			items = append(items, kv{kb.String(), vb.String()})
		}
		sort.Slice(items, func(i, j int) bool { return items[i].k < items[j].k })
		b.WriteByte('{')
		for i, it := range items {
			if i > 0 {
				b.WriteByte(',')
			}
			b.WriteString(it.k)
			b.WriteByte(':')
			b.WriteString(it.v)
		}
		b.WriteByte('}')
	case reflect.Struct:
		b.WriteByte('(')
		first := true
		for i := 0; i < t.NumField(); i++ {
			f := t.Field(i)
			if f.PkgPath != "" { // unexported
				continue
			}
			fv := v.Field(i)
			if isZeroish(fv) {
				continue // zero fields are omitted: shorter lines, and nil == empty
			}
			if !first {
				b.WriteByte(' ')
			}
			first = false
			b.WriteString(f.Name)
			b.WriteByte('=')
			canonV(b, fv, depth+1)
		}
		b.WriteByte(')')
	case reflect.Func, reflect.Chan, reflect.UnsafePointer:
		if v.IsNil() {
			b.WriteString("nil")
		} else {
			b.WriteString("<" + v.Kind().String() + ">")
		}
	default:
		b.WriteString(fmt.Sprintf("<%s>", v.Kind()))
	}
}

// isZeroish: the zero value, or an empty slice / map, or a pointer/interface to nothing.
func isZeroish(v reflect.Value) bool {
	switch v.Kind() {
	case reflect.Slice, reflect.Map:
		return v.Len() == 0
	case reflect.Ptr, reflect.Interface, reflect.Func, reflect.Chan:
		return v.IsNil()
	case reflect.Struct:
		if v.Type() == tTime && v.CanInterface() {
			return v.Interface().(time.Time).IsZero()
		}
		for i := 0; i < v.NumField(); i++ {
			if v.Type().Field(i).PkgPath != "" {
				continue
			}
			if !isZeroish(v.Field(i)) {
				return false
			}
		}
		return true
	default:
		return v.IsZero()
	}
}

// canonResult renders the return value of FSM.Apply (nil, error, bool, string, response struct …).
func canonResult(x any) string {
	if x == nil {
		return "nil"
	}
	if e, ok := x.(error); ok {
		return "err:" + strconv.Quote(e.Error())
	}
	return canon(x)
}
