//go:build verif

package main

import (
	"reflect"
	"strings"

	"github.com/hashicorp/consul/agent/consul/state"
	"github.com/hashicorp/consul/agent/structs"
	"github.com/hashicorp/consul/internal/verifharness/storex"
)

// A recorded finding is recognised from the WITNESS (query, tables before / after the write), never from
// the violation alone: each predicate below states one mechanism; anything it does not explain keeps its
// generic signature `<violation>:<query kind>:<write kind>` and is reported as a new violation.

func lower(s string) string { return strings.ToLower(s) }

func svcRow(t *state.VerifStoreTables, node, id string) *structs.ServiceNode {
	for _, v := range t.Services {
		if lower(v.Node) == lower(node) && lower(v.ServiceID) == lower(id) {
			return v
		}
	}
	return nil
}

func svcRowPeer(t *state.VerifStoreTables, node, id, peer string) *structs.ServiceNode {
	for _, v := range t.Services {
		if v.PeerName == peer && lower(v.Node) == lower(node) && lower(v.ServiceID) == lower(id) {
			return v
		}
	}
	return nil
}

func chkRow(t *state.VerifStoreTables, node, id string) *structs.HealthCheck {
	for _, c := range t.Checks {
		if lower(c.Node) == lower(node) && lower(string(c.CheckID)) == lower(id) {
			return c
		}
	}
	return nil
}

func isServiceQuery(q *query) bool {
	switch q.Kind {
	case "ServiceNodes", "CheckServiceNodes", "ServiceTagNodes", "CheckServiceTagNodes", "ConnectServiceNodes", "CheckConnectServiceNodes",
		"ServiceDumpKind":
		return true
	}
	return false
}

// renamedInPlace: an instance (node, id) present before and after the write changed its service name
// (ensureServiceTxn -> catalogInsertService bumps only the NEW name's index row; the old name loses an
// instance without its index row or the extinction index moving).
// about: is the instance one the query's answer is built from?
func about(q *query, v *structs.ServiceNode) bool {
	switch q.Kind {
	case "ServiceDumpKind":
		return string(v.ServiceKind) == q.Arg || (v.ServiceKind == "" && q.Arg == string(structs.ServiceKindTypical))
	case "ConnectServiceNodes", "CheckConnectServiceNodes":
		return lower(connectTarget(v)) == lower(q.Service)
	}
	return lower(v.ServiceName) == lower(q.Service)
}

func renamedInPlace(q *query, b, a *state.VerifStoreTables) bool {
	if !isServiceQuery(q) {
		return false
	}
	for _, v := range b.Services {
		if v.PeerName != q.Peer {
			continue
		}
		if w := svcRow(a, v.Node, v.ServiceID); w != nil && lower(w.ServiceName) != lower(v.ServiceName) && about(q, v) {
			return true
		}
	}
	return false
}

// checkRebound: a check (node, id) present before and after the write moved to another service id (or from
// node level to a service): ensureCheckTxn bumps the index of the NEW service only; the services that
// showed the check before lose it silently.
func checkRebound(q *query, b, a *state.VerifStoreTables) bool {
	if !isServiceQuery(q) {
		return false
	}
	for _, c := range b.Checks {
		d := chkRow(a, c.Node, string(c.CheckID))
		if d == nil || lower(d.ServiceID) == lower(c.ServiceID) {
			continue
		}
		if c.ServiceID == "" {
			// node-level before: every instance on the node showed it
			for _, v := range b.Services {
				if lower(v.Node) == lower(c.Node) && about(q, v) && lower(v.ServiceID) != lower(d.ServiceID) {
					return true
				}
			}
		} else if v := svcRow(b, c.Node, c.ServiceID); v != nil && about(q, v) {
			return true
		}
	}
	return false
}

// staleCheckName: a check row that still carries the service name its instance had before a rename was
// deleted or rewritten: deleteCheckTxn bumps `existing.ServiceName` (the stale copy), not the instance's
// current name.
func staleCheckName(q *query, b, a *state.VerifStoreTables) bool {
	if !isServiceQuery(q) {
		return false
	}
	for _, c := range b.Checks {
		if c.ServiceID == "" {
			continue
		}
		v := svcRow(b, c.Node, c.ServiceID)
		if v == nil || lower(v.ServiceName) == lower(c.ServiceName) || !about(q, v) {
			continue
		}
		if chkRow(a, c.Node, string(c.CheckID)) == nil {
			return true
		}
	}
	return false
}

func sameServices(b, a *state.VerifStoreTables) bool {
	if len(b.Services) != len(a.Services) {
		return false
	}
	for i := range b.Services {
		if showSvc(b.Services[i]) != showSvc(a.Services[i]) {
			return false
		}
	}
	return true
}

func trimNul(s string) string { return strings.Trim(s, "\x00") }

// treeDeletes: the prefixes of the delete-tree verbs of a write
func treeDeletes(op *storex.Op) (out []string) {
	if op.Kind == "kv" && op.KV.Verb == "delete-tree" {
		out = append(out, op.KV.Key)
	}
	for _, t := range op.Txn {
		if t.Fam == 'k' && t.Verb == "delete-tree" {
			out = append(out, t.KV.Key)
		}
	}
	return
}

// ---- Part B mechanisms (Connect, gateways, peers)

// connectTarget: the service name whose Connect queries list this instance ("" = none)
func connectTarget(v *structs.ServiceNode) string {
	switch {
	case v.ServiceKind == structs.ServiceKindConnectProxy:
		return v.ServiceProxy.DestinationServiceName
	case v.ServiceConnect.Native:
		return v.ServiceName
	}
	return ""
}

func hasName(t *state.VerifStoreTables, name, peer string) bool {
	for _, v := range t.Services {
		if v.PeerName == peer && lower(v.ServiceName) == lower(name) {
			return true
		}
	}
	return false
}

// proxyNameExtinct: a Connect instance of the target was registered under a service name that has no
// instance left after the write, while other Connect instances remain: checkServiceNodesTxn takes the max
// over the names still present and never looks at the extinction index.
func proxyNameExtinct(q *query, b, a *state.VerifStoreTables) bool {
	for _, v := range b.Services {
		if v.PeerName == q.Peer && lower(connectTarget(v)) == lower(q.Service) && !hasName(a, v.ServiceName, q.Peer) {
			return true
		}
	}
	return false
}

// stoppedBeingConnect: an instance that answered Connect queries for the target is still registered after
// the write but no longer does (re-registered without Connect.Native / as another kind / for another
// destination): with no Connect rows left the code reads the service extinction index, which nothing bumped.
func stoppedBeingConnect(q *query, b, a *state.VerifStoreTables) bool {
	for _, v := range b.Services {
		if v.PeerName != q.Peer || lower(connectTarget(v)) != lower(q.Service) {
			continue
		}
		if w := svcRowPeer(a, v.Node, v.ServiceID, q.Peer); w != nil && lower(connectTarget(w)) != lower(q.Service) {
			return true
		}
	}
	return false
}

// hasProxyFor: some instance answers Connect queries for the target under ANOTHER service name
func hasProxyFor(q *query, t *state.VerifStoreTables) bool {
	for _, v := range t.Services {
		if v.PeerName == q.Peer && lower(connectTarget(v)) == lower(q.Service) && lower(v.ServiceName) != lower(q.Service) {
			return true
		}
	}
	return false
}

// gatewayLinkRemoved: a gateway-services row naming the service (or the wildcard) disappeared
func gatewayLinkRemoved(q *query, gb, ga []string) bool {
	after := map[string]bool{}
	for _, r := range ga {
		after[r] = true
	}
	for _, r := range gb {
		if after[r] {
			continue
		}
		f := strings.Split(r, "|") // gateway|service|kind
		if len(f) == 3 && (lower(f[1]) == lower(q.Service) || f[1] == "*") {
			return true
		}
	}
	return false
}

// nodeMetaChanged: some node row exists before and after with different meta
func nodeMetaChanged(b, a *state.VerifStoreTables) bool {
	for _, n := range b.Nodes {
		for _, m := range a.Nodes {
			if lower(m.Node) == lower(n.Node) && m.PeerName == n.PeerName && !reflect.DeepEqual(normMeta(n.Meta), normMeta(m.Meta)) {
				return true
			}
		}
	}
	return false
}

func normMeta(m map[string]string) map[string]string {
	if len(m) == 0 {
		return nil
	}
	return m
}

// sameChecks: the checks table holds the same rows (by key and modify index) before and after
func sameChecks(b, a *state.VerifStoreTables) bool {
	if len(b.Checks) != len(a.Checks) {
		return false
	}
	for i := range b.Checks {
		x, y := b.Checks[i], a.Checks[i]
		if x.Node != y.Node || x.CheckID != y.CheckID || x.PeerName != y.PeerName || x.ModifyIndex != y.ModifyIndex || x.Status != y.Status {
			return false
		}
	}
	return true
}

// shapeOfWide: Part B mechanisms first, then the shared ones.
func shapeOfWide(q *query, trees []string, b, a *state.VerifStoreTables, gb, ga []string, ob, oa obs) string {
	switch q.Kind {
	case "ChecksInStateByNodeMeta":
		// the listing is filtered by the meta of the checks' nodes but reports the checks table index: a node whose
		// meta changes moves checks in or out of the result without touching any check row
		if nodeMetaChanged(b, a) && sameChecks(b, a) {
			return "health:checks-in-state-by-node-meta:node-meta-change-outside-checks-index"
		}
	case "ServiceUsage":
		// Operator.Usage counts nodes too, but reports the index of the service-instances usage row: a write that
		// changes the node count without touching a service instance leaves the index where it was
		if sameServices(b, a) && len(b.Nodes) != len(a.Nodes) {
			return "usage:service-usage:node-count-change-outside-service-instances-index"
		}
	case "ServiceAddressNodes":
		// the function returns the constant index 0 (reported as 1), whatever happens to its result
		if oa.idx == 0 && ob.idx <= 1 {
			return "catalog:service-address-nodes:index-always-0"
		}
	case "NodeServicesByID":
		// lookup by node ID: the node kept its name but was given another ID (no node was deleted, so the
		// extinction index the code falls back to did not move)
		for _, n := range b.Nodes {
			if lower(string(n.ID)) != lower(q.Node) {
				continue
			}
			for _, m := range a.Nodes {
				if lower(m.Node) == lower(n.Node) && m.PeerName == n.PeerName && lower(string(m.ID)) != lower(q.Node) {
					return "catalog:node-services:lookup-by-id:node-id-replaced-in-place"
				}
			}
		}
	case "ServiceDump":
		if q.Peer != "" {
			return "catalog:service-dump:peer-query-reads-local-table-indexes"
		}
	case "ExportedServicesForPeer":
		if oa.idx == 0 {
			return "peering:exported-services-for-peer:index-0-when-peering-absent"
		}
	case "ConnectServiceNodes", "CheckConnectServiceNodes", "ServiceGateways", "CheckIngressServiceNodes":
		if gatewayLinkRemoved(q, gb, ga) {
			return "gateway-services:mapping-row-removed:index-over-remaining-rows-only"
		}
		// (round 5: the three Connect mechanisms are the same code with the peer name as a parameter — the
		// classifiers look at the rows of the query's peer, local or imported)
		if (q.Kind == "ConnectServiceNodes" || q.Kind == "CheckConnectServiceNodes") && stoppedBeingConnect(q, b, a) {
			return "catalog:connect-queries:instance-stops-being-connect:extinction-index-read-while-service-exists"
		}
		if q.Kind == "CheckConnectServiceNodes" && proxyNameExtinct(q, b, a) {
			return "catalog:connect-health:proxy-service-name-extinct:index-over-remaining-names-only"
		}
		if q.Kind == "ConnectServiceNodes" && (hasProxyFor(q, b) || hasProxyFor(q, a)) {
			return "catalog:connect-service-nodes:index-of-target-name-not-of-proxy-instances"
		}
	}
	return shapeOf(q, trees, b, a, ob, oa)
}

func shapeOf(q *query, trees []string, b, a *state.VerifStoreTables, ob, oa obs) string {
	switch q.Kind {
	case "NodeServices", "NodeServiceList":
		// Store.nodeServices: a name shorter than minUUIDLookupLen that is not found returns index 0
		if len(q.Node) < 2 && oa.idx == 0 && (oa.res == "-" || oa.res == "nil") {
			return "catalog:node-services:name-shorter-than-2:index-0-when-node-absent"
		}
	case "ServicesJoined":
		// Services(joinServiceNodes=true) (Catalog.ListServices with a filter): node fields are joined in, the
		// index is the services table's
		if sameServices(b, a) {
			return "catalog:services-joined-with-nodes:node-change-outside-services-index"
		}
	case "KVSList", "KVSListKeys":
		if strings.HasPrefix(q.Key, "\x00") {
			return "kv:list:prefix-with-leading-NUL:tombstone-lookup-trims-it"
		}
		for _, d := range trees {
			// kvsDeleteTreeTxn leaves ONE tombstone, on the tree prefix itself (none for the empty prefix); a list
			// prefix that is longer than the tree prefix never sees it
			if len(d) < len(q.Key) && strings.HasPrefix(q.Key, d) {
				return "kv:list:delete-tree-above-list-prefix:tombstone-not-under-list-prefix"
			}
		}
	}
	switch {
	case renamedInPlace(q, b, a):
		return "catalog:instance-renamed-in-place:old-service-name-index-not-bumped"
	case checkRebound(q, b, a):
		return "catalog:check-rebound-to-another-service:previous-service-index-not-bumped"
	case staleCheckName(q, b, a):
		return "catalog:check-row-keeps-old-service-name:delete-bumps-stale-name"
	}
	return ""
}
