//go:build verif

package main

import (
	"strings"

	"github.com/hashicorp/consul/agent/consul/state"
	"github.com/hashicorp/consul/agent/structs"
	"github.com/hashicorp/consul/internal/verifharness/storex"
)

// A recorded finding is recognised from the WITNESS (query, tables before / after the write), never from
// the violation alone: each predicate below states one mechanism; anything it does not explain keeps its
// generic signature `<violation>:<query kind>:<write kind>` and is reported as a new violation.

func lower(s string) string { return strings.ToLower(s) }

func svcRow(t *state.VerifStoreTables, node, id string) *structs.ServiceNode {
	for _, v := range t.Services {
		if lower(v.Node) == lower(node) && lower(v.ServiceID) == lower(id) {
			return v
		}
	}
	return nil
}

func chkRow(t *state.VerifStoreTables, node, id string) *structs.HealthCheck {
	for _, c := range t.Checks {
		if lower(c.Node) == lower(node) && lower(string(c.CheckID)) == lower(id) {
			return c
		}
	}
	return nil
}

func isServiceQuery(q *query) bool {
	switch q.Kind {
	case "ServiceNodes", "CheckServiceNodes", "ServiceTagNodes", "CheckServiceTagNodes", "ConnectServiceNodes", "CheckConnectServiceNodes",
		"ServiceDump", "CheckIngressServiceNodes", "ServiceTopology", "ServiceGateways":
		return true
	}
	return false
}

// renamedInPlace: an instance (node, id) present before and after the write changed its service name
// (ensureServiceTxn -> catalogInsertService bumps only the NEW name's index row; the old name loses an
// instance without its index row or the extinction index moving).
func renamedInPlace(q *query, b, a *state.VerifStoreTables) bool {
	if !isServiceQuery(q) {
		return false
	}
	for _, v := range b.Services {
		if w := svcRow(a, v.Node, v.ServiceID); w != nil && lower(w.ServiceName) != lower(v.ServiceName) && lower(v.ServiceName) == lower(q.Service) {
			return true
		}
	}
	return false
}

// checkRebound: a check (node, id) present before and after the write moved to another service id (or from
// node level to a service): ensureCheckTxn bumps the index of the NEW service only; the services that
// showed the check before lose it silently.
func checkRebound(q *query, b, a *state.VerifStoreTables) bool {
	if !isServiceQuery(q) {
		return false
	}
	for _, c := range b.Checks {
		d := chkRow(a, c.Node, string(c.CheckID))
		if d == nil || lower(d.ServiceID) == lower(c.ServiceID) {
			continue
		}
		if c.ServiceID == "" {
			// node-level before: every instance on the node showed it
			for _, v := range b.Services {
				if lower(v.Node) == lower(c.Node) && lower(v.ServiceName) == lower(q.Service) && lower(v.ServiceID) != lower(d.ServiceID) {
					return true
				}
			}
		} else if v := svcRow(b, c.Node, c.ServiceID); v != nil && lower(v.ServiceName) == lower(q.Service) {
			return true
		}
	}
	return false
}

// staleCheckName: a check row that still carries the service name its instance had before a rename was
// deleted or rewritten: deleteCheckTxn bumps `existing.ServiceName` (the stale copy), not the instance's
// current name.
func staleCheckName(q *query, b, a *state.VerifStoreTables) bool {
	if !isServiceQuery(q) {
		return false
	}
	for _, c := range b.Checks {
		if c.ServiceID == "" {
			continue
		}
		v := svcRow(b, c.Node, c.ServiceID)
		if v == nil || lower(v.ServiceName) == lower(c.ServiceName) || lower(v.ServiceName) != lower(q.Service) {
			continue
		}
		if chkRow(a, c.Node, string(c.CheckID)) == nil {
			return true
		}
	}
	return false
}

func sameServices(b, a *state.VerifStoreTables) bool {
	if len(b.Services) != len(a.Services) {
		return false
	}
	for i := range b.Services {
		if showSvc(b.Services[i]) != showSvc(a.Services[i]) {
			return false
		}
	}
	return true
}

func trimNul(s string) string { return strings.Trim(s, "\x00") }

// treeDeletes: the prefixes of the delete-tree verbs of a write
func treeDeletes(op *storex.Op) (out []string) {
	if op.Kind == "kv" && op.KV.Verb == "delete-tree" {
		out = append(out, op.KV.Key)
	}
	for _, t := range op.Txn {
		if t.Fam == 'k' && t.Verb == "delete-tree" {
			out = append(out, t.KV.Key)
		}
	}
	return
}

func shapeOf(q *query, trees []string, b, a *state.VerifStoreTables, ob, oa obs) string {
	switch q.Kind {
	case "NodeServices", "NodeServiceList":
		// Store.nodeServices: a name shorter than minUUIDLookupLen that is not found returns index 0
		if len(q.Node) < 2 && oa.idx == 0 && oa.res == "-" {
			return "catalog:node-services:name-shorter-than-2:index-0-when-node-absent"
		}
	case "ServicesJoined":
		// Services(joinServiceNodes=true) (Catalog.ListServices with a filter): node fields are joined in, the
		// index is the services table's
		if sameServices(b, a) {
			return "catalog:services-joined-with-nodes:node-change-outside-services-index"
		}
	case "KVSList", "KVSListKeys":
		if strings.HasPrefix(q.Key, "\x00") {
			return "kv:list:prefix-with-leading-NUL:tombstone-lookup-trims-it"
		}
		for _, d := range trees {
			// kvsDeleteTreeTxn leaves ONE tombstone, on the tree prefix itself (none for the empty prefix); a list
			// prefix that is longer than the tree prefix never sees it
			if len(d) < len(q.Key) && strings.HasPrefix(q.Key, d) {
				return "kv:list:delete-tree-above-list-prefix:tombstone-not-under-list-prefix"
			}
		}
	}
	switch {
	case renamedInPlace(q, b, a):
		return "catalog:instance-renamed-in-place:old-service-name-index-not-bumped"
	case checkRebound(q, b, a):
		return "catalog:check-rebound-to-another-service:previous-service-index-not-bumped"
	case staleCheckName(q, b, a):
		return "catalog:check-row-keeps-old-service-name:delete-bumps-stale-name"
	}
	return ""
}
