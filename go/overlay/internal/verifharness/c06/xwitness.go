//go:build verif

package main

import (
	"fmt"
	"strings"
	"time"

	"google.golang.org/protobuf/types/known/timestamppb"

	"github.com/hashicorp/consul/agent/structs"
	"github.com/hashicorp/consul/internal/verifharness/hx"
	"github.com/hashicorp/consul/internal/verifharness/storex"
	"github.com/hashicorp/consul/proto/private/pbpeering"
	"github.com/hashicorp/consul/types"
)

// Fixed witnesses of the recorded Part B findings, replayed on every run (the generated histories find them
// too, but not necessarily under every seed). Each scenario must raise exactly its signature.

func wReg(node, id, peer string, svc *structs.NodeService, checks ...*structs.HealthCheck) entry {
	req := structs.RegisterRequest{Datacenter: "dc1", Node: node, ID: types.NodeID(id), Address: "127.0.0.1", PeerName: peer, Service: svc}
	if svc != nil {
		svc.PeerName = peer
	}
	for _, c := range checks {
		c.Node, c.PeerName = node, peer
		req.Checks = append(req.Checks, c)
	}
	d := fmt.Sprintf("register node=%s id=%s peer=%q", node, id, peer)
	if svc != nil {
		d += fmt.Sprintf(" svc=%s/%s kind=%q native=%v", svc.ID, svc.Service, svc.Kind, svc.Connect.Native)
	}
	return entry{data: enc(structs.RegisterRequestType, &req), kind: "register", desc: d}
}

func wDereg(node string) entry {
	req := structs.DeregisterRequest{Datacenter: "dc1", Node: node}
	return entry{data: enc(structs.DeregisterRequestType, &req), kind: "deregister", desc: "deregister node=" + node}
}

func wConfig(e structs.ConfigEntry) entry {
	if err := e.Normalize(); err != nil {
		panic(err)
	}
	if err := e.Validate(); err != nil {
		panic(err)
	}
	req := structs.ConfigEntryRequest{Datacenter: "dc1", Op: structs.ConfigEntryUpsert, Entry: e}
	return entry{data: enc(structs.ConfigEntryRequestType, &req), kind: "config-entry", desc: "config upsert " + e.GetKind() + "/" + e.GetName()}
}

func wSvc(id, name string, port int) *structs.NodeService {
	return &structs.NodeService{ID: id, Service: name, Port: port}
}

func wProxy(name, dest string) *structs.NodeService {
	return &structs.NodeService{Kind: structs.ServiceKindConnectProxy, ID: name, Service: name, Port: 8002,
		Proxy: structs.ConnectProxyConfig{DestinationServiceName: dest}}
}

type wideWitness struct {
	sig string
	ops []entry
}

func wideWitnessList(u *xuniverse) []wideWitness {
	idA, idC := u.nodeIDs[0], u.nodeIDs[2]
	native := func(id, name string) *structs.NodeService {
		s := wSvc(id, name, 8000)
		s.Connect.Native = true
		return s
	}
	termGW := &structs.NodeService{Kind: structs.ServiceKindTerminatingGateway, ID: "term-gw", Service: "term-gw", Port: 8443}
	del := &pbpeering.Peering{ID: u.peerIDs[2], Name: u.peerNames[2], State: pbpeering.PeeringState_DELETING,
		DeletedAt: timestamppb.New(time.Unix(1700000000, 0))}
	return []wideWitness{
		{"catalog:node-services:lookup-by-id:node-id-replaced-in-place", []entry{
			wReg("N1", idA, "", wSvc("api", "api", 8000)), wReg("N1", idC, "", nil)}},
		{"catalog:service-dump:peer-query-reads-local-table-indexes", []entry{
			wReg("m", "", "", wSvc("web", "web", 8000)), wReg("n2", "", u.peerNames[0], wSvc("db", "db", 8001))}},
		{"gateway-services:mapping-row-removed:index-over-remaining-rows-only", []entry{
			wReg("m", "", "", termGW),
			wConfig(&structs.TerminatingGatewayConfigEntry{Kind: structs.TerminatingGateway, Name: "term-gw", Services: []structs.LinkedService{{Name: "web-v1"}}}),
			wReg("n1", "", "", wSvc("api", "api", 8000)),
			wConfig(&structs.TerminatingGatewayConfigEntry{Kind: structs.TerminatingGateway, Name: "term-gw", Services: []structs.LinkedService{{Name: "db"}}})}},
		{"catalog:connect-service-nodes:index-of-target-name-not-of-proxy-instances", []entry{
			wReg("n1", "", "", wSvc("api", "api", 8000)), // the target service has its own index row …
			wReg("n2", idA, "", wProxy("api-sidecar-proxy", "api")), wReg("n2", idC, "", nil)}}, // … which a sidecar's node update does not touch
		{"catalog:connect-health:proxy-service-name-extinct:index-over-remaining-names-only", []entry{
			wReg("n2", "", "", native("Web", "Web")), wReg("N1", "", "", wProxy("web-sidecar-proxy", "web")), wDereg("N1")}},
		{"catalog:connect-queries:instance-stops-being-connect:extinction-index-read-while-service-exists", []entry{
			wReg("n3", "", "", wSvc("db", "db", 8001)), wDereg("n3"), // some service went extinct earlier
			wReg("n1", "", "", native("web", "web")), wReg("n1", "", "", wSvc("web", "web", 8000))}},
		{"usage:service-usage:node-count-change-outside-service-instances-index", []entry{
			wReg("n1", "", "", wSvc("web", "web", 8000)), wReg("n2", "", "", nil)}}, // a node without instances: Nodes 1 -> 2
		{"peering:exported-services-for-peer:index-0-when-peering-absent", []entry{
			{data: encProto(structs.PeeringWriteType, &pbpeering.PeeringWriteRequest{Peering: &pbpeering.Peering{ID: u.peerIDs[2], Name: u.peerNames[2], State: pbpeering.PeeringState_ACTIVE}}),
				kind: "peering-write", desc: "peering-write peer3 ACTIVE"},
			{data: encProto(structs.PeeringWriteType, &pbpeering.PeeringWriteRequest{Peering: del}), kind: "peering-write", desc: "peering-write peer3 DELETING"},
			{data: encProto(structs.PeeringDeleteType, &pbpeering.PeeringDeleteRequest{Name: u.peerNames[2]}), kind: "peering-delete", desc: "peering-delete peer3"}}},
	}
}

// wideWitnesses replays the fixed witnesses through the same monitor as the generated Part B histories.
func wideWitnesses(run *hx.Run) {
	u := newXUniverse()
	for _, ww := range wideWitnessList(u) {
		w := storex.NewWorld()
		qs := wideQueries(u)
		sw := newSweep(w.Store(), qs)
		sw.twice, sw.run = true, run
		var descs []string
		replay := func() []string { return append([]string(nil), descs...) }
		idx := uint64(10)
		seen := run.Hist["violation:"+ww.sig]
		for _, e := range ww.ops {
			idx += 2
			e.idx = idx
			b, gb := w.Store().VerifStoreTables(), gatewayRows(w)
			res := applyEntry(w, e)
			a, ga := w.Store().VerifStoreTables(), gatewayRows(w)
			descs = append(descs, fmt.Sprintf("@%d %s => %s", e.idx, e.desc, clip(res, 80)))
			wi := &writeInfo{kind: e.kind, desc: e.desc}
			e := e
			wi.shape = func(q *query, ob, oa obs) string { return shapeOfWide(q, e.trees, &b, &a, gb, ga, ob, oa) }
			sw.across(run, w.Store(), wi, replay, nil)
		}
		if run.Hist["violation:"+ww.sig] == seen {
			// not a violation: the finding may have been repaired (then its known: line can be dropped)
			run.Tag("fixed-witness-NOT-reproduced:" + ww.sig)
		} else {
			run.Tag("fixed-witness-reproduced:" + ww.sig)
		}
		run.Case("witness\n"+strings.Join(descs, "\n"), true)
	}
}
