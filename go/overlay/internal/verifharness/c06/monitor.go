//go:build verif

package main

import (
	"fmt"
	"strings"
	"time"

	"github.com/hashicorp/go-memdb"

	"github.com/hashicorp/consul/agent/consul"
	"github.com/hashicorp/consul/agent/consul/state"
	"github.com/hashicorp/consul/agent/structs"
	"github.com/hashicorp/consul/internal/verifharness/hx"
)

// The monitor restates the property on the implementation's own values, for every query of the set and
// every single write, without looking at the Lean model:
//
//	result' != result  =>  reported index' > reported index   and   a channel of the WatchSet built
//	                                                               before the write is closed after it
//	reported index >= 1
//	reported index' >= reported index, except across tombstone reaping (and snapshot restore)
//
// plus, on a sample, the end-to-end form on the REAL blocking loop (Server.blockingQuery): a query
// blocked on the old index returns, with a larger index, as soon as a write changes its result.

type obs struct {
	idx uint64
	res string
	ws  memdb.WatchSet
	bad bool // the query failed (an RPC would return the error at once) or its answer is not a function of the state
}

// reported is what Server.SetQueryMeta makes of the index a query function stored (copied; the e2e
// check below goes through the real one).
func reported(i uint64) uint64 {
	if i < 1 {
		return 1
	}
	return i
}

func fired(ws memdb.WatchSet) bool {
	for ch := range ws {
		select {
		case <-ch:
			return true
		default:
		}
	}
	return false
}

type sweep struct {
	qs    []*query
	last  []obs
	twice bool // evaluate every query twice and discard answers that differ on the same state (map-order dependent)
	run   *hx.Run
}

func (sw *sweep) eval(st *state.Store, q *query) obs {
	ws := memdb.NewWatchSet()
	idx, res := guard(func() (uint64, string) { return q.Run(st, ws) })
	o := obs{idx: idx, res: res, ws: ws, bad: strings.HasPrefix(res, "err")}
	if o.bad && sw.run != nil {
		sw.run.Tag("query-error:" + q.Kind + ":" + clip(res, 70))
	}
	if sw.twice && !o.bad {
		if i2, r2 := guard(func() (uint64, string) { return q.Run(st, nil) }); i2 != idx || r2 != res {
			o.bad = true
			if sw.run != nil {
				sw.run.Tag("unstable-answer:" + q.Kind)
			}
		}
	}
	return o
}

func newSweep(st *state.Store, qs []*query) *sweep {
	sw := &sweep{qs: qs, last: make([]obs, len(qs))}
	for i, q := range qs {
		sw.last[i] = sw.eval(st, q)
	}
	return sw
}

// writeInfo is what the monitor knows about the write it is looking across.
type writeInfo struct {
	kind    string // op kind for tags / generic signatures (kv-set, reg, txn, config-entry, …)
	reap    bool   // tombstone reaping: the index may go down
	restore bool   // snapshot restore: the index may go down, watches fire through AbandonCh
	desc    string
	shape   func(q *query, before, after obs) string // recognises a recorded mechanism; "" = none
}

type verdict struct {
	q       *query
	before  obs
	after   obs
	fired   bool
	changed bool
}

// across evaluates every query after a write and checks the contract against the observation made before
// it. `emit` receives every verdict (the caller prints the model lines).
func (sw *sweep) across(run *hx.Run, st *state.Store, wi *writeInfo, replay func() []string, emit func(v *verdict)) {
	for i, q := range sw.qs {
		before := sw.last[i]
		after := sw.eval(st, q)
		v := &verdict{q: q, before: before, after: after, fired: fired(before.ws), changed: after.res != before.res}
		sw.last[i] = after
		if strings.HasPrefix(after.res, "panic(") || strings.Contains(after.res, "unmapped(") {
			run.Violate("harness:unclassified-answer:"+q.Kind, q.name()+" answered "+after.res, replay())
		}
		if before.bad || after.bad {
			run.Tag("no-verdict(error-or-unstable):" + q.Kind)
			if emit != nil {
				emit(v)
			}
			continue
		}
		rb, ra := reported(before.idx), reported(after.idx)
		if after.idx == 0 {
			run.Tag("raw-index-0:" + q.Kind)
		}
		report := func(kind, what string) {
			sig := ""
			if wi.shape != nil {
				sig = wi.shape(q, before, after)
			}
			if sig == "" {
				sig = kind + ":" + q.Kind + ":" + wi.kind
			} else {
				what = kind + ": " + what // a recorded mechanism: one signature whatever the symptom
			}
			run.Violate(sig, fmt.Sprintf("%s after %s: %s — index %d -> %d (reported %d -> %d), watch fired=%v; result before: %s; after: %s",
				q.name(), wi.desc, what, before.idx, after.idx, rb, ra, v.fired, clip(before.res, 300), clip(after.res, 300)), replay())
		}
		switch {
		case v.changed && ra < rb && !wi.reap && !wi.restore:
			report("change-missed:index-went-down", "the result changed but the index went down")
		case v.changed && ra == rb && !wi.restore:
			report("change-missed:index-not-advanced", "the result changed but the index did not advance")
		case !v.changed && ra < rb && !wi.reap && !wi.restore:
			report("index-went-down", "the index went down (result unchanged)")
		}
		if v.changed && !v.fired {
			report("change-missed:watch-not-fired", "the result changed but no watched channel fired")
		}
		if v.changed {
			run.Tag("changed:" + q.Kind)
		} else if v.fired {
			run.Tag("spurious-wake:" + q.Kind)
		}
		if emit != nil {
			emit(v)
		}
	}
}

func clip(s string, n int) string {
	if len(s) > n {
		return s[:n] + "…"
	}
	return s
}

// ---------------------------------------------------------------- end to end: the real blocking loop

type blocked struct {
	q       *query
	min     uint64
	before  string
	done    chan struct{}
	meta    structs.QueryMeta
	res     string
	raw     uint64 // the index the query function stored, before SetQueryMeta
	elapsed time.Duration
}

const e2eMaxTime = 40 * time.Millisecond

// block starts Server.blockingQuery for q with MinQueryIndex = the index reported for the current state.
func block(srv *consul.VerifC06Server, q *query, cur obs) *blocked {
	return blockFor(srv, q, cur, e2eMaxTime)
}

// absent: the canonical "nothing there" answers, for which the single-entry endpoints (KVS.Get, Session.Get,
// ConfigEntry.Get …) return the ErrNotFound sentinel
func absent(res string) bool { return res == "-" || res == "nil" }

func blockFor(srv *consul.VerifC06Server, q *query, cur obs, maxTime time.Duration) *blocked {
	b := &blocked{q: q, min: reported(cur.idx), before: cur.res, done: make(chan struct{})}
	started := make(chan struct{})
	go func() {
		defer close(b.done)
		t0 := time.Now()
		first := true
		_ = srv.BlockingQuery(b.min, maxTime, &b.meta, func(ws memdb.WatchSet, st *state.Store) error {
			idx, res := guard(func() (uint64, string) { return q.Run(st, ws) })
			b.meta.Index, b.res, b.raw = idx, res, idx
			if first {
				first = false
				close(started)
			}
			if absent(res) {
				return consul.VerifC06ErrNotFound() // as the real endpoints do: exercises the sentinel branch of the loop
			}
			return nil
		})
		b.elapsed = time.Since(t0)
	}()
	<-started // the first evaluation (on the old state) has run; the loop is about to wait on its WatchSet
	return b
}

// settle waits for the blocked queries after the write and checks them.
func settle(run *hx.Run, bs []*blocked, wi *writeInfo, replay func() []string) {
	for _, b := range bs {
		select {
		case <-b.done:
		case <-time.After(5 * time.Second):
			run.Violate("harness:blocking-query-never-returned:"+b.q.Kind, b.q.name()+" did not return within 5s", replay())
			continue
		}
		if b.meta.Index < 1 {
			run.Violate("reported-index-zero:"+b.q.Kind, b.q.name()+" returned index 0 through Server.blockingQuery", replay())
		}
		changed := b.res != b.before
		if strings.HasPrefix(b.res, "err") || strings.HasPrefix(b.before, "err") {
			run.Tag("e2e:no-verdict(error)")
			continue
		}
		switch {
		case changed && b.meta.Index > b.min:
			run.Tag("e2e:woken-by-change")
		case changed:
			// the loop was woken (or timed out) holding a different result but an index that is not larger: the
			// client sees the change only if it compares payloads; a client that keeps blocking on the returned
			// index has lost nothing yet, but one blocked on b.min was not released by the change itself
			sig := ""
			if wi.shape != nil {
				sig = wi.shape(b.q, obs{idx: b.min, res: b.before}, obs{idx: b.raw, res: b.res})
			}
			if sig == "" {
				sig = "e2e:blocked-query-not-released-by-change:" + b.q.Kind + ":" + wi.kind
			}
			run.Violate(sig,
				fmt.Sprintf("%s blocked on index %d across %s: result changed, loop ran until its timeout (%v) and returned index %d; before: %s; after: %s",
					b.q.name(), b.min, wi.desc, b.elapsed.Round(time.Millisecond), b.meta.Index, clip(b.before, 200), clip(b.res, 200)), replay())
		default:
			run.Tag("e2e:timeout-no-change")
		}
	}
}
