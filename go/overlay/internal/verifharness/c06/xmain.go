//go:build verif

package main

import (
	"bytes"
	"fmt"
	"strings"
	"time"

	"github.com/hashicorp/go-hclog"
	"github.com/hashicorp/raft"

	"github.com/hashicorp/consul/agent/consul"
	"github.com/hashicorp/consul/agent/consul/fsm"
	"github.com/hashicorp/consul/agent/consul/state"
	raftstorage "github.com/hashicorp/consul/internal/storage/raft"
	"github.com/hashicorp/consul/internal/verifharness/hx"
	"github.com/hashicorp/consul/internal/verifharness/storex"
)

// Part B: monitor-only histories over the whole FSM command set (no Lean lines).

// xnext picks the next command of a Part B history. ACL, autopilot, feature-gate and
// resource commands are left out (no query of the C06 set reads them).
func (g *gen) xnext(profile string) entry {
	r := g.r
	type w struct {
		n int
		f func() entry
	}
	ce := func() entry {
		for i := 0; i < 8; i++ {
			if e, ok := g.configEntryOp(); ok {
				return e
			}
		}
		return g.systemMetadata()
	}
	var ws []w
	switch profile {
	case "catalog":
		ws = []w{{40, g.register}, {14, g.deregister}, {6, g.coordinates}, {8, g.txn}, {6, g.sessionOp}, {6, ce}, {4, g.manualVIP}, {4, g.kvs}, {3, g.preparedQuery}, {2, g.vipFlag},
			{12, g.refreshCheck}, {3, g.existingConfigEntry}}
	case "kv":
		ws = []w{{40, g.kvs}, {14, g.sessionOp}, {12, g.txn}, {8, g.register}, {5, g.tombstoneReap}, {4, g.deregister}, {4, g.preparedQuery}}
	case "mesh":
		ws = []w{{30, ce}, {25, g.register}, {8, g.deregister}, {8, g.intention}, {5, g.manualVIP}, {4, g.vipFlag}, {4, g.systemMetadata}, {4, g.peering}, {3, g.txn},
			{12, g.existingConfigEntry}, {7, g.existingIntention}, {4, g.refreshCheck}}
	case "peering":
		ws = []w{{50, g.peering}, {15, g.register}, {8, ce}, {5, g.deregister}, {4, g.vipFlag}}
	case "ca":
		ws = []w{{45, g.connectCA}, {5, g.caLeaf}, {10, g.systemMetadata}, {10, g.register}, {10, ce}, {10, g.intention}, {6, g.coordinates}, {8, g.federationState},
			{5, g.existingIntention}, {4, g.existingConfigEntry}}
	default:
		ws = []w{{18, g.register}, {7, g.deregister}, {10, g.kvs}, {6, g.sessionOp}, {6, g.txn}, {2, g.tombstoneReap}, {5, g.coordinates}, {5, g.preparedQuery},
			{3, g.systemMetadata}, {2, g.vipFlag}, {6, g.connectCA}, {12, ce}, {6, g.intention}, {8, g.peering}, {3, g.manualVIP}, {3, g.federationState},
			{5, g.refreshCheck}, {5, g.existingConfigEntry}, {3, g.existingIntention}}
	}
	total := 0
	for _, x := range ws {
		total += x.n
	}
	k := r.Intn(total)
	for _, x := range ws {
		if k < x.n {
			return x.f()
		}
		k -= x.n
	}
	return g.kvs()
}

// newWideWorld: an FSM with a real resource storage backend, so that Snapshot / Restore work
func newWideWorld() *storex.World {
	backend, err := raftstorage.NewBackend(nil, hclog.NewNullLogger())
	if err != nil {
		panic(err)
	}
	return &storex.World{F: fsm.NewFromDeps(fsm.Deps{
		Logger:         hclog.NewNullLogger(),
		NewStateStore:  func() *state.Store { return state.NewStateStore(nil) },
		StorageBackend: backend,
	})}
}

type snapSink struct {
	bytes.Buffer
	cancelled bool
}

func (s *snapSink) ID() string    { return "verif-c06" }
func (s *snapSink) Cancel() error { s.cancelled = true; return nil }
func (s *snapSink) Close() error  { return nil }

type snapReader struct{ *bytes.Reader }

func (snapReader) Close() error { return nil }

// snapshotRestore takes a snapshot of the FSM and restores it into the same FSM: the state store is
// replaced (the old one is abandoned), exactly what a follower does when it installs a snapshot.
func snapshotRestore(w *storex.World) (err error) {
	defer func() {
		if p := recover(); p != nil {
			err = fmt.Errorf("panic: %v", p)
		}
	}()
	snap, err := w.F.Snapshot()
	if err != nil {
		return err
	}
	defer snap.Release()
	sk := &snapSink{}
	if err := snap.Persist(sk); err != nil {
		return err
	}
	return w.F.Restore(snapReader{bytes.NewReader(sk.Bytes())})
}

// restoreStep: snapshot + restore in the middle of a history. The property allows the index of a query to go
// down across a restore (and only there, and across reaping); what it still demands is that a blocked query is
// released (the abandon channel of the old store) and that everything holds again afterwards.
func restoreStep(run *hx.Run, w *storex.World, srv *consul.VerifC06Server, sw *sweep, r *hx.RNG, replay func() []string) {
	var bs []*blocked
	for j, q := range sw.qs {
		if r.Chance(2) && !sw.last[j].bad {
			bs = append(bs, blockFor(srv, q, sw.last[j], 3*time.Second))
		}
	}
	old := sw.last
	if err := snapshotRestore(w); err != nil {
		run.Tag("restore:failed")
		run.Violate("harness:restore-failed", err.Error(), replay())
		return
	}
	run.Tag("wide-op:snapshot-restore")
	for _, b := range bs {
		select {
		case <-b.done:
			if b.elapsed > 2*time.Second {
				run.Violate("restore:blocked-query-not-released-by-abandon:"+b.q.Kind,
					fmt.Sprintf("%s blocked on index %d was released only by its timeout (%v) after a snapshot restore", b.q.name(), b.min, b.elapsed), replay())
			} else {
				run.Tag("e2e:released-by-restore")
			}
		case <-time.After(10 * time.Second):
			run.Violate("harness:blocking-query-never-returned:"+b.q.Kind, b.q.name()+" did not return within 10s of a restore", replay())
		}
	}
	// new baseline on the restored store; differences in results are C02's business, a lower index is allowed here
	fresh := newSweep(w.Store(), sw.qs)
	for j := range sw.qs {
		o, n := old[j], fresh.last[j]
		if o.bad || n.bad {
			continue
		}
		if n.res != o.res {
			run.Tag("restore:result-differs(C02):" + sw.qs[j].Kind)
		}
		if reported(n.idx) < reported(o.idx) {
			run.Tag("restore:index-went-down(allowed):" + sw.qs[j].Kind)
		}
		if n.idx == 0 && o.idx != 0 {
			run.Tag("restore:index-0-after-restore:" + sw.qs[j].Kind)
		}
	}
	sw.last = fresh.last
}

var wideProfiles = []string{"mixed", "catalog", "kv", "mesh", "peering", "ca"}

func wideHistories(run *hx.Run, n, maxOps int) {
	u := newXUniverse()
	for i := 0; i < n; i++ {
		r := run.RNG.Fork(uint64(5000000 + i))
		profile := wideProfiles[i%len(wideProfiles)]
		run.Tag("wide-profile:" + profile)
		w := newWideWorld()
		srv := consul.NewVerifC06Server(w.F, 5*time.Second)
		qs := wideQueries(u)
		if i == 0 {
			run.Extra["wide_queries"] = len(qs)
		}
		sw := newSweep(w.Store(), qs)
		sw.twice, sw.run = true, run
		g := &gen{r: r, u: u, fixedTime: time.Unix(1700000000, 0).UTC(), store: w.Store}
		var descs []string
		replay := func() []string { return append([]string(nil), descs...) }
		idx := uint64(1 + r.Intn(3))
		nontrv := false
		e2e := i%8 == 0
		for k := 1 + r.Intn(maxOps); k > 0; k-- {
			idx += 1 + uint64(r.Intn(100)/85*r.Intn(4))
			g.idx = idx
			if len(descs) > 2 && r.Chance(5) {
				descs = append(descs, fmt.Sprintf("@%d snapshot + restore", idx))
				restoreStep(run, w, srv, sw, r, replay)
				nontrv = true
				continue
			}
			var e entry
			if len(descs) == 0 && r.Chance(80) {
				// the intention format is decided once, by the leader's one-way migration, before anything else
				e = g.intentionFormat()
			} else if len(descs) == 1 && r.Chance(75) {
				// a server initialises the Connect CA before it serves anything: without a CA configuration (trust
				// domain) every read that compiles a discovery chain (ServiceTopology, TrustBundleListByService,
				// ServiceDiscoveryChain) fails and gets no verdict
				e = g.caSetConfig()
			} else if len(descs) <= 2 && profile != "kv" && r.Chance(60) {
				e = g.vipFlag()
			} else {
				e = g.xnext(profile)
			}
			e.idx = idx
			before, gwBefore := w.Store().VerifStoreTables(), gatewayRows(w)
			var bs []*blocked
			if e2e {
				for j, q := range qs {
					if r.Chance(3) {
						bs = append(bs, block(srv, q, sw.last[j]))
					}
				}
			}
			res := applyEntry(w, e)
			after, gwAfter := w.Store().VerifStoreTables(), gatewayRows(w)
			descs = append(descs, fmt.Sprintf("@%d %s => %s", e.idx, e.desc, clip(res, 80)))
			run.Tag("wide-op:" + e.kind)
			if strings.HasPrefix(res, "panic:") {
				run.Tag("wide-op-panicked:" + e.kind)
			}
			wi := &writeInfo{kind: e.kind, reap: e.kind == "tombstone", desc: e.desc}
			wi.shape = func(q *query, ob, oa obs) string { return shapeOfWide(q, e.trees, &before, &after, gwBefore, gwAfter, ob, oa) }
			sw.across(run, w.Store(), wi, replay, func(v *verdict) {
				if v.changed {
					nontrv = true
				}
			})
			settle(run, bs, wi, replay)
		}
		if i < 2 {
			run.Sample(map[string]any{"wide-profile": profile, "ops": descs})
		}
		run.Case("wide\n"+strings.Join(descs, "\n"), nontrv)
	}
}

// gatewayRows: the raw gateway-services table as gateway|service|kind rows
func gatewayRows(w *storex.World) []string {
	gs := w.Store().VerifC06GatewayServiceRows()
	out := make([]string, 0, len(gs))
	for _, g := range gs {
		out = append(out, g.Gateway.Name+"|"+g.Service.Name+"|"+string(g.GatewayKind))
	}
	return out
}

// applyEntry hands one committed entry to the real FSM.
func applyEntry(w *storex.World, e entry) (out string) {
	defer func() {
		if p := recover(); p != nil {
			out = "panic:" + clip(fmt.Sprint(p), 120)
		}
	}()
	return canonResult(w.F.Apply(&raft.Log{Index: e.idx, Term: 1, Type: raft.LogCommand, Data: e.data}))
}
