//go:build verif

package main

import (
	"fmt"
	"strings"
	"time"

	"github.com/hashicorp/raft"

	"github.com/hashicorp/consul/agent/consul"
	"github.com/hashicorp/consul/internal/verifharness/hx"
	"github.com/hashicorp/consul/internal/verifharness/storex"
)

// Part B: monitor-only histories over the whole FSM command set (no Lean lines).

// xnext picks the next command of a Part B history. ACL, autopilot, feature-gate, federation-state and
// resource commands are left out (no query of the C06 set reads them).
func (g *gen) xnext(profile string) entry {
	r := g.r
	type w struct {
		n int
		f func() entry
	}
	ce := func() entry {
		for i := 0; i < 8; i++ {
			if e, ok := g.configEntryOp(); ok {
				return e
			}
		}
		return g.systemMetadata()
	}
	var ws []w
	switch profile {
	case "catalog":
		ws = []w{{40, g.register}, {14, g.deregister}, {6, g.coordinates}, {8, g.txn}, {6, g.sessionOp}, {6, ce}, {4, g.manualVIP}, {4, g.kvs}, {3, g.preparedQuery}, {2, g.vipFlag}}
	case "kv":
		ws = []w{{40, g.kvs}, {14, g.sessionOp}, {12, g.txn}, {8, g.register}, {5, g.tombstoneReap}, {4, g.deregister}, {4, g.preparedQuery}}
	case "mesh":
		ws = []w{{30, ce}, {25, g.register}, {8, g.deregister}, {8, g.intention}, {5, g.manualVIP}, {4, g.vipFlag}, {4, g.systemMetadata}, {4, g.peering}, {3, g.txn}}
	case "peering":
		ws = []w{{50, g.peering}, {15, g.register}, {8, ce}, {5, g.deregister}, {4, g.vipFlag}}
	case "ca":
		ws = []w{{45, g.connectCA}, {5, g.caLeaf}, {10, g.systemMetadata}, {10, g.register}, {10, ce}, {10, g.intention}, {6, g.coordinates}}
	default:
		ws = []w{{18, g.register}, {7, g.deregister}, {10, g.kvs}, {6, g.sessionOp}, {6, g.txn}, {2, g.tombstoneReap}, {5, g.coordinates}, {5, g.preparedQuery},
			{3, g.systemMetadata}, {2, g.vipFlag}, {6, g.connectCA}, {12, ce}, {6, g.intention}, {8, g.peering}, {3, g.manualVIP}}
	}
	total := 0
	for _, x := range ws {
		total += x.n
	}
	k := r.Intn(total)
	for _, x := range ws {
		if k < x.n {
			return x.f()
		}
		k -= x.n
	}
	return g.kvs()
}

var wideProfiles = []string{"mixed", "catalog", "kv", "mesh", "peering", "ca"}

func wideHistories(run *hx.Run, n, maxOps int) {
	u := newXUniverse()
	for i := 0; i < n; i++ {
		r := run.RNG.Fork(uint64(5000000 + i))
		profile := wideProfiles[i%len(wideProfiles)]
		run.Tag("wide-profile:" + profile)
		w := storex.NewWorld()
		srv := consul.NewVerifC06Server(w.F, e2eMaxTime)
		qs := wideQueries(u)
		if i == 0 {
			run.Extra["wide_queries"] = len(qs)
		}
		sw := newSweep(w.Store(), qs)
		sw.twice, sw.run = true, run
		g := &gen{r: r, u: u, fixedTime: time.Unix(1700000000, 0).UTC()}
		var descs []string
		replay := func() []string { return append([]string(nil), descs...) }
		idx := uint64(1 + r.Intn(3))
		nontrv := false
		e2e := i%8 == 0
		for k := 1 + r.Intn(maxOps); k > 0; k-- {
			idx += 1 + uint64(r.Intn(100)/85*r.Intn(4))
			g.idx = idx
			var e entry
			if len(descs) == 0 && r.Chance(80) {
				// the intention format is decided once, by the leader's one-way migration, before anything else
				e = g.intentionFormat()
			} else if len(descs) <= 1 && profile != "kv" && r.Chance(60) {
				e = g.vipFlag()
			} else {
				e = g.xnext(profile)
			}
			e.idx = idx
			before, gwBefore := w.Store().VerifStoreTables(), gatewayRows(w)
			var bs []*blocked
			if e2e {
				for j, q := range qs {
					if r.Chance(3) {
						bs = append(bs, block(srv, q, sw.last[j]))
					}
				}
			}
			res := applyEntry(w, e)
			after, gwAfter := w.Store().VerifStoreTables(), gatewayRows(w)
			descs = append(descs, fmt.Sprintf("@%d %s => %s", e.idx, e.desc, clip(res, 80)))
			run.Tag("wide-op:" + e.kind)
			if strings.HasPrefix(res, "panic:") {
				run.Tag("wide-op-panicked:" + e.kind)
			}
			wi := &writeInfo{kind: e.kind, reap: e.kind == "tombstone", desc: e.desc}
			wi.shape = func(q *query, ob, oa obs) string { return shapeOfWide(q, e.trees, &before, &after, gwBefore, gwAfter, ob, oa) }
			sw.across(run, w.Store(), wi, replay, func(v *verdict) {
				if v.changed {
					nontrv = true
				}
			})
			settle(run, bs, wi, replay)
		}
		if i < 2 {
			run.Sample(map[string]any{"wide-profile": profile, "ops": descs})
		}
		run.Case("wide\n"+strings.Join(descs, "\n"), nontrv)
	}
}

// gatewayRows: the raw gateway-services table as gateway|service|kind rows
func gatewayRows(w *storex.World) []string {
	gs := w.Store().VerifC06GatewayServiceRows()
	out := make([]string, 0, len(gs))
	for _, g := range gs {
		out = append(out, g.Gateway.Name+"|"+g.Service.Name+"|"+string(g.GatewayKind))
	}
	return out
}

// applyEntry hands one committed entry to the real FSM.
func applyEntry(w *storex.World, e entry) (out string) {
	defer func() {
		if p := recover(); p != nil {
			out = "panic:" + clip(fmt.Sprint(p), 120)
		}
	}()
	return canonResult(w.F.Apply(&raft.Log{Index: e.idx, Term: 1, Type: raft.LogCommand, Data: e.data}))
}
