//go:build verif

package main

import (
	"fmt"
	"sort"
	"strings"
	"time"

	memdb "github.com/hashicorp/go-memdb"

	"github.com/hashicorp/consul/agent/consul"
	"github.com/hashicorp/consul/agent/consul/state"
	"github.com/hashicorp/consul/agent/structs"
	"github.com/hashicorp/consul/api"
	"github.com/hashicorp/consul/internal/verifharness/hx"
	"github.com/hashicorp/consul/types"
)

// Part B, node-meta family (monitor only): the node-meta-filtered listings NodesByMeta, ServicesByNodeMeta,
// ChecksInStateByNodeMeta, ServiceChecksByNodeMeta (Catalog.ListNodes / ListServices, Health.ChecksInState /
// ServiceChecks with ?node-meta=), plus the remaining catalog read paths that no other family evaluates:
// NodeService, ServiceAddressNodes, CombinedCheckServiceNodes.
//
// A filtered listing must report an index that covers REMOVALS from the result (a node that is deregistered,
// or re-registered with meta that no longer matches, while other matching nodes remain): the nodes table
// index, not the highest ModifyIndex of the rows that still match. The family generates nodes whose meta
// comes from a small pool (several nodes share a key/value), re-registrations that change the meta,
// deregistrations, and the filtered queries over the pool.

var (
	metaNodes   = []string{"n1", "n2", "n3", "n4"}
	metaPool    = []map[string]string{nil, {"rack": "r1"}, {"rack": "r1"}, {"rack": "r2"}, {"rack": "r1", "env": "prod"}, {"env": "prod"}}
	metaFilters = []map[string]string{{"rack": "r1"}, {"rack": "r2"}, {"env": "prod"}, {"rack": "r1", "env": "prod"}, {"rack": "nosuch"}}
	metaAddrs   = []string{"10.0.0.1", "10.0.0.2", "127.0.0.1"}
)

func showMeta(m map[string]string) string {
	var ks []string
	for k, v := range m {
		ks = append(ks, k+":"+v)
	}
	sort.Strings(ks)
	return "{" + strings.Join(ks, ",") + "}"
}

func metaQueries() []*query {
	var qs []*query
	add := func(kind, arg, svc, node string, f func(st *state.Store, ws memdb.WatchSet) (uint64, any, error)) {
		qs = append(qs, &query{Kind: kind, Arg: arg, Service: svc, Node: node, Run: func(st *state.Store, ws memdb.WatchSet) (uint64, string) {
			idx, v, err := f(st, ws)
			if err != nil {
				return idx, "err=" + fmt.Sprintf("%q", err.Error())
			}
			return idx, canonSorted(v)
		}})
	}
	add("Nodes", "", "", "", func(st *state.Store, ws memdb.WatchSet) (uint64, any, error) { return x3(st.Nodes(ws, nil, "")) })
	for _, f := range metaFilters {
		f := f
		arg := showMeta(f)
		add("NodesByMeta", arg, "", "", func(st *state.Store, ws memdb.WatchSet) (uint64, any, error) {
			return x3(st.NodesByMeta(ws, f, nil, ""))
		})
		add("ServicesByNodeMeta", arg, "", "", func(st *state.Store, ws memdb.WatchSet) (uint64, any, error) {
			return x3(st.ServicesByNodeMeta(ws, f, nil, ""))
		})
		for _, s := range []string{"any", "passing"} {
			s := s
			add("ChecksInStateByNodeMeta", s+","+arg, "", "", func(st *state.Store, ws memdb.WatchSet) (uint64, any, error) {
				return x3(st.ChecksInStateByNodeMeta(ws, s, f, nil, ""))
			})
		}
		for _, s := range tagServices {
			s := s
			add("ServiceChecksByNodeMeta", s+","+arg, s, "", func(st *state.Store, ws memdb.WatchSet) (uint64, any, error) {
				return x3(st.ServiceChecksByNodeMeta(ws, s, f, nil, ""))
			})
		}
	}
	for _, s := range tagServices {
		s := s
		add("CombinedCheckServiceNodes", s, s, "", func(st *state.Store, ws memdb.WatchSet) (uint64, any, error) {
			return x3(st.CombinedCheckServiceNodes(ws, structs.NewServiceName(s, nil), ""))
		})
		for _, n := range metaNodes[:2] {
			n := n
			add("NodeService", n+","+s, s, n, func(st *state.Store, ws memdb.WatchSet) (uint64, any, error) {
				return x3(st.NodeService(ws, n, s, nil, ""))
			})
		}
	}
	for _, a := range metaAddrs {
		a := a
		add("ServiceAddressNodes", a, "", "", func(st *state.Store, ws memdb.WatchSet) (uint64, any, error) {
			return x3(st.ServiceAddressNodes(ws, a, structs.DefaultEnterpriseMetaInDefaultPartition(), ""))
		})
	}
	return qs
}

type metaGen struct{ r *hx.RNG }

func (g *metaGen) meta() map[string]string {
	m := metaPool[g.r.Intn(len(metaPool))]
	if m == nil {
		return nil
	}
	out := map[string]string{}
	for k, v := range m {
		out[k] = v
	}
	return out
}

// metaReg registers node `node` with meta `meta`, optionally an instance (id = name) and a check
func metaReg(node string, meta map[string]string, svc, svcAddr, chk, status string) entry {
	req := structs.RegisterRequest{Datacenter: "dc1", Node: node, Address: "127.0.0.1", NodeMeta: meta}
	d := fmt.Sprintf("register node=%s meta=%s", node, showMeta(meta))
	if svc != "" {
		req.Service = &structs.NodeService{ID: svc, Service: svc, Port: 8000, Address: svcAddr}
		d += fmt.Sprintf(" svc=%s addr=%q", svc, svcAddr)
	}
	if chk != "" {
		req.Check = &structs.HealthCheck{Node: node, CheckID: types.CheckID(chk), Name: "chk", Status: status}
		if svc != "" {
			req.Check.CheckID = types.CheckID("chk:" + svc)
			req.Check.ServiceID = svc
		}
		d += fmt.Sprintf(" chk=%s/%s", req.Check.CheckID, status)
	}
	return entry{data: enc(structs.RegisterRequestType, &req), kind: "register", desc: d}
}

func (g *metaGen) next() entry {
	r := g.r
	node := hx.Pick(r, metaNodes)
	status := hx.Pick(r, []string{api.HealthPassing, api.HealthPassing, api.HealthCritical})
	switch k := r.Intn(100); {
	case k < 35: // (re-)register the node: its meta may change
		chk := ""
		if r.Chance(35) {
			chk = "node-chk"
		}
		return metaReg(node, g.meta(), "", "", chk, status)
	case k < 60: // … with an instance (and a check of it)
		chk := ""
		if r.Chance(50) {
			chk = "x"
		}
		addr := ""
		if r.Chance(50) {
			addr = hx.Pick(r, metaAddrs[:2])
		}
		return metaReg(node, g.meta(), hx.Pick(r, tagServices), addr, chk, status)
	case k < 75:
		return wDereg(node)
	case k < 85:
		return tagDeregSvc(node, hx.Pick(r, tagServices))
	case k < 92: // the node row through a transaction
		n := structs.Node{Node: node, Address: "127.0.0.1", Datacenter: "dc1", Meta: g.meta()}
		req := structs.TxnRequest{Datacenter: "dc1", Ops: structs.TxnOps{&structs.TxnOp{Node: &structs.TxnNodeOp{Verb: api.NodeSet, Node: n}}}}
		return entry{data: enc(structs.TxnRequestType, &req), kind: "txn", desc: fmt.Sprintf("txn node:set %s meta=%s", node, showMeta(n.Meta))}
	default: // a check flips
		svc := hx.Pick(r, tagServices)
		c := structs.HealthCheck{Node: node, CheckID: types.CheckID("chk:" + svc), Name: "chk", ServiceID: svc, Status: status}
		req := structs.TxnRequest{Datacenter: "dc1", Ops: structs.TxnOps{&structs.TxnOp{Check: &structs.TxnCheckOp{Verb: api.CheckSet, Check: c}}}}
		return entry{data: enc(structs.TxnRequestType, &req), kind: "txn", desc: fmt.Sprintf("txn chk:set node=%s chk:%s=%s", node, svc, status)}
	}
}

// metaScenarios: fixed histories of the family, run on every seed.
func metaScenarios() [][]entry {
	r1, r2 := map[string]string{"rack": "r1"}, map[string]string{"rack": "r2"}
	three := []entry{metaReg("n1", r1, "web", "10.0.0.1", "x", api.HealthPassing), metaReg("n2", r1, "web", "", "x", api.HealthPassing),
		metaReg("n3", r1, "", "", "node-chk", api.HealthPassing)}
	cat := func(xs ...[]entry) (out []entry) {
		for _, x := range xs {
			out = append(out, x...)
		}
		return
	}
	return [][]entry{
		// matching nodes are deregistered one by one, the most recently modified first
		cat(three, []entry{wDereg("n3"), wDereg("n2"), wDereg("n1")}),
		// … the oldest first
		cat(three, []entry{wDereg("n1"), wDereg("n2"), wDereg("n3")}),
		// a matching node is re-registered with meta that no longer matches, then with matching meta again
		cat(three, []entry{metaReg("n3", r2, "", "", "", ""), metaReg("n2", r2, "web", "", "", ""), metaReg("n3", r1, "", "", "", "")}),
		// the same through a transaction
		cat(three, []entry{{data: enc(structs.TxnRequestType, &structs.TxnRequest{Datacenter: "dc1", Ops: structs.TxnOps{&structs.TxnOp{Node: &structs.TxnNodeOp{
			Verb: api.NodeSet, Node: structs.Node{Node: "n2", Address: "127.0.0.1", Datacenter: "dc1", Meta: r2}}}}}), kind: "txn", desc: "txn node:set n2 meta={rack:r2}"}}),
	}
}

func metaHistories(run *hx.Run, n, maxOps int) {
	qs := metaQueries()
	run.Extra["meta_queries"] = len(qs)
	scen := metaScenarios()
	for i := 0; i < len(scen)+n; i++ {
		r := run.RNG.Fork(uint64(8000000 + i))
		w := newWideWorld()
		srv := consul.NewVerifC06Server(w.F, 5*time.Second)
		sw := newSweep(w.Store(), qs)
		sw.twice, sw.run = true, run
		g := &metaGen{r: r}
		var descs []string
		replay := func() []string { return append([]string(nil), descs...) }
		idx := uint64(1 + r.Intn(3))
		nontrv := false
		e2e := i < len(scen) || i%3 == 0
		steps := 4 + r.Intn(maxOps)
		if i < len(scen) {
			steps = len(scen[i])
			run.Tag("meta-history:scenario")
		} else {
			run.Tag("meta-history:generated")
		}
		for k := 0; k < steps; k++ {
			idx += 1 + uint64(r.Intn(100)/85*r.Intn(4))
			if i >= len(scen) && k > 3 && r.Chance(3) {
				descs = append(descs, fmt.Sprintf("@%d snapshot + restore", idx))
				restoreStep(run, w, srv, sw, r, replay)
				continue
			}
			var e entry
			if i < len(scen) {
				e = scen[i][k]
			} else {
				e = g.next()
			}
			e.idx = idx
			before, gwBefore := w.Store().VerifStoreTables(), gatewayRows(w)
			var bs []*blocked
			if e2e {
				for j, q := range qs {
					if r.Chance(8) {
						bs = append(bs, block(srv, q, sw.last[j]))
					}
				}
			}
			res := applyEntry(w, e)
			after, gwAfter := w.Store().VerifStoreTables(), gatewayRows(w)
			descs = append(descs, fmt.Sprintf("@%d %s => %s", e.idx, e.desc, clip(res, 80)))
			run.Tag("meta-op:" + e.kind)
			wi := &writeInfo{kind: e.kind, desc: e.desc}
			wi.shape = func(q *query, ob, oa obs) string {
				return shapeOfWide(q, e.trees, &before, &after, gwBefore, gwAfter, ob, oa)
			}
			sw.across(run, w.Store(), wi, replay, func(v *verdict) {
				if v.changed {
					nontrv = true
					if strings.HasSuffix(v.q.Kind, "Meta") && len(v.after.res) < len(v.before.res) && v.after.res != "[]" {
						run.Tag("meta-family:filtered-result-shrunk-not-emptied:" + v.q.Kind)
					}
				}
			})
			settle(run, bs, wi, replay)
		}
		run.Case("meta\n"+strings.Join(descs, "\n"), nontrv)
	}
}
