//go:build verif

package main

import (
	"fmt"
	"sort"
	"strings"
	"time"

	"github.com/hashicorp/go-memdb"

	"github.com/hashicorp/consul/agent/consul/state"
	"github.com/hashicorp/consul/agent/structs"
	"github.com/hashicorp/consul/internal/verifharness/hx"
	"github.com/hashicorp/consul/internal/verifharness/storex"
)

// A query of the query set: evaluated before and after every write.
type query struct {
	Kind   string // the store function, for tags and signatures
	Arg    string // printable argument(s), for witnesses
	Tokens string // line-protocol tokens after `q` / `qa <fired>`; "" = not in the Lean model (monitor only)
	Run    func(st *state.Store, ws memdb.WatchSet) (uint64, string)
	// classification help for the monitor (which part of the name universe the query is about)
	Key, Node, Service, Peer string
}

func (q *query) name() string {
	if q.Arg == "" {
		return q.Kind
	}
	return q.Kind + "(" + q.Arg + ")"
}

// ---------------------------------------------------------------- canonical rows (= CV.Engine.StoreCore / CV.Engine.C06)

func showKV(e *structs.DirEntry) string {
	return fmt.Sprintf("%s;%s;%d;%s;%d;%d;%d", hx.EncS(e.Key), hx.EncB(e.Value), e.Flags, hx.EncS(e.Session), e.LockIndex, e.CreateIndex, e.ModifyIndex)
}

func plusList(ss []string) string {
	if len(ss) == 0 {
		return "-"
	}
	t := make([]string, len(ss))
	for i, s := range ss {
		t[i] = hx.EncS(s)
	}
	return strings.Join(t, "+")
}

func showSess(x *structs.Session) string {
	var cs []string
	for _, c := range x.CheckIDs() {
		cs = append(cs, string(c))
	}
	return fmt.Sprintf("%s;%s;%s;%s;%s;%d;%d;%d", hx.EncS(x.ID), hx.EncS(x.Node), hx.EncS(x.Name), string(x.Behavior),
		plusList(cs), int(x.LockDelay/time.Second), x.CreateIndex, x.ModifyIndex)
}

func showNode(n *structs.Node) string {
	return fmt.Sprintf("%s;%s;%s;%d;%d", hx.EncS(n.Node), hx.EncS(string(n.ID)), hx.EncS(n.Address), n.CreateIndex, n.ModifyIndex)
}

func showSvc(v *structs.ServiceNode) string {
	return fmt.Sprintf("%s;%s;%s;%d;%d;%d", hx.EncS(v.Node), hx.EncS(v.ServiceID), hx.EncS(v.ServiceName), v.ServicePort, v.CreateIndex, v.ModifyIndex)
}

// a joined row (parseServiceNodes): the service row plus the node's ID and address
func showSvcNode(v *structs.ServiceNode) string {
	return showSvc(v) + ";" + hx.EncS(string(v.ID)) + ";" + hx.EncS(v.Address)
}

func showNodeSvc(v *structs.NodeService) string {
	return fmt.Sprintf("%s;%s;%d;%d;%d", hx.EncS(v.ID), hx.EncS(v.Service), v.Port, v.CreateIndex, v.ModifyIndex)
}

func showChk(c *structs.HealthCheck) string {
	return fmt.Sprintf("%s;%s;%s;%s;%s;%s;%s;%s;%d;%d", hx.EncS(c.Node), hx.EncS(string(c.CheckID)), hx.EncS(c.Status), hx.EncS(c.ServiceID),
		hx.EncS(c.ServiceName), hx.EncS(c.Type), hx.EncS(c.Definition.SessionName), hx.EncS(c.Output), c.CreateIndex, c.ModifyIndex)
}

func showPQ(q *structs.PreparedQuery) string {
	return fmt.Sprintf("%s;%s;%d;%d", hx.EncS(q.ID), hx.EncS(q.Session), q.CreateIndex, q.ModifyIndex)
}

func list[T any](xs []T, f func(T) string) string {
	t := make([]string, len(xs))
	for i, x := range xs {
		t[i] = f(x)
	}
	return hx.EncList(t)
}

func tilde(ts []string) string {
	if len(ts) == 0 {
		return "-"
	}
	return strings.Join(ts, "~")
}

func showCSN(x structs.CheckServiceNode) string {
	cs := make([]string, len(x.Checks))
	for i, c := range x.Checks {
		cs[i] = showChk(c)
	}
	return showNode(x.Node) + "|" + showNodeSvc(x.Service) + "|" + tilde(cs)
}

func errRes(err error) string { return "err:" + storex.MapErr(err) }

// guard turns a panic of a read path into a canonical answer (none is expected)
func guard(f func() (uint64, string)) (idx uint64, res string) {
	defer func() {
		if r := recover(); r != nil {
			idx, res = 0, "panic("+hx.EncS(fmt.Sprint(r))+")"
		}
	}()
	return f()
}

// collapseKeys is the loop of KVS.ListKeys (agent/consul/kvs_endpoint.go), copied: the endpoint needs a
// running server; its input is exactly the KVSList result.
func collapseKeys(prefix, sep string, ents structs.DirEntries) []string {
	prefixLen, sepLen := len(prefix), len(sep)
	var keys []string
	seen := map[string]bool{}
	for _, e := range ents {
		if sepLen == 0 {
			keys = append(keys, e.Key)
			continue
		}
		after := e.Key[prefixLen:]
		if i := strings.Index(after, sep); i > -1 {
			key := e.Key[:prefixLen+i+sepLen]
			if !seen[key] {
				keys = append(keys, key)
				seen[key] = true
			}
		} else {
			keys = append(keys, e.Key)
		}
	}
	return keys
}

// ---------------------------------------------------------------- the modelled query set

type universe struct {
	Keys, Prefixes         []string
	KeySeps                [][2]string
	Sessions, Nodes, Names []string
	States, Tags, PQ       []string
}

func modelledQueries(u *universe) []*query {
	var qs []*query
	add := func(q *query) { qs = append(qs, q) }
	for _, k := range u.Keys {
		k := k
		add(&query{Kind: "KVSGet", Arg: fmt.Sprintf("%q", k), Key: k, Tokens: "kvget " + hx.EncS(k), Run: func(st *state.Store, ws memdb.WatchSet) (uint64, string) {
			idx, e, err := st.KVSGet(ws, k, nil)
			switch {
			case err != nil:
				return idx, errRes(err)
			case e == nil:
				return idx, "-"
			}
			return idx, showKV(e)
		}})
	}
	for _, p := range u.Prefixes {
		p := p
		add(&query{Kind: "KVSList", Arg: fmt.Sprintf("%q", p), Key: p, Tokens: "kvlist " + hx.EncS(p), Run: func(st *state.Store, ws memdb.WatchSet) (uint64, string) {
			idx, es, err := st.KVSList(ws, p, nil)
			if err != nil {
				return idx, errRes(err)
			}
			return idx, list([]*structs.DirEntry(es), showKV)
		}})
	}
	for _, ps := range u.KeySeps {
		p, sep := ps[0], ps[1]
		add(&query{Kind: "KVSListKeys", Arg: fmt.Sprintf("%q,%q", p, sep), Key: p, Tokens: "kvkeys " + hx.EncS(p) + " " + hx.EncS(sep), Run: func(st *state.Store, ws memdb.WatchSet) (uint64, string) {
			idx, es, err := st.KVSList(ws, p, nil)
			if err != nil {
				return idx, errRes(err)
			}
			return idx, list(collapseKeys(p, sep, es), hx.EncS)
		}})
	}
	for _, id := range u.Sessions {
		id := id
		add(&query{Kind: "SessionGet", Arg: id, Tokens: "sessget " + hx.EncS(id), Run: func(st *state.Store, ws memdb.WatchSet) (uint64, string) {
			idx, x, err := st.SessionGet(ws, id, nil)
			switch {
			case err != nil:
				return idx, errRes(err)
			case x == nil:
				return idx, "-"
			}
			return idx, showSess(x)
		}})
	}
	add(&query{Kind: "SessionList", Tokens: "sesslist", Run: func(st *state.Store, ws memdb.WatchSet) (uint64, string) {
		idx, xs, err := st.SessionList(ws, nil)
		if err != nil {
			return idx, errRes(err)
		}
		return idx, list([]*structs.Session(xs), showSess)
	}})
	add(&query{Kind: "Nodes", Tokens: "nodes", Run: func(st *state.Store, ws memdb.WatchSet) (uint64, string) {
		idx, ns, err := st.Nodes(ws, nil, "")
		if err != nil {
			return idx, errRes(err)
		}
		return idx, list([]*structs.Node(ns), showNode)
	}})
	add(&query{Kind: "Services", Tokens: "services", Run: func(st *state.Store, ws memdb.WatchSet) (uint64, string) {
		idx, vs, err := st.Services(ws, nil, "", false)
		if err != nil {
			return idx, errRes(err)
		}
		return idx, list([]*structs.ServiceNode(vs), showSvc)
	}})
	add(&query{Kind: "ServicesJoined", Tokens: "servicesjoin", Run: func(st *state.Store, ws memdb.WatchSet) (uint64, string) {
		idx, vs, err := st.Services(ws, structs.DefaultEnterpriseMetaInDefaultPartition(), "", true)
		if err != nil {
			return idx, errRes(err)
		}
		return idx, list([]*structs.ServiceNode(vs), showSvcNode)
	}})
	for _, n := range u.Nodes {
		n := n
		add(&query{Kind: "NodeSessions", Arg: n, Node: n, Tokens: "nodesess " + hx.EncS(n), Run: func(st *state.Store, ws memdb.WatchSet) (uint64, string) {
			idx, xs, err := st.NodeSessions(ws, n, nil)
			if err != nil {
				return idx, errRes(err)
			}
			return idx, list([]*structs.Session(xs), showSess)
		}})
		add(&query{Kind: "NodeServices", Arg: n, Node: n, Tokens: "nodesvcs " + hx.EncS(n), Run: func(st *state.Store, ws memdb.WatchSet) (uint64, string) {
			idx, ns, err := st.NodeServices(ws, n, nil, "")
			switch {
			case err != nil:
				return idx, errRes(err)
			case ns == nil:
				return idx, "-"
			}
			ids := make([]string, 0, len(ns.Services))
			for id := range ns.Services {
				ids = append(ids, id)
			}
			sort.Slice(ids, func(i, j int) bool { return strings.ToLower(ids[i]) < strings.ToLower(ids[j]) })
			ts := make([]string, len(ids))
			for i, id := range ids {
				ts[i] = showNodeSvc(ns.Services[id])
			}
			return idx, showNode(ns.Node) + "|" + tilde(ts)
		}})
		add(&query{Kind: "NodeServiceList", Arg: n, Node: n, Tokens: "nodesvclist " + hx.EncS(n), Run: func(st *state.Store, ws memdb.WatchSet) (uint64, string) {
			idx, ns, err := st.NodeServiceList(ws, n, nil, "")
			switch {
			case err != nil:
				return idx, errRes(err)
			case ns == nil:
				return idx, "-"
			}
			ts := make([]string, len(ns.Services))
			for i, v := range ns.Services {
				ts[i] = showNodeSvc(v)
			}
			return idx, showNode(ns.Node) + "|" + tilde(ts)
		}})
		add(&query{Kind: "NodeChecks", Arg: n, Node: n, Tokens: "nodechecks " + hx.EncS(n), Run: func(st *state.Store, ws memdb.WatchSet) (uint64, string) {
			idx, cs, err := st.NodeChecks(ws, n, nil, "")
			if err != nil {
				return idx, errRes(err)
			}
			return idx, list([]*structs.HealthCheck(cs), showChk)
		}})
	}
	for _, s := range u.Names {
		s := s
		add(&query{Kind: "ServiceNodes", Arg: s, Service: s, Tokens: "svcnodes " + hx.EncS(s), Run: func(st *state.Store, ws memdb.WatchSet) (uint64, string) {
			idx, vs, err := st.ServiceNodes(ws, s, nil, "")
			if err != nil {
				return idx, errRes(err)
			}
			return idx, list([]*structs.ServiceNode(vs), showSvcNode)
		}})
		add(&query{Kind: "ConnectServiceNodes", Arg: s, Service: s, Tokens: "connectnodes " + hx.EncS(s), Run: func(st *state.Store, ws memdb.WatchSet) (uint64, string) {
			idx, vs, err := st.ConnectServiceNodes(ws, s, nil, "")
			if err != nil {
				return idx, errRes(err)
			}
			return idx, list([]*structs.ServiceNode(vs), showSvcNode)
		}})
		for _, tag := range u.Tags {
			tag := tag
			add(&query{Kind: "ServiceTagNodes", Arg: s + "," + tag, Service: s, Tokens: "tagnodes " + hx.EncS(s) + " " + hx.EncS(tag), Run: func(st *state.Store, ws memdb.WatchSet) (uint64, string) {
				idx, vs, err := st.ServiceTagNodes(ws, s, []string{tag}, nil, "")
				if err != nil {
					return idx, errRes(err)
				}
				return idx, list([]*structs.ServiceNode(vs), showSvcNode)
			}})
			add(&query{Kind: "CheckServiceTagNodes", Arg: s + "," + tag, Service: s, Tokens: "csntag " + hx.EncS(s) + " " + hx.EncS(tag), Run: func(st *state.Store, ws memdb.WatchSet) (uint64, string) {
				idx, vs, err := st.CheckServiceTagNodes(ws, s, []string{tag}, nil, "")
				if err != nil {
					return idx, errRes(err)
				}
				return idx, list([]structs.CheckServiceNode(vs), showCSN)
			}})
		}
		add(&query{Kind: "ServiceChecks", Arg: s, Service: s, Tokens: "svcchecks " + hx.EncS(s), Run: func(st *state.Store, ws memdb.WatchSet) (uint64, string) {
			idx, cs, err := st.ServiceChecks(ws, s, nil, "")
			if err != nil {
				return idx, errRes(err)
			}
			return idx, list([]*structs.HealthCheck(cs), showChk)
		}})
		add(&query{Kind: "CheckServiceNodes", Arg: s, Service: s, Tokens: "csn " + hx.EncS(s), Run: func(st *state.Store, ws memdb.WatchSet) (uint64, string) {
			idx, vs, err := st.CheckServiceNodes(ws, s, nil, "")
			if err != nil {
				return idx, errRes(err)
			}
			return idx, list([]structs.CheckServiceNode(vs), showCSN)
		}})
		add(&query{Kind: "CheckConnectServiceNodes", Arg: s, Service: s, Tokens: "csnconnect " + hx.EncS(s), Run: func(st *state.Store, ws memdb.WatchSet) (uint64, string) {
			idx, vs, err := st.CheckConnectServiceNodes(ws, s, nil, "")
			if err != nil {
				return idx, errRes(err)
			}
			return idx, list([]structs.CheckServiceNode(vs), showCSN)
		}})
	}
	for _, s := range u.States {
		s := s
		add(&query{Kind: "ChecksInState", Arg: s, Tokens: "checksinstate " + hx.EncS(s), Run: func(st *state.Store, ws memdb.WatchSet) (uint64, string) {
			idx, cs, err := st.ChecksInState(ws, s, nil, "")
			if err != nil {
				return idx, errRes(err)
			}
			return idx, list([]*structs.HealthCheck(cs), showChk)
		}})
	}
	for _, id := range u.PQ {
		id := id
		add(&query{Kind: "PreparedQueryGet", Arg: id, Tokens: "pqget " + hx.EncS(id), Run: func(st *state.Store, ws memdb.WatchSet) (uint64, string) {
			idx, q, err := st.PreparedQueryGet(ws, id)
			switch {
			case err != nil:
				return idx, errRes(err)
			case q == nil:
				return idx, "-"
			}
			return idx, showPQ(q)
		}})
	}
	add(&query{Kind: "PreparedQueryList", Tokens: "pqlist", Run: func(st *state.Store, ws memdb.WatchSet) (uint64, string) {
		idx, qs, err := st.PreparedQueryList(ws)
		if err != nil {
			return idx, errRes(err)
		}
		return idx, list([]*structs.PreparedQuery(qs), showPQ)
	}})
	return qs
}
