//go:build verif

package main

import (
	"fmt"
	"time"

	"github.com/hashicorp/serf/coordinate"
	"google.golang.org/protobuf/types/known/timestamppb"

	"github.com/hashicorp/consul/agent/consul/state"
	"github.com/hashicorp/consul/agent/structs"
	"github.com/hashicorp/consul/api"
	"github.com/hashicorp/consul/internal/verifharness/hx"
	"github.com/hashicorp/consul/proto-public/pbresource"
	"github.com/hashicorp/consul/proto/private/pbpeering"
	"github.com/hashicorp/consul/proto/private/pbstorage"
	"github.com/hashicorp/consul/types"
)

// Part B generator: histories over the whole FSM command set. Adapted from the C02 harness
// (internal/verifharness/c02/gen.go) — same command families and name pools; C06 adds the prefixes of
// delete-tree verbs to each entry (for witness classification) and a one-letter node name.
// xuniverse: small name pools chosen to collide (case, prefixes, NUL, non-ASCII).
type xuniverse struct {
	nodeNames, nodeIDs, serviceNames, gatewayNames, checkIDs []string
	keys, prefixes, sessionIDs                               []string
	peerNames, peerIDs, secretIDs                            []string
	tokenAccessors, tokenSecrets, policyIDs, roleIDs         []string
	ruleIDs, methodNames                                     []string
	queryIDs, queryNames, caProviderIDs, caRootIDs           []string
	ixnIDs, dcs, sysKeys, resNames                           []string
}

func uuidN(prefix byte, n int) string {
	return fmt.Sprintf("%02x000000-0000-4000-8000-%012d", prefix, n)
}
func uuids(prefix byte, n int) []string {
	out := make([]string, n)
	for i := range out {
		out[i] = uuidN(prefix, i+1)
	}
	return out
}

func newXUniverse() *xuniverse {
	return &xuniverse{
		nodeNames:      []string{"n1", "n2", "N1", "n3", "m"},
		nodeIDs:        append(uuids(0xa0, 3), ""),
		serviceNames:   []string{"web", "api", "db", "Web", "web-v1"},
		gatewayNames:   []string{"ingress-gw", "term-gw", "mesh-gw", "api-gw"},
		checkIDs:       []string{"c1", "c2", "serfHealth", "service:web"},
		keys:           []string{"", "a", "a/", "a/b", "a/b/", "a/bc", "ab", "a\x00", "é", "A", "\x00a", "\x00ab"},
		prefixes:       []string{"", "a", "a/", "a/b", "b", "é", "\x00a", "\x00"},
		sessionIDs:     append(uuids(0xb0, 6), uuidN(0xb9, 1)),
		peerNames:      []string{"peer1", "peer2", "peer3"},
		peerIDs:        uuids(0xc0, 3),
		secretIDs:      uuids(0xc1, 5),
		tokenAccessors: uuids(0xd0, 4),
		tokenSecrets:   uuids(0xd1, 4),
		policyIDs:      uuids(0xd2, 3),
		roleIDs:        uuids(0xd3, 3),
		ruleIDs:        uuids(0xd4, 3),
		methodNames:    []string{"m1", "m2"},
		queryIDs:       uuids(0xe0, 3),
		queryNames:     []string{"", "q1", "q2", "geo-"},
		caProviderIDs:  []string{"prov1", "prov2"},
		caRootIDs:      []string{"root-a", "root-b", "root-c"},
		ixnIDs:         uuids(0xe1, 3),
		dcs:            []string{"dc1", "dc2", "dc3"},
		sysKeys:        []string{structs.SystemMetadataVirtualIPsEnabled, structs.SystemMetadataIntentionFormatKey, "k1", "k2"},
		resNames:       []string{"r1", "r2", "r3"},
	}
}

// entry is one committed Raft log entry: the exact bytes handed to FSM.Apply on every replica.
type entry struct {
	idx  uint64
	data []byte
	kind string // message family (tag)
	desc string // human-readable summary for replays
	// service names / ids this entry registers (only used to tell the case-folding mechanism apart)
	svcNames []string
	trees    []string // prefixes of the delete-tree verbs in this entry
}

func enc(t structs.MessageType, req any) []byte {
	b, err := structs.Encode(t, req)
	if err != nil {
		panic(fmt.Sprintf("encode %v: %v", t, err))
	}
	return b
}

type gen struct {
	r *hx.RNG
	u *xuniverse
	// coarse knowledge of what exists, to bias towards meaningful commands (the real state decides)
	haveVIPFlag bool
	idx         uint64
	fixedTime   time.Time
	// session ids are chosen by the server (Session.Apply generates a fresh UUID per create): a create never
	// reuses an id, everything else refers to ids created earlier
	sessionsMade int
	// the real store of the running history (nil = blind generation only): the state-aware commands of
	// xexisting.go read it to aim at rows that exist
	store     func() *state.Store
	clusterID string
}

func (g *gen) freshSessionID() string {
	g.sessionsMade++
	return uuidN(0xb0, g.sessionsMade)
}

// someSessionID: an id created earlier in this history (mostly), or one that never existed
func (g *gen) someSessionID() string {
	if g.sessionsMade == 0 || g.r.Chance(10) {
		return uuidN(0xb9, 1+g.r.Intn(2))
	}
	return uuidN(0xb0, 1+g.r.Intn(g.sessionsMade))
}

func (g *gen) pick(xs []string) string { return hx.Pick(g.r, xs) }

func (g *gen) anyService() string {
	if g.r.Chance(25) {
		return g.pick(g.u.gatewayNames)
	}
	return g.pick(g.u.serviceNames)
}

// ---------------------------------------------------------------- catalog

func (g *gen) nodeService() *structs.NodeService {
	r := g.r
	name := g.pick(g.u.serviceNames)
	ns := &structs.NodeService{ID: name, Service: name, Port: 8000 + r.Intn(3)}
	if r.Chance(25) {
		ns.ID = name + "-" + fmt.Sprint(r.Intn(2))
	}
	if r.Chance(30) {
		ns.Tags = []string{g.pick([]string{"v1", "v2", "primary"})}
	}
	if r.Chance(20) {
		ns.Meta = map[string]string{"m": g.pick([]string{"1", "2"})}
	}
	if r.Chance(15) {
		ns.Address = "10.0.0." + fmt.Sprint(1+r.Intn(3))
	}
	if r.Chance(10) {
		ns.Weights = &structs.Weights{Passing: 1 + r.Intn(3), Warning: 1}
	}
	if r.Chance(10) {
		ns.TaggedAddresses = map[string]structs.ServiceAddress{"lan": {Address: "10.1.1.1", Port: 80}}
	}
	switch k := r.Intn(100); {
	case k < 45: // typical
		if r.Chance(30) {
			ns.Connect.Native = true
		}
	case k < 65: // sidecar proxy
		ns.Kind = structs.ServiceKindConnectProxy
		ns.Service = name + "-sidecar-proxy"
		ns.ID = ns.Service
		ns.Proxy.DestinationServiceName = name
		if r.Chance(40) {
			ns.Proxy.DestinationServiceID = name
		}
		if r.Chance(40) {
			up := structs.Upstream{DestinationName: g.pick(g.u.serviceNames), LocalBindPort: 9000 + r.Intn(3)}
			if r.Chance(25) {
				up.DestinationPeer = g.pick(g.u.peerNames)
			}
			ns.Proxy.Upstreams = structs.Upstreams{up}
		}
		if r.Chance(20) {
			ns.Proxy.Mode = structs.ProxyModeTransparent
		}
	case k < 75:
		ns.Kind = structs.ServiceKindTerminatingGateway
		ns.Service, ns.ID = "term-gw", "term-gw"
	case k < 85:
		ns.Kind = structs.ServiceKindIngressGateway
		ns.Service, ns.ID = "ingress-gw", "ingress-gw"
	case k < 93:
		ns.Kind = structs.ServiceKindMeshGateway
		ns.Service, ns.ID = "mesh-gw", "mesh-gw"
		ns.Port = 8443
	default:
		ns.Kind = structs.ServiceKindAPIGateway
		ns.Service, ns.ID = "api-gw", "api-gw"
	}
	return ns
}

func (g *gen) healthCheck(node string, svc *structs.NodeService) *structs.HealthCheck {
	r := g.r
	hc := &structs.HealthCheck{Node: node, CheckID: types.CheckID(g.pick(g.u.checkIDs)), Name: "chk",
		Status: g.pick([]string{api.HealthPassing, api.HealthPassing, api.HealthWarning, api.HealthCritical})}
	if hc.CheckID == "serfHealth" {
		hc.Name = "Serf Health Status"
	}
	if r.Chance(30) {
		hc.Output = g.pick([]string{"ok", "timeout"})
	}
	if r.Chance(10) {
		hc.Type = g.pick([]string{"ttl", "http"})
	}
	if svc != nil && r.Chance(70) {
		hc.ServiceID = svc.ID
	} else if r.Chance(25) {
		hc.ServiceID = g.pick(g.u.serviceNames)
	}
	return hc
}

func (g *gen) register() entry {
	r := g.r
	req := structs.RegisterRequest{Datacenter: "dc1", Node: g.pick(g.u.nodeNames), Address: "127.0.0." + fmt.Sprint(1+r.Intn(3))}
	if r.Chance(70) {
		req.ID = types.NodeID(g.pick(g.u.nodeIDs))
	}
	if r.Chance(20) {
		req.NodeMeta = map[string]string{"rack": g.pick([]string{"r1", "r2"})}
	}
	if r.Chance(15) {
		req.TaggedAddresses = map[string]string{"wan": "1.2.3." + fmt.Sprint(r.Intn(4))}
	}
	if r.Chance(12) {
		req.PeerName = g.pick(g.u.peerNames)
	}
	if r.Chance(10) {
		req.SkipNodeUpdate = true
	}
	if r.Chance(8) {
		req.Locality = &structs.Locality{Region: "us-east-1", Zone: "a"}
	}
	if r.Chance(75) {
		req.Service = g.nodeService()
		req.Service.PeerName = req.PeerName
	}
	if r.Chance(45) {
		hc := g.healthCheck(req.Node, req.Service)
		hc.PeerName = req.PeerName
		if r.Chance(70) {
			req.Check = hc
		} else {
			hc2 := g.healthCheck(req.Node, req.Service)
			hc2.PeerName = req.PeerName
			req.Checks = structs.HealthChecks{hc, hc2}
		}
	}
	d := fmt.Sprintf("register node=%s id=%s peer=%q", req.Node, req.ID, req.PeerName)
	if req.Service != nil {
		d += fmt.Sprintf(" svc=%s/%s kind=%q", req.Service.ID, req.Service.Service, req.Service.Kind)
	}
	if req.Check != nil {
		d += fmt.Sprintf(" chk=%s/%s svcid=%q", req.Check.CheckID, req.Check.Status, req.Check.ServiceID)
	}
	e := entry{data: enc(structs.RegisterRequestType, &req), kind: "register", desc: d}
	if req.Service != nil {
		e.svcNames = []string{req.Service.Service, req.Service.ID, req.Service.Proxy.DestinationServiceName}
	}
	return e
}

func (g *gen) deregister() entry {
	r := g.r
	req := structs.DeregisterRequest{Datacenter: "dc1", Node: g.pick(g.u.nodeNames)}
	if r.Chance(12) {
		req.PeerName = g.pick(g.u.peerNames)
	}
	switch r.Intn(3) {
	case 0:
		req.ServiceID = g.anyService()
		if r.Chance(25) {
			req.ServiceID += "-sidecar-proxy"
		}
	case 1:
		req.CheckID = types.CheckID(g.pick(g.u.checkIDs))
	}
	return entry{data: enc(structs.DeregisterRequestType, &req), kind: "deregister",
		desc: fmt.Sprintf("deregister node=%s svc=%q chk=%q peer=%q", req.Node, req.ServiceID, req.CheckID, req.PeerName)}
}

func (g *gen) coordinates() entry {
	r := g.r
	var cs structs.Coordinates
	for i := 0; i < 1+r.Intn(2); i++ {
		c := coordinate.NewCoordinate(coordinate.DefaultConfig())
		c.Vec[0] = float64(r.Intn(100)) / 8
		c.Height = float64(1+r.Intn(5)) / 1024
		co := &structs.Coordinate{Node: g.pick(g.u.nodeNames), Coord: c}
		if r.Chance(20) {
			co.Segment = "alpha"
		}
		cs = append(cs, co)
	}
	return entry{data: enc(structs.CoordinateBatchUpdateType, cs), kind: "coordinate", desc: fmt.Sprintf("coordinates n=%d first=%s", len(cs), cs[0].Node)}
}

// ---------------------------------------------------------------- KV / sessions / txn

func (g *gen) dirEnt() structs.DirEntry {
	r := g.r
	d := structs.DirEntry{Key: g.pick(g.u.keys), Value: []byte(g.pick([]string{"", "v1", "v2", "\x00\xff"})), Flags: uint64(r.Intn(3))}
	if r.Chance(35) {
		d.Session = g.someSessionID()
	}
	return d
}

func (g *gen) casIndex() uint64 {
	switch g.r.Intn(4) {
	case 0:
		return 0
	case 1:
		return g.idx
	case 2:
		if g.idx > 2 {
			return g.idx - uint64(1+g.r.Intn(3))
		}
		return 1
	default:
		return uint64(1 + g.r.Intn(int(g.idx)+2))
	}
}

func (g *gen) kvs() entry {
	r := g.r
	op := hx.Pick(r, []api.KVOp{api.KVSet, api.KVSet, api.KVSet, api.KVDelete, api.KVDeleteCAS, api.KVDeleteTree, api.KVCAS, api.KVLock, api.KVLock, api.KVUnlock, "bogus"})
	req := structs.KVSRequest{Datacenter: "dc1", Op: op, DirEnt: g.dirEnt()}
	if op == api.KVCAS || op == api.KVDeleteCAS {
		req.DirEnt.ModifyIndex = g.casIndex()
	}
	if op == api.KVDeleteTree {
		req.DirEnt.Key = g.pick(g.u.prefixes)
	}
	if (op == api.KVLock || op == api.KVUnlock) && req.DirEnt.Session == "" {
		req.DirEnt.Session = g.someSessionID()
	}
	e := entry{data: enc(structs.KVSRequestType, &req), kind: "kvs-" + string(op),
		desc: fmt.Sprintf("kvs %s key=%q session=%q cas=%d", op, req.DirEnt.Key, req.DirEnt.Session, req.DirEnt.ModifyIndex)}
	if op == api.KVDeleteTree {
		e.trees = []string{req.DirEnt.Key}
	}
	return e
}

func (g *gen) session() structs.Session {
	r := g.r
	s := structs.Session{ID: g.freshSessionID(), Node: g.pick(g.u.nodeNames), Name: g.pick([]string{"", "lock"}),
		Behavior:  hx.Pick(r, []structs.SessionBehavior{structs.SessionKeysRelease, structs.SessionKeysDelete, ""}),
		LockDelay: time.Duration(r.Intn(3)) * time.Second}
	if r.Chance(55) {
		s.Node = "n1" // the node the kv profile registers first, with passing checks c1 and serfHealth
	}
	if r.Chance(20) {
		s.TTL = "30s"
	}
	switch k := r.Intn(100); {
	case k < 35: // no checks
	case k < 60:
		s.NodeChecks = []string{"c1"}
	case k < 72:
		s.NodeChecks = []string{"serfHealth"}
		s.ServiceChecks = []structs.ServiceCheck{{ID: "c1"}}
	case k < 82:
		s.Checks = []types.CheckID{"c1"}
	case k < 92:
		s.NodeChecks = []string{g.pick(g.u.checkIDs)}
	default:
		s.NodeChecks = []string{"serfHealth", "c1"}
	}
	return s
}

func (g *gen) sessionOp() entry {
	r := g.r
	var req structs.SessionRequest
	if r.Chance(30) {
		req = structs.SessionRequest{Datacenter: "dc1", Op: structs.SessionDestroy, Session: structs.Session{ID: g.someSessionID()}}
	} else {
		req = structs.SessionRequest{Datacenter: "dc1", Op: structs.SessionCreate, Session: g.session()}
	}
	return entry{data: enc(structs.SessionRequestType, &req), kind: "session",
		desc: fmt.Sprintf("session %s id=%s node=%s checks=%v/%v/%v", req.Op, req.Session.ID, req.Session.Node, req.Session.NodeChecks, req.Session.ServiceChecks, req.Session.Checks)}
}

func (g *gen) tombstoneReap() entry {
	req := structs.TombstoneRequest{Datacenter: "dc1", Op: structs.TombstoneReap, ReapIndex: g.casIndex()}
	return entry{data: enc(structs.TombstoneRequestType, &req), kind: "tombstone", desc: fmt.Sprintf("reap <= %d", req.ReapIndex)}
}

func (g *gen) txn() entry {
	r := g.r
	var ops structs.TxnOps
	var trees []string
	d := "txn"
	for i := 0; i < 1+r.Intn(3); i++ {
		switch r.Intn(10) {
		case 0, 1, 2, 3, 4:
			verb := hx.Pick(r, []api.KVOp{api.KVSet, api.KVDelete, api.KVDeleteCAS, api.KVDeleteTree, api.KVCAS, api.KVLock, api.KVUnlock,
				api.KVGet, api.KVGetTree, api.KVCheckSession, api.KVCheckIndex, api.KVCheckNotExists})
			de := g.dirEnt()
			if verb == api.KVCAS || verb == api.KVDeleteCAS || verb == api.KVCheckIndex {
				de.ModifyIndex = g.casIndex()
			}
			ops = append(ops, &structs.TxnOp{KV: &structs.TxnKVOp{Verb: verb, DirEnt: de}})
			d += fmt.Sprintf(" kv:%s:%q", verb, de.Key)
			if verb == api.KVDeleteTree {
				trees = append(trees, de.Key)
			}
		case 5:
			verb := hx.Pick(r, []api.NodeOp{api.NodeSet, api.NodeCAS, api.NodeDelete, api.NodeDeleteCAS, api.NodeGet})
			n := structs.Node{Node: g.pick(g.u.nodeNames), ID: types.NodeID(g.pick(g.u.nodeIDs)), Address: "127.0.1.1", Datacenter: "dc1"}
			n.ModifyIndex = g.casIndex()
			ops = append(ops, &structs.TxnOp{Node: &structs.TxnNodeOp{Verb: verb, Node: n}})
			d += fmt.Sprintf(" node:%s:%s", verb, n.Node)
		case 6, 7:
			verb := hx.Pick(r, []api.ServiceOp{api.ServiceSet, api.ServiceCAS, api.ServiceDelete, api.ServiceDeleteCAS, api.ServiceGet})
			s := *g.nodeService()
			s.ModifyIndex = g.casIndex()
			ops = append(ops, &structs.TxnOp{Service: &structs.TxnServiceOp{Verb: verb, Node: g.pick(g.u.nodeNames), Service: s}})
			d += fmt.Sprintf(" svc:%s:%s", verb, s.ID)
		case 8:
			verb := hx.Pick(r, []api.CheckOp{api.CheckSet, api.CheckCAS, api.CheckDelete, api.CheckDeleteCAS, api.CheckGet})
			c := *g.healthCheck(g.pick(g.u.nodeNames), nil)
			c.ModifyIndex = g.casIndex()
			ops = append(ops, &structs.TxnOp{Check: &structs.TxnCheckOp{Verb: verb, Check: c}})
			d += fmt.Sprintf(" chk:%s:%s", verb, c.CheckID)
		default:
			ops = append(ops, &structs.TxnOp{Session: &structs.TxnSessionOp{Verb: api.SessionDelete, Session: structs.Session{ID: g.someSessionID()}}})
			d += " session:delete"
		}
	}
	req := structs.TxnRequest{Datacenter: "dc1", Ops: ops}
	e := entry{data: enc(structs.TxnRequestType, &req), kind: "txn", desc: d, trees: trees}
	for _, op := range ops {
		if op.Service != nil {
			e.svcNames = append(e.svcNames, op.Service.Service.Service, op.Service.Service.ID, op.Service.Service.Proxy.DestinationServiceName)
		}
	}
	return e
}

func (g *gen) preparedQuery() entry {
	r := g.r
	q := &structs.PreparedQuery{ID: g.pick(g.u.queryIDs), Name: g.pick(g.u.queryNames), Service: structs.ServiceQuery{Service: g.pick(g.u.serviceNames)}}
	if r.Chance(30) {
		q.Session = g.someSessionID()
	}
	if q.Name == "geo-" || r.Chance(10) {
		q.Template = structs.QueryTemplateOptions{Type: structs.QueryTemplateTypeNamePrefixMatch}
	}
	if r.Chance(20) {
		q.Service.Failover = structs.QueryFailoverOptions{NearestN: 2}
		q.DNS.TTL = "10s"
	}
	op := hx.Pick(r, []structs.PreparedQueryOp{structs.PreparedQueryCreate, structs.PreparedQueryCreate, structs.PreparedQueryUpdate, structs.PreparedQueryDelete})
	req := structs.PreparedQueryRequest{Datacenter: "dc1", Op: op, Query: q}
	return entry{data: enc(structs.PreparedQueryRequestType, &req), kind: "prepared-query",
		desc: fmt.Sprintf("pq %s id=%s name=%q session=%q", op, q.ID, q.Name, q.Session)}
}

// ---------------------------------------------------------------- operator-ish singletons

func (g *gen) autopilot() entry {
	r := g.r
	req := structs.AutopilotSetConfigRequest{Datacenter: "dc1", Config: structs.AutopilotConfig{CleanupDeadServers: r.Bool(),
		LastContactThreshold: time.Duration(100+r.Intn(3)) * time.Millisecond, MaxTrailingLogs: uint64(200 + r.Intn(3))}}
	if r.Chance(40) {
		req.CAS = true
		req.Config.ModifyIndex = g.casIndex()
	}
	return entry{data: enc(structs.AutopilotRequestType, &req), kind: "autopilot", desc: fmt.Sprintf("autopilot cas=%v@%d", req.CAS, req.Config.ModifyIndex)}
}

func (g *gen) featureGate() entry {
	r := g.r
	req := structs.FeatureGateUpdateRequest{
		Status:              &structs.FeatureGateStatus{RegistryDigest: g.pick([]string{"d1", "d2"}), Features: map[string]structs.ResolvedFeatureGate{"f1": {DesiredEnabled: r.Bool(), Eligible: true, Source: "operator", Reason: structs.FeatureGateReasonOperatorEnabled}}},
		ExpectedPolicyIndex: g.casIndex(), ExpectedStatusIndex: g.casIndex(),
	}
	if r.Chance(60) {
		req.Policy = &structs.FeatureGatePolicy{Settings: map[string]structs.FeatureGateSetting{"f1": {Enabled: r.Bool(), Source: structs.FeatureGateSourceOperator}}}
	}
	if r.Chance(50) {
		req.ExpectedPolicyIndex, req.ExpectedStatusIndex = 0, 0
	}
	return entry{data: enc(structs.FeatureGateRequestType, &req), kind: "feature-gate",
		desc: fmt.Sprintf("feature-gate policy=%v expect=%d/%d", req.Policy != nil, req.ExpectedPolicyIndex, req.ExpectedStatusIndex)}
}

func (g *gen) systemMetadata() entry {
	r := g.r
	key := g.pick(g.u.sysKeys)
	val := g.pick([]string{"true", "v"})
	if key == structs.SystemMetadataIntentionFormatKey {
		// written only by the leader's one-way intention migration: decided once at the start of a history
		// (intentionFormat), never rewritten or deleted afterwards
		key = "k1"
	}
	req := structs.SystemMetadataRequest{Datacenter: "dc1", Op: structs.SystemMetadataUpsert, Entry: &structs.SystemMetadataEntry{Key: key, Value: val}}
	if r.Chance(20) {
		req.Op = structs.SystemMetadataDelete
	}
	return entry{data: enc(structs.SystemMetadataRequestType, &req), kind: "system-metadata", desc: fmt.Sprintf("sysmeta %s %s=%s", req.Op, key, val)}
}

func (g *gen) intentionFormat() entry {
	val := structs.SystemMetadataIntentionFormatConfigValue
	if g.r.Chance(25) {
		val = structs.SystemMetadataIntentionFormatLegacyValue
	}
	req := structs.SystemMetadataRequest{Datacenter: "dc1", Op: structs.SystemMetadataUpsert,
		Entry: &structs.SystemMetadataEntry{Key: structs.SystemMetadataIntentionFormatKey, Value: val}}
	return entry{data: enc(structs.SystemMetadataRequestType, &req), kind: "system-metadata", desc: "sysmeta upsert intention-format=" + val}
}

func (g *gen) vipFlag() entry {
	req := structs.SystemMetadataRequest{Datacenter: "dc1", Op: structs.SystemMetadataUpsert,
		Entry: &structs.SystemMetadataEntry{Key: structs.SystemMetadataVirtualIPsEnabled, Value: "true"}}
	return entry{data: enc(structs.SystemMetadataRequestType, &req), kind: "system-metadata", desc: "sysmeta upsert virtual-ips=true"}
}

func (g *gen) federationState() entry {
	r := g.r
	dc := g.pick(g.u.dcs)
	fs := &structs.FederationState{Datacenter: dc, UpdatedAt: g.fixedTime.Add(time.Duration(r.Intn(5)) * time.Second), PrimaryModifyIndex: uint64(r.Intn(4))}
	if r.Chance(70) {
		fs.MeshGateways = []structs.CheckServiceNode{{
			Node:    &structs.Node{ID: types.NodeID(uuidN(0xf0, 1)), Node: "gateway1", Datacenter: dc, Address: "1.2.3.4"},
			Service: &structs.NodeService{ID: "mesh-gateway", Service: "mesh-gateway", Kind: structs.ServiceKindMeshGateway, Port: 1111 + r.Intn(2), Meta: map[string]string{structs.MetaWANFederationKey: "1"}},
			Checks:  []*structs.HealthCheck{{Name: "web connectivity", Status: api.HealthPassing, ServiceID: "mesh-gateway"}},
		}}
	}
	req := structs.FederationStateRequest{Datacenter: "dc1", Op: structs.FederationStateUpsert, State: fs}
	if r.Chance(25) {
		req.Op = structs.FederationStateDelete
	}
	return entry{data: enc(structs.FederationStateRequestType, &req), kind: "federation-state", desc: fmt.Sprintf("fedstate %s %s", req.Op, dc)}
}

// ---------------------------------------------------------------- Connect CA

func (g *gen) caRoot(id string, active bool) *structs.CARoot {
	return &structs.CARoot{ID: id, Name: "ca " + id, SerialNumber: uint64(1 + g.r.Intn(3)), SigningKeyID: "aa:bb", ExternalTrustDomain: "td-1",
		NotBefore: g.fixedTime, NotAfter: g.fixedTime.Add(24 * time.Hour), RootCert: "-----BEGIN CERTIFICATE-----\n" + id + "\n-----END CERTIFICATE-----\n",
		IntermediateCerts: nil, SigningCert: "sc", SigningKey: "sk", Active: active, PrivateKeyType: "ec", PrivateKeyBits: 256}
}

func (g *gen) caConfig() *structs.CAConfiguration {
	r := g.r
	// the cluster id (trust domain) is fixed for the life of a cluster: CAManager.UpdateConfiguration overwrites
	// whatever the request carries with the stored one ("Don't allow users to change the ClusterID")
	if g.clusterID == "" {
		g.clusterID = g.pick([]string{"cluster-1", "cluster-2"})
	}
	c := &structs.CAConfiguration{ClusterID: g.clusterID, Provider: g.pick([]string{"consul", "vault"}),
		Config: map[string]interface{}{"LeafCertTTL": "72h", "RotationPeriod": g.pick([]string{"2160h", "100h"})}}
	if r.Chance(30) {
		c.Config["IntermediateCertTTL"] = "8760h"
		c.State = map[string]string{"s": "1"}
	}
	if r.Chance(20) {
		c.ForceWithoutCrossSigning = true
	}
	return c
}

func (g *gen) connectCA() entry {
	r := g.r
	req := structs.CARequest{Datacenter: "dc1"}
	roots := func() []*structs.CARoot {
		ids := append([]string{}, g.u.caRootIDs...)
		hx.Shuffle(r, ids)
		n := 1 + r.Intn(2)
		var rs []*structs.CARoot
		for i := 0; i < n; i++ {
			rs = append(rs, g.caRoot(ids[i], i == 0))
		}
		if r.Chance(8) {
			rs[0].Active = false // invalid: no active root
		}
		if n > 1 && r.Chance(50) {
			rs[1].RotatedOutAt = g.fixedTime
		}
		return rs
	}
	switch r.Intn(7) {
	case 0:
		req.Op = structs.CAOpSetConfig
		req.Config = g.caConfig()
		if r.Chance(40) {
			req.Config.ModifyIndex = g.casIndex()
		}
	case 1, 2:
		req.Op = structs.CAOpSetRoots
		req.Index = g.casIndex()
		if r.Chance(50) {
			req.Index = 0
		}
		req.Roots = roots()
	case 3:
		req.Op = structs.CAOpSetProviderState
		req.ProviderState = &structs.CAConsulProviderState{ID: g.pick(g.u.caProviderIDs), PrivateKey: "pk", RootCert: "rc", IntermediateCert: g.pick([]string{"", "ic"})}
	case 4:
		req.Op = structs.CAOpDeleteProviderState
		req.ProviderState = &structs.CAConsulProviderState{ID: g.pick(g.u.caProviderIDs)}
	case 5:
		req.Op = structs.CAOpSetRootsAndConfig
		req.Index = g.casIndex()
		req.Roots = roots()
		req.Config = g.caConfig()
		req.Config.ModifyIndex = g.casIndex()
	default:
		req.Op = structs.CAOpIncrementProviderSerialNumber
	}
	return entry{data: enc(structs.ConnectCARequestType, &req), kind: "connect-ca", desc: fmt.Sprintf("ca %s index=%d", req.Op, req.Index)}
}

func (g *gen) caLeaf() entry {
	req := structs.CALeafRequest{Op: structs.CALeafOpIncrementIndex, Datacenter: "dc1"}
	return entry{data: enc(structs.ConnectCALeafRequestType, &req), kind: "connect-ca-leaf", desc: "ca-leaf increment-index"}
}

// ---------------------------------------------------------------- ACL

func (g *gen) aclToken() *structs.ACLToken {
	r := g.r
	i := r.Intn(len(g.u.tokenAccessors))
	t := &structs.ACLToken{AccessorID: g.u.tokenAccessors[i], SecretID: g.u.tokenSecrets[i], Description: g.pick([]string{"", "tok"}),
		CreateTime: g.fixedTime, Local: r.Chance(25)}
	if r.Chance(10) {
		t.SecretID = g.pick(g.u.tokenSecrets) // may collide with another token's secret
	}
	if r.Chance(50) {
		t.Policies = []structs.ACLTokenPolicyLink{{ID: g.pick(g.u.policyIDs)}}
	}
	if r.Chance(25) {
		t.Roles = []structs.ACLTokenRoleLink{{ID: g.pick(g.u.roleIDs)}}
	}
	if r.Chance(20) {
		t.ServiceIdentities = structs.ACLServiceIdentities{{ServiceName: g.pick(g.u.serviceNames)}}
	}
	if r.Chance(10) {
		t.NodeIdentities = structs.ACLNodeIdentities{{NodeName: "n1", Datacenter: "dc1"}}
	}
	if r.Chance(15) {
		exp := g.fixedTime.Add(time.Hour)
		t.ExpirationTime = &exp
	}
	if r.Chance(15) {
		t.AuthMethod = g.pick(g.u.methodNames)
	}
	t.SetHash(true)
	return t
}

func (g *gen) acl() entry {
	r := g.r
	switch r.Intn(12) {
	case 0, 1:
		req := structs.ACLTokenBatchSetRequest{Tokens: structs.ACLTokens{g.aclToken()}, CAS: r.Chance(15), AllowMissingLinks: r.Chance(50), FromReplication: r.Chance(10)}
		if r.Chance(20) {
			req.Tokens = append(req.Tokens, g.aclToken())
		}
		if req.CAS {
			req.Tokens[0].ModifyIndex = g.casIndex()
		}
		return entry{data: enc(structs.ACLTokenSetRequestType, &req), kind: "acl-token-set", desc: fmt.Sprintf("token-set %s cas=%v missingok=%v", req.Tokens[0].AccessorID, req.CAS, req.AllowMissingLinks)}
	case 2:
		req := structs.ACLTokenBatchDeleteRequest{TokenIDs: []string{g.pick(g.u.tokenAccessors)}}
		return entry{data: enc(structs.ACLTokenDeleteRequestType, &req), kind: "acl-token-delete", desc: "token-delete " + req.TokenIDs[0]}
	case 3:
		t := g.aclToken()
		t.Policies = []structs.ACLTokenPolicyLink{{ID: structs.ACLPolicyGlobalManagementID}}
		req := structs.ACLTokenBootstrapRequest{Token: *t, ResetIndex: 0}
		if r.Chance(30) {
			req.ResetIndex = g.casIndex()
		}
		return entry{data: enc(structs.ACLBootstrapRequestType, &req), kind: "acl-bootstrap", desc: fmt.Sprintf("bootstrap %s reset=%d", t.AccessorID, req.ResetIndex)}
	case 4, 5:
		p := &structs.ACLPolicy{ID: g.pick(g.u.policyIDs), Name: g.pick([]string{"p-one", "p-two", "p-three"}), Description: "d",
			Rules: g.pick([]string{`key_prefix "" { policy = "read" }`, `service "web" { policy = "write" }`, ``})}
		if r.Chance(10) {
			p.ID, p.Name = structs.ACLPolicyGlobalManagementID, "global-management"
		}
		p.SetHash(true)
		req := structs.ACLPolicyBatchSetRequest{Policies: structs.ACLPolicies{p}}
		return entry{data: enc(structs.ACLPolicySetRequestType, &req), kind: "acl-policy-set", desc: fmt.Sprintf("policy-set %s name=%s", p.ID, p.Name)}
	case 6:
		req := structs.ACLPolicyBatchDeleteRequest{PolicyIDs: []string{g.pick(g.u.policyIDs)}}
		return entry{data: enc(structs.ACLPolicyDeleteRequestType, &req), kind: "acl-policy-delete", desc: "policy-delete " + req.PolicyIDs[0]}
	case 7:
		ro := &structs.ACLRole{ID: g.pick(g.u.roleIDs), Name: g.pick([]string{"r-one", "r-two"}), Description: "d"}
		if r.Chance(60) {
			ro.Policies = []structs.ACLRolePolicyLink{{ID: g.pick(g.u.policyIDs)}}
		}
		if r.Chance(30) {
			ro.ServiceIdentities = structs.ACLServiceIdentities{{ServiceName: "web"}}
		}
		ro.SetHash(true)
		req := structs.ACLRoleBatchSetRequest{Roles: structs.ACLRoles{ro}, AllowMissingLinks: r.Chance(50)}
		return entry{data: enc(structs.ACLRoleSetRequestType, &req), kind: "acl-role-set", desc: fmt.Sprintf("role-set %s name=%s", ro.ID, ro.Name)}
	case 8:
		req := structs.ACLRoleBatchDeleteRequest{RoleIDs: []string{g.pick(g.u.roleIDs)}}
		return entry{data: enc(structs.ACLRoleDeleteRequestType, &req), kind: "acl-role-delete", desc: "role-delete " + req.RoleIDs[0]}
	case 9:
		m := &structs.ACLAuthMethod{Name: g.pick(g.u.methodNames), Type: "testing", Description: g.pick([]string{"", "d"}),
			Config: map[string]interface{}{"SessionID": uuidN(0xd5, 1)}}
		if r.Chance(30) {
			m.MaxTokenTTL = 5 * time.Minute
			m.TokenLocality = "global"
		}
		req := structs.ACLAuthMethodBatchSetRequest{AuthMethods: structs.ACLAuthMethods{m}}
		return entry{data: enc(structs.ACLAuthMethodSetRequestType, &req), kind: "acl-authmethod-set", desc: "method-set " + m.Name}
	case 10:
		if r.Chance(50) {
			req := structs.ACLAuthMethodBatchDeleteRequest{AuthMethodNames: []string{g.pick(g.u.methodNames)}}
			return entry{data: enc(structs.ACLAuthMethodDeleteRequestType, &req), kind: "acl-authmethod-delete", desc: "method-delete " + req.AuthMethodNames[0]}
		}
		req := structs.ACLBindingRuleBatchDeleteRequest{BindingRuleIDs: []string{g.pick(g.u.ruleIDs)}}
		return entry{data: enc(structs.ACLBindingRuleDeleteRequestType, &req), kind: "acl-bindingrule-delete", desc: "rule-delete " + req.BindingRuleIDs[0]}
	default:
		br := &structs.ACLBindingRule{ID: g.pick(g.u.ruleIDs), Description: "d", AuthMethod: g.pick(g.u.methodNames), Selector: "serviceaccount.namespace==default",
			BindType: structs.BindingRuleBindTypeService, BindName: "${serviceaccount.name}"}
		req := structs.ACLBindingRuleBatchSetRequest{BindingRules: structs.ACLBindingRules{br}}
		return entry{data: enc(structs.ACLBindingRuleSetRequestType, &req), kind: "acl-bindingrule-set", desc: fmt.Sprintf("rule-set %s method=%s", br.ID, br.AuthMethod)}
	}
}

// ---------------------------------------------------------------- config entries & intentions

func (g *gen) configEntry() (structs.ConfigEntry, string) {
	r := g.r
	svc := g.pick(g.u.serviceNames)
	switch r.Intn(16) {
	case 0, 1:
		e := &structs.ServiceConfigEntry{Kind: structs.ServiceDefaults, Name: svc, Protocol: g.pick([]string{"http", "tcp", "grpc", ""})}
		if r.Chance(20) {
			e.MeshGateway = structs.MeshGatewayConfig{Mode: structs.MeshGatewayModeLocal}
		}
		if r.Chance(15) {
			e.UpstreamConfig = &structs.UpstreamConfiguration{Defaults: &structs.UpstreamConfig{ConnectTimeoutMs: 5000}}
		}
		return e, "service-defaults/" + svc
	case 2:
		e := &structs.ProxyConfigEntry{Kind: structs.ProxyDefaults, Name: structs.ProxyConfigGlobal, Config: map[string]interface{}{"protocol": g.pick([]string{"http", "tcp"})}}
		if r.Chance(30) {
			e.Mode = structs.ProxyModeTransparent
		}
		return e, "proxy-defaults/global"
	case 3, 4:
		e := &structs.ServiceResolverConfigEntry{Kind: structs.ServiceResolver, Name: svc}
		switch r.Intn(4) {
		case 0:
			e.Redirect = &structs.ServiceResolverRedirect{Service: g.pick(g.u.serviceNames)}
		case 1:
			e.Failover = map[string]structs.ServiceResolverFailover{"*": {Datacenters: []string{"dc2"}}}
		case 2:
			e.Subsets = map[string]structs.ServiceResolverSubset{"v1": {Filter: "Service.Meta.version == v1"}}
			e.DefaultSubset = "v1"
		case 3:
			e.Failover = map[string]structs.ServiceResolverFailover{"*": {Targets: []structs.ServiceResolverFailoverTarget{{Peer: g.pick(g.u.peerNames)}}}}
		}
		return e, "service-resolver/" + svc
	case 5:
		e := &structs.ServiceSplitterConfigEntry{Kind: structs.ServiceSplitter, Name: svc,
			Splits: []structs.ServiceSplit{{Weight: 60, Service: svc}, {Weight: 40, Service: g.pick(g.u.serviceNames)}}}
		return e, "service-splitter/" + svc
	case 6:
		e := &structs.ServiceRouterConfigEntry{Kind: structs.ServiceRouter, Name: svc,
			Routes: []structs.ServiceRoute{{Match: &structs.ServiceRouteMatch{HTTP: &structs.ServiceRouteHTTPMatch{PathPrefix: "/x"}},
				Destination: &structs.ServiceRouteDestination{Service: g.pick(g.u.serviceNames)}}}}
		return e, "service-router/" + svc
	case 7, 8:
		e := &structs.IngressGatewayConfigEntry{Kind: structs.IngressGateway, Name: "ingress-gw"}
		if r.Chance(70) {
			proto := g.pick([]string{"tcp", "http"})
			l := structs.IngressListener{Port: 8080 + r.Intn(2), Protocol: proto}
			if proto == "http" && r.Chance(40) {
				l.Services = []structs.IngressService{{Name: structs.WildcardSpecifier}}
			} else {
				l.Services = []structs.IngressService{{Name: g.pick(g.u.serviceNames)}}
				if proto == "http" && r.Chance(40) {
					l.Services = append(l.Services, structs.IngressService{Name: g.pick(g.u.serviceNames), Hosts: []string{"h.example"}})
				}
			}
			e.Listeners = []structs.IngressListener{l}
		}
		return e, "ingress-gateway/ingress-gw"
	case 9, 10:
		e := &structs.TerminatingGatewayConfigEntry{Kind: structs.TerminatingGateway, Name: "term-gw"}
		switch r.Intn(4) {
		case 0:
			e.Services = []structs.LinkedService{{Name: structs.WildcardSpecifier}}
		case 1:
			e.Services = []structs.LinkedService{{Name: g.pick(g.u.serviceNames)}, {Name: structs.WildcardSpecifier, CAFile: "/ca"}}
		case 2:
			e.Services = []structs.LinkedService{{Name: g.pick(g.u.serviceNames), SNI: "x.example"}}
		}
		return e, "terminating-gateway/term-gw"
	case 11, 12:
		src := g.pick(append([]string{structs.WildcardSpecifier}, g.u.serviceNames...))
		e := &structs.ServiceIntentionsConfigEntry{Kind: structs.ServiceIntentions, Name: g.pick(append([]string{structs.WildcardSpecifier}, g.u.serviceNames...)),
			Sources: []*structs.SourceIntention{{Name: src, Action: hx.Pick(r, []structs.IntentionAction{structs.IntentionActionAllow, structs.IntentionActionDeny})}}}
		if r.Chance(25) {
			e.Sources = append(e.Sources, &structs.SourceIntention{Name: g.pick(g.u.serviceNames), Peer: g.pick(g.u.peerNames), Action: structs.IntentionActionAllow})
		}
		return e, "service-intentions/" + e.Name
	case 13:
		e := &structs.MeshConfigEntry{TransparentProxy: structs.TransparentProxyMeshConfig{MeshDestinationsOnly: r.Bool()}}
		if r.Chance(30) {
			e.Peering = &structs.PeeringMeshConfig{PeerThroughMeshGateways: true}
		}
		return e, "mesh/mesh"
	case 14:
		e := &structs.ExportedServicesConfigEntry{Name: "default", Services: []structs.ExportedService{{Name: g.pick(append([]string{structs.WildcardSpecifier}, g.u.serviceNames...)),
			Consumers: []structs.ServiceConsumer{{Peer: g.pick(g.u.peerNames)}}}}}
		return e, "exported-services/default"
	default:
		switch r.Intn(3) {
		case 0:
			e := &structs.APIGatewayConfigEntry{Kind: structs.APIGateway, Name: "api-gw",
				Listeners: []structs.APIGatewayListener{{Name: "l1", Port: 9090, Protocol: structs.ListenerProtocolTCP}}}
			return e, "api-gateway/api-gw"
		case 1:
			e := &structs.TCPRouteConfigEntry{Kind: structs.TCPRoute, Name: "route1",
				Parents:  []structs.ResourceReference{{Kind: structs.APIGateway, Name: "api-gw"}},
				Services: []structs.TCPService{{Name: g.pick(g.u.serviceNames)}}}
			return e, "tcp-route/route1"
		default:
			e := &structs.BoundAPIGatewayConfigEntry{Kind: structs.BoundAPIGateway, Name: "api-gw",
				Listeners: []structs.BoundAPIGatewayListener{{Name: "l1", Routes: []structs.ResourceReference{{Kind: structs.TCPRoute, Name: "route1"}}}}}
			return e, "bound-api-gateway/api-gw"
		}
	}
}

// cfgSvcNames: service names a gateway config entry links (for the case-folding flag only)
func cfgSvcNames(e structs.ConfigEntry) (out []string) {
	switch c := e.(type) {
	case *structs.TerminatingGatewayConfigEntry:
		for _, s := range c.Services {
			out = append(out, s.Name)
		}
	case *structs.IngressGatewayConfigEntry:
		for _, l := range c.Listeners {
			for _, s := range l.Services {
				out = append(out, s.Name)
			}
		}
	}
	return
}

func (g *gen) configEntryOp() (entry, bool) {
	r := g.r
	e, d := g.configEntry()
	if err := e.Normalize(); err != nil {
		return entry{}, false
	}
	if err := e.Validate(); err != nil {
		return entry{}, false
	}
	op := hx.Pick(r, []structs.ConfigEntryOp{structs.ConfigEntryUpsert, structs.ConfigEntryUpsert, structs.ConfigEntryUpsert, structs.ConfigEntryUpsertCAS,
		structs.ConfigEntryDelete, structs.ConfigEntryDeleteCAS, structs.ConfigEntryUpsertWithStatusCAS})
	if op == structs.ConfigEntryUpsertCAS || op == structs.ConfigEntryDeleteCAS || op == structs.ConfigEntryUpsertWithStatusCAS {
		e.GetRaftIndex().ModifyIndex = g.casIndex()
	}
	req := structs.ConfigEntryRequest{Datacenter: "dc1", Op: op, Entry: e}
	return entry{data: enc(structs.ConfigEntryRequestType, &req), kind: "config-entry", desc: fmt.Sprintf("config %s %s cas=%d", op, d, e.GetRaftIndex().ModifyIndex),
		svcNames: cfgSvcNames(e)}, true
}

func (g *gen) intention() entry {
	r := g.r
	src, dst := g.pick(append([]string{"*"}, g.u.serviceNames...)), g.pick(append([]string{"*"}, g.u.serviceNames...))
	if r.Chance(50) {
		// config-entry backed mutation (what the Intention RPC endpoint sends once intentions live in config entries)
		op := hx.Pick(r, []structs.IntentionOp{structs.IntentionOpCreate, structs.IntentionOpUpdate, structs.IntentionOpDelete, structs.IntentionOpUpsert})
		mut := &structs.IntentionMutation{Destination: structs.NewServiceName(dst, nil), Source: structs.NewServiceName(src, nil)}
		if op != structs.IntentionOpDelete {
			mut.Value = &structs.SourceIntention{Name: src, Action: hx.Pick(r, []structs.IntentionAction{structs.IntentionActionAllow, structs.IntentionActionDeny}),
				Precedence: 9, Type: structs.IntentionSourceConsul, LegacyID: g.pick(g.u.ixnIDs), LegacyCreateTime: &g.fixedTime, LegacyUpdateTime: &g.fixedTime}
			mut.Value.EnterpriseMeta = *structs.DefaultEnterpriseMetaInDefaultPartition()
		}
		if op == structs.IntentionOpUpdate || (op == structs.IntentionOpDelete && r.Chance(50)) {
			mut.ID = g.pick(g.u.ixnIDs)
		}
		req := structs.IntentionRequest{Datacenter: "dc1", Op: op, Mutation: mut}
		return entry{data: enc(structs.IntentionRequestType, &req), kind: "intention-mutation", desc: fmt.Sprintf("ixn-mutation %s %s->%s id=%q", op, src, dst, mut.ID)}
	}
	op := hx.Pick(r, []structs.IntentionOp{structs.IntentionOpCreate, structs.IntentionOpCreate, structs.IntentionOpUpdate, structs.IntentionOpDelete, structs.IntentionOpDeleteAll})
	ixn := &structs.Intention{ID: g.pick(g.u.ixnIDs), SourceNS: "default", SourceName: src, DestinationNS: "default", DestinationName: dst,
		SourceType: structs.IntentionSourceConsul, Action: hx.Pick(r, []structs.IntentionAction{structs.IntentionActionAllow, structs.IntentionActionDeny}),
		Meta: map[string]string{}, CreatedAt: g.fixedTime, UpdatedAt: g.fixedTime}
	ixn.UpdatePrecedence()
	//nolint:staticcheck
	ixn.SetHash()
	req := structs.IntentionRequest{Datacenter: "dc1", Op: op, Intention: ixn}
	return entry{data: enc(structs.IntentionRequestType, &req), kind: "intention-legacy", desc: fmt.Sprintf("ixn-legacy %s %s %s->%s", op, ixn.ID, src, dst)}
}

// ---------------------------------------------------------------- peering

func encProto(t structs.MessageType, m interface{ MarshalBinary() ([]byte, error) }) []byte {
	b, err := structs.EncodeProtoInterface(t, m)
	if err != nil {
		panic(err)
	}
	return b
}

func (g *gen) peering() entry {
	r := g.r
	i := r.Intn(len(g.u.peerIDs))
	id, name := g.u.peerIDs[i], g.u.peerNames[i]
	if r.Chance(8) {
		name = g.pick(g.u.peerNames) // name/id clash
	}
	switch r.Intn(10) {
	case 0, 1, 2, 3:
		p := &pbpeering.Peering{ID: id, Name: name, State: hx.Pick(r, []pbpeering.PeeringState{pbpeering.PeeringState_UNDEFINED, pbpeering.PeeringState_PENDING,
			pbpeering.PeeringState_ESTABLISHING, pbpeering.PeeringState_ACTIVE, pbpeering.PeeringState_FAILING, pbpeering.PeeringState_TERMINATED})}
		if r.Chance(30) {
			p.Meta = map[string]string{"env": "prod"}
		}
		if r.Chance(20) {
			p.PeerServerAddresses = []string{"10.0.0.1:8503"} // dialing side
			p.PeerID = uuidN(0xc2, 1+r.Intn(2))
			p.PeerServerName = "server.dc2.consul"
		}
		if r.Chance(15) {
			p.State = pbpeering.PeeringState_DELETING
			p.DeletedAt = timestamppb.New(g.fixedTime)
		}
		if r.Chance(20) {
			p.Remote = &pbpeering.RemoteInfo{Partition: "default", Datacenter: "dc2"}
		}
		req := &pbpeering.PeeringWriteRequest{Peering: p}
		if r.Chance(35) {
			if p.ShouldDial() {
				req.SecretsRequest = &pbpeering.SecretsWriteRequest{PeerID: id, Request: &pbpeering.SecretsWriteRequest_Establish{
					Establish: &pbpeering.SecretsWriteRequest_EstablishRequest{ActiveStreamSecret: g.pick(g.u.secretIDs)}}}
			} else {
				req.SecretsRequest = &pbpeering.SecretsWriteRequest{PeerID: id, Request: &pbpeering.SecretsWriteRequest_GenerateToken{
					GenerateToken: &pbpeering.SecretsWriteRequest_GenerateTokenRequest{EstablishmentSecret: g.pick(g.u.secretIDs)}}}
			}
		}
		return entry{data: encProto(structs.PeeringWriteType, req), kind: "peering-write", desc: fmt.Sprintf("peering-write %s/%s state=%s dial=%v secrets=%v", id, name, p.State, p.ShouldDial(), req.SecretsRequest != nil)}
	case 4:
		req := &pbpeering.PeeringDeleteRequest{Name: name}
		return entry{data: encProto(structs.PeeringDeleteType, req), kind: "peering-delete", desc: "peering-delete " + name}
	case 5:
		req := &pbpeering.PeeringTerminateByIDRequest{ID: id}
		return entry{data: encProto(structs.PeeringTerminateByIDType, req), kind: "peering-terminate", desc: "peering-terminate " + id}
	case 6, 7:
		req := &pbpeering.PeeringTrustBundleWriteRequest{PeeringTrustBundle: &pbpeering.PeeringTrustBundle{TrustDomain: name + ".consul", PeerName: name,
			RootPEMs: []string{g.pick([]string{"pem-a", "pem-b"})}, ExportedPartition: "default"}}
		return entry{data: encProto(structs.PeeringTrustBundleWriteType, req), kind: "peering-trust-bundle-write", desc: "trust-bundle-write " + name}
	case 8:
		req := &pbpeering.PeeringTrustBundleDeleteRequest{Name: name}
		return entry{data: encProto(structs.PeeringTrustBundleDeleteType, req), kind: "peering-trust-bundle-delete", desc: "trust-bundle-delete " + name}
	default:
		req := &pbpeering.SecretsWriteRequest{PeerID: id}
		switch r.Intn(4) {
		case 0:
			req.Request = &pbpeering.SecretsWriteRequest_GenerateToken{GenerateToken: &pbpeering.SecretsWriteRequest_GenerateTokenRequest{EstablishmentSecret: g.pick(g.u.secretIDs)}}
		case 1:
			req.Request = &pbpeering.SecretsWriteRequest_ExchangeSecret{ExchangeSecret: &pbpeering.SecretsWriteRequest_ExchangeSecretRequest{
				EstablishmentSecret: g.pick(g.u.secretIDs), PendingStreamSecret: g.pick(g.u.secretIDs)}}
		case 2:
			req.Request = &pbpeering.SecretsWriteRequest_PromotePending{PromotePending: &pbpeering.SecretsWriteRequest_PromotePendingRequest{ActiveStreamSecret: g.pick(g.u.secretIDs)}}
		default:
			req.Request = &pbpeering.SecretsWriteRequest_Establish{Establish: &pbpeering.SecretsWriteRequest_EstablishRequest{ActiveStreamSecret: g.pick(g.u.secretIDs)}}
		}
		return entry{data: encProto(structs.PeeringSecretsWriteType, req), kind: "peering-secrets-write", desc: fmt.Sprintf("secrets-write %s %T", id, req.Request)}
	}
}

// ---------------------------------------------------------------- resources, manual VIPs

func (g *gen) resource() entry {
	r := g.r
	id := &pbresource.ID{Type: &pbresource.Type{Group: "demo", GroupVersion: "v1", Kind: g.pick([]string{"Artist", "Album"})},
		Tenancy: &pbresource.Tenancy{Partition: "default", Namespace: "default"}, Name: g.pick(g.u.resNames), Uid: "uid-" + g.pick([]string{"1", "2"})}
	if r.Chance(8) {
		id.Type = &pbresource.Type{Group: "catalog", GroupVersion: "v2beta1", Kind: "Service"} // retired type: acknowledged, not stored
	}
	ver := g.pick([]string{"", "", fmt.Sprint(g.idx), fmt.Sprint(g.casIndex())})
	var log *pbstorage.Log
	d := ""
	if r.Chance(75) {
		log = &pbstorage.Log{Type: pbstorage.LogType_LOG_TYPE_WRITE, Request: &pbstorage.Log_Write{Write: &pbstorage.WriteRequest{
			Resource: &pbresource.Resource{Id: id, Version: ver, Metadata: map[string]string{"k": g.pick([]string{"a", "b"})}}}}}
		d = fmt.Sprintf("resource write %s/%s uid=%s ver=%q", id.Type.Kind, id.Name, id.Uid, ver)
	} else {
		log = &pbstorage.Log{Type: pbstorage.LogType_LOG_TYPE_DELETE, Request: &pbstorage.Log_Delete{Delete: &pbstorage.DeleteRequest{Id: id, Version: ver}}}
		d = fmt.Sprintf("resource delete %s/%s uid=%s ver=%q", id.Type.Kind, id.Name, id.Uid, ver)
	}
	b, err := log.MarshalBinary()
	if err != nil {
		panic(err)
	}
	return entry{data: append([]byte{byte(structs.ResourceOperationType)}, b...), kind: "resource", desc: d}
}

func (g *gen) manualVIP() entry {
	r := g.r
	req := state.ServiceVirtualIP{Service: structs.PeeredServiceName{ServiceName: structs.NewServiceName(g.pick(g.u.serviceNames), nil)}}
	for i := 0; i < r.Intn(3); i++ {
		req.ManualIPs = append(req.ManualIPs, g.pick([]string{"10.9.9.1", "10.9.9.2", "10.9.9.3"}))
	}
	return entry{data: enc(structs.UpdateVirtualIPRequestType, &req), kind: "manual-vip", desc: fmt.Sprintf("manual-vip %s %v", req.Service.ServiceName.Name, req.ManualIPs)}
}

func (g *gen) deprecatedACL() entry {
	return entry{data: enc(structs.DeprecatedACLRequestType, map[string]string{"Op": "set"}), kind: "deprecated-acl", desc: "legacy acl op"}
}

// ---------------------------------------------------------------- histories

// profile biases a history towards one area so that every family is deep in some histories.
var xprofiles = []string{"mixed", "catalog", "kv", "mesh", "acl", "peering", "ca-ops"}

func (g *gen) next(profile string) entry {
	r := g.r
	type w struct {
		n int
		f func() entry
	}
	ce := func() entry {
		for i := 0; i < 8; i++ {
			if e, ok := g.configEntryOp(); ok {
				return e
			}
		}
		return g.systemMetadata()
	}
	var ws []w
	switch profile {
	case "catalog":
		ws = []w{{40, g.register}, {14, g.deregister}, {6, g.coordinates}, {8, g.txn}, {6, g.sessionOp}, {6, ce}, {4, g.manualVIP}, {4, g.kvs}, {3, g.preparedQuery}, {2, g.vipFlag}}
	case "kv":
		ws = []w{{40, g.kvs}, {14, g.sessionOp}, {12, g.txn}, {8, g.register}, {5, g.tombstoneReap}, {4, g.deregister}, {4, g.preparedQuery}}
	case "mesh":
		ws = []w{{30, ce}, {25, g.register}, {8, g.deregister}, {8, g.intention}, {5, g.manualVIP}, {4, g.vipFlag}, {4, g.systemMetadata}, {4, g.peering}, {3, g.txn}}
	case "acl":
		ws = []w{{60, g.acl}, {5, g.register}, {5, g.kvs}, {3, g.deprecatedACL}}
	case "peering":
		ws = []w{{50, g.peering}, {15, g.register}, {8, ce}, {5, g.deregister}, {4, g.vipFlag}}
	case "ca-ops":
		ws = []w{{30, g.connectCA}, {5, g.caLeaf}, {10, g.autopilot}, {10, g.featureGate}, {10, g.federationState}, {10, g.systemMetadata}, {10, g.resource}, {5, g.register}}
	default:
		ws = []w{{16, g.register}, {6, g.deregister}, {12, g.kvs}, {6, g.sessionOp}, {6, g.txn}, {2, g.tombstoneReap}, {3, g.coordinates}, {3, g.preparedQuery},
			{2, g.autopilot}, {2, g.featureGate}, {3, g.systemMetadata}, {2, g.vipFlag}, {2, g.federationState}, {4, g.connectCA}, {1, g.caLeaf}, {8, g.acl},
			{10, ce}, {4, g.intention}, {8, g.peering}, {4, g.resource}, {3, g.manualVIP}, {1, g.deprecatedACL}}
	}
	total := 0
	for _, x := range ws {
		total += x.n
	}
	k := r.Intn(total)
	for _, x := range ws {
		if k < x.n {
			return x.f()
		}
		k -= x.n
	}
	return g.kvs()
}

func genHistory(r *hx.RNG, u *xuniverse, profile string, n int) []entry {
	g := &gen{r: r, u: u, fixedTime: time.Unix(1700000000, 0).UTC()}
	var h []entry
	idx := uint64(r.Intn(3))
	for len(h) < n {
		idx += 1 + uint64(r.Intn(100)/85*r.Intn(4)) // mostly +1, sometimes a gap (raft no-ops / config changes)
		g.idx = idx
		var e entry
		if len(h) == 0 && profile != "kv" && profile != "acl" && r.Chance(70) {
			e = g.vipFlag()
		} else if profile == "kv" && len(h) < 2 && r.Chance(85) {
			// give sessions a node with passing checks to attach to
			id := []string{"c1", "serfHealth"}[len(h)]
			req := structs.RegisterRequest{Datacenter: "dc1", Node: "n1", Address: "127.0.0.1",
				Check: &structs.HealthCheck{Node: "n1", CheckID: types.CheckID(id), Name: "chk", Status: api.HealthPassing}}
			e = entry{data: enc(structs.RegisterRequestType, &req), kind: "register", desc: "register node=n1 chk=" + id + "/passing"}
		} else {
			e = g.next(profile)
		}
		e.idx = idx
		h = append(h, e)
	}
	return h
}
