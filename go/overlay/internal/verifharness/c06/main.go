//go:build verif

// C06 harness: the blocking-query contract — a change is never missed.
//
// Part A (model-tied): generated histories of store commands (package storex: KV verbs, sessions,
// register / deregister, tombstone reaping, prepared queries, transactions; direct Store calls and FSM
// commands) run on a real fsm.FSM. Before and after EVERY write every query of the query set
// (KVSGet / KVSList / ListKeys, SessionGet / List / NodeSessions, Nodes, Services, ServiceNodes,
// ConnectServiceNodes, ServiceTagNodes, NodeServices, NodeServiceList, NodeChecks, ServiceChecks,
// ChecksInState, CheckServiceNodes, CheckConnectServiceNodes, CheckServiceTagNodes, PreparedQueryGet /
// List over a small colliding name universe) is evaluated with a fresh memdb.WatchSet; the harness prints
// (index, canonical result, did the WatchSet built before the write fire) for the Lean model
// (CV.Store.Query) to reproduce: index and result must be equal, and the model's footprint change must
// imply Go's fired.
// Part B (monitor only): histories of the whole FSM command set (config entries, intentions, Connect CA,
// peering, coordinates, gateways / proxies / tags, prepared queries, virtual IPs …) with a much wider
// query set; no model lines.
// Monitor (both parts, independent of the model): see monitor.go.
package main

import (
	"fmt"
	"strings"
	"time"

	"github.com/hashicorp/consul/agent/consul"
	"github.com/hashicorp/consul/internal/verifharness/hx"
	"github.com/hashicorp/consul/internal/verifharness/storex"
)

var kvHeavy = &storex.Profile{
	Name:      "kv-heavy",
	W:         map[string]int{"kv": 62, "sc": 6, "sd": 4, "reg": 6, "dereg": 3, "reap": 4, "pqs": 1, "txn": 14},
	KVVerbs:   map[string]int{"set": 30, "cas": 8, "delete": 16, "delete-cas": 6, "delete-tree": 16, "lock": 14, "unlock": 10},
	NulPrefix: true, EmptyKeyPc: 1, Preamble: 60,
}

var catalogHeavy = &storex.Profile{
	Name:     "catalog-heavy",
	W:        map[string]int{"kv": 6, "sc": 8, "sd": 3, "reg": 44, "dereg": 22, "pqs": 2, "pqd": 1, "txn": 14},
	KVVerbs:  map[string]int{"set": 20, "delete": 10, "delete-tree": 5, "lock": 50, "unlock": 15},
	Preamble: 60,
}

var sessionHeavy = &storex.Profile{
	Name:     "session-heavy",
	W:        map[string]int{"kv": 30, "sc": 16, "sd": 9, "reg": 14, "dereg": 10, "reap": 1, "pqs": 5, "pqd": 3, "txn": 12},
	KVVerbs:  map[string]int{"set": 12, "cas": 4, "delete": 8, "delete-cas": 3, "delete-tree": 8, "lock": 45, "unlock": 20},
	Preamble: 90,
}

var txnHeavy = &storex.Profile{
	Name:     "txn-heavy",
	W:        map[string]int{"kv": 12, "sc": 8, "sd": 3, "reg": 16, "dereg": 8, "reap": 1, "pqs": 2, "txn": 50},
	KVVerbs:  map[string]int{"set": 20, "cas": 5, "delete": 10, "delete-cas": 5, "delete-tree": 10, "lock": 35, "unlock": 15},
	Preamble: 80, EmptyKeyPc: 1,
}

func opKind(op *storex.Op) string {
	if op.Kind == "kv" {
		return "kv-" + op.KV.Verb
	}
	return op.Kind
}

// history is one model-tied history on a fresh FSM.
type history struct {
	run    *hx.Run
	w      *storex.World
	srv    *consul.VerifC06Server
	sw     *sweep
	lines  []string
	r      *hx.RNG
	sample int // percentage of unchanged, un-fired query observations printed for the model
	e2e    bool
	nontrv bool
}

func newHistory(run *hx.Run, r *hx.RNG, qs []*query, sample int, e2e bool) *history {
	h := &history{run: run, w: storex.NewWorld(), r: r, sample: sample, e2e: e2e}
	h.srv = consul.NewVerifC06Server(h.w.F, e2eMaxTime)
	run.Line("reset", "ok")
	h.lines = append(h.lines, "reset")
	h.sw = newSweep(h.w.Store(), qs)
	return h
}

func (h *history) replay() []string { return append([]string(nil), h.lines...) }

// step executes one write and checks / prints every query across it.
func (h *history) step(op *storex.Op) string {
	line := op.Line()
	before := h.w.Observe(storex.Keys)
	wi := &writeInfo{kind: opKind(op), reap: op.Kind == "reap", desc: line}
	var bs []*blocked
	if h.e2e {
		for i, q := range h.sw.qs {
			if h.r.Chance(4) || (relevant(q, op) && h.r.Chance(50)) {
				bs = append(bs, block(h.srv, q, h.sw.last[i]))
			}
		}
	}
	res := h.w.Exec(op)
	after := h.w.Observe(storex.Keys)
	wi.shape = func(q *query, b, a obs) string { return shapeOf(q, treeDeletes(op), &before.T, &after.T, b, a) }
	h.run.Line(line, res)
	h.lines = append(h.lines, line)
	h.run.Tag("op:" + wi.kind)
	if strings.HasPrefix(res, "panic(") || strings.Contains(res, "unmapped(") || strings.HasPrefix(res, "unexpected(") {
		h.run.Violate("harness:unclassified-answer:"+wi.kind, "the implementation answered "+res, h.replay())
	}
	if res != "ok" && res != "true" && !strings.HasPrefix(res, "ok:") {
		h.nontrv = true
		h.run.Tag("res:" + wi.kind + ":" + strings.SplitN(res, ":", 3)[0])
	}
	h.sw.across(h.run, h.w.Store(), wi, h.replay, func(v *verdict) {
		if v.q.Tokens == "" {
			return
		}
		if v.changed {
			h.nontrv = true
		}
		if v.changed || v.fired || h.r.Chance(h.sample) {
			f := "0"
			if v.fired {
				f = "1"
			}
			h.run.Line("qa "+f+" "+v.q.Tokens, fmt.Sprintf("idx=%d rep=%d %s w=ok", v.after.idx, reported(v.after.idx), v.after.res))
		}
	})
	settle(h.run, bs, wi, h.replay)
	return res
}

// relevant: does the write name something the query is about? (only used to pick e2e candidates)
func relevant(q *query, op *storex.Op) bool {
	switch op.Kind {
	case "kv":
		return q.Key != "" || q.Kind == "KVSList"
	case "reg":
		return q.Node != "" || q.Service != ""
	case "dereg":
		return q.Node != "" || q.Service != ""
	}
	return false
}

func (h *history) finish() {
	h.run.Case(strings.Join(h.lines, "\n"), h.nontrv)
}

func modelHistories(run *hx.Run, qs []*query, profiles []*storex.Profile, n, maxOps, sample int) {
	for i := 0; i < n; i++ {
		r := run.RNG.Fork(uint64(i))
		p := profiles[i%len(profiles)]
		h := newHistory(run, r, qs, sample, i%10 == 0)
		g := &storex.Gen{R: r, P: p, W: h.w, Idx: uint64(1 + r.Intn(20))}
		g.Last = h.w.Observe(storex.Keys)
		run.Tag("profile:" + p.Name)
		if r.Chance(p.Preamble) {
			for _, op := range g.Preamble() {
				h.step(op)
				g.Last = h.w.Observe(storex.Keys)
			}
		}
		for k := 1 + r.Intn(maxOps); k > 0; k-- {
			h.step(g.Next())
			g.Last = h.w.Observe(storex.Keys)
		}
		if i < 3 {
			run.Sample(map[string]any{"profile": p.Name, "ops": h.lines})
		}
		h.finish()
	}
}

// ---------------------------------------------------------------- small-scope exhaustive words

type letter struct {
	name string
	mk   func() *storex.Op
}

func regOp(node, id, addr string, svc *storex.SvcArg, chks ...storex.ChkArg) *storex.Op {
	return &storex.Op{Kind: "reg", Reg: &storex.RegArg{Node: storex.NodeArg{Name: node, ID: id, Addr: addr}, Svc: svc, Checks: chks}}
}

func kvOp(verb, key string) *storex.Op {
	return &storex.Op{Kind: "kv", KV: &storex.KVArg{Verb: verb, Key: key, Val: []byte("v")}}
}

func catalogAlphabet() ([]*storex.Op, []letter) {
	id1, id2 := storex.NodeIDs[1], storex.NodeIDs[2]
	svc := func(node, id, name string, port int) *storex.SvcArg {
		return &storex.SvcArg{Node: node, ID: id, Name: name, Port: port}
	}
	pre := []*storex.Op{
		regOp("n1", id1, "10.0.0.1", svc("n1", "web", "web", 80), storex.ChkArg{Node: "n1", ID: "c1", Status: "passing"},
			storex.ChkArg{Node: "n1", ID: "c2", Status: "passing", SvcID: "web"}),
	}
	ls := []letter{
		{"reg n1 web port 81", func() *storex.Op { return regOp("n1", id1, "10.0.0.1", svc("n1", "web", "web", 81)) }},
		{"reg n1 web renamed db", func() *storex.Op { return regOp("n1", id1, "10.0.0.1", svc("n1", "web", "db", 80)) }},
		{"reg n1 db", func() *storex.Op { return regOp("n1", id1, "10.0.0.1", svc("n1", "db", "db", 80)) }},
		{"reg n1 c2 on db", func() *storex.Op {
			return regOp("n1", id1, "10.0.0.1", nil, storex.ChkArg{Node: "n1", ID: "c2", Status: "passing", SvcID: "db"})
		}},
		{"reg n1 c1 on web", func() *storex.Op {
			return regOp("n1", id1, "10.0.0.1", nil, storex.ChkArg{Node: "n1", ID: "c1", Status: "passing", SvcID: "web"})
		}},
		{"reg n1 c2 critical", func() *storex.Op {
			return regOp("n1", id1, "10.0.0.1", nil, storex.ChkArg{Node: "n1", ID: "c2", Status: "critical", SvcID: "web"})
		}},
		{"dereg n1 check c2", func() *storex.Op { return &storex.Op{Kind: "dereg", Dereg: [3]string{"n1", "", "c2"}} }},
		{"dereg n1 svc web", func() *storex.Op { return &storex.Op{Kind: "dereg", Dereg: [3]string{"n1", "web", ""}} }},
		{"dereg n1", func() *storex.Op { return &storex.Op{Kind: "dereg", Dereg: [3]string{"n1", "", ""}} }},
		{"reg n1 addr 2", func() *storex.Op { return regOp("n1", id1, "10.0.0.2", nil) }},
		{"reg m web", func() *storex.Op { return regOp("m", id2, "10.0.0.1", svc("m", "web", "web", 80)) }},
		{"dereg m", func() *storex.Op { return &storex.Op{Kind: "dereg", Dereg: [3]string{"m", "", ""}} }},
		{"txn[svc set n1 web2/web, check set c2 on web2]", func() *storex.Op {
			return &storex.Op{Kind: "txn", Txn: []storex.TxnOpArg{
				{Fam: 's', Verb: "set", Svc: svc("n1", "web2", "web", 80)},
				{Fam: 'c', Verb: "set", Chk: &storex.ChkArg{Node: "n1", ID: "c2", Status: "passing", SvcID: "web2"}}}}
		}},
	}
	return pre, ls
}

func kvAlphabet() ([]*storex.Op, []letter) {
	pre := []*storex.Op{kvOp("set", "a/b"), kvOp("set", "a/bc"), kvOp("set", "ab"), kvOp("set", "\x00a"), kvOp("set", "\x00ab")}
	mk := func(verb, key string) letter {
		return letter{"kv " + verb + " " + key, func() *storex.Op { return kvOp(verb, key) }}
	}
	ls := []letter{mk("set", "a/b"), mk("set", "a/x"), mk("delete", "a/b"), mk("delete", "a/bc"), mk("delete", "\x00ab"),
		mk("delete-tree", "a"), mk("delete-tree", "a/"), mk("delete-tree", "a/b"), mk("delete-tree", ""), mk("delete-tree", "\x00"),
		{"reap all", func() *storex.Op { return &storex.Op{Kind: "reap", Reap: 1 << 40} }},
	}
	return pre, ls
}

// exhaustive runs every word of exactly `depth` letters, each on a fresh FSM after the preamble.
func exhaustive(run *hx.Run, name string, qs []*query, pre []*storex.Op, ls []letter, depth int) {
	word := make([]int, depth)
	count := 0
	for {
		h := newHistory(run, run.RNG.Fork(uint64(1000000+count)), qs, 3, false)
		idx := uint64(10)
		for _, op := range pre {
			o := *op
			o.Idx = idx
			idx += 2
			h.step(&o)
		}
		for k, l := range word {
			op := ls[l].mk()
			op.Idx = idx
			op.ViaFSM = (count+k)%2 == 0
			idx += 2
			h.step(op)
		}
		h.finish()
		count++
		i := depth - 1
		for i >= 0 {
			word[i]++
			if word[i] < len(ls) {
				break
			}
			word[i] = 0
			i--
		}
		if i < 0 {
			break
		}
	}
	run.Extra["exhaustive_"+name] = map[string]any{"alphabet": len(ls), "depth": depth, "histories": count, "exhaustive": true}
	run.Tag(fmt.Sprintf("exhaustive:%s:depth-%d", name, depth))
}

func main() {
	run := hx.Start()
	run.Rule = "for every query of the set and every single write: (raw index, reported index, canonical result) of the real state store equals the Lean model's, and whenever the model's watch footprint changed the real WatchSet fired; monitor on the implementation alone: result changed => reported index strictly larger and WatchSet fired; reported index >= 1; index never decreases except across tombstone reaping; blocked queries (real Server.blockingQuery) are released by a change"
	// widen the shared universes (this binary only): a one-letter node name, an instance ID registered under
	// two different service names (rename in place)
	storex.NodeNames = append(storex.NodeNames, "m")
	storex.Services = append(storex.Services, [2]string{"web", "db"})
	storex.Keys = append(storex.Keys, "\x00a", "\x00ab")
	u := &universe{
		Keys:     append([]string{""}, storex.Keys...),
		Prefixes: append(append(append([]string(nil), storex.Prefixes...), storex.NulPrefixes...), "\x00a", "a/b/"),
		KeySeps:  [][2]string{{"", "/"}, {"a", "/"}, {"a/", "/"}, {"", "b"}, {"a", ""}},
		Sessions: append(append([]string(nil), storex.Sessions...), storex.SessionUpper),
		Nodes:    []string{"n1", "N1", "n2", "n3", "m", "zz"},
		Names:    []string{"web", "Web", "db", "api", "nosuch"},
		States:   []string{"any", "passing", "warning", "critical", "Passing"},
		Tags:     []string{"v1"},
		PQ:       append([]string(nil), storex.QueryIDs...),
	}
	qs := modelledQueries(u)
	run.Extra["modelled_queries"] = len(qs)
	t0 := time.Now()
	lap := func(name string) {
		run.Extra["seconds_"+name] = int(time.Since(t0).Seconds())
		t0 = time.Now()
	}
	modelHistories(run, qs, []*storex.Profile{kvHeavy, catalogHeavy, sessionHeavy, txnHeavy}, run.Scale(160, 600), 25, run.Scale(12, 6))
	lap("model_histories")
	wideWitnesses(run)
	wideHistories(run, run.Scale(120, 300), 30)
	lap("wide_histories")
	tagHistories(run, run.Scale(60, 400), 14)
	lap("tag_histories")
	metaHistories(run, run.Scale(60, 400), 14)
	lap("meta_histories")
	chkHistories(run, run.Scale(70, 400), 16)
	lap("check_histories")
	pre, ls := catalogAlphabet()
	exhaustive(run, "catalog", qs, pre, ls, run.Scale(2, 3))
	pre, ls = kvAlphabet()
	exhaustive(run, "kv", qs, pre, ls, run.Scale(2, 3))
	lap("exhaustive")
	loopScripts(run, run.Scale(400, 4000))
	lap("loop_scripts")
	run.Finish()
}
