//go:build verif

package main

import (
	"fmt"
	"reflect"
	"sort"
	"strings"

	"github.com/hashicorp/go-memdb"

	"github.com/hashicorp/consul/agent/consul/discoverychain"
	"github.com/hashicorp/consul/agent/consul/state"
	"github.com/hashicorp/consul/agent/structs"
)

// Part B query set: every blocking read of the state store the property names, over the name pools of the
// Part B generator. Results are rendered by `canon` (reflection, map keys sorted, pointers followed); a
// top-level slice is rendered as the sorted list of its elements (several read paths build their slice by
// ranging over a Go map).

func canonSorted(v any) string {
	rv := reflect.ValueOf(v)
	for rv.IsValid() && (rv.Kind() == reflect.Ptr || rv.Kind() == reflect.Interface) && !rv.IsNil() {
		rv = rv.Elem()
	}
	if rv.IsValid() && rv.Kind() == reflect.Slice && rv.Type().Elem().Kind() != reflect.Uint8 {
		ts := make([]string, rv.Len())
		for i := range ts {
			ts[i] = canon(rv.Index(i).Interface())
		}
		sort.Strings(ts)
		return "[" + strings.Join(ts, ",") + "]"
	}
	return canon(v)
}

func x3[T any](idx uint64, v T, err error) (uint64, any, error) { return idx, v, err }

func wideQueries(u *xuniverse) []*query {
	var qs []*query
	add := func(kind, arg string, f func(st *state.Store, ws memdb.WatchSet) (uint64, any, error)) *query {
		q := &query{Kind: kind, Arg: arg, Run: func(st *state.Store, ws memdb.WatchSet) (uint64, string) {
			idx, v, err := f(st, ws)
			if err != nil {
				return idx, "err=" + fmt.Sprintf("%q", err.Error())
			}
			return idx, canonSorted(v)
		}}
		qs = append(qs, q)
		return q
	}
	em := structs.DefaultEnterpriseMetaInDefaultPartition()
	peers := []string{"", u.peerNames[0]}

	// KV, sessions
	for _, k := range u.keys {
		k := k
		add("KVSGet", fmt.Sprintf("%q", k), func(st *state.Store, ws memdb.WatchSet) (uint64, any, error) { return x3(st.KVSGet(ws, k, nil)) }).Key = k
	}
	for _, p := range u.prefixes {
		p := p
		add("KVSList", fmt.Sprintf("%q", p), func(st *state.Store, ws memdb.WatchSet) (uint64, any, error) { return x3(st.KVSList(ws, p, nil)) }).Key = p
	}
	add("SessionList", "", func(st *state.Store, ws memdb.WatchSet) (uint64, any, error) { return x3(st.SessionList(ws, nil)) })
	for _, id := range u.sessionIDs[:4] {
		id := id
		add("SessionGet", id, func(st *state.Store, ws memdb.WatchSet) (uint64, any, error) { return x3(st.SessionGet(ws, id, nil)) })
	}

	// catalog
	for _, peer := range peers {
		peer := peer
		at := "@" + peer
		add("Nodes", at, func(st *state.Store, ws memdb.WatchSet) (uint64, any, error) { return x3(st.Nodes(ws, nil, peer)) })
		add("Services", at, func(st *state.Store, ws memdb.WatchSet) (uint64, any, error) { return x3(st.Services(ws, nil, peer, false)) })
		add("ServicesJoined", at, func(st *state.Store, ws memdb.WatchSet) (uint64, any, error) { return x3(st.Services(ws, em, peer, true)) })
		add("ServiceList", at, func(st *state.Store, ws memdb.WatchSet) (uint64, any, error) { return x3(st.ServiceList(ws, nil, peer)) })
		add("NodeDump", at, func(st *state.Store, ws memdb.WatchSet) (uint64, any, error) { return x3(st.NodeDump(ws, nil, peer)) })
		add("ServiceDump", at, func(st *state.Store, ws memdb.WatchSet) (uint64, any, error) { return x3(st.ServiceDump(ws, "", false, nil, peer)) }).Peer = peer
		for _, s := range []string{"any", "passing", "critical"} {
			s := s
			add("ChecksInState", s+at, func(st *state.Store, ws memdb.WatchSet) (uint64, any, error) { return x3(st.ChecksInState(ws, s, nil, peer)) })
		}
		for _, n := range u.nodeNames {
			n := n
			add("NodeServices", n+at, func(st *state.Store, ws memdb.WatchSet) (uint64, any, error) { return x3(st.NodeServices(ws, n, nil, peer)) }).Node = n
			add("NodeServiceList", n+at, func(st *state.Store, ws memdb.WatchSet) (uint64, any, error) { return x3(st.NodeServiceList(ws, n, nil, peer)) }).Node = n
			add("NodeChecks", n+at, func(st *state.Store, ws memdb.WatchSet) (uint64, any, error) { return x3(st.NodeChecks(ws, n, nil, peer)) }).Node = n
			add("NodeInfo", n+at, func(st *state.Store, ws memdb.WatchSet) (uint64, any, error) { return x3(st.NodeInfo(ws, n, nil, peer)) }).Node = n
		}
		for _, s := range u.serviceNames {
			s := s
			add("ServiceNodes", s+at, func(st *state.Store, ws memdb.WatchSet) (uint64, any, error) { return x3(st.ServiceNodes(ws, s, nil, peer)) }).Service = s
			add("ConnectServiceNodes", s+at, func(st *state.Store, ws memdb.WatchSet) (uint64, any, error) { return x3(st.ConnectServiceNodes(ws, s, nil, peer)) }).Service = s
			add("ServiceTagNodes", s+",v1"+at, func(st *state.Store, ws memdb.WatchSet) (uint64, any, error) {
				return x3(st.ServiceTagNodes(ws, s, []string{"v1"}, nil, peer))
			}).Service = s
			add("CheckServiceNodes", s+at, func(st *state.Store, ws memdb.WatchSet) (uint64, any, error) { return x3(st.CheckServiceNodes(ws, s, nil, peer)) }).Service = s
			add("CheckConnectServiceNodes", s+at, func(st *state.Store, ws memdb.WatchSet) (uint64, any, error) {
				return x3(st.CheckConnectServiceNodes(ws, s, nil, peer))
			}).Service = s
			add("CheckServiceTagNodes", s+",v1"+at, func(st *state.Store, ws memdb.WatchSet) (uint64, any, error) {
				return x3(st.CheckServiceTagNodes(ws, s, []string{"v1"}, nil, peer))
			}).Service = s
			for _, q := range qs[len(qs)-6:] {
				q.Peer = peer
			}
			add("ServiceChecks", s+at, func(st *state.Store, ws memdb.WatchSet) (uint64, any, error) { return x3(st.ServiceChecks(ws, s, nil, peer)) }).Service = s
		}
	}
	// node lookups by ID
	for _, id := range u.nodeIDs[:2] {
		id := id
		add("NodeServicesByID", id, func(st *state.Store, ws memdb.WatchSet) (uint64, any, error) { return x3(st.NodeServices(ws, id, nil, "")) }).Node = id
	}
	for _, n := range u.nodeNames {
		n := n
		add("NodeSessions", n, func(st *state.Store, ws memdb.WatchSet) (uint64, any, error) { return x3(st.NodeSessions(ws, n, nil)) }).Node = n
		add("Coordinate", n, func(st *state.Store, ws memdb.WatchSet) (uint64, any, error) { return x3(st.Coordinate(ws, n, nil)) }).Node = n
	}
	add("Coordinates", "", func(st *state.Store, ws memdb.WatchSet) (uint64, any, error) { return x3(st.Coordinates(ws, nil)) })
	for _, kind := range []structs.ServiceKind{structs.ServiceKindTypical, structs.ServiceKindConnectProxy, structs.ServiceKindIngressGateway,
		structs.ServiceKindTerminatingGateway, structs.ServiceKindMeshGateway} {
		kind := kind
		add("ServiceNamesOfKind", string(kind), func(st *state.Store, ws memdb.WatchSet) (uint64, any, error) { return x3(st.ServiceNamesOfKind(ws, kind)) })
		add("ServiceDumpKind", string(kind), func(st *state.Store, ws memdb.WatchSet) (uint64, any, error) { return x3(st.ServiceDump(ws, kind, true, nil, "")) })
	}

	// gateways, topology, virtual IPs
	add("DumpGatewayServices", "", func(st *state.Store, ws memdb.WatchSet) (uint64, any, error) { return x3(st.DumpGatewayServices(ws)) })
	for _, g := range u.gatewayNames {
		g := g
		add("GatewayServices", g, func(st *state.Store, ws memdb.WatchSet) (uint64, any, error) { return x3(st.GatewayServices(ws, g, em)) })
	}
	for _, s := range u.serviceNames {
		s := s
		add("CheckIngressServiceNodes", s, func(st *state.Store, ws memdb.WatchSet) (uint64, any, error) { return x3(st.CheckIngressServiceNodes(ws, s, em)) }).Service = s
		add("ServiceGateways", s, func(st *state.Store, ws memdb.WatchSet) (uint64, any, error) {
			return x3(st.ServiceGateways(ws, s, structs.ServiceKindTerminatingGateway, *em))
		}).Service = s
		add("ServiceTopology", s, func(st *state.Store, ws memdb.WatchSet) (uint64, any, error) {
			idx, t, err := st.ServiceTopology(ws, "dc1", s, structs.ServiceKindTypical, true, em)
			if err != nil || t == nil {
				return idx, t, err
			}
			// the instance lists are built by ranging over Go maps
			return idx, []any{canonSorted(t.Upstreams), canonSorted(t.Downstreams), t.UpstreamDecisions, t.DownstreamDecisions, t.MetricsProtocol,
				t.TransparentProxy, t.UpstreamSources, t.DownstreamSources}, nil
		}).Service = s
	}
	add("VirtualIPsForAllImportedServices", "", func(st *state.Store, ws memdb.WatchSet) (uint64, any, error) {
		return x3(st.VirtualIPsForAllImportedServices(ws, *em))
	})

	// config entries and intentions
	add("ConfigEntries", "", func(st *state.Store, ws memdb.WatchSet) (uint64, any, error) { return x3(st.ConfigEntries(ws, nil)) })
	for _, k := range structs.AllConfigEntryKinds {
		k := k
		add("ConfigEntriesByKind", k, func(st *state.Store, ws memdb.WatchSet) (uint64, any, error) { return x3(st.ConfigEntriesByKind(ws, k, nil)) })
	}
	add("ConfigEntry", "proxy-defaults/global", func(st *state.Store, ws memdb.WatchSet) (uint64, any, error) {
		return x3(st.ConfigEntry(ws, structs.ProxyDefaults, structs.ProxyConfigGlobal, nil))
	})
	for _, g := range []string{"ingress-gw", "term-gw"} {
		g := g
		kind := structs.IngressGateway
		if g == "term-gw" {
			kind = structs.TerminatingGateway
		}
		add("ConfigEntry", kind+"/"+g, func(st *state.Store, ws memdb.WatchSet) (uint64, any, error) { return x3(st.ConfigEntry(ws, kind, g, nil)) })
	}
	for _, s := range u.serviceNames {
		s := s
		for _, kind := range []string{structs.ServiceDefaults, structs.ServiceResolver, structs.ServiceIntentions} {
			kind := kind
			add("ConfigEntry", kind+"/"+s, func(st *state.Store, ws memdb.WatchSet) (uint64, any, error) { return x3(st.ConfigEntry(ws, kind, s, nil)) })
		}
		add("ReadDiscoveryChainConfigEntries", s, func(st *state.Store, ws memdb.WatchSet) (uint64, any, error) {
			return x3(st.ReadDiscoveryChainConfigEntries(ws, s, nil))
		})
		add("ReadResolvedServiceConfigEntries", s, func(st *state.Store, ws memdb.WatchSet) (uint64, any, error) {
			return x3(st.ReadResolvedServiceConfigEntries(ws, s, nil, nil, structs.ProxyModeDefault))
		})
		add("IntentionMatch", "dst/"+s, func(st *state.Store, ws memdb.WatchSet) (uint64, any, error) {
			return x3(st.IntentionMatch(ws, &structs.IntentionQueryMatch{Type: structs.IntentionMatchDestination,
				Entries: []structs.IntentionMatchEntry{{Namespace: "default", Partition: "default", Name: s}}}))
		})
		add("IntentionMatch", "src/"+s, func(st *state.Store, ws memdb.WatchSet) (uint64, any, error) {
			return x3(st.IntentionMatch(ws, &structs.IntentionQueryMatch{Type: structs.IntentionMatchSource,
				Entries: []structs.IntentionMatchEntry{{Namespace: "default", Partition: "default", Name: s}}}))
		})
		add("IntentionTopology", s, func(st *state.Store, ws memdb.WatchSet) (uint64, any, error) {
			return x3(st.IntentionTopology(ws, structs.NewServiceName(s, nil), false, false, structs.IntentionTargetService))
		})
	}
	add("Intentions", "", func(st *state.Store, ws memdb.WatchSet) (uint64, any, error) {
		idx, ixns, _, err := st.Intentions(ws, nil)
		return idx, ixns, err
	})
	for _, id := range u.ixnIDs {
		id := id
		add("IntentionGet", id, func(st *state.Store, ws memdb.WatchSet) (uint64, any, error) {
			idx, ce, ixn, err := st.IntentionGet(ws, id)
			return idx, []any{ce, ixn}, err
		})
	}
	add("ResolvedExportedServices", "", func(st *state.Store, ws memdb.WatchSet) (uint64, any, error) { return x3(st.ResolvedExportedServices(ws, em)) })

	// peering
	add("PeeringList", "", func(st *state.Store, ws memdb.WatchSet) (uint64, any, error) { return x3(st.PeeringList(ws, *em)) })
	add("PeeringTrustBundleList", "", func(st *state.Store, ws memdb.WatchSet) (uint64, any, error) { return x3(st.PeeringTrustBundleList(ws, *em)) })
	for _, p := range u.peerNames {
		p := p
		add("PeeringRead", p, func(st *state.Store, ws memdb.WatchSet) (uint64, any, error) { return x3(st.PeeringRead(ws, state.Query{Value: p})) })
		add("PeeringTrustBundleRead", p, func(st *state.Store, ws memdb.WatchSet) (uint64, any, error) {
			return x3(st.PeeringTrustBundleRead(ws, state.Query{Value: p}))
		})
	}
	for _, id := range u.peerIDs {
		id := id
		add("PeeringReadByID", id, func(st *state.Store, ws memdb.WatchSet) (uint64, any, error) { return x3(st.PeeringReadByID(ws, id)) })
		add("ExportedServicesForPeer", id, func(st *state.Store, ws memdb.WatchSet) (uint64, any, error) { return x3(st.ExportedServicesForPeer(ws, id, "dc1")) })
	}
	for _, s := range u.serviceNames[:3] {
		s := s
		add("PeeringsForService", s, func(st *state.Store, ws memdb.WatchSet) (uint64, any, error) { return x3(st.PeeringsForService(ws, s, *em)) })
		add("TrustBundleListByService", s, func(st *state.Store, ws memdb.WatchSet) (uint64, any, error) {
			return x3(st.TrustBundleListByService(ws, s, "dc1", *em))
		})
	}

	// Connect CA
	add("CARoots", "", func(st *state.Store, ws memdb.WatchSet) (uint64, any, error) { return x3(st.CARoots(ws)) })
	add("CARootActive", "", func(st *state.Store, ws memdb.WatchSet) (uint64, any, error) { return x3(st.CARootActive(ws)) })
	add("CAConfig", "", func(st *state.Store, ws memdb.WatchSet) (uint64, any, error) { return x3(st.CAConfig(ws)) })
	add("CARootsAndConfig", "", func(st *state.Store, ws memdb.WatchSet) (uint64, any, error) {
		idx, roots, cfg, err := st.CARootsAndConfig(ws)
		return idx, []any{roots, cfg}, err
	})

	// prepared queries
	add("PreparedQueryList", "", func(st *state.Store, ws memdb.WatchSet) (uint64, any, error) { return x3(st.PreparedQueryList(ws)) })
	for _, id := range u.queryIDs {
		id := id
		add("PreparedQueryGet", id, func(st *state.Store, ws memdb.WatchSet) (uint64, any, error) { return x3(st.PreparedQueryGet(ws, id)) })
	}
	add("SystemMetadataList", "", func(st *state.Store, ws memdb.WatchSet) (uint64, any, error) { return x3(st.SystemMetadataList(ws)) })
	for _, k := range u.sysKeys {
		k := k
		add("SystemMetadataGet", k, func(st *state.Store, ws memdb.WatchSet) (uint64, any, error) { return x3(st.SystemMetadataGet(ws, k)) })
	}

	// read paths that no family evaluated before round 4
	add("SessionListAll", "", func(st *state.Store, ws memdb.WatchSet) (uint64, any, error) { return x3(st.SessionListAll(ws)) })
	add("FederationStateList", "", func(st *state.Store, ws memdb.WatchSet) (uint64, any, error) { return x3(st.FederationStateList(ws)) })
	for _, dc := range u.dcs {
		dc := dc
		add("FederationStateGet", dc, func(st *state.Store, ws memdb.WatchSet) (uint64, any, error) { return x3(st.FederationStateGet(ws, dc)) })
	}
	add("LegacyIntentions", "", func(st *state.Store, ws memdb.WatchSet) (uint64, any, error) { return x3(st.LegacyIntentions(ws, nil)) })
	for _, src := range []string{"*", u.serviceNames[0]} {
		for _, dst := range u.serviceNames[:3] {
			src, dst := src, dst
			add("IntentionGetExact", src+"->"+dst, func(st *state.Store, ws memdb.WatchSet) (uint64, any, error) {
				idx, ce, ixn, err := st.IntentionGetExact(ws, &structs.IntentionQueryExact{SourceNS: "default", SourceName: src,
					DestinationNS: "default", DestinationName: dst})
				return idx, []any{ce, ixn}, err
			})
		}
	}
	add("ServiceUsage", "", func(st *state.Store, ws memdb.WatchSet) (uint64, any, error) { return x3(st.ServiceUsage(ws, true)) })
	add("ExportedServicesForAllPeersByName", "", func(st *state.Store, ws memdb.WatchSet) (uint64, any, error) {
		return x3(st.ExportedServicesForAllPeersByName(ws, "dc1", *em))
	})
	add("PeeringListDeleted", "", func(st *state.Store, ws memdb.WatchSet) (uint64, any, error) { return x3(st.PeeringListDeleted(ws)) })
	// round 5: the compiled discovery chain (DiscoveryChain.Get is a blocking endpoint); needs a CA configuration
	// (trust domain), which the wide histories now write at their start
	for _, s := range u.serviceNames[:3] {
		s := s
		add("ServiceDiscoveryChain", s, func(st *state.Store, ws memdb.WatchSet) (uint64, any, error) {
			idx, chain, _, err := st.ServiceDiscoveryChain(ws, s, em, discoverychain.CompileRequest{ServiceName: s, EvaluateInNamespace: "default",
				EvaluateInPartition: "default", EvaluateInDatacenter: "dc1"})
			return idx, chain, err
		}).Service = s
	}
	return qs
}
