//go:build verif

package main

import (
	"fmt"
	"time"

	"github.com/hashicorp/consul/agent/structs"
	"github.com/hashicorp/consul/api"
	"github.com/hashicorp/consul/internal/verifharness/hx"
)

// Part B, state-aware commands (round 5). The blind generator of xgen.go picks the target of every command
// from the name pools, so commands that only do something when their target EXISTS (config entry delete /
// delete-CAS with the right index, intention update / delete by ID, a check re-registered with the same
// status but another Output / Notes / Name / Definition) almost never reach the interesting branch: the
// coverage run of round 5 showed deleteConfigEntryTxn, intentionMutationDelete, intentionMutationLegacyUpdate
// and the legacy intention delete path never getting past "nothing there". The commands below read the
// current state of the real store and aim at something that is there.

// refreshFields: the fields of a health check that HealthCheck.IsSame compares besides Status; a check
// re-registered with one of them changed is rewritten (new ModifyIndex) and must wake every query that
// embeds it.
var refreshFields = []string{"output", "output", "output", "notes", "name", "definition", "type", "status"}

// refreshedCheck returns a copy of an existing check row with exactly one field changed.
func refreshedCheck(r *hx.RNG, c *structs.HealthCheck) (*structs.HealthCheck, string) {
	n := *c
	n.RaftIndex = structs.RaftIndex{}
	f := hx.Pick(r, refreshFields)
	switch f {
	case "output":
		n.Output = hx.Pick(r, []string{"", "ok", "timeout", "TTL expired", "ok\x00", "OK"})
		if n.Output == c.Output {
			n.Output = c.Output + "."
		}
	case "notes":
		n.Notes = hx.Pick(r, []string{"", "note", "Note"})
		if n.Notes == c.Notes {
			n.Notes = c.Notes + "."
		}
	case "name":
		n.Name = hx.Pick(r, []string{"chk", "Chk", "check of the node"})
		if n.Name == c.Name {
			n.Name = c.Name + "."
		}
	case "definition":
		n.Definition.Interval = time.Duration(1+r.Intn(3)) * time.Second
		if n.Definition.Interval == c.Definition.Interval {
			n.Definition.Timeout = c.Definition.Timeout + time.Second
		}
	case "type":
		// Type is NOT compared by IsSame: re-registering with another Type alone rewrites nothing
		n.Type = hx.Pick(r, []string{"ttl", "http", ""})
	default:
		n.Status = hx.Pick(r, []string{api.HealthPassing, api.HealthWarning, api.HealthCritical})
	}
	return &n, f
}

// checkRefreshEntry wraps a refreshed check into one of the write paths that end in ensureCheckTxn: the catalog
// registration (Check / Checks, as the agent's anti-entropy sync sends it; the node part repeats the stored row
// so that the node itself is not modified), a transaction check-set, a check-CAS with the current index, or a
// two-operation transaction (the check plus a KV write).
func checkRefreshEntry(r *hx.RNG, node *structs.Node, old, c *structs.HealthCheck, field string, idx uint64) entry {
	level := "node-level"
	if c.ServiceID != "" {
		level = "service-level"
	}
	d := fmt.Sprintf("node=%s chk=%s svcid=%q peer=%q %s field=%s status=%s", c.Node, c.CheckID, c.ServiceID, c.PeerName, level, field, c.Status)
	switch k := r.Intn(100); {
	case k < 55 || c.PeerName != "":
		req := structs.RegisterRequest{Datacenter: "dc1", Node: c.Node, PeerName: c.PeerName, Address: "127.0.0.1", SkipNodeUpdate: true}
		if node != nil {
			req.ID, req.Address, req.TaggedAddresses, req.NodeMeta, req.Locality = node.ID, node.Address, node.TaggedAddresses, node.Meta, node.Locality
			req.SkipNodeUpdate = r.Chance(30)
		}
		if r.Chance(70) {
			req.Check = c
		} else {
			req.Checks = structs.HealthChecks{c}
		}
		return entry{data: enc(structs.RegisterRequestType, &req), kind: "register", desc: "register(check refresh) " + d}
	case k < 75:
		req := structs.TxnRequest{Datacenter: "dc1", Ops: structs.TxnOps{&structs.TxnOp{Check: &structs.TxnCheckOp{Verb: api.CheckSet, Check: *c}}}}
		return entry{data: enc(structs.TxnRequestType, &req), kind: "txn", desc: "txn chk:set(refresh) " + d}
	case k < 88:
		cc := *c
		cc.ModifyIndex = old.ModifyIndex
		if r.Chance(25) {
			cc.ModifyIndex++ // stale CAS: the whole transaction is refused
		}
		req := structs.TxnRequest{Datacenter: "dc1", Ops: structs.TxnOps{&structs.TxnOp{Check: &structs.TxnCheckOp{Verb: api.CheckCAS, Check: cc}}}}
		return entry{data: enc(structs.TxnRequestType, &req), kind: "txn", desc: fmt.Sprintf("txn chk:cas@%d(refresh) %s", cc.ModifyIndex, d)}
	default:
		kv := &structs.TxnOp{KV: &structs.TxnKVOp{Verb: api.KVSet, DirEnt: structs.DirEntry{Key: "a/b", Value: []byte("v")}}}
		if r.Chance(30) {
			// the second operation fails: nothing of the transaction may be visible
			kv = &structs.TxnOp{KV: &structs.TxnKVOp{Verb: api.KVCheckIndex, DirEnt: structs.DirEntry{Key: "a/b", RaftIndex: structs.RaftIndex{ModifyIndex: idx + 1000}}}}
		}
		ops := structs.TxnOps{&structs.TxnOp{Check: &structs.TxnCheckOp{Verb: api.CheckSet, Check: *c}}, kv}
		if r.Bool() {
			ops[0], ops[1] = ops[1], ops[0]
		}
		req := structs.TxnRequest{Datacenter: "dc1", Ops: ops}
		return entry{data: enc(structs.TxnRequestType, &req), kind: "txn", desc: fmt.Sprintf("txn chk:set(refresh)+kv:%s %s", kv.KV.Verb, d)}
	}
}

func findNode(nodes []*structs.Node, name, peer string) *structs.Node {
	for _, n := range nodes {
		if n.Node == name && n.PeerName == peer {
			return n
		}
	}
	return nil
}

// refreshCheck: an existing check (node level preferred) is written again with one field changed.
func (g *gen) refreshCheck() entry {
	if g.store == nil {
		return g.register()
	}
	t := g.store().VerifStoreTables()
	if len(t.Checks) == 0 {
		return g.register()
	}
	var pool []*structs.HealthCheck
	if g.r.Chance(60) {
		for _, c := range t.Checks {
			if c.ServiceID == "" {
				pool = append(pool, c)
			}
		}
	}
	if len(pool) == 0 {
		pool = t.Checks
	}
	old := pool[g.r.Intn(len(pool))]
	c, f := refreshedCheck(g.r, old)
	return checkRefreshEntry(g.r, findNode(t.Nodes, old.Node, old.PeerName), old, c, f, g.idx)
}

// existingConfigEntry: delete / delete-CAS / re-upsert of a config entry that exists.
func (g *gen) existingConfigEntry() entry {
	r := g.r
	if g.store == nil {
		return g.systemMetadata()
	}
	_, es, err := g.store().ConfigEntries(nil, nil)
	if err != nil || len(es) == 0 {
		if e, ok := g.configEntryOp(); ok {
			return e
		}
		return g.systemMetadata()
	}
	cur := es[r.Intn(len(es))]
	d := cur.GetKind() + "/" + cur.GetName()
	switch k := r.Intn(100); {
	case k < 45:
		req := structs.ConfigEntryRequest{Datacenter: "dc1", Op: structs.ConfigEntryDelete, Entry: cur}
		return entry{data: enc(structs.ConfigEntryRequestType, &req), kind: "config-entry", desc: "config delete(existing) " + d, svcNames: cfgSvcNames(cur)}
	case k < 70:
		// a fresh entry of the same kind and name carrying the CAS index (the stored object is never modified)
		mi := cur.GetRaftIndex().ModifyIndex
		if r.Chance(25) {
			mi--
		}
		for i := 0; i < 40; i++ {
			e, _ := g.configEntry()
			if e.GetKind() != cur.GetKind() || e.Normalize() != nil || e.GetName() != cur.GetName() {
				continue
			}
			e.GetRaftIndex().ModifyIndex = mi
			req := structs.ConfigEntryRequest{Datacenter: "dc1", Op: structs.ConfigEntryDeleteCAS, Entry: e}
			return entry{data: enc(structs.ConfigEntryRequestType, &req), kind: "config-entry", desc: fmt.Sprintf("config delete-cas@%d(existing) %s", mi, d), svcNames: cfgSvcNames(cur)}
		}
		req := structs.ConfigEntryRequest{Datacenter: "dc1", Op: structs.ConfigEntryDelete, Entry: cur}
		return entry{data: enc(structs.ConfigEntryRequestType, &req), kind: "config-entry", desc: "config delete(existing) " + d, svcNames: cfgSvcNames(cur)}
	default:
		// another version of the same entry (upsert / upsert-CAS with the current index)
		for i := 0; i < 40; i++ {
			e, _ := g.configEntry()
			if e.GetKind() != cur.GetKind() || e.Normalize() != nil || e.GetName() != cur.GetName() || e.Validate() != nil {
				continue
			}
			op := structs.ConfigEntryUpsert
			if r.Chance(40) {
				op = structs.ConfigEntryUpsertCAS
				e.GetRaftIndex().ModifyIndex = cur.GetRaftIndex().ModifyIndex
			}
			req := structs.ConfigEntryRequest{Datacenter: "dc1", Op: op, Entry: e}
			return entry{data: enc(structs.ConfigEntryRequestType, &req), kind: "config-entry", desc: fmt.Sprintf("config %s(existing) %s", op, d), svcNames: cfgSvcNames(e)}
		}
		req := structs.ConfigEntryRequest{Datacenter: "dc1", Op: structs.ConfigEntryDelete, Entry: cur}
		return entry{data: enc(structs.ConfigEntryRequestType, &req), kind: "config-entry", desc: "config delete(existing) " + d, svcNames: cfgSvcNames(cur)}
	}
}

// existingIntention: update / delete of an intention that exists (legacy table or service-intentions entry,
// whichever the history's intention format uses).
func (g *gen) existingIntention() entry {
	r := g.r
	if g.store == nil {
		return g.intention()
	}
	_, ixns, fromConfig, err := g.store().Intentions(nil, nil)
	if err != nil || len(ixns) == 0 {
		return g.intention()
	}
	cur := ixns[r.Intn(len(ixns))]
	action := structs.IntentionActionAllow
	if cur.Action == structs.IntentionActionAllow {
		action = structs.IntentionActionDeny
	}
	if fromConfig {
		mut := &structs.IntentionMutation{Destination: structs.NewServiceName(cur.DestinationName, nil), Source: structs.NewServiceName(cur.SourceName, nil)}
		op := hx.Pick(r, []structs.IntentionOp{structs.IntentionOpDelete, structs.IntentionOpDelete, structs.IntentionOpUpdate, structs.IntentionOpUpsert})
		if op != structs.IntentionOpDelete {
			mut.Value = &structs.SourceIntention{Name: cur.SourceName, Action: action, Precedence: 9, Type: structs.IntentionSourceConsul,
				LegacyID: cur.ID, LegacyCreateTime: &g.fixedTime, LegacyUpdateTime: &g.fixedTime}
			mut.Value.EnterpriseMeta = *structs.DefaultEnterpriseMetaInDefaultPartition()
		}
		if cur.ID != "" && (op == structs.IntentionOpUpdate || r.Bool()) {
			mut.ID = cur.ID
		}
		if op == structs.IntentionOpUpdate && mut.ID == "" {
			op = structs.IntentionOpUpsert
		}
		req := structs.IntentionRequest{Datacenter: "dc1", Op: op, Mutation: mut}
		return entry{data: enc(structs.IntentionRequestType, &req), kind: "intention-mutation",
			desc: fmt.Sprintf("ixn-mutation(existing) %s %s->%s id=%q", op, cur.SourceName, cur.DestinationName, mut.ID)}
	}
	op := hx.Pick(r, []structs.IntentionOp{structs.IntentionOpUpdate, structs.IntentionOpDelete, structs.IntentionOpDelete})
	ixn := &structs.Intention{ID: cur.ID, SourceNS: "default", SourceName: cur.SourceName, DestinationNS: "default", DestinationName: cur.DestinationName,
		SourceType: structs.IntentionSourceConsul, Action: action, Meta: map[string]string{}, CreatedAt: g.fixedTime, UpdatedAt: g.fixedTime}
	ixn.UpdatePrecedence()
	//nolint:staticcheck
	ixn.SetHash()
	req := structs.IntentionRequest{Datacenter: "dc1", Op: op, Intention: ixn}
	return entry{data: enc(structs.IntentionRequestType, &req), kind: "intention-legacy",
		desc: fmt.Sprintf("ixn-legacy(existing) %s %s %s->%s", op, ixn.ID, cur.SourceName, cur.DestinationName)}
}

// caSetConfig: the first CA configuration of a cluster (what the leader's CA initialisation commits)
func (g *gen) caSetConfig() entry {
	req := structs.CARequest{Datacenter: "dc1", Op: structs.CAOpSetConfig, Config: g.caConfig()}
	return entry{data: enc(structs.ConnectCARequestType, &req), kind: "connect-ca", desc: "ca set-config (initial) cluster=" + req.Config.ClusterID}
}
