//go:build verif

package main

import (
	"fmt"
	"strings"
	"time"

	memdb "github.com/hashicorp/go-memdb"

	"github.com/hashicorp/consul/agent/consul"
	"github.com/hashicorp/consul/agent/consul/state"
	"github.com/hashicorp/consul/agent/structs"
	"github.com/hashicorp/consul/api"
	"github.com/hashicorp/consul/internal/verifharness/hx"
	"github.com/hashicorp/consul/types"
)

// Part B, tag family (monitor only): the tag-filtered per-service read paths ServiceTagNodes /
// CheckServiceTagNodes. They report the index of maxIndexForService(serviceExists) where `serviceExists`
// must mean "the service has instances", NOT "the filtered result is non-empty": otherwise, once some service
// has gone extinct (the service-last-extinction row exists), removing or re-tagging the last MATCHING instance
// while a non-matching sibling remains makes the index fall back to the stale extinction index.
//
// The family needs what the broad Part B histories reach only rarely: a previous extinction, a service with
// several instances carrying different tag sets, filters over the whole tag pool, and writes that re-tag or
// remove single instances. Names are chosen so that none of the recorded mechanisms can occur (an instance id
// is always registered under the same service name, a check id is derived from the instance id, no case
// variants of names, node names of two bytes): every verdict of the monitor here is a genuine one.

var (
	tagNodes    = []string{"n1", "n2", "n3"}
	tagServices = []string{"web", "db"}
	tagPool     = [][]string{nil, {"v1"}, {"v2"}, {"v1", "v2"}, {"primary"}, {"V1"}, {"v2", "primary"}}
	tagFilters  = [][]string{{"v1"}, {"v2"}, {"primary"}, {"v1", "v2"}, {"V2"}, {"nosuch"}}
)

func tagQueries() []*query {
	var qs []*query
	add := func(kind, arg, svc string, f func(st *state.Store, ws memdb.WatchSet) (uint64, any, error)) {
		qs = append(qs, &query{Kind: kind, Arg: arg, Service: svc, Run: func(st *state.Store, ws memdb.WatchSet) (uint64, string) {
			idx, v, err := f(st, ws)
			if err != nil {
				return idx, "err=" + fmt.Sprintf("%q", err.Error())
			}
			return idx, canonSorted(v)
		}})
	}
	for _, s := range append(append([]string(nil), tagServices...), "old") {
		s := s
		add("ServiceNodes", s, s, func(st *state.Store, ws memdb.WatchSet) (uint64, any, error) {
			return x3(st.ServiceNodes(ws, s, nil, ""))
		})
		add("CheckServiceNodes", s, s, func(st *state.Store, ws memdb.WatchSet) (uint64, any, error) {
			return x3(st.CheckServiceNodes(ws, s, nil, ""))
		})
		for _, f := range tagFilters {
			f := f
			arg := s + "," + strings.Join(f, "+")
			add("ServiceTagNodes", arg, s, func(st *state.Store, ws memdb.WatchSet) (uint64, any, error) {
				return x3(st.ServiceTagNodes(ws, s, f, nil, ""))
			})
			add("CheckServiceTagNodes", arg, s, func(st *state.Store, ws memdb.WatchSet) (uint64, any, error) {
				return x3(st.CheckServiceTagNodes(ws, s, f, nil, ""))
			})
		}
	}
	add("Services", "", "", func(st *state.Store, ws memdb.WatchSet) (uint64, any, error) {
		return x3(st.Services(ws, nil, "", false))
	})
	add("ServiceList", "", "", func(st *state.Store, ws memdb.WatchSet) (uint64, any, error) { return x3(st.ServiceList(ws, nil, "")) })
	for _, n := range tagNodes {
		n := n
		add("NodeServices", n, "", func(st *state.Store, ws memdb.WatchSet) (uint64, any, error) {
			return x3(st.NodeServices(ws, n, nil, ""))
		})
	}
	return qs
}

type tagGen struct{ r *hx.RNG }

func (g *tagGen) tags() []string { return append([]string(nil), tagPool[g.r.Intn(len(tagPool))]...) }

// instance: (service name, instance id); the id determines the name
func (g *tagGen) instance() (string, string) {
	name := hx.Pick(g.r, tagServices)
	if g.r.Chance(40) {
		return name, name + "-2"
	}
	return name, name
}

func tagReg(node, name, id string, tags []string, status string) entry {
	svc := &structs.NodeService{ID: id, Service: name, Port: 8000, Tags: tags}
	req := structs.RegisterRequest{Datacenter: "dc1", Node: node, Address: "127.0.0.1", Service: svc}
	d := fmt.Sprintf("register node=%s svc=%s/%s tags=%v", node, id, name, tags)
	if status != "" {
		req.Check = &structs.HealthCheck{Node: node, CheckID: types.CheckID("chk:" + id), Name: "chk", Status: status, ServiceID: id}
		d += " chk:" + id + "=" + status
	}
	return entry{data: enc(structs.RegisterRequestType, &req), kind: "register", desc: d}
}

func tagDeregSvc(node, id string) entry {
	req := structs.DeregisterRequest{Datacenter: "dc1", Node: node, ServiceID: id}
	return entry{data: enc(structs.DeregisterRequestType, &req), kind: "deregister", desc: fmt.Sprintf("deregister node=%s svc=%q", node, id)}
}

func (g *tagGen) next() entry {
	r := g.r
	node := hx.Pick(r, tagNodes)
	name, id := g.instance()
	switch k := r.Intn(100); {
	case k < 50: // register / re-tag an instance
		status := ""
		if r.Chance(30) {
			status = hx.Pick(r, []string{api.HealthPassing, api.HealthCritical})
		}
		return tagReg(node, name, id, g.tags(), status)
	case k < 75:
		return tagDeregSvc(node, id)
	case k < 80:
		return wDereg(node)
	case k < 88: // re-tag through a transaction
		s := structs.NodeService{ID: id, Service: name, Port: 8000, Tags: g.tags()}
		req := structs.TxnRequest{Datacenter: "dc1", Ops: structs.TxnOps{&structs.TxnOp{Service: &structs.TxnServiceOp{Verb: api.ServiceSet, Node: node, Service: s}}}}
		return entry{data: enc(structs.TxnRequestType, &req), kind: "txn", desc: fmt.Sprintf("txn svc:set node=%s %s/%s tags=%v", node, id, name, s.Tags)}
	case k < 94: // a check of an instance changes
		c := structs.HealthCheck{Node: node, CheckID: types.CheckID("chk:" + id), Name: "chk", ServiceID: id,
			Status: hx.Pick(r, []string{api.HealthPassing, api.HealthWarning, api.HealthCritical})}
		req := structs.TxnRequest{Datacenter: "dc1", Ops: structs.TxnOps{&structs.TxnOp{Check: &structs.TxnCheckOp{Verb: api.CheckSet, Check: c}}}}
		return entry{data: enc(structs.TxnRequestType, &req), kind: "txn", desc: fmt.Sprintf("txn chk:set node=%s chk:%s=%s", node, id, c.Status)}
	default: // a service that comes and goes: (another) extinction
		if r.Chance(50) {
			return tagReg(node, "old", "old", g.tags(), "")
		}
		return tagDeregSvc(node, "old")
	}
}

// tagScenarios: fixed histories of the family, run on every seed. On the code as it is they satisfy the contract.
func tagScenarios() [][]entry {
	ext := []entry{tagReg("n3", "old", "old", nil, ""), tagDeregSvc("n3", "old")} // an extinction index row exists
	two := []entry{tagReg("n1", "web", "web", []string{"v1"}, api.HealthPassing), tagReg("n2", "web", "web", []string{"v2"}, "")}
	cat := func(xs ...[]entry) (out []entry) {
		for _, x := range xs {
			out = append(out, x...)
		}
		return
	}
	return [][]entry{
		// the last matching instance is deregistered, a sibling with other tags remains
		cat(ext, two, []entry{tagDeregSvc("n1", "web"), tagDeregSvc("n2", "web")}),
		// … is re-tagged
		cat(ext, two, []entry{tagReg("n1", "web", "web", []string{"primary"}, ""), tagReg("n1", "web", "web", []string{"v1"}, "")}),
		// … its node is deregistered
		cat(ext, two, []entry{wDereg("n1"), wDereg("n2")}),
		// two instances on one node, re-tag through a transaction
		cat(ext, []entry{tagReg("n1", "db", "db", []string{"v1", "v2"}, ""), tagReg("n1", "db", "db-2", nil, api.HealthCritical),
			tagReg("n1", "db", "db", []string{"v2"}, ""), tagDeregSvc("n1", "db"), tagDeregSvc("n1", "db-2")}),
		// the same without a previous extinction
		cat(two, []entry{tagDeregSvc("n1", "web"), tagDeregSvc("n2", "web")}),
	}
}

func tagHistories(run *hx.Run, n, maxOps int) {
	qs := tagQueries()
	run.Extra["tag_queries"] = len(qs)
	scen := tagScenarios()
	for i := 0; i < len(scen)+n; i++ {
		r := run.RNG.Fork(uint64(7000000 + i))
		w := newWideWorld()
		srv := consul.NewVerifC06Server(w.F, 5*time.Second)
		sw := newSweep(w.Store(), qs)
		sw.twice, sw.run = true, run
		g := &tagGen{r: r}
		var descs []string
		replay := func() []string { return append([]string(nil), descs...) }
		idx := uint64(1 + r.Intn(3))
		nontrv := false
		e2e := i < len(scen) || i%3 == 0
		var fixed []entry
		if i < len(scen) {
			fixed = scen[i]
			run.Tag("tag-history:scenario")
		} else {
			run.Tag("tag-history:generated")
			if r.Chance(75) { // most histories start with an extinction
				node := hx.Pick(r, tagNodes)
				fixed = []entry{tagReg(node, "old", "old", g.tags(), ""), tagDeregSvc(node, "old")}
			}
		}
		steps := len(fixed)
		if i >= len(scen) {
			steps += 3 + r.Intn(maxOps)
		}
		for k := 0; k < steps; k++ {
			idx += 1 + uint64(r.Intn(100)/85*r.Intn(4))
			if i >= len(scen) && k > len(fixed)+2 && r.Chance(3) {
				descs = append(descs, fmt.Sprintf("@%d snapshot + restore", idx))
				restoreStep(run, w, srv, sw, r, replay)
				continue
			}
			var e entry
			if k < len(fixed) {
				e = fixed[k]
			} else {
				e = g.next()
			}
			e.idx = idx
			before, gwBefore := w.Store().VerifStoreTables(), gatewayRows(w)
			var bs []*blocked
			if e2e {
				for j, q := range qs {
					if r.Chance(8) {
						bs = append(bs, block(srv, q, sw.last[j]))
					}
				}
			}
			res := applyEntry(w, e)
			after, gwAfter := w.Store().VerifStoreTables(), gatewayRows(w)
			descs = append(descs, fmt.Sprintf("@%d %s => %s", e.idx, e.desc, clip(res, 80)))
			run.Tag("tag-op:" + e.kind)
			wi := &writeInfo{kind: e.kind, desc: e.desc}
			wi.shape = func(q *query, ob, oa obs) string {
				return shapeOfWide(q, e.trees, &before, &after, gwBefore, gwAfter, ob, oa)
			}
			sw.across(run, w.Store(), wi, replay, func(v *verdict) {
				if v.changed {
					nontrv = true
					if strings.HasSuffix(v.q.Kind, "TagNodes") && v.before.res != "[]" && v.after.res == "[]" {
						run.Tag("tag-family:filtered-result-emptied:" + v.q.Kind)
					}
				}
			})
			settle(run, bs, wi, replay)
		}
		run.Case("tags\n"+strings.Join(descs, "\n"), nontrv)
	}
}
