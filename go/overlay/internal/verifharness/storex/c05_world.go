//go:build verif

package storex

// Additions for the C05 harness (transactions all-or-nothing and isolated): a world whose state store
// publishes into a recording EventPublisher, a pre-registered WatchSet over the read paths, read-only
// transactions, and a twin world for the "transaction = fold of its operations" monitor.

import (
	"fmt"
	"os"

	"github.com/hashicorp/go-hclog"
	"github.com/hashicorp/go-memdb"

	"github.com/hashicorp/consul/agent/consul/fsm"
	"github.com/hashicorp/consul/agent/consul/state"
	"github.com/hashicorp/consul/agent/consul/stream"
	"github.com/hashicorp/consul/internal/verifharness/hx"
)

// RecPublisher records what the state store hands to the event publisher at commit time.
type RecPublisher struct {
	Calls  int // Publish calls (one per committed write transaction, even with no events)
	Events int // events published
	MaxIdx uint64
	LastMin, LastMax uint64 // index range of the data events of the last Publish call
	DataEvents       int    // events with a topic
}

func (p *RecPublisher) Publish(evs []stream.Event) {
	p.Calls++
	p.Events += len(evs)
	p.LastMin, p.LastMax = 0, 0
	first := true
	for _, e := range evs {
		if e.Topic == nil {
			continue // framework event (close-subscription marker), carries no data index
		}
		if e.Index > p.MaxIdx {
			p.MaxIdx = e.Index
		}
		if first || e.Index < p.LastMin {
			p.LastMin = e.Index
		}
		if e.Index > p.LastMax {
			p.LastMax = e.Index
		}
		first = false
		p.DataEvents++
		if os.Getenv("VERIF_DEBUG") != "" {
			fmt.Fprintf(os.Stderr, "EVENT topic=%v index=%d payload=%T\n", e.Topic, e.Index, e.Payload)
		}
	}
}
func (p *RecPublisher) RegisterHandler(stream.Topic, stream.SnapshotFunc, bool) error { return nil }
func (p *RecPublisher) Subscribe(*stream.SubscribeRequest) (*stream.Subscription, error) {
	return nil, fmt.Errorf("recording publisher: no subscriptions")
}

// C05NewWorld returns a world whose store publishes into a fresh RecPublisher.
func C05NewWorld() (*World, *RecPublisher) {
	pub := &RecPublisher{}
	f := fsm.NewFromDeps(fsm.Deps{
		Logger:         hclog.NewNullLogger(),
		NewStateStore:  func() *state.Store { return state.NewStateStoreWithEventPublisher(nil, pub) },
		StorageBackend: fsm.NullStorageBackend,
	})
	return &World{F: f}, pub
}

// C05WatchSet registers watches on the read paths a blocking query would use, over the name universes.
func (w *World) C05WatchSet(extraKeys []string) memdb.WatchSet {
	ws := memdb.NewWatchSet()
	st := w.Store()
	for _, k := range append(append([]string(nil), Keys...), extraKeys...) {
		if k != "" {
			st.KVSGet(ws, k, nil)
		}
	}
	for _, p := range Prefixes {
		st.KVSList(ws, p, nil)
	}
	st.SessionList(ws, nil)
	for _, id := range Sessions {
		st.SessionGet(ws, id, nil)
	}
	st.Nodes(ws, nil, "")
	for _, n := range []string{"n1", "n2", "n3", "zz"} {
		st.NodeServices(ws, n, nil, "")
		st.NodeChecks(ws, n, nil, "")
		st.NodeSessions(ws, n, nil)
	}
	for _, s := range []string{"web", "db", "Web"} {
		st.ServiceNodes(ws, s, nil, "")
		st.CheckServiceNodes(ws, s, nil, "")
	}
	st.ChecksInState(ws, "any", nil, "")
	for _, q := range QueryIDs {
		st.PreparedQueryGet(ws, q)
	}
	return ws
}

// Fired reports whether any channel of the watch set has been closed.
func Fired(ws memdb.WatchSet) bool {
	for ch := range ws {
		select {
		case <-ch:
			return true
		default:
		}
	}
	return false
}

// ROLine runs a read-only transaction (Store.TxnRO) and renders it for the engine's `txnro`.
func (w *World) ROLine(ts []TxnOpArg) (op string, out string) {
	toks := make([]string, len(ts))
	for i := range ts {
		toks[i] = ts[i].token()
	}
	op = "txnro " + hx.EncList(toks)
	defer func() {
		if r := recover(); r != nil {
			out = fmt.Sprintf("panic(%s)", hx.EncS(fmt.Sprint(r)))
		}
	}()
	res, errs := w.Store().TxnRO(txnOps(ts))
	return op, canonTxn(res, errs)
}

// IsReadOp mirrors the HTTP layer's classification (agent/txn_endpoint.go): everything not counted as a write.
func (t *TxnOpArg) IsReadOp() bool {
	switch t.Fam {
	case 'k':
		switch t.Verb {
		case "get", "get-or-empty", "get-tree", "check-session", "check-index", "check-not-exists":
			return true
		}
		return false
	case 'n', 's', 'c':
		return t.Verb == "get"
	}
	return false
}

// Token exposes the protocol token of one transaction operation.
func (t *TxnOpArg) Token() string { return t.token() }

// C05TxnOp exposes the generator of one transaction operation.
func (g *Gen) C05TxnOp() TxnOpArg { return g.txnOp() }

// C05NewHistory is NewHistory on a world with a recording publisher.
func C05NewHistory(run *hx.Run, r *hx.RNG, mons []Monitor) (*History, *RecPublisher) {
	w, pub := C05NewWorld()
	h := &History{Run: run, W: w, Mons: mons, Tags: map[string]bool{}, R: r}
	for _, m := range mons {
		m.Reset()
	}
	run.Line("reset", "ok")
	h.Lines = append(h.Lines, "reset")
	h.Last = h.W.Observe(Keys)
	return h, pub
}

// MarkNontrivial lets a harness flag the current history as having hit a non-default branch.
func (h *History) MarkNontrivial() { h.nontrv = true }

// Tag records a branch tag for the history.
func (h *History) Tag(t string) { h.tag(t) }

// C05ChangedRowsCarry checks that every row added or changed between two snapshots carries index idx
// (ModifyIndex for KV / node / service / check / prepared query rows, CreateIndex for sessions, the value
// for index-table rows and tombstones). It returns "" or "<table> <description>".
func C05ChangedRowsCarry(before, after *Snap, idx uint64) string {
	b, a := &before.T, &after.T
	old := map[string]string{}
	key := func(t string, k string) string { return t + "\x00" + k }
	for _, e := range b.KVs {
		old[key("kvs", e.Key)] = showKV(e)
	}
	for _, e := range a.KVs {
		if old[key("kvs", e.Key)] != showKV(e) && e.ModifyIndex != idx {
			return fmt.Sprintf("kvs key %q changed/added with ModifyIndex %d, transaction index %d", e.Key, e.ModifyIndex, idx)
		}
	}
	for _, t := range b.Tombstones {
		old[key("tomb", t.Key)] = fmt.Sprint(t.Index)
	}
	for _, t := range a.Tombstones {
		if old[key("tomb", t.Key)] != fmt.Sprint(t.Index) && t.Index != idx {
			return fmt.Sprintf("tombstones key %q has index %d, transaction index %d", t.Key, t.Index, idx)
		}
	}
	for _, n := range b.Nodes {
		old[key("nodes", lc(n.Node))] = fmt.Sprintf("%s|%s|%s|%d|%d", n.Node, n.ID, n.Address, n.CreateIndex, n.ModifyIndex)
	}
	for _, n := range a.Nodes {
		if old[key("nodes", lc(n.Node))] != fmt.Sprintf("%s|%s|%s|%d|%d", n.Node, n.ID, n.Address, n.CreateIndex, n.ModifyIndex) && n.ModifyIndex != idx {
			return fmt.Sprintf("nodes row %q changed/added with ModifyIndex %d, transaction index %d", n.Node, n.ModifyIndex, idx)
		}
	}
	for _, v := range b.Services {
		old[key("svcs", lc(v.Node)+"/"+lc(v.ServiceID))] = fmt.Sprintf("%s|%s|%d|%d|%d", v.ServiceID, v.ServiceName, v.ServicePort, v.CreateIndex, v.ModifyIndex)
	}
	for _, v := range a.Services {
		if old[key("svcs", lc(v.Node)+"/"+lc(v.ServiceID))] != fmt.Sprintf("%s|%s|%d|%d|%d", v.ServiceID, v.ServiceName, v.ServicePort, v.CreateIndex, v.ModifyIndex) && v.ModifyIndex != idx {
			return fmt.Sprintf("services row %s/%s changed/added with ModifyIndex %d, transaction index %d", v.Node, v.ServiceID, v.ModifyIndex, idx)
		}
	}
	for _, c := range b.Checks {
		old[key("chks", lc(c.Node)+"/"+lc(string(c.CheckID)))] = fmt.Sprintf("%s|%s|%s|%s|%s|%s|%d|%d", c.Status, c.ServiceID, c.ServiceName, c.Type, c.Definition.SessionName, c.Output, c.CreateIndex, c.ModifyIndex)
	}
	for _, c := range a.Checks {
		if old[key("chks", lc(c.Node)+"/"+lc(string(c.CheckID)))] != fmt.Sprintf("%s|%s|%s|%s|%s|%s|%d|%d", c.Status, c.ServiceID, c.ServiceName, c.Type, c.Definition.SessionName, c.Output, c.CreateIndex, c.ModifyIndex) && c.ModifyIndex != idx {
			tag := "checks"
			if c.Type == "session" {
				tag = "checks(session-typed)"
			}
			return fmt.Sprintf("%s row %s/%s changed/added (status %s) with ModifyIndex %d, transaction index %d", tag, c.Node, c.CheckID, c.Status, c.ModifyIndex, idx)
		}
	}
	for _, q := range b.Queries {
		old[key("pq", lc(q.ID))] = fmt.Sprintf("%s|%d", q.Session, q.ModifyIndex)
	}
	for _, q := range a.Queries {
		if old[key("pq", lc(q.ID))] != fmt.Sprintf("%s|%d", q.Session, q.ModifyIndex) && q.ModifyIndex != idx {
			return fmt.Sprintf("prepared-queries row %s changed with ModifyIndex %d, transaction index %d", q.ID, q.ModifyIndex, idx)
		}
	}
	for _, r := range b.Index {
		old[key("index", lc(r.Key))] = fmt.Sprint(r.Value)
	}
	for _, r := range a.Index {
		if old[key("index", lc(r.Key))] != fmt.Sprint(r.Value) && r.Value != idx {
			return fmt.Sprintf("index row %q changed to %d, transaction index %d", r.Key, r.Value, idx)
		}
	}
	return ""
}
