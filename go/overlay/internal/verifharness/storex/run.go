//go:build verif

package storex

import (
	"fmt"
	"strings"

	"github.com/hashicorp/consul/agent/structs"
	"github.com/hashicorp/consul/internal/verifharness/hx"
)

// History runs one generated history against a fresh FSM: every command is followed by a full dump
// line (compared with the model's dump) and by the monitors.
type History struct {
	Run    *hx.Run
	W      *World
	Mons   []Monitor
	Lines  []string // op lines so far (the replay of a violation)
	Last   *Snap
	Tags   map[string]bool
	Reads  bool // interleave get / list lines
	R      *hx.RNG
	nontrv bool
}

func NewHistory(run *hx.Run, r *hx.RNG, mons []Monitor, reads bool) *History {
	h := &History{Run: run, W: NewWorld(), Mons: mons, Tags: map[string]bool{}, Reads: reads, R: r}
	for _, m := range mons {
		m.Reset()
	}
	run.Line("reset", "ok")
	h.Lines = append(h.Lines, "reset")
	h.Last = h.W.Observe(Keys)
	return h
}

func (h *History) tag(t string) {
	h.Run.Tag(t)
	h.Tags[t] = true
}

func resClass(res string) string {
	switch {
	case strings.HasPrefix(res, "err:"):
		return res
	case strings.HasPrefix(res, "errs:"):
		return "txn-aborted"
	case strings.HasPrefix(res, "ok:"):
		return "txn-committed"
	}
	return res
}

// branchTags names the branch of the implementation an operation took, from what is observable.
func (h *History) branchTags(before, after *Snap, op *Op, res string) {
	name := opName(op)
	h.tag("op:" + name)
	h.tag("res:" + name + ":" + resClass(res))
	if op.ViaFSM {
		h.Run.Tag("path:fsm")
	} else {
		h.Run.Tag("path:store")
	}
	if op.Kind == "kv" {
		b := findKV(before, op.KV.Key)
		switch op.KV.Verb {
		case "lock":
			switch {
			case res != "true" && res != "false":
			case b == nil:
				h.tag("lock:new-key")
			case b.Session == op.KV.Session:
				h.tag("lock:reacquire")
			case b.Session != "":
				h.tag("lock:held-by-other")
			default:
				h.tag("lock:fresh")
			}
		case "set", "cas":
			a := findKV(after, op.KV.Key)
			if b != nil && a != nil && a.ModifyIndex == b.ModifyIndex && (res == "ok" || res == "true") {
				h.tag(op.KV.Verb + ":noop")
			}
			if b != nil && b.Session != "" {
				h.tag(op.KV.Verb + ":on-locked-key")
			}
			if b != nil && string(b.Value) == string(op.KV.Val) && b.Flags == op.KV.Flags && b.LockIndex == op.KV.LockIdx &&
				(op.KV.Verb == "set" || op.KV.ModIdx == b.ModifyIndex) {
				switch {
				case op.KV.Session == b.Session:
					h.tag(op.KV.Verb + ":identical-rewrite:session-field=holder")
				case op.KV.Session == "":
					h.tag(op.KV.Verb + ":identical-rewrite:locked-key-empty-session-field")
				case b.Session == "":
					h.tag(op.KV.Verb + ":identical-rewrite:unlocked-key-stray-session-field")
				default:
					h.tag(op.KV.Verb + ":identical-rewrite:locked-key-other-session-field")
				}
			}
		case "delete-tree":
			if len(after.T.KVs) < len(before.T.KVs) {
				h.tag(fmt.Sprintf("delete-tree:removed-%d", min(len(before.T.KVs)-len(after.T.KVs), 3)))
			}
			if strings.HasSuffix(op.KV.Key, "\x00") {
				h.tag("delete-tree:nul-terminated-prefix")
			}
		case "delete-cas":
			if b == nil {
				h.tag("delete-cas:absent-key")
			}
		}
		if op.KV.Key == "" {
			h.tag("kv:empty-key")
		}
	}
	for _, x := range endedSessions(before, after) {
		held := 0
		for _, e := range before.T.KVs {
			if e.Session != "" && strings.EqualFold(e.Session, x.ID) {
				held++
			}
		}
		h.tag(fmt.Sprintf("session-end:%s:via-%s:held-%d", x.Behavior, op.Kind, min(held, 2)))
		h.nontrv = true
	}
	if len(after.Delays) > len(before.Delays) {
		h.tag("lock-delay:set")
	}
	if len(after.T.Nodes) == len(before.T.Nodes) && op.Kind == "reg" && res == "ok" {
		for _, n := range after.T.Nodes {
			for _, m := range before.T.Nodes {
				if n.ID == m.ID && n.ID != "" && !strings.EqualFold(n.Node, m.Node) {
					h.tag("node:rename-by-id")
				}
			}
		}
	}
	if res != "ok" && res != "true" {
		h.nontrv = true
	}
}

// Step executes one operation, prints op + dump lines, runs the monitors.
func (h *History) Step(op *Op) string {
	line := op.Line()
	before := h.Last
	res := h.W.Exec(op)
	after := h.W.Observe(Keys)
	h.Run.Line(line, res)
	h.Run.Line("dump", after.Dump())
	h.Lines = append(h.Lines, line)
	replay := append([]string(nil), h.Lines...)
	if strings.HasPrefix(res, "panic(") || strings.Contains(res, "unmapped(") || strings.HasPrefix(res, "unexpected(") {
		h.Run.Violate("harness:unclassified-answer:"+opName(op), "the implementation answered "+res, replay)
	}
	for _, m := range h.Mons {
		m.Check(h.Run, before, after, op, res, replay)
	}
	h.branchTags(before, after, op, res)
	h.Last = after
	if h.Reads && h.R.Chance(35) {
		if h.R.Bool() {
			h.Run.Line(h.W.GetLine(hx.Pick(h.R, Keys)))
		} else {
			h.Run.Line(h.W.ListLine(hx.Pick(h.R, Prefixes)))
		}
	}
	return res
}

// ReadSweep reads every key and lists every prefix of the universe (model comparison + read monitor).
func (h *History) ReadSweep(prefixes []string) {
	for _, k := range append([]string{""}, Keys...) {
		h.Run.Line(h.W.GetLine(k))
	}
	for _, p := range prefixes {
		h.Run.Line(h.W.ListLine(p))
	}
	CheckReads(h.Run, h.W, h.Last, Keys, prefixes, append([]string(nil), h.Lines...))
}

func (h *History) Finish() {
	h.Run.Case(strings.Join(h.Lines, "\n"), h.nontrv)
}

// RandomHistories runs n generated histories of up to maxOps commands with the given profiles.
func RandomHistories(run *hx.Run, profiles []*Profile, n, maxOps int, mons func() []Monitor, reads bool) {
	for i := 0; i < n; i++ {
		r := run.RNG.Fork(uint64(i))
		p := profiles[i%len(profiles)]
		h := NewHistory(run, r, mons(), reads)
		g := &Gen{R: r, P: p, W: h.W, Idx: uint64(r.Intn(20))}
		g.Last = h.Last
		run.Tag("profile:" + p.Name)
		if r.Chance(p.Preamble) {
			for _, op := range g.Preamble() {
				h.Step(op)
				g.Last = h.Last
			}
		}
		for k := 1 + r.Intn(maxOps); k > 0; k-- {
			h.Step(g.Next())
			g.Last = h.Last
		}
		if reads {
			pf := Prefixes
			if p.NulPrefix {
				pf = append(append([]string(nil), Prefixes...), NulPrefixes...)
			}
			h.ReadSweep(pf)
		}
		if i < 3 {
			run.Sample(map[string]any{"profile": p.Name, "ops": h.Lines})
		}
		h.Finish()
	}
}

// Letter is one symbol of a small-scope alphabet: it builds its operation from the current observation
// (so that "cas with the current index" is a single symbol).
type Letter struct {
	Name string
	Make func(last *Snap, idx uint64) *Op
}

// Exhaustive enumerates every word of exactly `depth` letters over the alphabet, each on a fresh FSM
// after the fixed preamble.
func Exhaustive(run *hx.Run, preamble func() []*Op, alphabet []Letter, depth int, mons func() []Monitor, reads bool) {
	word := make([]int, depth)
	count := 0
	for {
		h := NewHistory(run, run.RNG.Fork(uint64(count)), mons(), false)
		idx := uint64(10)
		for _, op := range preamble() {
			op.Idx = idx
			idx++
			h.Step(op)
		}
		for _, l := range word {
			op := alphabet[l].Make(h.Last, idx)
			op.Idx = idx
			op.ViaFSM = (count+l)%2 == 0
			idx++
			h.Step(op)
		}
		if reads {
			h.ReadSweep(Prefixes[:5])
		}
		h.Finish()
		count++
		// next word
		i := depth - 1
		for i >= 0 {
			word[i]++
			if word[i] < len(alphabet) {
				break
			}
			word[i] = 0
			i--
		}
		if i < 0 {
			break
		}
	}
	run.Extra[fmt.Sprintf("exhaustive_depth_%d", depth)] = map[string]any{"alphabet": len(alphabet), "histories": count, "exhaustive": true}
	run.Tag(fmt.Sprintf("exhaustive:depth-%d", depth))
}

func CurModify(last *Snap, key string) uint64 {
	if e := findKV(last, key); e != nil {
		return e.ModifyIndex
	}
	return 0
}

var _ = structs.SessionKeysDelete
