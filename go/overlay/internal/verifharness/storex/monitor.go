//go:build verif

package storex

import (
	"bytes"
	"fmt"
	"sort"
	"strings"

	"github.com/hashicorp/consul/agent/structs"
	"github.com/hashicorp/consul/internal/verifharness/hx"
)

// Monitors restate the properties directly on what the implementation shows (tables before / after a
// command, the command, its answer). They never look at the Lean model.
type Monitor interface {
	Reset()
	Check(run *hx.Run, before, after *Snap, op *Op, res string, replay []string)
}

func findKV(s *Snap, key string) *structs.DirEntry {
	for _, e := range s.T.KVs {
		if e.Key == key {
			return e
		}
	}
	return nil
}

func findSession(s *Snap, id string) *structs.Session {
	for _, x := range s.T.Sessions {
		if strings.EqualFold(x.ID, id) {
			return x
		}
	}
	return nil
}

func endedSessions(before, after *Snap) []*structs.Session {
	var out []*structs.Session
	for _, x := range before.T.Sessions {
		if findSession(after, x.ID) == nil {
			out = append(out, x)
		}
	}
	return out
}

func opName(op *Op) string {
	if op.Kind == "kv" {
		return "kv-" + op.KV.Verb
	}
	return op.Kind
}

// ================================================================= C03: sequential versioned map

type ent struct {
	val                     []byte
	flags, lockIdx          uint64
	create, modify          uint64
	holder                  string
}

// RefMap is the independent Go reference: a plain map with per-key create/modify indexes, flags, lock
// counter and lock holder, updated from the property statement (not from the consul code).
type RefMap struct {
	m map[string]*ent
}

func (r *RefMap) Reset() { r.m = map[string]*ent{} }

func sameContent(a, b *ent) bool {
	return bytes.Equal(a.val, b.val) && a.flags == b.flags && a.lockIdx == b.lockIdx && a.holder == b.holder
}

func (r *RefMap) put(key string, n *ent, idx uint64) {
	if e := r.m[key]; e != nil {
		if sameContent(e, n) {
			return // a write that changes nothing does not advance ModifyIndex
		}
		n.create = e.create // CreateIndex never changes while the key exists
	} else {
		n.create = idx
	}
	n.modify = idx
	r.m[key] = n
}

// stepKV applies one KV verb to a map; returns "ok" | "true" | "false" | "err" | "fail" (txn read/check verb failed).
func stepKV(m *RefMap, a *KVArg, idx uint64, live func(string) bool) string {
	if a.Key == "" && a.Verb != "delete-tree" && a.Verb != "get-tree" {
		return "err"
	}
	e := m.m[a.Key]
	switch a.Verb {
	case "set":
		n := &ent{val: a.Val, flags: a.Flags, lockIdx: a.LockIdx}
		if e != nil {
			n.holder = e.holder
		}
		m.put(a.Key, n, idx)
		return "ok"
	case "cas":
		if a.ModIdx == 0 && e != nil || a.ModIdx != 0 && (e == nil || e.modify != a.ModIdx) {
			return "false"
		}
		n := &ent{val: a.Val, flags: a.Flags, lockIdx: a.LockIdx}
		if e != nil {
			n.holder = e.holder
		}
		m.put(a.Key, n, idx)
		return "true"
	case "delete":
		delete(m.m, a.Key)
		return "ok"
	case "delete-cas":
		if e == nil {
			return "true" // the code reports success for an absent key
		}
		if e.modify != a.ModIdx {
			return "false"
		}
		delete(m.m, a.Key)
		return "true"
	case "delete-tree":
		for k := range m.m {
			if strings.HasPrefix(k, a.Key) {
				delete(m.m, k)
			}
		}
		return "ok"
	case "lock":
		if a.Session == "" || !live(a.Session) {
			return "err"
		}
		n := &ent{val: a.Val, flags: a.Flags, holder: a.Session}
		switch {
		case e == nil:
			n.lockIdx = 1
		case e.holder == a.Session:
			n.lockIdx = e.lockIdx
		case e.holder != "":
			return "false"
		default:
			n.lockIdx = e.lockIdx + 1
		}
		m.put(a.Key, n, idx)
		return "true"
	case "unlock":
		if a.Session == "" {
			return "err"
		}
		if e == nil || e.holder != a.Session {
			return "false"
		}
		m.put(a.Key, &ent{val: a.Val, flags: a.Flags, lockIdx: e.lockIdx}, idx)
		return "true"
	case "get":
		if e == nil {
			return "fail"
		}
	case "check-session":
		if e == nil || e.holder != a.Session {
			return "fail"
		}
	case "check-index":
		if e == nil || e.modify != a.ModIdx {
			return "fail"
		}
	case "check-not-exists":
		if e != nil {
			return "fail"
		}
	}
	return "ok"
}

func (r *RefMap) clone() *RefMap {
	c := &RefMap{m: map[string]*ent{}}
	for k, v := range r.m {
		x := *v
		c.m[k] = &x
	}
	return c
}

func (r *RefMap) resync(after *Snap) {
	r.m = map[string]*ent{}
	for _, e := range after.T.KVs {
		r.m[e.Key] = &ent{val: e.Value, flags: e.Flags, lockIdx: e.LockIndex, create: e.CreateIndex, modify: e.ModifyIndex, holder: e.Session}
	}
}

func (r *RefMap) diff(after *Snap) string {
	seen := map[string]bool{}
	for _, e := range after.T.KVs {
		seen[e.Key] = true
		x := r.m[e.Key]
		if x == nil {
			return fmt.Sprintf("key %q exists in the store but not in the reference map", e.Key)
		}
		if !bytes.Equal(x.val, e.Value) || x.flags != e.Flags || x.lockIdx != e.LockIndex || x.create != e.CreateIndex || x.modify != e.ModifyIndex || x.holder != e.Session {
			return fmt.Sprintf("key %q: store has val=%q flags=%d lock=%d create=%d modify=%d session=%q, reference map has val=%q flags=%d lock=%d create=%d modify=%d session=%q",
				e.Key, e.Value, e.Flags, e.LockIndex, e.CreateIndex, e.ModifyIndex, e.Session, x.val, x.flags, x.lockIdx, x.create, x.modify, x.holder)
		}
	}
	for k := range r.m {
		if !seen[k] {
			return fmt.Sprintf("key %q is in the reference map but missing from the store", k)
		}
	}
	return ""
}

func (r *RefMap) Check(run *hx.Run, before, after *Snap, op *Op, res string, replay []string) {
	live := func(id string) bool { return findSession(before, id) != nil }
	name := opName(op)
	switch {
	case op.Kind == "kv":
		want := stepKV(r, op.KV, op.Idx, live)
		got := res
		if strings.HasPrefix(res, "err:") {
			got = "err"
		}
		if got != want {
			run.Violate("kv:"+name+"-verdict", fmt.Sprintf("%s on key %q answered %s, a sequential map answers %s", name, op.KV.Key, res, want), replay)
			r.resync(after)
			return
		}
	case op.Kind == "txn":
		pure := true
		for i := range op.Txn {
			if op.Txn[i].Fam != 'k' {
				pure = false
			} else if v := op.Txn[i].Verb; (v == "delete-tree" || v == "get-tree") && strings.HasSuffix(op.Txn[i].KV.Key, "\x00") {
				pure = false // known finding kv:delete-tree-nul-terminated-prefix is reported on the single command only
			}
		}
		if !pure {
			// mixed transactions end sessions in ways the KV reference does not predict: resynchronise,
			// the successive-snapshot laws below still apply
			r.resync(after)
			break
		}
		work := r.clone()
		ok := true
		for i := range op.Txn {
			a := *op.Txn[i].KV
			a.Verb = op.Txn[i].Verb
			switch stepKV(work, &a, op.Idx, live) {
			case "false", "err", "fail":
				ok = false
			}
		}
		if ok != strings.HasPrefix(res, "ok:") {
			run.Violate("kv:txn-verdict", fmt.Sprintf("KV transaction answered %s, a sequential map says success=%v", res, ok), replay)
			r.resync(after)
			return
		}
		if ok {
			r.m = work.m
		}
	default:
		// sessions that ended in this step release or delete the keys they held
		for _, x := range endedSessions(before, after) {
			for k, e := range r.m {
				if e.holder != "" && strings.EqualFold(e.holder, x.ID) {
					if x.Behavior == structs.SessionKeysDelete {
						delete(r.m, k)
					} else {
						e.holder = ""
						e.modify = op.Idx
					}
				}
			}
		}
	}
	if op.Kind == "kv" && op.KV.Verb == "delete-tree" && strings.HasSuffix(op.KV.Key, "\x00") {
		// exactly this shape: the prefix ends in NUL and the key equal to the prefix without that NUL was deleted too
		k0 := op.KV.Key[:len(op.KV.Key)-1]
		if r.m[k0] != nil && findKV(after, k0) == nil {
			run.Violate("kv:delete-tree-nul-terminated-prefix", fmt.Sprintf("KVSDeleteTree(%q) also deleted key %q, which does not have that prefix", op.KV.Key, k0), replay)
			delete(r.m, k0)
		}
	}
	if d := r.diff(after); d != "" {
		run.Violate("kv:"+name+"-diverges-from-sequential-map", "after "+name+": "+d, replay)
		r.resync(after)
	}
	// the three laws, on successive snapshots (single commands; a transaction may delete and re-create a key)
	if op.Kind != "txn" {
		for _, b := range before.T.KVs {
			a := findKV(after, b.Key)
			if a == nil {
				continue
			}
			if a.CreateIndex != b.CreateIndex {
				run.Violate("kv:create-index-changed:"+name, fmt.Sprintf("key %q kept existing but CreateIndex went %d -> %d", b.Key, b.CreateIndex, a.CreateIndex), replay)
			}
			if b.Equal(a) && a.ModifyIndex != b.ModifyIndex {
				run.Violate("kv:noop-advanced-modify-index:"+name, fmt.Sprintf("key %q unchanged but ModifyIndex went %d -> %d", b.Key, b.ModifyIndex, a.ModifyIndex), replay)
			}
			if !b.Equal(a) && a.ModifyIndex != op.Idx {
				run.Violate("kv:change-without-modify-index:"+name, fmt.Sprintf("key %q changed but ModifyIndex is %d, not the command index %d", b.Key, a.ModifyIndex, op.Idx), replay)
			}
		}
	}
	if op.Kind == "kv" && res == "true" && (op.KV.Verb == "lock" || op.KV.Verb == "unlock") {
		b, a := findKV(before, op.KV.Key), findKV(after, op.KV.Key)
		if a != nil {
			var want uint64
			switch {
			case op.KV.Verb == "unlock":
				want = b.LockIndex
			case b == nil:
				want = 1
			case b.Session == op.KV.Session:
				want = b.LockIndex
			default:
				want = b.LockIndex + 1
			}
			if a.LockIndex != want {
				run.Violate("kv:lock-counter:"+name, fmt.Sprintf("key %q: LockIndex %d after %s, expected %d", a.Key, a.LockIndex, name, want), replay)
			}
		}
	}
}

// CheckReads compares KVSGet / KVSList with the table content (prefix = plain string prefix, order = byte order).
func CheckReads(run *hx.Run, w *World, snap *Snap, keys, prefixes []string, replay []string) {
	for _, k := range keys {
		if k == "" {
			continue
		}
		_, e, err := w.Store().KVSGet(nil, k, nil)
		want := findKV(snap, k)
		if err != nil || (e == nil) != (want == nil) || e != nil && !(e.Equal(want) && e.ModifyIndex == want.ModifyIndex && e.CreateIndex == want.CreateIndex) {
			run.Violate("kv:get-differs-from-content", fmt.Sprintf("KVSGet(%q) = %v, %v; table has %v", k, e, err, want), replay)
		}
	}
	for _, p := range prefixes {
		_, es, err := w.Store().KVSList(nil, p, nil)
		var want []string
		for _, e := range snap.T.KVs {
			if strings.HasPrefix(e.Key, p) {
				want = append(want, e.Key)
			}
		}
		sort.Strings(want)
		var got []string
		for _, e := range es {
			got = append(got, e.Key)
		}
		if err != nil || strings.Join(got, "\x01") != strings.Join(want, "\x01") {
			sig := "kv:list-differs-from-content"
			if strings.HasSuffix(p, "\x00") {
				// exactly this shape: the only extra key is the prefix without its trailing NUL
				k0 := p[:len(p)-1]
				w2 := append(append([]string(nil), want...), k0)
				sort.Strings(w2)
				if strings.Join(got, "\x01") == strings.Join(w2, "\x01") {
					sig = "kv:list-nul-terminated-prefix"
				}
			}
			run.Violate(sig, fmt.Sprintf("KVSList(%q) returned keys %q (err %v); keys with that prefix are %q", p, got, err, want), replay)
		}
	}
}

// ================================================================= C04: locks and session invalidation

type LockMon struct{}

func (LockMon) Reset() {}

func lc(s string) string { return strings.ToLower(s) }

func (LockMon) Check(run *hx.Run, before, after *Snap, op *Op, res string, replay []string) {
	name := opName(op)
	// --- LockInv on the real tables
	seenKey := map[string]bool{}
	for _, e := range after.T.KVs {
		if seenKey[e.Key] {
			run.Violate("lock:duplicate-key-row", fmt.Sprintf("key %q has two rows", e.Key), replay)
		}
		seenKey[e.Key] = true
		if b := findKV(before, e.Key); b != nil && b.Session == e.Session && findSession(before, e.Session) == nil {
			continue // already reported when it was introduced
		}
		if e.Session != "" && findSession(after, e.Session) == nil {
			run.Violate("lock:held-by-missing-session:"+name, fmt.Sprintf("after %s key %q is locked by session %q which does not exist", name, e.Key, e.Session), replay)
		}
	}
	for _, m := range after.T.SessionChecks {
		if findSession(after, m.Session) == nil && findSession(before, m.Session) != nil {
			run.Violate("lock:check-link-of-missing-session:"+name, fmt.Sprintf("session_checks row (%s,%s) names missing session %q", m.Node, m.CheckID, m.Session), replay)
		}
	}
	for _, q := range after.T.Queries {
		if q.Session != "" && findSession(after, q.Session) == nil && findSession(before, q.Session) != nil {
			run.Violate("lock:query-of-missing-session:"+name, fmt.Sprintf("prepared query %s names missing session %q", q.ID, q.Session), replay)
		}
	}
	// --- acquire / release verdicts
	if op.Kind == "kv" && (op.KV.Verb == "lock" || op.KV.Verb == "unlock") && op.KV.Key != "" {
		b := findKV(before, op.KV.Key)
		a := findKV(after, op.KV.Key)
		holder := ""
		if b != nil {
			holder = b.Session
		}
		if op.KV.Verb == "lock" {
			can := op.KV.Session != "" && findSession(before, op.KV.Session) != nil && (holder == "" || holder == op.KV.Session)
			if (res == "true") != can {
				run.Violate("lock:acquire-verdict", fmt.Sprintf("lock of %q by %q answered %s; session live=%v, holder before=%q", op.KV.Key, op.KV.Session, res,
					findSession(before, op.KV.Session) != nil, holder), replay)
			}
			if res == "true" && (a == nil || a.Session != op.KV.Session) {
				run.Violate("lock:acquire-not-recorded", fmt.Sprintf("lock of %q by %q succeeded but the key shows %v", op.KV.Key, op.KV.Session, a), replay)
			}
		} else {
			can := op.KV.Session != "" && b != nil && holder == op.KV.Session
			if (res == "true") != can {
				run.Violate("lock:release-verdict", fmt.Sprintf("unlock of %q by %q answered %s; holder before=%q", op.KV.Key, op.KV.Session, res, holder), replay)
			}
			if res == "true" && (a == nil || a.Session != "") {
				run.Violate("lock:release-not-recorded", fmt.Sprintf("unlock of %q succeeded but the key shows %v", op.KV.Key, a), replay)
			}
		}
	}
	// --- a held lock is lost only through unlock by the holder, deletion of the key, or the end of the session
	if op.Kind != "txn" {
		for _, b := range before.T.KVs {
			if b.Session == "" {
				continue
			}
			a := findKV(after, b.Key)
			if a == nil || a.Session == b.Session {
				continue
			}
			unlocked := op.Kind == "kv" && op.KV.Verb == "unlock" && op.KV.Key == b.Key && op.KV.Session == b.Session
			if !unlocked && findSession(after, b.Session) != nil {
				run.Violate("lock:holder-changed-without-release:"+name, fmt.Sprintf("key %q went from holder %q to %q although the session still exists", b.Key, b.Session, a.Session), replay)
			}
		}
	}
	// --- every session that ended in this step: keys released / deleted, links and queries gone, in the same step
	for _, x := range endedSessions(before, after) {
		for _, e := range after.T.KVs {
			if e.Session != "" && strings.EqualFold(e.Session, x.ID) {
				run.Violate("lock:session-ended-key-still-held:"+name, fmt.Sprintf("session %s ended in %s but key %q still names it", x.ID, name, e.Key), replay)
			}
		}
		if op.Kind != "txn" {
			for _, b := range before.T.KVs {
				if b.Session == "" || !strings.EqualFold(b.Session, x.ID) {
					continue
				}
				a := findKV(after, b.Key)
				if x.Behavior == structs.SessionKeysDelete && a != nil {
					run.Violate("lock:delete-behaviour-key-survived:"+name, fmt.Sprintf("session %s (behaviour delete) ended but key %q still exists", x.ID, b.Key), replay)
				}
				if x.Behavior == structs.SessionKeysRelease && (a == nil || a.Session != "" || !bytes.Equal(a.Value, b.Value) || a.LockIndex != b.LockIndex) {
					run.Violate("lock:release-behaviour-key-not-released:"+name, fmt.Sprintf("session %s (behaviour release) ended; key %q is now %v", x.ID, b.Key, a), replay)
				}
			}
		}
	}
	// --- the reasons a session must end
	nodeExists := func(s *Snap, n string) bool {
		for _, x := range s.T.Nodes {
			if lc(x.Node) == lc(n) {
				return true
			}
		}
		return false
	}
	findCheck := func(s *Snap, n, id string) *structs.HealthCheck {
		for _, c := range s.T.Checks {
			if lc(c.Node) == lc(n) && lc(string(c.CheckID)) == lc(id) {
				return c
			}
		}
		return nil
	}
	for _, x := range after.T.Sessions {
		if !nodeExists(after, x.Node) && (nodeExists(before, x.Node) || findSession(before, x.ID) == nil) {
			run.Violate("lock:session-outlived-node:"+name, fmt.Sprintf("session %s is bound to node %q which is gone", x.ID, x.Node), replay)
		}
	}
	for _, m := range before.T.SessionChecks {
		if findSession(after, m.Session) == nil || findSession(before, m.Session) == nil {
			continue
		}
		// the same session object survived this step (not re-created)
		if findSession(after, m.Session).CreateIndex != findSession(before, m.Session).CreateIndex {
			continue
		}
		cb, ca := findCheck(before, m.Node, m.CheckID), findCheck(after, m.Node, m.CheckID)
		if cb != nil && ca == nil {
			run.Violate("lock:session-outlived-check:"+name, fmt.Sprintf("check %s/%s was deleted but session %s bound to it still exists", m.Node, m.CheckID, m.Session), replay)
		}
		if cb != nil && ca != nil && cb.Status != "critical" && ca.Status == "critical" {
			run.Violate("lock:session-outlived-critical-check:"+name, fmt.Sprintf("check %s/%s went critical but session %s bound to it still exists", m.Node, m.CheckID, m.Session), replay)
		}
	}
}
