//go:build verif

package storex

// Additions for the C05 harness, round 5: the same commands sent through a caller-supplied "apply"
// (a real Raft in the layered cases, where the index of an entry is chosen by Raft and not by the
// harness), and the canonical rendering of a transaction answer with a caller-supplied error table (the
// RPC endpoint adds the pre-check errors to the state store's).

import (
	"fmt"

	"github.com/hashicorp/consul/agent/structs"
	"github.com/hashicorp/consul/api"
	"github.com/hashicorp/consul/internal/verifharness/hx"
	"github.com/hashicorp/consul/types"
)

// ExecVia sends the command through apply (which returns the FSM's answer — an error answer as an
// error value — and the index the entry was committed at); it stores that index in o.Idx, so that
// o.Line() names the index the implementation really used.
func (w *World) ExecVia(o *Op, apply func(t structs.MessageType, req any) (any, uint64)) (out string) {
	defer func() {
		if r := recover(); r != nil {
			out = fmt.Sprintf("panic(%s)", hx.EncS(fmt.Sprint(r)))
		}
	}()
	var t structs.MessageType
	var req any
	switch o.Kind {
	case "kv":
		t, req = structs.KVSRequestType, &structs.KVSRequest{Op: api.KVOp(o.KV.Verb), DirEnt: dirEnt(o.KV)}
	case "sc":
		t, req = structs.SessionRequestType, &structs.SessionRequest{Op: structs.SessionCreate, Session: sessionOf(o.Sess)}
	case "sd":
		t, req = structs.SessionRequestType, &structs.SessionRequest{Op: structs.SessionDestroy, Session: structs.Session{ID: o.SessID}}
	case "reg":
		r := o.Reg
		// the HTTP layer fills in the agent's datacenter for node operations; the layered world says "dc1" everywhere
		rr := &structs.RegisterRequest{Datacenter: "dc1", Node: r.Node.Name, ID: types.NodeID(r.Node.ID), Address: r.Node.Addr}
		if r.Svc != nil {
			s := svcOf(r.Svc)
			rr.Service = &s
		}
		for i := range r.Checks {
			c := chkOf(&r.Checks[i])
			rr.Checks = append(rr.Checks, &c)
		}
		t, req = structs.RegisterRequestType, rr
	case "dereg":
		t, req = structs.DeregisterRequestType, &structs.DeregisterRequest{Node: o.Dereg[0], ServiceID: o.Dereg[1], CheckID: types.CheckID(o.Dereg[2])}
	case "reap":
		t, req = structs.TombstoneRequestType, &structs.TombstoneRequest{Op: structs.TombstoneReap, ReapIndex: o.Reap}
	case "pqs":
		q := &structs.PreparedQuery{ID: o.PQ[0], Session: o.PQ[1], Service: structs.ServiceQuery{Service: "web"}}
		t, req = structs.PreparedQueryRequestType, &structs.PreparedQueryRequest{Op: structs.PreparedQueryCreate, Query: q}
	case "pqd":
		t, req = structs.PreparedQueryRequestType, &structs.PreparedQueryRequest{Op: structs.PreparedQueryDelete, Query: &structs.PreparedQuery{ID: o.PQ[0]}}
	case "txn":
		t, req = structs.TxnRequestType, &structs.TxnRequest{Ops: TxnOpsDC(o.Txn, "dc1")}
	default:
		panic("unknown op kind " + o.Kind)
	}
	resp, idx := apply(t, req)
	o.Idx = idx
	return canonAny(resp)
}

// TxnOps converts the harness's operation arguments into the RPC format.
func TxnOps(ts []TxnOpArg) structs.TxnOps { return txnOps(ts) }

// TxnOpsDC is TxnOps with the datacenter of node operations filled in (as the HTTP layer does).
func TxnOpsDC(ts []TxnOpArg, dc string) structs.TxnOps {
	ops := txnOps(ts)
	for _, o := range ops {
		if o.Node != nil {
			o.Node.Node.Datacenter = dc
		}
	}
	return ops
}

// TxnTokens renders the operations as the protocol's list token.
func TxnTokens(ts []TxnOpArg) string {
	toks := make([]string, len(ts))
	for i := range ts {
		toks[i] = ts[i].token()
	}
	return hx.EncList(toks)
}

// CanonTxnResults renders results like canonTxn does for a transaction without errors.
func CanonTxnResults(res structs.TxnResults) string { return canonTxn(res, nil) }

// CanonTxnErrors renders the error list with the given text -> enum table.
func CanonTxnErrors(errs structs.TxnErrors, mapErr func(string) string) string {
	t := make([]string, len(errs))
	for i, e := range errs {
		t[i] = fmt.Sprintf("%d:%s", e.OpIndex, mapErr(e.What))
	}
	return hx.EncList(t)
}
